(** Proofs for C11, part 3: the reconcile under typed faults AND concurrent store
    changes by other actors ([env]).

    Parts 1 and 2 (BinderLogic.v, Binder.v) treat runs nobody else interferes
    with ([no_env]) and give the strong statements (side objects in place,
    recovery).  Here every lemma holds for EVERY environment oracle
    [env : nat -> list estep] and every fault oracle over the typed faults.

    Method: state invariants that every step - the other actors' changes right
    before the call, then the call, reached or failed - preserves, for every call
    of a syntactic class ([calls_ok]: the program issues only calls of the class);
    the few places where the in-memory pod is written are done by hand. *)
Set Default Timeout 60.
From Coq Require Import List Arith Bool PeanoNat Lia.
From KaiV Require Import Model.Binder Model.BinderSpec Proofs.BinderLogic Proofs.Binder.
Import ListNotations.

(** * Programs that issue only calls of a class *)
Inductive calls_ok {A} (ok : call -> bool) (SM : Prop) : prog A -> Prop :=
| co_ret a : calls_ok ok SM (Ret a)
| co_api c k : ok c = true -> (forall r, calls_ok ok SM (k r)) -> calls_ok ok SM (Api c k)
| co_getmem k : (forall m, calls_ok ok SM (k m)) -> calls_ok ok SM (GetMem k)
| co_setmem m k : SM -> calls_ok ok SM k -> calls_ok ok SM (SetMem m k)
| co_order gs k : (forall o, calls_ok ok SM (k o)) -> calls_ok ok SM (Order gs k)
| co_mark b k : SM -> calls_ok ok SM k -> calls_ok ok SM (Mark b k).

Lemma co_bind {A B} ok SM (m : prog A) (f : A -> prog B) :
  calls_ok ok SM m -> (forall a, calls_ok ok SM (f a)) -> calls_ok ok SM (bind m f).
Proof.
  intros Hm Hf. induction Hm; cbn [bind]; try (constructor; auto; fail). apply Hf.
Qed.

Lemma co_weaken {A} (ok ok' : call -> bool) (SM SM' : Prop) (p : prog A) :
  (forall c, ok c = true -> ok' c = true) -> (SM -> SM') -> calls_ok ok SM p -> calls_ok ok' SM' p.
Proof. intros H1 H2 Hp. induction Hp; constructor; auto. Qed.

(** the classes *)
Definition is_bind (c : call) : bool := match c with ABind _ _ => true | _ => false end.
Definition is_status (c : call) : bool := match c with APatchBRStatus _ _ => true | _ => false end.
Definition is_label_add (c : call) : bool := match c with APatchLabels _ _ => true | _ => false end.
Definition is_cm_create (c : call) : bool := match c with ACreateCM _ _ => true | _ => false end.
Definition is_del_self (c : call) : bool := match c with ADeletePod n _ => n =? 0 | _ => false end.
(** anything but the binding call *)
Definition nobind (c : call) : bool := negb (is_bind c).
(** ... and but the request's status patch *)
Definition plain (c : call) : bool := negb (is_bind c) && negb (is_status c).
(** ... and but a patch adding GPU-group labels (config maps may be created) *)
Definition tame_cm (c : call) : bool := plain c && negb (is_label_add c).
(** ... and but the creation of a config map *)
Definition tame (c : call) : bool := tame_cm c && negb (is_cm_create c).

Lemma tame_tame_cm c : tame c = true -> tame_cm c = true.
Proof. unfold tame. intros H. apply andb_true_iff in H. tauto. Qed.
Lemma tame_cm_plain c : tame_cm c = true -> plain c = true.
Proof. unfold tame_cm. intros H. apply andb_true_iff in H. tauto. Qed.
Lemma plain_nobind c : plain c = true -> nobind c = true.
Proof. unfold plain, nobind. intros H. apply andb_true_iff in H. tauto. Qed.

(** ** the programs of the reconcile, by class *)
Ltac co_step :=
  first
    [ apply co_ret
    | apply co_getmem; intros ?
    | apply co_order; intros ?
    | apply co_api; [reflexivity | intros ?]
    | match goal with |- calls_ok _ _ (match ?x with _ => _ end) => destruct x end
    | match goal with |- calls_ok _ _ (if ?x then _ else _) => destruct x end ].

(** the calls the reservation sync, the reservation itself and the config-map plugin issue: like [tame] /
    [tame_cm], and neither the label removal of Rollback nor the received-type patch *)
Definition is_label_rm (c : call) : bool := match c with ARemoveLabels _ _ => true | _ => false end.
Definition is_recv (c : call) : bool := match c with APatchRecv _ => true | _ => false end.
Definition calm (c : call) : bool := tame c && negb (is_label_rm c) && negb (is_recv c).
Definition calm_cm (c : call) : bool := tame_cm c && negb (is_label_rm c) && negb (is_recv c).
Lemma calm_tame c : calm c = true -> tame c = true.
Proof. unfold calm. intros H. apply andb_true_iff in H as (H & _). apply andb_true_iff in H. tauto. Qed.
Lemma calm_cm_tame_cm c : calm_cm c = true -> tame_cm c = true.
Proof. unfold calm_cm. intros H. apply andb_true_iff in H as (H & _). apply andb_true_iff in H. tauto. Qed.

Lemma co_delete_running_c SM ps : calls_ok calm SM (delete_running ps).
Proof.
  induction ps as [| p ps IH]; cbn [delete_running]; [constructor |].
  destruct (p_phase p); auto. apply co_api; [reflexivity |]. intros r. destruct r; try apply co_ret. exact IH.
Qed.

Lemma co_delete_rsv_c SM n r : calls_ok calm SM (delete_rsv n r).
Proof. unfold delete_rsv. repeat co_step. Qed.

Lemma co_sync_for_pods_c SM ps : calls_ok calm SM (sync_for_pods ps).
Proof.
  unfold sync_for_pods.
  destruct (filter (fun p => negb (p_rsv p) && active_phase p) ps); destruct (last_rsv ps).
  - apply co_delete_rsv_c.
  - constructor.
  - constructor.
  - apply co_delete_running_c.
Qed.

Lemma co_sync_group_c SM g : calls_ok calm SM (sync_group g).
Proof.
  unfold sync_group. apply co_api; [reflexivity |]. intros r. destruct r; try apply co_ret.
  apply co_api; [reflexivity |]. intros r2. destruct r2; try apply co_ret. apply co_sync_for_pods_c.
Qed.

Lemma co_sync_each_c SM gs : calls_ok calm SM (sync_each gs).
Proof.
  induction gs as [| g gs IH]; cbn [sync_each]; [constructor |].
  apply co_bind; [apply co_sync_group_c |]. intros e. destruct e; [constructor | exact IH].
Qed.

Lemma co_sync_for_node_c SM : calls_ok calm SM sync_for_node.
Proof.
  unfold sync_for_node. apply co_api; [reflexivity |]. intros r. destruct r; try apply co_ret.
  apply co_order. intros o. apply co_sync_each_c.
Qed.

Lemma co_create_and_wait_c SM g : calls_ok calm SM (create_and_wait g).
Proof. unfold create_and_wait. repeat co_step. Qed.

Lemma co_upsert_cm_c SM x : calls_ok calm_cm SM (upsert_cm x).
Proof. unfold upsert_cm. repeat co_step. Qed.

Lemma co_update_cm_c SM x f : calls_ok calm_cm SM (update_cm x f).
Proof. unfold update_cm. repeat co_step. Qed.

Lemma co_gpusharing_prebind_c SM sc idxs : calls_ok calm_cm SM (gpusharing_prebind sc idxs).
Proof.
  unfold gpusharing_prebind. destruct (negb (sc_cmann sc)); [constructor |].
  apply co_bind; [apply co_upsert_cm_c |]. intros e1. destruct e1; [constructor |].
  apply co_bind; [apply co_upsert_cm_c |]. intros e2. destruct e2; [constructor |].
  apply co_bind; [apply co_update_cm_c |]. intros e3. destruct e3; [constructor |].
  apply co_update_cm_c.
Qed.

Lemma co_delete_running SM ps : calls_ok tame SM (delete_running ps).
Proof. apply (co_weaken calm tame SM SM); [apply calm_tame | auto | apply co_delete_running_c]. Qed.

Lemma co_delete_rsv SM n r : calls_ok tame SM (delete_rsv n r).
Proof. apply (co_weaken calm tame SM SM); [apply calm_tame | auto | apply co_delete_rsv_c]. Qed.

Lemma co_sync_for_pods SM ps : calls_ok tame SM (sync_for_pods ps).
Proof. apply (co_weaken calm tame SM SM); [apply calm_tame | auto | apply co_sync_for_pods_c]. Qed.

Lemma co_sync_group SM g : calls_ok tame SM (sync_group g).
Proof. apply (co_weaken calm tame SM SM); [apply calm_tame | auto | apply co_sync_group_c]. Qed.

Lemma co_sync_each SM gs : calls_ok tame SM (sync_each gs).
Proof. apply (co_weaken calm tame SM SM); [apply calm_tame | auto | apply co_sync_each_c]. Qed.

Lemma co_sync_for_node SM : calls_ok tame SM sync_for_node.
Proof. apply (co_weaken calm tame SM SM); [apply calm_tame | auto | apply co_sync_for_node_c]. Qed.

Lemma co_create_and_wait SM g : calls_ok tame SM (create_and_wait g).
Proof. apply (co_weaken calm tame SM SM); [apply calm_tame | auto | apply co_create_and_wait_c]. Qed.

Lemma co_upsert_cm SM x : calls_ok tame_cm SM (upsert_cm x).
Proof. apply (co_weaken calm_cm tame_cm SM SM); [apply calm_cm_tame_cm | auto | apply co_upsert_cm_c]. Qed.

Lemma co_update_cm SM x f : calls_ok tame_cm SM (update_cm x f).
Proof. apply (co_weaken calm_cm tame_cm SM SM); [apply calm_cm_tame_cm | auto | apply co_update_cm_c]. Qed.

Lemma co_gpusharing_prebind SM sc idxs : calls_ok tame_cm SM (gpusharing_prebind sc idxs).
Proof. apply (co_weaken calm_cm tame_cm SM SM); [apply calm_cm_tame_cm | auto | apply co_gpusharing_prebind_c]. Qed.

(** the deferred status update: no binding call *)
Lemma co_deferred SM sc b e : calls_ok nobind SM (deferred sc b e).
Proof.
  unfold deferred. apply co_bind.
  - match goal with |- calls_ok _ _ (if ?x then _ else _) => destruct x end; [constructor |].
    apply co_api; [reflexivity |]. intros r. constructor.
  - intros e'. apply co_getmem. intros m.
    match goal with |- calls_ok _ _ (if ?x then _ else _) => destruct x end; [| constructor].
    apply co_api; [reflexivity |]. intros r. constructor.
Qed.

(** * One step, with the other actors' changes before it *)
Section Env.
  Variable faults : nat -> fault.
  Variable env : nat -> list estep.
  Variable dp : nat -> option nat.
  Variable ord : nat -> list gid.
  Notation exec := (Binder.exec faults env dp ord).
  Notation step := (Binder.step faults env dp).

  Lemma exec_bind_e {A B} (m : prog A) (f : A -> prog B) s :
    exec (bind m f) s = let '(s', a) := exec m s in exec (f a) s'.
  Proof.
    revert s. induction m as [a|c k IH|k IH|x k IH|gs k IH|b k IH]; intros s; simpl.
    - reflexivity.
    - destruct (step c s) as [s' r]. apply IH.
    - apply IH.
    - apply IH.
    - apply IH.
    - apply IH.
  Qed.

  (** the store call number [s_idx s] is served on *)
  Definition pre_store (s : state) : store := apply_env (env (s_idx s)) (s_store s).

  Definition injected (c : call) (s s' : state) (r : resp) : Prop :=
    (exists k, r = RErr k) /\ s_store s' = pre_store s /\ s_nfail s' = S (s_nfail s)
    /\ (exists o, (o = FailO \/ o = CrashO) /\ s_log s' = (obs_of c, o) :: s_log s)
    /\ (s_crashed s = true -> s_crashed s' = true).

  Definition served (c : call) (s s' : state) (r : resp) : Prop :=
    (exists ans, do_call c ans (pre_store s) = (s_store s', r)) /\ s_nfail s' = s_nfail s
    /\ s_log s' = (obs_of c, resp_outcome r) :: s_log s
    /\ s_crashed s = false /\ s_crashed s' = false.

  Lemma step_e c s s' r :
    step c s = (s', r) ->
    s_mem s' = s_mem s /\ s_idx s' = S (s_idx s) /\ s_mark s' = s_mark s /\ s_mark_end s' = s_mark_end s
    /\ (injected c s s' r \/ served c s s' r).
  Proof.
    unfold Binder.step. fold (pre_store s). intros H.
    destruct (s_crashed s) eqn:Ec.
    - inversion H; subst; clear H. cbn [s_mem s_idx s_mark s_mark_end].
      repeat (split; [reflexivity |]). left. unfold injected. cbn [s_store s_nfail s_log s_crashed].
      split; [eexists; reflexivity |]. split; [reflexivity |]. split; [reflexivity |].
      split; [exists FailO; auto | auto].
    - destruct (faults (s_idx s)) eqn:Ef.
      + destruct (do_call c (if is_watch c then dp (s_watches s) else None) (pre_store s)) as [st' r'] eqn:Ed.
        inversion H; subst; clear H. cbn [s_mem s_idx s_mark s_mark_end].
        repeat (split; [reflexivity |]). right. unfold served. cbn [s_store s_nfail s_log s_crashed].
        split; [eexists; exact Ed |]. repeat split; auto.
      + inversion H; subst; clear H. cbn [s_mem s_idx s_mark s_mark_end].
        repeat (split; [reflexivity |]). left. unfold injected. cbn [s_store s_nfail s_log s_crashed].
        split; [eexists; reflexivity |]. split; [reflexivity |]. split; [reflexivity |].
        split; [exists FailO; auto | intros Hx; congruence].
      + inversion H; subst; clear H. cbn [s_mem s_idx s_mark s_mark_end].
        repeat (split; [reflexivity |]). left. unfold injected. cbn [s_store s_nfail s_log s_crashed].
        split; [eexists; reflexivity |]. split; [reflexivity |]. split; [reflexivity |].
        split; [exists CrashO; auto | auto].
  Qed.

  (** ** Invariants that every step of a class preserves *)
  Record stable (ok : call -> bool) (SM : Prop) (I : state -> Prop) : Prop := {
    st_step : forall c s s' r, ok c = true -> I s -> step c s = (s', r) -> I s';
    st_mem : SM -> forall s m, I s -> I (set_mem s m);
    st_sync : forall s, I s -> I (bump_syncs s);
    st_mark : SM -> forall b s, I s -> I (set_mark b s) }.

  Lemma exec_inv {A} ok SM I (p : prog A) :
    stable ok SM I -> calls_ok ok SM p -> forall s, I s -> I (fst (exec p s)).
  Proof.
    intros HS Hp. induction Hp as [a | c k Hc Hk IH | k Hk IH | m k Hsm Hk IH | gs k Hk IH | b k Hsm Hk IH];
      intros s Hs; cbn [Binder.exec].
    - exact Hs.
    - destruct (step c s) as [s' r] eqn:E. apply IH. eapply (st_step _ _ _ HS); eauto.
    - apply IH, Hs.
    - apply IH. exact (st_mem _ _ _ HS Hsm s m Hs).
    - apply IH. exact (st_sync _ _ _ HS s Hs).
    - apply IH. exact (st_mark _ _ _ HS Hsm b s Hs).
  Qed.

  Lemma stable_and ok SM I1 I2 :
    stable ok SM I1 -> stable ok SM I2 -> stable ok SM (fun s => I1 s /\ I2 s).
  Proof.
    intros H1 H2. split.
    - intros c s s' r Hc (A & B) E. split; [eapply (st_step _ _ _ H1) | eapply (st_step _ _ _ H2)]; eauto.
    - intros Hsm s m (A & B). split; [apply (st_mem _ _ _ H1) | apply (st_mem _ _ _ H2)]; auto.
    - intros s (A & B). split; [apply (st_sync _ _ _ H1) | apply (st_sync _ _ _ H2)]; auto.
    - intros Hsm b s (A & B). split; [apply (st_mark _ _ _ H1) | apply (st_mark _ _ _ H2)]; auto.
  Qed.

  Lemma stable_weaken (ok ok' : call -> bool) (SM SM' : Prop) I :
    (forall c, ok' c = true -> ok c = true) -> (SM' -> SM) -> stable ok SM I -> stable ok' SM' I.
  Proof.
    intros H1 H2 HS. split.
    - intros c s s' r Hc. apply (st_step _ _ _ HS). auto.
    - intros Hsm. apply (st_mem _ _ _ HS). auto.
    - apply (st_sync _ _ _ HS).
    - intros Hsm. apply (st_mark _ _ _ HS). auto.
  Qed.

  (** invariants of the store alone *)
  Definition env_stable (P : store -> Prop) : Prop := forall e st, P st -> P (env_step e st).
  Definition call_stable (ok : call -> bool) (P : store -> Prop) : Prop :=
    forall c ans st st' r, ok c = true -> P st -> do_call c ans st = (st', r) -> P st'.

  Lemma apply_env_stable P l st : env_stable P -> P st -> P (apply_env l st).
  Proof.
    intros HP. revert st. induction l as [| e l IH]; intros st Hst; [exact Hst |].
    cbn [apply_env fold_left]. apply IH. apply HP, Hst.
  Qed.

  Lemma stable_store ok P :
    env_stable P -> call_stable ok P -> stable ok True (fun s => P (s_store s)).
  Proof.
    intros He Hc. split.
    - intros c s s' r Hok Hs E. destruct (step_e _ _ _ _ E) as (_ & _ & _ & _ & [Hi | Hr]).
      + destruct Hi as (_ & -> & _). unfold pre_store. apply apply_env_stable; auto.
      + destruct Hr as ((ans & Hd) & _). apply (Hc c ans (pre_store s) (s_store s') r Hok); [| exact Hd].
        unfold pre_store. apply apply_env_stable; auto.
    - intros _ s m Hs. exact Hs.
    - intros s Hs. exact Hs.
    - intros _ b s Hs. exact Hs.
  Qed.
End Env.

(** * What the calls and the other actors can do to the parts of the store the statements talk about *)
Ltac dcall H :=
  cbn [do_call] in H;
  repeat match type of H with
         | context [if ?x then _ else _] => destruct x eqn:?
         | context [match ?x with _ => _ end] => destruct x eqn:?
         end;
  inversion H; subst; clear H.

(** labels only shrink *)
Definition lab_le (a b : pod) : Prop :=
  (forall g, In g (p_multi a) -> In g (p_multi b)) /\ (forall g, p_plain a = Some g -> p_plain b = Some g).

Lemma lab_le_refl p : lab_le p p.
Proof. split; auto. Qed.

Lemma lab_le_blank a b : p_plain a = None -> p_multi a = [] -> lab_le a b.
Proof. intros H1 H2. split; [rewrite H2; intros g [] | rewrite H1; discriminate]. Qed.

Ltac lab_done :=
  repeat match goal with x : cmref |- _ => destruct x end;
  solve [ apply lab_le_refl
        | apply lab_le_blank; reflexivity
        | split; cbn [self set_self set_alive set_br set_others cm_put with_labels with_recv with_node with_cond with_term p_multi p_plain];
          [ intros g Hg; try (apply filter_In in Hg; destruct Hg); auto
          | intros g Hg; auto; try discriminate ] ].

Lemma do_call_labels c ans st st' r :
  is_label_add c = false -> do_call c ans st = (st', r) -> lab_le (self st') (self st).
Proof.
  intros Hc H. destruct c; try discriminate; dcall H; lab_done.
Qed.

Lemma env_step_labels e st : lab_le (self (env_step e st)) (self st).
Proof.
  destruct e; cbn [env_step];
    repeat match goal with |- context [if ?x then _ else _] => destruct x end; lab_done.
Qed.

Lemma do_call_uid c ans st st' r : do_call c ans st = (st', r) -> p_uid (self st') = p_uid (self st).
Proof.
  intros H. destruct c; dcall H; try reflexivity. all: try (destruct x; reflexivity). all: try (destruct c; reflexivity).
Qed.

Lemma do_call_br c ans st st' r :
  is_status c = false -> do_call c ans st = (st', r) -> br st' = br st \/ br st' = None.
Proof.
  intros Hc H. destruct c; try discriminate; dcall H; auto. all: try (destruct x; auto). all: try (destruct c; auto).
Qed.

Lemma do_call_cm c ans st st' r x :
  is_cm_create c = false -> do_call c ans st = (st', r) ->
  opt_is_some (cm_get x st') = true -> opt_is_some (cm_get x st) = true.
Proof.
  intros Hc H. destruct c; try discriminate; dcall H; auto.
  all: repeat match goal with y : cmref |- _ => destruct y end.
  all: cbn [cm_get cm_put cm_cap cm_evar opt_is_some] in *; auto; try congruence.
  all: intros Hx; try discriminate; try congruence.
  all: match goal with H : _ = Some _ |- _ => rewrite H; reflexivity end.
Qed.

Lemma env_step_cm e st x : cm_get x (env_step e st) = cm_get x st.
Proof.
  destruct e, x; cbn [env_step]; repeat match goal with |- context [if ?x then _ else _] => destruct x end; reflexivity.
Qed.

(** a dead consumer carries no labels *)
Definition dead_blank (st : store) : Prop :=
  self_alive st = false -> p_plain (self st) = None /\ p_multi (self st) = [].

Lemma do_call_dead_blank c ans st st' r : dead_blank st -> do_call c ans st = (st', r) -> dead_blank st'.
Proof.
  unfold dead_blank. intros Hd H. destruct c; dcall H; auto.
  all: try (destruct x; auto). all: try (destruct c; auto).
  all: cbn [self_alive set_self set_alive self p_plain p_multi] in *; try discriminate; auto.
  all: intros Hx; try congruence.
Qed.

Lemma env_step_dead_blank e st : dead_blank st -> dead_blank (env_step e st).
Proof.
  unfold dead_blank. intros Hd. destruct e; cbn [env_step];
    repeat match goal with |- context [if ?x then _ else _] => destruct x eqn:? end;
    cbn [self_alive set_self set_alive set_br set_others self with_node with_term p_plain p_multi dead_pod fresh_pod] in *;
    auto; try discriminate.
  all: intros Hx; congruence.
Qed.

(** more classes *)
(** never a binding call to another node *)
Definition okb (c : call) : bool := match c with ABind false _ => false | _ => true end.
(** no binding call, no label added, no config map created (the status patch is allowed) *)
Definition quiet (c : call) : bool := negb (is_bind c) && negb (is_label_add c) && negb (is_cm_create c).

Lemma tame_quiet c : tame c = true -> quiet c = true.
Proof. destruct c; try reflexivity; discriminate. Qed.
Lemma tame_nostatus c : tame c = true -> is_status c = false.
Proof. destruct c; try reflexivity; discriminate. Qed.
Lemma tame_cm_nostatus c : tame_cm c = true -> is_status c = false.
Proof. destruct c; try reflexivity; discriminate. Qed.
Lemma tame_cm_nolabel c : tame_cm c = true -> is_label_add c = false.
Proof. destruct c; try reflexivity; discriminate. Qed.
Lemma tame_cm_nobind c : tame_cm c = true -> nobind c = true.
Proof. destruct c; try reflexivity; discriminate. Qed.
Lemma tame_nocreate c : tame c = true -> is_cm_create c = false.
Proof. destruct c; try reflexivity; discriminate. Qed.
Lemma quiet_nobind c : quiet c = true -> nobind c = true.
Proof. destruct c; try reflexivity; discriminate. Qed.
Lemma quiet_nolabel c : quiet c = true -> is_label_add c = false.
Proof. destruct c; try reflexivity; discriminate. Qed.
Lemma quiet_nocreate c : quiet c = true -> is_cm_create c = false.
Proof. destruct c; try reflexivity; discriminate. Qed.
Lemma nobind_okb c : nobind c = true -> okb c = true.
Proof. destruct c; try reflexivity; discriminate. Qed.

Lemma co_deferred_quiet SM sc b e : calls_ok quiet SM (deferred sc b e).
Proof.
  unfold deferred. apply co_bind.
  - match goal with |- calls_ok _ _ (if ?x then _ else _) => destruct x end; [constructor |].
    apply co_api; [reflexivity |]. intros r. constructor.
  - intros e'. apply co_getmem. intros m.
    match goal with |- calls_ok _ _ (if ?x then _ else _) => destruct x end; [| constructor].
    apply co_api; [reflexivity |]. intros r. constructor.
Qed.

Lemma nobind_obs c o : nobind c = true -> is_bind_ok (obs_of c, o) = false /\ is_bind_elsewhere (obs_of c, o) = false.
Proof. destruct c; try discriminate; intros _; split; reflexivity. Qed.

Lemma okb_obs c o : okb c = true -> is_bind_elsewhere (obs_of c, o) = false.
Proof. destruct c; try reflexivity. destruct selected; [reflexivity | discriminate]. Qed.

Section Inv.
  Variable faults : nat -> fault.
  Variable env : nat -> list estep.
  Variable dp : nat -> option nat.
  Variable ord : nat -> list gid.
  Variable sc : scen.
  Variable init : store.
  Variable b : brst.          (* the request as the reconciler read it *)
  Notation exec := (Binder.exec faults env dp ord).
  Notation step := (Binder.step faults env dp).
  Notation stable := (stable faults env dp).
  Notation env_stable := env_stable.
  Notation call_stable := call_stable.

  Definition u0 : nat := p_uid (self init).

  (** ** invariants of the store *)
  Definition uid_ge (st : store) : Prop := u0 <= p_uid (self st).
  (** the consumer the request was written for, if it is still there, sits on the request's node *)
  Definition here (st : store) : Prop := self_alive st = true -> p_uid (self st) = u0 -> p_node (self st) = 1.
  Definition IS2 (st : store) : Prop := uid_ge st /\ here st.
  Definition brq (st : store) : Prop := br st = None \/ br st = Some b.
  Definition br_gone (st : store) : Prop := br st = None.
  Definition lab_clean (st : store) : Prop := lab_le (self st) (self init).
  Definition cm_clean (st : store) : Prop :=
    forall x, opt_is_some (cm_get x st) = true -> opt_is_some (cm_get x init) = true.
  Definition no_cm (x : cmref) (st : store) : Prop := cm_get x st = None.

  Lemma lab_le_trans a c d : lab_le a c -> lab_le c d -> lab_le a d.
  Proof. intros (A1 & A2) (B1 & B2). split; auto. Qed.

  Lemma uid_ge_env : env_stable uid_ge.
  Proof.
    intros e st H. unfold uid_ge in *. destruct e; cbn [env_step];
      repeat match goal with |- context [if ?x then _ else _] => destruct x end;
      cbn [self set_self set_alive set_br set_others with_node with_term p_uid dead_pod fresh_pod]; auto.
  Qed.
  Lemma uid_ge_call ok : call_stable ok uid_ge.
  Proof. intros c ans st st' r _ H E. unfold uid_ge. rewrite (do_call_uid _ _ _ _ _ E). exact H. Qed.

  Lemma IS2_env : env_stable IS2.
  Proof.
    intros e st (Hu & Hh). split; [apply uid_ge_env, Hu |]. unfold here, uid_ge in *.
    destruct e; cbn [env_step];
      repeat match goal with |- context [if ?x then _ else _] => destruct x eqn:? end;
      cbn [self self_alive set_self set_alive set_br set_others with_node with_term p_uid p_node dead_pod fresh_pod]; auto;
      try discriminate.
    all: intros Ha Hq; try congruence; try lia.
    all: repeat match goal with H : _ && _ = true |- _ => apply andb_true_iff in H; destruct H end.
    all: repeat match goal with H : (_ =? 0) = true |- _ => apply Nat.eqb_eq in H end.
    all: try (assert (Hx : p_node (self st) = 1) by (apply Hh; congruence); lia).
    all: try (apply Hh; congruence).
  Qed.
  Lemma IS2_call : call_stable okb IS2.
  Proof.
    intros c ans st st' r Hok (Hu & Hh) E. split; [eapply uid_ge_call; eauto |]. unfold here in *.
    destruct c; try (destruct selected; [| discriminate]); dcall E; auto.
    all: repeat match goal with y : cmref |- _ => destruct y end.
    all: cbn [self self_alive set_self set_alive cm_put set_br set_others with_labels with_recv with_node with_cond p_uid p_node] in *; auto;
      try discriminate.
    all: intros Ha Hq; congruence.
  Qed.

  Lemma brq_env : env_stable brq.
  Proof.
    intros e st H. unfold brq in *. destruct e; cbn [env_step];
      repeat match goal with |- context [if ?x then _ else _] => destruct x end;
      cbn [br set_self set_alive set_br set_others]; auto.
  Qed.
  Lemma brq_call ok : (forall c, ok c = true -> is_status c = false) -> call_stable ok brq.
  Proof.
    intros Hk c ans st st' r Hok H E. unfold brq in *.
    destruct (do_call_br _ _ _ _ _ (Hk c Hok) E) as [-> | ->]; auto.
  Qed.

  Lemma br_gone_env : env_stable br_gone.
  Proof.
    intros e st H. unfold br_gone in *. destruct e; cbn [env_step];
      repeat match goal with |- context [if ?x then _ else _] => destruct x end;
      cbn [br set_self set_alive set_br set_others]; auto.
  Qed.
  Lemma br_gone_call ok : call_stable ok br_gone.
  Proof.
    intros c ans st st' r _ H E. unfold br_gone in *. destruct c; dcall E; auto.
    all: repeat match goal with y : cmref |- _ => destruct y end; cbn [br set_self set_alive cm_put set_br set_others] in *; auto; congruence.
  Qed.

  Lemma lab_clean_env : env_stable lab_clean.
  Proof. intros e st H. eapply lab_le_trans; [apply env_step_labels | exact H]. Qed.
  Lemma lab_clean_call ok : (forall c, ok c = true -> is_label_add c = false) -> call_stable ok lab_clean.
  Proof.
    intros Hk c ans st st' r Hok H E. eapply lab_le_trans; [eapply do_call_labels; eauto | exact H].
  Qed.

  Lemma cm_clean_env : env_stable cm_clean.
  Proof. intros e st H x. rewrite env_step_cm. apply H. Qed.
  Lemma cm_clean_call ok : (forall c, ok c = true -> is_cm_create c = false) -> call_stable ok cm_clean.
  Proof. intros Hk c ans st st' r Hok H E x Hx. apply H. eapply do_call_cm; eauto. Qed.

  Lemma no_cm_env x : env_stable (no_cm x).
  Proof. intros e st H. unfold no_cm. rewrite env_step_cm. exact H. Qed.
  Lemma no_cm_call ok x : (forall c, ok c = true -> is_cm_create c = false) -> call_stable ok (no_cm x).
  Proof.
    intros Hk c ans st st' r Hok H E. unfold no_cm in *.
    destruct (cm_get x st') eqn:Eg; [| reflexivity].
    pose proof (do_call_cm _ _ _ _ _ x (Hk c Hok) E) as Hx. rewrite Eg, H in Hx. specialize (Hx eq_refl). discriminate.
  Qed.

  Lemma dead_blank_env : env_stable dead_blank.
  Proof. intros e st. apply env_step_dead_blank. Qed.
  Lemma dead_blank_call ok : call_stable ok dead_blank.
  Proof. intros c ans st st' r _ H E. eapply do_call_dead_blank; eauto. Qed.
End Inv.

Lemma do_call_rpod c ans st st' p : do_call c ans st = (st', RPod p) -> p = self st'.
Proof. intros H. destruct c; dcall H; reflexivity. Qed.

Section Run.
  Variable faults : nat -> fault.
  Variable env : nat -> list estep.
  Variable dp : nat -> option nat.
  Variable ord : nat -> list gid.
  Variable sc : scen.
  Variable init : store.
  Variable b : brst.          (* the request as the reconciler read it *)
  Variable mk0 : option (nat * nat).   (* the ghost marks while this part of the reconcile runs *)
  Variable mke0 : option nat.
  Notation exec := (Binder.exec faults env dp ord).
  Notation step := (Binder.step faults env dp).
  Notation stable := (stable faults env dp).
  Notation pre_store := (pre_store env).

  (** ** invariants of the state *)
  Definition LB (n : nat) (s : state) : Prop := binds (s_log s) = n.
  Definition NoElse (s : state) : Prop := existsb is_bind_elsewhere (s_log s) = false.
  Definition NF (n : nat) (s : state) : Prop := n <= s_nfail s.
  Definition MKS (m : option (nat * nat)) (me : option nat) (s : state) : Prop := s_mark s = m /\ s_mark_end s = me.

  Lemma LB_stable n : stable nobind True (LB n).
  Proof.
    split.
    - intros c s s' r Hc H E. unfold LB in *. destruct (step_e _ _ _ _ _ _ _ E) as (_ & _ & _ & _ & [Hi | Hr]).
      + destruct Hi as (_ & _ & _ & (o & _ & ->) & _). rewrite binds_cons.
        destruct (nobind_obs c o Hc) as (-> & _). exact H.
      + destruct Hr as (_ & _ & -> & _). rewrite binds_cons.
        destruct (nobind_obs c (resp_outcome r) Hc) as (-> & _). exact H.
    - intros _ s m H. exact H.
    - intros s H. exact H.
    - intros _ b0 s H. exact H.
  Qed.

  Lemma NoElse_stable : stable okb True NoElse.
  Proof.
    split.
    - intros c s s' r Hc H E. unfold NoElse in *. destruct (step_e _ _ _ _ _ _ _ E) as (_ & _ & _ & _ & [Hi | Hr]).
      + destruct Hi as (_ & _ & _ & (o & _ & ->) & _). cbn [existsb]. rewrite (okb_obs c o Hc), H. reflexivity.
      + destruct Hr as (_ & _ & -> & _). cbn [existsb]. rewrite (okb_obs c _ Hc), H. reflexivity.
    - intros _ s m H. exact H.
    - intros s H. exact H.
    - intros _ b0 s H. exact H.
  Qed.

  Lemma NF_stable ok n : stable ok True (NF n).
  Proof.
    split.
    - intros c s s' r _ H E. unfold NF in *. destruct (step_e _ _ _ _ _ _ _ E) as (_ & _ & _ & _ & [Hi | Hr]).
      + destruct Hi as (_ & _ & -> & _). lia.
      + destruct Hr as (_ & -> & _). exact H.
    - intros _ s m H. exact H.
    - intros s H. exact H.
    - intros _ b0 s H. exact H.
  Qed.

  Lemma MKS_stable ok m me : stable ok False (MKS m me).
  Proof.
    split.
    - intros c s s' r _ (H1 & H2) E. destruct (step_e _ _ _ _ _ _ _ E) as (_ & _ & Hk & Hke & _).
      unfold MKS. rewrite Hk, Hke. split; assumption.
    - intros [].
    - intros s H. exact H.
    - intros [].
  Qed.

  (** labels the server has and the attempt's starting point did not are known to the in-memory pod;
      config maps that were not there before can only exist for a shared-GPU request with the annotation *)
  Definition J' (st : store) (m : mem) : Prop :=
    (forall g, In g (p_multi (self st)) -> In g (p_multi (self init)) \/ In g (m_multi m))
    /\ (forall g, p_plain (self st) = Some g -> p_plain (self init) = Some g \/ opt_is_some (m_plain m) = true)
    /\ (sc_fraction sc = false -> lab_le (self st) (self init)).
  Definition K' (st : store) : Prop := KF sc \/ cm_clean init st.
  Definition JK (s : state) : Prop := J' (s_store s) (s_mem s) /\ K' (s_store s).

  Lemma J'_le st st' m : lab_le (self st') (self st) -> J' st m -> J' st' m.
  Proof.
    intros (L1 & L2) (J1 & J2 & J3). split; [| split].
    - intros g Hg. apply J1, L1, Hg.
    - intros g Hg. apply J2, L2, Hg.
    - intros Hf. eapply lab_le_trans; [split; eauto | apply J3, Hf].
  Qed.

  Lemma J'_refresh st m : J' st m -> J' st (mem_of (self st)).
  Proof.
    intros (_ & _ & J3). split; [| split; [| exact J3]].
    - intros g Hg. right. exact Hg.
    - intros g Hg. right. cbn [mem_of m_plain]. rewrite Hg. reflexivity.
  Qed.

  Lemma J'_env st m l : J' st m -> J' (apply_env l st) m.
  Proof.
    revert st. induction l as [| e l IH]; intros st H; [exact H |].
    cbn [apply_env fold_left]. apply IH. eapply J'_le; [apply env_step_labels | exact H].
  Qed.

  Lemma K'_env st l : K' st -> K' (apply_env l st).
  Proof.
    intros [H | H]; [left; exact H | right]. apply apply_env_stable; [apply cm_clean_env | exact H].
  Qed.

  (** the attempt so far: nothing bound, the request as it was read (or gone), labels and config maps accounted for *)
  Definition W (s : state) : Prop :=
    LB 0 s /\ NoElse s /\ MKS mk0 mke0 s /\ JK s /\ brq b (s_store s) /\ dead_blank (s_store s) /\ uid_ge init (s_store s).

  (** one call that is neither the binding call nor the status patch: [W] survives if the call keeps [JK] *)
  Lemma W_step_gen c s s' r :
    nobind c = true -> is_status c = false -> W s -> step c s = (s', r) ->
    (forall ans st', do_call c ans (pre_store s) = (st', r) -> dead_blank (pre_store s) ->
       J' (pre_store s) (s_mem s) -> K' (pre_store s) -> J' st' (s_mem s) /\ K' st') ->
    W s'.
  Proof.
    intros Hnb Hns (H1 & H2 & H3 & (H4 & H4') & H5 & H6 & H7) E Hjk.
    assert (Hok : okb c = true) by (apply nobind_okb, Hnb).
    split; [eapply (st_step _ _ _ _ _ _ (LB_stable 0)); eauto |].
    split; [eapply (st_step _ _ _ _ _ _ NoElse_stable); eauto |].
    split; [eapply (st_step _ _ _ _ _ _ (MKS_stable (fun _ => true) mk0 mke0)); eauto |].
    assert (Hpre : J' (pre_store s) (s_mem s) /\ K' (pre_store s) /\ brq b (pre_store s)
                   /\ dead_blank (pre_store s) /\ uid_ge init (pre_store s)).
    { unfold BinderEnv.pre_store. split; [apply J'_env, H4 |]. split; [apply K'_env, H4' |].
      split; [apply apply_env_stable; [apply brq_env | exact H5] |].
      split; [apply apply_env_stable; [apply dead_blank_env | exact H6] |].
      apply apply_env_stable; [apply uid_ge_env | exact H7]. }
    destruct Hpre as (P1 & P2 & P3 & P4 & P5).
    destruct (step_e _ _ _ _ _ _ _ E) as (Hm & _ & _ & _ & [Hi | Hr]).
    - destruct Hi as (_ & Hst & _). unfold JK. rewrite Hst, Hm. auto 10.
    - destruct Hr as ((ans & Hd) & _). destruct (Hjk ans _ Hd P4 P1 P2) as (Q1 & Q2).
      unfold JK. rewrite Hm. split; [split; assumption |].
      split; [eapply (brq_call b (fun c => negb (is_status c))); eauto;
              [intros c0 Hc0; apply negb_true_iff, Hc0 | rewrite Hns; reflexivity] |].
      split; [eapply do_call_dead_blank; eauto |].
      unfold uid_ge. rewrite (do_call_uid _ _ _ _ _ Hd). exact P5.
  Qed.

  Lemma W_stable_tame_cm : KF sc -> stable tame_cm False W.
  Proof.
    intros HK. split.
    - intros c s s' r Hc HW E.
      apply (W_step_gen c s s' r (tame_cm_nobind c Hc) (tame_cm_nostatus c Hc) HW E).
      intros ans st' Hd _ HJ _. split; [| left; exact HK].
      eapply J'_le; [eapply do_call_labels; eauto; apply tame_cm_nolabel, Hc | exact HJ].
    - intros [].
    - intros s H. exact H.
    - intros [].
  Qed.

  Lemma W_stable_tame : stable tame False W.
  Proof.
    split.
    - intros c s s' r Hc HW E. pose proof (tame_tame_cm c Hc) as Hc'.
      apply (W_step_gen c s s' r (tame_cm_nobind c Hc') (tame_cm_nostatus c Hc') HW E).
      intros ans st' Hd _ HJ HK. split.
      + eapply J'_le; [eapply do_call_labels; eauto; apply tame_cm_nolabel, Hc' | exact HJ].
      + destruct HK as [HK | HK]; [left; exact HK | right].
        eapply (cm_clean_call init tame); eauto. apply tame_nocreate.
    - intros [].
    - intros s H. exact H.
    - intros [].
  Qed.

  Lemma W_set_mem s m : W s -> J' (s_store s) m -> W (set_mem s m).
  Proof.
    intros (H1 & H2 & H3 & (H4 & H4') & H5 & H6 & H7) HJ. unfold W, LB, NoElse, MKS, JK. cbn [set_mem s_log s_mark s_mark_end s_store s_mem].
    auto 10.
  Qed.

  Lemma J'_mem_le st m m' :
    J' st m -> (forall g, In g (m_multi m) -> In g (m_multi m')) ->
    (opt_is_some (m_plain m) = true -> opt_is_some (m_plain m') = true) -> J' st m'.
  Proof.
    intros (J1 & J2 & J3) H1 H2. split; [| split; [| exact J3]].
    - intros g Hg. destruct (J1 g Hg); auto.
    - intros g Hg. destruct (J2 g Hg); auto.
  Qed.

  Lemma K'_nocreate c ans st st' r :
    is_cm_create c = false -> do_call c ans st = (st', r) -> K' st -> K' st'.
  Proof.
    intros Hc Hd [HK | HK]; [left; exact HK | right].
    eapply (cm_clean_call init (fun c => negb (is_cm_create c))); eauto.
    - intros c0 H0. apply negb_true_iff, H0.
    - rewrite Hc. reflexivity.
  Qed.

  Lemma W_sync_group_ret {A} g (a : A) s : W s -> W (fst (exec (_ <- sync_group g ;; Ret a) s)).
  Proof.
    intros HW. apply (exec_inv faults env dp ord tame False W); [apply W_stable_tame | | exact HW].
    apply co_bind; [apply co_sync_group | intros; constructor].
  Qed.

  (** updatePodGPUGroup: the in-memory pod learns the label before the patch is sent *)
  Lemma label_consumer_env g i s :
    W s -> sc_fraction sc = true -> W (fst (exec (label_consumer sc g i) s)).
  Proof.
    intros HW Hfr. unfold label_consumer. cbn [Binder.exec].
    set (m := s_mem s).
    match goal with |- context [Binder.step _ _ _ ?c ?st] => set (c0 := c); set (sa := st) end.
    assert (HWa : W sa).
    { apply (W_set_mem s _ HW). destruct HW as (_ & _ & _ & (HJ & _) & _).
      eapply J'_mem_le; [exact HJ | |]; fold m; destruct (sc_multi sc); cbn [mem_with_labels m_multi m_plain]; auto.
      intros g0 Hg0. apply add_set_In. auto. }
    destruct (Binder.step faults env dp c0 sa) as [s1 r1] eqn:E1.
    assert (HW1 : W s1).
    { apply (W_step_gen c0 sa s1 r1 eq_refl eq_refl HWa E1). intros ans st' Hd Hdb HJ HK.
      split; [| eapply K'_nocreate; eauto; reflexivity].
      unfold c0 in Hd. cbn [do_call] in Hd.
      destruct (self_alive (pre_store sa)) eqn:Ea; injection Hd as <- _; [| exact HJ].
      destruct HJ as (J1 & J2 & J3). split; [| split; [| intros Hx; congruence]]; cbn [self set_self with_labels p_multi p_plain].
      - intros g0 Hg0. fold m in Hg0.
        assert (Hmem : s_mem sa = if sc_multi sc then mem_with_labels m (m_plain m) (add_set g (m_multi m))
                                  else mem_with_labels m (Some g) (m_multi m)) by reflexivity.
        rewrite Hmem in J1 |- *. destruct (sc_multi sc); cbn [mem_with_labels m_multi] in *.
        + destruct (mem_nat g (m_multi m)); [apply J1, Hg0 |].
          apply add_set_In in Hg0 as [-> | Hg0]; [right; apply add_set_In; auto | apply J1, Hg0].
        + apply J1, Hg0.
      - intros g0 Hg0. fold m in Hg0.
        assert (Hmem : s_mem sa = if sc_multi sc then mem_with_labels m (m_plain m) (add_set g (m_multi m))
                                  else mem_with_labels m (Some g) (m_multi m)) by reflexivity.
        rewrite Hmem in J2 |- *. destruct (sc_multi sc); cbn [mem_with_labels m_plain] in *.
        + apply J2, Hg0.
        + right. reflexivity. }
    assert (Hfail : forall P : prog (option nat), P = (_ <- sync_group g ;; Ret None) -> W (fst (exec P s1))).
    { intros P ->. apply W_sync_group_ret, HW1. }
    destruct r1; try (apply Hfail; reflexivity).
    (* the patch was answered with the pod: the in-memory pod is the server's *)
    cbn [Binder.exec fst].
    match goal with |- W ?st => change st with (set_mem s1 (mem_of p)) end.
    apply (W_set_mem s1 _ HW1).
    assert (Hp : p = self (s_store s1)).
    { destruct (step_e _ _ _ _ _ _ _ E1) as (_ & _ & _ & _ & [Hi | Hr]).
      - destruct Hi as ((k & Hk) & _). discriminate.
      - destruct Hr as ((ans & Hd) & _). eapply do_call_rpod; eauto. }
    rewrite Hp. eapply J'_refresh. destruct HW1 as (_ & _ & _ & (HJ & _) & _). exact HJ.
  Qed.

  Lemma W_tame {A} (p : prog A) s : calls_ok tame False p -> W s -> W (fst (exec p s)).
  Proof. intros Hp HW. exact (exec_inv faults env dp ord tame False W p W_stable_tame Hp s HW). Qed.

  (** ReserveGpuDevice *)
  Lemma reserve_gpu_env g s :
    W s -> sc_fraction sc = true -> W (fst (exec (reserve_gpu sc g) s)).
  Proof.
    intros HW Hfr. unfold reserve_gpu. cbn [Binder.exec].
    destruct (Binder.step faults env dp (AList (LRsv g)) s) as [s1 r1] eqn:E1.
    assert (HW1 : W s1) by (eapply (st_step _ _ _ _ _ _ W_stable_tame); eauto; reflexivity).
    destruct r1 as [| k | | l | | | | |]; try exact HW1.
    destruct l as [| p l].
    - rewrite exec_bind_e.
      pose proof (W_tame (create_and_wait g) s1 (co_create_and_wait False g) HW1) as HW2.
      destruct (exec (create_and_wait g) s1) as [s2 oi]. cbn [fst] in HW2.
      destruct oi as [i |]; [apply label_consumer_env; auto | exact HW2].
    - destruct (p_idx p) as [i |]; [apply label_consumer_env; auto | exact HW1].
  Qed.

  Lemma reserve_loop_env gs : sc_fraction sc = true -> forall acc s,
    W s -> W (fst (exec (reserve_loop sc gs acc) s)).
  Proof.
    intros Hfr. induction gs as [| g gs IH]; intros acc s HW; cbn [reserve_loop]; [exact HW |].
    rewrite exec_bind_e. pose proof (reserve_gpu_env g s HW Hfr) as HW1.
    destruct (exec (reserve_gpu sc g) s) as [s1 oi]. cbn [fst] in HW1.
    destruct oi as [i |]; [apply IH, HW1 | exact HW1].
  Qed.

  (** reserveGPUs *)
  Lemma reserve_gpus_env s :
    W s -> sc_fraction sc = true ->
    W (fst (exec (reserve_gpus sc) s))
    /\ (fst (snd (exec (reserve_gpus sc) s)) = EInvalid -> sc_groups sc = []).
  Proof.
    intros HW Hfr. unfold reserve_gpus. destruct (sc_groups sc) as [| g gs] eqn:Eg.
    - cbn [Binder.exec fst snd]. auto.
    - rewrite exec_bind_e. pose proof (reserve_loop_env (g :: gs) Hfr [] s HW) as HW1.
      destruct (exec (reserve_loop sc (g :: gs) []) s) as [s1 r]. cbn [fst] in HW1.
      destruct r; cbn [Binder.exec fst snd]; split; auto; discriminate.
  Qed.

  (** gpusharing.PreBind: config maps are only created for a shared-GPU request with the annotation *)
  Lemma gpusharing_prebind_env idxs s :
    W s -> sc_fraction sc = true -> W (fst (exec (gpusharing_prebind sc idxs) s)).
  Proof.
    intros HW Hfr. destruct (sc_cmann sc) eqn:Ec.
    - assert (HK : KF sc) by (unfold KF; rewrite Hfr, Ec; reflexivity).
      exact (exec_inv faults env dp ord tame_cm False W _ (W_stable_tame_cm HK) (co_gpusharing_prebind False sc idxs) s HW).
    - unfold gpusharing_prebind. rewrite Ec. exact HW.
  Qed.

  (** what holds once this reconcile's binding call went through *)
  Definition Bound (s : state) : Prop :=
    LB 1 s /\ NoElse s /\ MKS mk0 mke0 s /\ IS2 init (s_store s) /\ brq b (s_store s).

  Lemma bind_tail_env u s :
    W s ->
    let s' := fst (exec (bind_tail sc u) s) in
    let e := snd (exec (bind_tail sc u) s) in
    (e = ENone /\ Bound s') \/ (e = EErr /\ W s').
  Proof.
    intros HW. unfold bind_tail. cbn [Binder.exec].
    destruct (Binder.step faults env dp (APatchRecv (recv_type sc)) s) as [s1 r1] eqn:E1.
    assert (HW1 : W s1) by (eapply (st_step _ _ _ _ _ _ W_stable_tame); eauto; reflexivity).
    destruct r1; try (right; split; [reflexivity | exact HW1]).
    assert (Hp : p = self (s_store s1)).
    { destruct (step_e _ _ _ _ _ _ _ E1) as (_ & _ & _ & _ & [Hi | Hr]).
      - destruct Hi as ((k & Hk) & _). discriminate.
      - destruct Hr as ((ans & Hd) & _). eapply do_call_rpod; eauto. }
    cbn [Binder.exec].
    match goal with |- context [Binder.step _ _ _ ?c ?st] => set (c0 := c); change st with (set_mem s1 (mem_of p)) end.
    set (sa := set_mem s1 (mem_of p)).
    assert (HWa : W sa).
    { apply (W_set_mem s1 _ HW1). rewrite Hp. eapply J'_refresh. destruct HW1 as (_ & _ & _ & (HJ & _) & _). exact HJ. }
    destruct (Binder.step faults env dp c0 sa) as [s2 r2] eqn:E2. cbn [Binder.exec fst snd].
    destruct HWa as (A1 & A2 & A3 & (A4 & A4') & A5 & A6 & A7).
    destruct (step_e _ _ _ _ _ _ _ E2) as (Hm2 & _ & Hk2 & Hke2 & Hcase).
    assert (Hpre : J' (pre_store sa) (s_mem sa) /\ K' (pre_store sa) /\ brq b (pre_store sa)
                   /\ dead_blank (pre_store sa) /\ uid_ge init (pre_store sa)).
    { unfold BinderEnv.pre_store. split; [apply J'_env, A4 |]. split; [apply K'_env, A4' |].
      split; [apply apply_env_stable; [apply brq_env | exact A5] |].
      split; [apply apply_env_stable; [apply dead_blank_env | exact A6] |].
      apply apply_env_stable; [apply uid_ge_env | exact A7]. }
    destruct Hpre as (P1 & P2 & P3 & P4 & P5).
    assert (Hmk : MKS mk0 mke0 s2) by (unfold MKS in *; rewrite Hk2, Hke2; exact A3).
    destruct Hcase as [Hi | Hr].
    - (* the binding call failed without reaching the API *)
      destruct Hi as ((k & ->) & Hst & _ & (o & Ho & Hlog) & _). right. split; [reflexivity |].
      unfold W, LB, NoElse, JK. rewrite Hlog, Hst, Hm2, binds_cons. cbn [existsb obs_of c0 is_bind_elsewhere].
      assert (Hbo : is_bind_ok (CBind true, o) = false) by (destruct Ho; subst; reflexivity).
      rewrite Hbo. auto 10.
    - destruct Hr as ((ans & Hd) & _ & Hlog & _). unfold c0 in Hd. cbn [do_call] in Hd.
      destruct (self_alive (pre_store sa)) eqn:Ea.
      2: { injection Hd as Hst <-. right. split; [reflexivity |].
           unfold W, LB, NoElse, JK. rewrite Hlog, <- Hst, Hm2, binds_cons. cbn [existsb obs_of c0 is_bind_elsewhere is_bind_ok resp_outcome].
           auto 10. }
      destruct (negb (u =? p_uid (self (pre_store sa)))).
      { injection Hd as Hst <-. right. split; [reflexivity |].
        unfold W, LB, NoElse, JK. rewrite Hlog, <- Hst, Hm2, binds_cons. cbn [existsb obs_of c0 is_bind_elsewhere is_bind_ok resp_outcome].
        auto 10. }
      destruct (p_term (self (pre_store sa))).
      { injection Hd as Hst <-. right. split; [reflexivity |].
        unfold W, LB, NoElse, JK. rewrite Hlog, <- Hst, Hm2, binds_cons. cbn [existsb obs_of c0 is_bind_elsewhere is_bind_ok resp_outcome].
        auto 10. }
      destruct (p_node (self (pre_store sa)) =? 0).
      2: { injection Hd as Hst <-. right. split; [reflexivity |].
           unfold W, LB, NoElse, JK. rewrite Hlog, <- Hst, Hm2, binds_cons. cbn [existsb obs_of c0 is_bind_elsewhere is_bind_ok resp_outcome].
           auto 10. }
      (* bound *)
      injection Hd as Hst <-. left. split; [reflexivity |].
      unfold Bound, LB, NoElse. rewrite Hlog, <- Hst, binds_cons. cbn [existsb obs_of c0 is_bind_elsewhere is_bind_ok resp_outcome].
      unfold LB in A1. rewrite A1. split; [reflexivity |]. split; [exact A2 |]. split; [exact Hmk |].
      split; [| exact P3].
      split; [exact P5 |]. unfold here. cbn [self set_self with_node p_node]. auto.
  Qed.

  Lemma bind_rest_env u idxs s :
    W s ->
    let s' := fst (exec (bind_rest sc u idxs) s) in
    let e := snd (exec (bind_rest sc u idxs) s) in
    (e = ENone /\ Bound s') \/ (e = EErr /\ W s').
  Proof.
    intros HW. unfold bind_rest. cbn [Binder.exec].
    match goal with |- context [Binder.exec _ _ _ _ _ ?st] => change st with (set_mem s (mem_with_node (s_mem s) 1)) end.
    set (sa := set_mem s (mem_with_node (s_mem s) 1)).
    assert (HWa : W sa).
    { apply (W_set_mem s _ HW). destruct HW as (_ & _ & _ & (HJ & _) & _).
      eapply J'_mem_le; [exact HJ | |]; cbn [mem_with_node m_multi m_plain]; auto. }
    destruct (sc_k8s_ok sc); cbn [negb].
    2: { cbn [Binder.exec fst snd]. right. split; [reflexivity |].
         match goal with |- W ?st => change st with (set_mem sa (mem_with_node (s_mem sa) 0)) end.
         apply (W_set_mem sa _ HWa). destruct HWa as (_ & _ & _ & (HJ & _) & _).
         eapply J'_mem_le; [exact HJ | |]; cbn [mem_with_node m_multi m_plain]; auto. }
    rewrite exec_bind_e.
    assert (Hpre : W (fst (exec (if sc_fraction sc then gpusharing_prebind sc idxs else Ret false) sa))).
    { destruct (sc_fraction sc) eqn:Efr; [apply gpusharing_prebind_env; auto | exact HWa]. }
    destruct (exec (if sc_fraction sc then gpusharing_prebind sc idxs else Ret false) sa) as [s1 e1]. cbn [fst] in Hpre.
    destruct e1; [cbn [Binder.exec fst snd]; right; split; [reflexivity | exact Hpre] |].
    apply bind_tail_env, Hpre.
  Qed.

  (** Binder.Bind *)
  Lemma bind_prog_env s :
    W s ->
    let s' := fst (exec (bind_prog sc bind_result_code false) s) in
    let e := snd (exec (bind_prog sc bind_result_code false) s) in
    (e = ENone /\ Bound s') \/ (e = EErr /\ W s')
    \/ (e = EInvalid /\ W s' /\ sc_fraction sc = true /\ sc_groups sc = []).
  Proof.
    intros HW. rewrite bind_prog_eq. cbn [Binder.exec]. rewrite exec_bind_e.
    pose proof (W_tame sync_for_node s (co_sync_for_node False) HW) as HW1.
    destruct (exec sync_for_node s) as [s1 e0]. cbn [fst] in HW1.
    destruct e0; [cbn [Binder.exec fst snd]; right; left; split; [reflexivity | exact HW1] |].
    rewrite exec_bind_e.
    assert (Hres : W (fst (exec (if sc_fraction sc then reserve_gpus sc else Ret (ENone, [])) s1))
                   /\ (fst (snd (exec (if sc_fraction sc then reserve_gpus sc else Ret (ENone, [])) s1)) = EInvalid ->
                       sc_fraction sc = true /\ sc_groups sc = [])).
    { destruct (sc_fraction sc) eqn:Efr.
      - destruct (reserve_gpus_env s1 HW1 Efr) as (A & B). split; [exact A | auto].
      - cbn [Binder.exec fst snd]. split; [exact HW1 | discriminate]. }
    destruct (exec (if sc_fraction sc then reserve_gpus sc else Ret (ENone, [])) s1) as [s2 r]. cbn [fst snd] in Hres.
    destruct Hres as (HW2 & Hinv).
    destruct (fst r) eqn:Er.
    - destruct (bind_rest_env (m_uid (s_mem s)) (snd r) s2 HW2) as [H | H]; [left; exact H | right; left; exact H].
    - cbn [Binder.exec fst snd]. right. left. auto.
    - cbn [Binder.exec fst snd]. right. right. destruct (Hinv eq_refl). auto.
  Qed.
End Run.


(** * The side objects that sit on the pod itself (GPU-group labels, received-type annotation), under interleavings *)
(** anything but the binding call, a patch of the GPU-group labels (adding or removing) and the received-type patch *)
Definition still (c : call) : bool :=
  negb (is_bind c) && negb (is_label_add c) && negb (is_label_rm c) && negb (is_recv c).
Lemma calm_cm_still c : calm_cm c = true -> still c = true.
Proof. destruct c; try reflexivity; discriminate. Qed.
Lemma calm_still c : calm c = true -> still c = true.
Proof. destruct c; try reflexivity; discriminate. Qed.

Lemma co_deferred_still SM sc b e : calls_ok still SM (deferred sc b e).
Proof.
  unfold deferred. apply co_bind.
  - match goal with |- calls_ok _ _ (if ?x then _ else _) => destruct x end; [constructor |].
    apply co_api; [reflexivity |]. intros r. constructor.
  - intros e'. apply co_getmem. intros m.
    match goal with |- calls_ok _ _ (if ?x then _ else _) => destruct x end; [| constructor].
    apply co_api; [reflexivity |]. intros r. constructor.
Qed.

Section LabS.
  Variable faults : nat -> fault.
  Variable env : nat -> list estep.
  Variable dp : nat -> option nat.
  Variable ord : nat -> list gid.
  Variable sc : scen.
  Variable init : store.
  Notation exec := (Binder.exec faults env dp ord).
  Notation step := (Binder.step faults env dp).
  Notation stable := (stable faults env dp).
  Notation pre_store := (pre_store env).

  (** the pod in the store is the one the request was written for *)
  Definition mine (st : store) : Prop := self_alive st = true /\ p_uid (self st) = u0 init.
  Definition same_pod_side (a c : store) : Prop :=
    p_plain (self a) = p_plain (self c) /\ p_multi (self a) = p_multi (self c) /\ p_recv (self a) = p_recv (self c).

  Lemma env_step_mine_back e st :
    uid_ge init st -> mine (env_step e st) -> mine st /\ same_pod_side (env_step e st) st.
  Proof.
    unfold uid_ge, mine, same_pod_side. intros Hu. destruct e; cbn [env_step];
      repeat match goal with |- context [if ?x then _ else _] => destruct x eqn:? end;
      cbn [self self_alive set_self set_alive set_br set_others with_node with_term p_uid p_plain p_multi p_recv dead_pod fresh_pod];
      intros (Ha & Hq); try discriminate.
    all: try (exfalso; lia).
    all: try (split; [split; congruence | repeat split; reflexivity]).
  Qed.

  Lemma apply_env_mine_back l : forall st,
    uid_ge init st -> mine (apply_env l st) -> mine st /\ same_pod_side (apply_env l st) st.
  Proof.
    induction l as [| e l IH]; intros st Hu Hm; [split; [exact Hm | unfold same_pod_side; auto] |].
    cbn [apply_env fold_left] in *.
    destruct (IH (env_step e st) (uid_ge_env init e st Hu) Hm) as (M1 & (A1 & A2 & A3)).
    destruct (env_step_mine_back e st Hu M1) as (M0 & (B1 & B2 & B3)).
    split; [exact M0 |]. unfold same_pod_side.
    split; [exact (eq_trans A1 B1) |]. split; [exact (eq_trans A2 B2) | exact (eq_trans A3 B3)].
  Qed.

  Lemma do_call_mine_back c ans st st' r :
    still c = true -> do_call c ans st = (st', r) -> mine st' -> mine st /\ same_pod_side st' st.
  Proof.
    unfold mine, same_pod_side. intros Hc H. destruct c; try discriminate; dcall H.
    all: repeat match goal with y : cmref |- _ => destruct y end.
    all: cbn [self self_alive set_self set_alive cm_put set_br set_others with_cond p_uid p_plain p_multi p_recv] in *.
    all: intros (Ha & Hq); try discriminate; try congruence; auto.
  Qed.

  (** the attempt's labels so far are on the pod (if it is still that pod), and the in-memory pod knows them *)
  Definition Q (done : list gid) (s : state) : Prop :=
    uid_ge init (s_store s)
    /\ (mine (s_store s) ->
        Lab sc done (self (s_store s))
        /\ m_plain (s_mem s) = p_plain (self (s_store s)) /\ m_multi (s_mem s) = p_multi (self (s_store s))).

  Lemma Lab_side done a c : p_plain a = p_plain c -> p_multi a = p_multi c -> Lab sc done c -> Lab sc done a.
  Proof. unfold Lab. intros -> ->. auto. Qed.

  Definition QS (done : list gid) (st : store) (m : mem) : Prop :=
    uid_ge init st
    /\ (mine st -> Lab sc done (self st) /\ m_plain m = p_plain (self st) /\ m_multi m = p_multi (self st)).

  Lemma Q_QS done s : Q done s <-> QS done (s_store s) (s_mem s).
  Proof. reflexivity. Qed.

  Lemma QS_env done st m l : QS done st m -> QS done (apply_env l st) m.
  Proof.
    intros (Hu & H). split; [apply apply_env_stable; [apply uid_ge_env | exact Hu] |].
    intros Hm. destruct (apply_env_mine_back l st Hu Hm) as (M0 & (A1 & A2 & _)).
    destruct (H M0) as (L & P1 & P2). split; [eapply Lab_side; eauto |]. split; congruence.
  Qed.

  Lemma QS_call done c ans st st' r m :
    still c = true -> do_call c ans st = (st', r) -> QS done st m -> QS done st' m.
  Proof.
    intros Hc Hd (Hu & H). split; [unfold uid_ge; rewrite (do_call_uid _ _ _ _ _ Hd); exact Hu |].
    intros Hm. destruct (do_call_mine_back _ _ _ _ _ Hc Hd Hm) as (M0 & (A1 & A2 & _)).
    destruct (H M0) as (L & P1 & P2). split; [eapply Lab_side; eauto |]. split; congruence.
  Qed.

  Lemma Q_stable done : stable still False (Q done).
  Proof.
    split.
    - intros c s s' r Hc HQ E. apply Q_QS in HQ. apply Q_QS.
      destruct (step_e _ _ _ _ _ _ _ E) as (Hm & _ & _ & _ & [Hi | Hr]); rewrite Hm.
      + destruct Hi as (_ & -> & _). unfold BinderEnv.pre_store. apply QS_env, HQ.
      + destruct Hr as ((ans & Hd) & _). eapply QS_call; eauto. unfold BinderEnv.pre_store. apply QS_env, HQ.
    - intros [].
    - intros s H. exact H.
    - intros [].
  Qed.

  Lemma Q_still {A} done (p : prog A) s : calls_ok still False p -> Q done s -> Q done (fst (exec p s)).
  Proof. intros Hp H. exact (exec_inv faults env dp ord still False _ p (Q_stable done) Hp s H). Qed.

  Lemma Lab_app_multi done g p :
    sc_multi sc = true -> Lab sc done p -> In g (p_multi p) -> Lab sc (done ++ [g]) p.
  Proof.
    unfold Lab. intros ->. intros H Hg x Hx. apply in_app_iff in Hx as [Hx | [<- | []]]; auto.
  Qed.

  Lemma Lab_app_plain done g p :
    sc_multi sc = false -> p_plain p = Some g -> Lab sc (done ++ [g]) p.
  Proof.
    unfold Lab. intros ->. intros H x Hx. rewrite last_opt_app in Hx. injection Hx as <-. exact H.
  Qed.

  (** updatePodGPUGroup puts the group's label on the pod *)
  Lemma label_consumer_lab g i done s :
    Q done s -> snd (exec (label_consumer sc g i) s) <> None ->
    Q (done ++ [g]) (fst (exec (label_consumer sc g i) s)).
  Proof.
    intros HQ. unfold label_consumer. cbn [Binder.exec].
    set (m := s_mem s).
    match goal with |- context [Binder.step _ _ _ ?c ?st] => set (c0 := c); set (sa := st) end.
    destruct (Binder.step faults env dp c0 sa) as [s1 r1] eqn:E1.
    assert (Hnone : forall s2, snd (exec (_ <- sync_group g ;; Ret (@None nat)) s2) = None).
    { intros s2. rewrite exec_bind_e. destruct (exec (sync_group g) s2). reflexivity. }
    destruct r1; try (intros Hx; exfalso; apply Hx; apply Hnone).
    intros _. cbn [Binder.exec fst].
    destruct (step_e _ _ _ _ _ _ _ E1) as (_ & _ & _ & _ & [Hi | Hr]).
    { destruct Hi as ((k & Hk) & _). discriminate. }
    destruct Hr as ((ans & Hd) & _).
    pose proof (do_call_rpod _ _ _ _ _ Hd) as Hp.
    apply Q_QS. cbn [s_store s_mem]. destruct HQ as (Hu & HQ).
    assert (Hu1 : uid_ge init (s_store s1)).
    { unfold uid_ge. rewrite (do_call_uid _ _ _ _ _ Hd). unfold BinderEnv.pre_store.
      apply apply_env_stable; [apply uid_ge_env | exact Hu]. }
    split; [exact Hu1 |]. intros Hm. rewrite Hp. split; [| split; reflexivity].
    unfold c0 in Hd. cbn [do_call] in Hd.
    destruct (self_alive (pre_store sa)) eqn:Ea; [| discriminate].
    injection Hd as Hst _. rewrite <- Hst in Hm |- *. cbn [self set_self] in *.
    assert (Hmp : mine (pre_store sa)).
    { destruct Hm as (_ & Hq). split; [exact Ea | exact Hq]. }
    destruct (apply_env_mine_back _ _ Hu Hmp) as (M0 & (A1 & A2 & _)).
    destruct (HQ M0) as (L & P1 & P2). fold m in P1, P2.
    unfold BinderEnv.pre_store in *. change (s_store sa) with (s_store s) in *.
    destruct (sc_multi sc) eqn:Emu.
    - unfold Lab in L |- *. rewrite Emu in *. cbn [with_labels p_multi]. intros x Hx.
      destruct (mem_nat g (m_multi m)) eqn:Eg.
      + apply in_app_iff in Hx as [Hx | [<- | []]].
        * rewrite A2. apply L, Hx.
        * rewrite A2, <- P2. apply mem_nat_In, Eg.
      + apply add_set_In. apply in_app_iff in Hx as [Hx | [<- | []]];
          [right; rewrite A2; apply L, Hx | left; reflexivity].
    - apply Lab_app_plain; [exact Emu |]. cbn [with_labels p_plain].
      destruct (opt_nat_eqb (m_plain m) (Some g)) eqn:Eq; [| reflexivity].
      apply opt_nat_eqb_eq in Eq. congruence.
  Qed.

  Lemma co_still_calm {A} (p : prog A) : calls_ok calm False p -> calls_ok still False p.
  Proof. apply co_weaken; [apply calm_still | auto]. Qed.

  (** ReserveGpuDevice *)
  Lemma reserve_gpu_lab g done s :
    Q done s -> snd (exec (reserve_gpu sc g) s) <> None -> Q (done ++ [g]) (fst (exec (reserve_gpu sc g) s)).
  Proof.
    intros HQ. unfold reserve_gpu. cbn [Binder.exec].
    destruct (Binder.step faults env dp (AList (LRsv g)) s) as [s1 r1] eqn:E1.
    assert (HQ1 : Q done s1) by (eapply (st_step _ _ _ _ _ _ (Q_stable done)); eauto; reflexivity).
    destruct r1 as [| k | | l | | | | |]; try (cbn [Binder.exec snd]; intros Hx; exfalso; apply Hx; reflexivity).
    destruct l as [| p l].
    - rewrite exec_bind_e.
      pose proof (Q_still done (create_and_wait g) s1 (co_still_calm _ (co_create_and_wait_c False g)) HQ1) as HQ2.
      destruct (exec (create_and_wait g) s1) as [s2 oi]. cbn [fst] in HQ2.
      destruct oi as [i |]; [apply label_consumer_lab, HQ2 |].
      cbn [Binder.exec snd]. intros Hx. exfalso. apply Hx. reflexivity.
    - destruct (p_idx p) as [i |]; [apply label_consumer_lab, HQ1 |].
      cbn [Binder.exec snd]. intros Hx. exfalso. apply Hx. reflexivity.
  Qed.

  Lemma reserve_loop_lab gs : forall done acc s,
    Q done s -> snd (exec (reserve_loop sc gs acc) s) <> None ->
    Q (done ++ gs) (fst (exec (reserve_loop sc gs acc) s)).
  Proof.
    induction gs as [| g gs IH]; intros done acc s HQ; cbn [reserve_loop].
    - cbn [Binder.exec fst]. rewrite app_nil_r. intros _. exact HQ.
    - rewrite exec_bind_e. pose proof (reserve_gpu_lab g done s HQ) as H1.
      destruct (exec (reserve_gpu sc g) s) as [s1 oi]. cbn [fst snd] in H1.
      destruct oi as [i |].
      + intros Hx. specialize (H1 ltac:(discriminate)).
        replace (done ++ g :: gs) with ((done ++ [g]) ++ gs) by (rewrite <- app_assoc; reflexivity).
        apply IH; assumption.
      + cbn [Binder.exec snd]. intros Hx. exfalso. apply Hx. reflexivity.
  Qed.

  Lemma reserve_gpus_lab s :
    Q [] s -> fst (snd (exec (reserve_gpus sc) s)) = ENone -> Q (sc_groups sc) (fst (exec (reserve_gpus sc) s)).
  Proof.
    intros HQ. unfold reserve_gpus. destruct (sc_groups sc) as [| g gs] eqn:Eg.
    - cbn [Binder.exec fst snd]. discriminate.
    - rewrite exec_bind_e. pose proof (reserve_loop_lab (g :: gs) [] [] s HQ) as H1.
      destruct (exec (reserve_loop sc (g :: gs) []) s) as [s1 r]. cbn [fst snd] in H1.
      destruct r; cbn [Binder.exec fst snd]; [intros _; apply H1; discriminate | discriminate].
  Qed.

  (** the labels of all the request's groups (store only) *)
  Definition LS (st : store) : Prop :=
    uid_ge init st /\ (mine st -> sc_fraction sc = true -> Lab sc (sc_groups sc) (self st)).
  (** ... and the received-type annotation: the side objects that sit on the pod *)
  Definition SO (st : store) : Prop :=
    uid_ge init st
    /\ (mine st -> (sc_fraction sc = true -> Lab sc (sc_groups sc) (self st))
                   /\ p_recv (self st) = Some (recv_type sc)).

  Lemma LS_env : env_stable LS.
  Proof.
    intros e st (Hu & H). split; [apply uid_ge_env, Hu |]. intros Hm Hf.
    destruct (env_step_mine_back e st Hu Hm) as (M0 & (A1 & A2 & _)). eapply Lab_side; eauto.
  Qed.
  Lemma LS_call : call_stable still LS.
  Proof.
    intros c ans st st' r Hc (Hu & H) Hd. split; [unfold uid_ge; rewrite (do_call_uid _ _ _ _ _ Hd); exact Hu |].
    intros Hm Hf. destruct (do_call_mine_back _ _ _ _ _ Hc Hd Hm) as (M0 & (A1 & A2 & _)). eapply Lab_side; eauto.
  Qed.
  Lemma SO_env : env_stable SO.
  Proof.
    intros e st (Hu & H). split; [apply uid_ge_env, Hu |]. intros Hm.
    destruct (env_step_mine_back e st Hu Hm) as (M0 & (A1 & A2 & A3)). destruct (H M0) as (L & R).
    split; [intros Hf; eapply Lab_side; eauto | congruence].
  Qed.
  Lemma SO_call : call_stable still SO.
  Proof.
    intros c ans st st' r Hc (Hu & H) Hd. split; [unfold uid_ge; rewrite (do_call_uid _ _ _ _ _ Hd); exact Hu |].
    intros Hm. destruct (do_call_mine_back _ _ _ _ _ Hc Hd Hm) as (M0 & (A1 & A2 & A3)). destruct (H M0) as (L & R).
    split; [intros Hf; eapply Lab_side; eauto | congruence].
  Qed.

  Lemma Q_LS s : Q (sc_groups sc) s -> LS (s_store s).
  Proof. intros (Hu & H). split; [exact Hu |]. intros Hm _. apply H, Hm. Qed.

  (** the annotation patch and the binding call *)
  Lemma bind_tail_lab u s :
    LS (s_store s) -> snd (exec (bind_tail sc u) s) = ENone -> SO (s_store (fst (exec (bind_tail sc u) s))).
  Proof.
    intros HL. unfold bind_tail. cbn [Binder.exec].
    destruct (Binder.step faults env dp (APatchRecv (recv_type sc)) s) as [s1 r1] eqn:E1.
    destruct r1; try (cbn [Binder.exec snd]; discriminate).
    destruct (step_e _ _ _ _ _ _ _ E1) as (_ & _ & _ & _ & [Hi | Hr]).
    { destruct Hi as ((k & Hk) & _). discriminate. }
    destruct Hr as ((ans1 & Hd1) & _).
    assert (Hpre : LS (pre_store s)) by (unfold BinderEnv.pre_store; apply apply_env_stable; [apply LS_env | exact HL]).
    (* the annotation is on the pod, the labels stay *)
    assert (S1 : LS (s_store s1) /\ (self_alive (s_store s1) = true -> p_recv (self (s_store s1)) = Some (recv_type sc))).
    { cbn [do_call] in Hd1. destruct (self_alive (pre_store s)) eqn:Ea; [| discriminate].
      injection Hd1 as <- _. destruct Hpre as (Hu & H). split.
      - split; [exact Hu |]. intros (Ha' & Hq) Hf. cbn [self set_self with_recv p_multi p_plain] in *.
        assert (Hmp : mine (pre_store s)) by (split; assumption).
        specialize (H Hmp Hf). unfold Lab in *. exact H.
      - intros _. reflexivity. }
    destruct S1 as (HL1 & Hrecv1).
    cbn [Binder.exec].
    match goal with |- context [Binder.step _ _ _ ?c ?st] => set (c0 := c); set (sa := st) end.
    destruct (Binder.step faults env dp c0 sa) as [s2 r2] eqn:E2. cbn [Binder.exec fst snd].
    destruct r2; try (cbn [bind_result_code]; discriminate).
    intros _.
    destruct (step_e _ _ _ _ _ _ _ E2) as (_ & _ & _ & _ & [Hi | Hr]).
    { destruct Hi as ((k & Hk) & _). discriminate. }
    destruct Hr as ((ans2 & Hd2) & _).
    change (s_store sa) with (s_store s1) in *.
    assert (Hu1 : uid_ge init (s_store s1)) by apply HL1.
    unfold c0 in Hd2. cbn [do_call] in Hd2.
    set (pre := BinderEnv.pre_store env sa) in *.
    assert (Hprestore : pre = apply_env (env (s_idx sa)) (s_store s1)) by reflexivity.
    destruct (self_alive pre) eqn:Ea; [| discriminate].
    destruct (negb (u =? p_uid (self pre))); [discriminate |].
    destruct (p_term (self pre)); [discriminate |].
    destruct (p_node (self pre) =? 0); [| discriminate].
    injection Hd2 as <-.
    assert (Hupre : uid_ge init pre) by (rewrite Hprestore; apply apply_env_stable; [apply uid_ge_env | exact Hu1]).
    split; [exact Hupre |]. cbn [self set_self with_node self_alive p_uid p_multi p_plain p_recv].
    intros (Ha' & Hq). cbn [self_alive set_self self with_node p_uid] in Ha', Hq.
    assert (Hmp : mine pre) by (split; assumption).
    rewrite Hprestore in Hmp. destruct (apply_env_mine_back _ _ Hu1 Hmp) as (M1 & (A1 & A2 & A3)).
    rewrite <- Hprestore in A1, A2, A3.
    split.
    - intros Hf. destruct HL1 as (_ & H1). specialize (H1 M1 Hf). unfold Lab in *.
      cbn [with_node p_multi p_plain]. rewrite A1, A2. exact H1.
    - cbn [with_node p_recv]. rewrite A3. apply Hrecv1, M1.
  Qed.

  Lemma bind_rest_lab u idxs s :
    LS (s_store s) -> snd (exec (bind_rest sc u idxs) s) = ENone -> SO (s_store (fst (exec (bind_rest sc u idxs) s))).
  Proof.
    intros HL. unfold bind_rest. cbn [Binder.exec].
    destruct (sc_k8s_ok sc); cbn [negb]; [| cbn [Binder.exec snd]; discriminate].
    rewrite exec_bind_e.
    assert (Hpre : LS (s_store (fst (exec (if sc_fraction sc then gpusharing_prebind sc idxs else Ret false)
                    (set_mem s (mem_with_node (s_mem s) 1)))))).
    { destruct (sc_fraction sc); [| exact HL].
      refine (exec_inv faults env dp ord still True _ _ (stable_store faults env dp still LS LS_env LS_call) _
                (set_mem s (mem_with_node (s_mem s) 1)) HL).
      apply (co_weaken calm_cm still True True); [apply calm_cm_still | auto | apply co_gpusharing_prebind_c]. }
    match goal with |- context [Binder.exec _ _ _ _ (if sc_fraction sc then _ else _) ?st] =>
      change st with (set_mem s (mem_with_node (s_mem s) 1)) end.
    destruct (exec (if sc_fraction sc then gpusharing_prebind sc idxs else Ret false) (set_mem s (mem_with_node (s_mem s) 1)))
      as [s1 e1]. cbn [fst] in Hpre.
    destruct e1; [cbn [Binder.exec snd]; discriminate |].
    apply bind_tail_lab, Hpre.
  Qed.

  (** Binder.Bind: when it succeeds, the pod it bound carries the labels of all groups and the annotation *)
  Lemma bind_prog_lab s :
    Q [] s -> snd (exec (bind_prog sc bind_result_code false) s) = ENone ->
    SO (s_store (fst (exec (bind_prog sc bind_result_code false) s))).
  Proof.
    intros HQ. rewrite bind_prog_eq. cbn [Binder.exec]. rewrite exec_bind_e.
    pose proof (Q_still [] sync_for_node s (co_still_calm _ (co_sync_for_node_c False)) HQ) as HQ1.
    destruct (exec sync_for_node s) as [s1 e0]. cbn [fst] in HQ1.
    destruct e0; [cbn [Binder.exec snd]; discriminate |].
    rewrite exec_bind_e.
    assert (Hres : fst (snd (exec (if sc_fraction sc then reserve_gpus sc else Ret (ENone, [])) s1)) = ENone ->
                   LS (s_store (fst (exec (if sc_fraction sc then reserve_gpus sc else Ret (ENone, [])) s1)))).
    { destruct (sc_fraction sc) eqn:Efr.
      - intros Hx. apply Q_LS, reserve_gpus_lab; assumption.
      - intros _. cbn [Binder.exec fst]. destruct HQ1 as (Hu & _). split; [exact Hu |]. intros _ Hx. congruence. }
    destruct (exec (if sc_fraction sc then reserve_gpus sc else Ret (ENone, [])) s1) as [s2 r]. cbn [fst snd] in Hres.
    destruct (fst r) eqn:Er; [| cbn [Binder.exec snd]; discriminate | cbn [Binder.exec snd]; discriminate].
    apply bind_rest_lab, Hres. reflexivity.
  Qed.
End LabS.


(** * Rollback, the deferred status update, the whole reconcile *)
Section Fin.
  Variable faults : nat -> fault.
  Variable env : nat -> list estep.
  Variable dp : nat -> option nat.
  Variable ord : nat -> list gid.
  Variable sc : scen.
  Variable init : store.
  Variable b : brst.
  Notation exec := (Binder.exec faults env dp ord).
  Notation step := (Binder.step faults env dp).
  Notation stable := (stable faults env dp).
  Notation pre_store := (pre_store env).
  Notation W := (W sc init b).

  Lemma stable_st ok P :
    env_stable P -> call_stable ok P -> stable ok True (fun s => P (s_store s)).
  Proof. apply stable_store. Qed.

  Lemma W_st mk mke c s s' r : tame c = true -> W mk mke s -> step c s = (s', r) -> W mk mke s'.
  Proof. exact (st_step _ _ _ _ _ _ (W_stable_tame faults env dp sc init b mk mke) c s s' r). Qed.

  Lemma W_tm mk mke {A} (p : prog A) s : calls_ok tame False p -> W mk mke s -> W mk mke (fst (exec p s)).
  Proof. apply W_tame. Qed.

  (** "holds unless an injected fault happened since [n0]" *)
  Definition since (n0 : nat) (P : store -> Prop) (s : state) : Prop :=
    n0 <= s_nfail s /\ (s_nfail s = n0 -> P (s_store s)).

  Lemma since_stable ok n0 P : env_stable P -> call_stable ok P -> stable ok True (since n0 P).
  Proof.
    intros He Hc. split.
    - intros c s s' r Hok (Hn & Hp) E.
      pose proof (st_step _ _ _ _ _ _ (NF_stable faults env dp ok n0) c s s' r Hok Hn E) as Hn'.
      split; [exact Hn' |]. intros Hq.
      destruct (step_e _ _ _ _ _ _ _ E) as (_ & _ & _ & _ & [Hi | Hr]).
      + destruct Hi as (_ & _ & Hnf & _). unfold NF in *. lia.
      + destruct Hr as (_ & Hnf & _).
        refine (st_step _ _ _ _ _ _ (stable_st ok P He Hc) c s s' r Hok _ E). apply Hp. lia.
    - intros _ s m H. exact H.
    - intros s H. exact H.
    - intros _ b0 s H. exact H.
  Qed.

  Lemma since_st ok n0 P c s s' r :
    env_stable P -> call_stable ok P -> ok c = true -> since n0 P s -> step c s = (s', r) -> since n0 P s'.
  Proof. intros He Hc. exact (st_step _ _ _ _ _ _ (since_stable ok n0 P He Hc) c s s' r). Qed.

  (** a step that no injected fault hit reached the API *)
  Lemma step_served c s s' r :
    step c s = (s', r) -> s_nfail s' = s_nfail s -> exists ans, do_call c ans (pre_store s) = (s_store s', r).
  Proof.
    intros E Hq. destruct (step_e _ _ _ _ _ _ _ E) as (_ & _ & _ & _ & [Hi | Hr]).
    - destruct Hi as (_ & _ & Hnf & _). lia.
    - apply Hr.
  Qed.

  Lemma step_nf c s s' r : step c s = (s', r) -> s_nfail s <= s_nfail s'.
  Proof.
    intros E. destruct (step_e _ _ _ _ _ _ _ E) as (_ & _ & _ & _ & [Hi | Hr]).
    - destruct Hi as (_ & _ & Hnf & _). lia.
    - destruct Hr as (_ & Hnf & _). lia.
  Qed.

  Lemma clean_of_env st : lab_clean init st -> cm_clean init st -> clean init st = true.
  Proof.
    intros (L1 & L2) HC. unfold clean.
    assert (H1 : new_plain (self init) (self st) = false).
    { unfold new_plain. destruct (p_plain (self st)) as [g |] eqn:Eg; [| reflexivity].
      rewrite (L2 g eq_refl). cbn [opt_nat_eqb]. rewrite Nat.eqb_refl. reflexivity. }
    rewrite H1, (new_multi_nil (self init) (self st) L1). cbn [negb andb].
    unfold new_cms. cbn [filter cm_get].
    pose proof (HC CmCap) as C1. pose proof (HC CmEvar) as C2. cbn [cm_get] in C1, C2.
    destruct (opt_is_some (cm_cap st)); [rewrite (C1 eq_refl) |];
      (destruct (opt_is_some (cm_evar st)); [rewrite (C2 eq_refl) |]); reflexivity.
  Qed.

  Lemma W_remark mk mke mk' mke' s s' :
    W mk mke s -> s_store s' = s_store s -> s_mem s' = s_mem s -> s_log s' = s_log s ->
    s_mark s' = mk' -> s_mark_end s' = mke' -> W mk' mke' s'.
  Proof.
    intros (H1 & H2 & H3 & (H4 & H4') & H5 & H6 & H7) E1 E2 E3 E4 E5.
    unfold BinderEnv.W, LB, NoElse, MKS, JK. rewrite E1, E2, E3. auto 10.
  Qed.

  Lemma W_J mk mke s : W mk mke s -> J' sc init (s_store s) (s_mem s).
  Proof. intros (_ & _ & _ & (HJ & _) & _). exact HJ. Qed.

  Lemma cm_since_st n0 c s s' r :
    tame c = true -> since n0 (cm_clean init) s -> step c s = (s', r) -> since n0 (cm_clean init) s'.
  Proof. apply since_st; [apply cm_clean_env | apply (cm_clean_call init tame tame_nocreate)]. Qed.

  Lemma lab_since_st n0 c s s' r :
    tame c = true -> since n0 (lab_clean init) s -> step c s = (s', r) -> since n0 (lab_clean init) s'.
  Proof.
    apply since_st; [apply lab_clean_env |].
    apply (lab_clean_call init tame). intros c0 Hc. apply tame_cm_nolabel, tame_tame_cm, Hc.
  Qed.

  Lemma co_sync_tail SM : calls_ok tame SM sync_tail.
  Proof. unfold sync_tail. apply co_bind; [apply co_sync_for_node | intros; constructor]. Qed.

  (** the reservation sync that ends Rollback *)
  Lemma sync_tail_env mk n0 sx :
    W mk None sx -> since n0 (cm_clean init) sx -> since n0 (lab_clean init) sx ->
    let sy := fst (exec sync_tail sx) in
    W mk None sy /\ since n0 (cm_clean init) sy /\ since n0 (lab_clean init) sy.
  Proof.
    intros A B C. split; [apply W_tm; [apply co_sync_tail | exact A] |]. split.
    - apply (exec_inv faults env dp ord tame True _ _
               (since_stable tame n0 _ (cm_clean_env init) (cm_clean_call init tame tame_nocreate)) (co_sync_tail True) _ B).
    - apply (exec_inv faults env dp ord tame True _ _
               (since_stable tame n0 _ (lab_clean_env init)
                  (lab_clean_call init tame (fun c Hc => tame_cm_nolabel c (tame_tame_cm c Hc)))) (co_sync_tail True) _ C).
  Qed.

  Definition rb_post (mk : option (nat * nat)) (n0 : nat) (s : state) : Prop :=
    W mk None s /\ since n0 (cm_clean init) s /\ since n0 (lab_clean init) s.

  (** the config maps of Rollback *)
  Lemma rb_cms_env mk n0 sm :
    W mk None sm -> s_nfail sm = n0 ->
    W mk None (fst (exec (rb_cms sc) sm)) /\ since n0 (cm_clean init) (fst (exec (rb_cms sc) sm)).
  Proof.
    intros HWm Hn0. unfold rb_cms. destruct (sc_fraction sc && sc_cmann sc) eqn:Ek.
    - cbn [Binder.exec].
      destruct (Binder.step faults env dp (ADeleteCM CmCap) sm) as [s1 r1] eqn:E1.
      destruct (Binder.step faults env dp (ADeleteCM CmEvar) s1) as [s2 r2] eqn:E2. cbn [Binder.exec fst].
      assert (HW1 : W mk None s1) by (eapply W_st; eauto; reflexivity).
      assert (HW2 : W mk None s2) by (eapply W_st; eauto; reflexivity).
      split; [exact HW2 |].
      pose proof (step_nf _ _ _ _ E1) as Hle1. pose proof (step_nf _ _ _ _ E2) as Hle2.
      split; [lia |]. intros Hq.
      assert (X1 : no_cm CmCap (s_store s1)).
      { destruct (step_served _ _ _ _ E1 ltac:(lia)) as (ans & Hd). unfold no_cm.
        cbn [do_call] in Hd. destruct (cm_get CmCap (pre_store sm)) eqn:Eg; injection Hd as <- _; [reflexivity | exact Eg]. }
      assert (X2 : no_cm CmCap (s_store s2)).
      { exact (st_step _ _ _ _ _ _ (stable_st tame _ (no_cm_env CmCap) (no_cm_call tame CmCap tame_nocreate))
                 (ADeleteCM CmEvar) s1 s2 r2 eq_refl X1 E2). }
      assert (X3 : no_cm CmEvar (s_store s2)).
      { destruct (step_served _ _ _ _ E2 ltac:(lia)) as (ans & Hd). unfold no_cm.
        cbn [do_call] in Hd. destruct (cm_get CmEvar (pre_store s1)) eqn:Eg; injection Hd as <- _; [reflexivity | exact Eg]. }
      intros x Hx. unfold no_cm in X2, X3. destruct x; cbn [cm_get] in *; rewrite ?X2, ?X3 in Hx; discriminate.
    - cbn [Binder.exec fst]. split; [exact HWm |]. split; [lia |]. intros _.
      destruct HWm as (_ & _ & _ & (_ & [HK | HK]) & _); [unfold KF in HK; congruence | exact HK].
  Qed.

  (** the label removal of Rollback *)
  Lemma rb_labels_env mk n0 s1 :
    W mk None s1 -> since n0 (cm_clean init) s1 -> sc_fraction sc = true ->
    rb_post mk n0 (fst (exec rb_labels s1)).
  Proof.
    intros HW1 C1 Efr. unfold rb_labels. cbn [Binder.exec].
    pose proof (W_J _ _ _ HW1) as (J1 & J2 & _).
    assert (Hdb1 : dead_blank (s_store s1)) by apply HW1.
    assert (Hnolab : m_plain (s_mem s1) = None -> m_multi (s_mem s1) = [] -> rb_post mk n0 (fst (exec sync_tail s1))).
    { intros Ep Em. apply sync_tail_env; auto. split; [apply C1 |]. intros _. split.
      - intros g Hg. destruct (J1 g Hg) as [Hi | Hi]; [exact Hi | rewrite Em in Hi; destruct Hi].
      - intros g Hg. destruct (J2 g Hg) as [Hi | Hi]; [exact Hi | rewrite Ep in Hi; discriminate]. }
    assert (Hremove :
      (m_plain (s_mem s1) <> None \/ m_multi (s_mem s1) <> []) ->
      let c := ARemoveLabels (opt_is_some (m_plain (s_mem s1))) (m_multi (s_mem s1)) in
      let P := Api c (fun r => match r with RPod p => SetMem (mem_of p) sync_tail | _ => sync_tail end) in
      rb_post mk n0 (fst (exec P s1))).
    { intros Hsome c P. unfold P. cbn [Binder.exec].
      destruct (Binder.step faults env dp c s1) as [s1b r1] eqn:E1.
      assert (HW1b : W mk None s1b) by (eapply W_st; eauto; reflexivity).
      assert (C1b : since n0 (cm_clean init) s1b) by (eapply cm_since_st; eauto; reflexivity).
      assert (L1b : since n0 (lab_clean init) s1b).
      { pose proof (step_nf _ _ _ _ E1) as Hle. destruct C1 as (Hn1 & _). split; [lia |]. intros Hq.
        destruct (step_served _ _ _ _ E1 ltac:(lia)) as (ans & Hd).
        assert (HJp : J' sc init (pre_store s1) (s_mem s1)) by (unfold BinderEnv.pre_store; apply J'_env, (W_J _ _ _ HW1)).
        assert (Hdp : dead_blank (pre_store s1))
          by (unfold BinderEnv.pre_store; apply apply_env_stable; [apply dead_blank_env | exact Hdb1]).
        destruct HJp as (P1 & P2 & _).
        unfold c in Hd. cbn [do_call] in Hd.
        destruct (self_alive (pre_store s1)) eqn:Ea; injection Hd as <- _.
        - split; cbn [self set_self with_labels p_multi p_plain].
          + intros g Hg. apply filter_In in Hg as (Hg & Hn). apply negb_true_iff, mem_nat_false in Hn.
            destruct (P1 g Hg) as [Hi | Hi]; [exact Hi | contradiction].
          + intros g Hg. destruct (opt_is_some (m_plain (s_mem s1))) eqn:Eo; [discriminate |].
            destruct (P2 g Hg) as [Hi | Hi]; [exact Hi | congruence].
        - destruct (Hdp Ea) as (Q1 & Q2). apply lab_le_blank; assumption. }
      destruct r1; try (apply sync_tail_env; assumption).
      cbn [Binder.exec].
      match goal with |- context [Binder.exec _ _ _ _ sync_tail ?st] => change st with (set_mem s1b (mem_of p)) end.
      assert (Hp : p = self (s_store s1b)).
      { destruct (step_e _ _ _ _ _ _ _ E1) as (_ & _ & _ & _ & [Hi | Hr]).
        - destruct Hi as ((k & Hk) & _). discriminate.
        - destruct Hr as ((ans & Hd) & _). eapply do_call_rpod; eauto. }
      apply sync_tail_env; [| exact C1b | exact L1b].
      apply (W_set_mem sc init b mk None _ _ HW1b). rewrite Hp. eapply J'_refresh, (W_J _ _ _ HW1b). }
    destruct (m_plain (s_mem s1)) as [gp |] eqn:Ep.
    - apply Hremove. left. discriminate.
    - destruct (m_multi (s_mem s1)) as [| gm ml] eqn:Em.
      + apply Hnolab; reflexivity.
      + apply Hremove. right. discriminate.
  Qed.

  (** Binder.Rollback *)
  Lemma rollback_env s :
    W None None s ->
    let s' := fst (exec (rollback sc) s) in
    LB 0 s' /\ NoElse s' /\ brq b (s_store s') /\ dead_blank (s_store s') /\ uid_ge init (s_store s')
    /\ s_mark s' = Some (s_idx s, s_nfail s) /\ s_mark_end s' = Some (s_nfail s')
    /\ (s_nfail s' = s_nfail s -> lab_clean init (s_store s') /\ cm_clean init (s_store s')).
  Proof.
    intros HW. rewrite rollback_eq. cbn [Binder.exec].
    match goal with |- context [Binder.exec _ _ _ _ _ ?st] => change st with (set_mark true s) end.
    set (sm := set_mark true s). set (n0 := s_nfail s). set (mk := Some (s_idx s, n0)).
    assert (HWm : W mk None sm).
    { eapply W_remark; [exact HW | | | | |]; try reflexivity. cbn [sm set_mark s_mark_end]. apply HW. }
    assert (Hn0 : s_nfail sm = n0) by reflexivity.
    rewrite exec_bind_e, exec_bind_e.
    destruct (rb_cms_env mk n0 sm HWm Hn0) as (HW1 & C1).
    destruct (exec (rb_cms sc) sm) as [s1 u1]. cbn [fst] in HW1, C1.
    assert (Hlab : rb_post mk n0 (fst (exec (if sc_fraction sc then rb_labels else Ret tt) s1))).
    { destruct (sc_fraction sc) eqn:Efr.
      - apply rb_labels_env; auto.
      - cbn [Binder.exec fst]. split; [exact HW1 |]. split; [exact C1 |].
        split; [apply C1 |]. intros _. destruct (W_J _ _ _ HW1) as (_ & _ & J3). apply J3, Efr. }
    destruct (exec (if sc_fraction sc then rb_labels else Ret tt) s1) as [s2 u2]. cbn [fst] in Hlab.
    destruct Hlab as (HW2 & C2 & L2).
    cbn [Binder.exec fst].
    match goal with |- context [LB 0 ?st] => set (sf := st) end.
    assert (Hsf : s_store sf = s_store s2 /\ s_nfail sf = s_nfail s2 /\ s_log sf = s_log s2) by (repeat split; reflexivity).
    destruct Hsf as (Hst & Hnf & Hlog).
    destruct HW2 as (A1 & A2 & (A3 & A3') & _ & A5 & A6 & A7).
    unfold LB, NoElse. rewrite Hlog, Hst, Hnf.
    split; [exact A1 |]. split; [exact A2 |]. split; [exact A5 |]. split; [exact A6 |]. split; [exact A7 |].
    split; [cbn [sf s_mark set_mark]; exact A3 |]. split; [reflexivity |].
    intros Hq. split; [apply L2; exact Hq | apply C2; exact Hq].
  Qed.

  (** ** The deferred status update *)
  Definition nsucc (st : store) : Prop := br_succeeded st = false.

  Lemma nsucc_env : env_stable nsucc.
  Proof.
    intros e st H. unfold nsucc, br_succeeded in *. destruct e; cbn [env_step];
      repeat match goal with |- context [if ?x then _ else _] => destruct x end;
      cbn [br set_self set_alive set_br set_others]; auto.
  Qed.
  Lemma nsucc_call : call_stable (fun c => negb (is_status c)) nsucc.
  Proof.
    intros c ans st st' r Hok H E. unfold nsucc, br_succeeded in *.
    apply negb_true_iff in Hok. destruct (do_call_br _ _ _ _ _ Hok E) as [-> | ->]; auto.
  Qed.

  Lemma brq_nsucc st : brq b st -> b_phase b <> BSucceeded -> nsucc st.
  Proof.
    intros [H | H] Hph; unfold nsucc, br_succeeded; rewrite H; [reflexivity |].
    destruct (b_phase b); try reflexivity. contradiction.
  Qed.

  Lemma co_all {A} ok SM (p : prog A) : calls_ok ok SM p -> calls_ok (fun _ => true) SM p.
  Proof. apply co_weaken; auto. Qed.

  Lemma deferred_gone e s :
    br_gone (s_store s) ->
    let s' := fst (exec (deferred sc b e) s) in
    br_succeeded (s_store s') = false /\ forall c r, reported (s_store s') c r = true.
  Proof.
    intros Hg.
    pose proof (exec_inv faults env dp ord (fun _ => true) True _ _
                  (stable_st (fun _ => true) _ br_gone_env (br_gone_call (fun _ => true)))
                  (co_all _ _ _ (co_deferred True sc b e)) s Hg) as Hg'.
    cbn zeta. unfold br_gone in Hg'. unfold br_succeeded, reported. rewrite Hg'. auto.
  Qed.

  Lemma deferred_failed s :
    brq b (s_store s) -> b_phase b <> BSucceeded ->
    let s' := fst (exec (deferred sc b true) s) in
    let res := snd (exec (deferred sc b true) s) in
    br_succeeded (s_store s') = false /\ reported (s_store s') (s_crashed s') (snd res) = true.
  Proof.
    intros Hbr Hph. unfold deferred. rewrite exec_bind_e.
    set (bump := true && match sc_backoff sc with Some l => b_attempts b <? l | None => false end).
    set (requeue := if bump then 2 ^ b_attempts b else 0).
    (* the status patch *)
    assert (Hst : exists s1 e1,
              exec (if brphase_eqb (b_phase b) BFailed && negb bump then Ret false
                    else Api (APatchBRStatus (if brphase_eqb (b_phase b) BFailed then None else Some BFailed)
                                             (if bump then Some (S (b_attempts b)) else None)) (fun _ => Ret true)) s = (s1, e1)
              /\ nsucc (s_store s1)
              /\ (e1 = true \/ (brq b (s_store s1) /\ b_phase b = BFailed))).
    { destruct (brphase_eqb (b_phase b) BFailed && negb bump) eqn:Esame.
      - exists s, false. split; [reflexivity |]. split; [apply brq_nsucc; assumption |]. right.
        apply andb_true_iff in Esame as (Hx & _). apply brphase_eqb_eq in Hx. auto.
      - cbn [Binder.exec].
        match goal with |- context [Binder.step _ _ _ ?c s] => set (c0 := c) end.
        destruct (Binder.step faults env dp c0 s) as [s1 r1] eqn:E1. exists s1, true. split; [reflexivity |].
        split; [| left; reflexivity].
        assert (Hpre : brq b (pre_store s)) by (unfold BinderEnv.pre_store; apply apply_env_stable; [apply brq_env | exact Hbr]).
        destruct (step_e _ _ _ _ _ _ _ E1) as (_ & _ & _ & _ & [Hi | Hr]).
        + destruct Hi as (_ & -> & _). apply brq_nsucc; assumption.
        + destruct Hr as ((ans & Hd) & _). unfold c0 in Hd. cbn [do_call] in Hd.
          destruct Hpre as [Hp | Hp]; rewrite Hp in Hd; injection Hd as <- _.
          * unfold nsucc, br_succeeded. rewrite Hp. reflexivity.
          * unfold nsucc, br_succeeded. cbn [br set_br b_phase].
            destruct (brphase_eqb (b_phase b) BFailed); [| reflexivity].
            destruct (b_phase b); try reflexivity. contradiction. }
    destruct Hst as (s1 & e1 & -> & Hns1 & He1).
    (* the pod condition *)
    cbn [Binder.exec].
    match goal with |- context [if ?x then _ else _] => destruct x end.
    2: { cbn [Binder.exec fst snd]. split; [exact Hns1 |]. unfold reported.
         destruct He1 as [-> | (Hq & Hf)]; [rewrite orb_true_r; reflexivity |].
         destruct Hq as [-> | ->]; [reflexivity | rewrite Hf; reflexivity]. }
    cbn [Binder.exec].
    match goal with |- context [Binder.step _ _ _ ?c s1] => set (c1 := c) end.
    destruct (Binder.step faults env dp c1 s1) as [s2 r2] eqn:E2. cbn [Binder.exec fst snd].
    assert (Hns2 : nsucc (s_store s2))
      by exact (st_step _ _ _ _ _ _ (stable_st _ _ nsucc_env nsucc_call) c1 s1 s2 r2 eq_refl Hns1 E2).
    split; [exact Hns2 |]. unfold reported.
    destruct He1 as [-> | (Hq & Hf)]; [rewrite orb_true_r; reflexivity |].
    assert (Hq2 : brq b (s_store s2)).
    { refine (st_step _ _ _ _ _ _ (stable_st (fun c => negb (is_status c)) _ (brq_env b) (brq_call b _ _)) c1 s1 s2 r2 eq_refl Hq E2).
      intros c Hc. apply negb_true_iff, Hc. }
    destruct Hq2 as [-> | ->]; [reflexivity | rewrite Hf; reflexivity].
  Qed.

  (** everything the deferred update keeps *)
  Lemma deferred_keeps e s :
    let s' := fst (exec (deferred sc b e) s) in
    binds (s_log s') = binds (s_log s) /\ (NoElse s -> NoElse s')
    /\ s_mark s' = s_mark s /\ s_mark_end s' = s_mark_end s
    /\ (IS2 init (s_store s) -> IS2 init (s_store s'))
    /\ (lab_clean init (s_store s) -> lab_clean init (s_store s'))
    /\ (cm_clean init (s_store s) -> cm_clean init (s_store s'))
    /\ (SO sc init (s_store s) -> SO sc init (s_store s')).
  Proof.
    cbn zeta.
    split; [exact (exec_inv faults env dp ord nobind True _ _ (LB_stable faults env dp _) (co_deferred True sc b e) s eq_refl) |].
    split; [intros H; refine (exec_inv faults env dp ord nobind True _ _
                                (stable_weaken _ _ _ _ _ _ _ _ nobind_okb (fun x => x) (NoElse_stable faults env dp))
                                (co_deferred True sc b e) s H) |].
    pose proof (exec_inv faults env dp ord nobind False _ _ (MKS_stable faults env dp nobind (s_mark s) (s_mark_end s))
                  (co_deferred False sc b e) s (conj eq_refl eq_refl)) as (Hk & Hke).
    split; [exact Hk |]. split; [exact Hke |].
    split; [intros H; exact (exec_inv faults env dp ord nobind True _ _
                               (stable_st nobind _ (IS2_env init) (fun c ans st st' r Hc => IS2_call init c ans st st' r (nobind_okb c Hc)))
                               (co_deferred True sc b e) s H) |].
    split; [intros H; exact (exec_inv faults env dp ord quiet True _ _
                               (stable_st quiet _ (lab_clean_env init) (lab_clean_call init quiet quiet_nolabel))
                               (co_deferred_quiet True sc b e) s H) |].
    split; [intros H; exact (exec_inv faults env dp ord quiet True _ _
                       (stable_st quiet _ (cm_clean_env init) (cm_clean_call init quiet quiet_nocreate))
                       (co_deferred_quiet True sc b e) s H) |].
    intros H. exact (exec_inv faults env dp ord still True _ _
                       (stable_st still _ (SO_env sc init) (SO_call sc init))
                       (co_deferred_still True sc b e) s H).
  Qed.

  (** ** Assembling the reconcile *)
  Definition fin_env (s : state) (res : nat * bool) : Prop :=
    NoElse s /\
    ((binds (s_log s) = 1 /\ IS2 init (s_store s) /\ SO sc init (s_store s))
     \/ (binds (s_log s) = 0 /\ br_succeeded (s_store s) = false
         /\ reported (s_store s) (s_crashed s) (snd res) || nothing_done (s_log s) = true
         /\ (cleanup_unfaulted s = true -> clean init (s_store s) = true))).

  Hypothesis Hph : b_phase b <> BSucceeded.

  Lemma exit_now s (res : nat * bool) :
    LB 0 s -> NoElse s -> brq b (s_store s) -> lab_clean init (s_store s) -> cm_clean init (s_store s) ->
    (snd res = true \/ nothing_done (s_log s) = true) -> fin_env s res.
  Proof.
    intros H1 H2 H3 H4 H5 H6. split; [exact H2 |]. right. split; [exact H1 |].
    split; [apply brq_nsucc; assumption |]. split.
    - apply orb_true_iff. destruct H6 as [-> | ->]; [left; unfold reported; apply orb_true_r | right; reflexivity].
    - intros _. apply clean_of_env; assumption.
  Qed.

  Lemma exit_failed s :
    LB 0 s -> NoElse s -> brq b (s_store s) ->
    (cleanup_unfaulted s = true -> lab_clean init (s_store s) /\ cm_clean init (s_store s)) ->
    fin_env (fst (exec (deferred sc b true) s)) (snd (exec (deferred sc b true) s)).
  Proof.
    intros H1 H2 H3 H4.
    destruct (deferred_failed s H3 Hph) as (D1 & D2).
    destruct (deferred_keeps true s) as (K1 & K2 & K3 & K4 & _ & K6 & K7 & _).
    destruct (exec (deferred sc b true) s) as [s' res]. cbn [fst snd] in *.
    split; [apply K2, H2 |]. right. split; [unfold LB in H1; congruence |]. split; [exact D1 |].
    split; [rewrite D2; reflexivity |].
    intros Hc. assert (Hc' : cleanup_unfaulted s = true) by (unfold cleanup_unfaulted in *; rewrite K3, K4 in Hc; exact Hc).
    destruct (H4 Hc') as (L & C). apply clean_of_env; auto.
  Qed.

  Lemma exit_bound s :
    Bound init b None None s -> SO sc init (s_store s) ->
    fin_env (fst (exec (deferred sc b false) s)) (snd (exec (deferred sc b false) s)).
  Proof.
    intros (H1 & H2 & _ & H4 & _) HS.
    destruct (deferred_keeps false s) as (K1 & K2 & _ & _ & K5 & _ & _ & K8).
    destruct (exec (deferred sc b false) s) as [s' res]. cbn [fst snd] in *.
    split; [apply K2, H2 |]. left. split; [unfold LB in H1; congruence |]. split; [apply K5, H4 | apply K8, HS].
  Qed.

  (** before the reconciler has read the pod nobody binds it ([read_unbound]) *)
  Definition PR (st : store) : Prop :=
    p_node (self st) = 0 /\ brq b st /\ lab_clean init st /\ cm_clean init st /\ dead_blank st /\ uid_ge init st.

  Lemma env_step_node0 e st : e <> EvBindElsewhere -> p_node (self st) = 0 -> p_node (self (env_step e st)) = 0.
  Proof.
    intros He H. destruct e; try contradiction; cbn [env_step];
      repeat match goal with |- context [if ?x then _ else _] => destruct x end;
      cbn [self set_self set_alive set_br set_others with_term p_node dead_pod fresh_pod]; auto.
  Qed.

  Lemma PR_env l st : ~ In EvBindElsewhere l -> PR st -> PR (apply_env l st).
  Proof.
    revert st. induction l as [| e l IH]; intros st Hn H; [exact H |].
    cbn [apply_env fold_left]. apply IH; [intros Hx; apply Hn; right; exact Hx |].
    destruct H as (A & B & C & D & E & F).
    split; [apply env_step_node0; [intros ->; apply Hn; left; reflexivity | exact A] |].
    split; [apply brq_env, B |]. split; [apply lab_clean_env, C |]. split; [apply cm_clean_env, D |].
    split; [apply dead_blank_env, E | apply uid_ge_env, F].
  Qed.

  Hypothesis Hru : read_unbound env.
  Hypothesis Hwf : wf_shape sc = true.

  (** the reconcile after the request was read as [b] *)
  Definition tail_prog : prog (nat * bool) :=
    SetMem mem_shell (
      Api AGetPod (fun r1 =>
        match r1 with
        | RPod p =>
            SetMem (mem_of p) (
              if negb (p_node p =? 0) then deferred sc b false
              else
                Api AGetNode (fun r2 =>
                  match r2 with
                  | ROk =>
                      e <- bind_prog sc bind_result_code false ;;
                      e2 <- match e with
                            | ENone => Ret false
                            | EErr => Ret true
                            | EInvalid => Api ADeleteBR (fun r3 => Ret (negb (resp_ok r3)))
                            end ;;
                      _ <- (if (e2 : bool) then rollback sc else Ret tt) ;;
                      deferred sc b e2
                  | _ => deferred sc b true
                  end))
        | _ => deferred sc b true
        end)).

  Lemma tail_env s1 :
    s_idx s1 = 1 -> LB 0 s1 -> NoElse s1 -> MKS None None s1 -> PR (s_store s1) ->
    fin_env (fst (exec tail_prog s1)) (snd (exec tail_prog s1)).
  Proof.
    intros Hidx H1 H2 H3 Hpr. unfold tail_prog. cbn [Binder.exec].
    match goal with |- context [Binder.step _ _ _ AGetPod ?st] => change st with (set_mem s1 mem_shell) end.
    set (sa := set_mem s1 mem_shell).
    destruct (Binder.step faults env dp AGetPod sa) as [s3 r3] eqn:E3.
    assert (Hpre : PR (pre_store sa)).
    { unfold BinderEnv.pre_store. apply PR_env; [| exact Hpr]. apply Hru. cbn [sa set_mem s_idx]. lia. }
    assert (L3 : LB 0 s3) by exact (st_step _ _ _ _ _ _ (LB_stable faults env dp 0) AGetPod sa s3 r3 eq_refl H1 E3).
    assert (N3 : NoElse s3) by exact (st_step _ _ _ _ _ _ (NoElse_stable faults env dp) AGetPod sa s3 r3 eq_refl H2 E3).
    assert (M3 : MKS None None s3)
      by exact (st_step _ _ _ _ _ _ (MKS_stable faults env dp (fun _ => true) None None) AGetPod sa s3 r3 eq_refl H3 E3).
    assert (Hst3 : s_store s3 = pre_store sa).
    { destruct (step_e _ _ _ _ _ _ _ E3) as (_ & _ & _ & _ & [Hi | Hr]); [apply Hi |].
      destruct Hr as ((ans & Hd) & _). cbn [do_call] in Hd. destruct (self_alive (pre_store sa)); injection Hd as <- _; reflexivity. }
    pose proof Hpre as (P1 & P2 & P3 & P4 & P5 & P6). rewrite <- Hst3 in P1, P2, P3, P4, P5, P6.
    assert (Hfail : fin_env (fst (exec (deferred sc b true) s3)) (snd (exec (deferred sc b true) s3)))
      by (apply exit_failed; auto).
    destruct r3; try exact Hfail.
    (* the pod was read *)
    assert (Hp : p = self (s_store s3)).
    { destruct (step_e _ _ _ _ _ _ _ E3) as (_ & _ & _ & _ & [Hi | Hr]).
      - destruct Hi as ((k & Hk) & _). discriminate.
      - destruct Hr as ((ans & Hd) & _). eapply do_call_rpod; eauto. }
    cbn [Binder.exec]. rewrite Hp, P1. cbn [Nat.eqb negb]. cbn [Binder.exec].
    match goal with |- context [Binder.step _ _ _ AGetNode ?st] => change st with (set_mem s3 (mem_of (self (s_store s3)))) end.
    set (sb := set_mem s3 (mem_of (self (s_store s3)))).
    assert (HWb : W None None sb).
    { unfold BinderEnv.W, JK. cbn [sb set_mem s_log s_mark s_mark_end s_store s_mem].
      split; [exact L3 |]. split; [exact N3 |]. split; [exact M3 |].
      split; [| auto]. split; [| right; exact P4].
      split; [intros g Hg; right; exact Hg |].
      split; [intros g Hg; right; cbn [mem_of m_plain]; rewrite Hg; reflexivity | intros _; exact P3]. }
    assert (HQb : Q sc init [] sb).
    { split; [exact P6 |]. intros _. cbn [sb set_mem s_store s_mem mem_of m_plain m_multi].
      split; [| split; reflexivity]. unfold Lab. destruct (sc_multi sc); [intros g [] | intros g Hg; discriminate]. }
    destruct (Binder.step faults env dp AGetNode sb) as [s5 r5] eqn:E5.
    assert (HQ5 : Q sc init [] s5)
      by exact (st_step _ _ _ _ _ _ (Q_stable faults env dp sc init []) AGetNode sb s5 r5 eq_refl HQb E5).
    assert (HW5 : W None None s5) by (eapply W_st; eauto; reflexivity).
    assert (L5 : lab_clean init (s_store s5)).
    { refine (st_step _ _ _ _ _ _ (stable_st tame _ (lab_clean_env init) (lab_clean_call init tame _)) AGetNode sb s5 r5 eq_refl P3 E5).
      intros c Hc. apply tame_cm_nolabel, tame_tame_cm, Hc. }
    assert (C5 : cm_clean init (s_store s5)).
    { exact (st_step _ _ _ _ _ _ (stable_st tame _ (cm_clean_env init) (cm_clean_call init tame tame_nocreate)) AGetNode sb s5 r5 eq_refl P4 E5). }
    assert (Hfail5 : fin_env (fst (exec (deferred sc b true) s5)) (snd (exec (deferred sc b true) s5))).
    { destruct HW5 as (A1 & A2 & _ & _ & A5 & _). apply exit_failed; auto. }
    destruct r5; try exact Hfail5.
    (* the node was read: Bind *)
    rewrite exec_bind_e.
    pose proof (bind_prog_env faults env dp ord sc init b None None s5 HW5) as HBP.
    pose proof (bind_prog_lab faults env dp ord sc init s5 HQ5) as HBL.
    destruct (exec (bind_prog sc bind_result_code false) s5) as [s6 e]. cbn [fst snd] in HBP, HBL.
    destruct HBP as [(-> & HB) | [(-> & HW6) | (-> & HW6 & Hfr & Hg)]].
    - cbn [Binder.exec bind]. apply exit_bound; [exact HB | apply HBL; reflexivity].
    - cbn [Binder.exec bind]. rewrite exec_bind_e.
      destruct (rollback_env s6 HW6) as (R1 & R2 & R3 & R4 & R5 & R6 & R7 & R8).
      destruct (exec (rollback sc) s6) as [s7 u]. cbn [fst snd] in *.
      apply exit_failed; auto. intros Hc. apply R8.
      unfold cleanup_unfaulted in Hc. rewrite R6, R7 in Hc. apply Nat.eqb_eq in Hc. auto.
    - exfalso. unfold wf_shape in Hwf. rewrite Hfr, Hg in Hwf. discriminate.
  Qed.

  Lemma reconcile_eq :
    reconcile sc bind_result_code false =
    Api AGetBR (fun r =>
      match r with
      | RBr b' =>
          match b_phase b' with
          | BSucceeded => Ret (0, false)
          | _ =>
              SetMem mem_shell (
                Api AGetPod (fun r1 =>
                  match r1 with
                  | RPod p =>
                      SetMem (mem_of p) (
                        if negb (p_node p =? 0) then deferred sc b' false
                        else
                          Api AGetNode (fun r2 =>
                            match r2 with
                            | ROk =>
                                e <- bind_prog sc bind_result_code false ;;
                                e2 <- match e with
                                      | ENone => Ret false
                                      | EErr => Ret true
                                      | EInvalid => Api ADeleteBR (fun r3 => Ret (negb (resp_ok r3)))
                                      end ;;
                                _ <- (if (e2 : bool) then rollback sc else Ret tt) ;;
                                deferred sc b' e2
                            | _ => deferred sc b' true
                            end))
                  | _ => deferred sc b' true
                  end))
          end
      | RNotFound => Ret (0, false)
      | _ => Ret (0, true)
      end).
  Proof. reflexivity. Qed.

  Theorem reconcile_env :
    init_ok init -> br init = Some b ->
    fin_env (fst (exec (reconcile sc bind_result_code false) (init_state init)))
            (snd (exec (reconcile sc bind_result_code false) (init_state init))).
  Proof.
    intros (Ha & Hn0 & Hrs & Hp & Hterm & Hn & Ho & _) Hb.
    rewrite reconcile_eq. cbn [Binder.exec].
    set (s0 := init_state init).
    destruct (Binder.step faults env dp AGetBR s0) as [s1 r1] eqn:E1.
    assert (Hpr0 : PR (s_store s0)).
    { cbn [s0 init_state s_store]. split; [exact Hn |]. split; [right; exact Hb |].
      split; [apply lab_le_refl |]. split; [intros x Hx; exact Hx |].
      split; [intros Hx; congruence | unfold uid_ge, u0; lia]. }
    assert (Hpre : PR (pre_store s0)).
    { unfold BinderEnv.pre_store. apply PR_env; [| exact Hpr0]. apply Hru. cbn [s0 init_state s_idx]. lia. }
    assert (L1 : LB 0 s1) by exact (st_step _ _ _ _ _ _ (LB_stable faults env dp 0) AGetBR s0 s1 r1 eq_refl eq_refl E1).
    assert (N1 : NoElse s1) by exact (st_step _ _ _ _ _ _ (NoElse_stable faults env dp) AGetBR s0 s1 r1 eq_refl eq_refl E1).
    assert (M1 : MKS None None s1)
      by exact (st_step _ _ _ _ _ _ (MKS_stable faults env dp (fun _ => true) None None) AGetBR s0 s1 r1 eq_refl (conj eq_refl eq_refl) E1).
    destruct (step_e _ _ _ _ _ _ _ E1) as (_ & Hidx & _ & _ & Hcase).
    assert (Hst1 : s_store s1 = pre_store s0).
    { destruct Hcase as [Hi | Hr]; [apply Hi |].
      destruct Hr as ((ans & Hd) & _). cbn [do_call] in Hd. injection Hd as <- _. reflexivity. }
    assert (Hlog : nothing_done (s_log s1) = true).
    { destruct Hcase as [Hi | Hr].
      - destruct Hi as (_ & _ & _ & (o & _ & ->) & _). reflexivity.
      - destruct Hr as (_ & _ & -> & _). reflexivity. }
    pose proof Hpre as (P1 & P2 & P3 & P4 & P5 & P6). rewrite <- Hst1 in P1, P2, P3, P4, P5, P6.
    assert (Hexit : forall res : nat * bool, snd res = true \/ nothing_done (s_log s1) = true -> fin_env s1 res)
      by (intros res Hres; apply exit_now; auto).
    destruct r1 as [| k | | | | | b' | |]; try (cbn [Binder.exec fst snd]; apply Hexit; left; reflexivity).
    - destruct k; cbn [Binder.exec fst snd]; apply Hexit; auto.
    - (* the request was read: it is [b] *)
      assert (Hb' : b' = b).
      { destruct Hcase as [Hi | Hr].
        - destruct Hi as ((k & Hk) & _). discriminate.
        - destruct Hr as ((ans & Hd) & _). cbn [do_call] in Hd. rewrite <- Hst1 in Hd.
          destruct P2 as [Hq | Hq]; rewrite Hq in Hd; [discriminate | congruence]. }
      subst b'.
      assert (Hidx1 : s_idx s1 = 1) by (rewrite Hidx; reflexivity).
      assert (Hpr1 : PR (s_store s1)) by (unfold PR; auto 10).
      pose proof (tail_env s1 Hidx1 L1 N1 M1 Hpr1) as HT.
      destruct (b_phase b) eqn:Eph; [exact HT | contradiction | exact HT].
  Qed.
End Fin.

(** * The statements, closed *)

(** a run nobody interferes with is a [no_env] run *)
Lemma step_env_quiet faults env dp c s :
  env_quiet env -> Binder.step faults env dp c s = Binder.step faults no_env dp c s.
Proof. intros H. unfold Binder.step. rewrite (H (s_idx s)). reflexivity. Qed.

Lemma exec_env_quiet {A} faults env dp ord (p : prog A) :
  env_quiet env -> forall s, Binder.exec faults env dp ord p s = Binder.exec faults no_env dp ord p s.
Proof.
  intros H. induction p as [a | c k IH | k IH | m k IH | gs k IH | b k IH]; intros s; cbn [Binder.exec].
  - reflexivity.
  - rewrite (step_env_quiet faults env dp c s H). destruct (Binder.step faults no_env dp c s) as [s' r]. apply IH.
  - apply IH.
  - apply IH.
  - apply IH.
  - apply IH.
Qed.

Lemma pod_side_ok_of sc p :
  wf_shape sc = true -> (sc_fraction sc = true -> Lab sc (sc_groups sc) p) -> p_recv p = Some (recv_type sc) ->
  pod_side_ok sc p = true.
Proof.
  intros Hwf HL HR. unfold pod_side_ok. rewrite HR. cbn [opt_rtype_eqb]. rewrite rtype_eqb_refl. cbn [andb].
  destruct (sc_fraction sc) eqn:Efr; [| reflexivity]. specialize (HL eq_refl).
  unfold labels_ok, Lab in *. unfold wf_shape in Hwf. rewrite Efr in Hwf.
  destruct (sc_multi sc) eqn:Em.
  - apply forallb_forall. intros g Hg. apply mem_nat_In, HL, Hg.
  - destruct (sc_groups sc) as [| g [| g' l]]; simpl in Hwf; try discriminate.
    apply opt_nat_eqb_eq, HL. reflexivity.
Qed.

Theorem all_or_nothing_env sc faults env dp ord init :
  wf_shape sc = true -> init_ok init -> read_unbound env ->
  let s := fst (run sc faults env dp ord init) in
  let res := snd (run sc faults env dp ord init) in
  (binds (s_log s) = 1
   /\ (same_pod init (s_store s) ->
       p_node (self (s_store s)) = 1 /\ pod_side_ok sc (self (s_store s)) = true)
   /\ (env_quiet env -> bound (s_store s) = true /\ side_ok sc (s_store s) = true))
  \/ (binds (s_log s) = 0 /\ br_succeeded (s_store s) = false
      /\ reported (s_store s) (s_crashed s) (snd res) || nothing_done (s_log s) = true
      /\ (cleanup_unfaulted s = true -> clean init (s_store s) = true)).
Proof.
  intros Hwf Hok Hru. pose proof Hok as (_ & _ & _ & _ & _ & _ & _ & (b & Hb & Hph)).
  destruct (reconcile_env faults env dp ord sc init b Hph Hru Hwf Hok Hb) as (_ & [(H1 & (_ & Hh) & (_ & HS)) | H2]).
  - left. unfold run, run_with. cbn zeta. split; [exact H1 |]. split.
    + intros (Ha & Hu). split; [apply Hh; [exact Ha | exact Hu] |].
      destruct (HS (conj Ha Hu)) as (HL & HR). apply pod_side_ok_of; assumption.
    + intros Hq. rewrite (exec_env_quiet faults env dp ord _ Hq) in H1 |- *.
      apply (bound_of_binds sc faults dp ord init Hwf Hok H1).
  - right. exact H2.
Qed.

Theorem succeeded_means_bound_here sc faults env dp ord init :
  wf_shape sc = true -> init_ok init -> read_unbound env ->
  let s := fst (run sc faults env dp ord init) in
  br_succeeded (s_store s) = true -> same_pod init (s_store s) ->
  p_node (self (s_store s)) = 1.
Proof.
  intros Hwf Hok Hru. cbn zeta. intros Hs Hsame.
  destruct (all_or_nothing_env sc faults env dp ord init Hwf Hok Hru) as [(_ & H & _) | (_ & H & _)].
  - apply H, Hsame.
  - cbn zeta in H. rewrite H in Hs. discriminate.
Qed.

Theorem never_elsewhere_env sc faults env dp ord init :
  wf_shape sc = true -> init_ok init -> read_unbound env ->
  let s := fst (run sc faults env dp ord init) in
  binds (s_log s) <= 1 /\ existsb is_bind_elsewhere (s_log s) = false.
Proof.
  intros Hwf Hok Hru. pose proof Hok as (_ & _ & _ & _ & _ & _ & _ & (b & Hb & Hph)).
  destruct (reconcile_env faults env dp ord sc init b Hph Hru Hwf Hok Hb) as (Hne & [(H1 & _) | (H1 & _)]);
    unfold run, run_with; cbn zeta; split; try exact Hne; lia.
Qed.

(** * What the statements exclude, and what the code as it is does not satisfy *)
Definition ex_scw : scen := mkScen false [] None false false false true true.   (* a whole-GPU request *)
Definition ex_env_at (k : nat) (e : estep) (j : nat) : list estep := if j =? k then [e] else [].
Definition ex_conflict_at (k : nat) (j : nat) : fault := if j =? k then Fail EConflict else Ok.

(** The variant of Bind that takes a 409 Conflict of the binding call for "already bound"
    ([run_conflict_is_success]; NOT the code): the pod is bound to another node right before the
    binding call (call 5 of a whole-GPU request) - the request ends Succeeded, the pod (same UID) sits on
    the other node.  The same with the pod deleted (terminating), and with nobody interfering but the
    binding call answered 409 Conflict. *)
Lemma ex_conflict_is_success_violates :
  (let s := fst (run_conflict_is_success ex_scw (fun _ => Ok) (ex_env_at 5 EvBindElsewhere) ex_dp ex_ord ex_init) in
   br_succeeded (s_store s) = true /\ self_alive (s_store s) = true
   /\ p_uid (self (s_store s)) = p_uid (self ex_init) /\ p_node (self (s_store s)) = 2)
  /\ (let s := fst (run_conflict_is_success ex_scw (fun _ => Ok) (ex_env_at 5 EvTerminate) ex_dp ex_ord ex_init) in
      br_succeeded (s_store s) = true /\ self_alive (s_store s) = true
      /\ p_uid (self (s_store s)) = p_uid (self ex_init) /\ p_node (self (s_store s)) = 0)
  /\ (let s := fst (run_conflict_is_success ex_scw (ex_conflict_at 5) no_env ex_dp ex_ord ex_init) in
      br_succeeded (s_store s) = true /\ self_alive (s_store s) = true
      /\ p_uid (self (s_store s)) = p_uid (self ex_init) /\ p_node (self (s_store s)) = 0)
  /\ (* the code under the same three inputs: not Succeeded *)
     br_succeeded (s_store (fst (run ex_scw (fun _ => Ok) (ex_env_at 5 EvBindElsewhere) ex_dp ex_ord ex_init))) = false
  /\ br_succeeded (s_store (fst (run ex_scw (fun _ => Ok) (ex_env_at 5 EvTerminate) ex_dp ex_ord ex_init))) = false
  /\ br_succeeded (s_store (fst (run ex_scw (ex_conflict_at 5) no_env ex_dp ex_ord ex_init))) = false.
Proof. vm_compute. auto 20. Qed.

Lemma ex_read_unbound k e : k <> 0 -> k <> 1 -> read_unbound (ex_env_at k e).
Proof.
  intros H0 H1 j Hj. unfold ex_env_at. destruct (j =? k) eqn:E; [| intros []].
  apply Nat.eqb_eq in E. lia.
Qed.

(** Bind BEFORE d9da4f6 ([run_uid_at_end]: the Binding's UID is read from the in-memory pod at the end
    of Bind; NOT the code any more), with the pod RE-CREATED under the same name during the attempt (right
    before the config maps are written, after the GPU-group label went to the old pod): the in-memory pod
    is refreshed by the next patch, the Binding carries the NEW UID, the new pod is bound - without the
    GPU-group label.  Bound to the request's node, request Succeeded, side objects NOT in place.  The
    code as it is, on the same input: the binding call is refused (409, UID precondition), Rollback
    runs, nothing bound, request Failed, nothing left. *)
Lemma ex_recreated_bound_without_labels :
  (let s := fst (run_uid_at_end ex_sc1 (fun _ => Ok) (ex_env_at 9 EvRecreate) ex_dp ex_ord ex_init) in
   wf_shape ex_sc1 = true /\ binds (s_log s) = 1 /\ bound (s_store s) = true /\ br_succeeded (s_store s) = true
   /\ p_plain (self (s_store s)) = None /\ side_ok ex_sc1 (s_store s) = false
   /\ p_uid (self (s_store s)) = 2)
  /\ (let s := fst (run ex_sc1 (fun _ => Ok) (ex_env_at 9 EvRecreate) ex_dp ex_ord ex_init) in
      binds (s_log s) = 0 /\ unbound (s_store s) = true /\ br (s_store s) = Some (mkBR BFailed 0)
      /\ cleanup_unfaulted s = true /\ clean ex_init (s_store s) = true).
Proof. vm_compute. auto 20. Qed.

(** The code as it is, with the pod bound to another node BEFORE the reconciler reads it (before call 1):
    the "pod already bound" no-op reports the request Succeeded although the pod sits on the other node. *)
Lemma ex_bound_elsewhere_before_read :
  let s := fst (run ex_scw (fun _ => Ok) (ex_env_at 1 EvBindElsewhere) ex_dp ex_ord ex_init) in
  br_succeeded (s_store s) = true /\ same_pod ex_init (s_store s) /\ p_node (self (s_store s)) = 2
  /\ p_cond (self (s_store s)) = Some true /\ binds (s_log s) = 0.
Proof. vm_compute. auto 10. Qed.

(** non-vacuity of the interleaved statements: the pod is bound to another node right before the binding
    call of a whole-GPU request; the hypotheses hold, the code ends in the "nothing" case: the binding call
    is refused (409), Rollback runs unfaulted, the request is Failed, the error is returned *)
Lemma ex_interleaved_nonvacuous :
  wf_shape ex_scw = true /\ init_ok ex_init /\ read_unbound (ex_env_at 5 EvBindElsewhere)
  /\ (let s := fst (run ex_scw (fun _ => Ok) (ex_env_at 5 EvBindElsewhere) ex_dp ex_ord ex_init) in
      let res := snd (run ex_scw (fun _ => Ok) (ex_env_at 5 EvBindElsewhere) ex_dp ex_ord ex_init) in
      binds (s_log s) = 0 /\ br (s_store s) = Some (mkBR BFailed 0) /\ snd res = true
      /\ p_node (self (s_store s)) = 2 /\ cleanup_unfaulted s = true /\ clean ex_init (s_store s) = true
      /\ length (s_log s) = 8).
Proof.
  split; [reflexivity |]. split.
  { unfold init_ok, ex_init. simpl. repeat split; auto. exists (mkBR BPending 0). split; [reflexivity | discriminate]. }
  split; [apply ex_read_unbound; discriminate |]. vm_compute. auto 10.
Qed.
