(** The collection the C16 monitor compares the real pops with (Run/C16.v
    [collect_ideal]) is the one the theorems speak about: per leaf queue the
    [depth] best of the eligible jobs of that queue ([d_best] of [eligible_of]). *)
From Coq Require Import List ZArith Bool Lia.
From KaiV Require Import Model.JobOrder Model.JobOrderSpec Proofs.JobOrder Run.C16.
Import ListNotations.
Set Default Timeout 60.
Open Scope Z_scope.

Section Ideal.
  Variable qs : list qinfo.
  Variable depth : Z.

  Definition collect_step (ls : leaves) (j : job) : leaves :=
    if eligible qs j
    then set_key (j_queue j) (ideal_push job_less depth (leaf_get ls (j_queue j)) j) ls
    else ls.

  Lemma collect_fold_leaf : forall jobs ls q,
      leaf_get (fold_left collect_step jobs ls) q
      = fold_left (ideal_push job_less depth) (eligible_of qs q jobs) (leaf_get ls q).
  Proof.
    induction jobs as [|j r IH]; intros ls q; cbn [fold_left]; [reflexivity|].
    rewrite IH. unfold eligible_of. cbn [filter]. fold (eligible_of qs q r).
    unfold collect_step. destruct (eligible qs j); cbn [andb]; [|reflexivity].
    destruct (Z.eqb_spec (j_queue j) q) as [E|N].
    - subst q. cbn [fold_left]. f_equal. unfold leaf_get at 1. now rewrite lookup_set_eq.
    - f_equal. unfold leaf_get. rewrite lookup_set_neq by congruence. reflexivity.
  Qed.

  Theorem collect_ideal_is_d_best : forall jobs q,
      leaf_get (collect_ideal qs depth jobs) q = d_best job_less depth (eligible_of qs q jobs).
  Proof.
    intros jobs q. unfold collect_ideal. change (fun ls j => _) with collect_step.
    rewrite collect_fold_leaf. cbn [leaf_get lookup]. apply fold_ideal_d_best.
  Qed.
End Ideal.
