(** Proofs for property C15: the job order shared by the allocate action and by the solver's
    simulation (Model/ClosedSystem.v, section "the job order"). *)
Set Default Timeout 60.
From Coq Require Import List ZArith Bool Lia.
From KaiV Require Import Model.ClosedSystem Proofs.ClosedSystem.
Import ListNotations.
Open Scope Z_scope.

(** * basic facts *)
Lemma mem_remove1_sub : forall x v s, mem x (remove1 v s) = true -> mem x s = true.
Proof.
  intros x v s. induction s as [|y r IH]; cbn [remove1]; [easy|].
  destruct (Pos.eqb v y) eqn:E.
  - intros H. unfold mem in *. cbn [existsb]. rewrite H. apply orb_true_r.
  - unfold mem in *. cbn [existsb]. intros H. apply orb_true_iff in H as [H|H].
    + rewrite H. reflexivity.
    + rewrite (IH H). apply orb_true_r.
Qed.

Lemma mem_remove1_nodup : forall v s, nodupb s = true -> mem v (remove1 v s) = false.
Proof.
  intros v s. induction s as [|y r IH]; cbn [remove1 nodupb]; [reflexivity|].
  intros H. apply andb_prop in H as [Hy Hr]. apply negb_true_iff in Hy.
  destruct (Pos.eqb v y) eqn:E.
  - apply Pos.eqb_eq in E. subst y. exact Hy.
  - unfold mem in *. cbn [existsb]. rewrite E. cbn [orb]. exact (IH Hr).
Qed.

Lemma find_job_in_ids : forall js x, In x (map j_id js) -> exists J, find_job js x = Some J.
Proof.
  induction js as [|J r IH]; cbn [map find_job]; intros x H; [destruct H|].
  destruct (Pos.eqb (j_id J) x) eqn:E; [now exists J|].
  destruct H as [H|H]; [subst x; rewrite Pos.eqb_refl in E; discriminate|now apply IH].
Qed.

Lemma pending_spec : forall p s x, In x (pending p s) ->
  mem x s = false /\ exists J, find_job (p_jobs p) x = Some J.
Proof.
  intros p s x H. unfold pending in H. apply filter_In in H as [H1 H2].
  split; [now apply negb_true_iff|now apply find_job_in_ids].
Qed.

(** what the gate of a reclaim decision says about the two jobs *)
Lemma reclaim_ok_facts : forall m p s j v, reclaim_ok m p s j v = true ->
  mem j s = false /\ mem v s = true /\ (exists V, find_job (p_jobs p) v = Some V) /\ j <> v.
Proof.
  intros m p s j v E. unfold reclaim_ok in E.
  destruct (find_job (p_jobs p) j) as [J|]; [|discriminate].
  destruct (find_job (p_jobs p) v) as [V|] eqn:EV; [|discriminate].
  destruct (find_queue (p_queues p) (j_queue J)); [|discriminate].
  destruct (find_queue (p_queues p) (j_queue V)); [|discriminate].
  do 3 (apply andb_prop in E as [E _]). apply andb_prop in E as [Ej Ev].
  apply negb_true_iff in Ej. repeat split; [exact Ej|exact Ev|now exists V|].
  intros ->. rewrite Ev in Ej. discriminate.
Qed.

(** * the pop loop *)
Lemma pop_loop_mono : forall fuel o may p s rest x,
  mem x s = true -> mem x (pop_loop fuel o may p s rest) = true.
Proof.
  induction fuel as [|f IH]; intros o may p s rest x H; cbn [pop_loop]; [exact H|].
  destruct (o p s rest) as [y|]; [|exact H].
  apply IH. destruct (may y && bind_ok p s y); [|exact H].
  unfold mem in *. cbn [existsb]. rewrite H. apply orb_true_r.
Qed.

Lemma bind_ok_full : forall p s x, p_slots p <= Z.of_nat (length s) -> bind_ok p s x = false.
Proof.
  intros p s x H. unfold bind_ok. destruct (find_job (p_jobs p) x); [|reflexivity].
  apply andb_false_iff. right. apply Z.ltb_ge. exact H.
Qed.

(** once the cluster is full nothing is placed any more *)
Lemma pop_loop_full : forall fuel o may p s rest,
  p_slots p <= Z.of_nat (length s) -> pop_loop fuel o may p s rest = s.
Proof.
  induction fuel as [|f IH]; intros o may p s rest H; cbn [pop_loop]; [reflexivity|].
  destruct (o p s rest) as [y|]; [|reflexivity].
  rewrite (bind_ok_full p s y H). rewrite andb_false_r. now apply IH.
Qed.

Lemma length_remove1_full : forall p s v,
  free p s = 0 -> mem v s = true ->
  Z.of_nat (length (remove1 v s)) = p_slots p - 1.
Proof.
  intros p s v Hf Hv. unfold free in Hf. pose proof (length_remove1 v s Hv). lia.
Qed.

(** a pending job takes the one free slot *)
Lemma bind_ok_pending : forall p s' x,
  In x (pending p s') -> Z.of_nat (length s') < p_slots p -> bind_ok p s' x = true.
Proof.
  intros p s' x Hx Hl. destruct (pending_spec p s' x Hx) as [Hm [J HJ]].
  unfold bind_ok. rewrite HJ, Hm. cbn [negb andb]. now apply Z.ltb_lt.
Qed.

(** * order consistency *)
(** the first pop of the allocate action on the evicted state *)
Definition first_pop (o : order_fn) (p : params) (s' : state) : option id := o p s' (pending p s').

Section Shared.
  Variables (m : Z * Z) (o : order_fn) (p : params) (s : state) (j v : id).
  Hypothesis Hsound : order_sound o.
  Hypothesis Hnodup : nodupb s = true.
  (** the cluster is full: in the class a job is pending after allocate only if no slot is free *)
  Hypothesis Hfull : free p s = 0.

  Let s' := remove1 v s.

  (** the simulation refuses every eviction that the next allocate would undo: if the victim is the first
      job the order pops on the evicted state, the scenario is rejected *)
  Lemma sim_refuses_victim_first :
    first_pop o p s' = Some v -> reclaim_sim m o all_pending p s j v = None.
  Proof.
    intros Hfirst. unfold reclaim_sim. destruct (reclaim_ok m p s j v) eqn:E; [|reflexivity].
    destruct (reclaim_ok_facts m p s j v E) as (Hj & Hv & [V HV] & Hne).
    fold s'. cbv zeta.
    assert (Hin : In v (pending p s')) by (apply (Hsound p s'); exact Hfirst).
    assert (Hsim : mem v (simulate o all_pending p s' j v) = true).
    { unfold simulate, all_pending. cbv zeta.
      destruct (pending p s') as [|a l] eqn:EP; [destruct Hin|].
      cbn [length pop_loop]. unfold first_pop in Hfirst. rewrite EP in Hfirst. rewrite Hfirst.
      rewrite Pos.eqb_refl, orb_true_r. cbn [andb].
      assert (Hb : bind_ok p s' v = true).
      { apply bind_ok_pending; [rewrite EP; exact Hin|].
        unfold s'. rewrite (length_remove1_full p s v Hfull Hv). lia. }
      rewrite Hb. apply pop_loop_mono. unfold mem. cbn [existsb]. now rewrite Pos.eqb_refl. }
    rewrite Hsim. cbn [negb]. now rewrite andb_false_r.
  Qed.

  (** the order-consistency lemma: a reclaim that went through the simulation over the SAME order and
      the SAME job set as the allocate action is not undone by the next allocate - the freed slot goes to
      the first job the order pops, which is not the victim, and nothing else is placed *)
  Lemma shared_order_not_rebound : forall s1,
    reclaim_sim m o all_pending p s j v = Some s1 ->
    s1 = s' /\
    exists x, first_pop o p s' = Some x /\ x <> v /\ In x (pending p s')
              /\ allocate o p s1 = x :: s' /\ mem v (allocate o p s1) = false.
  Proof.
    intros s1 H. unfold reclaim_sim in H. destruct (reclaim_ok m p s j v) eqn:E; [|discriminate].
    destruct (reclaim_ok_facts m p s j v E) as (Hj & Hv & [V HV] & Hne).
    fold s' in H. cbv zeta in H.
    destruct (mem j (simulate o all_pending p s' j v) && negb (mem v (simulate o all_pending p s' j v))) eqn:ES;
      [|discriminate].
    injection H as <-. split; [reflexivity|].
    apply andb_prop in ES as [ESj ESv]. apply negb_true_iff in ESv.
    assert (Hjs' : mem j s' = false).
    { destruct (mem j s') eqn:X; [|reflexivity]. unfold s' in X. apply mem_remove1_sub in X. congruence. }
    assert (Hlen : Z.of_nat (length s') = p_slots p - 1)
      by (unfold s'; now apply length_remove1_full).
    destruct (first_pop o p s') as [x|] eqn:EF.
    - assert (Hin : In x (pending p s')) by (apply (Hsound p s'); exact EF).
      assert (Hxv : x <> v).
      { intros ->. pose proof (sim_refuses_victim_first EF) as Hn.
        unfold reclaim_sim in Hn. rewrite E in Hn. fold s' in Hn. cbv zeta in Hn.
        rewrite ESj, ESv in Hn. discriminate. }
      exists x. repeat split; [exact Hxv|exact Hin| |].
      + unfold allocate. cbv zeta. unfold first_pop in EF.
        destruct (pending p s') as [|a l] eqn:EP; [destruct Hin|].
        cbn [length pop_loop]. rewrite EF. cbn [andb].
        assert (Hb : bind_ok p s' x = true) by (apply bind_ok_pending; [rewrite EP; exact Hin|lia]).
        rewrite Hb. apply pop_loop_full. cbn [length]. lia.
      + assert (HA : allocate o p s' = x :: s').
        { unfold allocate. cbv zeta. unfold first_pop in EF.
          destruct (pending p s') as [|a l] eqn:EP; [destruct Hin|].
          cbn [length pop_loop]. rewrite EF. cbn [andb].
          assert (Hb : bind_ok p s' x = true) by (apply bind_ok_pending; [rewrite EP; exact Hin|lia]).
          rewrite Hb. apply pop_loop_full. cbn [length]. lia. }
        rewrite HA. unfold mem. cbn [existsb].
        assert (Hvx : Pos.eqb v x = false) by (apply Pos.eqb_neq; congruence).
        rewrite Hvx. cbn [orb]. exact (mem_remove1_nodup v s Hnodup).
    - (* nothing popped: the simulation placed nobody, so it cannot have accepted *)
      exfalso. unfold simulate, all_pending in ESj. cbv zeta in ESj. unfold first_pop in EF.
      destruct (length (pending p s')); cbn [pop_loop] in ESj; [congruence|].
      rewrite EF in ESj. congruence.
  Qed.

  (** when the first job popped is the reclaimer itself, reclaim + allocate is exactly the decision
      [DReclaim j v] of the slot-keeping relation the rank theorem is about *)
  Lemma shared_order_is_slot_keeping : forall s1,
    reclaim_sim m o all_pending p s j v = Some s1 ->
    first_pop o p s' = Some j ->
    apply m p s (DReclaim j v) = Some (allocate o p s1).
  Proof.
    intros s1 H Hfirst. destruct (shared_order_not_rebound s1 H) as (-> & x & Hx & _ & _ & HA & _).
    rewrite Hfirst in Hx. injection Hx as <-. rewrite HA. cbn [apply].
    unfold reclaim_sim in H. destruct (reclaim_ok m p s j v); [reflexivity|discriminate].
  Qed.
End Shared.

Theorem shared_order_rank : forall m o p s j v s1,
  order_sound o -> nodupb s = true -> free p s = 0 ->
  wf_paramsb p = true -> wf_multb m = true ->
  reclaim_sim m o all_pending p s j v = Some s1 ->
  first_pop o p (remove1 v s) = Some j ->
  lexlt (rank p (allocate o p s1)) (rank p s) /\ allocate o p s1 <> s.
Proof.
  intros m o p s j v s1 Hs Hn Hf W Hm H Hfirst.
  pose proof (shared_order_is_slot_keeping m o p s j v Hs Hn Hf s1 H Hfirst) as HA.
  assert (Hc : within_cap p s) by (unfold within_cap; unfold free in Hf; lia).
  split.
  - exact (p_rank_decreases m p s (DReclaim j v) _ W Hm Hc HA).
  - intros Heq. apply (p_no_return m p [DReclaim j v] s W Hm Hc); [discriminate|].
    cbn [run]. rewrite HA. now rewrite Heq.
Qed.

(** * two different job sets: the witness of seeded change C15-2 *)
(** The order function of the witness: a department is ranked through the first job of the structure
    that belongs to it ("the first job of its best leaf queue"): key = (allocated + weight of that job) /
    fair share, smaller first, ties to the department listed first; the job popped is that first job.
    [w] stands for the request of the head job.  In the class proper all requests are equal, the key
    does not depend on the head job and dropping jobs from the structure cannot change the order of
    two departments; the witness gives job 5 the weight 3 (the "a2-big" of seeded/C15-2), which is a
    statement about the ORDER only: no slot is ever offered to job 5 in the runs below. *)
Definition dept_head (p : params) (d : id) (rest : list id) : option id :=
  match filter (fun x => oeqb (dept_of p x) d) rest with [] => None | x :: _ => Some x end.

Fixpoint best_dept (w : id -> Z) (p : params) (s : state) (rest : list id) (ds : list dept)
  : option (id * Z * Z) :=   (* head job, key numerator, key denominator *)
  match ds with
  | [] => None
  | P :: r =>
      let here := match dept_head p (d_id P) rest with
                  | Some x => Some (x, ad p s (d_id P) + w x, d_fair P)
                  | None => None
                  end in
      match here, best_dept w p s rest r with
      | Some (x, n, d), Some (y, n', d') => if n * d' <=? n' * d then Some (x, n, d) else Some (y, n', d')
      | Some a, None => Some a
      | None, b => b
      end
  end.

Definition head_order (w : id -> Z) : order_fn :=
  fun p s rest => match best_dept w p s rest (p_depts p) with Some (x, _, _) => Some x | None => None end.

Lemma dept_head_in : forall p d rest x, dept_head p d rest = Some x -> In x rest.
Proof.
  intros p d rest x H. unfold dept_head in H.
  destruct (filter (fun y => oeqb (dept_of p y) d) rest) as [|a l] eqn:E; [discriminate|].
  injection H as <-. assert (Hin : In a (a :: l)) by now left. rewrite <- E in Hin.
  now apply filter_In in Hin as [Hin _].
Qed.

Lemma best_dept_in : forall w p s rest ds x n d,
  best_dept w p s rest ds = Some (x, n, d) -> In x rest.
Proof.
  induction ds as [|P r IH]; cbn [best_dept]; intros x n d H; [discriminate|].
  destruct (dept_head p (d_id P) rest) as [h|] eqn:EH.
  - destruct (best_dept w p s rest r) as [[[y n'] d']|] eqn:EB.
    + destruct (_ <=? _) in H; injection H as <- <- <-; [now apply dept_head_in in EH|now apply (IH y n' d')].
    + injection H as <- <- <-. now apply dept_head_in in EH.
  - destruct (best_dept w p s rest r) as [[[y n'] d']|] eqn:EB; [|discriminate].
    injection H as <- <- <-. now apply (IH y n' d').
Qed.

Lemma head_order_sound : forall w, order_sound (head_order w).
Proof.
  intros w p s rest x H. unfold head_order in H.
  destruct (best_dept w p s rest (p_depts p)) as [[[y n] d]|] eqn:E; [|discriminate].
  injection H as <-. now apply (best_dept_in w p s rest (p_depts p) y n d).
Qed.

(** the world of seeded/C15-2/README.md: 4 slots; departments 1 and 2 with fair share 2 each; queue 1
    (a1) and queue 2 (a2) under department 1, queue 3 (b) under department 2; job 1 = a2-run, jobs
    2-4 = b-run0..2, job 5 = a2-big (pending, queue a2), job 6 = a1-small (pending, queue a1). *)
Definition ow_params : params := {|
  p_sz := 1; p_slots := 4;
  p_queues := [mkQueue 1%positive 1%positive 1 1; mkQueue 2%positive 1%positive 1 1; mkQueue 3%positive 2%positive 2 2];
  p_depts := [mkDept 1%positive 2 2; mkDept 2%positive 2 2];
  p_jobs := [mkJob 1%positive 2%positive 50; mkJob 2%positive 3%positive 50; mkJob 3%positive 3%positive 50;
             mkJob 4%positive 3%positive 50; mkJob 5%positive 2%positive 50; mkJob 6%positive 1%positive 50];
|}.
Definition ow_weight (x : id) : Z := if Pos.eqb x 5 then 3 else 1.
Definition ow_order : order_fn := head_order ow_weight.
Definition ow_s0 : state := [4; 3; 2; 1]%positive.   (* b-run2 holds its slot *)
Definition ow_s1 : state := [3; 2; 1]%positive.      (* b-run2 evicted *)

Lemma ow_facts :
  wf_paramsb ow_params = true /\ nodupb ow_s0 = true /\ free ow_params ow_s0 = 0
  (* the simulation over the pending jobs of the two scenario queues accepts the eviction of b-run2 ... *)
  /\ reclaim_sim (1, 1) ow_order scenario_queues_only ow_params ow_s0 6%positive 4%positive = Some ow_s1
  (* ... the next allocate, over all pending jobs, gives the slot back to b-run2 ... *)
  /\ allocate ow_order ow_params ow_s1 = ow_s0
  /\ allocate ow_order ow_params ow_s0 = ow_s0
  (* ... and the simulation over the same jobs as allocate refuses this eviction *)
  /\ reclaim_sim (1, 1) ow_order all_pending ow_params ow_s0 6%positive 4%positive = None
  /\ first_pop ow_order ow_params ow_s1 = Some 4%positive.
Proof. vm_compute. repeat split; reflexivity. Qed.

Theorem different_job_sets_lasso :
  exists o p s0 s1 j v,
    order_sound o /\ wf_paramsb p = true /\ nodupb s0 = true /\ free p s0 = 0
    /\ reclaim_sim (1, 1) o scenario_queues_only p s0 j v = Some s1
    /\ allocate o p s1 = s0
    /\ reclaim_sim (1, 1) o all_pending p s0 j v = None
    /\ ~ no_lasso (ordered_system (1, 1) o scenario_queues_only p).
Proof.
  exists ow_order, ow_params, ow_s0, ow_s1, 6%positive, 4%positive.
  destruct ow_facts as (H1 & H2 & H3 & H4 & H5 & H6 & H7 & _).
  repeat split; try assumption; [apply head_order_sound|].
  intros H.
  (* the run that stays in s1 for ever: every cycle allocate re-binds b-run2 and reclaim evicts it again *)
  assert (Hr : is_run (ordered_system (1, 1) ow_order scenario_queues_only ow_params) (fun _ => ow_s1)).
  { intros n. right. exists 6%positive, 4%positive. cbn beta. rewrite H5. exact H4. }
  apply (H _ Hr 0%nat 0%nat 1%nat); [lia| |reflexivity].
  exists 6%positive, 4%positive. cbn beta. rewrite H5. exact H4.
Qed.

Lemma any_job_set_refuted :
  ~ (forall m o js p, order_sound o -> wf_paramsb p = true -> wf_multb m = true ->
     no_lasso (ordered_system m o js p)).
Proof.
  intros H. destruct different_job_sets_lasso as (o & p & s0 & s1 & j & v & Ho & Hp & _ & _ & _ & _ & _ & Hn).
  apply Hn. apply H; [exact Ho|exact Hp|reflexivity].
Qed.
