(** Proofs for Model/Placement.v: the boolean checker is sound and complete for
    the declarative spec; every placement committed by the allocate loop
    satisfies it w.r.t. the pods on the nodes before it. *)
From Coq Require Import List String ZArith Bool Lia.
From KaiV Require Import Model.Strconv Model.Placement.
Import ListNotations.
Open Scope string_scope.
Open Scope list_scope.
Set Default Timeout 60.

(** * Small facts *)

Lemma mem_str_In : forall v vs, mem_str v vs = true <-> In v vs.
Proof.
  intros v vs. unfold mem_str. rewrite existsb_exists. split.
  - intros [x [Hin Heq]]. apply String.eqb_eq in Heq. subst. exact Hin.
  - intro Hin. exists v. split; [exact Hin | apply String.eqb_refl].
Qed.

Lemma mem_str_false : forall v vs, mem_str v vs = false <-> ~ In v vs.
Proof.
  intros v vs. split.
  - intros H Hin. apply mem_str_In in Hin. rewrite H in Hin. discriminate.
  - intro H. destruct (mem_str v vs) eqn:E; [| reflexivity]. exfalso. apply H. apply mem_str_In. exact E.
Qed.

Lemma mem_pos_In : forall x l, mem_pos x l = true <-> In x l.
Proof.
  intros x l. unfold mem_pos. rewrite existsb_exists. split.
  - intros [y [Hin Heq]]. apply Pos.eqb_eq in Heq. subst. exact Hin.
  - intro Hin. exists x. split; [exact Hin | apply Pos.eqb_refl].
Qed.

Lemma eqb_empty : forall s, String.eqb s "" = true <-> s = "".
Proof. intro s. apply String.eqb_eq. Qed.

Lemma eqb_neq_empty : forall s, String.eqb s "" = false <-> s <> "".
Proof. intro s. apply String.eqb_neq. Qed.

(** * Selector requirements *)

Lemma req_match_iff : forall ls r, req_match ls r = true <-> ReqMatch ls r.
Proof.
  intros ls r. unfold req_match, ReqMatch.
  destruct (rq_op r); destruct (lget (rq_key r) ls) as [v|] eqn:Hget.
  - (* In, Some *) rewrite mem_str_In. split.
    + intro H. exists v. split; [reflexivity | exact H].
    + intros [v' [Heq Hin]]. inversion Heq. subst. exact Hin.
  - split; [discriminate | intros [v' [Heq _]]; discriminate].
  - (* NotIn, Some *) rewrite negb_true_iff, mem_str_false. split.
    + intros H v' Heq. inversion Heq. subst. exact H.
    + intro H. apply H. reflexivity.
  - split; [intros _ v' Heq; discriminate | reflexivity].
  - split; [intros _; exists v; reflexivity | reflexivity].
  - split; [discriminate | intros [v' Heq]; discriminate].
  - split; discriminate.
  - split; reflexivity.
  - (* Gt, Some *)
    destruct (parse_int v) as [a|] eqn:Hpa.
    + destruct (rq_vals r) as [|w [|w2 rest]] eqn:Hvals.
      * split; [discriminate | intros [v' [a' [w' [b' [_ [_ [Hv _]]]]]]]; discriminate].
      * destruct (parse_int w) as [b|] eqn:Hpb.
        -- rewrite Z.ltb_lt. split.
           ++ intro H. exists v, a, w, b. repeat split; assumption.
           ++ intros [v' [a' [w' [b' [Hv [Ha [Hw [Hb Hlt]]]]]]]].
              inversion Hv. subst v'. inversion Hw. subst w'. rewrite Hpa in Ha. inversion Ha. subst a'.
              rewrite Hpb in Hb. inversion Hb. subst b'. exact Hlt.
        -- split; [discriminate |].
           intros [v' [a' [w' [b' [_ [_ [Hw [Hb _]]]]]]]]. inversion Hw. subst w'. rewrite Hpb in Hb. discriminate.
      * split; [discriminate | intros [v' [a' [w' [b' [_ [_ [Hw _]]]]]]]; discriminate].
    + split; [discriminate |].
      intros [v' [a' [w' [b' [Hv [Ha _]]]]]]. inversion Hv. subst v'. rewrite Hpa in Ha. discriminate.
  - split; [discriminate | intros [v' [a' [w' [b' [Hv _]]]]]; discriminate].
  - (* Lt, Some *)
    destruct (parse_int v) as [a|] eqn:Hpa.
    + destruct (rq_vals r) as [|w [|w2 rest]] eqn:Hvals.
      * split; [discriminate | intros [v' [a' [w' [b' [_ [_ [Hv _]]]]]]]; discriminate].
      * destruct (parse_int w) as [b|] eqn:Hpb.
        -- rewrite Z.ltb_lt. split.
           ++ intro H. exists v, a, w, b. repeat split; assumption.
           ++ intros [v' [a' [w' [b' [Hv [Ha [Hw [Hb Hlt]]]]]]]].
              inversion Hv. subst v'. inversion Hw. subst w'. rewrite Hpa in Ha. inversion Ha. subst a'.
              rewrite Hpb in Hb. inversion Hb. subst b'. exact Hlt.
        -- split; [discriminate |].
           intros [v' [a' [w' [b' [_ [_ [Hw [Hb _]]]]]]]]. inversion Hw. subst w'. rewrite Hpb in Hb. discriminate.
      * split; [discriminate | intros [v' [a' [w' [b' [_ [_ [Hw _]]]]]]]; discriminate].
    + split; [discriminate |].
      intros [v' [a' [w' [b' [Hv [Ha _]]]]]]. inversion Hv. subst v'. rewrite Hpa in Ha. discriminate.
  - split; [discriminate | intros [v' [a' [w' [b' [Hv _]]]]]; discriminate].
Qed.

Lemma reqs_match_iff : forall ls rs, reqs_match ls rs = true <-> ReqsMatch ls rs.
Proof.
  intros ls rs. unfold reqs_match, ReqsMatch. rewrite forallb_forall.
  split; intros H r Hin; apply req_match_iff; apply H; exact Hin.
Qed.

(** * Node-level checks *)

Lemma in_pool_iff : forall cl n, in_pool cl n = true <-> InPool cl n.
Proof.
  intros cl n. unfold in_pool, InPool.
  destruct (String.eqb (cl_pool_key cl) "") eqn:Hk.
  - apply eqb_empty in Hk. split; [intros _; left; exact Hk | reflexivity].
  - apply eqb_neq_empty in Hk.
    destruct (lget (cl_pool_key cl) (nd_labels n)) as [v|] eqn:Hget.
    + rewrite andb_true_iff, negb_true_iff. split.
      * intros [Hv Heq]. apply eqb_neq_empty in Hv. apply String.eqb_eq in Heq. subst v.
        right. right. repeat split; assumption.
      * intros [H | [[_ [_ H]] | [_ [Hv H]]]]; [contradiction | discriminate |].
        inversion H. subst v. split; [apply eqb_neq_empty; exact Hv | apply String.eqb_refl].
    + split.
      * intro Hv. apply eqb_empty in Hv. right. left. repeat split; assumption.
      * intros [H | [[_ [Hv _]] | [_ [_ H]]]]; [contradiction | apply eqb_empty; exact Hv | discriminate].
Qed.

Lemma cond_ok_iff : forall t s, cond_ok (t, s) = true <-> ((t = CReady -> s = CTrue) /\ (pressure t -> s = CFalse)).
Proof.
  intros t s. unfold pressure.
  destruct t; destruct s; cbn; split; intro H; try reflexivity; try discriminate;
    try (split; [intro H'; try discriminate; reflexivity | intros [H' | [H' | [H' | H']]]; try discriminate; reflexivity]).
  all: destruct H as [H1 H2];
    try (specialize (H1 eq_refl); discriminate);
    try (assert (Hp : CFalse = CTrue) by (symmetry; apply H2; auto); discriminate);
    try (assert (Hp : CUnknown = CFalse) by (apply H2; auto); discriminate);
    try (assert (Hp : CTrue = CFalse) by (apply H2; auto); discriminate).
Qed.

Lemma node_conds_iff : forall n, node_conds_ok n = true <-> NodeReady n.
Proof.
  intro n. unfold node_conds_ok, NodeReady. rewrite andb_true_iff, negb_true_iff, forallb_forall. split.
  - intros [Hu Hc]. split; [exact Hu |]. intros t s Hin. apply cond_ok_iff. apply Hc. exact Hin.
  - intros [Hu Hc]. split; [exact Hu |]. intros [t s] Hin. apply cond_ok_iff. apply Hc. exact Hin.
Qed.

Lemma nodesel_iff : forall p n, nodesel_ok p n = true <-> SelectorOK p n.
Proof.
  intros p n. unfold nodesel_ok, SelectorOK. rewrite forallb_forall. split.
  - intros H k v Hin. specialize (H (k, v) Hin). cbn in H.
    destruct (lget k (nd_labels n)) as [v'|]; [| discriminate]. apply String.eqb_eq in H. subst. reflexivity.
  - intros H [k v] Hin. cbn. rewrite (H k v Hin). apply String.eqb_refl.
Qed.

Lemma field_match_iff : forall n r, field_match n r = true <-> FieldMatch n r.
Proof.
  intros n r. unfold field_match, FieldMatch. split.
  - intro H. destruct (rq_op r) eqn:Hop; try discriminate;
      destruct (rq_vals r) as [|v [|v2 rest]] eqn:Hv; try discriminate.
    + apply String.eqb_eq in H. exists v. split; [reflexivity | left; split; [reflexivity | exact H]].
    + apply negb_true_iff in H. apply String.eqb_neq in H. exists v. split; [reflexivity | right; split; [reflexivity | exact H]].
  - intros [v [Hv [[Hop H] | [Hop H]]]]; rewrite Hop, Hv.
    + apply String.eqb_eq. exact H.
    + apply negb_true_iff. apply String.eqb_neq. exact H.
Qed.

Lemma fields_match_iff : forall n rs, forallb (field_match n) rs = true <-> (forall r, In r rs -> FieldMatch n r).
Proof.
  intros n rs. rewrite forallb_forall. split; intros H r Hin; apply field_match_iff; apply H; exact Hin.
Qed.

Lemma nterm_iff : forall n t, nterm_match n t = true <-> NTermMatch n t.
Proof.
  intros n t. unfold nterm_match, NTermMatch.
  destruct (nt_exprs t) as [|e es] eqn:He; destruct (nt_fields t) as [|f fs] eqn:Hf.
  - split; [discriminate | intros [[H | H] _]; contradiction].
  - rewrite andb_true_iff, reqs_match_iff, fields_match_iff. split.
    + intros [H1 H2]. split; [right; discriminate | split; assumption].
    + intros [_ [H1 H2]]. split; assumption.
  - rewrite andb_true_iff, reqs_match_iff, fields_match_iff. split.
    + intros [H1 H2]. split; [left; discriminate | split; assumption].
    + intros [_ [H1 H2]]. split; assumption.
  - rewrite andb_true_iff, reqs_match_iff, fields_match_iff. split.
    + intros [H1 H2]. split; [left; discriminate | split; assumption].
    + intros [_ [H1 H2]]. split; assumption.
Qed.

Lemma nodeaff_iff : forall p n, nodeaff_ok p n = true <-> NodeAffOK p n.
Proof.
  intros p n. unfold nodeaff_ok, NodeAffOK. destruct (pd_nodeaff p) as [ts|].
  - rewrite existsb_exists. split.
    + intros [t [Hin Hm]] ts' Heq. inversion Heq. subst ts'. exists t. split; [exact Hin | apply nterm_iff; exact Hm].
    + intro H. destruct (H ts eq_refl) as [t [Hin Hm]]. exists t. split; [exact Hin | apply nterm_iff; exact Hm].
  - split; [intros _ ts Heq; discriminate | reflexivity].
Qed.

Lemma effect_eqb_eq : forall a b, effect_eqb a b = true <-> a = b.
Proof. intros a b. destruct a; destruct b; cbn; split; intro H; try reflexivity; try discriminate. Qed.

Lemma tolerates_iff : forall t tn, tolerates t tn = true <-> Tolerates t tn.
Proof.
  intros t tn. unfold tolerates, Tolerates. rewrite !andb_true_iff, orb_true_iff. split.
  - intros [[He Hk] Ho]. split; [| split].
    + intros e Heq. rewrite Heq in He. apply effect_eqb_eq. exact He.
    + destruct Hk as [Hk | Hk]; [left; apply eqb_empty; exact Hk | right; apply String.eqb_eq; exact Hk].
    + destruct (tl_op t); [right; split; [reflexivity | apply String.eqb_eq; exact Ho] | left; reflexivity | discriminate].
  - intros [He [Hk Ho]]. split; [split |].
    + destruct (tl_eff t) as [e|]; [apply effect_eqb_eq; apply He; reflexivity | reflexivity].
    + destruct Hk as [Hk | Hk]; [left; apply eqb_empty; exact Hk | right; apply String.eqb_eq; exact Hk].
    + destruct Ho as [Ho | [Ho Hv]]; rewrite Ho; [reflexivity | apply String.eqb_eq; exact Hv].
Qed.

Lemma hard_effect_iff : forall e, hard_effect e = true <-> (e = NoSchedule \/ e = NoExecute).
Proof.
  intro e. destruct e; cbn; split; intro H; try reflexivity; try discriminate; auto;
    destruct H as [H | H]; discriminate.
Qed.

Lemma taints_iff : forall p n, taints_ok p n = true <-> TaintsOK p n.
Proof.
  intros p n. unfold taints_ok, TaintsOK. rewrite forallb_forall. split.
  - intros H tn Hin Hhard. specialize (H tn Hin). apply hard_effect_iff in Hhard. rewrite Hhard in H. cbn in H.
    apply existsb_exists in H. destruct H as [t [Hint Ht]]. exists t. split; [exact Hint | apply tolerates_iff; exact Ht].
  - intros H tn Hin. destruct (hard_effect (tn_eff tn)) eqn:Hh; [| reflexivity]. cbn.
    apply hard_effect_iff in Hh. destruct (H tn Hin Hh) as [t [Hint Ht]].
    apply existsb_exists. exists t. split; [exact Hint | apply tolerates_iff; exact Ht].
Qed.

(** * Inter-pod terms *)

Lemma term_matches_iff : forall o t q, term_matches o t q = true <-> TermMatches o t q.
Proof.
  intros o t q. unfold term_matches, TermMatches. rewrite andb_true_iff. split.
  - intros [Hns Hsel]. split.
    + destruct (pt_nss t) as [|x xs] eqn:Hn.
      * left. split; [reflexivity | apply String.eqb_eq; exact Hns].
      * right. split; [discriminate | apply mem_str_In; exact Hns].
    + destruct (pt_sel t) as [rs|]; [| discriminate]. exists rs. split; [reflexivity | apply reqs_match_iff; exact Hsel].
  - intros [Hns [rs [Hs Hm]]]. split.
    + destruct (pt_nss t) as [|x xs] eqn:Hn.
      * destruct Hns as [[_ H] | [H _]]; [apply String.eqb_eq; exact H | contradiction].
      * destruct Hns as [[H _] | [_ H]]; [discriminate | apply mem_str_In; exact H].
    + rewrite Hs. apply reqs_match_iff. exact Hm.
Qed.

Lemma matches_all_iff : forall o ts q, matches_all o ts q = true <-> MatchesAll o ts q.
Proof.
  intros o ts q. unfold matches_all, MatchesAll. rewrite forallb_forall.
  split; intros H t Hin; apply term_matches_iff; apply H; exact Hin.
Qed.

Lemma same_domain_iff : forall cl k n nn, same_domain cl k n nn = true <-> SameDomain cl k n nn.
Proof.
  intros cl k n nn. unfold same_domain, SameDomain, domain_of.
  destruct (lget k (nd_labels n)) as [a|] eqn:Ha.
  - destruct (find_node cl nn) as [m|] eqn:Hm.
    + destruct (lget k (nd_labels m)) as [b|] eqn:Hb.
      * split.
        -- intro H. apply String.eqb_eq in H. subst b. exists m, a. repeat split; assumption.
        -- intros [m' [v [Hf [Hv Hw]]]]. inversion Hf. subst m'. inversion Hv. subst v. rewrite Hb in Hw. inversion Hw. apply String.eqb_refl.
      * split; [discriminate |]. intros [m' [v [Hf [_ Hw]]]]. inversion Hf. subst m'. rewrite Hb in Hw. discriminate.
    + split; [discriminate |]. intros [m' [v [Hf _]]]. discriminate.
  - split; [discriminate |]. intros [m' [v [_ [Hv _]]]]. discriminate.
Qed.

Lemma has_key_iff : forall cl k nn,
  (match domain_of cl k nn with Some _ => true | None => false end) = true <-> HasKey cl k nn.
Proof.
  intros cl k nn. unfold domain_of, HasKey. destruct (find_node cl nn) as [m|] eqn:Hm.
  - destruct (lget k (nd_labels m)) as [v|] eqn:Hv.
    + split; [intros _; exists m, v; split; [reflexivity | exact Hv] | reflexivity].
    + split; [discriminate |]. intros [m' [v [Hf Hw]]]. inversion Hf. subst m'. rewrite Hv in Hw. discriminate.
  - split; [discriminate |]. intros [m' [v [Hf _]]]. discriminate.
Qed.

Lemma negb_existsb_forall : forall {A} (f : A -> bool) l,
  negb (existsb f l) = true <-> forall x, In x l -> f x = false.
Proof.
  intros A f l. rewrite negb_true_iff. split.
  - intros H x Hin. destruct (f x) eqn:Hf; [| reflexivity].
    assert (Hex : existsb f l = true) by (apply existsb_exists; exists x; split; assumption). rewrite H in Hex. discriminate.
  - intro H. destruct (existsb f l) eqn:Hex; [| reflexivity].
    apply existsb_exists in Hex. destruct Hex as [x [Hin Hf]]. rewrite (H x Hin) in Hf. discriminate.
Qed.

Lemma affinity_iff : forall cl placed p n, affinity_ok cl placed p n = true <-> AffinityOK cl placed p n.
Proof.
  intros cl placed p n. unfold affinity_ok, AffinityOK.
  destruct (pd_aff p) as [|t0 ts0] eqn:Haff.
  - split; [intros _; left; reflexivity | reflexivity].
  - remember (t0 :: ts0) as ts.
    rewrite andb_true_iff, orb_true_iff, andb_true_iff, !forallb_forall. split.
    + intros [Hkeys Hrest]. right. split.
      * intros t Hin. specialize (Hkeys t Hin). destruct (lget (pt_key t) (nd_labels n)) as [v|]; [exists v; reflexivity | discriminate].
      * destruct Hrest as [Hall | [Hnone Hself]].
        -- left. intros t Hin. specialize (Hall t Hin). apply existsb_exists in Hall.
           destruct Hall as [[q m] [Hinp Hq]]. cbn in Hq. apply andb_true_iff in Hq. destruct Hq as [Hma Hsd].
           exists q, m. split; [exact Hinp | split; [apply matches_all_iff; exact Hma | apply same_domain_iff; exact Hsd]].
        -- right. split.
           ++ intros q m Hinp Hma t Hin Hk.
              apply negb_existsb_forall with (x := (q, m)) in Hnone; [| exact Hinp]. cbn in Hnone.
              apply matches_all_iff in Hma. rewrite Hma in Hnone. cbn in Hnone.
              assert (Hex : existsb (fun t1 => match domain_of cl (pt_key t1) m with Some _ => true | None => false end) ts = true).
              { apply existsb_exists. exists t. split; [exact Hin | apply has_key_iff; exact Hk]. }
              rewrite Hex in Hnone. discriminate.
           ++ apply matches_all_iff. exact Hself.
    + intros [H | [Hkeys Hrest]]; [rewrite Heqts in H; discriminate |]. split.
      * intros t Hin. destruct (Hkeys t Hin) as [v Hv]. rewrite Hv. reflexivity.
      * destruct Hrest as [Hall | [Hnone Hself]].
        -- left. intros t Hin. destruct (Hall t Hin) as [q [m [Hinp [Hma Hsd]]]].
           apply existsb_exists. exists (q, m). split; [exact Hinp |]. cbn.
           apply andb_true_iff. split; [apply matches_all_iff; exact Hma | apply same_domain_iff; exact Hsd].
        -- right. split; [| apply matches_all_iff; exact Hself].
           apply negb_existsb_forall. intros [q m] Hinp. cbn.
           destruct (matches_all p ts q) eqn:Hma; [| reflexivity]. cbn.
           destruct (existsb (fun t1 => match domain_of cl (pt_key t1) m with Some _ => true | None => false end) ts) eqn:Hex; [| reflexivity].
           apply existsb_exists in Hex. destruct Hex as [t [Hin Hk]].
           exfalso. apply (Hnone q m Hinp (proj1 (matches_all_iff _ _ _) Hma) t Hin). apply has_key_iff. exact Hk.
Qed.

Lemma anti_iff : forall cl placed p n, anti_ok cl placed p n = true <-> AntiOK cl placed p n.
Proof.
  intros cl placed p n. unfold anti_ok, AntiOK. rewrite forallb_forall. split.
  - intros H t Hin q m Hinp Htm Hsd. specialize (H t Hin).
    apply negb_existsb_forall with (x := (q, m)) in H; [| exact Hinp]. cbn in H.
    apply term_matches_iff in Htm. apply same_domain_iff in Hsd. rewrite Htm, Hsd in H. discriminate.
  - intros H t Hin. apply negb_existsb_forall. intros [q m] Hinp. cbn.
    destruct (term_matches p t q) eqn:Htm; [| reflexivity]. destruct (same_domain cl (pt_key t) n m) eqn:Hsd; [| reflexivity].
    exfalso. apply (H t Hin q m Hinp); [apply term_matches_iff; exact Htm | apply same_domain_iff; exact Hsd].
Qed.

Lemma existing_anti_iff : forall cl placed p n, existing_anti_ok cl placed p n = true <-> ExistingAntiOK cl placed p n.
Proof.
  intros cl placed p n. unfold existing_anti_ok, ExistingAntiOK. rewrite forallb_forall. split.
  - intros H q m Hinp t Hin Htm Hsd. specialize (H (q, m) Hinp). cbn in H.
    rewrite forallb_forall in H. specialize (H t Hin).
    apply term_matches_iff in Htm. apply same_domain_iff in Hsd. rewrite Htm, Hsd in H. discriminate.
  - intros H [q m] Hinp. cbn. apply forallb_forall. intros t Hin.
    destruct (term_matches q t p) eqn:Htm; [| reflexivity]. destruct (same_domain cl (pt_key t) n m) eqn:Hsd; [| reflexivity].
    exfalso. apply (H q m Hinp t Hin); [apply term_matches_iff; exact Htm | apply same_domain_iff; exact Hsd].
Qed.

(** * The checker is sound and complete *)

Theorem hard_ok_iff : forall cl placed pn, hard_ok cl placed pn = true <-> HardOK cl placed pn.
Proof.
  intros cl placed [p nn]. unfold hard_ok, HardOK. cbn [fst snd].
  destruct (find_node cl nn) as [n|] eqn:Hf.
  - unfold node_level_ok, interpod_ok. rewrite !andb_true_iff.
    rewrite in_pool_iff, node_conds_iff, nodesel_iff, nodeaff_iff, taints_iff, affinity_iff, anti_iff, existing_anti_iff.
    split.
    + intros [[[[[H1 H2] H3] H4] H5] [[H6 H7] H8]]. exists n. split; [reflexivity |]. repeat (split; [assumption |]). assumption.
    + intros [n' [Heq [H1 [H2 [H3 [H4 [H5 [H6 [H7 H8]]]]]]]]]. inversion Heq. subst n'.
      split; [repeat (split; [| assumption]); assumption | split; [split; assumption | assumption]].
  - split; [discriminate | intros [n' [Heq _]]; discriminate].
Qed.

(** * The predicates plugin: what passes FittingNode satisfies the checker *)

(** a Skip answer of InterPodAffinity.PreFilter is justified: the three
    inter-pod checks hold on every node *)
Lemma skip_sound : forall cl placed p n, prefilter_skip cl placed p = true -> interpod_ok cl placed p n = true.
Proof.
  intros cl placed p n Hs. unfold prefilter_skip in Hs. unfold interpod_ok, affinity_ok, anti_ok.
  destruct (pd_aff p) as [|a r]; [| discriminate]. destruct (pd_anti p) as [|b r']; [| discriminate].
  cbn [forallb andb]. unfold existing_anti_ok. apply forallb_forall. intros [q m] Hin. cbn [fst snd].
  apply forallb_forall. intros t Ht.
  apply negb_existsb_forall with (x := (q, m)) in Hs; [| exact Hin]. cbn [fst snd] in Hs.
  destruct (term_matches q t p) eqn:Htm; [| reflexivity]. cbn [andb].
  destruct (same_domain cl (pt_key t) n m) eqn:Hsd; [| reflexivity]. exfalso.
  assert (Hex : existsb (fun t0 => term_matches q t0 p && match domain_of cl (pt_key t0) m with Some _ => true | None => false end) (pd_anti q) = true).
  { apply existsb_exists. exists t. split; [exact Ht |]. rewrite Htm. cbn [andb].
    unfold same_domain in Hsd. destruct (lget (pt_key t) (nd_labels n)); [| discriminate].
    destruct (domain_of cl (pt_key t) m); [reflexivity | discriminate]. }
  rewrite Hex in Hs. discriminate.
Qed.

Lemma mem_pos_filter_self : forall x l, mem_pos x (filter (fun y => negb (Pos.eqb y x)) l) = false.
Proof.
  intros x l. destruct (mem_pos x (filter (fun y => negb (Pos.eqb y x)) l)) eqn:H; [| reflexivity].
  apply mem_pos_In in H. apply filter_In in H. destruct H as [_ H]. rewrite Pos.eqb_refl in H. discriminate.
Qed.

Lemma fitting_sound : forall cl placed skip p nn,
  fitting_node cl placed (pre_predicate cl placed skip p) p nn = true -> hard_ok cl placed (p, nn) = true.
Proof.
  intros cl placed skip p nn H. unfold fitting_node in H. unfold hard_ok. cbn [fst snd].
  destruct (find_node cl nn) as [n|]; [| discriminate].
  apply andb_true_iff in H. destruct H as [Hn Hi]. rewrite Hn. cbn [andb].
  unfold pre_predicate in Hi. destruct (prefilter_skip cl placed p) eqn:Hs.
  - apply skip_sound. exact Hs.
  - rewrite mem_pos_filter_self in Hi. exact Hi.
Qed.

(** * The loop *)

(** [chain a recs b]: [recs] are consecutive placements leading from the pods
    [a] to the pods [b]; each one's [r_before] is [a] plus the earlier ones *)
Fixpoint chain (a : placed_t) (recs : list prec) (b : placed_t) : Prop :=
  match recs with
  | [] => b = a
  | rc :: r => r_before rc = a /\ chain ((r_pod rc, r_node rc) :: a) r b
  end.

Lemma chain_app : forall l1 l2 a b c, chain a l1 b -> chain b l2 c -> chain a (l1 ++ l2) c.
Proof.
  induction l1 as [|rc r IH]; intros l2 a b c H1 H2; cbn in *.
  - subst b. exact H2.
  - destruct H1 as [Hb H1]. split; [exact Hb | eapply IH; eassumption].
Qed.

Definition rec_ok (cl : cluster) (rc : prec) : Prop := HardOK cl (r_before rc) (r_pod rc, r_node rc).

Section LoopProofs.
  Variable cl : cluster.
  Variable order : lstate -> ppod -> list string.
  Variable fits : lstate -> ppod -> string -> bool.
  Variable keep : lstate -> list prec -> bool.

  Lemma try_task_some : forall s p s1 rc,
    try_task cl order fits s p = (s1, Some rc) ->
    rec_ok cl rc /\ r_before rc = s_placed s /\ s_placed s1 = (r_pod rc, r_node rc) :: s_placed s.
  Proof.
    intros s p s1 rc H. unfold try_task in H.
    destruct (find (fun nn => fitting_node cl (s_placed s) (pre_predicate cl (s_placed s) (s_skip s) p) p nn && fits s p nn) (order s p)) as [nn|] eqn:Hf;
      [| inversion H].
    inversion H. subst s1 rc. cbn. apply find_some in Hf. destruct Hf as [_ Hf].
    apply andb_true_iff in Hf. destruct Hf as [Hfit _].
    split; [| split; reflexivity]. unfold rec_ok. cbn. apply hard_ok_iff. eapply fitting_sound. exact Hfit.
  Qed.

  Lemma try_task_none : forall s p s1, try_task cl order fits s p = (s1, None) -> s_placed s1 = s_placed s.
  Proof.
    intros s p s1 H. unfold try_task in H.
    destruct (find (fun nn => fitting_node cl (s_placed s) (pre_predicate cl (s_placed s) (s_skip s) p) p nn && fits s p nn) (order s p));
      inversion H. reflexivity.
  Qed.

  Lemma try_tasks_inv : forall ts s0 s acc s' out,
    try_tasks cl order fits keep s0 s ts acc = (s', out) ->
    chain (s_placed s0) (rev acc) (s_placed s) -> Forall (rec_ok cl) acc ->
    chain (s_placed s0) (rev out) (s_placed s') /\ Forall (rec_ok cl) out.
  Proof.
    induction ts as [|p r IH]; intros s0 s acc s' out H Hc Hok; cbn in H.
    - inversion H. subst. split; assumption.
    - destruct (try_task cl order fits s p) as [s1 [rc|]] eqn:Ht.
      + destruct (try_task_some _ _ _ _ Ht) as [Hrc [Hb Hp]].
        eapply IH; [exact H | | constructor; assumption].
        cbn [rev]. eapply chain_app; [exact Hc |]. cbn. split; [exact Hb | exact Hp].
      + apply try_task_none in Ht. destruct (keep s acc).
        * inversion H. subst. rewrite Ht. split; assumption.
        * inversion H. subst. cbn. split; [reflexivity | constructor].
  Qed.

  Lemma run_jobs_inv : forall jobs s s' recs,
    run_jobs cl order fits keep s jobs = (s', recs) ->
    chain (s_placed s) recs (s_placed s') /\ Forall (rec_ok cl) recs.
  Proof.
    induction jobs as [|ts r IH]; intros s s' recs H; cbn in H.
    - inversion H. subst. split; [reflexivity | constructor].
    - destruct (try_tasks cl order fits keep s s ts []) as [s1 rs] eqn:Ht.
      destruct (run_jobs cl order fits keep s1 r) as [s2 more] eqn:Hr.
      inversion H. subst s' recs.
      destruct (try_tasks_inv _ _ _ _ _ _ Ht) as [Hc1 Hok1]; [reflexivity | constructor |].
      destruct (IH _ _ _ Hr) as [Hc2 Hok2].
      split; [eapply chain_app; eassumption |].
      apply Forall_app. split; [| exact Hok2]. apply Forall_rev. exact Hok1.
  Qed.
End LoopProofs.

Theorem every_placement_hard_ok : forall cl order fits keep s jobs s' recs,
  run_jobs cl order fits keep s jobs = (s', recs) ->
  chain (s_placed s) recs (s_placed s') /\ Forall (fun rc => HardOK cl (r_before rc) (r_pod rc, r_node rc)) recs.
Proof. intros. eapply run_jobs_inv. eassumption. Qed.

(** earlier placements are among the pods a later one was checked against *)
Lemma chain_grows : forall l a b x, chain a l b -> In x a -> forall rc, In rc l -> In x (r_before rc).
Proof.
  induction l as [|y r IH]; intros a b x H Hin rc Hrc; cbn in *.
  - contradiction.
  - destruct H as [Hb H]. destruct Hrc as [Heq | Hrc].
    + subst y. rewrite Hb. exact Hin.
    + eapply IH; [exact H | right; exact Hin | exact Hrc].
Qed.

Lemma chain_before : forall l1 rc1 l2 rc2 l3 a b,
  chain a (l1 ++ rc1 :: l2 ++ rc2 :: l3) b -> In (r_pod rc1, r_node rc1) (r_before rc2).
Proof.
  induction l1 as [|x r IH]; intros rc1 l2 rc2 l3 a b H; cbn in H.
  - destruct H as [_ H]. eapply chain_grows; [exact H | left; reflexivity |].
    apply in_or_app. right. left. reflexivity.
  - destruct H as [_ H]. eapply IH. exact H.
Qed.

(** neither of two committed placements violates the other's required anti-affinity *)
Theorem symmetric_anti_affinity : forall cl order fits keep s jobs s' l1 rc1 l2 rc2 l3,
  run_jobs cl order fits keep s jobs = (s', l1 ++ rc1 :: l2 ++ rc2 :: l3) ->
  exists n2, find_node cl (r_node rc2) = Some n2
    /\ (forall t, In t (pd_anti (r_pod rc1)) -> TermMatches (r_pod rc1) t (r_pod rc2) ->
          ~ SameDomain cl (pt_key t) n2 (r_node rc1))
    /\ (forall t, In t (pd_anti (r_pod rc2)) -> TermMatches (r_pod rc2) t (r_pod rc1) ->
          ~ SameDomain cl (pt_key t) n2 (r_node rc1)).
Proof.
  intros cl order fits keep s jobs s' l1 rc1 l2 rc2 l3 H.
  destruct (every_placement_hard_ok _ _ _ _ _ _ _ _ H) as [Hc Hall].
  pose proof (chain_before _ _ _ _ _ _ _ Hc) as Hin.
  rewrite Forall_forall in Hall.
  assert (Hrc2 : In rc2 (l1 ++ rc1 :: l2 ++ rc2 :: l3)).
  { apply in_or_app. right. right. apply in_or_app. right. left. reflexivity. }
  specialize (Hall rc2 Hrc2). destruct Hall as [n2 [Hf [_ [_ [_ [_ [_ [_ [Hanti Hex]]]]]]]]]. cbn [fst snd] in *.
  exists n2. split; [exact Hf | split].
  - intros t Ht Htm. eapply Hex; eassumption.
  - intros t Ht Htm. eapply Hanti; eassumption.
Qed.

(** * Non-vacuity: a concrete cluster on which the loop places, refuses, and
    the constraints discriminate *)
Definition ex_n1 := mkPNode "n1" [("host", "n1"); ("zone", "a")] [] false [(CReady, CTrue)].
Definition ex_n2 := mkPNode "n2" [("host", "n2"); ("zone", "a")] [mkTaint "gpu" "only" NoSchedule] false [].
Definition ex_n3 := mkPNode "n3" [("host", "n3"); ("zone", "b")] [] false [(CReady, CFalse)].
Definition ex_cl := mkCluster "" "" [ex_n1; ex_n2; ex_n3].
Definition ex_web := mkPPod 1 "ns" [("app", "web")] [] None [] [] [mkPTerm (Some [mkReq "app" SIn ["web"]]) "host" []].
Definition ex_web2 := mkPPod 2 "ns" [("app", "web")] [("zone", "a")] None [mkTol "gpu" TolExists "" None] []
                              [mkPTerm (Some [mkReq "app" SIn ["web"]]) "host" []].
Definition ex_db := mkPPod 3 "ns" [("app", "db")] [] (Some [mkNTerm [mkReq "zone" SNotIn ["b"]] []]) []
                            [mkPTerm (Some [mkReq "app" SIn ["web"]]) "zone" []] [].
Definition ex_order (_ : lstate) (_ : ppod) : list string := ["n3"; "n1"; "n2"].
Definition ex_run := run_jobs ex_cl ex_order (fun _ _ _ => true) (fun _ _ => false) (mkLS [] []) [[ex_web]; [ex_web2; ex_db]].

Lemma ex_run_places :
  map (fun rc => (pd_id (r_pod rc), r_node rc)) (snd ex_run) = [(1%positive, "n1"); (2%positive, "n2"); (3%positive, "n1")]
  /\ hard_ok ex_cl [] (ex_web, "n3") = false                          (* not ready *)
  /\ hard_ok ex_cl [] (ex_web, "n2") = false                          (* untolerated taint *)
  /\ hard_ok ex_cl [(ex_web, "n1")] (ex_web2, "n1") = false           (* anti-affinity with the pod placed before *)
  /\ hard_ok ex_cl [] (ex_db, "n1") = false                           (* affinity to app=web not yet satisfiable *)
  /\ hard_ok ex_cl [(ex_web, "n1")] (ex_db, "n2") = false.            (* same zone, but the taint *)
Proof. vm_compute. repeat split; reflexivity. Qed.
