(** Proofs for C18: the queue of a workload's PodGroup and the reconcile order of its pods (Model/GrouperOrder.v). *)
From Coq Require Import List String ZArith Bool.
From KaiV Require Import Model.Grouper Model.GrouperOrder Proofs.Grouper.
Import ListNotations.
Set Default Timeout 60.
Open Scope string_scope.

(** * [reconcile_qr calc_queue] is the code *)
Lemma with_queue_same : forall m, with_queue m (m_queue m) = m.
Proof. now intros []. Qed.

Lemma add_node_pool_label_queue : forall cfg m p, m_queue (add_node_pool_label cfg m p) = m_queue m.
Proof. intros cfg m p. unfold add_node_pool_label. now destruct (String.eqb (c_nodepool_key cfg) ""). Qed.

(** every modelled plugin takes the queue from CalcPodGroupQueue on the grouping object *)
Lemma leaf_md_queue : forall cfg pl g p owners m,
    leaf_md_with annot_fix cfg pl g p owners = MdOk m -> m_queue m = calc_queue cfg g p.
Proof.
  intros cfg pl g p owners m H. destruct pl; cbn in H; try discriminate.
  - now inversion H.
  - now inversion H.
  - now inversion H.
  - destruct (is_spark_pod p); [discriminate|]. now inversion H.
Qed.

Lemma full_md_queue : forall cfg cl p a m,
    full_md cfg cl p a = Some m ->
    exists pl g owners u, grouping cfg cl p a = GOk pl g owners u /\ m_queue m = calc_queue cfg g p.
Proof.
  intros cfg cl p a m H. unfold full_md, full_md_with in H.
  destruct (is_orphan p a); [discriminate|].
  unfold reconcile_md_with in H.
  destruct (grouping cfg cl p a) as [pl g owners u| | |] eqn:G; try discriminate.
  destruct (leaf_md_with annot_fix cfg pl g p owners) as [m0| | | |] eqn:L; try discriminate.
  inversion H; subst m. exists pl, g, owners, u. split; [reflexivity|].
  rewrite add_node_pool_label_queue. now apply leaf_md_queue in L.
Qed.

Lemma full_md_qr_code : forall cfg cl p a, full_md_qr calc_queue cfg cl p a = full_md cfg cl p a.
Proof.
  intros cfg cl p a. unfold full_md_qr.
  destruct (full_md cfg cl p a) as [m|] eqn:F; [|reflexivity].
  destruct (full_md_queue _ _ _ _ _ F) as (pl & g & owners & u & G & Q).
  rewrite G, <- Q. now rewrite with_queue_same.
Qed.

Lemma queue_rule_is_the_code : forall cfg cl p s, reconcile_qr calc_queue cfg cl p s = reconcile cfg cl p s.
Proof.
  intros cfg cl p s. unfold reconcile_qr, reconcile, reconcile_with. rewrite full_md_qr_code.
  reflexivity.
Qed.

Lemma run_qr_is_run : forall cfg cl order s,
    run_qr calc_queue cfg cl order s = run cfg cl (map EvReconcile order) s.
Proof.
  intros cfg cl order. unfold run_qr, run, run_with.
  induction order as [|p r IH]; intros s; [reflexivity|].
  cbn [map fold_left step_with]. rewrite queue_rule_is_the_code. apply IH.
Qed.

(** * The queue of a PodGroup is the queue computed by the reconcile that created it *)
Definition all_queues (q : string) (s : state) : Prop := forall n g, get_pg n s = Some g -> sp_queue g = q.

Lemma apply_slot_queue : forall cfg m cur q,
    m_queue m = q -> (forall old, cur = Some old -> sp_queue old = q) ->
    sp_queue (fst (apply_slot_with ignore_sg pg_equal cfg m cur)) = q.
Proof.
  intros cfg m cur q Hm Hold. unfold apply_slot_with. destruct cur as [old|]; [|exact Hm].
  specialize (Hold old eq_refl).
  destruct (pg_equal old (ignore_fields ignore_sg cfg old (create_pg m))); [exact Hold|exact Hold].
Qed.

Lemma reconcile_qr_queues : forall qr cfg cl p q s,
    (forall a m, full_md_qr qr cfg cl p a = Some m -> m_queue m = q) ->
    all_queues q s -> all_queues q (fst (reconcile_qr qr cfg cl p s)).
Proof.
  intros qr cfg cl p q s Hm Inv. unfold reconcile_qr.
  destruct (full_md_qr qr cfg cl p (get_asg (p_name p) s)) as [m|] eqn:F; [|exact Inv].
  specialize (Hm _ _ F). intros n g. cbn [fst st_pgs]. unfold apply_to_cluster, apply_to_cluster_with, get_pg.
  cbn [fst st_pgs]. rewrite lookup_aset. destruct (String.eqb n (m_name m)).
  - intros E. inversion E; subst g. apply apply_slot_queue; [exact Hm|].
    intros old Eo. exact (Inv _ _ Eo).
  - intros E. exact (Inv _ _ E).
Qed.

Lemma run_qr_queues : forall qr cfg cl q order s,
    (forall p a m, In p order -> full_md_qr qr cfg cl p a = Some m -> m_queue m = q) ->
    all_queues q s -> all_queues q (run_qr qr cfg cl order s).
Proof.
  intros qr cfg cl q order. unfold run_qr. induction order as [|p r IH]; intros s Hm Inv; [exact Inv|].
  cbn [fold_left]. apply IH.
  - intros p' a m Hin. apply Hm. now right.
  - apply reconcile_qr_queues; [|exact Inv]. intros a m. apply Hm. now left.
Qed.

Lemma empty_queues : forall q, all_queues q empty_state.
Proof. intros q n g H. discriminate. Qed.

(** with the owner's label first, every pod grouped under [top] computes the owner's queue *)
Lemma owner_label_md : forall cfg cl top q p a m,
    lookup (c_queue_key cfg) (o_labels top) = Some q ->
    grouped_under cfg cl top p ->
    full_md_qr calc_queue cfg cl p a = Some m -> m_queue m = q.
Proof.
  intros cfg cl top q p a m Hq Hg F. rewrite full_md_qr_code in F.
  destruct (full_md_queue _ _ _ _ _ F) as (pl & g & owners & u & G & Q).
  specialize (Hg a). rewrite G in Hg. subst g. rewrite Q. unfold calc_queue. now rewrite Hq.
Qed.

Theorem owner_queue_decides : owner_queue_statement calc_queue.
Proof.
  intros cfg cl top q order1 order2 Hq Hg.
  assert (H1 : all_queues q (run_qr calc_queue cfg cl order1 empty_state)).
  { apply run_qr_queues; [|apply empty_queues]. intros p a m Hin. apply (owner_label_md cfg cl top); auto. }
  assert (H2 : all_queues q (run_qr calc_queue cfg cl order2 empty_state)).
  { apply run_qr_queues; [|apply empty_queues]. intros p a m Hin. apply (owner_label_md cfg cl top); auto. }
  split; [exact H1|]. intros n g1 g2 E1 E2. now rewrite (H1 _ _ E1), (H2 _ _ E2).
Qed.

(** the same about [run], the model that the differential check replays *)
Theorem owner_queue_order_independent : forall cfg cl top q order1 order2 n g1 g2,
    lookup (c_queue_key cfg) (o_labels top) = Some q ->
    (forall p, In p order1 \/ In p order2 -> grouped_under cfg cl top p) ->
    get_pg n (run cfg cl (map EvReconcile order1) empty_state) = Some g1 ->
    get_pg n (run cfg cl (map EvReconcile order2) empty_state) = Some g2 ->
    sp_queue g1 = q /\ sp_queue g2 = q.
Proof.
  intros cfg cl top q order1 order2 n g1 g2 Hq Hg E1 E2.
  rewrite <- run_qr_is_run in E1, E2.
  split.
  - exact (proj1 (owner_queue_decides cfg cl top q order1 order2 Hq Hg) _ _ E1).
  - refine (proj1 (owner_queue_decides cfg cl top q order2 order1 Hq _) _ _ E2). intros p [H|H]; apply Hg; auto.
Qed.

(** * The README world *)
Lemma rd_grouped : forall top p, In p [rd_master; rd_worker0; rd_worker1; rd_master_a] ->
                                 top = rd_top \/ top = rd_top_silent -> grouped_under rd_cfg [top] top p.
Proof.
  intros top p Hp Ht a.
  destruct Ht as [-> | ->]; cbn in Hp;
    destruct Hp as [<-|[<-|[<-|[<-|[]]]]]; reflexivity.
Qed.

(** the code as it is: team-a in all six orders; the pod's label first: team-a in the two orders that start
    with the master, team-b in the four that start with a worker *)
Theorem pod_label_first_depends_on_order :
  map (rd_queue calc_queue rd_top) rd_orders = map (fun _ => Some "team-a") rd_orders
  /\ map (rd_queue calc_queue_pod_first rd_top) rd_orders
     = [Some "team-a"; Some "team-a"; Some "team-b"; Some "team-b"; Some "team-b"; Some "team-b"].
Proof. split; vm_compute; reflexivity. Qed.

Theorem pod_label_first_refuted : ~ owner_queue_statement calc_queue_pod_first.
Proof.
  intros H.
  destruct (H rd_cfg [rd_top] rd_top "team-a" [rd_master; rd_worker0; rd_worker1] [rd_worker0; rd_master; rd_worker1]
              eq_refl) as [_ H2].
  - intros p Hp. apply rd_grouped; [|now left].
    cbn in Hp. cbn. tauto.
  - specialize (H2 rd_pg).
    remember (get_pg rd_pg (run_qr calc_queue_pod_first rd_cfg [rd_top] [rd_master; rd_worker0; rd_worker1] empty_state)) as x1 eqn:E1.
    remember (get_pg rd_pg (run_qr calc_queue_pod_first rd_cfg [rd_top] [rd_worker0; rd_master; rd_worker1] empty_state)) as x2 eqn:E2.
    vm_compute in E1, E2. subst x1 x2.
    specialize (H2 _ _ eq_refl eq_refl). vm_compute in H2. discriminate.
Qed.

(** the code as it is, the owner WITHOUT queue label and pods that disagree among themselves (master team-a,
    workers team-b): the pod reconciled first decides - the hypothesis "the top owner carries the label" is
    needed (candidate finding C18-sibling-labels-first-pod-wins, monitor flag 2) *)
Theorem first_pod_decides_without_owner_label :
  rd_queue calc_queue rd_top_silent [rd_master_a; rd_worker0; rd_worker1] = Some "team-a"
  /\ rd_queue calc_queue rd_top_silent [rd_worker0; rd_master_a; rd_worker1] = Some "team-b"
  /\ rd_queue calc_queue rd_top_silent [rd_worker1; rd_worker0; rd_master_a] = Some "team-b".
Proof. repeat split; vm_compute; reflexivity. Qed.
