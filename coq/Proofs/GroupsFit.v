(** C02 over the node model: the memory of the sharers that occupy a GPU group
    (everything but nominated sharers) never exceeds the device, along any
    history whose placements passed the per-group guard. *)
From Coq Require Import List ZArith PArith Bool Lia Permutation.
From KaiV Require Import Model.Res Model.Status Model.AMap Model.Node Model.NodeSpec Proofs.Node.
Import ListNotations.
Set Default Timeout 60.
Open Scope Z_scope.

Fixpoint nodupb (l : list positive) : bool :=
  match l with
  | [] => true
  | x :: r => negb (existsb (Pos.eqb x) r) && nodupb r
  end.

Definition GroupsFit (n : node) : Prop := forall g, zget g (g_alloc n) <= n_gpumem n.

(** guard of a placement w.r.t. shared devices: a nominated or non-shared task
    needs nothing; an occupying sharer needs distinct groups, each with room
    (EnoughIdleResourcesOnGpu for a group in use; a fresh group has nothing
    allocated, so the request must fit an empty device) *)
Definition group_guard (n : node) (t : task) : bool :=
  negb (is_shared t) || status_eqb (t_status t) Pipelined
  || (nodupb (t_groups t)
      && forallb (fun g => zget g (g_alloc n) + t_gmem t <=? n_gpumem n) (t_groups t)).

Lemma nodup_occ g gs : nodupb gs = true -> occ g gs = 0 \/ occ g gs = 1.
Proof.
  induction gs as [|x gs IH]; cbn [nodupb]; intros H; [left; reflexivity|].
  apply andb_true_iff in H as [Hx Hr]. rewrite occ_cons.
  destruct (Pos.eqb_spec g x) as [->|Ne].
  - right. assert (occ x gs = 0).
    { clear IH Hr. unfold occ. apply negb_true_iff in Hx.
      induction gs as [|y gs IHg]; [reflexivity|]. cbn [existsb] in Hx.
      apply orb_false_iff in Hx as [Hy Hr]. cbn [filter]. rewrite Hy. apply IHg. exact Hr. }
    lia.
  - destruct (IH Hr); [left|right]; lia.
Qed.

Lemma occ_pos_in g gs : 0 < occ g gs -> In g gs.
Proof.
  induction gs as [|x gs IH]; [unfold occ; cbn; lia|].
  rewrite occ_cons. destruct (Pos.eqb_spec g x) as [->|Ne]; [now left|]. intros H. right. apply IH. lia.
Qed.

Lemma gpumem_add n t n' : add_task n t = Ok n' -> n_gpumem n' = n_gpumem n.
Proof.
  intros H. destruct (add_task_inv _ _ _ H) as [_ ->].
  destruct (add_resources_spec (set_pods n (aset (t_id t) t (n_pods n))) t) as [F _].
  destruct F as (_&_&_&_&Fm&_). rewrite Fm. reflexivity.
Qed.

Lemma gpumem_remove n id n' : remove_task n id = Ok n' -> n_gpumem n' = n_gpumem n.
Proof.
  intros H. destruct (remove_task_inv _ _ _ H) as (t0 & _ & ->).
  destruct (remove_resources_spec (set_pods n (adel id (n_pods n))) t0) as [F _].
  destruct F as (_&_&_&_&Fm&_). rewrite Fm. reflexivity.
Qed.

Lemma fit_add n t n' :
  GroupsFit n -> 0 <= t_gmem t -> group_guard n t = true -> add_task n t = Ok n' -> GroupsFit n'.
Proof.
  intros G M Gd H g. rewrite (gpumem_add _ _ _ H).
  destruct (add_task_inv _ _ _ H) as [_ ->].
  destruct (add_resources_spec (set_pods n (aset (t_id t) t (n_pods n))) t) as [_ S].
  destruct (S g) as (_ & Sa & _). rewrite Sa. cbn [g_alloc set_pods].
  rewrite occurrences_occ. specialize (G g).
  unfold group_guard in Gd. unfold gd_alloc.
  destruct (is_shared t) eqn:Sh; cbn [negb orb] in Gd.
  - destruct (status_eqb (t_status t) Pipelined) eqn:P; cbn [orb] in Gd.
    + assert (E : t_status t = Pipelined) by (destruct (t_status t); cbn in P; try discriminate; reflexivity).
      rewrite E. lia.
    + apply andb_true_iff in Gd as [Nd Fa].
      destruct (nodup_occ g _ Nd) as [O|O]; rewrite O.
      * destruct (t_status t); lia.
      * assert (In g (t_groups t)) by (apply occ_pos_in; lia).
        rewrite forallb_forall in Fa. specialize (Fa g H0). apply Z.leb_le in Fa.
        destruct (t_status t); lia.
  - destruct (t_status t); lia.
Qed.

Lemma fit_remove n id n' :
  GroupsFit n -> (forall t0, alookup id (n_pods n) = Some t0 -> 0 <= t_gmem t0) ->
  remove_task n id = Ok n' -> GroupsFit n'.
Proof.
  intros G M H g. rewrite (gpumem_remove _ _ _ H).
  destruct (remove_task_inv _ _ _ H) as (t0 & A & ->).
  destruct (remove_resources_spec (set_pods n (adel id (n_pods n))) t0) as [_ S].
  destruct (S g) as (_ & Sa & _). rewrite Sa. cbn [g_alloc set_pods].
  specialize (G g). specialize (M t0 A).
  assert (0 <= occurrences g t0) by (unfold occurrences; destruct (is_shared t0); lia).
  unfold gd_alloc. destruct (t_status t0); nia.
Qed.

(** with the books invariant, [g_alloc] IS the recomputed memory of the occupying sharers *)
Theorem occupying_sharers_fit n :
  Books n -> GroupsFit n -> forall g, spec_galloc g (tasks_of n) <= n_gpumem n.
Proof.
  intros [(_ & _ & _ & Hg) _] G g. destruct (Hg g) as (_ & Ha & _). rewrite <- Ha. apply G.
Qed.
