(** C14 — proofs about the node accounting model (Model/Node.v) against the
    from-scratch ground truth (Model/NodeSpec.v).

    Contents
      1. association-list lemmas (alookup / aset / adel / zadd / zget)
      2. resource-vector algebra and permutation invariance of the spec sums
      3. operation sequences ([nop], [apply_op], [run]) and the invariant [Books]
      4. characterisation of add_resources / remove_resources (incl. the folds
         of add_shared_group / remove_shared_group over the task's groups)
      5. [Books] is preserved by every operation sequence; initial nodes
      6. whole-GPU columns exact when no shared task is involved
      7. remove after add restores the node (non-shared: the whole node;
         shared: every column but whole-GPU idle/releasing, group maps
         extensionally); refutation witnesses for the stronger shared claim
      8. non-vacuity examples
      9. the invariant implies the executable monitor [books_ok false]
     10. shared task on one device, not nominated: a local consistency
         condition under which remove-after-add restores the whole-GPU
         counts and the releasing marks as well *)
Set Default Timeout 60.
From Coq Require Import List ZArith PArith Bool Lia ZifyBool Permutation.
From KaiV Require Import Model.Res Model.Status Model.AMap Model.Node Model.NodeSpec.
Import ListNotations.
Open Scope Z_scope.

(** * 1. Association lists *)

Lemma alookup_aset_same {V} k (v : V) m : alookup k (aset k v m) = Some v.
Proof.
  induction m as [|[k' v'] r IH]; cbn [aset alookup].
  - rewrite Pos.eqb_refl. reflexivity.
  - destruct (Pos.compare_spec k k') as [E|L|G]; cbn [alookup].
    + rewrite Pos.eqb_refl. reflexivity.
    + rewrite Pos.eqb_refl. reflexivity.
    + destruct (Pos.eqb_spec k k') as [E|N]; [subst; lia|]. exact IH.
Qed.

Lemma alookup_aset_other {V} j k (v : V) m : j <> k -> alookup j (aset k v m) = alookup j m.
Proof.
  intros N. induction m as [|[k' v'] r IH]; cbn [aset alookup].
  - destruct (Pos.eqb_spec j k); [contradiction|reflexivity].
  - destruct (Pos.compare_spec k k') as [E|L|G]; cbn [alookup].
    + subst k'. destruct (Pos.eqb_spec j k); [contradiction|reflexivity].
    + destruct (Pos.eqb_spec j k); [contradiction|reflexivity].
    + rewrite IH. reflexivity.
Qed.

Lemma zget_zadd g g' d m : zget g (zadd g' d m) = if Pos.eqb g g' then zget g m + d else zget g m.
Proof.
  unfold zadd. destruct (Pos.eqb_spec g g') as [E|N].
  - subst. unfold zget at 1. rewrite alookup_aset_same. reflexivity.
  - unfold zget at 1. rewrite alookup_aset_other by exact N. reflexivity.
Qed.

(** keys strictly increasing (every key is below all later keys) *)
Fixpoint sorted_keys {V} (m : amap V) : Prop :=
  match m with
  | [] => True
  | (k, _) :: r => Forall (fun kv => (k < fst kv)%positive) r /\ sorted_keys r
  end.

Lemma Forall_aset {V} (P : positive * V -> Prop) k v m :
  Forall P m -> P (k, v) -> Forall P (aset k v m).
Proof.
  intros F Pk. induction m as [|[k' v'] r IH]; cbn [aset].
  - constructor; [exact Pk|constructor].
  - inversion F as [|x l Px Fr]; subst.
    destruct (Pos.compare k k'); constructor; auto.
Qed.

Lemma Forall_adel {V} (P : positive * V -> Prop) k m : Forall P m -> Forall P (adel k m).
Proof.
  intros F. induction m as [|[k' v'] r IH]; cbn [adel]; [constructor|].
  inversion F as [|x l Px Fr]; subst.
  destruct (Pos.eqb k k'); [exact Fr|constructor; auto].
Qed.

Lemma sorted_aset {V} k (v : V) m : sorted_keys m -> sorted_keys (aset k v m).
Proof.
  induction m as [|[k' v'] r IH]; cbn [aset sorted_keys].
  - intros _. split; [constructor|exact I].
  - intros [F S]. destruct (Pos.compare_spec k k') as [E|L|G]; cbn [sorted_keys].
    + subst k'. split; assumption.
    + split; [|split; assumption].
      constructor; [exact L|].
      eapply Forall_impl; [|exact F]. cbn. intros a Ha. lia.
    + split; [|apply IH; exact S].
      apply Forall_aset; [exact F|exact G].
Qed.

Lemma sorted_adel {V} k (m : amap V) : sorted_keys m -> sorted_keys (adel k m).
Proof.
  induction m as [|[k' v'] r IH]; cbn [adel sorted_keys]; [auto|].
  intros [F S]. destruct (Pos.eqb k k'); [exact S|].
  cbn [sorted_keys]. split; [apply Forall_adel; exact F|apply IH; exact S].
Qed.

Lemma alookup_lb_none {V} k (m : amap V) :
  Forall (fun kv => (k < fst kv)%positive) m -> alookup k m = None.
Proof.
  induction m as [|[k' v'] r IH]; cbn [alookup]; [reflexivity|].
  intros F. inversion F as [|x l Px Fr]; subst. cbn in Px.
  destruct (Pos.eqb_spec k k'); [subst; lia|]. apply IH. exact Fr.
Qed.

Lemma alookup_adel_same {V} k (m : amap V) : sorted_keys m -> alookup k (adel k m) = None.
Proof.
  induction m as [|[k' v'] r IH]; cbn [adel sorted_keys alookup]; [reflexivity|].
  intros [F S]. destruct (Pos.eqb_spec k k') as [E|N].
  - subst. apply alookup_lb_none. exact F.
  - cbn [alookup]. destruct (Pos.eqb_spec k k'); [contradiction|]. apply IH. exact S.
Qed.

Lemma alookup_adel_other {V} j k (m : amap V) : j <> k -> alookup j (adel k m) = alookup j m.
Proof.
  intros N. induction m as [|[k' v'] r IH]; cbn [adel alookup]; [reflexivity|].
  destruct (Pos.eqb_spec k k') as [E|N'].
  - subst k'. destruct (Pos.eqb_spec j k); [contradiction|reflexivity].
  - cbn [alookup]. rewrite IH. reflexivity.
Qed.

Lemma adel_aset {V} k (v : V) m : alookup k m = None -> adel k (aset k v m) = m.
Proof.
  induction m as [|[k' v'] r IH]; cbn [aset alookup adel].
  - intros _. rewrite Pos.eqb_refl. reflexivity.
  - destruct (Pos.eqb_spec k k') as [E|N]; [discriminate|]. intros A.
    destruct (Pos.compare_spec k k') as [E|L|G]; [contradiction| |]; cbn [adel].
    + rewrite Pos.eqb_refl. reflexivity.
    + destruct (Pos.eqb_spec k k'); [contradiction|]. rewrite IH by exact A. reflexivity.
Qed.

Lemma perm_aset {V} k (v : V) m :
  alookup k m = None -> Permutation (map snd (aset k v m)) (v :: map snd m).
Proof.
  induction m as [|[k' v'] r IH]; cbn [aset alookup map snd].
  - intros _. apply Permutation_refl.
  - destruct (Pos.eqb_spec k k') as [E|N]; [discriminate|]. intros A.
    destruct (Pos.compare_spec k k') as [E|L|G]; [contradiction| |]; cbn [map snd].
    + apply Permutation_refl.
    + eapply Permutation_trans; [apply perm_skip; apply IH; exact A|apply perm_swap].
Qed.

Lemma perm_adel {V} k (t : V) m :
  alookup k m = Some t -> Permutation (map snd m) (t :: map snd (adel k m)).
Proof.
  induction m as [|[k' v'] r IH]; cbn [alookup adel map snd]; [discriminate|].
  destruct (Pos.eqb_spec k k') as [E|N].
  - intros A. injection A as ->. apply Permutation_refl.
  - intros A. cbn [map snd].
    eapply Permutation_trans; [apply perm_skip; apply IH; exact A|apply perm_swap].
Qed.

Lemma alookup_Forall {V} (P : positive * V -> Prop) k t m :
  Forall P m -> alookup k m = Some t -> P (k, t).
Proof.
  induction m as [|[k' v'] r IH]; cbn [alookup]; [discriminate|].
  intros F. inversion F as [|x l Px Fr]; subst.
  destruct (Pos.eqb_spec k k') as [E|N].
  - intros A. injection A as ->. subst. exact Px.
  - apply IH. exact Fr.
Qed.

Lemma perm_filter {A} (p : A -> bool) l l' : Permutation l l' -> Permutation (filter p l) (filter p l').
Proof.
  induction 1 as [|x l l' H IH|x y l|l l' l'' H1 IH1 H2 IH2]; cbn [filter].
  - constructor.
  - destruct (p x); [constructor|]; exact IH.
  - destruct (p x), (p y); try apply Permutation_refl. apply perm_swap.
  - eapply Permutation_trans; eassumption.
Qed.

(** * 2. Resource vectors and the ground-truth sums *)

Lemma res_eq (a b : res) :
  cpu a = cpu b -> mem a = mem b -> gpu a = gpu b -> pods a = pods b -> mig a = mig b -> ext a = ext b -> a = b.
Proof. destruct a, b; cbn; intros; subst; reflexivity. Qed.

Ltac res_lia :=
  apply res_eq; cbn [cpu mem gpu pods mig ext radd rsub rzero with_gpu add_gpu]; lia.

(** equality on every column except whole GPUs *)
Definition eq_nogpu (a b : res) : Prop :=
  cpu a = cpu b /\ mem a = mem b /\ pods a = pods b /\ mig a = mig b /\ ext a = ext b.

Lemma eq_nogpu_refl a : eq_nogpu a a.
Proof. repeat split. Qed.

Lemma eq_nogpu_of_eq a b : a = b -> eq_nogpu a b.
Proof. intros ->. apply eq_nogpu_refl. Qed.

Lemma eq_nogpu_trans a b c : eq_nogpu a b -> eq_nogpu b c -> eq_nogpu a c.
Proof. unfold eq_nogpu. intuition congruence. Qed.

Lemma eq_nogpu_sym a b : eq_nogpu a b -> eq_nogpu b a.
Proof. unfold eq_nogpu. intuition congruence. Qed.

Lemma eq_nogpu_full a b : eq_nogpu a b -> gpu a = gpu b -> a = b.
Proof. unfold eq_nogpu. intros (?&?&?&?&?) ?. apply res_eq; assumption. Qed.

Lemma eq_nogpu_req a b : eq_nogpu a b <-> req_nogpu a b = true.
Proof.
  unfold eq_nogpu, req_nogpu, req. cbn [cpu mem gpu pods mig ext with_gpu]. lia.
Qed.

Lemma rsum_perm l l' : Permutation l l' -> rsum l = rsum l'.
Proof.
  induction 1 as [|x l l' H IH|x y l|l l' l'' H1 IH1 H2 IH2]; cbn [rsum fold_right].
  - reflexivity.
  - fold (rsum l). fold (rsum l'). rewrite IH. reflexivity.
  - fold (rsum l). res_lia.
  - congruence.
Qed.

Lemma zsum_perm l l' : Permutation l l' -> zsum l = zsum l'.
Proof.
  induction 1 as [|x l l' H IH|x y l|l l' l'' H1 IH1 H2 IH2]; cbn [zsum fold_right].
  - reflexivity.
  - fold (zsum l). fold (zsum l'). rewrite IH. reflexivity.
  - fold (zsum l). lia.
  - congruence.
Qed.

Lemma spec_used_perm ts ts' : Permutation ts ts' -> spec_used ts = spec_used ts'.
Proof. intros P. unfold spec_used. apply rsum_perm, Permutation_map, P. Qed.

Lemma spec_idle_perm a ts ts' : Permutation ts ts' -> spec_idle a ts = spec_idle a ts'.
Proof.
  intros P. unfold spec_idle. f_equal. apply rsum_perm, Permutation_map, perm_filter, P.
Qed.

Lemma spec_rel_perm ts ts' : Permutation ts ts' -> spec_rel ts = spec_rel ts'.
Proof.
  intros P. unfold spec_rel. f_equal; apply rsum_perm, Permutation_map, perm_filter, P.
Qed.

Lemma group_mem_perm p g ts ts' : Permutation ts ts' -> group_mem p g ts = group_mem p g ts'.
Proof. intros P. unfold group_mem. apply zsum_perm, Permutation_map, P. Qed.

Lemma spec_gused_perm g ts ts' : Permutation ts ts' -> spec_gused g ts = spec_gused g ts'.
Proof. apply group_mem_perm. Qed.
Lemma spec_galloc_perm g ts ts' : Permutation ts ts' -> spec_galloc g ts = spec_galloc g ts'.
Proof. apply group_mem_perm. Qed.
Lemma spec_grel_perm g ts ts' : Permutation ts ts' -> spec_grel g ts = spec_grel g ts'.
Proof. intros P. unfold spec_grel. rewrite !(group_mem_perm _ g ts ts' P). reflexivity. Qed.

(** what one task contributes to each column *)
Definition d_idle (t : task) (r : res) : res :=
  match t_status t with Pipelined => r | _ => rsub r (charge t) end.
Definition d_rel (t : task) (r : res) : res :=
  match t_status t with Releasing => radd r (charge t) | Pipelined => rsub r (charge t) | _ => r end.
Definition u_idle (t : task) (r : res) : res :=
  match t_status t with Pipelined => r | _ => radd r (charge t) end.
Definition u_rel (t : task) (r : res) : res :=
  match t_status t with Releasing => rsub r (charge t) | Pipelined => radd r (charge t) | _ => r end.
Definition gd_alloc (t : task) (d : Z) : Z :=
  match t_status t with Pipelined => 0 | _ => d end.
Definition gd_rel (t : task) (d : Z) : Z :=
  match t_status t with Releasing => d | Pipelined => - d | _ => 0 end.

Lemma spec_used_cons t ts : spec_used (t :: ts) = radd (spec_used ts) (charge t).
Proof. unfold spec_used, rsum. cbn [map fold_right]. res_lia. Qed.

Lemma spec_idle_cons a t ts : spec_idle a (t :: ts) = d_idle t (spec_idle a ts).
Proof.
  unfold spec_idle, d_idle, is_st, rsum. cbn [filter].
  destruct (t_status t); cbn [status_eqb negb map fold_right]; try reflexivity; res_lia.
Qed.

Lemma spec_rel_cons t ts : spec_rel (t :: ts) = d_rel t (spec_rel ts).
Proof.
  unfold spec_rel, d_rel, is_st, rsum. cbn [filter].
  destruct (t_status t); cbn [status_eqb negb map fold_right]; try reflexivity; res_lia.
Qed.

Lemma spec_gused_cons g t ts :
  spec_gused g (t :: ts) = spec_gused g ts + occurrences g t * t_gmem t.
Proof. unfold spec_gused, group_mem, zsum. cbn [map fold_right]. lia. Qed.

Lemma spec_galloc_cons g t ts :
  spec_galloc g (t :: ts) = spec_galloc g ts + gd_alloc t (occurrences g t * t_gmem t).
Proof.
  unfold spec_galloc, group_mem, gd_alloc, is_st, zsum. cbn [map fold_right].
  destruct (t_status t); cbn [status_eqb negb]; lia.
Qed.

Lemma spec_grel_cons g t ts :
  spec_grel g (t :: ts) = spec_grel g ts + gd_rel t (occurrences g t * t_gmem t).
Proof.
  unfold spec_grel, group_mem, gd_rel, is_st, zsum. cbn [map fold_right].
  destruct (t_status t); cbn [status_eqb negb]; lia.
Qed.

Lemma u_d_idle t r : u_idle t (d_idle t r) = r.
Proof. unfold u_idle, d_idle. destruct (t_status t); try reflexivity; res_lia. Qed.
Lemma u_d_rel t r : u_rel t (d_rel t r) = r.
Proof. unfold u_rel, d_rel. destruct (t_status t); try reflexivity; res_lia. Qed.

Lemma d_idle_nogpu t a b : eq_nogpu a b -> eq_nogpu (d_idle t a) (d_idle t b).
Proof.
  unfold eq_nogpu, d_idle. intros (?&?&?&?&?).
  destruct (t_status t); cbn [cpu mem pods mig ext rsub]; repeat split; congruence.
Qed.
Lemma d_rel_nogpu t a b : eq_nogpu a b -> eq_nogpu (d_rel t a) (d_rel t b).
Proof.
  unfold eq_nogpu, d_rel. intros (?&?&?&?&?).
  destruct (t_status t); cbn [cpu mem pods mig ext rsub radd]; repeat split; congruence.
Qed.
Lemma u_idle_nogpu t a b : eq_nogpu a b -> eq_nogpu (u_idle t a) (u_idle t b).
Proof.
  unfold eq_nogpu, u_idle. intros (?&?&?&?&?).
  destruct (t_status t); cbn [cpu mem pods mig ext rsub radd]; repeat split; congruence.
Qed.
Lemma u_rel_nogpu t a b : eq_nogpu a b -> eq_nogpu (u_rel t a) (u_rel t b).
Proof.
  unfold eq_nogpu, u_rel. intros (?&?&?&?&?).
  destruct (t_status t); cbn [cpu mem pods mig ext rsub radd]; repeat split; congruence.
Qed.
Lemma d_idle_gpu t a b : gpu a = gpu b -> gpu (d_idle t a) = gpu (d_idle t b).
Proof. unfold d_idle. intros E. destruct (t_status t); cbn [gpu rsub]; congruence. Qed.
Lemma d_rel_gpu t a b : gpu a = gpu b -> gpu (d_rel t a) = gpu (d_rel t b).
Proof. unfold d_rel. intros E. destruct (t_status t); cbn [gpu rsub radd]; congruence. Qed.
Lemma u_idle_gpu t a b : gpu a = gpu b -> gpu (u_idle t a) = gpu (u_idle t b).
Proof. unfold u_idle. intros E. destruct (t_status t); cbn [gpu rsub radd]; congruence. Qed.
Lemma u_rel_gpu t a b : gpu a = gpu b -> gpu (u_rel t a) = gpu (u_rel t b).
Proof. unfold u_rel. intros E. destruct (t_status t); cbn [gpu rsub radd]; congruence. Qed.

(** * 3. Operation sequences and the invariant *)

Definition tasks_of (n : node) : list task := map snd (n_pods n).

Inductive nop := OAdd (t : task) | ORemove (id : positive) | OUpdate (t : task).

Definition apply_op (n : node) (o : nop) : result node :=
  match o with
  | OAdd t => add_task n t
  | ORemove id => remove_task n id
  | OUpdate t => update_task n t
  end.

(** the callers log and ignore an error; the node is unchanged *)
Fixpoint run (n : node) (ops : list nop) : node :=
  match ops with
  | [] => n
  | o :: r => match apply_op n o with Ok n' => run n' r | Err => run n r end
  end.

Definition op_tasks (ops : list nop) : list task :=
  flat_map (fun o => match o with OAdd t => [t] | OUpdate t => [t] | ORemove _ => [] end) ops.

(** the pods map is a well-formed finite map keyed by pod id *)
Definition wf_pods (m : amap task) : Prop :=
  sorted_keys m /\ Forall (fun kv => t_id (snd kv) = fst kv) m.

(** counters of [n] agree with the ground truth recomputed from [ts]
    (every column except the whole-GPU idle / releasing counts) *)
Definition agrees (n : node) (ts : list task) : Prop :=
  n_used n = spec_used ts
  /\ eq_nogpu (n_idle n) (spec_idle (n_alloc n) ts)
  /\ eq_nogpu (n_rel n) (spec_rel ts)
  /\ forall g, zget g (g_used n) = spec_gused g ts
            /\ zget g (g_alloc n) = spec_galloc g ts
            /\ zget g (g_rel n) = spec_grel g ts.

Definition Books (n : node) : Prop := agrees n (tasks_of n) /\ wf_pods (n_pods n).

(** whole-GPU idle / releasing columns agree as well *)
Definition agrees_gpu (n : node) (ts : list task) : Prop :=
  gpu (n_idle n) = gpu (spec_idle (n_alloc n) ts) /\ gpu (n_rel n) = gpu (spec_rel ts).

Lemma agrees_perm n ts ts' : Permutation ts ts' -> agrees n ts -> agrees n ts'.
Proof.
  intros P (U & I & R & G). unfold agrees.
  rewrite <- (spec_used_perm _ _ P), <- (spec_idle_perm _ _ _ P), <- (spec_rel_perm _ _ P).
  split; [exact U|]. split; [exact I|]. split; [exact R|]. intros g.
  rewrite <- (spec_gused_perm g _ _ P), <- (spec_galloc_perm g _ _ P), <- (spec_grel_perm g _ _ P).
  apply G.
Qed.

Lemma agrees_gpu_perm n ts ts' : Permutation ts ts' -> agrees_gpu n ts -> agrees_gpu n ts'.
Proof.
  intros P (I & R). unfold agrees_gpu.
  rewrite <- (spec_idle_perm _ _ _ P), <- (spec_rel_perm _ _ P). split; assumption.
Qed.

(** * 4. What add_resources / remove_resources do *)

Definition occ (g : positive) (gs : list positive) : Z := Z.of_nat (length (filter (Pos.eqb g) gs)).

Lemma occ_cons g g' gs : occ g (g' :: gs) = (if Pos.eqb g g' then 1 else 0) + occ g gs.
Proof.
  unfold occ. cbn [filter]. destruct (Pos.eqb g g'); cbn [length]; lia.
Qed.

Ltac split_ifs :=
  repeat match goal with |- context [if ?c then _ else _] => destruct c end.

(** frame: fields a shared-group step never touches *)
Definition same_frame (n' n : node) : Prop :=
  n_alloc n' = n_alloc n /\ n_used n' = n_used n /\ n_pods n' = n_pods n
  /\ n_ngpu n' = n_ngpu n /\ n_gpumem n' = n_gpumem n
  /\ eq_nogpu (n_idle n') (n_idle n) /\ eq_nogpu (n_rel n') (n_rel n).

Lemma same_frame_refl n : same_frame n n.
Proof. unfold same_frame. repeat split. Qed.

Lemma same_frame_trans a b c : same_frame a b -> same_frame b c -> same_frame a c.
Proof.
  unfold same_frame. intros (?&?&?&?&?&?&?) (?&?&?&?&?&?&?).
  repeat split; try congruence; eapply eq_nogpu_trans; eassumption.
Qed.

Lemma asg_frame n t g : same_frame (add_shared_group n t g) n.
Proof.
  unfold add_shared_group, same_frame, eq_nogpu. cbv zeta.
  destruct (t_status t); split_ifs; repeat split.
Qed.

Lemma rsg_frame n t g : same_frame (remove_shared_group n t g) n.
Proof.
  unfold remove_shared_group, same_frame, eq_nogpu. cbv zeta.
  destruct (t_status t); split_ifs; repeat split.
Qed.

Lemma asg_g_used n t g : g_used (add_shared_group n t g) = zadd g (t_gmem t) (g_used n).
Proof. unfold add_shared_group. cbv zeta. destruct (t_status t); split_ifs; reflexivity. Qed.

Lemma asg_g_alloc n t g :
  g_alloc (add_shared_group n t g) =
  match t_status t with Pipelined => g_alloc n | _ => zadd g (t_gmem t) (g_alloc n) end.
Proof. unfold add_shared_group. cbv zeta. destruct (t_status t); split_ifs; reflexivity. Qed.

Lemma asg_g_rel n t g :
  g_rel (add_shared_group n t g) =
  match t_status t with
  | Releasing => zadd g (t_gmem t) (g_rel n)
  | Pipelined => zadd g (- t_gmem t) (g_rel n)
  | _ => g_rel n
  end.
Proof. unfold add_shared_group. cbv zeta. destruct (t_status t); split_ifs; reflexivity. Qed.

Lemma rsg_g_used n t g : g_used (remove_shared_group n t g) = zadd g (- t_gmem t) (g_used n).
Proof. unfold remove_shared_group. cbv zeta. destruct (t_status t); split_ifs; reflexivity. Qed.

Lemma rsg_g_alloc n t g :
  g_alloc (remove_shared_group n t g) =
  match t_status t with Pipelined => g_alloc n | _ => zadd g (- t_gmem t) (g_alloc n) end.
Proof. unfold remove_shared_group. cbv zeta. destruct (t_status t); split_ifs; reflexivity. Qed.

Lemma rsg_g_rel n t g :
  g_rel (remove_shared_group n t g) =
  match t_status t with
  | Releasing => zadd g (- t_gmem t) (g_rel n)
  | Pipelined => zadd g (t_gmem t) (g_rel n)
  | _ => g_rel n
  end.
Proof. unfold remove_shared_group. cbv zeta. destruct (t_status t); split_ifs; reflexivity. Qed.

(** effect of a whole fold on the three per-group maps, read through [zget] *)
Definition groups_shift (n' n : node) (t : task) (sgn : Z) (gs : list positive) : Prop :=
  forall g,
    zget g (g_used n') = zget g (g_used n) + sgn * (occ g gs * t_gmem t)
    /\ zget g (g_alloc n') = zget g (g_alloc n) + sgn * gd_alloc t (occ g gs * t_gmem t)
    /\ zget g (g_rel n') = zget g (g_rel n) + sgn * gd_rel t (occ g gs * t_gmem t).

Lemma fold_add_shared t gs : forall n,
  let n' := fold_left (fun acc g => add_shared_group acc t g) gs n in
  same_frame n' n /\ groups_shift n' n t 1 gs.
Proof.
  induction gs as [|g' gs IH]; intros n; cbn [fold_left].
  - split; [apply same_frame_refl|].
    intros g. unfold occ, gd_alloc, gd_rel. cbn [filter length].
    destruct (t_status t); lia.
  - destruct (IH (add_shared_group n t g')) as [F S]. split.
    + eapply same_frame_trans; [exact F|apply asg_frame].
    + intros g. destruct (S g) as (Su & Sa & Sr).
      rewrite Su, Sa, Sr, asg_g_used, asg_g_alloc, asg_g_rel, occ_cons.
      unfold gd_alloc, gd_rel.
      destruct (t_status t); rewrite ?zget_zadd; destruct (Pos.eqb g g'); lia.
Qed.

Lemma fold_remove_shared t gs : forall n,
  let n' := fold_left (fun acc g => remove_shared_group acc t g) gs n in
  same_frame n' n /\ groups_shift n' n t (-1) gs.
Proof.
  induction gs as [|g' gs IH]; intros n; cbn [fold_left].
  - split; [apply same_frame_refl|].
    intros g. unfold occ, gd_alloc, gd_rel. cbn [filter length].
    destruct (t_status t); lia.
  - destruct (IH (remove_shared_group n t g')) as [F S]. split.
    + eapply same_frame_trans; [exact F|apply rsg_frame].
    + intros g. destruct (S g) as (Su & Sa & Sr).
      rewrite Su, Sa, Sr, rsg_g_used, rsg_g_alloc, rsg_g_rel, occ_cons.
      unfold gd_alloc, gd_rel.
      destruct (t_status t); rewrite ?zget_zadd; destruct (Pos.eqb g g'); lia.
Qed.

(** the part of add_resources / remove_resources before the group fold *)
Definition add_core (n : node) (t : task) : node :=
  set_core n (d_idle t (n_idle n)) (radd (n_used n) (charge t)) (d_rel t (n_rel n)).
Definition remove_core (n : node) (t : task) : node :=
  set_core n (u_idle t (n_idle n)) (rsub (n_used n) (charge t)) (u_rel t (n_rel n)).

Lemma add_resources_eq n t :
  add_resources n t =
  if is_shared t then fold_left (fun acc g => add_shared_group acc t g) (t_groups t) (add_core n t)
  else add_core n t.
Proof.
  unfold add_resources, add_core, d_idle, d_rel. cbv zeta.
  destruct (t_status t); reflexivity.
Qed.

Lemma remove_resources_eq n t :
  remove_resources n t =
  if is_shared t then fold_left (fun acc g => remove_shared_group acc t g) (t_groups t) (remove_core n t)
  else remove_core n t.
Proof.
  unfold remove_resources, remove_core, u_idle, u_rel. cbv zeta.
  destruct (t_status t); reflexivity.
Qed.

Lemma occurrences_occ g t : occurrences g t = if is_shared t then occ g (t_groups t) else 0.
Proof. reflexivity. Qed.

Lemma add_resources_spec n t :
  let n' := add_resources n t in
  same_frame n' (add_core n t)
  /\ forall g,
       zget g (g_used n') = zget g (g_used n) + occurrences g t * t_gmem t
       /\ zget g (g_alloc n') = zget g (g_alloc n) + gd_alloc t (occurrences g t * t_gmem t)
       /\ zget g (g_rel n') = zget g (g_rel n) + gd_rel t (occurrences g t * t_gmem t).
Proof.
  cbv zeta. rewrite add_resources_eq. split.
  - destruct (is_shared t); [apply fold_add_shared|apply same_frame_refl].
  - intros g. rewrite occurrences_occ. destruct (is_shared t).
    + destruct (fold_add_shared t (t_groups t) (add_core n t)) as [_ S].
      destruct (S g) as (Su & Sa & Sr). rewrite Su, Sa, Sr.
      unfold add_core. cbn [g_used g_alloc g_rel set_core]. lia.
    + unfold add_core, gd_alloc, gd_rel. cbn [g_used g_alloc g_rel set_core].
      destruct (t_status t); lia.
Qed.

Lemma remove_resources_spec n t :
  let n' := remove_resources n t in
  same_frame n' (remove_core n t)
  /\ forall g,
       zget g (g_used n') = zget g (g_used n) - occurrences g t * t_gmem t
       /\ zget g (g_alloc n') = zget g (g_alloc n) - gd_alloc t (occurrences g t * t_gmem t)
       /\ zget g (g_rel n') = zget g (g_rel n) - gd_rel t (occurrences g t * t_gmem t).
Proof.
  cbv zeta. rewrite remove_resources_eq. split.
  - destruct (is_shared t); [apply fold_remove_shared|apply same_frame_refl].
  - intros g. rewrite occurrences_occ. destruct (is_shared t).
    + destruct (fold_remove_shared t (t_groups t) (remove_core n t)) as [_ S].
      destruct (S g) as (Su & Sa & Sr). rewrite Su, Sa, Sr.
      unfold remove_core. cbn [g_used g_alloc g_rel set_core]. lia.
    + unfold remove_core, gd_alloc, gd_rel. cbn [g_used g_alloc g_rel set_core].
      destruct (t_status t); lia.
Qed.

(** * 5. The invariant is preserved *)

Lemma agrees_add n ts t : agrees n ts -> agrees (add_resources n t) (t :: ts).
Proof.
  intros (U & I & R & G).
  destruct (add_resources_spec n t) as [(Fa & Fu & _ & _ & _ & Fi & Fr) S].
  unfold add_core in Fa, Fu, Fi, Fr. cbn [n_alloc n_used n_idle n_rel set_core] in Fa, Fu, Fi, Fr.
  unfold agrees. rewrite Fa, Fu, spec_used_cons, spec_idle_cons, spec_rel_cons.
  split; [rewrite U; reflexivity|].
  split; [eapply eq_nogpu_trans; [exact Fi|apply d_idle_nogpu; exact I]|].
  split; [eapply eq_nogpu_trans; [exact Fr|apply d_rel_nogpu; exact R]|].
  intros g. destruct (S g) as (Su & Sa & Sr). destruct (G g) as (Gu & Ga & Gr).
  rewrite Su, Sa, Sr, spec_gused_cons, spec_galloc_cons, spec_grel_cons. lia.
Qed.

Lemma agrees_remove n ts t : agrees n (t :: ts) -> agrees (remove_resources n t) ts.
Proof.
  intros (U & I & R & G).
  destruct (remove_resources_spec n t) as [(Fa & Fu & _ & _ & _ & Fi & Fr) S].
  unfold remove_core in Fa, Fu, Fi, Fr. cbn [n_alloc n_used n_idle n_rel set_core] in Fa, Fu, Fi, Fr.
  rewrite spec_used_cons in U. rewrite spec_idle_cons in I. rewrite spec_rel_cons in R.
  unfold agrees. rewrite Fa, Fu.
  split; [rewrite U; res_lia|].
  split.
  { eapply eq_nogpu_trans; [exact Fi|].
    rewrite <- (u_d_idle t (spec_idle (n_alloc n) ts)). apply u_idle_nogpu. exact I. }
  split.
  { eapply eq_nogpu_trans; [exact Fr|].
    rewrite <- (u_d_rel t (spec_rel ts)). apply u_rel_nogpu. exact R. }
  intros g. destruct (S g) as (Su & Sa & Sr). destruct (G g) as (Gu & Ga & Gr).
  rewrite spec_gused_cons in Gu. rewrite spec_galloc_cons in Ga. rewrite spec_grel_cons in Gr.
  rewrite Su, Sa, Sr. lia.
Qed.

Lemma n_pods_add_resources n t : n_pods (add_resources n t) = n_pods n.
Proof. destruct (add_resources_spec n t) as [(_ & _ & Fp & _) _]. exact Fp. Qed.

Lemma n_pods_remove_resources n t : n_pods (remove_resources n t) = n_pods n.
Proof. destruct (remove_resources_spec n t) as [(_ & _ & Fp & _) _]. exact Fp. Qed.

Lemma add_task_inv n t n' :
  add_task n t = Ok n' ->
  alookup (t_id t) (n_pods n) = None
  /\ n' = add_resources (set_pods n (aset (t_id t) t (n_pods n))) t.
Proof.
  unfold add_task, add_task_gen, amem. rewrite andb_false_r. cbn [negb]. rewrite andb_true_r.
  destruct (alookup (t_id t) (n_pods n)); [discriminate|].
  intros E. injection E as <-. split; reflexivity.
Qed.

Lemma add_task_ok n t :
  alookup (t_id t) (n_pods n) = None ->
  add_task n t = Ok (add_resources (set_pods n (aset (t_id t) t (n_pods n))) t).
Proof.
  intros A. unfold add_task, add_task_gen, amem. rewrite A. reflexivity.
Qed.

Lemma remove_task_inv n id n' :
  remove_task n id = Ok n' ->
  exists t, alookup id (n_pods n) = Some t
            /\ n' = remove_resources (set_pods n (adel id (n_pods n))) t.
Proof.
  unfold remove_task. destruct (alookup id (n_pods n)) as [t|]; [|discriminate].
  intros E. injection E as <-. exists t. split; reflexivity.
Qed.

Lemma tasks_of_add n t n' :
  add_task n t = Ok n' -> Permutation (tasks_of n') (t :: tasks_of n).
Proof.
  intros H. destruct (add_task_inv _ _ _ H) as [A ->].
  unfold tasks_of. rewrite n_pods_add_resources. cbn [n_pods set_pods].
  apply perm_aset. exact A.
Qed.

Lemma tasks_of_remove n id n' :
  remove_task n id = Ok n' ->
  exists t, alookup id (n_pods n) = Some t /\ Permutation (tasks_of n) (t :: tasks_of n').
Proof.
  intros H. destruct (remove_task_inv _ _ _ H) as (t & A & ->).
  exists t. split; [exact A|].
  unfold tasks_of. rewrite n_pods_remove_resources. cbn [n_pods set_pods].
  apply perm_adel. exact A.
Qed.

Lemma Books_add n t n' : Books n -> add_task n t = Ok n' -> Books n'.
Proof.
  intros [Ag [Sk Fk]] H. pose proof (tasks_of_add _ _ _ H) as P.
  destruct (add_task_inv _ _ _ H) as [A ->]. split.
  - eapply agrees_perm; [apply Permutation_sym; exact P|].
    apply agrees_add. exact Ag.
  - rewrite n_pods_add_resources. cbn [n_pods set_pods]. split.
    + apply sorted_aset. exact Sk.
    + apply Forall_aset; [exact Fk|reflexivity].
Qed.

Lemma Books_remove n id n' : Books n -> remove_task n id = Ok n' -> Books n'.
Proof.
  intros [Ag [Sk Fk]] H. destruct (tasks_of_remove _ _ _ H) as (t & A & P).
  destruct (remove_task_inv _ _ _ H) as (t' & A' & ->).
  rewrite A in A'. injection A' as <-. split.
  - apply agrees_remove. eapply agrees_perm; [exact P|]. exact Ag.
  - rewrite n_pods_remove_resources. cbn [n_pods set_pods]. split.
    + apply sorted_adel. exact Sk.
    + apply Forall_adel. exact Fk.
Qed.

Lemma update_task_inv n t n' :
  update_task n t = Ok n' -> exists n1, remove_task n (t_id t) = Ok n1 /\ add_task n1 t = Ok n'.
Proof.
  unfold update_task. destruct (remove_task n (t_id t)) as [n1|]; [|discriminate].
  intros H. exists n1. split; [reflexivity|exact H].
Qed.

Lemma Books_apply n o n' : Books n -> apply_op n o = Ok n' -> Books n'.
Proof.
  intros B. destruct o as [t|id|t]; cbn [apply_op]; intros H.
  - eapply Books_add; eassumption.
  - eapply Books_remove; eassumption.
  - destruct (update_task_inv _ _ _ H) as (n1 & H1 & H2).
    eapply Books_add; [|exact H2]. eapply Books_remove; eassumption.
Qed.

Theorem node_books n0 ops : Books n0 -> Books (run n0 ops).
Proof.
  revert n0. induction ops as [|o ops IH]; intros n0 B; cbn [run]; [exact B|].
  destruct (apply_op n0 o) as [n'|] eqn:E.
  - apply IH. eapply Books_apply; eassumption.
  - apply IH. exact B.
Qed.

Theorem node_books_init n :
  n_pods n = [] -> g_used n = [] -> g_alloc n = [] -> g_rel n = [] ->
  n_idle n = n_alloc n -> n_used n = rzero -> n_rel n = rzero ->
  Books n.
Proof.
  intros Hp Hu Ha Hr Hi Hus Hre. unfold Books, agrees, tasks_of.
  rewrite Hp, Hu, Ha, Hr, Hi, Hus, Hre. cbn [map]. split.
  - split; [reflexivity|].
    split; [apply eq_nogpu_of_eq; unfold spec_idle; cbn [filter map rsum fold_right]; res_lia|].
    split; [apply eq_nogpu_of_eq; reflexivity|].
    intros g. repeat split.
  - split; [exact I|constructor].
Qed.

(** an update of a pod that is on a well-formed node never fails half-way *)
Lemma update_task_ok n t :
  wf_pods (n_pods n) -> amem (t_id t) (n_pods n) = true -> exists n', update_task n t = Ok n'.
Proof.
  intros [Sk _] A. unfold update_task, remove_task, amem in *.
  destruct (alookup (t_id t) (n_pods n)) as [t0|]; [|discriminate].
  eexists. apply add_task_ok.
  rewrite n_pods_remove_resources. cbn [n_pods set_pods].
  apply alookup_adel_same. exact Sk.
Qed.

(** * 6. Whole-GPU columns are exact when no shared task is involved *)

Definition nonshared (t : task) : Prop := is_shared t = false.

Lemma agrees_gpu_add n ts t :
  nonshared t -> agrees_gpu n ts -> agrees_gpu (add_resources n t) (t :: ts).
Proof.
  intros Ns (I & R). rewrite add_resources_eq, Ns. unfold agrees_gpu, add_core.
  cbn [n_alloc n_idle n_rel set_core]. rewrite spec_idle_cons, spec_rel_cons.
  split; [apply d_idle_gpu; exact I|apply d_rel_gpu; exact R].
Qed.

Lemma agrees_gpu_remove n ts t :
  nonshared t -> agrees_gpu n (t :: ts) -> agrees_gpu (remove_resources n t) ts.
Proof.
  intros Ns (I & R). rewrite remove_resources_eq, Ns. unfold agrees_gpu, remove_core.
  cbn [n_alloc n_idle n_rel set_core].
  rewrite spec_idle_cons in I. rewrite spec_rel_cons in R. split.
  - rewrite <- (u_d_idle t (spec_idle (n_alloc n) ts)). apply u_idle_gpu. exact I.
  - rewrite <- (u_d_rel t (spec_rel ts)). apply u_rel_gpu. exact R.
Qed.

Definition Exact (n : node) : Prop :=
  Books n /\ agrees_gpu n (tasks_of n) /\ Forall nonshared (tasks_of n).

Lemma Exact_add n t n' : nonshared t -> Exact n -> add_task n t = Ok n' -> Exact n'.
Proof.
  intros Ns (B & Gp & Fn) H. pose proof (tasks_of_add _ _ _ H) as P.
  split; [eapply Books_add; eassumption|]. split.
  - eapply agrees_gpu_perm; [apply Permutation_sym; exact P|].
    destruct (add_task_inv _ _ _ H) as [A ->].
    apply agrees_gpu_add; [exact Ns|exact Gp].
  - eapply Permutation_Forall; [apply Permutation_sym; exact P|].
    constructor; assumption.
Qed.

Lemma Exact_remove n id n' : Exact n -> remove_task n id = Ok n' -> Exact n'.
Proof.
  intros (B & Gp & Fn) H. destruct (tasks_of_remove _ _ _ H) as (t & A & P).
  pose proof (Permutation_Forall P Fn) as Fn'.
  inversion Fn' as [|x l Nt Fr]; subst.
  split; [eapply Books_remove; eassumption|]. split; [|exact Fr].
  destruct (remove_task_inv _ _ _ H) as (t' & A' & E).
  rewrite A in A'. injection A' as <-.
  pose proof (agrees_gpu_perm _ _ _ P Gp) as Gp'.
  rewrite E in *. apply agrees_gpu_remove; [exact Nt|exact Gp'].
Qed.

Lemma op_tasks_cons o ops :
  op_tasks (o :: ops) =
  match o with OAdd t => t :: op_tasks ops | OUpdate t => t :: op_tasks ops | ORemove _ => op_tasks ops end.
Proof. destruct o; reflexivity. Qed.

Lemma Exact_run ops : forall n0, Exact n0 -> Forall nonshared (op_tasks ops) -> Exact (run n0 ops).
Proof.
  induction ops as [|o ops IH]; intros n0 Ex Fo; cbn [run]; [exact Ex|].
  rewrite op_tasks_cons in Fo.
  destruct (apply_op n0 o) as [n'|] eqn:E.
  - apply IH.
    + destruct o as [t|id|t]; cbn [apply_op] in E.
      * inversion Fo as [|x l Nt Fr]; subst. eapply Exact_add; eassumption.
      * eapply Exact_remove; eassumption.
      * inversion Fo as [|x l Nt Fr]; subst. destruct (update_task_inv _ _ _ E) as (n1 & R1 & R2).
        eapply Exact_add; [exact Nt| |exact R2]. eapply Exact_remove; eassumption.
    + destruct o; [inversion Fo; assumption|assumption|inversion Fo; assumption].
  - apply IH; [exact Ex|].
    destruct o; [inversion Fo; assumption|assumption|inversion Fo; assumption].
Qed.

Theorem node_wholegpu_exact n0 ops :
  Books n0 ->
  gpu (n_idle n0) = gpu (spec_idle (n_alloc n0) (tasks_of n0)) ->
  gpu (n_rel n0) = gpu (spec_rel (tasks_of n0)) ->
  Forall (fun t => is_shared t = false) (tasks_of n0) ->
  Forall (fun t => is_shared t = false) (op_tasks ops) ->
  let n := run n0 ops in
  n_used n = spec_used (tasks_of n)
  /\ n_idle n = spec_idle (n_alloc n) (tasks_of n)
  /\ n_rel n = spec_rel (tasks_of n).
Proof.
  intros B Gi Gr F0 Fo n.
  assert (Ex : Exact n).
  { apply Exact_run; [|exact Fo]. split; [exact B|]. split; [split; assumption|exact F0]. }
  destruct Ex as (((U & I & R & _) & _) & (Gi' & Gr') & _).
  split; [exact U|]. split; apply eq_nogpu_full; assumption.
Qed.

(** * 7. Removing a task right after adding it *)

Lemma amem_false_alookup {V} k (m : amap V) : amem k m = false -> alookup k m = None.
Proof. unfold amem. destruct (alookup k m); [discriminate|reflexivity]. Qed.

(** non-shared task: the whole node is restored (marks included) *)
Theorem remove_add_inverse n t :
  amem (t_id t) (n_pods n) = false -> is_shared t = false ->
  exists n', add_task n t = Ok n' /\ remove_task n' (t_id t) = Ok n.
Proof.
  intros A Ns. apply amem_false_alookup in A.
  eexists. split; [apply add_task_ok; exact A|].
  unfold remove_task. rewrite n_pods_add_resources. cbn [n_pods set_pods].
  rewrite alookup_aset_same. f_equal. rewrite adel_aset by exact A.
  rewrite add_resources_eq, remove_resources_eq, Ns.
  destruct n as [al idl us rl ng gm pd gu ga gr mk].
  unfold remove_core, add_core, set_pods, set_core.
  cbn [n_alloc n_idle n_used n_rel n_ngpu n_gpumem n_pods g_used g_alloc g_rel g_mark].
  rewrite u_d_idle, u_d_rel. f_equal. res_lia.
Qed.

(** what is restored for every task, shared or not *)
Definition restored_nogpu (n'' n : node) : Prop :=
  n_alloc n'' = n_alloc n /\ n_used n'' = n_used n /\ n_pods n'' = n_pods n
  /\ eq_nogpu (n_idle n'') (n_idle n) /\ eq_nogpu (n_rel n'') (n_rel n)
  /\ forall g, zget g (g_used n'') = zget g (g_used n)
            /\ zget g (g_alloc n'') = zget g (g_alloc n)
            /\ zget g (g_rel n'') = zget g (g_rel n).

(** everything, with the per-group maps compared extensionally (an
    add/remove pair leaves a zero entry behind for a previously unseen group) *)
Definition restored (n'' n : node) : Prop :=
  restored_nogpu n'' n /\ gpu (n_idle n'') = gpu (n_idle n) /\ gpu (n_rel n'') = gpu (n_rel n).

Theorem remove_add_inverse_any n t :
  amem (t_id t) (n_pods n) = false ->
  exists n' n'', add_task n t = Ok n' /\ remove_task n' (t_id t) = Ok n'' /\ restored_nogpu n'' n.
Proof.
  intros A. apply amem_false_alookup in A.
  eexists. eexists. split; [apply add_task_ok; exact A|].
  unfold remove_task. rewrite n_pods_add_resources. cbn [n_pods set_pods].
  rewrite alookup_aset_same. split; [reflexivity|]. rewrite adel_aset by exact A.
  set (N0 := set_pods n (aset (t_id t) t (n_pods n))).
  set (n' := add_resources N0 t).
  destruct (add_resources_spec N0 t) as [(Fa & Fu & _ & _ & _ & Fi & Fr) S]. fold n' in Fa, Fu, Fi, Fr, S.
  destruct (remove_resources_spec (set_pods n' (n_pods n)) t) as [(Ra & Ru & Rp & _ & _ & Ri & Rr) T].
  unfold add_core, N0 in Fa, Fu, Fi, Fr.
  cbn [n_alloc n_used n_idle n_rel n_pods set_core set_pods] in Fa, Fu, Fi, Fr.
  unfold remove_core in Ra, Ru, Rp, Ri, Rr.
  cbn [n_alloc n_used n_idle n_rel n_pods set_core set_pods] in Ra, Ru, Rp, Ri, Rr.
  unfold restored_nogpu.
  split; [congruence|]. split; [rewrite Ru, Fu; res_lia|]. split; [exact Rp|].
  split.
  { eapply eq_nogpu_trans; [exact Ri|].
    eapply eq_nogpu_trans; [apply u_idle_nogpu; exact Fi|]. rewrite u_d_idle. apply eq_nogpu_refl. }
  split.
  { eapply eq_nogpu_trans; [exact Rr|].
    eapply eq_nogpu_trans; [apply u_rel_nogpu; exact Fr|]. rewrite u_d_rel. apply eq_nogpu_refl. }
  intros g. destruct (S g) as (Su & Sa & Sr). destruct (T g) as (Tu & Ta & Tr).
  cbn [g_used g_alloc g_rel set_pods] in Tu, Ta, Tr.
  unfold N0 in Su, Sa, Sr. cbn [g_used g_alloc g_rel set_pods] in Su, Sa, Sr.
  rewrite Tu, Ta, Tr, Su, Sa, Sr. lia.
Qed.

(** The full claim for shared tasks, on nodes without a nominated GPU holder. *)
Definition remove_add_inverse_shared_statement : Prop :=
  forall n t, Books n -> amem (t_id t) (n_pods n) = false -> exposed (tasks_of n) t = false ->
    exists n' n'', add_task n t = Ok n' /\ remove_task n' (t_id t) = Ok n'' /\ restored n'' n.

(** It fails.  4-GPU node; device 2 is used only by a terminating (Releasing)
    sharer, so it counts as one releasing GPU.  Nominating (Pipelined) another
    sharer onto device 2 takes that releasing GPU (releasing 1 -> 0); removing
    the nomination again does not give it back: isPipelinedToReleasingGpu
    compares used and releasing memory *before* the removal (60 vs 0), where
    the add compared them before the add (30 vs 30). *)
Definition x_node : node :=
  mkNode (mkRes 8000 8000 4 110 0 0) (mkRes 8000 8000 4 110 0 0) rzero rzero 4 100 [] [] [] [] [].
Definition x_sh (id : positive) st m gs :=
  mkTask id id st KFraction (mkRes 100 100 0 1 0 0) 1 m gs false false.
Definition x_wh (id : positive) st g :=
  mkTask id id st KRegular (mkRes 100 100 g 1 0 0) 0 0 [] false false.
Definition x_ops : list nop :=
  [OAdd (x_sh 2 Running 30 [1%positive]); OAdd (x_wh 3 Running 1); OAdd (x_sh 4 Releasing 30 [2%positive])].
Definition x_n1 : node := run x_node x_ops.
Definition x_t : task := x_sh 1 Pipelined 50 [2%positive].

Lemma x_node_books : Books x_node.
Proof. apply node_books_init; reflexivity. Qed.

Theorem remove_add_inverse_shared_refuted :
  exists n t n' n'',
    Books n /\ amem (t_id t) (n_pods n) = false /\ exposed (tasks_of n) t = false
    /\ 0 < t_gmem t /\ n_ngpu n = gpu (n_alloc n)
    /\ add_task n t = Ok n' /\ remove_task n' (t_id t) = Ok n''
    /\ gpu (n_rel n) = 1 /\ gpu (n_rel n'') = 0.
Proof.
  exists x_n1, x_t. eexists. eexists.
  split; [apply node_books, x_node_books|].
  split; [vm_compute; reflexivity|]. split; [vm_compute; reflexivity|].
  split; [vm_compute; reflexivity|]. split; [vm_compute; reflexivity|].
  split; [vm_compute; reflexivity|]. split; [vm_compute; reflexivity|].
  split; vm_compute; reflexivity.
Qed.

Theorem remove_add_inverse_shared_false : ~ remove_add_inverse_shared_statement.
Proof.
  intros H.
  destruct (H x_n1 x_t) as (n' & n'' & Ha & Hr & (_ & _ & Gr)).
  - apply node_books, x_node_books.
  - vm_compute; reflexivity.
  - vm_compute; reflexivity.
  - vm_compute in Ha. injection Ha as <-.
    vm_compute in Hr. injection Hr as <-.
    vm_compute in Gr. discriminate.
Qed.

(** The per-group maps are restored only extensionally: the pair leaves a zero
    entry behind (as the Go maps do). *)
Theorem remove_add_inverse_shared_maps_refuted :
  exists t n' n'',
    add_task x_node t = Ok n' /\ remove_task n' (t_id t) = Ok n''
    /\ g_used x_node = [] /\ g_used n'' = [(1%positive, 0)].
Proof.
  exists (x_sh 1 Running 50 [1%positive]). eexists. eexists.
  split; [vm_compute; reflexivity|]. split; [vm_compute; reflexivity|].
  split; vm_compute; reflexivity.
Qed.

(** * 8. Non-vacuity *)

(** a node with three pods: a running sharer (30 on device 1), a running
    whole-GPU pod, a terminating sharer (30 on device 2, marked releasing) *)
Definition nv_node : node :=
  mkNode (mkRes 8000 8000 4 110 0 0) (mkRes 7700 7700 1 107 0 0) (mkRes 300 300 1 3 0 0) (mkRes 100 100 1 1 0 0)
         4 100
         [(2%positive, x_sh 2 Running 30 [1%positive]); (3%positive, x_wh 3 Running 1);
          (4%positive, x_sh 4 Releasing 30 [2%positive])]
         [(1%positive, 30); (2%positive, 30)] [(1%positive, 30); (2%positive, 30)] [(2%positive, 30)]
         [(2%positive, tt)].

(** evict the first sharer, delete the whole-GPU pod, nominate a new sharer on
    device 1, a removal of an unknown pod (ignored), add a 2-GPU pod, a
    duplicate add (ignored) *)
Definition nv_ops : list nop :=
  [OUpdate (x_sh 2 Releasing 30 [1%positive]); ORemove 3; OAdd (x_sh 5 Pipelined 20 [1%positive]);
   ORemove 9; OAdd (x_wh 6 Running 2); OAdd (x_wh 6 Running 1)].

Lemma nv_node_reachable : nv_node = run x_node x_ops.
Proof. vm_compute. reflexivity. Qed.

Theorem node_books_nonvacuous :
  Books nv_node
  /\ Books (run nv_node nv_ops)
  /\ map t_id (tasks_of (run nv_node nv_ops)) = [2; 4; 5; 6]%positive
  /\ zget 1 (g_used (run nv_node nv_ops)) = 50
  /\ zget 1 (g_rel (run nv_node nv_ops)) = 10
  /\ n_used (run nv_node nv_ops) = mkRes 400 400 2 4 0 0
  /\ books_ok false (run nv_node nv_ops) (tasks_of (run nv_node nv_ops)) = true.
Proof.
  assert (B : Books nv_node) by (rewrite nv_node_reachable; apply node_books, x_node_books).
  split; [exact B|]. split; [apply node_books; exact B|].
  repeat split; vm_compute; reflexivity.
Qed.

(** the hypotheses of [node_wholegpu_exact] are met by a concrete run *)
Definition nv_ops_whole : list nop :=
  [OAdd (x_wh 1 Running 1); OAdd (x_wh 2 Pipelined 2); OUpdate (x_wh 1 Releasing 1); ORemove 2;
   OAdd (x_wh 3 Binding 1)].

Theorem node_wholegpu_nonvacuous :
  Books x_node
  /\ Forall (fun t => is_shared t = false) (tasks_of x_node)
  /\ Forall (fun t => is_shared t = false) (op_tasks nv_ops_whole)
  /\ n_idle (run x_node nv_ops_whole) = mkRes 7800 7800 2 108 0 0
  /\ n_rel (run x_node nv_ops_whole) = mkRes 100 100 1 1 0 0.
Proof.
  split; [exact x_node_books|]. split; [constructor|].
  split; [repeat constructor|]. split; vm_compute; reflexivity.
Qed.

(** * 9. Link to the executable monitor of Model/NodeSpec.v *)

Lemma req_refl a : req a a = true.
Proof. unfold req. rewrite !Z.eqb_refl. reflexivity. Qed.

Theorem books_ok_of_Books n : Books n -> books_ok false n (tasks_of n) = true.
Proof.
  intros [(U & I & R & G) _]. unfold books_ok.
  rewrite U, req_refl. apply eq_nogpu_req in I. apply eq_nogpu_req in R. rewrite I, R.
  cbn [andb]. rewrite andb_true_r. apply forallb_forall. intros g _.
  destruct (G g) as (Gu & Ga & Gr). rewrite Gu, Ga, Gr, !Z.eqb_refl. reflexivity.
Qed.

Theorem books_unfold n :
  Books n <->
  (n_used n = spec_used (tasks_of n)
   /\ (cpu (n_idle n) = cpu (spec_idle (n_alloc n) (tasks_of n))
       /\ mem (n_idle n) = mem (spec_idle (n_alloc n) (tasks_of n))
       /\ pods (n_idle n) = pods (spec_idle (n_alloc n) (tasks_of n))
       /\ mig (n_idle n) = mig (spec_idle (n_alloc n) (tasks_of n))
       /\ ext (n_idle n) = ext (spec_idle (n_alloc n) (tasks_of n)))
   /\ (cpu (n_rel n) = cpu (spec_rel (tasks_of n))
       /\ mem (n_rel n) = mem (spec_rel (tasks_of n))
       /\ pods (n_rel n) = pods (spec_rel (tasks_of n))
       /\ mig (n_rel n) = mig (spec_rel (tasks_of n))
       /\ ext (n_rel n) = ext (spec_rel (tasks_of n)))
   /\ (forall g, zget g (g_used n) = spec_gused g (tasks_of n)
                 /\ zget g (g_alloc n) = spec_galloc g (tasks_of n)
                 /\ zget g (g_rel n) = spec_grel g (tasks_of n)))
  /\ (sorted_keys (n_pods n) /\ Forall (fun kv => t_id (snd kv) = fst kv) (n_pods n)).
Proof. reflexivity. Qed.

(** * 10. Shared tasks: a local condition under which the whole-GPU counts come back

    For a shared task on a single device [g] that is not nominated (Pipelined):
    if the device's books are consistent ([group_tight]: non-negative used
    memory, no releasing memory on an unused device, the releasing mark set
    exactly when all used memory is releasing, and idle + used GPUs = number
    of GPUs, i.e. no nominated whole-GPU pod and no over-commitment), then
    remove-after-add restores every column and the releasing marks. *)

Definition posb (z : Z) : Z := if 0 <? z then 1 else 0.

Lemma usg_cons k v r : used_shared_gpus ((k, v) :: r) = posb v + used_shared_gpus r.
Proof.
  unfold used_shared_gpus, posb. cbn [filter snd]. destruct (0 <? v); cbn [length]; lia.
Qed.

Lemma zget_cons k k' v' r : zget k ((k', v') :: r) = if Pos.eqb k k' then v' else zget k r.
Proof. unfold zget. cbn [alookup]. destruct (Pos.eqb k k'); reflexivity. Qed.

Lemma zget_lb k (m : amap Z) : Forall (fun kv => (k < fst kv)%positive) m -> zget k m = 0.
Proof. intros F. unfold zget. rewrite (alookup_lb_none k m F). reflexivity. Qed.

Lemma usg_aset k v m :
  sorted_keys m -> used_shared_gpus (aset k v m) = used_shared_gpus m - posb (zget k m) + posb v.
Proof.
  induction m as [|[k' v'] r IH]; intros S; cbn [aset].
  - rewrite usg_cons. unfold zget, posb. cbn [alookup]. cbn. lia.
  - destruct S as [F S']. destruct (Pos.compare_spec k k') as [E|L|G].
    + subst k'. rewrite !usg_cons, zget_cons, Pos.eqb_refl. lia.
    + rewrite (usg_cons k v). rewrite zget_lb; [unfold posb at 2; cbn; lia|].
      constructor; [exact L|]. eapply Forall_impl; [|exact F]. cbn. intros a Ha. lia.
    + rewrite !usg_cons, zget_cons, IH by exact S'.
      destruct (Pos.eqb_spec k k'); [subst; lia|]. lia.
Qed.

Lemma usg_zadd g d u :
  sorted_keys u -> used_shared_gpus (zadd g d u) = used_shared_gpus u - posb (zget g u) + posb (zget g u + d).
Proof. intros S. unfold zadd. apply usg_aset. exact S. Qed.

Lemma sorted_zadd g d u : sorted_keys u -> sorted_keys (zadd g d u).
Proof. apply sorted_aset. Qed.

Lemma alookup_zadd_same g d u : alookup g (zadd g d u) = Some (zget g u + d).
Proof. unfold zadd. apply alookup_aset_same. Qed.

Lemma grfs_zadd g d u r :
  gpu_releasing_from_shared (zadd g d u) r g =
  negb (zget g u + d =? 0) && (zget g r =? zget g u + d).
Proof.
  unfold gpu_releasing_from_shared. rewrite alookup_zadd_same.
  set (x := zget g u + d). unfold zget. destruct (alookup g r) as [rv|]; destruct x; cbn; try reflexivity.
Qed.

Lemma marked_aset_same g mk : marked g (aset g tt mk) = true.
Proof. unfold marked, amem. rewrite alookup_aset_same. reflexivity. Qed.
Lemma marked_aset_other g' g mk : g' <> g -> marked g' (aset g tt mk) = marked g' mk.
Proof. intros N. unfold marked, amem. rewrite alookup_aset_other by exact N. reflexivity. Qed.
Lemma marked_adel_same g mk : sorted_keys mk -> marked g (adel g mk) = false.
Proof. intros S. unfold marked, amem. rewrite alookup_adel_same by exact S. reflexivity. Qed.
Lemma marked_adel_other g' g mk : g' <> g -> marked g' (adel g mk) = marked g' mk.
Proof. intros N. unfold marked, amem. rewrite alookup_adel_other by exact N. reflexivity. Qed.

(** whole-GPU view of one shared-group step *)
Lemma asg_gpu n t g :
  let m := t_gmem t in
  let u := zadd g m (g_used n) in
  let n' := add_shared_group n t g in
  match t_status t with
  | Releasing =>
      let r := zadd g m (g_rel n) in
      gpu (n_idle n') = (if zget g u =? zget g r then
                           if n_ngpu n <? gpu (n_idle n) + used_gpus n u then gpu (n_idle n) + -1 else gpu (n_idle n)
                         else gpu (n_idle n))
      /\ gpu (n_rel n') = (if zget g u =? zget g r then
                             if marked g (g_mark n) then gpu (n_rel n) else gpu (n_rel n) + 1
                           else gpu (n_rel n))
      /\ g_mark n' = (if zget g u =? zget g r then
                        if marked g (g_mark n) then g_mark n else aset g tt (g_mark n)
                      else g_mark n)
  | Pipelined => True
  | _ =>
      gpu (n_idle n') = (if (zget g u <=? m) && (n_ngpu n <? gpu (n_idle n) + used_gpus n u)
                         then gpu (n_idle n) + -1 else gpu (n_idle n))
      /\ gpu (n_rel n') = (if marked g (g_mark n) then gpu (n_rel n) + -1 else gpu (n_rel n))
      /\ g_mark n' = (if marked g (g_mark n) then adel g (g_mark n) else g_mark n)
  end.
Proof.
  unfold add_shared_group. cbv zeta.
  destruct (t_status t); try exact I; split_ifs; repeat split.
Qed.

Lemma rsg_gpu n t g :
  let m := t_gmem t in
  let u := zadd g (- m) (g_used n) in
  let n' := remove_shared_group n t g in
  match t_status t with
  | Releasing =>
      gpu (n_idle n') = (if zget g u <=? 0 then
                           if gpu (n_idle n) + used_gpus n u <=? n_ngpu n then gpu (n_idle n) + 1 else gpu (n_idle n)
                         else gpu (n_idle n))
      /\ gpu (n_rel n') = (if zget g u <=? 0 then
                             if marked g (g_mark n) then gpu (n_rel n) + -1 else gpu (n_rel n)
                           else gpu (n_rel n))
      /\ g_mark n' = (if zget g u <=? 0 then
                        if marked g (g_mark n) then adel g (g_mark n) else g_mark n
                      else g_mark n)
  | Pipelined => True
  | _ =>
      gpu (n_idle n') = (if (zget g u <=? 0) && (gpu (n_idle n) + used_gpus n u <=? n_ngpu n)
                         then gpu (n_idle n) + 1 else gpu (n_idle n))
      /\ gpu (n_rel n') = (if gpu_releasing_from_shared u (g_rel n) g && negb (marked g (g_mark n))
                           then gpu (n_rel n) + 1 else gpu (n_rel n))
      /\ g_mark n' = (if gpu_releasing_from_shared u (g_rel n) g && negb (marked g (g_mark n))
                      then aset g tt (g_mark n) else g_mark n)
  end.
Proof.
  unfold remove_shared_group. cbv zeta.
  destruct (t_status t); try exact I; split_ifs; repeat split.
Qed.

Definition group_tight (n : node) (g : positive) : Prop :=
  0 <= zget g (g_used n)
  /\ (zget g (g_used n) = 0 -> zget g (g_rel n) = 0)
  /\ (marked g (g_mark n) = true <-> (zget g (g_used n) <> 0 /\ zget g (g_rel n) = zget g (g_used n)))
  /\ gpu (n_idle n) + used_gpus n (g_used n) = n_ngpu n
  /\ sorted_keys (g_used n) /\ sorted_keys (g_mark n).

Ltac split_all_ifs :=
  repeat match goal with
         | H : context [if ?c then _ else _] |- _ => destruct c eqn:?
         | |- context [if ?c then _ else _] => destruct c eqn:?
         end.

Lemma pair_local na nr t g :
  t_status t <> Pipelined -> 0 < t_gmem t -> group_tight na g ->
  let n1 := add_shared_group na t g in
  gpu (n_idle nr) = gpu (n_idle n1) -> gpu (n_rel nr) = gpu (n_rel n1) ->
  gpu (n_used nr) = gpu (n_used na) -> n_ngpu nr = n_ngpu na ->
  g_used nr = g_used n1 -> g_rel nr = g_rel n1 -> g_mark nr = g_mark n1 ->
  let n2 := remove_shared_group nr t g in
  gpu (n_idle n2) = gpu (n_idle na) /\ gpu (n_rel n2) = gpu (n_rel na)
  /\ marked g (g_mark n2) = marked g (g_mark na)
  /\ forall g', g' <> g -> marked g' (g_mark n2) = marked g' (g_mark na).
Proof.
  intros St Mpos (U0 & UR & MK & T & Su & Sm) n1 Ei Er Eu En Egu Egr Egm n2.
  pose proof (asg_gpu na t g) as PA. pose proof (rsg_gpu nr t g) as PR.
  cbv zeta in PA, PR. subst n1. fold n2 in PR.
  rewrite Ei, Er, Egu, Egr, Egm, En in PR. unfold used_gpus in PA, PR, T. rewrite Eu in PR.
  rewrite asg_g_used, asg_g_rel in PR.
  destruct (t_status t) eqn:E; try congruence.
  all: try (destruct PA as (Ia & Ra & Ma); destruct PR as (Ir & Rr & Mr)).
  all: rewrite ?grfs_zadd, ?zget_zadd, ?Pos.eqb_refl, ?usg_zadd in * by (try apply sorted_zadd; assumption).
  all: rewrite ?zget_zadd, ?Pos.eqb_refl in *.
  all: rewrite Ia, Ra, Ma in *; clear Ia Ra Ma Ei Er Egu Egr Egm.
  all: destruct (marked g (g_mark na)) eqn:Mk.
  all: rewrite ?(marked_adel_same _ _ Sm), ?marked_aset_same, ?Mk in *.
  all: cbv beta iota in Ir, Rr, Mr.
  all: rewrite Ir, Rr, Mr; unfold posb; clear Ir Rr Mr.
  all: (split; [|split; [|split]]).
  all: try (intros g' Ng; split_ifs;
            rewrite ?marked_adel_other, ?marked_aset_other, ?marked_adel_other by exact Ng; reflexivity).
  all: split_all_ifs;
       rewrite ?marked_adel_same, ?marked_aset_same, ?Mk by (try apply sorted_aset; exact Sm);
       try reflexivity; try lia.
  all: match goal with H : marked _ (aset _ tt _) = false |- _ => rewrite marked_aset_same in H; discriminate H end.
Qed.

Lemma charge_shared_gpu t : is_shared t = true -> gpu (charge t) = 0.
Proof. intros S. unfold charge. rewrite S. reflexivity. Qed.

Lemma gpu_d_idle0 t r : gpu (charge t) = 0 -> gpu (d_idle t r) = gpu r.
Proof. intros C. unfold d_idle. destruct (t_status t); cbn [gpu rsub]; lia. Qed.
Lemma gpu_d_rel0 t r : gpu (charge t) = 0 -> gpu (d_rel t r) = gpu r.
Proof. intros C. unfold d_rel. destruct (t_status t); cbn [gpu rsub radd]; lia. Qed.
Lemma gpu_u_idle0 t r : gpu (charge t) = 0 -> gpu (u_idle t r) = gpu r.
Proof. intros C. unfold u_idle. destruct (t_status t); cbn [gpu rsub radd]; lia. Qed.
Lemma gpu_u_rel0 t r : gpu (charge t) = 0 -> gpu (u_rel t r) = gpu r.
Proof. intros C. unfold u_rel. destruct (t_status t); cbn [gpu rsub radd]; lia. Qed.

Theorem remove_add_inverse_shared_local n t g :
  amem (t_id t) (n_pods n) = false -> is_shared t = true -> t_groups t = [g] ->
  t_status t <> Pipelined -> 0 < t_gmem t -> group_tight n g ->
  exists n' n'', add_task n t = Ok n' /\ remove_task n' (t_id t) = Ok n'' /\ restored n'' n
     /\ forall g', marked g' (g_mark n'') = marked g' (g_mark n).
Proof.
  intros A Sh Gs St Mpos GT.
  destruct (remove_add_inverse_any n t A) as (n' & n'' & Ha & Hr & RN).
  exists n', n''. split; [exact Ha|]. split; [exact Hr|].
  destruct (add_task_inv _ _ _ Ha) as [A' En'].
  destruct (remove_task_inv _ _ _ Hr) as (t' & Lk & En'').
  rewrite En' in Lk. rewrite n_pods_add_resources in Lk. cbn [n_pods set_pods] in Lk.
  rewrite alookup_aset_same in Lk. injection Lk as <-.
  rewrite add_resources_eq, Sh, Gs in En'. cbn [fold_left] in En'.
  rewrite remove_resources_eq, Sh, Gs in En''. cbn [fold_left] in En''.
  pose proof (charge_shared_gpu t Sh) as C0.
  set (na := add_core (set_pods n (aset (t_id t) t (n_pods n))) t) in *.
  set (nr := remove_core (set_pods n' (adel (t_id t) (n_pods n'))) t) in *.
  pose proof (pair_local na nr t g St Mpos) as P. cbv zeta in P.
  rewrite <- En', <- En'' in P.
  destruct (asg_frame na t g) as (_ & Fu & _ & Fn & _). rewrite <- En' in Fu, Fn.
  assert (Ina : gpu (n_idle na) = gpu (n_idle n)).
  { unfold na, add_core. cbn [n_idle set_core set_pods]. apply gpu_d_idle0, C0. }
  assert (Rna : gpu (n_rel na) = gpu (n_rel n)).
  { unfold na, add_core. cbn [n_rel set_core set_pods]. apply gpu_d_rel0, C0. }
  destruct P as (Pi & Pr & Pm & Pm').
  - destruct GT as (U0 & UR & MK & T & Su & Sm). unfold group_tight.
    unfold used_gpus in *. rewrite Ina.
    unfold na, add_core. cbn [g_used g_rel g_mark n_used n_ngpu set_core set_pods gpu radd].
    repeat split; try assumption; try apply MK; lia.
  - unfold nr, remove_core. cbn [n_idle set_core set_pods]. apply gpu_u_idle0, C0.
  - unfold nr, remove_core. cbn [n_rel set_core set_pods]. apply gpu_u_rel0, C0.
  - unfold nr, remove_core. cbn [n_used set_core set_pods gpu rsub]. rewrite Fu. lia.
  - unfold nr, remove_core. cbn [n_ngpu set_core set_pods]. exact Fn.
  - reflexivity.
  - reflexivity.
  - reflexivity.
  - split; [split; [exact RN|split; congruence]|].
    intros g'. destruct (Pos.eq_dec g' g) as [->|Ng]; [exact Pm|apply Pm'; exact Ng].
Qed.

(** non-vacuity of the local condition: it holds on [nv_node] for the device of
    the running sharer (1), the marked releasing device (2) and an unused
    device (3); on device 2 the pair moves the releasing count 1 -> 0 -> 1. *)
Ltac sorted_solve := cbn [sorted_keys]; repeat split; repeat constructor.
Ltac gt_solve :=
  unfold group_tight;
  (split; [|split; [|split; [|split; [|split]]]]);
  [ vm_compute; discriminate
  | vm_compute; intuition (try discriminate; try congruence)
  | vm_compute; intuition (try discriminate; try congruence)
  | vm_compute; reflexivity
  | sorted_solve | sorted_solve ].

Theorem shared_local_nonvacuous :
  group_tight nv_node 1 /\ group_tight nv_node 2 /\ group_tight nv_node 3
  /\ exists n' n'',
       add_task nv_node (x_sh 1 Running 50 [2%positive]) = Ok n' /\ remove_task n' 1 = Ok n''
       /\ gpu (n_rel nv_node) = 1 /\ gpu (n_rel n') = 0 /\ gpu (n_rel n'') = 1
       /\ marked 2 (g_mark n') = false /\ marked 2 (g_mark n'') = true.
Proof.
  split; [gt_solve|]. split; [gt_solve|]. split; [gt_solve|].
  eexists. eexists. split; [vm_compute; reflexivity|]. split; [vm_compute; reflexivity|].
  repeat split; vm_compute; reflexivity.
Qed.
