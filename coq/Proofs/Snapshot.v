(** C01 — the snapshot charges every pod that occupies a node (Model/Snapshot.v).

    For ALL API worlds (any number of nodes, pods and BindRequests, at most one request per pod, distinct pod
    names) the node books the model snapshot builds are exactly the recomputation from the pods that occupy the
    node according to the world itself ([occupies_on]: not finished, and on the node or being bound to it by a
    request that is not terminally failed):
      - [snap_task_occupies]: a pod is added to node n by the snapshot iff it occupies n;
      - [snapshot_books]: the books of every snapshot node agree with its occupants (used, idle, releasing,
        memory per shared device), hence idle + occupants = allocatable;
      - [bind_on_snapshot_within_allocatable], [cycle_on_snapshot_never_negative]: combined with the bind guard
        (Proofs/Admissible.v, Proofs/CycleSafe.v) no bind decided on the snapshot oversubscribes a node;
      - [drop_succeeded_refuted]: the variant of snapshotBindRequests that leaves out served requests
        (seeded/C01-4) admits a bind that oversubscribes the node of the README world. *)
From Coq Require Import List ZArith PArith Bool Lia Permutation.
From KaiV Require Import Model.Res Model.Status Model.AMap Model.Node Model.NodeSpec Model.Snapshot
     Proofs.Node Proofs.Admissible Run.NodeObs Run.Cycle Proofs.CycleSafe Run.C01.
Import ListNotations.
Set Default Timeout 60.
Open Scope Z_scope.

(** * Well-formed worlds *)

(** a node as NewNodeInfo builds it *)
Definition fresh (n : node) : Prop :=
  n_pods n = [] /\ g_used n = [] /\ g_alloc n = [] /\ g_rel n = []
  /\ n_idle n = n_alloc n /\ n_used n = rzero /\ n_rel n = rzero.

(** pod names are distinct, a pod has at most one BindRequest (its name is the pod's), nodes start empty *)
Definition WorldWf (w : world) : Prop :=
  NoDup (map wp_id (w_pods w)) /\ NoDup (map wb_pod (w_brs w)) /\ Forall (fun kn => fresh (snd kn)) (w_nodes w).

Definition ReqsWf (w : world) : Prop := Forall (fun p => wf_req (wp_task p)) (w_pods w).

Lemma fresh_books n : fresh n -> Books n.
Proof. intros (A&B&C&D&E&F&G). apply node_books_init; assumption. Qed.

Lemma alookup_amem {V} k (v : V) m : alookup k m = Some v -> amem k m = true.
Proof. unfold amem. intros ->. reflexivity. Qed.

Lemma world_fresh w nid n0 : WorldWf w -> alookup nid (w_nodes w) = Some n0 -> fresh n0.
Proof.
  intros (_ & _ & F) A. apply alookup_in in A. rewrite Forall_forall in F. exact (F _ A).
Qed.

(** * The request found for a pod *)

Lemma find_ext {A} (f g : A -> bool) l : (forall x, f x = g x) -> find f l = find g l.
Proof. intros E. induction l as [|x l IH]; cbn [find]; [reflexivity|]. rewrite E, IH. reflexivity. Qed.

Lemma find_none_all {A} (f : A -> bool) l : (forall x, In x l -> f x = false) -> find f l = None.
Proof.
  induction l as [|x l IH]; intros H; cbn [find]; [reflexivity|].
  rewrite (H x (or_introl eq_refl)). apply IH. intros y I. apply H. now right.
Qed.

Lemma existsb_false_all {A} (f : A -> bool) l : (forall x, In x l -> f x = false) -> existsb f l = false.
Proof.
  induction l as [|x l IH]; intros H; cbn [existsb]; [reflexivity|].
  rewrite (H x (or_introl eq_refl)). apply IH. intros y I. apply H. now right.
Qed.

Lemma other_pods (b : wbr) brs p :
  ~ In (wb_pod b) (map wb_pod brs) -> wb_pod b = p -> forall x, In x brs -> Pos.eqb (wb_pod x) p = false.
Proof.
  intros N E x I. apply Pos.eqb_neq. intros Ex. apply N. rewrite E, <- Ex. apply in_map. exact I.
Qed.

(** the request the snapshot builds pod [p] with: the pod's only request, if it passed the filter and is not
    terminally failed *)
Lemma br_for_filter (f : wbr -> bool) brs p :
  NoDup (map wb_pod brs) ->
  br_for (filter f brs) p = find (fun b => Pos.eqb (wb_pod b) p && f b && negb (br_failed b)) brs.
Proof.
  induction brs as [|b brs IH]; intros ND; [reflexivity|].
  cbn [map] in ND. inversion ND as [|x l Nin ND']; subst.
  cbn [filter find]. destruct (Pos.eqb_spec (wb_pod b) p) as [E|NE].
  - pose proof (other_pods b brs p Nin E) as Oth. cbn [andb].
    destruct (f b) eqn:Fb; cbn [andb].
    + unfold br_for. cbn [find]. rewrite (proj2 (Pos.eqb_eq _ _) E).
      destruct (br_failed b); cbn [negb]; [|reflexivity].
      symmetry. apply find_none_all. intros x I. rewrite (Oth x I). reflexivity.
    + unfold br_for. rewrite find_none_all.
      * symmetry. apply find_none_all. intros x I. rewrite (Oth x I). reflexivity.
      * intros x I. apply filter_In in I as [I _]. exact (Oth x I).
  - cbn [andb]. rewrite <- (IH ND'). destruct (f b); [|reflexivity].
    unfold br_for. cbn [find]. rewrite (proj2 (Pos.eqb_neq _ _) NE). reflexivity.
Qed.

(** the live request of a pod: not terminally failed, for a node of the cluster *)
Definition live_of (w : world) (pid : positive) : option wbr :=
  find (fun b => Pos.eqb (wb_pod b) pid && amem (wb_node b) (w_nodes w) && negb (br_failed b)) (w_brs w).

Lemma br_for_snapshot w pid :
  NoDup (map wb_pod (w_brs w)) -> br_for (snap_brs false w) pid = live_of w pid.
Proof.
  intros ND. unfold snap_brs, live_of. rewrite (br_for_filter _ _ _ ND). apply find_ext.
  intros b. cbn [andb negb]. rewrite andb_true_r. reflexivity.
Qed.

Lemma live_request_spec w pid nid :
  NoDup (map wb_pod (w_brs w)) -> amem nid (w_nodes w) = true ->
  live_request w pid nid = match live_of w pid with Some b => Pos.eqb (wb_node b) nid | None => false end.
Proof.
  unfold live_request, live_of. intros ND Am. induction (w_brs w) as [|b brs IH]; [reflexivity|].
  cbn [map] in ND. inversion ND as [|x l Nin ND']; subst. cbn [existsb find].
  destruct (Pos.eqb_spec (wb_pod b) pid) as [E|NE]; cbn [andb].
  - pose proof (other_pods b brs pid Nin E) as Oth.
    assert (T1 : existsb (fun b0 => Pos.eqb (wb_pod b0) pid && Pos.eqb (wb_node b0) nid && negb (br_failed b0)) brs = false).
    { apply existsb_false_all. intros x I. rewrite (Oth x I). reflexivity. }
    assert (T2 : find (fun b0 => Pos.eqb (wb_pod b0) pid && amem (wb_node b0) (w_nodes w) && negb (br_failed b0)) brs = None).
    { apply find_none_all. intros x I. rewrite (Oth x I). reflexivity. }
    rewrite T1, T2. destruct (br_failed b); cbn [negb]; rewrite ?andb_false_r, ?andb_true_r; cbn [orb]; [reflexivity|].
    destruct (Pos.eqb_spec (wb_node b) nid) as [En|Nn]; cbn [orb].
    + rewrite En, Am. symmetry. apply Pos.eqb_eq. exact En.
    + destruct (amem (wb_node b) (w_nodes w)); [symmetry; apply Pos.eqb_neq; exact Nn|reflexivity].
  - apply IH. exact ND'.
Qed.

(** * A pod is added to a node by the snapshot iff it occupies it *)

Lemma snap_task_occupies w p nid :
  NoDup (map wb_pod (w_brs w)) -> amem nid (w_nodes w) = true ->
  filed_under nid (snap_task false w p) && active_used (t_status (fst (snap_task false w p))) = occupies_on w p nid.
Proof.
  intros ND Am. unfold snap_task, occupies_on, filed_under.
  rewrite (br_for_snapshot w _ ND), (live_request_spec w _ nid ND Am), Am.
  cbn [fst snd t_status set_status].
  destruct (wp_node p) as [m|]; cbn [is_some option_map].
  - destruct (wp_phase p), (wp_del p), (is_some (live_of w (wp_id p))), (wp_gated p), (Pos.eqb m nid); reflexivity.
  - destruct (live_of w (wp_id p)) as [b|]; cbn [is_some option_map].
    + destruct (wp_phase p), (wp_del p), (wp_gated p), (Pos.eqb (wb_node b) nid); reflexivity.
    + destruct (wp_phase p), (wp_del p), (wp_gated p); reflexivity.
Qed.

(** accounting class of a status: terminating, nominated, or holding *)
Definition norm (t : task) : task :=
  set_status t (match t_status t with Releasing => Releasing | Pipelined => Pipelined | _ => Running end) (t_groups t).

Lemma snap_task_occupant w p nid :
  NoDup (map wb_pod (w_brs w)) -> occupies_on w p nid = true ->
  norm (fst (snap_task false w p)) = occupant w p.
Proof.
  intros ND O. unfold snap_task, occupant, held_groups, norm. rewrite (br_for_snapshot w _ ND).
  fold (live_of w (wp_id p)). cbn [fst t_status t_groups set_status].
  unfold occupies_on in O. apply andb_true_iff in O as [O _]. apply andb_true_iff in O as [O _].
  unfold set_status. cbn [t_id t_job t_kind t_req t_ndev t_gmem t_resv t_besteffort].
  destruct (wp_phase p); try discriminate O;
    destruct (wp_del p), (wp_node p), (live_of w (wp_id p)), (wp_gated p); reflexivity.
Qed.

Lemma snap_tasks_occupants w nid :
  NoDup (map wb_pod (w_brs w)) -> amem nid (w_nodes w) = true ->
  map norm (snap_tasks_on false w nid) = occupants w nid.
Proof.
  intros ND Am. unfold snap_tasks_on, occupants.
  induction (w_pods w) as [|p ps IH]; [reflexivity|].
  cbn [map filter]. pose proof (snap_task_occupies w p nid ND Am) as C.
  destruct (filed_under nid (snap_task false w p)) eqn:FU; cbn [map filter].
  - destruct (active_used (t_status (fst (snap_task false w p)))) eqn:AU; cbn [andb] in C; rewrite <- C.
    + cbn [map]. rewrite IH. f_equal. apply (snap_task_occupant w p nid ND). rewrite <- C. reflexivity.
    + exact IH.
  - cbn [andb] in C. rewrite <- C. exact IH.
Qed.

(** a task the snapshot builds is never merely nominated, nor are the occupants *)
Lemma occupants_not_pipelined w nid : Forall (fun t => is_st Pipelined t = false) (occupants w nid).
Proof.
  unfold occupants. apply Forall_forall. intros t I. apply in_map_iff in I as (p & <- & _).
  unfold occupant, is_st. cbn [t_status set_status]. destruct (wp_del p); reflexivity.
Qed.

(** * The accounting class is all the books depend on *)

Lemma charge_norm t : charge (norm t) = charge t.
Proof. reflexivity. Qed.

Lemma d_idle_norm t r : d_idle (norm t) r = d_idle t r.
Proof. unfold d_idle. rewrite charge_norm. unfold norm. cbn [t_status set_status]. destruct (t_status t); reflexivity. Qed.
Lemma d_rel_norm t r : d_rel (norm t) r = d_rel t r.
Proof. unfold d_rel. rewrite charge_norm. unfold norm. cbn [t_status set_status]. destruct (t_status t); reflexivity. Qed.
Lemma gd_alloc_norm t d : gd_alloc (norm t) d = gd_alloc t d.
Proof. unfold gd_alloc, norm. cbn [t_status set_status]. destruct (t_status t); reflexivity. Qed.
Lemma gd_rel_norm t d : gd_rel (norm t) d = gd_rel t d.
Proof. unfold gd_rel, norm. cbn [t_status set_status]. destruct (t_status t); reflexivity. Qed.
Lemma occurrences_norm g t : occurrences g (norm t) = occurrences g t.
Proof. reflexivity. Qed.
Lemma gmem_norm t : t_gmem (norm t) = t_gmem t.
Proof. reflexivity. Qed.

Lemma spec_norm a ts :
  spec_used (map norm ts) = spec_used ts /\ spec_idle a (map norm ts) = spec_idle a ts
  /\ spec_rel (map norm ts) = spec_rel ts
  /\ forall g, spec_gused g (map norm ts) = spec_gused g ts /\ spec_galloc g (map norm ts) = spec_galloc g ts
               /\ spec_grel g (map norm ts) = spec_grel g ts.
Proof.
  induction ts as [|t ts (U & I & R & G)].
  { split; [reflexivity|]. split; [reflexivity|]. split; [reflexivity|]. intros g. repeat split. }
  cbn [map]. rewrite !spec_used_cons, !spec_idle_cons, !spec_rel_cons, U, I, R, charge_norm, d_idle_norm, d_rel_norm.
  split; [reflexivity|]. split; [reflexivity|]. split; [reflexivity|].
  intros g. destruct (G g) as (Gu & Ga & Gr).
  rewrite !spec_gused_cons, !spec_galloc_cons, !spec_grel_cons, Gu, Ga, Gr, !occurrences_norm, !gmem_norm,
    gd_alloc_norm, gd_rel_norm. repeat split.
Qed.

Lemma agrees_norm n ts : agrees n ts -> agrees n (map norm ts).
Proof.
  intros (U & I & R & G). destruct (spec_norm (n_alloc n) ts) as (Eu & Ei & Er & Eg).
  unfold agrees. rewrite Eu, Ei, Er. split; [exact U|]. split; [exact I|]. split; [exact R|].
  intros g. destruct (Eg g) as (a & b & c). destruct (G g) as (x & y & z). rewrite a, b, c. repeat split; assumption.
Qed.

Lemma agrees_gpu_norm n ts : agrees_gpu n ts -> agrees_gpu n (map norm ts).
Proof.
  intros (I & R). destruct (spec_norm (n_alloc n) ts) as (_ & Ei & Er & _).
  unfold agrees_gpu. rewrite Ei, Er. split; assumption.
Qed.

(** * Adding the snapshot's tasks to an empty node *)

Lemma add_all_run ts : forall n, add_all n ts = run n (map OAdd ts).
Proof.
  unfold add_all. induction ts as [|t ts IH]; intros n; [reflexivity|].
  cbn [fold_left map run apply_op]. destruct (add_task n t); apply IH.
Qed.

Lemma add_task_alloc n t n' : add_task n t = Ok n' -> n_alloc n' = n_alloc n.
Proof.
  intros H. destruct (add_task_inv _ _ _ H) as [_ ->].
  destruct (add_resources_spec (set_pods n (aset (t_id t) t (n_pods n))) t) as [(Fa & _) _]. exact Fa.
Qed.

Lemma add_all_alloc ts : forall n, n_alloc (add_all n ts) = n_alloc n.
Proof.
  unfold add_all. induction ts as [|t ts IH]; intros n; [reflexivity|].
  cbn [fold_left]. destruct (add_task n t) eqn:E; rewrite IH; [exact (add_task_alloc _ _ _ E)|reflexivity].
Qed.

Lemma add_all_perm ts : forall n,
  NoDup (map t_id ts) -> (forall t, In t ts -> alookup (t_id t) (n_pods n) = None) ->
  Permutation (tasks_of (add_all n ts)) (ts ++ tasks_of n).
Proof.
  unfold add_all. induction ts as [|t ts IH]; intros n ND Hn; [apply Permutation_refl|].
  cbn [map] in ND. inversion ND as [|x l Nin ND']; subst. cbn [fold_left].
  pose proof (add_task_ok n t (Hn t (or_introl eq_refl))) as Ok1. rewrite Ok1.
  set (n1 := add_resources (set_pods n (aset (t_id t) t (n_pods n))) t) in *.
  eapply Permutation_trans; [apply IH; [exact ND'|]|].
  - intros t' I. unfold n1. rewrite n_pods_add_resources. cbn [n_pods set_pods].
    rewrite alookup_aset_other; [apply Hn; now right|].
    intros E. apply Nin. rewrite <- E. apply in_map. exact I.
  - eapply Permutation_trans; [apply Permutation_app_head, (tasks_of_add _ _ _ Ok1)|].
    cbn [app]. apply Permutation_sym, Permutation_middle.
Qed.

Lemma snap_tasks_ids drop w nid x :
  In x (map t_id (snap_tasks_on drop w nid)) -> In x (map wp_id (w_pods w)).
Proof.
  unfold snap_tasks_on. induction (w_pods w) as [|p ps IH]; [intros []|].
  cbn [map filter]. destruct (filed_under nid (snap_task drop w p)); cbn [map filter].
  - destruct (active_used (t_status (fst (snap_task drop w p)))); cbn [map].
    + intros [E|I]; [left; exact E|right; apply IH; exact I].
    + intros I. right. apply IH. exact I.
  - intros I. right. apply IH. exact I.
Qed.

Lemma snap_tasks_nodup drop w nid :
  NoDup (map wp_id (w_pods w)) -> NoDup (map t_id (snap_tasks_on drop w nid)).
Proof.
  pose proof (snap_tasks_ids drop w nid) as Ids. revert Ids.
  unfold snap_tasks_on. induction (w_pods w) as [|p ps IH]; intros Ids ND; [constructor|].
  cbn [map] in ND. inversion ND as [|x l Nin ND']; subst.
  assert (Ids' : forall x, In x (map t_id (filter (fun t => active_used (t_status t))
                     (map fst (filter (filed_under nid) (map (snap_task drop w) ps))))) -> In x (map wp_id ps)).
  { clear. intros x. induction ps as [|q qs IHq]; [intros []|].
    cbn [map filter]. destruct (filed_under nid (snap_task drop w q)); cbn [map filter].
    - destruct (active_used (t_status (fst (snap_task drop w q)))); cbn [map].
      + intros [E|I]; [left; exact E|right; apply IHq; exact I].
      + intros I. right. apply IHq. exact I.
    - intros I. right. apply IHq. exact I. }
  cbn [map filter]. destruct (filed_under nid (snap_task drop w p)); cbn [map filter]; [|apply IH; assumption].
  destruct (active_used (t_status (fst (snap_task drop w p)))); cbn [map]; [|apply IH; assumption].
  constructor; [|apply IH; assumption].
  intros I. apply Nin. apply Ids'. exact I.
Qed.

Lemma fresh_exact n : fresh n -> Exact n.
Proof.
  intros F. pose proof (fresh_books n F) as B. destruct F as (P&_&_&_&I&_&R).
  split; [exact B|]. unfold agrees_gpu, tasks_of. rewrite P, I, R. cbn [map].
  split; [split|constructor]; unfold spec_idle, spec_rel; cbn; lia.
Qed.

(** the node the snapshot builds: its books are [Books], it holds exactly the tasks filed under it *)
Lemma snap_node_holds drop w nid n0 :
  fresh n0 -> NoDup (map wp_id (w_pods w)) ->
  let n := snap_node drop w nid n0 in
  Books n /\ Permutation (tasks_of n) (snap_tasks_on drop w nid) /\ n_alloc n = n_alloc n0.
Proof.
  intros F ND n. unfold n, snap_node. split; [|split].
  - rewrite add_all_run. apply node_books, fresh_books, F.
  - eapply Permutation_trans; [apply add_all_perm|].
    + apply snap_tasks_nodup. exact ND.
    + intros t _. destruct F as (P & _). rewrite P. reflexivity.
    + destruct F as (P & _). unfold tasks_of. rewrite P. cbn [map]. rewrite app_nil_r. apply Permutation_refl.
  - apply add_all_alloc.
Qed.

(** * Main theorem: the books of every snapshot node are the recomputation from its occupants *)

Theorem snapshot_books w nid n0 :
  WorldWf w -> alookup nid (w_nodes w) = Some n0 ->
  agrees (snap_node false w nid n0) (occupants w nid).
Proof.
  intros (NDp & NDb & Fr) A.
  assert (F : fresh n0) by (apply alookup_in in A; rewrite Forall_forall in Fr; exact (Fr _ A)).
  destruct (snap_node_holds false w nid n0 F NDp) as ((Ag & _) & P & _).
  rewrite <- (snap_tasks_occupants w nid NDb (alookup_amem _ _ _ A)).
  apply agrees_norm. eapply agrees_perm; [exact P|exact Ag].
Qed.

Lemma filter_all {A} (p : A -> bool) l : Forall (fun x => p x = true) l -> filter p l = l.
Proof.
  induction l as [|x l IH]; intros F; [reflexivity|]. inversion F; subst. cbn [filter].
  rewrite H1, (IH H2). reflexivity.
Qed.

Lemma spec_idle_occupants a w nid :
  spec_idle a (occupants w nid) = rsub a (rsum (map charge (occupants w nid))).
Proof.
  unfold spec_idle. rewrite filter_all; [reflexivity|].
  eapply Forall_impl; [|apply occupants_not_pipelined]. cbn. intros t ->. reflexivity.
Qed.

(** idle + what the occupants ask for = allocatable (CPU, memory, pod slots, MIG, extended resources) *)
Theorem snapshot_idle_plus_occupants w nid n0 :
  WorldWf w -> alookup nid (w_nodes w) = Some n0 ->
  let n := snap_node false w nid n0 in
  eq_nogpu (radd (n_idle n) (rsum (map charge (occupants w nid)))) (n_alloc n0).
Proof.
  intros W A n. destruct (snapshot_books w nid n0 W A) as (_ & I & _).
  fold n in I. rewrite spec_idle_occupants in I.
  destruct (snap_node_holds false w nid n0 (world_fresh w nid n0 W A) (proj1 W)) as (_ & _ & Al).
  fold n in Al. rewrite Al in I.
  destruct I as (a&b&c&d&e). unfold eq_nogpu. cbn [radd rsub cpu mem pods mig ext] in *. repeat split; lia.
Qed.

(** an occupying pod is held by its node, with a status the node accounts and its whole request charged *)
Theorem occupying_pod_is_charged w p nid n0 :
  WorldWf w -> alookup nid (w_nodes w) = Some n0 -> In p (w_pods w) -> occupies_on w p nid = true ->
  exists t, In t (tasks_of (snap_node false w nid n0)) /\ t_id t = wp_id p
            /\ active_used (t_status t) = true /\ charge t = charge (wp_task p).
Proof.
  intros W A I O. pose proof W as (NDp & NDb & _).
  pose proof (snap_task_occupies w p nid NDb (alookup_amem _ _ _ A)) as C. rewrite O in C.
  apply andb_true_iff in C as [FU AU].
  exists (fst (snap_task false w p)). split; [|split; [reflexivity|split; [exact AU|reflexivity]]].
  destruct (snap_node_holds false w nid n0 (world_fresh w nid n0 W A) NDp) as (_ & P & _).
  eapply Permutation_in; [apply Permutation_sym, P|].
  unfold snap_tasks_on. apply filter_In. split; [|exact AU].
  apply in_map. apply filter_In. split; [|exact FU]. apply in_map. exact I.
Qed.

(** ... and is therefore never a pending pod the next cycle would place again *)
Theorem occupying_pod_is_not_schedulable w p nid :
  NoDup (map wb_pod (w_brs w)) -> amem nid (w_nodes w) = true -> occupies_on w p nid = true ->
  t_status (fst (snap_task false w p)) <> Pending /\ t_status (fst (snap_task false w p)) <> Gated.
Proof.
  intros ND Am O. pose proof (snap_task_occupies w p nid ND Am) as C. rewrite O in C.
  apply andb_true_iff in C as [_ AU]. split; intros E; rewrite E in AU; discriminate AU.
Qed.

(** * Whole GPUs, for worlds without shared-GPU pods *)

Definition NoSharing (w : world) : Prop := Forall (fun p => is_shared (wp_task p) = false) (w_pods w).

Lemma op_tasks_adds ts : op_tasks (map OAdd ts) = ts.
Proof. unfold op_tasks. induction ts as [|t ts IH]; [reflexivity|]. cbn [map flat_map app]. rewrite IH. reflexivity. Qed.

Lemma snap_tasks_in drop w nid t :
  In t (snap_tasks_on drop w nid) -> exists p, In p (w_pods w) /\ t = fst (snap_task drop w p).
Proof.
  unfold snap_tasks_on. intros I. apply filter_In in I as [I _]. apply in_map_iff in I as ((t', nd) & E & I).
  apply filter_In in I as [I _]. apply in_map_iff in I as (p & E' & I). exists p. split; [exact I|].
  rewrite E'. cbn [fst] in E. symmetry. exact E.
Qed.

Theorem snapshot_idle_plus_occupants_gpu w nid n0 :
  WorldWf w -> NoSharing w -> alookup nid (w_nodes w) = Some n0 ->
  radd (n_idle (snap_node false w nid n0)) (rsum (map charge (occupants w nid))) = n_alloc n0.
Proof.
  intros W NS A. pose proof W as (NDp & NDb & _).
  pose proof (world_fresh w nid n0 W A) as F.
  apply eq_nogpu_full; [apply snapshot_idle_plus_occupants; assumption|].
  assert (Ex : Exact (snap_node false w nid n0)).
  { unfold snap_node. rewrite add_all_run. apply Exact_run; [apply fresh_exact, F|].
    rewrite op_tasks_adds. apply Forall_forall. intros t I.
    apply snap_tasks_in in I as (p & I & ->). unfold NoSharing in NS. rewrite Forall_forall in NS.
    unfold nonshared, snap_task, is_shared. cbn [fst set_status t_kind]. exact (NS p I). }
  destruct Ex as (_ & Gp & _).
  destruct (snap_node_holds false w nid n0 F NDp) as (_ & P & Al).
  apply (agrees_gpu_perm _ _ _ P) in Gp. apply agrees_gpu_norm in Gp.
  rewrite (snap_tasks_occupants w nid NDb (alookup_amem _ _ _ A)) in Gp.
  destruct Gp as (Gi & _). rewrite spec_idle_occupants, Al in Gi.
  cbn [radd rsub gpu] in *. lia.
Qed.

(** * Binds decided on the snapshot *)

(** If the occupants of a node fit on it, a bind that passes the scheduler's guard on the snapshot node leaves
    occupants + the bound pod within the allocatable CPU, memory, pod slots, MIG and extended resources. *)
Theorem bind_on_snapshot_within_allocatable w nid n0 t gs :
  WorldWf w -> alookup nid (w_nodes w) = Some n0 -> wf_req t ->
  let n := snap_node false w nid n0 in
  NonNegIdle n -> bind_guard n t gs = true ->
  let d := radd (rsum (map charge (occupants w nid))) (charge t) in
  cpu d <= cpu (n_alloc n0) /\ mem d <= mem (n_alloc n0) /\ pods d <= pods (n_alloc n0)
  /\ mig d <= mig (n_alloc n0) /\ ext d <= ext (n_alloc n0).
Proof.
  intros W A Wt n NN G d.
  destruct (bind_guard_keeps_nn n t gs Wt NN G) as (a&b&c&e&f).
  destruct (snapshot_idle_plus_occupants w nid n0 W A) as (a'&b'&c'&e'&f'). fold n in a', b', c', e', f'.
  unfold d. cbn [radd rsub cpu mem pods mig ext] in *. repeat split; lia.
Qed.

(** ... and, without shared-GPU pods, within the allocatable whole GPUs *)
Theorem bind_on_snapshot_within_allocatable_gpu w nid n0 t gs :
  WorldWf w -> NoSharing w -> alookup nid (w_nodes w) = Some n0 -> wf_req t ->
  is_shared t = false -> t_besteffort t = false ->
  bind_guard (snap_node false w nid n0) t gs = true ->
  gpu (rsum (map charge (occupants w nid))) + gpu (charge t) <= gpu (n_alloc n0).
Proof.
  intros W NS A (_ & Hg & _) S BE G.
  pose proof (snapshot_idle_plus_occupants_gpu w nid n0 W NS A) as E.
  apply (f_equal gpu) in E. cbn [radd gpu] in E.
  unfold bind_guard in G. rewrite S in G. unfold is_task_allocatable in G. rewrite BE in G.
  unfold allocatable_on in G.
  assert (L : gpu (t_req t) <= gpu (n_idle (snap_node false w nid n0))).
  { unfold is_shared in S. destruct (t_kind t); try discriminate S;
      unfold rle in G; repeat (apply andb_true_iff in G as [G ?]);
      match goal with H : (gpu _ <=? gpu _) = true |- _ => apply Z.leb_le in H; exact H end. }
  assert (C : gpu (charge t) <= gpu (t_req t)).
  { unfold charge. rewrite S. cbn [orb]. destruct (t_resv t); cbn [with_gpu gpu]; lia. }
  lia.
Qed.

(** * Whole cycles on the snapshot (Proofs/CycleSafe.v) *)

Lemma wf_set_status t s gs : wf_req t -> wf_req (set_status t s gs).
Proof. unfold wf_req, set_status, is_shared. cbn. auto. Qed.

Lemma snap_tis_wf w : ReqsWf w -> TasksWf (snap_tis w).
Proof.
  unfold ReqsWf, TasksWf, snap_tis. intros F. apply Forall_forall. intros ti I.
  apply in_map_iff in I as (p & <- & I). rewrite Forall_forall in F. cbn [ti_task].
  unfold snap_task. cbn [fst]. apply wf_set_status, F, I.
Qed.

Lemma snapshot_nodes_wf w : WorldWf w -> ReqsWf w -> NodesWf (snapshot w).
Proof.
  intros W R. pose proof W as (NDp & _ & Fr). unfold NodesWf, snapshot, snapshot_gen.
  apply Forall_forall. intros kn I. apply in_map_iff in I as ((nid, n0) & <- & I). cbn [fst snd].
  rewrite Forall_forall in Fr. pose proof (Fr _ I) as F. cbn [snd] in F.
  destruct (snap_node_holds false w nid n0 F NDp) as ((_ & WP) & P & _).
  split; [|exact WP].
  eapply Permutation_Forall; [apply Permutation_sym, P|].
  apply Forall_forall. intros t It. apply snap_tasks_in in It as (p & Ip & ->).
  unfold ReqsWf in R. rewrite Forall_forall in R. unfold snap_task. cbn [fst]. apply wf_set_status, R, Ip.
Qed.

(** If the occupants of every node fit, then whatever Bind / Evict / TaskPipelined calls a cycle makes on the
    snapshot, as long as each passes the guard of the replay, no node ends with a negative idle amount: occupants
    plus everything bound stays within allocatable (Proofs/Admissible.v). *)
Theorem cycle_on_snapshot_never_negative w cs ns' :
  WorldWf w -> ReqsWf w -> NodesNN (snapshot w) ->
  all_evict_occupying (snap_tis w) (snapshot w) cs = true ->
  replay (snap_tis w) (snapshot w) cs = Some (ns', true) -> NodesNN ns'.
Proof.
  intros W R NN EO H.
  exact (cycle_idle_never_negative (snap_tis w) cs (snapshot w) ns' (snap_tis_wf w R) (snapshot_nodes_wf w W R) NN EO H).
Qed.

(** * The variant that leaves served requests out of the snapshot (seeded/C01-4, seeded/C12-3) *)

(** README world: node 1 has one GPU; pod 1 was bound to it, its request is Succeeded, the pod update
    (spec.nodeName) has not reached the scheduler; pod 2 wants a GPU. *)
Definition rd_alloc : res := mkRes 16000 68719476736 1 110 0 0.
Definition rd_node : node := mkNode rd_alloc rd_alloc rzero rzero 1 100 [] [] [] [] [].
Definition rd_task (id : positive) : task :=
  mkTask id id Pending KRegular (mkRes 1000 1073741824 1 1 0 0) 1 0 [] false false.
Definition rd_world : world :=
  mkW [(1%positive, rd_node)]
      [mkWP (rd_task 1) None PhPending false false; mkWP (rd_task 2) None PhPending false false]
      [mkWB 1 1 [] BSucceeded None 0 false].

Lemma rd_world_wf : WorldWf rd_world /\ ReqsWf rd_world /\ NoSharing rd_world.
Proof.
  split; [|split].
  - split; [|split].
    + cbn. repeat constructor; cbn; intuition discriminate.
    + cbn. repeat constructor; cbn; intuition discriminate.
    + repeat constructor.
  - repeat constructor; cbn; try lia; intros; try discriminate.
  - repeat constructor.
Qed.

Definition guard_of (r : option (amap node * bool)) : option bool :=
  match r with Some (_, ok) => Some ok | None => None end.

(** With the variant, pod 1 is a plain pending pod again, node 1 looks idle, the bind of pod 2 to node 1 passes
    the guard of the replay and the node is oversubscribed: its occupant (pod 1) and pod 2 ask for two GPUs of
    one.  The snapshot of the code has pod 1 Binding on node 1 and refuses the same bind. *)
Theorem drop_succeeded_refuted :
  exists (w : world) (nid : positive) (n0 : node) (p : wpod),
    WorldWf w /\ ReqsWf w /\ alookup nid (w_nodes w) = Some n0 /\ In p (w_pods w)
    (* the world: pod 1 occupies the node *)
    /\ map t_id (occupants w nid) = [1%positive]
    (* the variant *)
    /\ snap_pods true w = [(1%positive, (Pending, None)); (2%positive, (Pending, None))]
    /\ n_idle (snap_node true w nid n0) = n_alloc n0
    /\ guard_of (replay (snap_tis w) (snapshot_gen true w) [CBind (wp_id p) nid []]) = Some true
    /\ gpu (n_alloc n0) < gpu (rsum (map charge (occupants w nid))) + gpu (charge (wp_task p))
    (* the code *)
    /\ snap_pods false w = [(1%positive, (Binding, Some 1%positive)); (2%positive, (Pending, None))]
    /\ guard_of (replay (snap_tis w) (snapshot w) [CBind (wp_id p) nid []]) = Some false.
Proof.
  exists rd_world, 1%positive, rd_node, (mkWP (rd_task 2) None PhPending false false).
  destruct rd_world_wf as (W & R & _).
  split; [exact W|]. split; [exact R|]. split; [reflexivity|]. split; [right; left; reflexivity|].
  repeat split; vm_compute; reflexivity.
Qed.

(** non-vacuity of the main theorems on the same world: the code's snapshot of node 1 has no idle GPU *)
Theorem snapshot_books_nonvacuous :
  WorldWf rd_world /\ NoSharing rd_world
  /\ gpu (n_idle (snap_node false rd_world 1 rd_node)) = 0
  /\ gpu (rsum (map charge (occupants rd_world 1))) = 1
  /\ NodesNN (snapshot rd_world).
Proof.
  destruct rd_world_wf as (W & _ & NS). split; [exact W|]. split; [exact NS|].
  split; [vm_compute; reflexivity|]. split; [vm_compute; reflexivity|].
  repeat constructor; vm_compute; discriminate.
Qed.
