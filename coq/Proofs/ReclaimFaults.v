(** Proofs for Model/ReclaimFaults.v: reclaim / preempt progress under Evict
    failures (property C05). *)
From Coq Require Import List ZArith PArith Bool Lia.
From KaiV Require Import Model.Progress Model.Signatures Model.ReclaimFaults Proofs.Progress.
Import ListNotations.
Open Scope Z_scope.

(** the evictions of a commit: one is accepted or one is refused *)
Lemma commit_evictions_accounted f p ev k :
  ev <> [] ->
  ec_accepted (commit_evictions f p k ev) <> []
  \/ existsb (refused_for p) (ec_calls (commit_evictions f p k ev)) = true.
Proof.
  destruct ev as [|v r]; intros H; [contradiction|]. cbn [commit_evictions].
  destruct (f k (rj_id v) p); cbn [ec_accepted ec_calls existsb refused_for].
  - right. rewrite Pos.eqb_refl. reflexivity.
  - left. discriminate.
Qed.

Lemma commit_evictions_no_faults p : forall ev k,
  ec_accepted (commit_evictions no_evict_faults p k ev) = ev
  /\ ec_refused (commit_evictions no_evict_faults p k ev) = []
  /\ ec_err (commit_evictions no_evict_faults p k ev) = false.
Proof.
  induction ev as [|v r IH]; intros k; cbn [commit_evictions]; [repeat split|].
  unfold no_evict_faults at 1. cbn [ec_accepted ec_refused ec_err].
  destruct (IH (S k)) as (A & R & E). rewrite A, R. repeat split. destruct r; [reflexivity|exact E].
Qed.

(** only Evict calls in a commit's evictions: none of them is a nomination *)
Lemma commit_evictions_no_pipe f p q : forall ev k,
  existsb (pipe_of q) (ec_calls (commit_evictions f p k ev)) = false.
Proof.
  induction ev as [|v r IH]; intros k; cbn [commit_evictions]; [reflexivity|].
  destruct (f k (rj_id v) p); cbn [ec_calls existsb pipe_of]; apply IH.
Qed.

(** the evictions of a commit are requested for its preemptor only *)
Lemma commit_evictions_own f p q : forall ev k,
  q <> p -> existsb (refused_for q) (ec_calls (commit_evictions f p k ev)) = false.
Proof.
  induction ev as [|v r IH]; intros k N; cbn [commit_evictions]; [reflexivity|].
  destruct (f k (rj_id v) p); cbn [ec_calls existsb refused_for]; rewrite ?(IH (S k) N); [|reflexivity].
  destruct (Pos.eqb p q) eqn:E; [apply Pos.eqb_eq in E; congruence|reflexivity].
Qed.

Section FaultyProofs.
  Variable vfilter : pjob -> rjob -> bool.
  Variable sfilter : vstate -> pjob -> list rjob -> bool.
  Variable valid : vstate -> pjob -> list rjob -> bool.
  Variable ahead : vstate -> pjob -> list rjob -> nat.
  Variable use_sigs : bool.
  Variable pending : pjob -> list sreq.
  Variable can_reclaim : vstate -> pjob -> bool.
  Variable np_gate : vstate -> pjob -> bool.
  Variable f : eoracle.

  Notation solve_f := (solve_and_commit_f sfilter valid ahead f).
  Notation rstep c := (reclaim_step_f vfilter sfilter valid ahead use_sigs pending can_reclaim c f).
  Notation pstep c := (preempt_step_f vfilter sfilter valid ahead use_sigs pending np_gate c f).

  (** what a job is owed after its step *)
  Definition accounted (s : rfstate) (p : pjob) : Prop :=
    exists cm, In cm (vs_log (rf_st s)) /\ cm_job cm = pj_id p
               /\ nominated (rf_calls s) (pj_id p) = true
               /\ (cm_evicted cm <> [] \/ evict_refused_for (rf_calls s) (pj_id p) = true).

  Lemma solve_f_progress st p k pre v post :
    scenario_good sfilter valid ahead st p (pre ++ [v]) v ->
    exists st' c nid cm, solve_f st p k (pre ++ v :: post) = Some (st', c, nid)
                         /\ vs_log st' = cm :: vs_log st /\ cm_job cm = pj_id p
                         /\ (cm_evicted cm <> [] \/ existsb (refused_for (pj_id p)) (ec_calls c) = true).
  Proof.
    intros G. unfold solve_and_commit_f.
    destruct (scenarios_progress sfilter valid ahead st p pre [] v post G) as ([[ev nid] ns] & E). rewrite E.
    do 4 eexists. split; [reflexivity|]. cbn [vs_log cm_job cm_evicted]. split; [reflexivity|]. split; [reflexivity|].
    apply scenarios_evicts in E.
    destruct (commit_evictions_accounted f (pj_id p) ev k E) as [A|R]; [left|right; exact R].
    destruct (ec_accepted _); [contradiction|discriminate].
  Qed.

  Lemma committed_accounted c_on s p st' c nid cm :
    vs_log st' = cm :: vs_log (rf_st s) -> cm_job cm = pj_id p ->
    (cm_evicted cm <> [] \/ existsb (refused_for (pj_id p)) (ec_calls c) = true) ->
    accounted (committed c_on s p (st', c, nid)) p.
  Proof.
    intros L J D. exists cm. unfold committed. cbn [rf_st rf_calls]. split; [rewrite L; left; reflexivity|].
    split; [exact J|]. unfold nominated, evict_refused_for. rewrite !existsb_app. cbn [existsb pipe_of].
    rewrite Pos.eqb_refl. split; [rewrite !orb_true_r; reflexivity|].
    destruct D as [D|D]; [left; exact D|right]. rewrite D. rewrite orb_true_r. reflexivity.
  Qed.

  Lemma reclaim_step_f_progress c_on s p pre v post :
    rf_stopped s = false ->
    can_reclaim (rf_st s) p = true -> skipped use_sigs pending (rf_reps s) p = false ->
    reclaim_victims vfilter (rf_st s) p = pre ++ v :: post ->
    scenario_good sfilter valid ahead (rf_st s) p (pre ++ [v]) v ->
    accounted (rstep c_on s p) p.
  Proof.
    intros St C S V G. unfold reclaim_step_f. rewrite St, C, S, V.
    destruct (solve_f_progress (rf_st s) p (rf_k s) pre v post G) as (st' & c & nid & cm & -> & L & J & D).
    eapply committed_accounted; eassumption.
  Qed.

  Lemma preempt_step_f_progress c_on s p pre v post :
    rf_stopped s = false ->
    np_gate (rf_st s) p = true -> skipped use_sigs pending (rf_reps s) p = false ->
    preempt_victims vfilter (rf_st s) p = pre ++ v :: post ->
    scenario_good sfilter valid ahead (rf_st s) p (pre ++ [v]) v ->
    accounted (pstep c_on s p) p.
  Proof.
    intros St C S V G. unfold preempt_step_f. rewrite St, S, C, V.
    destruct (solve_f_progress (rf_st s) p (rf_k s) pre v post G) as (st' & c & nid & cm & -> & L & J & D).
    eapply committed_accounted; eassumption.
  Qed.

  (** commits are never withdrawn and calls are never forgotten *)
  Definition extends (s s' : rfstate) : Prop :=
    incl (vs_log (rf_st s)) (vs_log (rf_st s')) /\ exists r, rf_calls s' = rf_calls s ++ r.

  Lemma extends_refl s : extends s s.
  Proof. split; [apply incl_refl|exists []; symmetry; apply app_nil_r]. Qed.
  Lemma extends_trans a b c : extends a b -> extends b c -> extends a c.
  Proof.
    intros [I1 (r1 & E1)] [I2 (r2 & E2)]. split; [eapply incl_tran; eassumption|].
    exists (r1 ++ r2). rewrite E2, E1, app_assoc. reflexivity.
  Qed.

  Lemma solve_f_extends c_on s p vs r : solve_f (rf_st s) p (rf_k s) vs = Some r -> extends s (committed c_on s p r).
  Proof.
    unfold solve_and_commit_f. destruct (scenarios _ _ _ _ _ _ _) as [[[ev nid] ns]|]; [|discriminate].
    intros E. injection E as <-. unfold committed. split; cbn [rf_st rf_calls vs_log].
    - intros x I. right. exact I.
    - eexists. reflexivity.
  Qed.

  Lemma reclaim_step_f_extends c_on s p : extends s (rstep c_on s p).
  Proof.
    unfold reclaim_step_f. destruct (rf_stopped s); [apply extends_refl|].
    destruct (can_reclaim _ _); [|apply extends_refl].
    destruct (skipped _ _ _ _); [apply extends_refl|].
    destruct (solve_f _ _ _ _) as [r|] eqn:E; [eapply solve_f_extends, E|].
    split; cbn [rf_st rf_calls]; [apply incl_refl|exists []; symmetry; apply app_nil_r].
  Qed.
  Lemma preempt_step_f_extends c_on s p : extends s (pstep c_on s p).
  Proof.
    unfold preempt_step_f. destruct (rf_stopped s); [apply extends_refl|].
    destruct (skipped _ _ _ _); [apply extends_refl|].
    destruct (np_gate _ _).
    - destruct (solve_f _ _ _ _) as [r|] eqn:E; [eapply solve_f_extends, E|].
      split; cbn [rf_st rf_calls]; [apply incl_refl|exists []; symmetry; apply app_nil_r].
    - split; cbn [rf_st rf_calls]; [apply incl_refl|exists []; symmetry; apply app_nil_r].
  Qed.

  Lemma fold_extends (stepf : rfstate -> pjob -> rfstate) :
    (forall s p, extends s (stepf s p)) -> forall ps s, extends s (fold_left stepf ps s).
  Proof.
    intros H. induction ps as [|p r IH]; intros s; cbn [fold_left]; [apply extends_refl|].
    eapply extends_trans; [apply H|apply IH].
  Qed.

  Lemma accounted_extends s s' p : extends s s' -> accounted s p -> accounted s' p.
  Proof.
    intros [I (r & E)] (cm & In1 & J & N & D). exists cm. split; [apply I, In1|]. split; [exact J|].
    unfold nominated, evict_refused_for in *. rewrite E, !existsb_app, N. split; [reflexivity|].
    destruct D as [D|D]; [left; exact D|right; rewrite D; reflexivity].
  Qed.

  (** the loop as it is never leaves Execute early *)
  Lemma committed_not_stopped s p r : rf_stopped (committed true s p r) = false.
  Proof. destruct r as [[st' c] nid]. unfold committed. cbn [rf_stopped negb]. apply andb_false_r. Qed.

  Lemma reclaim_step_f_carries_on s p : rf_stopped s = false -> rf_stopped (rstep true s p) = false.
  Proof.
    intros St. unfold reclaim_step_f. rewrite St.
    destruct (can_reclaim _ _); [|exact St]. destruct (skipped _ _ _ _); [exact St|].
    destruct (solve_f _ _ _ _) as [r|]; [apply committed_not_stopped|reflexivity].
  Qed.
  Lemma preempt_step_f_carries_on s p : rf_stopped s = false -> rf_stopped (pstep true s p) = false.
  Proof.
    intros St. unfold preempt_step_f. rewrite St.
    destruct (skipped _ _ _ _); [exact St|].
    destruct (if np_gate _ _ then _ else _) as [r|]; [apply committed_not_stopped|reflexivity].
  Qed.
  Lemma fold_carries_on (stepf : rfstate -> pjob -> rfstate) :
    (forall s p, rf_stopped s = false -> rf_stopped (stepf s p) = false) ->
    forall ps s, rf_stopped s = false -> rf_stopped (fold_left stepf ps s) = false.
  Proof.
    intros H. induction ps as [|p r IH]; intros s St; cbn [fold_left]; [exact St|]. apply IH, H, St.
  Qed.

  Theorem reclaim_action_f_progress st0 before p after pre v post :
    let s := fold_left (rstep true) before (rf_init st0) in
    can_reclaim (rf_st s) p = true -> skipped use_sigs pending (rf_reps s) p = false ->
    reclaim_victims vfilter (rf_st s) p = pre ++ v :: post ->
    scenario_good sfilter valid ahead (rf_st s) p (pre ++ [v]) v ->
    accounted (reclaim_action_f vfilter sfilter valid ahead use_sigs pending can_reclaim true f st0
                                (before ++ p :: after)) p.
  Proof.
    intros s C S V G. unfold reclaim_action_f. rewrite fold_left_app. fold s. cbn [fold_left].
    eapply accounted_extends; [apply (fold_extends (rstep true) (reclaim_step_f_extends true))|].
    eapply reclaim_step_f_progress; try eassumption.
    apply (fold_carries_on (rstep true) reclaim_step_f_carries_on). reflexivity.
  Qed.

  Theorem preempt_action_f_progress st0 before p after pre v post :
    let s := fold_left (pstep true) before (rf_init st0) in
    np_gate (rf_st s) p = true -> skipped use_sigs pending (rf_reps s) p = false ->
    preempt_victims vfilter (rf_st s) p = pre ++ v :: post ->
    scenario_good sfilter valid ahead (rf_st s) p (pre ++ [v]) v ->
    accounted (preempt_action_f vfilter sfilter valid ahead use_sigs pending np_gate true f st0
                                (before ++ p :: after)) p.
  Proof.
    intros s C S V G. unfold preempt_action_f. rewrite fold_left_app. fold s. cbn [fold_left].
    eapply accounted_extends; [apply (fold_extends (pstep true) (preempt_step_f_extends true))|].
    eapply preempt_step_f_progress; try eassumption.
    apply (fold_carries_on (pstep true) preempt_step_f_carries_on). reflexivity.
  Qed.

  (** a refused eviction is charged to the preemptor it was requested for and to nobody else:
      the Cache calls one step adds for [p] never count as a refusal for another job [q] *)
  Lemma reclaim_step_f_refusals_are_own c_on s p q :
    pj_id p <> q ->
    evict_refused_for (rf_calls (rstep c_on s p)) q = evict_refused_for (rf_calls s) q.
  Proof.
    intros N. unfold reclaim_step_f. destruct (rf_stopped s); [reflexivity|].
    destruct (can_reclaim _ _); [|reflexivity]. destruct (skipped _ _ _ _); [reflexivity|].
    unfold solve_and_commit_f. destruct (scenarios _ _ _ _ _ _ _) as [[[ev nid] ns]|]; [|reflexivity].
    unfold committed, evict_refused_for. cbn [rf_calls]. rewrite !existsb_app.
    rewrite commit_evictions_own by congruence. cbn [existsb refused_for]. rewrite !orb_false_r. reflexivity.
  Qed.
End FaultyProofs.

(** * without faults: the loops of Model/Signatures.v *)
Section NoFaults.
  Variable vfilter : pjob -> rjob -> bool.
  Variable sfilter : vstate -> pjob -> list rjob -> bool.
  Variable valid : vstate -> pjob -> list rjob -> bool.
  Variable ahead : vstate -> pjob -> list rjob -> nat.
  Variable use_sigs : bool.
  Variable pending : pjob -> list sreq.
  Variable can_reclaim : vstate -> pjob -> bool.
  Variable carry_on : bool.

  Notation rstep0 := (reclaim_step_f vfilter sfilter valid ahead use_sigs pending can_reclaim carry_on no_evict_faults).
  Notation rstep := (reclaim_step vfilter sfilter valid ahead use_sigs pending can_reclaim).

  Lemma solve_no_faults st p k vs :
    match solve_and_commit_f sfilter valid ahead no_evict_faults st p k vs with
    | Some (st', c, _) => solve_and_commit sfilter valid ahead st p vs = Some st' /\ ec_err c = false
    | None => solve_and_commit sfilter valid ahead st p vs = None
    end.
  Proof.
    unfold solve_and_commit_f, solve_and_commit.
    destruct (scenarios _ _ _ _ _ _ _) as [[[ev nid] ns]|]; [|reflexivity].
    destruct (commit_evictions_no_faults (pj_id p) ev k) as (A & R & E). rewrite A, R, E. cbn [fold_left].
    split; reflexivity.
  Qed.

  Lemma reclaim_step_no_faults s p :
    rf_stopped s = false ->
    rf_stopped (rstep0 s p) = false
    /\ (rf_st (rstep0 s p), rf_reps (rstep0 s p)) = rstep (rf_st s, rf_reps s) p.
  Proof.
    intros St. unfold reclaim_step_f, reclaim_step, reclaim_try. rewrite St.
    destruct (can_reclaim _ _); [|split; [exact St|reflexivity]].
    destruct (skipped _ _ _ _); [split; [exact St|reflexivity]|].
    pose proof (solve_no_faults (rf_st s) p (rf_k s) (reclaim_victims vfilter (rf_st s) p)) as H.
    destruct (solve_and_commit_f _ _ _ _ _ _ _ _) as [[[st' c] nid]|].
    - destruct H as [-> E]. unfold committed. cbn [rf_st rf_reps rf_stopped]. rewrite E. split; reflexivity.
    - rewrite H. cbn [rf_st rf_reps rf_stopped]. split; reflexivity.
  Qed.

  Theorem no_evict_faults_fault_free st0 ps :
    let fin := reclaim_action_f vfilter sfilter valid ahead use_sigs pending can_reclaim carry_on no_evict_faults st0 ps in
    (rf_st fin, rf_reps fin) = reclaim_action vfilter sfilter valid ahead use_sigs pending can_reclaim st0 ps.
  Proof.
    unfold reclaim_action_f, reclaim_action.
    assert (H : forall ps s, rf_stopped s = false ->
                  (rf_st (fold_left rstep0 ps s), rf_reps (fold_left rstep0 ps s))
                  = fold_left rstep ps (rf_st s, rf_reps s)).
    { induction ps0 as [|p r IH]; intros s St; cbn [fold_left]; [reflexivity|].
      destruct (reclaim_step_no_faults s p St) as [St' E]. rewrite (IH _ St'), E. reflexivity. }
    cbn zeta. apply (H ps (rf_init st0)). reflexivity.
  Qed.
End NoFaults.

(** * the statement, per loop variant *)
Definition reclaim_progress_under_evict_faults (carry_on : bool) : Prop :=
  forall vfilter sfilter valid ahead use_sigs pending can_reclaim f st0 before p after pre v post,
    let s := fold_left (reclaim_step_f vfilter sfilter valid ahead use_sigs pending can_reclaim carry_on f) before (rf_init st0) in
    can_reclaim (rf_st s) p = true -> skipped use_sigs pending (rf_reps s) p = false ->
    reclaim_victims vfilter (rf_st s) p = pre ++ v :: post ->
    scenario_good sfilter valid ahead (rf_st s) p (pre ++ [v]) v ->
    let fin := reclaim_action_f vfilter sfilter valid ahead use_sigs pending can_reclaim carry_on f st0 (before ++ p :: after) in
    exists cm, In cm (vs_log (rf_st fin)) /\ cm_job cm = pj_id p
               /\ nominated (rf_calls fin) (pj_id p) = true
               /\ (cm_evicted cm <> [] \/ evict_refused_for (rf_calls fin) (pj_id p) = true).

Lemma reclaim_progress_under_evict_faults_proof : reclaim_progress_under_evict_faults true.
Proof.
  intros vfilter sfilter valid ahead use_sigs pending can_reclaim f st0 before p after pre v post s C S V G.
  exact (reclaim_action_f_progress vfilter sfilter valid ahead use_sigs pending can_reclaim f st0 before p after pre v post C S V G).
Qed.

(** * the world of seeded/C05-5's README
    two 1-GPU nodes, both used by preemptible pods of queue 3 (deserved 0):
    job 10 on node 2, job 11 on node 1 (victims queue: 10, 11); queues 1 and 2
    deserve one GPU each and hold one pending 1-GPU job each (1 and 2, popped in
    this order); the first Evict of the action is refused, every later one accepted *)
Definition e_st0 : vstate := mkVS [mkSN 1 0 0; mkSN 2 0 0] [mkRJ 10 3 50 true 2; mkRJ 11 3 50 true 1] [].
Definition e_a : pjob := mkPJ 1 1 50 true 7.
Definition e_b : pjob := mkPJ 2 2 50 true 7.
Definition first_evict_refused : eoracle := fun k _ _ => Nat.eqb k 0.
Definition e_run (carry_on : bool) : rfstate :=
  reclaim_action_f w_vfilter w_true3 w_true3 w_ahead true w_pending w_true2 carry_on first_evict_refused e_st0 [e_a; e_b].

Lemma e_carry_on :
  rf_calls (e_run true) = [EEvictRefused 10 1; EPipe 1 2; EEvict 11 2; EPipe 2 1]
  /\ vs_running (rf_st (e_run true)) = [mkRJ 10 3 50 true 2]
  /\ vs_nodes (rf_st (e_run true)) = [mkSN 1 0 0; mkSN 2 0 (-1)]
  /\ vs_log (rf_st (e_run true)) = [mkCommit 2 [11%positive] 1; mkCommit 1 [] 2]
  /\ evict_refused_for (rf_calls (e_run true)) 2 = false.
Proof. vm_compute. repeat split. Qed.

Lemma e_stop :
  rf_calls (e_run false) = [EEvictRefused 10 1; EPipe 1 2]
  /\ vs_running (rf_st (e_run false)) = [mkRJ 10 3 50 true 2; mkRJ 11 3 50 true 1]
  /\ nominated (rf_calls (e_run false)) 2 = false.
Proof. vm_compute. repeat split. Qed.

Lemma stop_at_first_failed_reclaim_commit_refuted_proof : ~ reclaim_progress_under_evict_faults false.
Proof.
  intros H.
  specialize (H w_vfilter w_true3 w_true3 w_ahead true w_pending w_true2 first_evict_refused e_st0
                [e_a] e_b [] [mkRJ 10 3 50 true 2] (mkRJ 11 3 50 true 1) []).
  cbv zeta in H.
  assert (C : w_true2 (rf_st (fold_left (reclaim_step_f w_vfilter w_true3 w_true3 w_ahead true w_pending w_true2 false first_evict_refused) [e_a] (rf_init e_st0))) e_b = true) by reflexivity.
  assert (S : skipped true w_pending (rf_reps (fold_left (reclaim_step_f w_vfilter w_true3 w_true3 w_ahead true w_pending w_true2 false first_evict_refused) [e_a] (rf_init e_st0))) e_b = false) by (vm_compute; reflexivity).
  assert (V : reclaim_victims w_vfilter (rf_st (fold_left (reclaim_step_f w_vfilter w_true3 w_true3 w_ahead true w_pending w_true2 false first_evict_refused) [e_a] (rf_init e_st0))) e_b
              = [mkRJ 10 3 50 true 2] ++ mkRJ 11 3 50 true 1 :: []) by (vm_compute; reflexivity).
  assert (G : scenario_good w_true3 w_true3 w_ahead (rf_st (fold_left (reclaim_step_f w_vfilter w_true3 w_true3 w_ahead true w_pending w_true2 false first_evict_refused) [e_a] (rf_init e_st0))) e_b
                ([mkRJ 10 3 50 true 2] ++ [mkRJ 11 3 50 true 1]) (mkRJ 11 3 50 true 1)).
  { split; [reflexivity|]. split; [reflexivity|]. split; [reflexivity|].
    exists (mkSN 1 0 0). split; [vm_compute; left; reflexivity|]. split; [reflexivity|]. cbn. lia. }
  destruct (H C S V G) as (cm & _ & _ & N & _).
  change (nominated (rf_calls (e_run false)) 2 = true) in N.
  destruct e_stop as (_ & _ & E). rewrite E in N. discriminate.
Qed.
