(** C01 over the node model: along any history of operations that the
    scheduler's own guards admit, a node never believes a negative amount of
    CPU, memory, pod slots, MIG instances or extended resources idle; together
    with the books invariant (Proofs/Node.v) this says that the pods occupying
    the node (everything not merely nominated, terminating pods included) never
    ask for more than the allocatable amount. *)
From Coq Require Import List ZArith PArith Bool Lia Permutation.
From KaiV Require Import Model.Res Model.Status Model.AMap Model.Node Model.NodeSpec Proofs.Node.
Import ListNotations.
Set Default Timeout 60.
Open Scope Z_scope.

(** non-negativity of every column but whole GPUs *)
Definition nn (r : res) : Prop := 0 <= cpu r /\ 0 <= mem r /\ 0 <= pods r /\ 0 <= mig r /\ 0 <= ext r.

Lemma nn_eq_nogpu a b : eq_nogpu a b -> nn a -> nn b.
Proof. unfold eq_nogpu, nn. intros (?&?&?&?&?) (?&?&?&?&?). repeat split; lia. Qed.

(** well-formed requests: nothing negative; a shared request asks for no MIG
    instance; a best-effort request asks for a pod slot only *)
Definition wf_req (t : task) : Prop :=
  nn (t_req t) /\ 0 <= gpu (t_req t)
  /\ (is_shared t = true -> mig (t_req t) = 0)
  /\ (t_besteffort t = true -> cpu (t_req t) = 0 /\ mem (t_req t) = 0 /\ mig (t_req t) = 0 /\ ext (t_req t) = 0).

Lemma charge_nogpu t : eq_nogpu (charge t) (t_req t).
Proof. unfold charge. destruct (is_shared t || t_resv t); repeat split. Qed.

Lemma nn_charge t : wf_req t -> nn (charge t).
Proof. intros (H & _). eapply nn_eq_nogpu; [apply eq_nogpu_sym, charge_nogpu|exact H]. Qed.

Definition NonNegIdle (n : node) : Prop := nn (n_idle n).

Lemma scal_le_sub a b : 0 <= a -> 0 <= b -> scal_le a b = true -> 0 <= b - a.
Proof.
  unfold scal_le. intros Ha Hb H. apply orb_true_iff in H as [H|H].
  - apply Z.eqb_eq in H. lia.
  - apply Z.leb_le in H. lia.
Qed.

(** the guard of a (non-nominated) placement leaves the idle columns non-negative *)
Lemma guard_keeps_nn n t :
  wf_req t -> NonNegIdle n -> is_task_allocatable n t = true -> nn (rsub (n_idle n) (charge t)).
Proof.
  intros (Hr & Hg & Hs & Hb) Hn G.
  destruct Hr as (R1&R2&R3&R4&R5). destruct Hn as (N1&N2&N3&N4&N5).
  destruct (charge_nogpu t) as (C1&C2&C3&C4&C5).
  unfold nn. cbn [rsub cpu mem pods mig ext]. rewrite C1, C2, C3, C4, C5.
  unfold is_task_allocatable in G.
  destruct (t_besteffort t) eqn:BE.
  - destruct (Hb eq_refl) as (B1&B2&B3&B4). apply Z.leb_le in G. repeat split; lia.
  - unfold allocatable_on in G.
    assert (Hk : (is_shared t = false /\ rle (t_req t) (n_idle n) = true)
                 \/ (is_shared t = true /\ base_le (t_req t) (n_idle n) = true)).
    { unfold is_shared. destruct (t_kind t); [left|right|right|left]; split; try reflexivity; try exact G;
        apply andb_true_iff in G as [G _]; apply andb_true_iff in G as [G _]; exact G. }
    destruct Hk as [[_ L]|[S L]].
    + unfold rle in L.
      apply andb_true_iff in L as [L L6]. apply andb_true_iff in L as [L L5].
      apply andb_true_iff in L as [L L4]. apply andb_true_iff in L as [L L3].
      apply andb_true_iff in L as [L1 L2].
      apply Z.leb_le in L1, L2.
      pose proof (scal_le_sub _ _ R3 N3 L4). pose proof (scal_le_sub _ _ R4 N4 L5).
      pose proof (scal_le_sub _ _ R5 N5 L6). repeat split; lia.
    + unfold base_le in L.
      apply andb_true_iff in L as [L L4]. apply andb_true_iff in L as [L L3].
      apply andb_true_iff in L as [L1 L2].
      apply Z.leb_le in L1, L2.
      pose proof (scal_le_sub _ _ R3 N3 L3). pose proof (scal_le_sub _ _ R5 N5 L4).
      rewrite (Hs S). repeat split; lia.
Qed.

(** an operation the scheduler's guards admit in state [n] *)
Definition admissible (n : node) (o : nop) : bool :=
  match o with
  | OAdd t => status_eqb (t_status t) Pipelined || is_task_allocatable n t
  | ORemove _ => true
  | OUpdate t =>
      match alookup (t_id t) (n_pods n) with
      | Some t0 => req (charge t0) (charge t)
                   && (status_eqb (t_status t) Pipelined || negb (status_eqb (t_status t0) Pipelined))
      | None => true
      end
  end.

Fixpoint all_admissible (n : node) (ops : list nop) : bool :=
  match ops with
  | [] => true
  | o :: r => admissible n o && all_admissible (match apply_op n o with Ok n' => n' | Err => n end) r
  end.

Definition Wf (n : node) : Prop := Forall wf_req (tasks_of n).

Lemma status_eqb_true a b : status_eqb a b = true -> a = b.
Proof. destruct a, b; cbn; intros; try discriminate; reflexivity. Qed.

Lemma d_idle_pipelined t r : t_status t = Pipelined -> d_idle t r = r.
Proof. unfold d_idle. intros ->. reflexivity. Qed.

Lemma d_idle_other t r : t_status t <> Pipelined -> d_idle t r = rsub r (charge t).
Proof. unfold d_idle. destruct (t_status t); try reflexivity. intros H; exfalso; apply H; reflexivity. Qed.

Lemma add_idle n t n' : add_task n t = Ok n' -> eq_nogpu (n_idle n') (d_idle t (n_idle n)).
Proof.
  intros H. destruct (add_task_inv _ _ _ H) as [_ ->].
  destruct (add_resources_spec (set_pods n (aset (t_id t) t (n_pods n))) t) as [F _].
  destruct F as (_&_&_&_&_&Fi&_). exact Fi.
Qed.

Lemma remove_idle n id n' :
  remove_task n id = Ok n' ->
  exists t0, alookup id (n_pods n) = Some t0 /\ eq_nogpu (n_idle n') (u_idle t0 (n_idle n)).
Proof.
  intros H. destruct (remove_task_inv _ _ _ H) as (t0 & A & ->).
  exists t0. split; [exact A|].
  destruct (remove_resources_spec (set_pods n (adel id (n_pods n))) t0) as [F _].
  destruct F as (_&_&_&_&_&Fi&_). exact Fi.
Qed.

Lemma Wf_lookup n id t0 : Wf n -> alookup id (n_pods n) = Some t0 -> wf_req t0.
Proof.
  unfold Wf, tasks_of. intros W A. rewrite Forall_forall in W. apply W.
  clear W. induction (n_pods n) as [|[k v] m IH]; cbn [alookup] in A; [discriminate|].
  cbn [map snd]. destruct (Pos.eqb id k); [inversion A; subst; now left | right; now apply IH].
Qed.

Lemma Wf_perm n ts : Permutation (tasks_of n) ts -> Forall wf_req ts -> Wf n.
Proof. intros P F. unfold Wf. eapply Permutation_Forall; [apply Permutation_sym, P|exact F]. Qed.

Lemma Wf_add n t n' : Wf n -> wf_req t -> add_task n t = Ok n' -> Wf n'.
Proof.
  intros W Wt H. eapply Wf_perm; [apply (tasks_of_add _ _ _ H)|]. constructor; assumption.
Qed.

Lemma Wf_remove n id n' : Wf n -> wf_pods (n_pods n) -> remove_task n id = Ok n' -> Wf n'.
Proof.
  intros W WP H. destruct (remove_task_inv _ _ _ H) as (t0 & A & _).
  pose proof (tasks_of_remove _ _ _ H) as P.
  assert (P' : Permutation (tasks_of n) (t0 :: tasks_of n')).
  { destruct P as (t1 & A1 & P1). rewrite A in A1. inversion A1; subst. exact P1. }
  unfold Wf in *. eapply Permutation_Forall in W; [|exact P']. now inversion W.
Qed.

Lemma u_idle_nn t r : nn (charge t) -> nn r -> nn (u_idle t r).
Proof.
  unfold u_idle, nn. intros (?&?&?&?&?) (?&?&?&?&?).
  destruct (t_status t); cbn [radd cpu mem pods mig ext]; repeat split; lia.
Qed.

Lemma step_nn n o n' :
  Books n -> Wf n -> NonNegIdle n -> Forall wf_req (op_tasks [o]) ->
  admissible n o = true -> apply_op n o = Ok n' -> NonNegIdle n'.
Proof.
  intros B W N WO A H. destruct o as [t|id|t]; cbn [apply_op admissible op_tasks flat_map app] in *.
  - (* add *)
    inversion WO as [|? ? Wt _]; subst.
    unfold NonNegIdle. eapply nn_eq_nogpu; [apply eq_nogpu_sym, (add_idle _ _ _ H)|].
    apply orb_true_iff in A as [A|A].
    + apply status_eqb_true in A. rewrite d_idle_pipelined by exact A. exact N.
    + destruct (status_eqb (t_status t) Pipelined) eqn:E.
      * apply status_eqb_true in E. rewrite d_idle_pipelined by exact E. exact N.
      * rewrite d_idle_other; [apply guard_keeps_nn; assumption|].
        intros Ep. rewrite Ep in E. discriminate.
  - (* remove *)
    destruct (remove_idle _ _ _ H) as (t0 & A0 & E).
    unfold NonNegIdle. eapply nn_eq_nogpu; [apply eq_nogpu_sym, E|].
    apply u_idle_nn; [apply nn_charge, (Wf_lookup _ _ _ W A0)|exact N].
  - (* update = remove + add of the same charge *)
    destruct (update_task_inv _ _ _ H) as (n1 & H1 & H2).
    destruct (remove_idle _ _ _ H1) as (t0 & A0 & E1).
    rewrite A0 in A. apply andb_true_iff in A as [Ac As].
    pose proof (add_idle _ _ _ H2) as E2.
    assert (Ec : charge t0 = charge t).
    { unfold req in Ac. repeat (apply andb_true_iff in Ac as [Ac ?]).
      apply res_eq; apply Z.eqb_eq; assumption. }
    pose proof (nn_charge _ (Wf_lookup _ _ _ W A0)) as Nc.
    unfold NonNegIdle in *.
    eapply nn_eq_nogpu; [apply eq_nogpu_sym, E2|].
    assert (N1 : nn (u_idle t0 (n_idle n))) by (apply u_idle_nn; assumption).
    destruct (status_eqb (t_status t) Pipelined) eqn:Et.
    + apply status_eqb_true in Et. rewrite d_idle_pipelined by exact Et.
      eapply nn_eq_nogpu; [apply eq_nogpu_sym, E1|exact N1].
    + cbn [orb] in As. apply negb_true_iff in As.
      rewrite d_idle_other by (intros Ep; rewrite Ep in Et; discriminate).
      (* idle1 = idle + c (t0 not nominated), then - c *)
      destruct E1 as (e1&e2&e3&e4&e5). destruct N as (n1'&n2&n3&n4&n5).
      assert (U : u_idle t0 (n_idle n) = radd (n_idle n) (charge t0)).
      { unfold u_idle. destruct (t_status t0); try reflexivity. discriminate. }
      rewrite U in e1, e2, e3, e4, e5. rewrite <- Ec.
      unfold nn. cbn [rsub radd cpu mem pods mig ext] in *. repeat split; lia.
Qed.

Theorem idle_never_negative ops : forall n0,
  Books n0 -> Wf n0 -> NonNegIdle n0 -> Forall wf_req (op_tasks ops) ->
  all_admissible n0 ops = true -> NonNegIdle (run n0 ops).
Proof.
  induction ops as [|o ops IH]; intros n0 B W N WO A; cbn [run]; [exact N|].
  cbn [all_admissible] in A. apply andb_true_iff in A as [Ao Ar].
  assert (WO1 : Forall wf_req (op_tasks [o]) /\ Forall wf_req (op_tasks ops)).
  { unfold op_tasks in *. cbn [flat_map] in *. rewrite app_nil_r. apply Forall_app. exact WO. }
  destruct WO1 as [WOo WOr].
  destruct (apply_op n0 o) as [n'|] eqn:E.
  - apply IH; [eapply Books_apply; eassumption| |eapply step_nn; eassumption|exact WOr|exact Ar].
    destruct B as [_ WP].
    destruct o as [t|id|t]; cbn [apply_op] in E.
    + eapply Wf_add; [exact W| |exact E]. unfold op_tasks in WOo; cbn in WOo. now inversion WOo.
    + eapply Wf_remove; eassumption.
    + destruct (update_task_inv _ _ _ E) as (n1 & E1 & E2).
      eapply Wf_add; [eapply Wf_remove; eassumption| |exact E2].
      unfold op_tasks in WOo; cbn in WOo. now inversion WOo.
  - apply IH; assumption.
Qed.

(** demand of the pods occupying the node: everything that is not merely nominated *)
Definition occupying_demand (n : node) : res :=
  rsum (map charge (filter (fun t => negb (is_st Pipelined t)) (tasks_of n))).

Theorem occupying_within_allocatable n :
  Books n -> NonNegIdle n ->
  cpu (occupying_demand n) <= cpu (n_alloc n) /\ mem (occupying_demand n) <= mem (n_alloc n)
  /\ pods (occupying_demand n) <= pods (n_alloc n) /\ mig (occupying_demand n) <= mig (n_alloc n)
  /\ ext (occupying_demand n) <= ext (n_alloc n).
Proof.
  intros [(_ & Hi & _) _] (N1&N2&N3&N4&N5).
  unfold spec_idle in Hi. fold (occupying_demand n) in Hi.
  destruct Hi as (I1&I2&I3&I4&I5). cbn [rsub cpu mem pods mig ext] in *.
  repeat split; lia.
Qed.
