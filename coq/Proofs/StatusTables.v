(** Tie T1: the status classes of Model/Status.v coincide with the tables
    generated from the running code (Gen/StatusTables.v is rewritten from /repo
    by harness/cmd/tables on every run of the checks that depend on it).  A
    change of a status class in pkg/scheduler/api/pod_status breaks this file. *)
From Coq Require Import List Bool ZArith String.
From KaiV Require Import Model.Status Gen.StatusTables.
Import ListNotations.

Definition in_class (s : status) (l : list status) : bool := existsb (status_eqb s) l.

Theorem active_used_table : forall s, active_used s = in_class s gen_active_used.
Proof. destruct s; reflexivity. Qed.
Theorem active_allocated_table : forall s, active_allocated s = in_class s gen_active_allocated.
Proof. destruct s; reflexivity. Qed.
Theorem alive_table : forall s, alive s = in_class s gen_alive.
Proof. destruct s; reflexivity. Qed.
Theorem pod_bound_table : forall s, pod_bound s = in_class s gen_pod_bound.
Proof. destruct s; reflexivity. Qed.
Theorem allocated_status_table : forall s, allocated_status s = in_class s gen_allocated_status.
Proof. destruct s; reflexivity. Qed.

(** sentinels the models assume *)
Theorem default_gpu_memory_table : gen_default_gpu_memory = 100%Z.
Proof. reflexivity. Qed.
Theorem whole_gpu_indicator_table : gen_whole_gpu_indicator = "-2"%string.
Proof. reflexivity. Qed.
