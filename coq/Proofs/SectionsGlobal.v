(** Serialisation over ONE shared state (Model/Sections.v, [gstep]): sections of
    different groups are no longer independent by construction; instead their
    actions are assumed to COMMUTE.  Bodies are plain lists of actions.

    Invariant (ghost: [gc_hold] = the threads inside a section, in the order in
    which they entered; [gc_log] = the bodies of the finished sections in the
    order in which they finished): letting the threads inside finish their
    bodies one after the other, in the order in which they entered, leads from
    the current state to the state that the finished sections followed by the
    running ones, each run WHOLE and uninterrupted, produce from the initial
    state.  An action of one thread inside is moved to the front past the
    remaining actions of the threads that entered before it -- they are in
    sections of other groups (mutual exclusion), so they commute with it; a
    section that finishes is moved in front of the ones that are still running
    for the same reason. *)
From Coq Require Import List PArith Bool Arith Lia Permutation.
From KaiV Require Import Model.GroupMutex Model.Sections Proofs.GroupMutex Proofs.Sections.
Import ListNotations.
Set Default Timeout 60.

Lemma flat_map_nil_all {A B} (f : A -> list B) l : (forall x, In x l -> f x = []) -> flat_map f l = [].
Proof.
  induction l as [|y r IH]; intros H; [reflexivity|]. cbn. rewrite (H y (or_introl eq_refl)). apply IH.
  intros x Hx. apply H. right. exact Hx.
Qed.

Section Global.
  Context {T : Type}.
  Notation body := (body T).
  Notation lthread := (lthread T).
  Notation gconfig := (gconfig T).

  (** ** the lock protocol underneath *)
  Definition gproj (c : gconfig) : config := mkC (gc_gm c) (map lt_thr (gc_thr c)).

  Definition loutside (t : lthread) : Prop := forall m, t_pc (lt_thr t) <> PHold m.

  Inductive gtick (i : nat) (s : T) (hold : list nat) (lg : list body) (t : lthread)
    : T -> list nat -> list body -> lthread -> Prop :=
  | GBody m f r :
      t_pc (lt_thr t) = PHold m -> lt_cur t = f :: r ->
      gtick i s hold lg t (f s) hold lg (mkLT (lt_thr t) r (lt_full t) (lt_bodies t))
  | GEnter m t' :
      t_pc (lt_thr t) = PWait m -> t_pc (lt_thr t') = PHold m -> t_grp (lt_thr t') = t_grp (lt_thr t) ->
      t_todo (lt_thr t') = t_todo (lt_thr t) -> lt_cur t' = lt_cur t -> lt_full t' = lt_full t ->
      lt_bodies t' = lt_bodies t ->
      gtick i s hold lg t s (hold ++ [i]) lg t'
  | GLeave m r t' :
      t_pc (lt_thr t) = PHold m -> lt_cur t = [] -> t_pc (lt_thr t') = PRel r ->
      t_todo (lt_thr t') = t_todo (lt_thr t) -> lt_bodies t' = lt_bodies t ->
      gtick i s hold lg t s (remove_nat i hold) (lg ++ [lt_full t]) t'
  | GPick x rest m t' :
      t_pc (lt_thr t) = PIdle -> t_todo (lt_thr t) = x :: rest ->
      t_pc (lt_thr t') = PWait m -> t_grp (lt_thr t') = x -> t_todo (lt_thr t') = rest ->
      lt_cur t' = hd [] (lt_bodies t) -> lt_full t' = hd [] (lt_bodies t) -> lt_bodies t' = tl (lt_bodies t) ->
      gtick i s hold lg t s hold lg t'
  | GOther t' :
      loutside t -> loutside t' ->
      lt_cur t' = lt_cur t -> lt_full t' = lt_full t -> lt_bodies t' = lt_bodies t ->
      t_todo (lt_thr t') = t_todo (lt_thr t) -> t_grp (lt_thr t') = t_grp (lt_thr t) ->
      (t_pc (lt_thr t') = t_pc (lt_thr t) \/ (exists r, t_pc (lt_thr t) = PRel r) /\ t_pc (lt_thr t') = PIdle) ->
      gtick i s hold lg t s hold lg t'.

  Lemma loutside_of_pc (u : lthread) : (forall m, t_pc (lt_thr u) <> PHold m) -> loutside u.
  Proof. exact (fun H => H). Qed.

  Lemma gstep_thread_kind i g s hold lg t g' s' hold' lg' t' :
    gstep_thread i g s hold lg t = (g', s', hold', lg', t') -> gtick i s hold lg t s' hold' lg' t'.
  Proof.
    unfold gstep_thread, step_thread.
    destruct (t_pc (lt_thr t)) as [|m|m|r] eqn:Hpc.
    - destruct (t_todo (lt_thr t)) as [|x rest] eqn:Htodo.
      + rewrite Hpc. intros H. injection H as <- <- <- <- <-.
        apply GOther; cbn [lt_thr lt_cur lt_full lt_bodies]; auto;
          unfold loutside; cbn [lt_thr]; intros m; rewrite Hpc; discriminate.
      + destruct (acquire_inc x g) as [m g1]. cbn [t_pc]. intros H. injection H as <- <- <- <- <-.
        eapply GPick with (x := x) (rest := rest) (m := m); cbn; auto.
    - destruct (mem_mid m (gm_locked g)).
      + rewrite Hpc. intros H. injection H as <- <- <- <- <-.
        apply GOther; cbn [lt_thr lt_cur lt_full lt_bodies]; auto;
          unfold loutside; cbn [lt_thr]; intros m'; rewrite Hpc; discriminate.
      + cbn [t_pc t_grp]. intros H. injection H as <- <- <- <- <-.
        eapply GEnter with (m := m); cbn; auto.
    - destruct (lt_cur t) as [|f r] eqn:Hcur.
      + destruct (acquire_dec (t_grp (lt_thr t)) g) as [r g1]. cbn [t_pc]. intros H. injection H as <- <- <- <- <-.
        eapply GLeave with (m := m) (r := r); cbn; auto.
      + intros H. injection H as <- <- <- <- <-. eapply GBody with (m := m); auto.
    - assert (Hfin : forall g1, (g1, s, hold, lg, mkLT (mkT PIdle (t_grp (lt_thr t)) (t_todo (lt_thr t))) (lt_cur t) (lt_full t) (lt_bodies t))
                                = (g', s', hold', lg', t') -> gtick i s hold lg t s' hold' lg' t').
      { intros g1 H. injection H as <- <- <- <- <-. apply GOther; cbn [lt_thr lt_cur lt_full lt_bodies t_pc t_todo t_grp]; auto.
        - intros m'. rewrite Hpc. discriminate.
        - intros m'. cbn. discriminate.
        - right. split; [eauto|reflexivity]. }
      destruct r as [m|]; [destruct (mem_mid m (gm_locked g))|]; cbn [t_pc]; apply Hfin.
  Qed.

  Lemma gproj_gstep c i : gproj (gstep c i) = gproj c \/ gproj (gstep c i) = step (gproj c) i.
  Proof.
    unfold gstep, step, gproj. cbn [c_thr c_gm]. rewrite nth_error_map'.
    destruct (nth_error (gc_thr c) i) as [t|] eqn:Hn; cbn [option_map]; [|left; reflexivity].
    unfold gstep_thread.
    assert (Hmx : forall (cur full : body) bodies s h l g' t',
               step_thread (gc_gm c) (lt_thr t) = (g', t') ->
               mkC (gc_gm (mkGC g' (upd i (mkLT t' cur full bodies) (gc_thr c)) s h l))
                   (map lt_thr (gc_thr (mkGC g' (upd i (mkLT t' cur full bodies) (gc_thr c)) s h l)))
               = mkC g' (upd i t' (map lt_thr (gc_thr c)))).
    { intros. cbn [gc_gm gc_thr]. rewrite map_upd. reflexivity. }
    destruct (step_thread (gc_gm c) (lt_thr t)) as [g' t'] eqn:Est.
    destruct (t_pc (lt_thr t)) eqn:Hpc.
    - right. destruct (t_pc t'); apply Hmx with (g' := g'); reflexivity.
    - right. destruct (t_pc t'); apply Hmx with (g' := g'); reflexivity.
    - destruct (lt_cur t) as [|f r].
      + right. destruct (t_pc t'); apply Hmx with (g' := g'); reflexivity.
      + left. cbn [gc_gm gc_thr]. rewrite map_upd. cbn [lt_thr].
        rewrite upd_same; [reflexivity|]. rewrite nth_error_map', Hn. reflexivity.
    - right. destruct (t_pc t'); apply Hmx with (g' := g'); reflexivity.
  Qed.

  Lemma gproj_inv_gstep c i : inv (gproj c) -> inv (gproj (gstep c i)).
  Proof. intros I. destruct (gproj_gstep c i) as [-> | ->]; [exact I|apply step_inv; exact I]. Qed.

  Lemma gstep_unfold c i t :
    nth_error (gc_thr c) i = Some t ->
    exists g' (s' : T) (h' : list nat) (l' : list body) (t' : lthread),
      gstep_thread i (gc_gm c) (gc_st c) (gc_hold c) (gc_log c) t = (g', s', h', l', t')
      /\ gstep c i = mkGC g' (upd i t' (gc_thr c)) s' h' l'.
  Proof.
    intros Hn. unfold gstep. rewrite Hn.
    destruct (gstep_thread i (gc_gm c) (gc_st c) (gc_hold c) (gc_log c) t) as [[[[g' s'] h'] l'] t'] eqn:E.
    exists g', s', h', l', t'. split; reflexivity.
  Qed.

  (** two threads inside sections at the same time are in sections of different groups *)
  Lemma holders_differ c i j ti tj mi mj : inv (gproj c) -> i <> j ->
    nth_error (gc_thr c) i = Some ti -> nth_error (gc_thr c) j = Some tj ->
    t_pc (lt_thr ti) = PHold mi -> t_pc (lt_thr tj) = PHold mj ->
    t_grp (lt_thr ti) <> t_grp (lt_thr tj).
  Proof.
    intros I Hne Hi Hj Pi Pj E.
    apply (inv_exclusion (gproj c) I (t_grp (lt_thr ti)) i j (lt_thr ti) (lt_thr tj) Hne).
    - unfold gproj. cbn [c_thr]. rewrite nth_error_map', Hi. reflexivity.
    - unfold gproj. cbn [c_thr]. rewrite nth_error_map', Hj. reflexivity.
    - split; [reflexivity|eauto].
    - split; [symmetry; exact E|eauto].
  Qed.

  (** ** commuting actions *)
  Definition acts_commute (b1 b2 : body) : Prop := forall f g, In f b1 -> In g b2 -> forall s, f (g s) = g (f s).

  Lemma run_body_cons f (b : body) s : run_body (f :: b) s = run_body b (f s).
  Proof. reflexivity. Qed.
  Lemma run_body_app (b1 b2 : body) s : run_body (b1 ++ b2) s = run_body b2 (run_body b1 s).
  Proof. unfold run_body. apply fold_left_app. Qed.

  Lemma act_past_body (f : T -> T) (b : body) :
    (forall g, In g b -> forall s, f (g s) = g (f s)) -> forall s, run_body b (f s) = f (run_body b s).
  Proof.
    induction b as [|g r IH]; intros H s; [reflexivity|]. rewrite !run_body_cons.
    rewrite <- (H g (or_introl eq_refl)). apply IH. intros g' Hg'. apply H. right. exact Hg'.
  Qed.
  Lemma body_past_body (b1 b2 : body) :
    acts_commute b1 b2 -> forall s, run_body b2 (run_body b1 s) = run_body b1 (run_body b2 s).
  Proof.
    induction b1 as [|f r IH]; intros H s; [reflexivity|]. rewrite !run_body_cons.
    rewrite IH by (intros f' g Hf' Hg; apply H; [right; exact Hf'|exact Hg]).
    rewrite (act_past_body f b2) by (intros g Hg s'; apply H; [left; reflexivity|exact Hg]).
    reflexivity.
  Qed.
  Lemma serial_bodies_app (l1 l2 : list body) s : serial_bodies (l1 ++ l2) s = serial_bodies l2 (serial_bodies l1 s).
  Proof. unfold serial_bodies. apply fold_left_app. Qed.
  Lemma serial_bodies_nil (s : T) : serial_bodies [] s = s.
  Proof. reflexivity. Qed.
  Lemma serial_bodies_snoc (l : list body) (b : body) s : serial_bodies (l ++ [b]) s = run_body b (serial_bodies l s).
  Proof. rewrite serial_bodies_app. reflexivity. Qed.
  Lemma serial_bodies_cons (b : body) (l : list body) s : serial_bodies (b :: l) s = serial_bodies l (run_body b s).
  Proof. reflexivity. Qed.
  Lemma body_past_serial (b : body) (l : list body) :
    (forall b', In b' l -> acts_commute b' b) -> forall s, serial_bodies l (run_body b s) = run_body b (serial_bodies l s).
  Proof.
    induction l as [|b' r IH]; intros H s; [reflexivity|]. rewrite !serial_bodies_cons.
    rewrite <- IH by (intros b2 Hb2; apply H; right; exact Hb2).
    f_equal. apply body_past_body. intros f g Hf Hg s'. symmetry. apply (H b' (or_introl eq_refl) g f Hg Hf).
  Qed.

  (** ** the threads inside, in the order in which they entered *)
  Definition cur_of (thr : list lthread) (i : nat) : body :=
    match nth_error thr i with Some t => lt_cur t | None => [] end.
  Definition full_of (thr : list lthread) (i : nat) : body :=
    match nth_error thr i with Some t => lt_full t | None => [] end.
  Definition run_holders (thr : list lthread) (hold : list nat) (s : T) : T :=
    fold_left (fun s i => run_body (cur_of thr i) s) hold s.
  Definition fulls (thr : list lthread) (hold : list nat) : list body := map (full_of thr) hold.

  Lemma run_holders_app thr h1 h2 s : run_holders thr (h1 ++ h2) s = run_holders thr h2 (run_holders thr h1 s).
  Proof. unfold run_holders. apply fold_left_app. Qed.
  Lemma run_holders_cons thr i h s : run_holders thr (i :: h) s = run_holders thr h (run_body (cur_of thr i) s).
  Proof. reflexivity. Qed.
  Lemma run_holders_nil thr s : run_holders thr [] s = s.
  Proof. reflexivity. Qed.
  Lemma fulls_app thr h1 h2 : fulls thr (h1 ++ h2) = fulls thr h1 ++ fulls thr h2.
  Proof. unfold fulls. apply map_app. Qed.
  Lemma fulls_cons thr i h : fulls thr (i :: h) = full_of thr i :: fulls thr h.
  Proof. reflexivity. Qed.
  Lemma run_holders_ext thr thr' h : (forall j, In j h -> cur_of thr' j = cur_of thr j) ->
    forall s, run_holders thr' h s = run_holders thr h s.
  Proof.
    induction h as [|j r IH]; intros H s; [reflexivity|]. rewrite !run_holders_cons.
    rewrite (H j (or_introl eq_refl)). apply IH. intros k Hk. apply H. right. exact Hk.
  Qed.
  Lemma run_holders_comm (f : T -> T) thr h :
    (forall j g, In j h -> In g (cur_of thr j) -> forall s, f (g s) = g (f s)) ->
    forall s, run_holders thr h (f s) = f (run_holders thr h s).
  Proof.
    induction h as [|j r IH]; intros H s; [reflexivity|]. rewrite !run_holders_cons.
    rewrite act_past_body by (intros g Hg; apply (H j g (or_introl eq_refl) Hg)).
    apply IH. intros k g Hk Hg. apply (H k g (or_intror Hk) Hg).
  Qed.
  Lemma fulls_ext thr thr' h : (forall j, In j h -> full_of thr' j = full_of thr j) -> fulls thr' h = fulls thr h.
  Proof. intros H. unfold fulls. apply map_ext_in. exact H. Qed.

  Lemma cur_of_upd_other thr i j t' : j <> i -> cur_of (upd i t' thr) j = cur_of thr j.
  Proof. intros H. unfold cur_of. rewrite nth_upd_other by auto. reflexivity. Qed.
  Lemma full_of_upd_other thr i j t' : j <> i -> full_of (upd i t' thr) j = full_of thr j.
  Proof. intros H. unfold full_of. rewrite nth_upd_other by auto. reflexivity. Qed.
  Lemma cur_of_upd_same thr i t t' : nth_error thr i = Some t -> cur_of (upd i t' thr) i = lt_cur t'.
  Proof. intros H. unfold cur_of. rewrite (nth_upd_same i t' thr t H). reflexivity. Qed.
  Lemma full_of_upd_same thr i t t' : nth_error thr i = Some t -> full_of (upd i t' thr) i = lt_full t'.
  Proof. intros H. unfold full_of. rewrite (nth_upd_same i t' thr t H). reflexivity. Qed.

  Lemma remove_nat_split i h1 h2 : ~ In i h1 -> ~ In i h2 -> remove_nat i (h1 ++ i :: h2) = h1 ++ h2.
  Proof.
    intros H1 H2. unfold remove_nat. rewrite filter_app. cbn [filter]. rewrite Nat.eqb_refl. cbn [negb].
    assert (Hf : forall h, ~ In i h -> filter (fun j => negb (Nat.eqb j i)) h = h).
    { induction h as [|j r IH]; intros Hn; [reflexivity|]. cbn [filter].
      destruct (Nat.eqb j i) eqn:E.
      - apply Nat.eqb_eq in E. subst j. exfalso. apply Hn. left. reflexivity.
      - cbn [negb]. rewrite IH; [reflexivity|]. intros Hin. apply Hn. right. exact Hin. }
    rewrite !Hf by assumption. reflexivity.
  Qed.
  Lemma nodup_split (i : nat) h : NoDup h -> In i h -> exists h1 h2, h = h1 ++ i :: h2 /\ ~ In i h1 /\ ~ In i h2.
  Proof.
    intros Hn Hin. apply in_split in Hin. destruct Hin as [h1 [h2 ->]]. exists h1, h2. split; [reflexivity|].
    apply NoDup_remove_2 in Hn. split; intros H; apply Hn; apply in_or_app; [left|right]; exact H.
  Qed.

  (** ** the invariant *)
  Variable progs : list (list (group * body)).
  Variable s0 : T.
  Definition secs : list (group * body) := concat progs.
  Hypothesis Hcomm : forall x bx y by_, In (x, bx) secs -> In (y, by_) secs -> x <> y -> acts_commute bx by_.

  Definition lpend (t : lthread) : list body :=
    (match t_pc (lt_thr t) with PWait _ => [lt_full t] | _ => [] end) ++ lt_bodies t.
  Definition lpending (thr : list lthread) : list body := flat_map lpend thr.

  Definition is_wait (t : lthread) : Prop := exists m, t_pc (lt_thr t) = PWait m.
  Definition is_hold (t : lthread) : Prop := exists m, t_pc (lt_thr t) = PHold m.

  Record lwf (t : lthread) : Prop := mkLWF {
    w_al : length (t_todo (lt_thr t)) = length (lt_bodies t);
    w_sec : forall x b, In (x, b) (combine (t_todo (lt_thr t)) (lt_bodies t)) -> In (x, b) secs;
    w_wait : is_wait t -> lt_cur t = lt_full t;
    w_in : is_wait t \/ is_hold t ->
           In (t_grp (lt_thr t), lt_full t) secs /\ exists pre, lt_full t = pre ++ lt_cur t
  }.

  Record GI (c : gconfig) : Prop := mkGI {
    gi_inv : inv (gproj c);
    gi_nodup : NoDup (gc_hold c);
    gi_hold : forall i, In i (gc_hold c) <-> exists t, nth_error (gc_thr c) i = Some t /\ is_hold t;
    gi_wf : forall t, In t (gc_thr c) -> lwf t;
    gi_eq : run_holders (gc_thr c) (gc_hold c) (gc_st c)
            = serial_bodies (gc_log c ++ fulls (gc_thr c) (gc_hold c)) s0;
    gi_perm : Permutation (gc_log c ++ fulls (gc_thr c) (gc_hold c) ++ lpending (gc_thr c)) (map snd secs)
  }.

  Lemma lpending_upd thr i t t' :
    nth_error thr i = Some t ->
    exists l1 l2, lpending thr = l1 ++ lpend t ++ l2 /\ lpending (upd i t' thr) = l1 ++ lpend t' ++ l2.
  Proof.
    revert i. induction thr as [|y r IH]; intros [|j] Hn; cbn in Hn; try discriminate.
    - injection Hn as ->. exists [], (lpending r). split; reflexivity.
    - destruct (IH j Hn) as [l1 [l2 [E1 E2]]]. exists (lpend y ++ l1), l2.
      unfold lpending in *. cbn [flat_map upd]. rewrite E1, E2, <- !app_assoc. split; reflexivity.
  Qed.
  Lemma lpending_same thr i t t' : nth_error thr i = Some t -> lpend t' = lpend t -> lpending (upd i t' thr) = lpending thr.
  Proof.
    intros Hn E. destruct (lpending_upd thr i t t' Hn) as [l1 [l2 [E1 E2]]]. rewrite E2, E, <- E1. reflexivity.
  Qed.

  (** the ghost list and the state equation are untouched by a tick of a thread that is outside before and after *)
  Lemma holders_untouched c i t t' :
    GI c -> nth_error (gc_thr c) i = Some t -> ~ is_hold t ->
    (forall j, In j (gc_hold c) -> cur_of (upd i t' (gc_thr c)) j = cur_of (gc_thr c) j)
    /\ (forall j, In j (gc_hold c) -> full_of (upd i t' (gc_thr c)) j = full_of (gc_thr c) j).
  Proof.
    intros G Hn Hno.
    assert (Hi : forall j, In j (gc_hold c) -> j <> i).
    { intros j Hj ->. apply (gi_hold c G) in Hj. destruct Hj as [t0 [Hn0 Hh]]. rewrite Hn in Hn0. injection Hn0 as <-. contradiction. }
    split; intros j Hj; [apply cur_of_upd_other|apply full_of_upd_other]; auto.
  Qed.

  Lemma hold_iff_upd c i t t' (P : nat -> Prop) :
    nth_error (gc_thr c) i = Some t ->
    (forall j, j <> i -> (P j <-> In j (gc_hold c))) ->
    (P i <-> is_hold t') ->
    GI c ->
    forall j, P j <-> exists u, nth_error (upd i t' (gc_thr c)) j = Some u /\ is_hold u.
  Proof.
    intros Hn Hoth Hi G j. destruct (Nat.eq_dec j i) as [->|Hne].
    - rewrite (nth_upd_same i t' _ t Hn). rewrite Hi. split.
      + intros H. eauto.
      + intros [u [E H]]. injection E as <-. exact H.
    - rewrite nth_upd_other by auto. rewrite (Hoth j Hne). apply (gi_hold c G).
  Qed.

  Lemma wf_upd c i t' : GI c -> lwf t' -> forall u, In u (upd i t' (gc_thr c)) -> lwf u.
  Proof. intros G Hw u Hin. apply in_upd in Hin. destruct Hin as [->|Hin]; [exact Hw|exact (gi_wf c G u Hin)]. Qed.

  Lemma fulls_upd_samefull thr i t t' h :
    nth_error thr i = Some t -> lt_full t' = lt_full t -> fulls (upd i t' thr) h = fulls thr h.
  Proof.
    intros Hn E. apply fulls_ext. intros j _. destruct (Nat.eq_dec j i) as [->|Hne].
    - rewrite (full_of_upd_same thr i t t' Hn). unfold full_of. rewrite Hn. exact E.
    - apply full_of_upd_other. exact Hne.
  Qed.

  (** actions of two different threads that are inside at the same time commute *)
  Lemma inside_commute c i j ti tj : GI c -> i <> j ->
    nth_error (gc_thr c) i = Some ti -> nth_error (gc_thr c) j = Some tj -> is_hold ti -> is_hold tj ->
    acts_commute (lt_full ti) (lt_full tj).
  Proof.
    intros G Hne Hi Hj [mi Pi] [mj Pj].
    pose proof (holders_differ c i j ti tj mi mj (gi_inv c G) Hne Hi Hj Pi Pj) as Hg.
    destruct (w_in ti (gi_wf c G ti (nth_error_In _ _ Hi)) (or_intror (ex_intro _ mi Pi))) as [Si _].
    destruct (w_in tj (gi_wf c G tj (nth_error_In _ _ Hj)) (or_intror (ex_intro _ mj Pj))) as [Sj _].
    exact (Hcomm _ _ _ _ Si Sj Hg).
  Qed.

  Lemma perm_enter (a F l1 r l2 : list body) (c : body) :
    Permutation (a ++ (F ++ [c]) ++ l1 ++ r ++ l2) (a ++ F ++ l1 ++ (c :: r) ++ l2).
  Proof.
    apply Permutation_app_head. rewrite <- app_assoc. apply Permutation_app_head. cbn [app].
    apply Permutation_middle.
  Qed.
  Lemma perm_leave (a F1 F2 L : list body) (c : body) :
    Permutation ((a ++ [c]) ++ (F1 ++ F2) ++ L) (a ++ (F1 ++ c :: F2) ++ L).
  Proof.
    rewrite <- !app_assoc. apply Permutation_app_head. cbn [app].
    apply Permutation_middle.
  Qed.

  Lemma GI_gstep c i : GI c -> GI (gstep c i).
  Proof.
    intros G. pose proof (gproj_inv_gstep c i (gi_inv c G)) as I'.
    destruct (nth_error (gc_thr c) i) as [t|] eqn:Hn; [|unfold gstep; rewrite Hn; exact G].
    destruct (gstep_unfold c i t Hn) as [g' [s' [h' [l' [t' [Est Eq]]]]]].
    rewrite Eq in *.
    pose proof (gstep_thread_kind _ _ _ _ _ _ _ _ _ _ _ Est) as K.
    pose proof (gi_wf c G t (nth_error_In _ _ Hn)) as Wt.
    pose proof (gi_eq c G) as EQ. pose proof (gi_perm c G) as PM.
    destruct K as [m f r Hpc Hcur | m t' Hpc Hpc' Hg Htodo Hc Hf Hb | m r t' Hpc Hcur Hpc' Htodo Hb
                   | x rest m t' Hpc Htodo Hpc' Hg Htodo' Hc Hf Hb | t' Ho Ho' Hc Hf Hb Htodo Hg Hpcs].
    - (* an action of the body *)
      assert (Hh : is_hold t) by (exists m; exact Hpc).
      assert (Hin : In i (gc_hold c)) by (apply (gi_hold c G); eauto).
      destruct (nodup_split i _ (gi_nodup c G) Hin) as [h1 [h2 [Eh [N1 N2]]]].
      assert (Hfulls : forall h, fulls (upd i (mkLT (lt_thr t) r (lt_full t) (lt_bodies t)) (gc_thr c)) h = fulls (gc_thr c) h)
        by (intros h; apply fulls_upd_samefull with (t := t); auto).
      constructor; cbn [gc_gm gc_thr gc_st gc_hold gc_log].
      + exact I'.
      + exact (gi_nodup c G).
      + apply (hold_iff_upd c i t _ (fun j => In j (gc_hold c)) Hn); auto.
        * intros j _. reflexivity.
        * split; [intros _; exists m; exact Hpc|intros _; exact Hin].
      + apply wf_upd; auto. destruct Wt as [Wa Ws Ww Wi]. constructor; cbn [lt_thr lt_cur lt_full lt_bodies]; auto.
        * intros [m' Hm']. cbn in Hm'. congruence.
        * intros _. destruct (Wi (or_intror Hh)) as [Si [pre Ep]]. split; [exact Si|].
          exists (pre ++ [f]). rewrite <- app_assoc. cbn [app]. rewrite <- Hcur. exact Ep.
      + rewrite Hfulls, <- EQ, Eh, !run_holders_app, !run_holders_cons.
        rewrite (cur_of_upd_same _ i t _ Hn). cbn [lt_cur].
        assert (Ecur : cur_of (gc_thr c) i = f :: r) by (unfold cur_of; rewrite Hn; exact Hcur).
        rewrite Ecur, run_body_cons.
        rewrite (run_holders_ext (gc_thr c) _ h1) by (intros j Hj; apply cur_of_upd_other; intros ->; contradiction).
        rewrite (run_holders_ext (gc_thr c) _ h2) by (intros j Hj; apply cur_of_upd_other; intros ->; contradiction).
        rewrite (run_holders_comm f (gc_thr c) h1); [reflexivity|].
        intros j g Hj Hgin s.
        assert (Hjh : In j (gc_hold c)) by (rewrite Eh; apply in_or_app; left; exact Hj).
        apply (gi_hold c G) in Hjh. destruct Hjh as [tj [Hnj Hhj]].
        assert (Hne : i <> j) by (intros ->; contradiction).
        unfold cur_of in Hgin. rewrite Hnj in Hgin.
        destruct (w_in tj (gi_wf c G tj (nth_error_In _ _ Hnj)) (or_intror Hhj)) as [_ [prej Ej]].
        destruct (w_in t Wt (or_intror Hh)) as [_ [pre Ep]].
        apply (inside_commute c i j t tj G Hne Hn Hnj Hh Hhj).
        * rewrite Ep, Hcur. apply in_or_app. right. left. reflexivity.
        * rewrite Ej. apply in_or_app. right. exact Hgin.
      + rewrite Hfulls. rewrite (lpending_same _ i t); [exact PM|exact Hn|].
        unfold lpend. cbn [lt_thr lt_full lt_bodies]. reflexivity.
    - (* the lock is taken *)
      assert (Hno : ~ is_hold t) by (intros [m' Hm']; congruence).
      assert (Hnin : ~ In i (gc_hold c)).
      { intros Hin. apply (gi_hold c G) in Hin. destruct Hin as [t0 [E0 H0]]. rewrite Hn in E0. injection E0 as <-. contradiction. }
      destruct (holders_untouched c i t t' G Hn Hno) as [Hcu Hfu].
      assert (Hw : is_wait t) by (exists m; exact Hpc).
      constructor; cbn [gc_gm gc_thr gc_st gc_hold gc_log].
      + exact I'.
      + apply (Permutation_NoDup (Permutation_cons_append (gc_hold c) i)). constructor; [exact Hnin|exact (gi_nodup c G)].
      + apply (hold_iff_upd c i t _ (fun j => In j (gc_hold c ++ [i])) Hn); auto.
        * intros j Hne. rewrite in_app_iff. cbn [In]. split; [intros [H|[H|[]]]; [exact H|congruence]|intros H; left; exact H].
        * split; [intros _; exists m; exact Hpc'|intros _; apply in_or_app; right; left; reflexivity].
      + apply wf_upd; auto. destruct Wt as [Wa Ws Ww Wi]. constructor.
        * rewrite Htodo, Hb. exact Wa.
        * rewrite Htodo, Hb. exact Ws.
        * intros [m' Hm']. congruence.
        * intros _. rewrite Hg, Hf, Hc. apply Wi. left. exact Hw.
      + rewrite run_holders_app, run_holders_cons, run_holders_nil.
        rewrite (cur_of_upd_same _ i t _ Hn).
        rewrite (run_holders_ext (gc_thr c) (upd i t' (gc_thr c)) (gc_hold c)) by exact Hcu.
        rewrite EQ. rewrite fulls_app, fulls_cons.
        rewrite (fulls_ext (gc_thr c) (upd i t' (gc_thr c)) (gc_hold c)) by exact Hfu.
        rewrite (full_of_upd_same _ i t _ Hn). cbn [fulls map].
        rewrite (app_assoc (gc_log c)), serial_bodies_snoc.
        rewrite Hc, Hf. rewrite (w_wait t Wt Hw). reflexivity.
      + rewrite fulls_app, fulls_cons. cbn [fulls map].
        rewrite (fulls_ext (gc_thr c) (upd i t' (gc_thr c)) (gc_hold c)) by exact Hfu.
        rewrite (full_of_upd_same _ i t _ Hn), Hf.
        destruct (lpending_upd (gc_thr c) i t t' Hn) as [l1 [l2 [E1 E2]]].
        rewrite E2. rewrite E1 in PM. unfold lpend in *. rewrite Hpc in PM. rewrite Hpc', Hb. cbn [app] in *.
        eapply Permutation_trans; [apply perm_enter|]. exact PM.
    - (* the section is left *)
      assert (Hh : is_hold t) by (exists m; exact Hpc).
      assert (Hin : In i (gc_hold c)) by (apply (gi_hold c G); eauto).
      destruct (nodup_split i _ (gi_nodup c G) Hin) as [h1 [h2 [Eh [N1 N2]]]].
      assert (Hrem : remove_nat i (gc_hold c) = h1 ++ h2) by (rewrite Eh; apply remove_nat_split; assumption).
      assert (Hne12 : forall j, In j (h1 ++ h2) -> j <> i).
      { intros j Hj ->. apply in_app_or in Hj. destruct Hj; contradiction. }
      assert (Hno' : ~ is_hold t') by (intros [m' Hm']; congruence).
      assert (Ecur : cur_of (gc_thr c) i = []) by (unfold cur_of; rewrite Hn; exact Hcur).
      assert (Efull : full_of (gc_thr c) i = lt_full t) by (unfold full_of; rewrite Hn; reflexivity).
      rewrite Hrem.
      constructor; cbn [gc_gm gc_thr gc_st gc_hold gc_log].
      + exact I'.
      + pose proof (gi_nodup c G) as Nd. rewrite Eh in Nd. exact (NoDup_remove_1 _ _ _ Nd).
      + apply (hold_iff_upd c i t _ (fun j => In j (h1 ++ h2)) Hn); auto.
        * intros j Hne. rewrite Eh, !in_app_iff. cbn [In]. split; [intros [H|H]; auto|intros [H|[H|H]]; auto; congruence].
        * split; [intros H; exfalso; exact (Hne12 i H eq_refl)|intros H; contradiction].
      + apply wf_upd; auto. destruct Wt as [Wa Ws Ww Wi]. constructor.
        * rewrite Htodo, Hb. exact Wa.
        * rewrite Htodo, Hb. exact Ws.
        * intros [m' Hm']. congruence.
        * intros [[m' Hm']|[m' Hm']]; congruence.
      + rewrite (run_holders_ext (gc_thr c) (upd i t' (gc_thr c))) by (intros j Hj; apply cur_of_upd_other; apply Hne12; exact Hj).
        rewrite (fulls_ext (gc_thr c) (upd i t' (gc_thr c))) by (intros j Hj; apply full_of_upd_other; apply Hne12; exact Hj).
        assert (Eold : run_holders (gc_thr c) (h1 ++ h2) (gc_st c) = run_holders (gc_thr c) (gc_hold c) (gc_st c)).
        { rewrite Eh, !run_holders_app, run_holders_cons. rewrite Ecur. reflexivity. }
        rewrite Eold, EQ, Eh. rewrite !fulls_app, fulls_cons, Efull.
        rewrite <- !app_assoc. rewrite !serial_bodies_app. cbn [app]. rewrite !serial_bodies_cons.
        rewrite ?serial_bodies_nil.
        f_equal. symmetry. apply body_past_serial.
        intros b' Hb'. unfold fulls in Hb'. apply in_map_iff in Hb'. destruct Hb' as [j [<- Hj]].
        assert (Hjh : In j (gc_hold c)) by (rewrite Eh; apply in_or_app; left; exact Hj).
        apply (gi_hold c G) in Hjh. destruct Hjh as [tj [Hnj Hhj]].
        assert (Hne : j <> i) by (intros ->; contradiction).
        unfold full_of. rewrite Hnj.
        exact (inside_commute c j i tj t G Hne Hnj Hn Hhj Hh).
      + rewrite (fulls_ext (gc_thr c) (upd i t' (gc_thr c))) by (intros j Hj; apply full_of_upd_other; apply Hne12; exact Hj).
        rewrite (lpending_same _ i t) by (auto; unfold lpend; rewrite Hpc, Hpc', Hb; reflexivity).
        rewrite Eh in PM. rewrite fulls_app, fulls_cons, Efull in PM. rewrite fulls_app.
        eapply Permutation_trans; [apply perm_leave|]. exact PM.
    - (* the next section is picked *)
      assert (Hno : ~ is_hold t) by (intros [m' Hm']; congruence).
      assert (Hno' : ~ is_hold t') by (intros [m' Hm']; congruence).
      destruct (holders_untouched c i t t' G Hn Hno) as [Hcu Hfu].
      destruct Wt as [Wa Ws Ww Wi]. rewrite Htodo in Wa, Ws.
      destruct (lt_bodies t) as [|b bs] eqn:Hbod; [discriminate|]. cbn [hd tl] in *.
      constructor; cbn [gc_gm gc_thr gc_st gc_hold gc_log].
      + exact I'.
      + exact (gi_nodup c G).
      + apply (hold_iff_upd c i t _ (fun j => In j (gc_hold c)) Hn); auto.
        * intros j _. reflexivity.
        * split; [intros Hin; apply (gi_hold c G) in Hin; destruct Hin as [t0 [E0 H0]]; rewrite Hn in E0; injection E0 as <-; contradiction
                 |intros H; contradiction].
      + apply wf_upd; auto. constructor.
        * rewrite Htodo', Hb. cbn in Wa. lia.
        * rewrite Htodo', Hb. intros y b0 Hin. apply Ws. right. exact Hin.
        * intros _. rewrite Hc, Hf. reflexivity.
        * intros _. rewrite Hg, Hf, Hc. split; [apply Ws; left; reflexivity|exists []; reflexivity].
      + rewrite (run_holders_ext (gc_thr c) (upd i t' (gc_thr c))) by exact Hcu. rewrite (fulls_ext (gc_thr c) (upd i t' (gc_thr c))) by exact Hfu. exact EQ.
      + rewrite (fulls_ext (gc_thr c) (upd i t' (gc_thr c))) by exact Hfu.
        rewrite (lpending_same _ i t); [exact PM|exact Hn|].
        unfold lpend. rewrite Hpc, Hpc', Hf, Hb, Hbod. reflexivity.
    - (* anything else *)
      assert (Hno : ~ is_hold t) by (intros [m' Hm']; exact (Ho m' Hm')).
      assert (Hno' : ~ is_hold t') by (intros [m' Hm']; exact (Ho' m' Hm')).
      destruct (holders_untouched c i t t' G Hn Hno) as [Hcu Hfu].
      constructor; cbn [gc_gm gc_thr gc_st gc_hold gc_log].
      + exact I'.
      + exact (gi_nodup c G).
      + apply (hold_iff_upd c i t _ (fun j => In j (gc_hold c)) Hn); auto.
        * intros j _. reflexivity.
        * split; [intros Hin; apply (gi_hold c G) in Hin; destruct Hin as [t0 [E0 H0]]; rewrite Hn in E0; injection E0 as <-; contradiction
                 |intros H; contradiction].
      + apply wf_upd; auto. destruct Wt as [Wa Ws Ww Wi]. constructor.
        * rewrite Htodo, Hb. exact Wa.
        * rewrite Htodo, Hb. exact Ws.
        * intros [m' Hm']. rewrite Hc, Hf. apply Ww. destruct Hpcs as [E|[_ E]]; [exists m'; congruence|congruence].
        * intros [[m' Hm']|Hh]; [|contradiction]. rewrite Hg, Hf, Hc. apply Wi. left.
          destruct Hpcs as [E|[_ E]]; [exists m'; congruence|congruence].
      + rewrite (run_holders_ext (gc_thr c) (upd i t' (gc_thr c))) by exact Hcu. rewrite (fulls_ext (gc_thr c) (upd i t' (gc_thr c))) by exact Hfu. exact EQ.
      + rewrite (fulls_ext (gc_thr c) (upd i t' (gc_thr c))) by exact Hfu.
        rewrite (lpending_same _ i t); [exact PM|exact Hn|].
        unfold lpend. rewrite Hf, Hb. destruct Hpcs as [E|[[r Er] E]]; [rewrite E; reflexivity|rewrite Er, E; reflexivity].
  Qed.
  Lemma GI_grun sched : forall c, GI c -> GI (grun sched c).
  Proof. induction sched as [|i r IH]; intros c G; [exact G|]. cbn. apply IH, GI_gstep, G. Qed.

  Lemma ginit_thread t : In t (gc_thr (ginit progs s0)) ->
    exists p, In p progs /\ t = mkLT (mkT PIdle 1%positive (map fst p)) [] [] (map snd p).
  Proof.
    unfold ginit. cbn [gc_thr]. intros Hin. apply in_map_iff in Hin. destruct Hin as [p [<- Hp]]. eauto.
  Qed.

  Lemma GI_init : GI (ginit progs s0).
  Proof.
    constructor.
    - unfold gproj, ginit. cbn [gc_gm gc_thr]. rewrite map_map. cbn [lt_thr].
      replace (map (fun p : list (group * body) => mkT PIdle 1%positive (map fst p)) progs)
        with (c_thr (init (map (map fst) progs))) by (unfold init; cbn [c_thr]; rewrite map_map; reflexivity).
      apply (inv_init (map (map fst) progs)).
    - constructor.
    - intros i. split; [intros []|]. intros [t [Hn [m Hm]]]. apply nth_error_In in Hn. apply ginit_thread in Hn.
      destruct Hn as [p [_ ->]]. discriminate.
    - intros t Hin. apply ginit_thread in Hin. destruct Hin as [p [Hp ->]]. constructor; cbn [lt_thr lt_cur lt_full lt_bodies t_todo t_pc t_grp].
      + rewrite !map_length. reflexivity.
      + intros x b Hin. rewrite combine_fst_snd in Hin. unfold secs. apply in_concat. eauto.
      + intros [m Hm]. discriminate.
      + intros [[m Hm]|[m Hm]]; discriminate.
    - reflexivity.
    - unfold ginit. cbn [gc_log gc_hold gc_thr fulls map app]. unfold lpending, secs.
      rewrite concat_map. rewrite flat_map_concat_map, map_map.
      apply Permutation_refl.
  Qed.

  (** the full statement: ONE shared state, commuting actions of different groups *)
  Theorem global_serialise_proof (sched : list nat) :
    let c := grun sched (ginit progs s0) in
    (forall t, In t (gc_thr c) -> ldone t) ->
    exists order, Permutation order (map snd secs) /\ gc_st c = serial_bodies order s0.
  Proof.
    intros c Hd. assert (G : GI c) by (apply GI_grun, GI_init).
    assert (Hh : gc_hold c = []).
    { destruct (gc_hold c) as [|i r] eqn:E; [reflexivity|exfalso].
      assert (Hin : In i (gc_hold c)) by (rewrite E; left; reflexivity).
      apply (gi_hold c G) in Hin. destruct Hin as [t [Hn [m Hm]]].
      destruct (Hd t (nth_error_In _ _ Hn)) as [Hp _]. congruence. }
    assert (Hl : lpending (gc_thr c) = []).
    { unfold lpending. apply flat_map_nil_all. intros t Ht. destruct (Hd t Ht) as [Hp Htd].
      pose proof (w_al t (gi_wf c G t Ht)) as Wa. rewrite Htd in Wa. cbn in Wa.
      unfold lpend. rewrite Hp. destruct (lt_bodies t); [reflexivity|discriminate]. }
    exists (gc_log c). split.
    - pose proof (gi_perm c G) as PM. rewrite Hh, Hl in PM. cbn [fulls map] in PM. rewrite !app_nil_r in PM. exact PM.
    - pose proof (gi_eq c G) as EQ. rewrite Hh in EQ. cbn [fulls map] in EQ. rewrite app_nil_r in EQ. exact EQ.
  Qed.
End Global.

(** ** non-vacuity: two groups acting on the two halves of a pair; the actions of
    different groups commute, the two bodies interleave action by action, and
    the final state is a sequential order's *)
Definition gx_a1 : nat * nat -> nat * nat := fun s => (fst s + 1, snd s).
Definition gx_a2 : nat * nat -> nat * nat := fun s => (fst s * 2, snd s).
Definition gx_b1 : nat * nat -> nat * nat := fun s => (fst s, snd s + 5).
Definition gx_b2 : nat * nat -> nat * nat := fun s => (fst s, snd s * 3).
Definition gx_progs : list (list (group * body (nat * nat))) :=
  [[(1%positive, [gx_a1; gx_a2])]; [(2%positive, [gx_b1; gx_b2])]].
(* both take their locks, then a1 b1 a2 b2, then both release *)
Definition gx_sched : list nat := [0; 0; 1; 1; 0; 1; 0; 1; 0; 0; 1; 1].

Lemma gx_commute : forall x bx y by_, In (x, bx) (secs gx_progs) -> In (y, by_) (secs gx_progs) -> x <> y -> acts_commute bx by_.
Proof.
  intros x bx y by_ Hx Hy Hne f g Hf Hg s. cbn in Hx, Hy.
  destruct Hx as [Hx|[Hx|[]]]; destruct Hy as [Hy|[Hy|[]]]; injection Hx as <- <-; injection Hy as <- <-;
    try (exfalso; apply Hne; reflexivity);
    cbn in Hf, Hg;
    destruct Hf as [<-|[<-|[]]]; destruct Hg as [<-|[<-|[]]]; reflexivity.
Qed.

Lemma gx_interleaved :
  forallb (fun t => done_b (lt_thr t)) (gc_thr (grun gx_sched (ginit gx_progs (0, 0)))) = true
  /\ gc_st (grun gx_sched (ginit gx_progs (0, 0))) = (2, 15)
  /\ gc_st (grun [0; 0; 1; 1; 0; 1] (ginit gx_progs (0, 0))) = (1, 5)
  /\ gc_hold (grun [0; 0; 1; 1; 0; 1] (ginit gx_progs (0, 0))) = [0; 1].
Proof. vm_compute. repeat split. Qed.
