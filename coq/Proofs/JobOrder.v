(** Proofs about Model/JobOrder.v: container/heap is a proved component
    (sift-up / sift-down restore the heap invariant, Pop returns a least element),
    indexOfLast designates a maximum of the heap, so a bounded PriorityQueue holds
    the [depth] best of everything pushed; the comparator chain is a strict total
    order; leaf queues are only touched by heap pushes and pops; and the
    decision-level statement of C16 for every queue depth. *)
From Coq Require Import List ZArith Bool Lia ZifyBool ZifyNat Permutation Sorted.
From KaiV Require Import Model.JobOrder Model.JobOrderSpec.
Import ListNotations.
Set Default Timeout 60.
Ltac Zify.zify_post_hook ::= Z.div_mod_to_equations.

(** * Lists with in-place update *)
Section ListFacts.
  Context {A : Type}.
  Local Open Scope nat_scope.

  Lemma length_upd : forall (l : list A) i x, length (upd l i x) = length l.
  Proof. induction l as [|y l IH]; intros [|i] x; cbn; auto. Qed.

  Lemma nth_error_upd : forall (l : list A) i x k,
      nth_error (upd l i x) k =
      if (k =? i)%nat then (if (i <? length l)%nat then Some x else None) else nth_error l k.
  Proof.
    induction l as [|y l IH]; intros i x k.
    - cbn [upd length]. replace (nth_error (@nil A) k) with (@None A) by (destruct k; reflexivity).
      destruct (k =? i)%nat; reflexivity.
    - destruct i as [|i], k as [|k]; cbn [upd nth_error length]; try reflexivity.
      rewrite IH. change (S k =? S i)%nat with (k =? i)%nat.
      change (S i <? S (length l))%nat with (i <? length l)%nat. reflexivity.
  Qed.

  Lemma nth_error_in_range : forall (l : list A) k, (k < length l)%nat -> exists x, nth_error l k = Some x.
  Proof.
    intros l k Hk. destruct (nth_error l k) eqn:E; eauto.
    apply nth_error_None in E. lia.
  Qed.

  Lemma nth_error_lt : forall (l : list A) k x, nth_error l k = Some x -> (k < length l)%nat.
  Proof. intros l k x H. apply nth_error_Some. congruence. Qed.

  Lemma length_swap : forall (l : list A) i j, length (swap l i j) = length l.
  Proof.
    intros. unfold swap. destruct (nth_error l i), (nth_error l j); auto.
    now rewrite !length_upd.
  Qed.

  Lemma swap_spec : forall (l : list A) i j k,
      (i < length l)%nat -> (j < length l)%nat ->
      nth_error (swap l i j) k =
      if (k =? j)%nat then nth_error l i else if (k =? i)%nat then nth_error l j else nth_error l k.
  Proof.
    intros l i j k Hi Hj. unfold swap.
    destruct (nth_error_in_range l i Hi) as [a Ha], (nth_error_in_range l j Hj) as [b Hb].
    rewrite Ha, Hb, !nth_error_upd, length_upd.
    destruct (k =? j)%nat eqn:E1, (k =? i)%nat eqn:E2;
      repeat match goal with |- context [(?a <? ?b)%nat] => destruct (a <? b)%nat eqn:? end;
      try reflexivity; try lia.
  Qed.

  Lemma swap_perm : forall (l : list A) i j,
      (i < length l)%nat -> (j < length l)%nat -> Permutation l (swap l i j).
  Proof.
    intros l i j Hi Hj. apply Permutation_nth_error. split; [now rewrite length_swap|].
    exists (fun k => if (k =? j)%nat then i else if (k =? i)%nat then j else k). split.
    - intros x y. destruct (x =? j)%nat eqn:?, (x =? i)%nat eqn:?, (y =? j)%nat eqn:?, (y =? i)%nat eqn:?; lia.
    - intros k. rewrite swap_spec by assumption.
      destruct (k =? j)%nat, (k =? i)%nat; reflexivity.
  Qed.

  Lemma nth_error_firstn_lt : forall (l : list A) n k, (k < n)%nat -> nth_error (firstn n l) k = nth_error l k.
  Proof.
    induction l as [|y l IH]; intros [|n] [|k] H; cbn; try reflexivity; try lia.
    apply IH. lia.
  Qed.

  Lemma split_last : forall (l : list A) n x,
      length l = S n -> nth_error l n = Some x -> l = firstn n l ++ [x].
  Proof.
    induction l as [|y l IH]; intros n x Hl Hn; [discriminate|].
    destruct n as [|n].
    - destruct l; [|discriminate]. cbn in Hn. now inversion Hn.
    - cbn [firstn app]. f_equal. apply IH; [cbn in Hl; lia | exact Hn].
  Qed.
End ListFacts.

(** * container/heap *)
Section HeapProofs.
  Context {A : Type}.
  Local Open Scope nat_scope.
  Variable less : A -> A -> bool.

  (** strict weak order *)
  Definition irreflexive := forall a, less a a = false.
  Definition transitive := forall a b c, less a b = true -> less b c = true -> less a c = true.
  Definition neg_transitive := forall a b c, less a b = false -> less b c = false -> less a c = false.
  Definition strict_weak := irreflexive /\ transitive /\ neg_transitive.

  Hypothesis SW : strict_weak.

  Lemma sw_asym : forall a b, less a b = true -> less b a = false.
  Proof.
    intros a b H. destruct SW as (Hi & Ht & _). destruct (less b a) eqn:E; auto.
    rewrite <- (Hi a). symmetry. eapply Ht; eauto.
  Qed.

  Lemma sw_lt_le : forall a b c, less a b = true -> less c b = false -> less c a = false.
  Proof.
    intros a b c H1 H2. destruct SW as (_ & Ht & _). destruct (less c a) eqn:E; auto.
    rewrite <- H2. symmetry. eapply Ht; eauto.
  Qed.

  (** the edge (parent k, k) respects the order *)
  Definition edge (l : list A) (k : nat) : Prop :=
    forall p c, nth_error l ((k - 1) / 2) = Some p -> nth_error l k = Some c -> less c p = false.
  Definition heap_upto (l : list A) (n : nat) : Prop := forall k, (0 < k < n)%nat -> edge l k.
  Definition heap_ok (l : list A) : Prop := heap_upto l (length l).

  Lemma edge_0 : forall l, edge l 0.
  Proof.
    intros l p c Hp Hc. change ((0 - 1) / 2)%nat with 0%nat in Hp.
    rewrite Hp in Hc. inversion Hc; subst. apply SW.
  Qed.

  Lemma lessi_true : forall l a b, lessi less l a b = true ->
      exists x y, nth_error l a = Some x /\ nth_error l b = Some y /\ less x y = true.
  Proof.
    unfold lessi. intros l a b H. destruct (nth_error l a), (nth_error l b); try discriminate. eauto.
  Qed.

  Lemma lessi_false : forall l a b x y, lessi less l a b = false ->
      nth_error l a = Some x -> nth_error l b = Some y -> less x y = false.
  Proof. unfold lessi. intros l a b x y H Ha Hb. now rewrite Ha, Hb in H. Qed.

  Definition down_post (l : list A) (i n : nat) (l' : list A) (i' : nat) : Prop :=
    length l' = length l /\ Permutation l l'
    /\ (forall k, (n <= k)%nat -> nth_error l' k = nth_error l k)
    /\ (forall k, (k < i)%nat -> nth_error l' k = nth_error l k)
    /\ (i <= i')%nat /\ (i' = i -> l' = l)
    /\ (forall k, (0 < k < n)%nat -> k <> i -> edge l' k)
    /\ ((i < i')%nat -> edge l' i).

  Lemma h_down_spec : forall fuel l i n l' i',
      (n <= length l)%nat ->
      h_down less fuel l i n = Some (l', i') ->
      (forall k, (0 < k < n)%nat -> k <> i -> ((k - 1) / 2)%nat <> i -> edge l k) ->
      (forall c p x, (0 < i)%nat -> (c < n)%nat -> ((c - 1) / 2)%nat = i -> (0 < c)%nat ->
                     nth_error l ((i - 1) / 2) = Some p -> nth_error l c = Some x -> less x p = false) ->
      down_post l i n l' i'.
  Proof.
    induction fuel as [|fuel IH]; intros l i n l' i' Hn Hd Ha Hb; [discriminate|].
    cbn [h_down] in Hd.
    destruct (n <=? 2 * i + 1)%nat eqn:E1.
    { inversion Hd; subst l' i'. unfold down_post. repeat split; auto; try lia.
      intros k Hk Hki. apply Ha; auto. lia. }
    set (j1 := (2 * i + 1)%nat) in *.
    assert (Ej1 : j1 = 2 * i + 1) by reflexivity. clearbody j1.
    remember (if ((j1 + 1 <? n)%nat && lessi less l (j1 + 1) j1) then (j1 + 1)%nat else j1) as j eqn:Ej.
    assert (Hj : (j = j1 \/ j = j1 + 1) /\ (j < n)%nat).
    { destruct ((j1 + 1 <? n)%nat) eqn:E2; cbn in Ej.
      - destruct (lessi less l (j1 + 1) j1); subst j; lia.
      - subst j. lia. }
    destruct Hj as [Hj Hjn].
    assert (Hij : (i < j)%nat) by lia.
    assert (Hil : (i < length l)%nat) by lia.
    assert (Hjl : (j < length l)%nat) by lia.
    (* the other child, when it exists, is not smaller than the chosen one *)
    assert (Hother : forall k x y, (k < n)%nat -> ((k - 1) / 2)%nat = i -> (0 < k)%nat -> k <> j ->
                                   nth_error l k = Some x -> nth_error l j = Some y -> less x y = false).
    { intros k x y Hk Hpk Hk0 Hkj Hx Hy.
      assert (Hk' : k = j1 \/ k = (j1 + 1)%nat) by lia.
      destruct ((j1 + 1 <? n)%nat) eqn:E2; cbn in Ej.
      - destruct (lessi less l (j1 + 1) j1) eqn:E3.
        + subst j. assert (k = j1) by lia. subst k.
          apply lessi_true in E3. destruct E3 as (a & b & Ha' & Hb' & Hab).
          rewrite Ha' in Hy. rewrite Hb' in Hx. inversion Hx; inversion Hy; subst.
          now apply sw_asym.
        + subst j. assert (k = (j1 + 1)%nat) by lia. subst k.
          eapply lessi_false; eauto.
      - subst j. lia. }
    destruct (lessi less l j i) eqn:E3; cbn [negb] in Hd.
    - (* swap and continue *)
      apply lessi_true in E3. destruct E3 as (vj & vi & Hvj & Hvi & Hlt).
      apply IH in Hd; [| now rewrite length_swap | |].
      + destruct Hd as (L & P & Hge & Hlt' & Hle & Heq & He & Hmv).
        rewrite length_swap in L.
        unfold down_post. repeat split; try lia.
        * apply Permutation_trans with (swap l i j); [apply swap_perm; lia | exact P].
        * intros k Hk. rewrite Hge by lia. rewrite swap_spec by lia.
          destruct (k =? j)%nat eqn:?, (k =? i)%nat eqn:?; try lia. reflexivity.
        * intros k Hk. rewrite Hlt' by lia. rewrite swap_spec by lia.
          destruct (k =? j)%nat eqn:?, (k =? i)%nat eqn:?; try lia. reflexivity.
        * intros k Hk Hki. destruct (Nat.eq_dec k j) as [->|Hkj]; [|now apply He].
          destruct (Nat.eq_dec i' j) as [Hi'|Hi']; [|apply Hmv; lia].
          rewrite (Heq Hi'). intros p c Hp Hc.
          rewrite swap_spec in Hp, Hc by lia.
          replace ((j - 1) / 2)%nat with i in Hp by lia.
          rewrite Nat.eqb_refl in Hc.
          destruct (i =? j)%nat eqn:?; [lia|]. rewrite Nat.eqb_refl in Hp.
          rewrite Hvj in Hp. rewrite Hvi in Hc. inversion Hp; inversion Hc; subst.
          now apply sw_asym.
        * intros _. destruct (Nat.eq_dec i 0) as [->|Hi0]; [apply edge_0|].
          apply He; lia.
      + (* (a) for the swapped list at j *)
        intros k Hk Hkj Hpkj p c Hp Hc.
        rewrite swap_spec in Hp, Hc by lia.
        destruct (Nat.eq_dec k i) as [->|Hki].
        * (* the edge above i: by (b) *)
          destruct (i =? j)%nat eqn:?; [lia|]. rewrite Nat.eqb_refl in Hc.
          destruct (((i - 1) / 2 =? j)%nat) eqn:?; [lia|].
          destruct (((i - 1) / 2 =? i)%nat) eqn:?; [lia|].
          eapply (Hb j p c); eauto; lia.
        * destruct (k =? j)%nat eqn:?; [lia|]. destruct (k =? i)%nat eqn:?; [lia|].
          destruct (((k - 1) / 2 =? j)%nat) eqn:?; [lia|].
          destruct (((k - 1) / 2 =? i)%nat) eqn:E5.
          -- (* the sibling of j *)
             eapply (Hother k c p); eauto; lia.
          -- eapply Ha; eauto; lia.
      + (* (b) for j *)
        intros c p x Hj0 Hc Hpc Hc0 Hp Hx.
        rewrite swap_spec in Hp, Hx by lia.
        replace ((j - 1) / 2)%nat with i in Hp by lia.
        destruct (i =? j)%nat eqn:?; [lia|]. rewrite Nat.eqb_refl in Hp.
        destruct (c =? j)%nat eqn:?; [lia|]. destruct (c =? i)%nat eqn:?; [lia|].
        assert (Hec : edge l c) by (apply Ha; lia).
        apply Hec; auto. now rewrite Hpc.
    - (* stop: both children are not smaller *)
      inversion Hd; subst l' i'. unfold down_post. repeat split; auto; try lia.
      intros k Hk Hki. destruct (Nat.eq_dec ((k - 1) / 2)%nat i) as [Hpk|Hpk]; [|now apply Ha].
      intros p c Hp Hc. rewrite Hpk in Hp.
      destruct (nth_error_in_range l j Hjl) as [vj Hvj].
      assert (Hji : less vj p = false) by (eapply lessi_false; eauto).
      destruct (Nat.eq_dec k j) as [->|Hkj].
      + rewrite Hvj in Hc. inversion Hc; subst. exact Hji.
      + destruct SW as (_ & _ & Hnt). eapply Hnt; [|exact Hji].
        eapply (Hother k c vj); eauto; lia.
  Qed.

  Lemma h_down_terminates : forall fuel l i n,
      (n - i < fuel)%nat -> exists r, h_down less fuel l i n = Some r.
  Proof.
    induction fuel as [|fuel IH]; intros l i n H; [lia|].
    cbn [h_down]. destruct (n <=? 2 * i + 1)%nat eqn:E1; [eauto|].
    match goal with |- context [negb ?b] => destruct b end; cbn [negb]; [|eauto].
    apply IH.
    match goal with |- context [if ?b then _ else _] => destruct b end; lia.
  Qed.

  Lemma h_up_spec : forall fuel l j n l',
      (j < n <= length l)%nat ->
      h_up less fuel l j = Some l' ->
      (forall k, (0 < k < n)%nat -> k <> j -> edge l k) ->
      (forall c p x, (0 < j)%nat -> (c < n)%nat -> ((c - 1) / 2)%nat = j -> (0 < c)%nat ->
                     nth_error l ((j - 1) / 2) = Some p -> nth_error l c = Some x -> less x p = false) ->
      length l' = length l /\ Permutation l l'
      /\ (forall k, (n <= k)%nat -> nth_error l' k = nth_error l k)
      /\ heap_upto l' n.
  Proof.
    induction fuel as [|fuel IH]; intros l j n l' Hn Hu Ha Hb; [discriminate|].
    cbn [h_up] in Hu. set (i := ((j - 1) / 2)%nat) in *.
    assert (Ei : i = (j - 1) / 2) by reflexivity. clearbody i.
    destruct (i =? j)%nat eqn:E1; cbn [orb] in Hu.
    { inversion Hu; subst l'. repeat split; auto.
      intros k Hk. apply Ha; auto. lia. }
    destruct (lessi less l j i) eqn:E2; cbn [negb] in Hu.
    - apply lessi_true in E2. destruct E2 as (vj & vi & Hvj & Hvi & Hlt).
      assert (Hij : (i < j)%nat) by lia.
      apply IH with (n := n) in Hu; [| rewrite length_swap; lia | |].
      + destruct Hu as (L & P & Hge & Hh). rewrite length_swap in L.
        repeat split; auto.
        * apply Permutation_trans with (swap l i j); [apply swap_perm; lia | exact P].
        * intros k Hk. rewrite Hge by lia. rewrite swap_spec by lia.
          destruct (k =? j)%nat eqn:?, (k =? i)%nat eqn:?; try lia. reflexivity.
      + intros k Hk Hki p c Hp Hc.
        rewrite swap_spec in Hp, Hc by lia.
        destruct (Nat.eq_dec k j) as [->|Hkj].
        * rewrite <- Ei in Hp. rewrite Nat.eqb_refl in Hc.
          destruct (i =? j)%nat eqn:?; [lia|]. rewrite Nat.eqb_refl in Hp.
          rewrite Hvj in Hp. rewrite Hvi in Hc. inversion Hp; inversion Hc; subst.
          now apply sw_asym.
        * destruct (k =? j)%nat eqn:?; [lia|]. destruct (k =? i)%nat eqn:?; [lia|].
          destruct (((k - 1) / 2 =? j)%nat) eqn:E3.
          -- (* a child of j now sits under the old parent value *)
             eapply (Hb k p c); eauto; try lia.
          -- destruct (((k - 1) / 2 =? i)%nat) eqn:E4.
             ++ (* sibling of j *)
                rewrite Hvj in Hp. inversion Hp; subst p.
                assert (Hek : edge l k) by (apply Ha; lia).
                assert (less c vi = false).
                { apply Hek; auto. replace ((k - 1) / 2)%nat with i by lia. exact Hvi. }
                eapply sw_lt_le; eauto.
             ++ eapply Ha; eauto; lia.
      + intros c p x Hi0 Hc Hpc Hc0 Hp Hx.
        rewrite swap_spec in Hp, Hx by lia.
        destruct (((i - 1) / 2 =? j)%nat) eqn:?; [lia|].
        destruct (((i - 1) / 2 =? i)%nat) eqn:?; [lia|].
        assert (Hei : edge l i) by (apply Ha; lia).
        assert (Hvip : less vi p = false) by (apply Hei; auto).
        destruct (c =? j)%nat eqn:E3.
        * rewrite Hvi in Hx. inversion Hx; subst. exact Hvip.
        * destruct (c =? i)%nat eqn:?; [lia|].
          assert (Hec : edge l c) by (apply Ha; lia).
          destruct SW as (_ & _ & Hnt). eapply Hnt; [|exact Hvip].
          apply Hec; auto. now rewrite Hpc.
    - inversion Hu; subst l'. repeat split; auto.
      intros k Hk. destruct (Nat.eq_dec k j) as [->|Hkj]; [|now apply Ha].
      intros p c Hp Hc. rewrite <- Ei in Hp. eapply lessi_false; eauto.
  Qed.

  Lemma h_up_terminates : forall fuel l j, (j < fuel)%nat -> exists r, h_up less fuel l j = Some r.
  Proof.
    induction fuel as [|fuel IH]; intros l j H; [lia|].
    cbn [h_up]. destruct (((j - 1) / 2 =? j)%nat) eqn:E; cbn [orb]; [eauto|].
    match goal with |- context [negb ?b] => destruct b end; cbn [negb]; [|eauto].
    apply IH. lia.
  Qed.

  (** the root of a heap is a least element *)
  Lemma heap_root_min : forall l n, heap_upto l n -> (n <= length l)%nat ->
      forall k r x, (k < n)%nat -> nth_error l 0 = Some r -> nth_error l k = Some x -> less x r = false.
  Proof.
    intros l n Hh Hn k. induction k as [k IH] using lt_wf_ind. intros r x Hk Hr Hx.
    destruct (Nat.eq_dec k 0) as [->|Hk0].
    - rewrite Hr in Hx. inversion Hx; subst. apply SW.
    - destruct (nth_error_in_range l ((k - 1) / 2)) as [y Hy]; [lia|].
      assert (less y r = false) by (eapply (IH ((k - 1) / 2)%nat); eauto; lia).
      assert (less x y = false) by (eapply (Hh k); eauto; lia).
      destruct SW as (_ & _ & Hnt). eapply Hnt; eauto.
  Qed.

  Lemma heap_ok_nil : heap_ok [].
  Proof. intros k Hk. cbn in Hk. lia. Qed.

  (** heap.Push keeps the invariant and adds exactly the pushed element *)
  Lemma h_push_spec : forall l x, heap_ok l ->
      exists l', h_push less l x = Ok l' /\ heap_ok l' /\ Permutation (x :: l) l'.
  Proof.
    intros l x Hh. unfold h_push.
    destruct (h_up_terminates (S (length l)) (l ++ [x]) (length l)) as [l' Hu]; [lia|].
    rewrite Hu. exists l'. split; [reflexivity|].
    apply h_up_spec with (n := S (length l)) in Hu.
    - destruct Hu as (L & P & _ & Hh'). rewrite app_length in L. cbn in L.
      split.
      + unfold heap_ok. replace (length l') with (S (length l)) by lia. exact Hh'.
      + eapply Permutation_trans; [|exact P]. apply Permutation_cons_append.
    - rewrite app_length. cbn. lia.
    - intros k Hk Hkl p c Hp Hc.
      rewrite nth_error_app1 in Hp, Hc by lia. eapply (Hh k); eauto. lia.
    - intros c p y _ Hc Hpc. lia.
  Qed.

  (** heap.Pop returns the root, which is a least element, and keeps the invariant *)
  Lemma h_pop_spec : forall l, heap_ok l -> l <> [] ->
      exists x l', h_pop less l = Ok (x, l') /\ nth_error l 0 = Some x /\ heap_ok l'
                   /\ Permutation l (x :: l') /\ (forall y, In y l -> less y x = false).
  Proof.
    intros l Hh Hne. unfold h_pop.
    destruct (length l) as [|n] eqn:El; [destruct l; [congruence|discriminate]|].
    destruct (nth_error_in_range l 0) as [x Hx]; [lia|].
    destruct (h_down_terminates (S (S n)) (swap l 0 n) 0 n) as [[l3 i'] Hd]; [lia|].
    rewrite Hd. cbn [of_opt bind fst].
    apply h_down_spec in Hd.
    - destruct Hd as (L & P & Hge & _ & _ & _ & He & _).
      rewrite length_swap in L.
      assert (H3 : nth_error l3 n = Some x).
      { rewrite Hge by lia. rewrite swap_spec by lia. now rewrite Nat.eqb_refl. }
      rewrite H3. exists x, (firstn n l3). split; [reflexivity|]. split; [exact Hx|].
      assert (Hl3 : l3 = firstn n l3 ++ [x]) by (apply split_last; auto; lia).
      split; [|split].
      + unfold heap_ok. rewrite firstn_length_le by lia.
        intros k Hk p c Hp Hc. rewrite nth_error_firstn_lt in Hp, Hc by lia.
        eapply (He k); eauto; lia.
      + eapply Permutation_trans; [apply (swap_perm l 0 n); lia|].
        eapply Permutation_trans; [exact P|].
        rewrite Hl3 at 1. apply Permutation_sym, Permutation_cons_append.
      + intros y Hy. apply In_nth_error in Hy. destruct Hy as [k Hk].
        eapply (heap_root_min l (length l)); eauto. eapply nth_error_lt; eauto.
    - rewrite length_swap. lia.
    - intros k Hk Hk0 Hpk p c Hp Hc. rewrite swap_spec in Hp, Hc by lia.
      destruct (k =? n)%nat eqn:?; [lia|]. destruct (k =? 0)%nat eqn:?; [lia|].
      destruct (((k - 1) / 2 =? n)%nat) eqn:?; [lia|].
      destruct (((k - 1) / 2 =? 0)%nat) eqn:?; [lia|].
      eapply (Hh k); eauto. lia.
    - intros c p y H0. lia.
  Qed.

  (** heap.Remove(i) removes exactly the element at index i and keeps the invariant *)
  Lemma h_remove_spec : forall l i, heap_ok l -> (i < length l)%nat ->
      exists x l', h_remove less l i = Ok (x, l') /\ nth_error l i = Some x /\ heap_ok l'
                   /\ Permutation l (x :: l').
  Proof.
    intros l i Hh Hi. unfold h_remove.
    destruct (length l) as [|n] eqn:El; [lia|].
    destruct (n <? i)%nat eqn:E0; [lia|].
    destruct (nth_error_in_range l i) as [x Hx]; [lia|].
    assert (Hfin : forall l1, length l1 = S n -> nth_error l1 n = Some x -> heap_upto l1 n -> Permutation l l1 ->
                     exists x' l', (match nth_error l1 n with Some x => Ok (x, firstn n l1) | None => Panic end) = Ok (x', l')
                                   /\ Some x = Some x' /\ heap_ok l' /\ Permutation l (x' :: l')).
    { intros l1 L1 H1 Hh1 P1. rewrite H1. exists x, (firstn n l1). repeat split; auto.
      - unfold heap_ok. rewrite firstn_length_le by lia.
        intros k Hk p c Hp Hc. rewrite nth_error_firstn_lt in Hp, Hc by lia.
        eapply (Hh1 k); eauto.
      - eapply Permutation_trans; [exact P1|].
        rewrite (split_last l1 n x L1 H1) at 1. apply Permutation_sym, Permutation_cons_append. }
    destruct (n =? i)%nat eqn:E1.
    - apply Nat.eqb_eq in E1. subst i. cbn [bind].
      destruct (Hfin l) as (x' & l' & Hr & Hxx & Hh' & P); auto.
      { intros k Hk. apply Hh. lia. }
      exists x', l'. inversion Hxx; subst. auto.
    - apply Nat.eqb_neq in E1. assert (Hin : (i < n)%nat) by lia.
      destruct (h_down_terminates (S (S n)) (swap l i n) i n) as [[l3 i'] Hd]; [lia|].
      rewrite Hd. cbn [of_opt bind fst snd].
      (* facts about the heap before the swap, read at i's neighbourhood *)
      assert (HA : forall k, (0 < k < n)%nat -> k <> i -> ((k - 1) / 2)%nat <> i -> edge (swap l i n) k).
      { intros k Hk Hki Hpk p c Hp Hc. rewrite swap_spec in Hp, Hc by lia.
        destruct (k =? n)%nat eqn:?; [lia|]. destruct (k =? i)%nat eqn:?; [lia|].
        destruct (((k - 1) / 2 =? n)%nat) eqn:?; [lia|].
        destruct (((k - 1) / 2 =? i)%nat) eqn:?; [lia|].
        eapply (Hh k); eauto. lia. }
      assert (HB : forall c p y, (0 < i)%nat -> (c < n)%nat -> ((c - 1) / 2)%nat = i -> (0 < c)%nat ->
                     nth_error (swap l i n) ((i - 1) / 2) = Some p -> nth_error (swap l i n) c = Some y -> less y p = false).
      { intros c p y Hi0 Hc Hpc Hc0 Hp Hy. rewrite swap_spec in Hp, Hy by lia.
        destruct (((i - 1) / 2 =? n)%nat) eqn:?; [lia|].
        destruct (((i - 1) / 2 =? i)%nat) eqn:?; [lia|].
        destruct (c =? n)%nat eqn:?; [lia|]. destruct (c =? i)%nat eqn:?; [lia|].
        assert (less x p = false) by (eapply (Hh i); eauto; lia).
        assert (less y x = false) by (eapply (Hh c); eauto; try lia; now rewrite Hpc).
        destruct SW as (_ & _ & Hnt). eapply Hnt; eauto. }
      pose proof Hd as Hd'.
      apply h_down_spec in Hd'; auto; [|rewrite length_swap; lia].
      destruct Hd' as (L & P & Hge & _ & Hle & Heq & He & Hmv).
      rewrite length_swap in L.
      assert (Hx3 : nth_error l3 n = Some x).
      { rewrite Hge by lia. rewrite swap_spec by lia. now rewrite Nat.eqb_refl. }
      assert (P3 : Permutation l l3).
      { eapply Permutation_trans; [apply (swap_perm l i n); lia|exact P]. }
      destruct (i <? i')%nat eqn:E2.
      + cbn [bind]. destruct (Hfin l3) as (x' & l' & Hr & Hxx & Hh' & P'); auto; try lia.
        { intros k Hk. destruct (Nat.eq_dec k i) as [->|Hki]; [apply Hmv; lia|now apply He]. }
        exists x', l'. inversion Hxx; subst. auto.
      + assert (i' = i) by lia. subst i'. rewrite (Heq eq_refl) in *.
        destruct (h_up_terminates (S i) (swap l i n) i) as [l4 Hu]; [lia|].
        rewrite Hu. cbn [of_opt bind].
        apply h_up_spec with (n := n) in Hu; auto; [|rewrite length_swap; lia].
        destruct Hu as (L4 & P4 & Hge4 & Hh4). rewrite length_swap in L4.
        destruct (Hfin l4) as (x' & l' & Hr & Hxx & Hh' & P'); auto; try lia.
        { rewrite Hge4 by lia. exact Hx3. }
        { eapply Permutation_trans; [exact P3|exact P4]. }
        exists x', l'. inversion Hxx; subst. auto.
  Qed.

  (** heap.Fix(i) after the element at i changed: the rest of the heap is in order *)
  Lemma h_fix_spec : forall l i, (i < length l)%nat ->
      (forall k, (0 < k < length l)%nat -> k <> i -> ((k - 1) / 2)%nat <> i -> edge l k) ->
      (forall c p x, (0 < i)%nat -> (c < length l)%nat -> ((c - 1) / 2)%nat = i -> (0 < c)%nat ->
                     nth_error l ((i - 1) / 2) = Some p -> nth_error l c = Some x -> less x p = false) ->
      exists l', h_fix less l i = Ok l' /\ heap_ok l' /\ Permutation l l'.
  Proof.
    intros l i Hi HA HB. unfold h_fix.
    destruct (h_down_terminates (S (length l)) l i (length l)) as [[l3 i'] Hd]; [lia|].
    rewrite Hd. cbn [of_opt bind fst snd].
    pose proof Hd as Hd'. apply h_down_spec in Hd'; auto.
    destruct Hd' as (L & P & _ & _ & Hle & Heq & He & Hmv).
    destruct (i <? i')%nat eqn:E2.
    - exists l3. repeat split; auto. unfold heap_ok. rewrite L.
      intros k Hk. destruct (Nat.eq_dec k i) as [->|Hki]; [apply Hmv; lia|now apply He].
    - assert (i' = i) by lia. subst i'. rewrite (Heq eq_refl) in *.
      destruct (h_up_terminates (S i) l i) as [l4 Hu]; [lia|].
      assert (Hgoal : exists l', of_opt (h_up less (S i) l i) = Ok l' /\ heap_ok l' /\ Permutation l l').
      { rewrite Hu. exists l4. split; [reflexivity|].
        apply h_up_spec with (n := length l) in Hu; auto; try lia.
        destruct Hu as (L4 & P4 & _ & Hh4). split; auto. unfold heap_ok. now rewrite L4. }
      destruct (i =? 0)%nat; [exact Hgoal|].
      destruct (i <? length l)%nat eqn:E3; [exact Hgoal|lia].
  Qed.

  (** ** PriorityQueue.Push with a size bound: indexOfLast *)
  (** an element that no leaf of the heap is ordered after is a maximum of the
      whole heap (every element has a leaf below it) *)
  Lemma heap_leaf_max : forall l m, heap_ok l ->
      (forall k y, (length l / 2 <= k)%nat -> nth_error l k = Some y -> less m y = false) ->
      forall k y, nth_error l k = Some y -> less m y = false.
  Proof.
    intros l m Hh Hleaf k. remember (length l - k)%nat as d eqn:Ed. revert k Ed.
    induction d as [d IH] using lt_wf_ind. intros k Ed y Hy.
    assert (Hk : (k < length l)%nat) by (eapply nth_error_lt; eauto).
    destruct (Nat.le_gt_cases (length l / 2) k) as [Hge|Hlt]; [eapply Hleaf; eauto|].
    assert (Hc : (2 * k + 1 < length l)%nat) by lia.
    destruct (nth_error_in_range l (2 * k + 1) Hc) as [z Hz].
    assert (Hmz : less m z = false).
    { eapply (IH (length l - (2 * k + 1))%nat); [lia|reflexivity|exact Hz]. }
    assert (Hzy : less z y = false).
    { eapply (Hh (2 * k + 1)%nat); [lia| |exact Hz].
      replace ((2 * k + 1 - 1) / 2)%nat with k by lia. exact Hy. }
    destruct SW as (_ & _ & Hnt). eapply Hnt; eauto.
  Qed.

  (** the scan keeps in [last] the first element of the scanned range that no
      element of the range is ordered after *)
  Lemma iol_scan_spec : forall l steps last i lo,
      (lo <= last < i)%nat -> (i + steps = length l)%nat ->
      (forall k m y, (lo <= k < i)%nat -> nth_error l last = Some m -> nth_error l k = Some y -> less m y = false) ->
      (lo <= iol_scan less l last i steps < length l)%nat
      /\ (forall k m y, (lo <= k < length l)%nat -> nth_error l (iol_scan less l last i steps) = Some m ->
                        nth_error l k = Some y -> less m y = false).
  Proof.
    intros l steps. induction steps as [|s IH]; intros last i lo Hr Hn Hinv; cbn [iol_scan].
    - split; [lia|]. intros k m y Hk. apply Hinv. lia.
    - apply IH; [destruct (lessi less l last i); lia | lia |].
      intros k m y Hk Hm Hy. destruct (lessi less l last i) eqn:E.
      + apply lessi_true in E. destruct E as (vl & vi & Hvl & Hvi & Hlt).
        rewrite Hvi in Hm. inversion Hm; subst m.
        destruct (Nat.eq_dec k i) as [->|Hki].
        * rewrite Hvi in Hy. inversion Hy; subst. apply SW.
        * assert (Hvy : less vl y = false) by (eapply (Hinv k); eauto; lia).
          destruct (less vi y) eqn:E2; auto.
          destruct SW as (_ & Ht & _). rewrite <- Hvy. symmetry. eapply Ht; eauto.
      + destruct (Nat.eq_dec k i) as [->|Hki].
        * eapply lessi_false; eauto.
        * eapply (Hinv k); eauto. lia.
  Qed.

  (** indexOfLast() is a valid index and no element of the heap is ordered after
      the item it designates *)
  Lemma index_of_last_spec : forall l, heap_ok l -> l <> [] ->
      (index_of_last less l < length l)%nat
      /\ (forall m, nth_error l (index_of_last less l) = Some m -> forall y, In y l -> less m y = false).
  Proof.
    intros l Hh Hne. unfold index_of_last.
    assert (Hlen : (0 < length l)%nat) by (destruct l; [congruence|cbn; lia]).
    destruct (iol_scan_spec l (length l - S (length l / 2)) (length l / 2) (S (length l / 2)) (length l / 2))
      as [Hr Hmax]; [lia | lia | |].
    { intros k m y Hk Hm Hy. assert (k = (length l / 2)%nat) by lia. subst k.
      rewrite Hm in Hy. inversion Hy; subst. apply SW. }
    split; [lia|]. intros m Hm y Hy.
    apply In_nth_error in Hy. destruct Hy as [k Hk].
    eapply (heap_leaf_max l m Hh); [|exact Hk].
    intros k' y' Hk' Hy'. eapply (Hmax k'); eauto.
    split; [exact Hk'|]. eapply nth_error_lt; eauto.
  Qed.

  (** PriorityQueue.Push: the heap invariant is kept; below the bound (or without
      one) exactly the pushed element is added; at the bound one element [y] is
      dropped and nothing in the queue (the pushed element included) is ordered
      after [y] *)
  Lemma pq_push_spec : forall d l x, heap_ok l ->
      exists l', pq_push less d l x = Ok l' /\ heap_ok l'
        /\ ((d = -1 \/ Z.of_nat (length l) < d)%Z -> Permutation (x :: l) l')
        /\ ((d <> -1 /\ d <= Z.of_nat (length l))%Z ->
             exists y, Permutation (x :: l) (y :: l') /\ forall z, In z (x :: l) -> less y z = false).
  Proof.
    intros d l x Hh. unfold pq_push.
    destruct (h_push_spec l x Hh) as (l1 & Hp & Hh1 & P1). rewrite Hp. cbn [bind].
    assert (L1 : length l1 = S (length l)) by (rewrite <- (Permutation_length P1); reflexivity).
    destruct (negb (d =? -1)%Z && (d <? Z.of_nat (length l1))%Z) eqn:E.
    - assert (Hne : l1 <> []) by (destruct l1; [discriminate|congruence]).
      destruct (index_of_last_spec l1 Hh1 Hne) as [Hi Hmax].
      destruct (h_remove_spec l1 (index_of_last less l1) Hh1 Hi) as (y & l' & Hr & Hy & Hh' & P').
      rewrite Hr. cbn [bind snd]. exists l'. split; [reflexivity|]. split; [exact Hh'|]. split; [lia|].
      intros _. exists y. split; [eapply Permutation_trans; eauto|].
      intros z Hz. apply (Hmax y Hy). eapply Permutation_in; eauto.
    - exists l1. split; [reflexivity|]. split; [exact Hh1|]. split; [auto|]. lia.
  Qed.
End HeapProofs.

(** * The comparator chain is a strict total order *)
Open Scope Z_scope.

Definition rank (j : job) : Z :=
  match min_available_state j with
  | (true, _, _) => 0
  | (false, _, true) => 1
  | _ => 2
  end.

Lemma mas_go_cases : forall sgs e,
    mas_go sgs e = (true, false, false) \/ mas_go sgs e = (false, true, false) \/ mas_go sgs e = (false, false, true).
Proof.
  induction sgs as [|[a m] r IH]; intros e; cbn [mas_go].
  - destruct e; auto.
  - destruct (a <? m); auto.
Qed.

Lemma elastic_cmp_rank : forall l r,
    elastic_cmp l r = if rank l <? rank r then -1 else if rank r <? rank l then 1 else 0.
Proof.
  intros l r. unfold elastic_cmp, rank, min_available_state.
  destruct (mas_go_cases (j_subgroups l) true) as [H|[H|H]],
           (mas_go_cases (j_subgroups r) true) as [H'|[H'|H']]; rewrite H, H'; reflexivity.
Qed.

(** minAvailableState does not depend on the order in which the pod sets are visited *)
Lemma mas_go_decl : forall sgs e,
    mas_go sgs e =
    if existsb (fun am => fst am <? snd am) sgs then (true, false, false)
    else let ex := e && forallb (fun am => negb (snd am <? fst am)) sgs in (false, negb ex, ex).
Proof.
  induction sgs as [|[a m] r IH]; intros e; cbn [mas_go existsb forallb fst snd].
  - now rewrite andb_true_r.
  - destruct (a <? m); cbn [orb]; [reflexivity|]. rewrite IH.
    destruct (existsb _ r); [reflexivity|]. destruct (m <? a), e; reflexivity.
Qed.

(** the order the chain decides: priority descending, then below / at / above
    minAvailable, then creation time ascending, then UID *)
Definition lexlt (a b : job) : Prop :=
  j_prio b < j_prio a
  \/ (j_prio a = j_prio b
      /\ (rank a < rank b
          \/ (rank a = rank b
              /\ (j_ctime a < j_ctime b \/ (j_ctime a = j_ctime b /\ j_uid a < j_uid b))))).

Ltac zcmp :=
  repeat match goal with
         | |- context [?x <? ?y] => destruct (Z.ltb_spec x y)
         | |- context [?x =? ?y] => destruct (Z.eqb_spec x y)
         end.

Lemma job_less_iff : forall a b, job_less a b = true <-> lexlt a b.
Proof.
  intros a b. unfold job_less, default_job_order_fns, lexlt. cbn [job_order_fn].
  rewrite elastic_cmp_rank. unfold priority_cmp.
  zcmp; split; intros; try discriminate; try reflexivity; try lia.
Qed.

Lemma job_less_false_iff : forall a b, job_less a b = false <-> ~ lexlt a b.
Proof. intros a b. rewrite <- job_less_iff. destruct (job_less a b); intuition congruence. Qed.

Lemma job_less_irrefl : forall a, job_less a a = false.
Proof. intros a. apply job_less_false_iff. unfold lexlt. lia. Qed.

Lemma job_less_trans : forall a b c, job_less a b = true -> job_less b c = true -> job_less a c = true.
Proof. intros a b c. rewrite !job_less_iff. unfold lexlt. lia. Qed.

Lemma job_less_negtrans : forall a b c, job_less a b = false -> job_less b c = false -> job_less a c = false.
Proof. intros a b c. rewrite !job_less_false_iff. unfold lexlt. lia. Qed.

Lemma job_less_asym : forall a b, job_less a b = true -> job_less b a = false.
Proof. intros a b. rewrite job_less_iff, job_less_false_iff. unfold lexlt. lia. Qed.

Lemma job_less_total : forall a b, j_uid a <> j_uid b -> job_less a b = true \/ job_less b a = true.
Proof. intros a b. rewrite !job_less_iff. unfold lexlt. lia. Qed.

Lemma job_less_strict_weak : strict_weak job_less.
Proof. repeat split; [exact job_less_irrefl | exact job_less_trans | exact job_less_negtrans]. Qed.

Theorem job_order_strict_total_proof :
  (forall a, job_less a a = false)
  /\ (forall a b c, job_less a b = true -> job_less b c = true -> job_less a c = true)
  /\ (forall a b, j_uid a <> j_uid b ->
                  (job_less a b = true /\ job_less b a = false) \/ (job_less a b = false /\ job_less b a = true)).
Proof.
  split; [exact job_less_irrefl|]. split; [exact job_less_trans|].
  intros a b Hne. destruct (job_less_total a b Hne) as [H|H]; [left|right]; split; auto using job_less_asym.
Qed.

(** priority, then FIFO: what the order says on jobs in the same elastic state *)
Lemma job_less_priority_fifo : forall a b,
    rank a = rank b ->
    (j_prio b < j_prio a \/ (j_prio a = j_prio b /\ j_ctime a < j_ctime b)) -> job_less a b = true.
Proof. intros a b Hr H. apply job_less_iff. unfold lexlt. lia. Qed.

(** * Leaf queues are only touched by heap pushes and pops *)
Section MapFacts.
  Context {B : Type}.
  Lemma lookup_remove_eq : forall k (m : list (Z * B)), lookup k (remove_key k m) = None.
  Proof.
    induction m as [|[k' v] m IH]; cbn [remove_key lookup]; auto.
    destruct (k =? k') eqn:E; auto. cbn [lookup]. now rewrite E.
  Qed.
  Lemma lookup_remove_neq : forall k k' (m : list (Z * B)), k' <> k -> lookup k' (remove_key k m) = lookup k' m.
  Proof.
    induction m as [|[k2 v] m IH]; intros Hne; cbn [remove_key lookup]; auto.
    destruct (k =? k2) eqn:E.
    - apply Z.eqb_eq in E. subst k2. rewrite IH by auto.
      destruct (k' =? k) eqn:E'; auto. apply Z.eqb_eq in E'. congruence.
    - cbn [lookup]. now rewrite IH.
  Qed.
  Lemma lookup_set_eq : forall k v (m : list (Z * B)), lookup k (set_key k v m) = Some v.
  Proof. intros. unfold set_key. cbn [lookup]. now rewrite Z.eqb_refl. Qed.
  Lemma lookup_set_neq : forall k k' v (m : list (Z * B)), k' <> k -> lookup k' (set_key k v m) = lookup k' m.
  Proof.
    intros. unfold set_key. cbn [lookup]. destruct (k' =? k) eqn:E.
    - apply Z.eqb_eq in E. congruence.
    - now apply lookup_remove_neq.
  Qed.
End MapFacts.

Lemma nodup_map_inj : forall {X Y} (f : X -> Y) (l : list X) x y,
    NoDup (map f l) -> In x l -> In y l -> f x = f y -> x = y.
Proof.
  intros X Y f l. induction l as [|z l IH]; intros x y Hnd Hx Hy Hf; [contradiction|].
  cbn [map] in Hnd. inversion Hnd as [|? ? Hnin Hnd']; subst.
  destruct Hx as [->|Hx], Hy as [->|Hy]; auto.
  - exfalso. apply Hnin. rewrite Hf. now apply in_map.
  - exfalso. apply Hnin. rewrite <- Hf. now apply in_map.
Qed.

Definition proj (n : node) : list job := if n_leaf n then n_jobs n else [].
Definition same_leaves (st st' : jo) : Prop := forall q, leaf_items st' q = leaf_items st q.

Lemma same_leaves_refl : forall st, same_leaves st st.
Proof. intros st q. reflexivity. Qed.
Lemma same_leaves_trans : forall a b c, same_leaves a b -> same_leaves b c -> same_leaves a c.
Proof. intros a b c H1 H2 q. now rewrite H2, H1. Qed.

Lemma leaf_items_get : forall st q n, get_node st q = Some n -> leaf_items st q = proj n.
Proof. intros st q n H. unfold leaf_items. now rewrite H. Qed.
Lemma leaf_items_none : forall st q, get_node st q = None -> leaf_items st q = [].
Proof. intros st q H. unfold leaf_items. now rewrite H. Qed.

Lemma leaf_items_set_eq : forall st q n, leaf_items (set_node st q n) q = proj n.
Proof. intros. unfold leaf_items, get_node, set_node. cbn [jo_nodes]. now rewrite lookup_set_eq. Qed.
Lemma leaf_items_set_neq : forall st q n q', q' <> q -> leaf_items (set_node st q n) q' = leaf_items st q'.
Proof. intros. unfold leaf_items, get_node, set_node. cbn [jo_nodes]. now rewrite lookup_set_neq. Qed.

Lemma set_node_same : forall st q n, leaf_items st q = proj n -> same_leaves st (set_node st q n).
Proof.
  intros st q n H q'. destruct (Z.eq_dec q' q) as [->|Hne].
  - now rewrite leaf_items_set_eq.
  - now apply leaf_items_set_neq.
Qed.

Lemma del_node_same : forall st q, leaf_items st q = [] -> same_leaves st (del_node st q).
Proof.
  intros st q H q'. unfold leaf_items, get_node, del_node. cbn [jo_nodes].
  destruct (Z.eq_dec q' q) as [->|Hne].
  - rewrite lookup_remove_eq. symmetry. exact H.
  - now rewrite lookup_remove_neq.
Qed.

Lemma set_roots_same : forall st r, same_leaves st (set_roots st r).
Proof. intros st r q. reflexivity. Qed.

Lemma proj_len0 : forall n, n_len n = 0%nat -> proj n = [].
Proof.
  unfold n_len, proj. intros n H. destruct (n_leaf n); auto.
  destruct (n_jobs n); [reflexivity|discriminate].
Qed.

Tactic Notation "bind_inv" hyp(H) "as" ident(x) ident(E) :=
  match type of H with
  | bind ?r _ = Ok _ => destruct r as [x| |] eqn:E; cbn [bind] in H; [|discriminate H|discriminate H]
  end.

Section Frame.
  Variable qs : list qinfo.
  Variable qord : Z -> Z -> option job -> option job -> bool.
  Variable depth : Z.

  Lemma mark_ancestors_same : forall fuel st q st',
      mark_ancestors fuel st q = Ok st' -> same_leaves st st'.
  Proof.
    induction fuel as [|fuel IH]; intros st q st' H; [discriminate|].
    cbn [mark_ancestors] in H. destruct (get_node st q) as [n|] eqn:En; [|discriminate].
    assert (S1 : same_leaves st (set_node st q (with_reorder n true))).
    { apply set_node_same. now rewrite (leaf_items_get _ _ _ En). }
    destruct (n_parent n).
    - eapply same_leaves_trans; [exact S1|]. eapply IH; eauto.
    - inversion H; subst. exact S1.
  Qed.

  Lemma set_heap_same : forall st h l st', set_heap st h l = Ok st' -> same_leaves st st'.
  Proof.
    intros st [|q] l st' H; cbn [set_heap] in H.
    - inversion H; subst. apply set_roots_same.
    - destruct (get_node st q) as [n|] eqn:En; [|discriminate]. inversion H; subst.
      apply set_node_same. now rewrite (leaf_items_get _ _ _ En).
  Qed.

  Lemma ensure_chain_same : forall fuel st c cq st',
      ensure_chain qs qord fuel st c cq = Ok st' -> same_leaves st st'.
  Proof.
    induction fuel as [|fuel IH]; intros st c cq st' H; [discriminate|].
    cbn [ensure_chain] in H.
    destruct (get_node st c) as [cn|] eqn:Ec; [|discriminate].
    destruct (qi_parent cq) as [p|].
    2:{ destruct (n_parent cn); [inversion H; subst; apply same_leaves_refl|].
        bind_inv H as r' Er. inversion H; subst. apply set_roots_same. }
    destruct (lookup_q qs p) as [pq|]; [|inversion H; subst; apply same_leaves_refl].
    set (isnew := match get_node st p with None => true | Some _ => false end) in *.
    set (pn := match get_node st p with None => new_nonleaf | Some n => n end) in *.
    set (st1 := if isnew then set_node st p pn else st) in *.
    assert (S1 : same_leaves st st1).
    { subst st1 isnew pn. destruct (get_node st p) eqn:Ep; [apply same_leaves_refl|].
      apply set_node_same. now rewrite (leaf_items_none _ _ Ep). }
    assert (Hpn : n_leaf pn = false -> leaf_items st p = []).
    { intros Hl. subst pn. destruct (get_node st p) eqn:Ep.
      - rewrite (leaf_items_get _ _ _ Ep). unfold proj. now rewrite Hl.
      - now apply leaf_items_none. }
    bind_inv H as a E.
    assert (S2 : same_leaves st a).
    { destruct (n_parent cn).
      - inversion E; subst. exact S1.
      - destruct (n_leaf pn) eqn:El; [discriminate|].
        bind_inv E as k' Ek. inversion E; subst.
        assert (S1' : same_leaves st (set_node st1 c (with_parent cn (Some p)))).
        { eapply same_leaves_trans; [exact S1|]. apply set_node_same.
          rewrite S1. now rewrite (leaf_items_get _ _ _ Ec). }
        eapply same_leaves_trans; [exact S1'|]. apply set_node_same.
        rewrite S1'. rewrite (Hpn eq_refl). unfold proj. cbn [with_kids n_leaf]. now rewrite El. }
    destruct isnew.
    - eapply same_leaves_trans; [exact S2|]. eapply IH; eauto.
    - inversion H; subst. exact S2.
  Qed.

  Lemma get_next_node_same : forall fuel st h st' r,
      get_next_node qord fuel st h = Ok (st', r) -> same_leaves st st'.
  Proof.
    induction fuel as [|fuel IH]; intros st h st' r H; [discriminate|].
    cbn [get_next_node] in H. bind_inv H as hp Ehp.
    destruct hp as [|top rest]; [inversion H; subst; apply same_leaves_refl|].
    destruct (get_node st top) as [n|]; [|discriminate].
    destruct (n_reorder n).
    - bind_inv H as keys Ek. bind_inv H as hp' Ef. bind_inv H as st1 E2.
      destruct (get_node st1 top) as [n1|] eqn:E1; [|discriminate].
      apply IH in H. apply set_heap_same in E2.
      eapply same_leaves_trans; [exact E2|]. eapply same_leaves_trans; [|exact H].
      apply set_node_same. now rewrite (leaf_items_get _ _ _ E1).
    - destruct (n_len n =? 0)%nat; inversion H; subst; apply same_leaves_refl.
  Qed.

  Lemma traverse_same : forall fuel st h st' r,
      traverse qord fuel st h = Ok (st', r) ->
      same_leaves st st' /\ (forall q, r = Some q -> exists n, get_node st' q = Some n /\ n_leaf n = true).
  Proof.
    induction fuel as [|fuel IH]; intros st h st' r H; [discriminate|].
    cbn [traverse] in H. bind_inv H as a E. destruct a as [st1 r1]. cbn [fst snd] in H.
    apply get_next_node_same in E.
    destruct r1 as [q|].
    - destruct (get_node st1 q) as [n|] eqn:En; [|discriminate].
      destruct (n_leaf n) eqn:El.
      + inversion H; subst. split; auto. intros q' Hq'. inversion Hq'; subst. eauto.
      + apply IH in H. destruct H as [S2 Hl]. split; auto. eapply same_leaves_trans; eauto.
    - inversion H; subst. split; auto. intros q Hq. discriminate.
  Qed.

  Lemma handle_pop_same : forall fuel st q st',
      handle_pop qord fuel st q = Ok st' -> same_leaves st st'.
  Proof.
    induction fuel as [|fuel IH]; intros st q st' H; [discriminate|].
    cbn [handle_pop] in H. destruct (get_node st q) as [n|] eqn:En; [|discriminate].
    destruct (n_len n =? 0)%nat eqn:E0.
    - apply Nat.eqb_eq in E0.
      bind_inv H as hp Ehp. bind_inv H as keys Ek. bind_inv H as r Er. bind_inv H as a2 E3.
      apply set_heap_same in E3.
      assert (S2 : same_leaves st (del_node a2 q)).
      { eapply same_leaves_trans; [exact E3|]. apply del_node_same.
        rewrite E3. rewrite (leaf_items_get _ _ _ En). now apply proj_len0. }
      destruct (n_parent n).
      + eapply same_leaves_trans; [exact S2|]. eapply IH; eauto.
      + inversion H; subst. exact S2.
    - eapply mark_ancestors_same; eauto.
  Qed.

  (** PopNextJob pops the heap of exactly one leaf queue *)
  Lemma pop_next_leaf : forall st j st',
      pop_next_job qord st = Ok (Some j, st') ->
      exists q, h_pop job_less (leaf_items st q) = Ok (j, leaf_items st' q)
                /\ leaf_items st q <> []
                /\ (forall q', q' <> q -> leaf_items st' q' = leaf_items st q').
  Proof.
    intros st j st' H. unfold pop_next_job in H.
    destruct (is_empty st); [discriminate|].
    bind_inv H as a E. destruct a as [st1 r1]. cbn [fst snd] in H.
    apply traverse_same in E. destruct E as [S1 Hl].
    destruct r1 as [q|]; [|discriminate].
    destruct (Hl q eq_refl) as (n & En & Hleaf). rewrite En in H.
    bind_inv H as a E. destruct a as [oj rest]. cbn [fst snd] in H.
    destruct oj as [j0|]; [|discriminate].
    bind_inv H as a E0. inversion H; subst j0 a. clear H.
    apply handle_pop_same in E0.
    assert (Hq : leaf_items st q = n_jobs n).
    { rewrite <- S1. rewrite (leaf_items_get _ _ _ En). unfold proj. now rewrite Hleaf. }
    unfold pq_pop in E. destruct (n_jobs n) as [|x xs] eqn:Ej; [discriminate|].
    bind_inv E as a E1. destruct a as [j1 rest1]. cbn [fst snd] in E. inversion E; subst j1 rest1. clear E.
    exists q. split; [|split].
    - rewrite Hq. rewrite E1. f_equal. f_equal.
      rewrite E0. rewrite leaf_items_set_eq. unfold proj. cbn [with_jobs n_leaf n_jobs]. now rewrite Hleaf.
    - rewrite Hq. discriminate.
    - intros q' Hne. rewrite E0. rewrite leaf_items_set_neq by auto. apply S1.
  Qed.

  Lemma pop_next_none : forall st st', pop_next_job qord st = Ok (None, st') -> same_leaves st st'.
  Proof.
    intros st st' H. unfold pop_next_job in H.
    destruct (is_empty st); [inversion H; subst; apply same_leaves_refl|].
    bind_inv H as a E. destruct a as [st1 r1]. cbn [fst snd] in H.
    apply traverse_same in E. destruct E as [S1 Hl].
    destruct r1 as [q|]; [|inversion H; subst; exact S1].
    destruct (get_node st1 q); [|discriminate].
    bind_inv H as a E. destruct (fst a); [|discriminate]. bind_inv H as a2 E2. discriminate.
  Qed.

  (** PushJob pushes into the heap of the job's leaf queue and nothing else *)
  Lemma push_job_leaf : forall st j st',
      push_job qs qord depth st j = Ok st' ->
      (st' = st /\ exists qi, lookup_q qs (j_queue j) = Some qi /\ qi_leaf qi = false)
      \/ (pq_push job_less depth (leaf_items st (j_queue j)) j = Ok (leaf_items st' (j_queue j))
          /\ (forall q', q' <> j_queue j -> leaf_items st' q' = leaf_items st q')).
  Proof.
    intros st j st' H. unfold push_job in H.
    destruct (lookup_q qs (j_queue j)) as [qi|] eqn:Eq; [|discriminate].
    destruct (qi_leaf qi) eqn:Eql; cbn [negb] in H; [|inversion H; subst; left; eauto].
    set (ln := match get_node st (j_queue j) with Some n => n | None => new_leaf end) in *.
    destruct (n_leaf ln) eqn:El; cbn [negb] in H; [|discriminate].
    assert (Hq : leaf_items st (j_queue j) = n_jobs ln).
    { subst ln. destruct (get_node st (j_queue j)) eqn:En.
      - rewrite (leaf_items_get _ _ _ En). unfold proj. now rewrite El.
      - now rewrite (leaf_items_none _ _ En). }
    bind_inv H as a E. bind_inv H as a0 E0. right.
    assert (S2 : same_leaves (set_node st (j_queue j) (with_jobs ln a)) a0).
    { destruct (get_node st (j_queue j)).
      - inversion E0; subst. apply same_leaves_refl.
      - eapply ensure_chain_same; eauto. }
    apply mark_ancestors_same in H.
    split.
    - rewrite Hq, E. f_equal. rewrite H, S2, leaf_items_set_eq.
      unfold proj. cbn [with_jobs n_leaf n_jobs]. now rewrite El.
    - intros q' Hne. rewrite H, S2. now apply leaf_items_set_neq.
  Qed.
End Frame.

(** * Order of pops within a leaf queue, unlimited depth *)
Definition leaf_inv (st : jo) : Prop :=
  forall q, heap_ok job_less (leaf_items st q) /\ Forall (fun j => j_queue j = q) (leaf_items st q).

Lemma leaf_inv_empty : leaf_inv jo_empty.
Proof. intros q. split; [apply heap_ok_nil|constructor]. Qed.

Lemma pq_push_unlimited : forall {A} (less : A -> A -> bool) l x, pq_push less (-1) l x = h_push less l x.
Proof. intros. unfold pq_push. destruct (h_push less l x); reflexivity. Qed.

Section Within.
  Variable qs : list qinfo.
  Variable qord : Z -> Z -> option job -> option job -> bool.

  (** PushJob adds exactly the pushed job to its leaf queue *)
  Lemma push_job_contents : forall st j st',
      leaf_inv st -> push_job qs qord (-1) st j = Ok st' ->
      (st' = st /\ exists qi, lookup_q qs (j_queue j) = Some qi /\ qi_leaf qi = false)
      \/ (leaf_inv st'
          /\ Permutation (j :: leaf_items st (j_queue j)) (leaf_items st' (j_queue j))
          /\ (forall q', q' <> j_queue j -> leaf_items st' q' = leaf_items st q')).
  Proof.
    intros st j st' Hinv H. apply push_job_leaf in H. destruct H as [H|[H Hother]]; [left; exact H|right].
    rewrite pq_push_unlimited in H.
    destruct (Hinv (j_queue j)) as [Hh Hq].
    destruct (h_push_spec job_less job_less_strict_weak _ j Hh) as (l' & Hp & Hh' & P).
    rewrite Hp in H. inversion H as [Hl]. rewrite <- Hl.
    split; [|split; auto].
    intros q. destruct (Z.eq_dec q (j_queue j)) as [->|Hne].
    - rewrite <- Hl. split; auto.
      eapply Permutation_Forall; [exact P|]. constructor; auto.
    - rewrite Hother by auto. apply Hinv.
  Qed.

  (** PopNextJob returns a least job of the leaf queue it pops and removes exactly it *)
  Lemma pop_next_contents : forall st j st',
      leaf_inv st -> pop_next_job qord st = Ok (Some j, st') ->
      leaf_inv st'
      /\ In j (leaf_items st (j_queue j))
      /\ (forall j', In j' (leaf_items st (j_queue j)) -> job_less j' j = false)
      /\ Permutation (leaf_items st (j_queue j)) (j :: leaf_items st' (j_queue j))
      /\ (forall q', q' <> j_queue j -> leaf_items st' q' = leaf_items st q').
  Proof.
    intros st j st' Hinv H. apply pop_next_leaf in H. destruct H as (q & Hp & Hne & Hother).
    destruct (Hinv q) as [Hh Hq].
    destruct (h_pop_spec job_less job_less_strict_weak _ Hh Hne) as (x & l' & Hp' & Hx & Hh' & P & Hmin).
    rewrite Hp' in Hp. inversion Hp as [[Hj Hl]]. subst x.
    assert (Hin : In j (leaf_items st q)) by (eapply nth_error_In; eauto).
    assert (Hjq : j_queue j = q) by (rewrite Forall_forall in Hq; auto).
    rewrite Hjq. split; [|repeat split; auto; now rewrite <- Hl].
    intros q'. destruct (Z.eq_dec q' q) as [->|Hne'].
    - rewrite <- Hl. split; auto.
      assert (F : Forall (fun j0 => j_queue j0 = q) (j :: l')) by (eapply Permutation_Forall; eauto).
      now inversion F.
    - rewrite Hother by auto. apply Hinv.
  Qed.

  Lemma pop_next_none_inv : forall st st', leaf_inv st -> pop_next_job qord st = Ok (None, st') -> leaf_inv st'.
  Proof. intros st st' Hinv H q. rewrite (pop_next_none _ _ _ H). apply Hinv. Qed.

  (** states reachable from the empty structure by any interleaving of pushes
      (to any queue, including re-pushes) and pops *)
  Inductive reachable : jo -> Prop :=
  | reach_empty : reachable jo_empty
  | reach_push : forall st j st', reachable st -> push_job qs qord (-1) st j = Ok st' -> reachable st'
  | reach_pop : forall st r st', reachable st -> pop_next_job qord st = Ok (r, st') -> reachable st'.

  Lemma reachable_inv : forall st, reachable st -> leaf_inv st.
  Proof.
    induction 1 as [|st j st' _ IH Hp|st r st' _ IH Hp].
    - apply leaf_inv_empty.
    - destruct (push_job_contents _ _ _ IH Hp) as [[-> _]|[H _]]; auto.
    - destruct r as [j|].
      + now destruct (pop_next_contents _ _ _ IH Hp).
      + eapply pop_next_none_inv; eauto.
  Qed.

  Theorem pop_order_within_leaf_proof : forall st,
      reachable st ->
      (forall j st', pop_next_job qord st = Ok (Some j, st') ->
         In j (leaf_items st (j_queue j))
         /\ (forall j', In j' (leaf_items st (j_queue j)) -> job_less j' j = false)
         /\ (forall j', In j' (leaf_items st (j_queue j)) -> j_uid j' <> j_uid j -> job_less j j' = true)
         /\ Permutation (leaf_items st (j_queue j)) (j :: leaf_items st' (j_queue j))
         /\ (forall q', q' <> j_queue j -> leaf_items st' q' = leaf_items st q'))
      /\ (forall j st', push_job qs qord (-1) st j = Ok st' ->
            (st' = st /\ exists qi, lookup_q qs (j_queue j) = Some qi /\ qi_leaf qi = false)
            \/ (Permutation (j :: leaf_items st (j_queue j)) (leaf_items st' (j_queue j))
                /\ (forall q', q' <> j_queue j -> leaf_items st' q' = leaf_items st q'))).
  Proof.
    intros st Hr. pose proof (reachable_inv _ Hr) as Hinv. split.
    - intros j st' Hp. destruct (pop_next_contents _ _ _ Hinv Hp) as (_ & Hin & Hmin & P & Ho).
      repeat split; auto.
      intros j' Hj' Hne. destruct (job_less_total j j') as [H|H]; auto.
      rewrite (Hmin j' Hj') in H. discriminate.
    - intros j st' Hp. destruct (push_job_contents _ _ _ Hinv Hp) as [H|(_ & P & Ho)]; auto.
  Qed.

  (** PushJob for any depth: below the bound exactly the pushed job is added to
      its leaf queue; at the bound a job that nothing in the leaf (the pushed job
      included) is ordered after is dropped *)
  Lemma push_job_contents_d : forall depth st j st',
      leaf_inv st -> push_job qs qord depth st j = Ok st' ->
      (st' = st /\ exists qi, lookup_q qs (j_queue j) = Some qi /\ qi_leaf qi = false)
      \/ (leaf_inv st'
          /\ (forall q', q' <> j_queue j -> leaf_items st' q' = leaf_items st q')
          /\ ((depth = -1 \/ Z.of_nat (length (leaf_items st (j_queue j))) < depth) ->
              Permutation (j :: leaf_items st (j_queue j)) (leaf_items st' (j_queue j)))
          /\ ((depth <> -1 /\ depth <= Z.of_nat (length (leaf_items st (j_queue j)))) ->
              exists y, Permutation (j :: leaf_items st (j_queue j)) (y :: leaf_items st' (j_queue j))
                        /\ forall z, In z (j :: leaf_items st (j_queue j)) -> job_less y z = false)).
  Proof.
    intros depth st j st' Hinv H. apply push_job_leaf in H. destruct H as [H|[H Hother]]; [left; exact H|right].
    destruct (Hinv (j_queue j)) as [Hh Hq].
    destruct (pq_push_spec job_less job_less_strict_weak depth _ j Hh) as (l' & Hp & Hh' & Hno & Hov).
    rewrite Hp in H. inversion H as [Hl]. rewrite <- Hl.
    assert (HF : Forall (fun j0 => j_queue j0 = j_queue j) l').
    { assert (F0 : Forall (fun j0 => j_queue j0 = j_queue j) (j :: leaf_items st (j_queue j))) by (constructor; auto).
      destruct (Z.eq_dec depth (-1)) as [E|E];
        [|destruct (Z.lt_ge_cases (Z.of_nat (length (leaf_items st (j_queue j)))) depth) as [E'|E']].
      - eapply Permutation_Forall; [apply Hno; auto|exact F0].
      - eapply Permutation_Forall; [apply Hno; auto|exact F0].
      - destruct Hov as (y & P & _); [auto|].
        assert (F1 : Forall (fun j0 => j_queue j0 = j_queue j) (y :: l')) by (eapply Permutation_Forall; eauto).
        now inversion F1. }
    split; [|split; [exact Hother|split; [exact Hno|exact Hov]]].
    intros q. destruct (Z.eq_dec q (j_queue j)) as [->|Hne].
    - rewrite <- Hl. split; auto.
    - rewrite Hother by auto. apply Hinv.
  Qed.

  (** * The decision-level statement *)
  Section Decision.
    Context {C : Type}.
    Variable depth : Z.
    Variable attempt : job -> C -> option (C * option job).
    Variable cle : C -> C -> Prop.
    Variables a b : job.
    Hypothesis depth_ok : -1 <= depth.
    Hypothesis cle_refl : forall c, cle c c.
    Hypothesis cle_trans : forall c1 c2 c3, cle c1 c2 -> cle c2 c3 -> cle c1 c3.
    Hypothesis shrink : forall j c c' r, attempt j c = Some (c', r) -> cle c' c.
    Hypothesis mono_a : forall c c', cle c' c -> fits attempt a c' = true -> fits attempt a c = true.
    Hypothesis same_fit : forall c, fits attempt a c = fits attempt b c.
    Hypothesis same_queue : j_queue a = j_queue b.
    Hypothesis a_first : job_less a b = true.
    (** the depth is unlimited, or the job pushed back is the job that was popped *)
    Hypothesis repush_ok : depth = -1 \/ repush_same_job attempt.

    (** no leaf queue holds more than [depth] jobs *)
    Definition bounded (st : jo) : Prop :=
      depth = -1 \/ forall q, Z.of_nat (length (leaf_items st q)) <= depth.
    (** no queued job carries the UID of [b] *)
    Definition nouid (st : jo) : Prop := forall q x, In x (leaf_items st q) -> j_uid x <> j_uid b.
    (** [a] was dropped by a full leaf queue: the queue is full of jobs that [a] is
        not ordered before *)
    Definition dropped (st : jo) : Prop :=
      Z.of_nat (length (leaf_items st (j_queue a))) = depth
      /\ forall x, In x (leaf_items st (j_queue a)) -> job_less a x = false.
    Definition kept_or_dropped (st : jo) : Prop := In a (leaf_items st (j_queue a)) \/ dropped st.

    Lemma bounded_empty : bounded jo_empty.
    Proof. unfold bounded. destruct (Z.eq_dec depth (-1)); [auto|right]. intros q. cbn. lia. Qed.

    (** a push that does not overflow only adds the pushed job *)
    Lemma push_no_overflow : forall st j st',
        leaf_inv st -> bounded st -> push_job qs qord depth st j = Ok st' ->
        (depth = -1 \/ Z.of_nat (length (leaf_items st (j_queue j))) < depth) ->
        leaf_inv st' /\ bounded st'
        /\ (forall q x, In x (leaf_items st q) -> In x (leaf_items st' q))
        /\ (forall q x, In x (leaf_items st' q) -> x = j \/ In x (leaf_items st q)).
    Proof.
      intros st j st' Hinv Hb Hp Hroom.
      destruct (push_job_contents_d _ _ _ _ Hinv Hp) as [[-> _]|(Hinv' & Ho & Hno & _)]; [auto|].
      specialize (Hno Hroom). split; [exact Hinv'|]. split; [|split].
      - destruct Hb as [Hb|Hb]; [left; exact Hb|]. destruct Hroom as [Hr|Hr]; [left; exact Hr|right].
        intros q. destruct (Z.eq_dec q (j_queue j)) as [->|Hne].
        + rewrite <- (Permutation_length Hno). cbn [length]. lia.
        + rewrite Ho by auto. apply Hb.
      - intros q x Hx. destruct (Z.eq_dec q (j_queue j)) as [->|Hne].
        + eapply Permutation_in; [exact Hno|]. now right.
        + now rewrite Ho.
      - intros q x Hx. destruct (Z.eq_dec q (j_queue j)) as [->|Hne].
        + apply (Permutation_in _ (Permutation_sym Hno)) in Hx. destruct Hx; auto.
        + right. now rewrite <- Ho.
    Qed.

    Lemma alloc_loop_inv : forall fuel st c log out,
        leaf_inv st -> bounded st ->
        alloc_loop qs qord depth attempt fuel st c log = Ok out ->
        exists ext, out = log ++ ext
                    /\ (forall x, In (x, true) ext -> exists cx, cle cx c /\ fits attempt x cx = true)
                    /\ (In a (leaf_items st (j_queue a)) -> In (b, true) ext -> In (a, true) ext)
                    /\ (repush_same_job attempt -> nouid st -> ~ In (b, true) ext).
    Proof.
      induction fuel as [|fuel IH]; intros st c log out Hinv Hbd H; [discriminate|].
      cbn [alloc_loop] in H.
      destruct (is_empty st).
      { inversion H; subst. exists []. rewrite app_nil_r. repeat split; auto; intros; try contradiction. }
      bind_inv H as r Er. destruct r as [oj st1]. cbn [fst snd] in H.
      destruct oj as [j|]; [|discriminate].
      destruct (pop_next_contents _ _ _ Hinv Er) as (Hinv1 & Hjin & Hmin & P & Ho).
      (* the leaf that was popped has room for one more job *)
      assert (Hroom : depth = -1 \/ Z.of_nat (length (leaf_items st1 (j_queue j))) < depth).
      { destruct Hbd as [Hbd|Hbd]; [left; exact Hbd|right].
        specialize (Hbd (j_queue j)). rewrite (Permutation_length P) in Hbd. cbn [length] in Hbd. lia. }
      assert (Hbd1 : bounded st1).
      { destruct Hbd as [Hbd|Hbd]; [left; exact Hbd|right]. intros q.
        destruct (Z.eq_dec q (j_queue j)) as [->|Hne]; [|rewrite Ho by auto; apply Hbd].
        specialize (Hbd (j_queue j)). rewrite (Permutation_length P) in Hbd. cbn [length] in Hbd. lia. }
      assert (Hsub1 : forall q x, In x (leaf_items st1 q) -> In x (leaf_items st q)).
      { intros q x Hx. destruct (Z.eq_dec q (j_queue j)) as [->|Hne].
        - eapply Permutation_in; [apply Permutation_sym; exact P|]. now right.
        - now rewrite <- Ho. }
      (* membership of [a] after the pop *)
      assert (Ha1 : In a (leaf_items st (j_queue a)) -> a = j \/ In a (leaf_items st1 (j_queue a))).
      { intros Hin. destruct (Z.eq_dec (j_queue a) (j_queue j)) as [Hq|Hq].
        - rewrite Hq in *. apply (Permutation_in _ P) in Hin. destruct Hin; auto.
        - right. now rewrite Ho. }
      destruct (attempt j c) as [[c' again]|] eqn:Eatt.
      - bind_inv H as st2 E2.
        assert (H2 : leaf_inv st2 /\ bounded st2
                     /\ (In a (leaf_items st1 (j_queue a)) -> In a (leaf_items st2 (j_queue a)))
                     /\ (repush_same_job attempt -> nouid st -> nouid st2)).
        { destruct again as [j'|].
          - assert (Hroom' : depth = -1 \/ Z.of_nat (length (leaf_items st1 (j_queue j'))) < depth).
            { destruct repush_ok as [Hd|Hrp]; [left; exact Hd|].
              destruct (Hrp _ _ _ _ Eatt) as [Hq _]. now rewrite Hq. }
            destruct (push_no_overflow _ _ _ Hinv1 Hbd1 E2 Hroom') as (Hinv2 & Hbd2 & Hkeep & Hfrom).
            split; [exact Hinv2|]. split; [exact Hbd2|]. split; [apply Hkeep|].
            intros Hrp Hnu q x Hx. destruct (Hfrom q x Hx) as [->|Hx1].
            + destruct (Hrp _ _ _ _ Eatt) as [_ Hu]. rewrite Hu. eapply Hnu; exact Hjin.
            + eapply Hnu. eapply Hsub1; eauto.
          - inversion E2; subst. split; [auto|]. split; [auto|]. split; [auto|].
            intros _ Hnu q x Hx. eapply Hnu. eapply Hsub1; eauto. }
        destruct H2 as (Hinv2 & Hbd2 & Hkeep & Hnu2).
        destruct (IH _ _ _ _ Hinv2 Hbd2 H) as (ext & Hout & Hfit & Hab & Hnb).
        exists ((j, true) :: ext). split; [|split; [|split]].
        + rewrite Hout. now rewrite <- app_assoc.
        + intros x [Hx|Hx].
          * inversion Hx; subst x. exists c. split; auto. unfold fits. now rewrite Eatt.
          * destruct (Hfit x Hx) as (cx & Hle & Hf). exists cx. split; auto.
            eapply cle_trans; eauto.
        + intros Hain [Hb|Hb].
          * (* b is the job just popped while a sits in the same leaf: impossible *)
            inversion Hb; subst j. rewrite <- same_queue in Hmin.
            rewrite (Hmin a Hain) in a_first. discriminate.
          * destruct (Ha1 Hain) as [->|Hin1]; [now left|]. right. auto.
        + intros Hrp Hnu [Hb|Hb].
          * inversion Hb; subst j. exact (Hnu _ _ Hjin eq_refl).
          * exact (Hnb Hrp (Hnu2 Hrp Hnu) Hb).
      - destruct (IH _ _ _ _ Hinv1 Hbd1 H) as (ext & Hout & Hfit & Hab & Hnb).
        exists ((j, false) :: ext). split; [|split; [|split]].
        + rewrite Hout. now rewrite <- app_assoc.
        + intros x [Hx|Hx]; [discriminate|auto].
        + intros Hain [Hb|Hb]; [discriminate|].
          destruct (Ha1 Hain) as [Haj|Hin1]; [|right; auto].
          (* a was just refused although b fits later with less capacity *)
          subst j. destruct (Hfit b Hb) as (cb & Hle & Hf).
          rewrite <- same_fit in Hf. apply (mono_a c cb Hle) in Hf.
          unfold fits in Hf. rewrite Eatt in Hf. discriminate.
        + intros Hrp Hnu [Hb|Hb]; [discriminate|].
          apply (Hnb Hrp); auto. intros q x Hx. eapply Hnu. eapply Hsub1; eauto.
    Qed.

    (** one push of InitializeWithJobs: once [a] has been pushed it is either
        still queued, or its leaf queue is full of jobs [a] is not ordered before *)
    Lemma push_init_step : forall st j st',
        leaf_inv st -> bounded st -> push_job qs qord depth st j = Ok st' ->
        leaf_inv st' /\ bounded st'
        /\ (forall q x, In x (leaf_items st' q) -> x = j \/ In x (leaf_items st q))
        /\ (kept_or_dropped st -> kept_or_dropped st')
        /\ (j = a -> queue_ok qs (j_queue a) = true -> kept_or_dropped st').
    Proof.
      intros st j st' Hinv Hbd Hp.
      destruct (push_job_contents_d _ _ _ _ Hinv Hp) as [[-> (qi & Hl & Hnl)]|(Hinv' & Ho & Hno & Hov)].
      { split; [exact Hinv|]. split; [exact Hbd|]. split; [intros q x Hx; now right|]. split; [auto|].
        intros Hja Hok. subst j. unfold queue_ok in Hok. rewrite Hl in Hok. rewrite Hnl in Hok.
        destruct (qi_parent qi); [destruct (lookup_q qs z)|]; discriminate. }
      assert (Hcases : (depth = -1 \/ Z.of_nat (length (leaf_items st (j_queue j))) < depth)
                       \/ (depth <> -1 /\ depth <= Z.of_nat (length (leaf_items st (j_queue j))))) by lia.
      destruct Hcases as [Hroom|Hfullc].
      { (* no overflow *)
        destruct (push_no_overflow _ _ _ Hinv Hbd Hp Hroom) as (_ & Hbd' & Hkeep & Hfrom).
        specialize (Hno Hroom).
        split; [exact Hinv'|]. split; [exact Hbd'|]. split; [exact Hfrom|]. split.
        - intros [Hin|[Hlen Hd]]; [left; apply Hkeep; exact Hin|].
          destruct (Z.eq_dec (j_queue a) (j_queue j)) as [Hq|Hq].
          + rewrite Hq in Hlen. lia.
          + right. unfold dropped. rewrite (Ho _ Hq). auto.
        - intros Hja _. subst j. left. eapply Permutation_in; [exact Hno|now left]. }
      (* the leaf is full: one job is dropped *)
      destruct (Hov Hfullc) as (y & P & Hmax).
      assert (Hfull : Z.of_nat (length (leaf_items st (j_queue j))) = depth).
      { destruct Hbd as [Hbd|Hbd]; [lia|]. specialize (Hbd (j_queue j)). lia. }
      assert (Hlen' : length (leaf_items st' (j_queue j)) = length (leaf_items st (j_queue j))).
      { pose proof (Permutation_length P) as L. cbn [length] in L. lia. }
      assert (Hfrom : forall q x, In x (leaf_items st' q) -> x = j \/ In x (leaf_items st q)).
      { intros q x Hx. destruct (Z.eq_dec q (j_queue j)) as [->|Hne].
        - assert (Hx' : In x (j :: leaf_items st (j_queue j))).
          { eapply Permutation_in; [apply Permutation_sym; exact P|]. now right. }
          destruct Hx'; auto.
        - right. now rewrite <- Ho. }
      (* what happens to [a] when the push is into its own leaf *)
      assert (Hown : j_queue j = j_queue a ->
                     In a (j :: leaf_items st (j_queue a)) \/ dropped st -> kept_or_dropped st').
      { intros Hq Hcase. rewrite Hq in *. destruct Hcase as [Hin|[Hlen Hd]].
        - apply (Permutation_in _ P) in Hin. destruct Hin as [Hy|Hin]; [|left; exact Hin].
          right. split; [lia|]. intros x Hx. rewrite <- Hy. apply Hmax.
          eapply Permutation_in; [apply Permutation_sym; exact P|]. now right.
        - right. split; [lia|]. intros x Hx.
          assert (Hyin : In y (j :: leaf_items st (j_queue a))).
          { eapply Permutation_in; [apply Permutation_sym; exact P|]. now left. }
          assert (Hxin : In x (j :: leaf_items st (j_queue a))).
          { eapply Permutation_in; [apply Permutation_sym; exact P|]. now right. }
          destruct Hyin as [Hyj|Hyin].
          + subst y. apply Permutation_cons_inv in P. apply Hd.
            eapply Permutation_in; [apply Permutation_sym; exact P|exact Hx].
          + eapply job_less_negtrans; [apply Hd; exact Hyin|apply Hmax; exact Hxin]. }
      split; [exact Hinv'|]. split; [|split; [exact Hfrom|split]].
      - destruct Hbd as [Hbd|Hbd]; [lia|right]. intros q.
        destruct (Z.eq_dec q (j_queue j)) as [->|Hne]; [lia|rewrite Ho by auto; apply Hbd].
      - intros Hkd. destruct (Z.eq_dec (j_queue j) (j_queue a)) as [Hq|Hq].
        + apply Hown; auto. destruct Hkd; [left; now right|now right].
        + destruct Hkd as [Hin|[Hlen Hd]].
          * left. rewrite Ho by auto. exact Hin.
          * right. unfold dropped. rewrite Ho by auto. auto.
      - intros -> _. apply Hown; auto. left. now left.
    Qed.

    Lemma initialize_inv : forall jobs st st',
        leaf_inv st -> bounded st -> initialize qs qord depth st jobs = Ok st' ->
        leaf_inv st' /\ bounded st'
        /\ (forall q x, In x (leaf_items st' q) -> In x jobs \/ In x (leaf_items st q))
        /\ (kept_or_dropped st -> kept_or_dropped st')
        /\ (In a jobs -> queue_ok qs (j_queue a) = true -> kept_or_dropped st').
    Proof.
      induction jobs as [|j r IH]; intros st st' Hinv Hbd H; cbn [initialize] in H.
      - inversion H; subst. split; [exact Hinv|]. split; [exact Hbd|]. split; [auto|]. split; [auto|]. intros [].
      - destruct (queue_ok qs (j_queue j)) eqn:Eq.
        + bind_inv H as st1 E1.
          destruct (push_init_step _ _ _ Hinv Hbd E1) as (Hinv1 & Hbd1 & Hfrom1 & Hkd1 & Ha1).
          destruct (IH _ _ Hinv1 Hbd1 H) as (Hinv' & Hbd' & Hfrom' & Hkd' & Ha').
          split; [exact Hinv'|]. split; [exact Hbd'|]. split; [|split].
          * intros q x Hx. destruct (Hfrom' q x Hx) as [Hr|Hx1]; [left; now right|].
            destruct (Hfrom1 q x Hx1) as [->|Hx0]; [left; now left|now right].
          * auto.
          * intros [->|Hin] Hok; auto.
        + destruct (IH _ _ Hinv Hbd H) as (Hinv' & Hbd' & Hfrom' & Hkd' & Ha').
          split; [exact Hinv'|]. split; [exact Hbd'|]. split; [|split]; auto.
          * intros q x Hx. destruct (Hfrom' q x Hx); [left; now right|now right].
          * intros [->|Hin] Hok; auto. congruence.
    Qed.

    Lemma decision_general : forall fuel jobs c0 out,
        (depth = -1 \/ (NoDup (map j_uid jobs) /\ In b jobs)) ->
        In a jobs -> queue_ok qs (j_queue a) = true ->
        allocate qs qord depth attempt fuel jobs c0 = Ok out ->
        In (b, true) out -> In (a, true) out.
    Proof.
      intros fuel jobs c0 out Hmode Hin Hok H Hb. unfold allocate in H.
      bind_inv H as st0 E0.
      destruct (initialize_inv _ _ _ leaf_inv_empty bounded_empty E0) as (Hinv & Hbd & Hfrom & _ & Hkd).
      destruct (alloc_loop_inv _ _ _ _ _ Hinv Hbd H) as (ext & Hout & _ & Hab & Hnb).
      cbn [app] in Hout. subst ext.
      destruct (Hkd Hin Hok) as [Hkept|[Hlen Hd]]; [auto|].
      exfalso.
      destruct Hmode as [Hd1|[Hnd Hbin]]; [lia|].
      destruct repush_ok as [Hd1|Hrp]; [lia|].
      apply (Hnb Hrp); [|exact Hb].
      (* no queued job has the UID of b: such a job would be b, which a full leaf of
         jobs not after a cannot hold *)
      intros q x Hx Hu.
      assert (Hxj : In x jobs).
      { destruct (Hfrom q x Hx) as [Hj|Hj]; [exact Hj|]. cbn in Hj. contradiction. }
      assert (x = b) by (eapply nodup_map_inj; eauto). subst x.
      destruct (Hinv q) as [_ Hq]. rewrite Forall_forall in Hq. pose proof (Hq _ Hx) as Hqb.
      rewrite <- Hqb, <- same_queue in Hx.
      rewrite (Hd _ Hx) in a_first. discriminate.
    Qed.
  End Decision.
End Within.

Theorem C16_decision_proof : forall depth, -1 <= depth -> C16_decision_stmt depth.
Proof.
  unfold C16_decision_stmt. intros depth Hd qs qord C attempt cle a b fuel jobs c0 out
    H1 H2 H3 H4 H5 Hrp H6 H7 Hnd Ha Hb Hok Hrun Hpl.
  eapply (decision_general qs qord depth attempt cle a b); eauto.
Qed.

Theorem C16_decision_any_repush_unlimited_proof : C16_decision_stmt_any_repush (-1).
Proof.
  unfold C16_decision_stmt_any_repush. intros qs qord C attempt cle a b fuel jobs c0 out
    H1 H2 H3 H4 H5 H6 H7 Ha Hok Hrun Hpl.
  eapply (decision_general qs qord (-1) attempt cle a b); eauto. lia.
Qed.

(** * A bounded queue holds the [depth] best of everything pushed *)
Section Bounded.
  Context {A : Type}.
  Variable less : A -> A -> bool.
  Hypothesis SW : strict_weak less.

  (** [a] is not after [b] *)
  Definition not_after (a b : A) : Prop := less b a = false.

  Lemma insert_perm : forall x l, Permutation (x :: l) (insert_sorted less x l).
  Proof.
    intros x l. induction l as [|y r IH]; cbn [insert_sorted]; [reflexivity|].
    destruct (less x y); [reflexivity|].
    eapply Permutation_trans; [apply perm_swap|]. now apply perm_skip.
  Qed.

  Lemma insert_sorted_sorted : forall x l,
      StronglySorted not_after l -> StronglySorted not_after (insert_sorted less x l).
  Proof.
    intros x l. induction l as [|y r IH]; intros Hs; cbn [insert_sorted].
    - constructor; constructor.
    - inversion Hs as [|? ? Hr Hy]; subst. destruct (less x y) eqn:E.
      + constructor; [exact Hs|]. constructor.
        * unfold not_after. now apply (sw_asym less SW).
        * rewrite Forall_forall in *. intros z Hz. unfold not_after.
          eapply (sw_lt_le less SW); [exact E|]. apply Hy. exact Hz.
      + constructor; [now apply IH|].
        rewrite Forall_forall in *. intros z Hz.
        apply (Permutation_in _ (Permutation_sym (insert_perm x r))) in Hz.
        destruct Hz as [<-|Hz]; [exact E|now apply Hy].
  Qed.

  Lemma sorted_firstn : forall n l, StronglySorted not_after l -> StronglySorted not_after (firstn n l).
  Proof.
    induction n as [|n IH]; intros l Hs; [constructor|].
    destruct l as [|y r]; [constructor|]. cbn [firstn]. inversion Hs as [|? ? Hr Hy]; subst.
    constructor; [now apply IH|].
    rewrite Forall_forall in *. intros z Hz. apply Hy.
    rewrite <- (firstn_skipn n r). apply in_or_app. now left.
  Qed.

  (** in a sorted list nothing of a later part is ordered before something of an
      earlier part *)
  Lemma sorted_app_cross : forall F T, StronglySorted not_after (F ++ T) ->
      forall f t, In f F -> In t T -> less t f = false.
  Proof.
    induction F as [|y F IH]; intros T Hs f t Hf Ht; [contradiction|].
    cbn [app] in Hs. inversion Hs as [|? ? Hr Hy]; subst.
    destruct Hf as [->|Hf]; [|eapply IH; eauto].
    rewrite Forall_forall in Hy. apply Hy. apply in_or_app. now right.
  Qed.

  Lemma firstn_insert : forall d s x,
      firstn d (insert_sorted less x (firstn d s)) = firstn d (insert_sorted less x s).
  Proof.
    intros d s. revert d. induction s as [|y r IH]; intros d x.
    - now rewrite firstn_nil.
    - destruct d as [|d]; [reflexivity|]. cbn [firstn insert_sorted].
      destruct (less x y).
      + cbn [firstn]. f_equal. change (y :: firstn d r) with (firstn (S d) (y :: r)).
        rewrite firstn_firstn. f_equal. lia.
      + cbn [firstn]. f_equal. apply IH.
  Qed.

  Lemma sort_by_spec_gen : forall xs acc, StronglySorted not_after acc ->
      StronglySorted not_after (fold_left (fun acc x => insert_sorted less x acc) xs acc)
      /\ Permutation (xs ++ acc) (fold_left (fun acc x => insert_sorted less x acc) xs acc).
  Proof.
    induction xs as [|x r IH]; intros acc Hs; cbn [fold_left app]; [split; auto|].
    destruct (IH (insert_sorted less x acc) (insert_sorted_sorted x acc Hs)) as [Hs' P].
    split; [exact Hs'|]. eapply Permutation_trans; [|exact P].
    eapply Permutation_trans; [apply Permutation_middle|].
    apply Permutation_app_head. apply insert_perm.
  Qed.

  Lemma sort_by_spec : forall xs, StronglySorted not_after (sort_by less xs) /\ Permutation xs (sort_by less xs).
  Proof.
    intros xs. destruct (sort_by_spec_gen xs [] (SSorted_nil _)) as [Hs P].
    split; [exact Hs|]. now rewrite app_nil_r in P.
  Qed.

  (** keeping the [depth] best after every push = the [depth] best of everything *)
  Lemma fold_ideal_firstn : forall d xs s, d <> -1 ->
      fold_left (ideal_push less d) xs (firstn (Z.to_nat d) s)
      = firstn (Z.to_nat d) (fold_left (fun acc x => insert_sorted less x acc) xs s).
  Proof.
    intros d xs. induction xs as [|x r IH]; intros s Hd; cbn [fold_left]; [reflexivity|].
    rewrite <- IH by exact Hd. f_equal. unfold ideal_push.
    destruct (d =? -1) eqn:E; [lia|]. apply firstn_insert.
  Qed.

  Lemma fold_ideal_d_best : forall d xs, fold_left (ideal_push less d) xs [] = d_best less d xs.
  Proof.
    intros d xs. unfold d_best, sort_by. destruct (d =? -1) eqn:E.
    - revert E. generalize (@nil A). induction xs as [|x r IH]; intros acc E; cbn [fold_left]; [reflexivity|].
      rewrite IH by exact E. unfold ideal_push. now rewrite E.
    - rewrite <- fold_ideal_firstn by lia. now rewrite firstn_nil.
  Qed.

  Lemma total_on_incl : forall xs ys, incl ys xs -> total_on less xs -> total_on less ys.
  Proof. intros xs ys Hi Ht a b Ha Hb. apply Ht; auto. Qed.

  Lemma ideal_push_incl : forall d I x, incl (ideal_push less d I x) (x :: I).
  Proof.
    intros d I x z Hz. unfold ideal_push in Hz.
    assert (Hz' : In z (insert_sorted less x I)).
    { destruct (d =? -1); [exact Hz|].
      rewrite <- (firstn_skipn (Z.to_nat d) (insert_sorted less x I)). apply in_or_app. now left. }
    eapply Permutation_in; [apply Permutation_sym, insert_perm|exact Hz'].
  Qed.

  (** one push: the real queue follows the ideal one *)
  Lemma pq_push_ideal : forall d l I x,
      -1 <= d -> heap_ok less l -> Permutation l I -> StronglySorted not_after I ->
      (d = -1 \/ Z.of_nat (length I) <= d) -> total_on less (x :: I) ->
      exists l', pq_push less d l x = Ok l' /\ heap_ok less l' /\ Permutation l' (ideal_push less d I x)
                 /\ StronglySorted not_after (ideal_push less d I x)
                 /\ (d = -1 \/ Z.of_nat (length (ideal_push less d I x)) <= d).
  Proof.
    intros d l I x Hd Hh P HsI Hlen Htot.
    destruct (pq_push_spec less SW d l x Hh) as (l' & Hp & Hh' & Hno & Hov).
    exists l'. split; [exact Hp|]. split; [exact Hh'|].
    pose proof (insert_sorted_sorted x I HsI) as HsJ.
    pose proof (insert_perm x I) as PJ.
    assert (LJ : length (insert_sorted less x I) = S (length I)).
    { rewrite <- (Permutation_length PJ). reflexivity. }
    pose proof (Permutation_length P) as Ll.
    unfold ideal_push. destruct (d =? -1) eqn:E.
    - split; [|split; [exact HsJ|left; lia]].
      eapply Permutation_trans; [apply Permutation_sym, Hno; left; lia|].
      eapply Permutation_trans; [apply perm_skip; exact P|exact PJ].
    - split; [|split; [now apply sorted_firstn|right; rewrite firstn_length; lia]].
      destruct (Z.lt_ge_cases (Z.of_nat (length I)) d) as [Hlt|Hge].
      + rewrite firstn_all2 by lia.
        eapply Permutation_trans; [apply Permutation_sym, Hno; right; lia|].
        eapply Permutation_trans; [apply perm_skip; exact P|exact PJ].
      + assert (Hdl : Z.to_nat d = length I) by lia.
        destruct Hov as (y & Py & Hmax); [lia|].
        destruct (nth_error_in_range (insert_sorted less x I) (length I)) as [w Hw]; [lia|].
        pose proof (split_last _ _ _ LJ Hw) as HJ. rewrite Hdl.
        set (F := firstn (length I) (insert_sorted less x I)) in *.
        assert (PxJ : Permutation (x :: l) (F ++ [w])).
        { rewrite <- HJ. eapply Permutation_trans; [apply perm_skip; exact P|exact PJ]. }
        (* the dropped element is the last of the sorted list *)
        assert (Hyw : y = w).
        { assert (Hy : In y (x :: I)).
          { eapply Permutation_in; [apply perm_skip; exact P|].
            eapply Permutation_in; [apply Permutation_sym; exact Py|now left]. }
          assert (Hwin : In w (x :: I)).
          { eapply Permutation_in; [apply Permutation_sym; exact PJ|]. rewrite HJ. apply in_or_app. right. now left. }
          destruct (Htot y w Hy Hwin) as [Heq|[Hlt|Hlt]]; [exact Heq| |].
          - rewrite Hmax in Hlt; [discriminate|].
            eapply Permutation_in; [apply Permutation_sym; exact PxJ|]. apply in_or_app. right. now left.
          - assert (HyJ : In y (F ++ [w])).
            { eapply Permutation_in; [exact PxJ|]. eapply Permutation_in; [apply Permutation_sym; exact Py|now left]. }
            apply in_app_or in HyJ. destruct HyJ as [HyF|[Hyw|[]]]; [|now symmetry].
            rewrite HJ in HsJ. rewrite (sorted_app_cross F [w] HsJ y w HyF) in Hlt; [discriminate|now left]. }
        subst y. apply Permutation_cons_inv with (a := w).
        eapply Permutation_trans; [apply Permutation_sym; exact Py|].
        eapply Permutation_trans; [exact PxJ|]. apply Permutation_sym, Permutation_cons_append.
  Qed.

  Lemma pq_push_all_ideal : forall xs d l I,
      -1 <= d -> heap_ok less l -> Permutation l I -> StronglySorted not_after I ->
      (d = -1 \/ Z.of_nat (length I) <= d) -> total_on less (xs ++ I) ->
      exists l', pq_push_all less d l xs = Ok l' /\ heap_ok less l'
                 /\ Permutation l' (fold_left (ideal_push less d) xs I).
  Proof.
    induction xs as [|x r IH]; intros d l I Hd Hh P Hs Hlen Htot; cbn [pq_push_all fold_left].
    - exists l. auto.
    - destruct (pq_push_ideal d l I x Hd Hh P Hs Hlen) as (l1 & Hp & Hh1 & P1 & Hs1 & Hlen1).
      { eapply total_on_incl; [|exact Htot]. intros z [->|Hz]; [now left|]. apply in_or_app. now right. }
      rewrite Hp. cbn [bind]. apply IH; auto.
      eapply total_on_incl; [|exact Htot]. intros z Hz. apply in_app_or in Hz. destruct Hz as [Hz|Hz].
      + right. apply in_or_app. now left.
      + apply ideal_push_incl in Hz. destruct Hz as [->|Hz]; [now left|]. right. apply in_or_app. now right.
  Qed.

  Theorem pq_keeps_d_best : forall d xs, -1 <= d -> total_on less xs ->
      exists l, pq_push_all less d [] xs = Ok l /\ heap_ok less l /\ Permutation l (d_best less d xs).
  Proof.
    intros d xs Hd Htot. rewrite <- fold_ideal_d_best.
    apply pq_push_all_ideal; auto.
    - apply heap_ok_nil.
    - constructor.
    - destruct (Z.eq_dec d (-1)); [auto|right; cbn; lia].
    - now rewrite app_nil_r.
  Qed.

  (** the [depth] best are closed under "ordered before" *)
  Lemma d_best_downward : forall d xs a b,
      In a xs -> In b (d_best less d xs) -> less a b = true -> In a (d_best less d xs).
  Proof.
    intros d xs a b Ha Hb Hab. destruct (sort_by_spec xs) as [Hs P].
    unfold d_best in *. destruct (d =? -1); [eapply Permutation_in; eauto|].
    assert (Ha' : In a (sort_by less xs)) by (eapply Permutation_in; eauto).
    rewrite <- (firstn_skipn (Z.to_nat d) (sort_by less xs)) in Ha', Hs.
    apply in_app_or in Ha'. destruct Ha' as [Ha'|Ha']; [exact Ha'|].
    rewrite (sorted_app_cross _ _ Hs b a Hb Ha') in Hab. discriminate.
  Qed.

  Theorem pq_kept_downward : forall d xs l a b, -1 <= d -> total_on less xs ->
      pq_push_all less d [] xs = Ok l -> In a xs -> In b l -> less a b = true -> In a l.
  Proof.
    intros d xs l a b Hd Htot Hrun Ha Hb Hab.
    destruct (pq_keeps_d_best d xs Hd Htot) as (l0 & Hrun0 & _ & P). rewrite Hrun in Hrun0. inversion Hrun0; subst l0.
    eapply Permutation_in; [apply Permutation_sym; exact P|].
    eapply d_best_downward; eauto. eapply Permutation_in; eauto.
  Qed.
End Bounded.

(** jobs with distinct UIDs never tie *)
Lemma job_less_total_on : forall xs, NoDup (map j_uid xs) -> total_on job_less xs.
Proof.
  intros xs Hnd a b Ha Hb. destruct (Z.eq_dec (j_uid a) (j_uid b)) as [E|E].
  - left. eapply nodup_map_inj; eauto.
  - right. now apply job_less_total.
Qed.

Theorem leaf_queue_keeps_d_best_proof : forall d xs, -1 <= d -> NoDup (map j_uid xs) ->
    exists l, pq_push_all job_less d [] xs = Ok l /\ heap_ok job_less l /\ Permutation l (d_best job_less d xs)
              /\ (forall a b, In a xs -> In b l -> job_less a b = true -> In a l).
Proof.
  intros d xs Hd Hnd. pose proof (job_less_total_on xs Hnd) as Htot.
  destruct (pq_keeps_d_best job_less job_less_strict_weak d xs Hd Htot) as (l & Hrun & Hh & P).
  exists l. repeat split; auto.
  intros a b Ha Hb Hab. eapply (pq_kept_downward job_less job_less_strict_weak); eauto.
Qed.

(** * Witnesses *)
Definition mkjob (uid q prio ct : Z) : job :=
  {| j_uid := uid; j_queue := q; j_prio := prio; j_subgroups := [(0, 1)]; j_ctime := ct; j_shape := 0;
     j_pre := PPreemptible; j_req := []; j_last_start := None |}.

Definition w_qs : list qinfo := [ {| qi_id := 1; qi_parent := None; qi_leaf := true |} ].
Definition w_top : job := mkjob 1 1 3 0.
Definition w_a : job := mkjob 2 1 2 0.
Definition w_b : job := mkjob 3 1 1 0.
Definition w_qord (l r : Z) (lj rj : option job) : bool := true.

(** the defect repaired by commit 4521da5: with depth 2 and jobs of priority 3, 1, 2
    arriving in this order, [Push] as it was ([pq_push_v0]: heap.Remove(q, 2)) drops
    the priority-2 job that has just been pushed to slice index 2 and keeps the
    priority-1 job; the repaired [Push] keeps the two best *)
Lemma pq_v0_drops_non_worst :
  (l1 <- pq_push_v0 job_less 2 [] w_top ;; l2 <- pq_push_v0 job_less 2 l1 w_b ;; pq_push_v0 job_less 2 l2 w_a)
  = Ok [w_top; w_b]
  /\ job_less w_a w_b = true
  /\ pq_push_all job_less 2 [] [w_top; w_b; w_a] = Ok [w_top; w_a]
  /\ d_best job_less 2 [w_top; w_b; w_a] = [w_top; w_a].
Proof. repeat split; vm_compute; reflexivity. Qed.

(** an oracle that pushes back a job other than the one it was given defeats the
    statement at a finite depth: depth 1, pending [w_a] and the better [w_top]; the
    queue keeps [w_top]; placing [w_top] "re-pushes" [w_b], which is then placed
    although [w_a] (ordered before it, pending, dropped) is not *)
Definition w_attempt (j : job) (c : unit) : option (unit * option job) :=
  if j_uid j =? 1 then Some (tt, Some w_b) else Some (tt, None).

Lemma any_repush_witness :
  allocate w_qs w_qord 1 w_attempt 10 [w_a; w_top] tt = Ok [(w_top, true); (w_b, true)].
Proof. vm_compute. reflexivity. Qed.

Lemma any_repush_refuted_proof : ~ C16_decision_stmt_any_repush 1.
Proof.
  intros H.
  specialize (H w_qs w_qord unit w_attempt (fun _ _ => True) w_a w_b 10%nat [w_a; w_top] tt
                [(w_top, true); (w_b, true)]).
  assert (Hin : In (w_a, true) [(w_top, true); (w_b, true)]).
  { apply H; [ auto | auto | auto | auto | reflexivity | reflexivity | vm_compute; reflexivity
               | cbn; auto | vm_compute; reflexivity | exact any_repush_witness | cbn; auto ]. }
  cbn in Hin. destruct Hin as [Hx|[Hx|[]]]; discriminate Hx.
Qed.

(** * Non-vacuity *)
Definition ex_qs : list qinfo :=
  [ {| qi_id := 1; qi_parent := None; qi_leaf := false |};
    {| qi_id := 2; qi_parent := Some 1; qi_leaf := true |};
    {| qi_id := 3; qi_parent := Some 1; qi_leaf := true |} ].
Definition ex_qord (l r : Z) (lj rj : option job) : bool := l <? r.
Definition ex_a : job := mkjob 1 2 2 5.
Definition ex_b : job := mkjob 2 2 1 4.
Definition ex_c : job := mkjob 3 3 9 1.
(** one unit of capacity per attempt; a job that has nothing allocated yet is
    pushed back once, with one pod allocated (as allocate does for an elastic job) *)
Definition progressed (j : job) : job :=
  {| j_uid := j_uid j; j_queue := j_queue j; j_prio := j_prio j; j_subgroups := [(1, 1)];
     j_ctime := j_ctime j; j_shape := j_shape j; j_pre := j_pre j; j_req := j_req j; j_last_start := j_last_start j |}.
Definition ex_attempt (j : job) (c : Z) : option (Z * option job) :=
  if 1 <=? c then
    Some (c - 1, match j_subgroups j with (0, _) :: _ => Some (progressed j) | _ => None end)
  else None.

Lemma nonvacuous_proof :
  (forall c, Z.le c c)
  /\ (forall j c c' r, ex_attempt j c = Some (c', r) -> c' <= c)
  /\ (forall c c', c' <= c -> fits ex_attempt ex_a c' = true -> fits ex_attempt ex_a c = true)
  /\ (forall c, fits ex_attempt ex_a c = fits ex_attempt ex_b c)
  /\ repush_same_job ex_attempt
  /\ j_queue ex_a = j_queue ex_b /\ job_less ex_a ex_b = true
  /\ NoDup (map j_uid [ex_b; ex_c; ex_a])
  /\ queue_ok ex_qs (j_queue ex_a) = true
  /\ allocate ex_qs ex_qord (-1) ex_attempt 20 [ex_b; ex_c; ex_a] 9
     = Ok [(ex_a, true); (progressed ex_a, true); (ex_b, true); (progressed ex_b, true);
           (ex_c, true); (progressed ex_c, true)]
  /\ allocate ex_qs ex_qord (-1) ex_attempt 20 [ex_b; ex_c; ex_a] 1
     = Ok [(ex_a, true); (progressed ex_a, false); (ex_b, false); (ex_c, false)]
  /\ allocate ex_qs ex_qord 1 ex_attempt 20 [ex_b; ex_c; ex_a] 9
     = Ok [(ex_a, true); (progressed ex_a, true); (ex_c, true); (progressed ex_c, true)]
  /\ allocate ex_qs ex_qord 1 ex_attempt 20 [ex_b; ex_c; ex_a] 1
     = Ok [(ex_a, true); (progressed ex_a, false); (ex_c, false)].
Proof.
  split; [intros; lia|]. split.
  { intros j c c' r. unfold ex_attempt. destruct (1 <=? c); [|discriminate]. intros H. inversion H. lia. }
  split.
  { intros c c' Hle. unfold fits, ex_attempt. destruct (Z.leb_spec 1 c'), (Z.leb_spec 1 c); auto. lia. }
  split; [intros c; unfold fits, ex_attempt; destruct (1 <=? c); reflexivity|]. split.
  { intros j c c' j'. unfold ex_attempt. destruct (1 <=? c); [|discriminate].
    destruct (j_subgroups j) as [|[[|p|p] m] r]; intros H; inversion H; subst; split; reflexivity. }
  split; [reflexivity|]. split; [vm_compute; reflexivity|]. split.
  { cbn. repeat constructor; cbn; intuition discriminate. }
  split; [vm_compute; reflexivity|].
  repeat split; vm_compute; reflexivity.
Qed.
