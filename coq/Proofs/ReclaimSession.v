(** Proofs for the session level of C07 (Model/ReclaimSession.v): the one-step theorems of
    Proofs/Reclaim.v lifted over the list of commits of a session. *)
From Coq Require Import List ZArith QArith Bool Lia Lqa.
From KaiV Require Import Model.Reclaim Model.ReclaimSpec Model.ReclaimSession Proofs.Reclaim.
Import ListNotations.
Set Default Timeout 60.
Open Scope Q_scope.

(** * A queue map whose entries are rewritten without touching identifiers and parents *)
Section Relabel.
  Variable f : queue -> queue.
  Hypothesis f_id : forall q, q_id (f q) = q_id q.
  Hypothesis f_parent : forall q, q_parent (f q) = q_parent q.

  Lemma lookup_map qs id : lookup (map f qs) id = option_map f (lookup qs id).
  Proof.
    induction qs as [|q r IH]; cbn [map lookup]; [reflexivity|].
    rewrite f_id. destruct (Pos.eqb (q_id q) id); [reflexivity|exact IH].
  Qed.

  Lemma chain_map fuel : forall qs id,
    chain fuel (map f qs) id = option_map (map f) (chain fuel qs id).
  Proof.
    induction fuel as [|n IH]; intros qs id; cbn [chain]; [reflexivity|].
    rewrite lookup_map. destruct (lookup qs id) as [q|]; cbn [option_map]; [|reflexivity].
    rewrite f_parent. destruct (q_parent q) as [p|]; [|reflexivity].
    rewrite IH. destruct (chain n qs p); reflexivity.
  Qed.

  Lemma chain_of_map qs id : chain_of (map f qs) id = option_map (map f) (chain_of qs id).
  Proof. unfold chain_of. rewrite map_length. apply chain_map. Qed.

  Lemma on_chain_map qs k id : on_chain (map f qs) k id = on_chain qs k id.
  Proof.
    unfold on_chain. rewrite chain_of_map.
    destruct (chain_of qs k) as [ch|]; cbn [option_map]; [|reflexivity].
    induction ch as [|x r IH]; cbn [map existsb]; [reflexivity|]. rewrite f_id, IH. reflexivity.
  Qed.

  Definition fpair (p : queue * queue) : queue * queue := (f (fst p), f (snd p)).

  Lemma level_walk_map : forall pa pb cur,
    level_walk (map f pa) (map f pb) (option_map fpair cur) = option_map fpair (level_walk pa pb cur).
  Proof.
    induction pa as [|a ra IH]; intros pb cur; cbn [map level_walk]; [reflexivity|].
    destruct pb as [|b rb]; cbn [map]; [reflexivity|]. rewrite !f_id.
    destruct (Pos.eqb (q_id a) (q_id b)); [|reflexivity].
    exact (IH rb (Some (a, b))).
  Qed.

  Lemma leveled_map qs a b :
    leveled (map f qs) a b =
    match leveled qs a b with
    | Ok o => Ok (option_map fpair o)
    | Panic => Panic
    | OutOfFuel => OutOfFuel
    end.
  Proof.
    unfold leveled. rewrite !chain_of_map.
    destruct (chain_of qs a) as [ca|], (chain_of qs b) as [cb|]; cbn [option_map]; try reflexivity.
    rewrite <- !map_rev. f_equal. exact (level_walk_map _ _ None).
  Qed.
End Relabel.

(** * One commit *)
Definition upd (qs : list queue) (c : commit) (q : queue) : queue :=
  set_queue_alloc q (give qs c (q_id q) (alloc_vec q)) (give_np qs c (q_id q) (allocnp_vec q)).

Lemma apply_commit_map qs c : apply_commit qs c = map (upd qs c) qs.
Proof. reflexivity. Qed.
Lemma upd_id qs c q : q_id (upd qs c q) = q_id q.
Proof. reflexivity. Qed.
Lemma upd_parent qs c q : q_parent (upd qs c q) = q_parent q.
Proof. reflexivity. Qed.

Lemma alloc_vec_set q a np : alloc_vec (set_queue_alloc q a np) = a.
Proof. destruct a; reflexivity. Qed.
Lemma allocnp_vec_set q a np : allocnp_vec (set_queue_alloc q a np) = np.
Proof. destruct np; reflexivity. Qed.
Lemma deserved_vec_set q a np : deserved_vec (set_queue_alloc q a np) = deserved_vec q.
Proof. reflexivity. Qed.
Lemma fair_vec_set q a np : fair_vec (set_queue_alloc q a np) = fair_vec q.
Proof. reflexivity. Qed.
Lemma allocatable_vec_set q a np : allocatable_vec (set_queue_alloc q a np) = allocatable_vec q.
Proof. reflexivity. Qed.

Lemma protected_set q a np h : protected (set_queue_alloc q a np) h <-> protected q h.
Proof. unfold protected. rewrite deserved_vec_set, allocatable_vec_set. reflexivity. Qed.

Lemma on_chain_apply qs c k id : on_chain (apply_commit qs c) k id = on_chain qs k id.
Proof. rewrite apply_commit_map. apply on_chain_map. apply upd_id. apply upd_parent. Qed.

(** the declarative holdings only read the tree *)
Lemma take_ext qs qs' :
  (forall k id, on_chain qs' k id = on_chain qs k id) ->
  forall done id h, take qs' done id h = take qs done id h.
Proof.
  intros H done id. unfold take.
  induction done as [|kv r IH]; intros h; cbn [fold_left]; [reflexivity|]. rewrite H. apply IH.
Qed.

Lemma give_ext qs qs' :
  (forall k id, on_chain qs' k id = on_chain qs k id) ->
  forall c id h, give qs' c id h = give qs c id h.
Proof. intros H c id h. unfold give. rewrite H, (take_ext _ _ H). reflexivity. Qed.

Lemma give_np_ext qs qs' :
  (forall k id, on_chain qs' k id = on_chain qs k id) ->
  forall c id h, give_np qs' c id h = give_np qs c id h.
Proof. intros H c id h. unfold give_np. rewrite H. reflexivity. Qed.

Lemma holding_ext qs qs' :
  (forall k id, on_chain qs' k id = on_chain qs k id) ->
  forall cs id h, holding qs' cs id h = holding qs cs id h.
Proof.
  intros H cs id. unfold holding.
  induction cs as [|c r IH]; intros h; cbn [fold_left]; [reflexivity|].
  rewrite (give_ext _ _ H). apply IH.
Qed.

Lemma holding_np_ext qs qs' :
  (forall k id, on_chain qs' k id = on_chain qs k id) ->
  forall cs id h, holding_np qs' cs id h = holding_np qs cs id h.
Proof.
  intros H cs id. unfold holding_np.
  induction cs as [|c r IH]; intros h; cbn [fold_left]; [reflexivity|].
  rewrite (give_np_ext _ _ H). apply IH.
Qed.

Lemma holding_cons qs c r id h : holding qs (c :: r) id h = holding qs r id (give qs c id h).
Proof. reflexivity. Qed.
Lemma holding_np_cons qs c r id h : holding_np qs (c :: r) id h = holding_np qs r id (give_np qs c id h).
Proof. reflexivity. Qed.

Lemma lookup_apply qs c id q :
  lookup qs id = Some q -> lookup (apply_commit qs c) id = Some (upd qs c q).
Proof.
  intros H. rewrite apply_commit_map, (lookup_map _ (upd_id qs c)), H. reflexivity.
Qed.

(** * The state a verdict is computed on is the cumulative truth *)
Theorem session_state_is_cumulative : forall cs qs0 id q0,
  lookup qs0 id = Some q0 ->
  exists q, lookup (run qs0 cs) id = Some q /\
    q_id q = q_id q0 /\ q_parent q = q_parent q0 /\
    deserved_vec q = deserved_vec q0 /\ fair_vec q = fair_vec q0 /\
    allocatable_vec q = allocatable_vec q0 /\
    alloc_vec q = holding qs0 cs id (alloc_vec q0) /\
    allocnp_vec q = holding_np qs0 cs id (allocnp_vec q0).
Proof.
  induction cs as [|c r IH]; intros qs0 id q0 H.
  - exists q0. cbn. repeat split; auto.
  - pose proof (lookup_id _ _ _ H) as Hid. subst id.
    change (run qs0 (c :: r)) with (run (apply_commit qs0 c) r).
    destruct (IH _ _ _ (lookup_apply _ c _ _ H)) as [q [Hl [Hi [Hp [Hd [Hf [Ha [Hal Hnp]]]]]]]].
    exists q. split; [exact Hl|]. rewrite Hi, Hp, Hd, Hf, Ha, Hal, Hnp.
    rewrite (holding_ext _ _ (on_chain_apply qs0 c)), (holding_np_ext _ _ (on_chain_apply qs0 c)).
    unfold upd. rewrite alloc_vec_set, allocnp_vec_set.
    repeat split; reflexivity.
Qed.

(** * Clause 1 over a whole session *)
Theorem session_protected_queue_untouched m : forall done qs0 c rest,
  accepted_on_current m qs0 (done ++ c :: rest) ->
  forall pre k v post, flatten (c_victims c) = pre ++ (k, v) :: post ->
  exists rq eq, leveled qs0 (rc_queue (c_rc c)) k = Ok (Some (rq, eq)) /\
    (no_sentinel (take qs0 pre (q_id eq) (holding qs0 done (q_id eq) (alloc_vec eq))) ->
     ~ protected eq (take qs0 pre (q_id eq) (holding qs0 done (q_id eq) (alloc_vec eq)))).
Proof.
  induction done as [|c0 d IH]; intros qs0 c rest Hacc pre k v post E.
  - cbn [app accepted_on_current] in Hacc. destruct Hacc as [_ [Hr _]].
    exact (protected_queue_untouched _ _ _ _ Hr _ _ _ _ E).
  - cbn [app accepted_on_current] in Hacc. destruct Hacc as [_ [_ Hacc]].
    destruct (IH _ _ _ Hacc _ _ _ _ E) as [rq1 [eq1 [Hl1 Hp1]]].
    rewrite apply_commit_map, (leveled_map _ (upd_id qs0 c0) (upd_parent qs0 c0)) in Hl1.
    destruct (leveled qs0 (rc_queue (c_rc c)) k) as [[[rq eq]|]| |] eqn:Hl; try discriminate.
    cbn [option_map fpair fst snd] in Hl1. injection Hl1 as <- <-.
    exists rq, eq. split; [reflexivity|].
    rewrite (take_ext _ _ (on_chain_apply qs0 c0)), (holding_ext _ _ (on_chain_apply qs0 c0)) in Hp1.
    rewrite upd_id in Hp1. unfold upd in Hp1. rewrite alloc_vec_set, protected_set in Hp1.
    rewrite holding_cons. exact Hp1.
Qed.

(** * Clauses 2 and 3 (the gate) over a whole session *)
Theorem session_reclaimer_within_fair_share m : forall done qs0 c rest,
  accepted_on_current m qs0 (done ++ c :: rest) ->
  exists q, lookup qs0 (rc_queue (c_rc c)) = Some q /\
    within_all (vadd (holding qs0 done (q_id q) (alloc_vec q)) (quantify (rc_res (c_rc c)))) (fair_vec q) /\
    (rc_preemptible (c_rc c) = false ->
     within_all (vadd (holding_np qs0 done (q_id q) (allocnp_vec q)) (quantify (rc_res (c_rc c))))
                (deserved_vec q)).
Proof.
  induction done as [|c0 d IH]; intros qs0 c rest Hacc.
  - cbn [app accepted_on_current] in Hacc. destruct Hacc as [Hc _].
    exact (reclaimer_within_fair_share _ _ Hc).
  - cbn [app accepted_on_current] in Hacc. destruct Hacc as [_ [_ Hacc]].
    destruct (IH _ _ _ Hacc) as [q1 [Hl1 [Hf1 Hn1]]].
    rewrite apply_commit_map, (lookup_map _ (upd_id qs0 c0)) in Hl1.
    destruct (lookup qs0 (rc_queue (c_rc c))) as [q|] eqn:Hl; [|discriminate].
    cbn [option_map] in Hl1. injection Hl1 as <-.
    exists q. split; [reflexivity|].
    rewrite (holding_ext _ _ (on_chain_apply qs0 c0)) in Hf1.
    rewrite (holding_np_ext _ _ (on_chain_apply qs0 c0)) in Hn1.
    rewrite upd_id in Hf1, Hn1. unfold upd in Hf1, Hn1.
    rewrite alloc_vec_set, fair_vec_set in Hf1. rewrite allocnp_vec_set, deserved_vec_set in Hn1.
    rewrite holding_cons, holding_np_cons. split; assumption.
Qed.

(** the boolean form of "accepted on the current state" *)
Lemma is_ok_true_spec r : is_ok_true r = true <-> r = Ok true.
Proof. destruct r as [[|]| |]; cbn; split; intros H; try reflexivity; discriminate. Qed.

Lemma accepted_on_currentb_spec m : forall cs qs,
  accepted_on_currentb m qs cs = true <-> accepted_on_current m qs cs.
Proof.
  induction cs as [|c r IH]; intros qs; cbn [accepted_on_currentb accepted_on_current]; [tauto|].
  rewrite !andb_true_iff, !is_ok_true_spec, IH. tauto.
Qed.

Lemma accepted_on_staleb_spec m : forall cs live stale,
  accepted_on_staleb m live stale cs = true <-> accepted_on_stale m live stale cs.
Proof.
  induction cs as [|c r IH]; intros live stale; cbn [accepted_on_staleb accepted_on_stale]; [tauto|].
  rewrite !andb_true_iff, !is_ok_true_spec, IH. tauto.
Qed.

(** * Witnesses: queue a(1) deserved 4 / fair share 3 holding 1 GPU, queue b(2) deserved 1 /
    fair share 1, queue c(3) deserved 1 / fair share 1 holding 3; every commit moves one GPU
    from b to a reclaimer of a. *)
Definition d_qs (b_alloc : Q) : list queue :=
  [ gq 1%positive None (shr 4 3 unlimited 1 0);
    gq 2%positive None (shr 1 1 unlimited b_alloc 0);
    gq 3%positive None (shr 1 1 unlimited 3 0) ].
Definition d_c : commit :=
  {| c_rc := {| rc_queue := 1%positive; rc_res := gres 1; rc_preemptible := true |};
     c_victims := [(2%positive, [gres 1])] |}.

(** non-vacuity: b holds 3 GPUs, two commits in a row are accepted on the current state (b is
    still above its quota before the second one), a third one is not *)
Theorem session_nonvacuous :
  accepted_on_current 1 (d_qs 3) [d_c; d_c] /\ Acyclic (d_qs 3) /\
  ~ accepted_on_current 1 (d_qs 3) [d_c; d_c; d_c] /\
  (forall id q, lookup (d_qs 3) id = Some q ->
     no_sentinel (holding (d_qs 3) [d_c] id (alloc_vec q)) /\
     no_sentinel (holding (d_qs 3) [d_c; d_c] id (alloc_vec q))).
Proof.
  split; [apply accepted_on_currentb_spec; vm_compute; reflexivity|].
  split; [apply acyclicb_acyclic; vm_compute; reflexivity|].
  split.
  - intros H. apply accepted_on_currentb_spec in H. vm_compute in H. discriminate.
  - intros id q H.
    assert (Hb : forallb (fun q => no_sentinelb (holding (d_qs 3) [d_c] (q_id q) (alloc_vec q))
                                   && no_sentinelb (holding (d_qs 3) [d_c; d_c] (q_id q) (alloc_vec q)))
                         (d_qs 3) = true) by (vm_compute; reflexivity).
    rewrite forallb_forall in Hb. specialize (Hb q (lookup_in _ _ _ H)).
    rewrite (lookup_id _ _ _ H) in Hb. apply andb_true_iff in Hb. destruct Hb as [H1 H2].
    unfold no_sentinelb in H1, H2. rewrite forallb_res in H1, H2.
    split; intros r E; [specialize (H1 r)|specialize (H2 r)];
      apply negb_true_iff in H1 || apply negb_true_iff in H2; apply Qeq_bool_iff in E; congruence.
Qed.

(** The statement one gets by reading "accepted" with a validator input that is not refreshed
    for every job (the clone made for the first job of the session is kept). *)
Definition session_stale_statement : Prop :=
  forall m done qs0 c rest,
    accepted_on_stale m qs0 qs0 (done ++ c :: rest) ->
    forall pre k v post, flatten (c_victims c) = pre ++ (k, v) :: post ->
    exists rq eq, leveled qs0 (rc_queue (c_rc c)) k = Ok (Some (rq, eq)) /\
      (no_sentinel (take qs0 pre (q_id eq) (holding qs0 done (q_id eq) (alloc_vec eq))) ->
       ~ protected eq (take qs0 pre (q_id eq) (holding qs0 done (q_id eq) (alloc_vec eq)))).

(** It is false: b holds 2 GPUs (one above its quota).  The first commit brings it down to its
    quota; judged on the initial clone the second commit is accepted as well, although on the
    current state the validator refuses it, and it takes a GPU from a queue that is within its
    deserved quota and its fair share in every resource. *)
Theorem session_stale_refuted :
  exists m qs0 done c rest pre k v post,
    accepted_on_stale m qs0 qs0 (done ++ c :: rest) /\
    flatten (c_victims c) = pre ++ (k, v) :: post /\
    reclaimable m (run qs0 done) (c_rc c) (c_victims c) = Ok false /\
    forall rq eq, leveled qs0 (rc_queue (c_rc c)) k = Ok (Some (rq, eq)) ->
      no_sentinel (take qs0 pre (q_id eq) (holding qs0 done (q_id eq) (alloc_vec eq))) /\
      protected eq (take qs0 pre (q_id eq) (holding qs0 done (q_id eq) (alloc_vec eq))).
Proof.
  exists 1, (d_qs 2), [d_c], d_c, [], [], 2%positive, (gres 1), [].
  split; [apply accepted_on_staleb_spec; vm_compute; reflexivity|].
  split; [reflexivity|]. split; [vm_compute; reflexivity|].
  intros rq eq H. vm_compute in H. injection H as _ <-. split.
  - intros r E. apply Qeq_bool_iff in E. destruct r; vm_compute in E; discriminate.
  - apply protectedb_spec. vm_compute. reflexivity.
Qed.

Theorem session_stale_statement_false : ~ session_stale_statement.
Proof.
  intros H.
  destruct session_stale_refuted as [m [qs0 [done [c [rest [pre [k [v [post [Ha [Ef [_ Hp]]]]]]]]]]]].
  destruct (H _ _ _ _ _ Ha _ _ _ _ Ef) as [rq [eq [Hl Hn]]].
  destruct (Hp _ _ Hl) as [Hs Hpr]. exact (Hn Hs Hpr).
Qed.
