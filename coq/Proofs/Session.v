(** C13 — proofs about the statement model (Model/Session.v).

    Contents
      1. the operation log: [LogOK] (every undo entry targets an earlier evict
         entry, once) and validity of an index, in a persistent log and while a
         rollback is appending its own undo entries
      2. association lists with first-match update; job books ([jrel]:
         extensional on the index buckets) and queue usage (charging and
         discharging a pod up the parent chain cancel)
      3. node accounting under a relation [R] on nodes: add/remove,
         update/update-back and the same-node GPU move followed by
         RestoreTaskEntry return to an [R]-related node; two instances:
         [neq] (everything but the whole-GPU idle/releasing counts and the
         releasing marks, group maps read through [zget]) and equality for
         tasks that do not share a GPU
      4. pods up to the GPU groups of a shared pod that holds nothing ([prel])
      5. every primitive (Evict, un-evict, Pipeline on another node, Pipeline
         to other devices of the node, Allocate) followed, on ANY related
         state, by its reverse gives a related state ([link_*])
      6. [Link] / [Hist]: Rollback undoes every entry above the checkpoint,
         last first (entries undone by an Unevict are first re-done), and ends
         in a state related to the one recorded at the checkpoint
      7. the main theorems: rollback / discard restore ([rollback_restores_gen],
         [discard_restores_gen]) and their instances
      8. Commit: calls only for valid entries, one per entry
         ([commit_sub]); logs of well-formed statements have at most one valid
         evict entry and one placing entry per pod ([once_ok]), hence at most one
         call per kind and pod ([commit_once_run]).  Evict may be applied to any
         Releasing pod (Statement.Evict leaves it alone since 83a0ca3 + bce7109, [noop_cmd]);
         that a pod which is not Releasing has no valid evict entry is the
         invariant [EI], proved together with [once_ok] ([once_step]) from what
         each recorded command does to the pods ([frame_for]) *)
Set Default Timeout 60.
From Coq Require Import List ZArith PArith Bool Arith Lia ZifyBool.
From KaiV Require Import Model.Res Model.Status Model.AMap Model.Node Model.NodeSpec Model.Session Proofs.Node.
Import ListNotations.

(* ------------------------------------------------------------------ LogA *)

(** every undo entry targets an earlier evict entry; targets are distinct *)
Definition LogOK (L : list op) : Prop :=
  forall u k, nth_error L u = Some (OUndo k) ->
    (k < u)%nat
    /\ (exists p a b c d, nth_error L k = Some (OEvict p a b c d))
    /\ forall u', nth_error L u' = Some (OUndo k) -> u' = u.

(** what Rollback has appended after undoing the indices above [i] of a log of length [n]:
    re-evictions (junk) and one [OUndo j] for every undone index *)
Definition tail_ok (n i : nat) (T : list op) : Prop :=
  (forall o, In o T -> match o with OUndo j => (i < j < n)%nat | OEvict _ _ _ _ _ => True | _ => False end)
  /\ forall j, (i < j < n)%nat -> In (OUndo j) T.

Definition undone_in (L : list op) (i : nat) : bool :=
  existsb (fun o => match o with OUndo k => Nat.eqb k i | _ => false end) L.

(** * find_undo via nth_error *)
Lemma la_fu_some L i : forall pos u, find_undo L i pos = Some u ->
  exists m, u = (pos + m)%nat /\ nth_error L m = Some (OUndo i).
Proof.
  induction L as [|o r IH]; intros pos u H.
  - discriminate H.
  - destruct o as [p a b c d|p a b c d e f|c n v|k]; cbn [find_undo] in H.
    1-3: (apply IH in H; destruct H as [m [Hu Hn]]; exists (S m); split; [lia | exact Hn]).
    destruct (Nat.eqb k i) eqn:E.
    + apply Nat.eqb_eq in E. subst k. inversion H; subst. exists 0%nat. split; [lia | reflexivity].
    + apply IH in H. destruct H as [m [Hu Hn]]. exists (S m); split; [lia | exact Hn].
Qed.

Lemma la_fu_none_inv L i : forall pos, find_undo L i pos = None ->
  forall m, nth_error L m <> Some (OUndo i).
Proof.
  induction L as [|o r IH]; intros pos H m Hm.
  - destruct m; discriminate Hm.
  - destruct o as [p a b c d|p a b c d e f|c n v|k]; cbn [find_undo] in H.
    1-3: (destruct m as [|m]; cbn [nth_error] in Hm; [discriminate Hm | exact (IH _ H m Hm)]).
    destruct (Nat.eqb k i) eqn:E; [discriminate H|].
    destruct m as [|m]; cbn [nth_error] in Hm.
    + inversion Hm; subst. rewrite Nat.eqb_refl in E. discriminate E.
    + exact (IH _ H m Hm).
Qed.

Lemma la_fu_none L i pos : (forall m, nth_error L m <> Some (OUndo i)) -> find_undo L i pos = None.
Proof.
  intros H. destruct (find_undo L i pos) as [u|] eqn:E; [|reflexivity].
  apply la_fu_some in E. destruct E as [m [_ Hm]]. exfalso. exact (H m Hm).
Qed.

Lemma la_vf_true L i f : (forall m, nth_error L m <> Some (OUndo i)) -> valid_fuel (S f) L i = Some true.
Proof. intros H. cbn [valid_fuel]. rewrite (la_fu_none L i 0 H). reflexivity. Qed.

Lemma la_vf_step L i f u : find_undo L i 0 = Some u ->
  valid_fuel (S f) L i = option_map negb (valid_fuel f L u).
Proof. intros H. cbn [valid_fuel]. rewrite H. reflexivity. Qed.

(** * undone_in via nth_error *)
Lemma la_undone_true L k : undone_in L k = true -> exists m, nth_error L m = Some (OUndo k).
Proof.
  unfold undone_in. intros H. apply existsb_exists in H. destruct H as [o [Hin Ho]].
  destruct o as [p a b c d|p a b c d e f|c n v|j]; try discriminate Ho.
  apply Nat.eqb_eq in Ho. subst j. apply In_nth_error in Hin. exact Hin.
Qed.

Lemma la_undone_false L k : undone_in L k = false -> forall m, nth_error L m <> Some (OUndo k).
Proof.
  unfold undone_in. intros H m Hm.
  assert (Ht : existsb (fun o => match o with OUndo j => Nat.eqb j k | _ => false end) L = true).
  { apply existsb_exists. exists (OUndo k). split; [exact (nth_error_In _ _ Hm) | apply Nat.eqb_refl]. }
  rewrite H in Ht. discriminate Ht.
Qed.

Lemma la_undone_intro L k m : nth_error L m = Some (OUndo k) -> undone_in L k = true.
Proof.
  intros Hm. destruct (undone_in L k) eqn:E; [reflexivity|].
  exfalso. exact (la_undone_false L k E m Hm).
Qed.

(** * nth_error helpers *)
Lemma la_nth_lt {A} (L : list A) m x : nth_error L m = Some x -> (m < length L)%nat.
Proof. intros H. apply nth_error_Some. rewrite H. discriminate. Qed.

Lemma la_nth_app {A} (L T : list A) m x : nth_error (L ++ T) m = Some x ->
  ((m < length L)%nat /\ nth_error L m = Some x)
  \/ ((length L <= m)%nat /\ nth_error T (m - length L) = Some x).
Proof.
  intros H. destruct (Nat.lt_ge_cases m (length L)) as [Hlt|Hge].
  - left. split; [exact Hlt|]. rewrite nth_error_app1 in H by exact Hlt. exact H.
  - right. split; [exact Hge|]. rewrite nth_error_app2 in H by exact Hge. exact H.
Qed.

Lemma la_nth_snoc {A} (L : list A) o m x : nth_error (L ++ [o]) m = Some x ->
  ((m < length L)%nat /\ nth_error L m = Some x) \/ (m = length L /\ x = o).
Proof.
  intros H. apply la_nth_app in H. destruct H as [H|[Hge H]]; [left; exact H|right].
  destruct (m - length L)%nat as [|d] eqn:E; cbn [nth_error] in H.
  - inversion H; subst. split; [lia | reflexivity].
  - destruct d; discriminate H.
Qed.

Lemma la_nth_firstn {A} : forall cp (L : list A) u,
  nth_error (firstn cp L) u = if Nat.ltb u cp then nth_error L u else None.
Proof.
  induction cp as [|cp IH]; intros L u.
  - cbn [firstn]. destruct u; reflexivity.
  - destruct L as [|a L]; cbn [firstn].
    + destruct u; destruct (Nat.ltb _ _); reflexivity.
    + destruct u as [|u]; [reflexivity|]. cbn [nth_error]. rewrite IH.
      change (Nat.ltb (S u) (S cp)) with (Nat.ltb u cp). reflexivity.
Qed.

(** * validity *)

(* during a rollback every index is valid when its turn comes *)
Lemma valid_during_rollback L0 T i :
  LogOK L0 -> (i < length L0)%nat -> tail_ok (length L0) i T -> op_valid (L0 ++ T) i = Some true.
Proof.
  intros HL Hi [HT1 HT2]. unfold op_valid.
  destruct (find_undo (L0 ++ T) i 0) as [m|] eqn:Ei.
  2:{ cbn [valid_fuel]. rewrite Ei. reflexivity. }
  pose proof (la_fu_some _ _ _ _ Ei) as [m0 [Hm0 Hm]]. cbn in Hm0. subst m0.
  apply la_nth_app in Hm. destruct Hm as [[Hmlt Hm]|[_ Hm]].
  2:{ apply nth_error_In in Hm. apply HT1 in Hm. lia. }
  destruct (HL _ _ Hm) as [Him _].
  (* the undo entry m is itself undone by an entry t of the tail *)
  assert (Ht : exists t, find_undo (L0 ++ T) m 0 = Some t).
  { destruct (find_undo (L0 ++ T) m 0) as [t|] eqn:Em; [exists t; reflexivity|].
    exfalso. destruct (In_nth_error T (OUndo m) (HT2 m (conj Him Hmlt))) as [t' Ht'].
    apply (la_fu_none_inv _ _ _ Em (length L0 + t')%nat).
    rewrite nth_error_app2 by lia.
    replace (length L0 + t' - length L0)%nat with t' by lia. exact Ht'. }
  destruct Ht as [t Et].
  pose proof (la_fu_some _ _ _ _ Et) as [t0 [Ht0 Ht]]. cbn in Ht0. subst t0.
  pose proof (la_nth_lt _ _ _ Ht) as Htlen.
  assert (Htge : (length L0 <= t)%nat).
  { apply la_nth_app in Ht. destruct Ht as [[_ Ht]|[Hge _]]; [|exact Hge].
    destruct (HL _ _ Ht) as [_ [[p [a [b [c [d He]]]]] _]]. rewrite He in Hm. discriminate Hm. }
  (* nothing targets t *)
  assert (Hnt : forall w, nth_error (L0 ++ T) w <> Some (OUndo t)).
  { intros w Hw. apply la_nth_app in Hw. destruct Hw as [[_ Hw]|[_ Hw]].
    - destruct (HL _ _ Hw) as [_ [[p [a [b [c [d He]]]]] _]]. apply la_nth_lt in He. lia.
    - apply nth_error_In in Hw. apply HT1 in Hw. lia. }
  destruct (length (L0 ++ T)) as [|[|[|f]]]; try lia.
  rewrite (la_vf_step _ _ _ _ Ei), (la_vf_step _ _ _ _ Et), (la_vf_true _ _ _ Hnt). reflexivity.
Qed.

(* in a persistent log an entry is valid iff no undo entry targets it *)
Lemma valid_persistent L i :
  LogOK L -> (i < length L)%nat -> op_valid L i = Some (negb (undone_in L i)).
Proof.
  intros HL Hi. unfold op_valid.
  destruct (find_undo L i 0) as [u|] eqn:Ei.
  - pose proof (la_fu_some _ _ _ _ Ei) as [u0 [Hu0 Hu]]. cbn in Hu0. subst u0.
    rewrite (la_undone_intro _ _ _ Hu).
    assert (Hnu : forall w, nth_error L w <> Some (OUndo u)).
    { intros w Hw. destruct (HL _ _ Hw) as [_ [[p [a [b [c [d He]]]]] _]].
      rewrite He in Hu. discriminate Hu. }
    destruct (length L) as [|f]; [lia|].
    rewrite (la_vf_step _ _ _ _ Ei), (la_vf_true _ _ _ Hnu). reflexivity.
  - cbn [valid_fuel]. rewrite Ei.
    destruct (undone_in L i) eqn:Eu; [|reflexivity].
    exfalso. apply la_undone_true in Eu. destruct Eu as [m Hm].
    exact (la_fu_none_inv _ _ _ Ei m Hm).
Qed.

(** * LogOK is preserved *)
Lemma LogOK_nil : LogOK [].
Proof. intros u k H. destruct u; discriminate H. Qed.

Lemma la_LogOK_lift L o u k :
  LogOK L -> nth_error L u = Some (OUndo k) ->
  (forall u', nth_error (L ++ [o]) u' = Some (OUndo k) -> (u' < length L)%nat) ->
  (k < u)%nat
  /\ (exists p a b c d, nth_error (L ++ [o]) k = Some (OEvict p a b c d))
  /\ forall u', nth_error (L ++ [o]) u' = Some (OUndo k) -> u' = u.
Proof.
  intros HL Hu Hnew. destruct (HL _ _ Hu) as [Hk [[p [a [b [c [d He]]]]] Hun]].
  split; [exact Hk|]. split.
  - exists p, a, b, c, d. rewrite nth_error_app1 by exact (la_nth_lt _ _ _ He). exact He.
  - intros u' Hu'. pose proof (Hnew _ Hu') as Hlt.
    rewrite nth_error_app1 in Hu' by exact Hlt. exact (Hun _ Hu').
Qed.

Lemma LogOK_app_prim L o :
  LogOK L -> (match o with OUndo _ => False | _ => True end) -> LogOK (L ++ [o]).
Proof.
  intros HL Ho u k Hu. apply la_nth_snoc in Hu. destruct Hu as [[_ Hu]|[_ Hu]].
  - apply (la_LogOK_lift L o u k HL Hu). intros u' Hu'.
    apply la_nth_snoc in Hu'. destruct Hu' as [[Hlt _]|[_ Hu']]; [exact Hlt|].
    subst o. destruct Ho.
  - subst o. destruct Ho.
Qed.

Lemma LogOK_app_undo L k p a b c d :
  LogOK L -> nth_error L k = Some (OEvict p a b c d) -> undone_in L k = false -> LogOK (L ++ [OUndo k]).
Proof.
  intros HL Hk Hun u k0 Hu. pose proof (la_undone_false _ _ Hun) as Hno.
  apply la_nth_snoc in Hu. destruct Hu as [[_ Hu]|[Hul Hu]].
  - apply (la_LogOK_lift L (OUndo k) u k0 HL Hu). intros u' Hu'.
    apply la_nth_snoc in Hu'. destruct Hu' as [[Hlt _]|[_ Hu']]; [exact Hlt|].
    inversion Hu'; subst k0. exfalso. exact (Hno _ Hu).
  - inversion Hu; subst k0. subst u. pose proof (la_nth_lt _ _ _ Hk) as Hklt.
    split; [exact Hklt|]. split.
    + exists p, a, b, c, d. rewrite nth_error_app1 by exact Hklt. exact Hk.
    + intros u' Hu'. apply la_nth_snoc in Hu'. destruct Hu' as [[_ Hu']|[Hu' _]]; [|exact Hu'].
      exfalso. exact (Hno _ Hu').
Qed.

Lemma LogOK_firstn L cp : LogOK L -> LogOK (firstn cp L).
Proof.
  intros HL u k Hu. rewrite la_nth_firstn in Hu.
  destruct (Nat.ltb u cp) eqn:Eu; [|discriminate Hu]. apply Nat.ltb_lt in Eu.
  destruct (HL _ _ Hu) as [Hk [[p [a [b [c [d He]]]]] Huniq]].
  split; [exact Hk|]. split.
  - exists p, a, b, c, d. rewrite la_nth_firstn.
    assert (Ek : Nat.ltb k cp = true) by (apply Nat.ltb_lt; lia). rewrite Ek. exact He.
  - intros u' Hu'. rewrite la_nth_firstn in Hu'.
    destruct (Nat.ltb u' cp); [|discriminate Hu']. exact (Huniq _ Hu').
Qed.

(* a filter that drops only OAlloc entries, on a log without undo entries, is LogOK *)
Lemma LogOK_no_undo L : (forall o, In o L -> match o with OUndo _ => False | _ => True end) -> LogOK L.
Proof. intros H u k Hu. apply nth_error_In in Hu. destruct (H _ Hu). Qed.


(* ------------------------------------------------------------------ AlgB *)
Open Scope Z_scope.

(** * PART 1 — association lists with first-match update *)

Definition amap_rel {V} (R : V -> V -> Prop) (m m' : amap V) : Prop :=
  Forall2 (fun a b => fst a = fst b /\ R (snd a) (snd b)) m m'.

Lemma amap_rel_refl {V} (R : V -> V -> Prop) m : (forall v, R v v) -> amap_rel R m m.
Proof.
  intros HR. unfold amap_rel. induction m as [|a r IH]; constructor.
  - split; [reflexivity|apply HR].
  - exact IH.
Qed.

Lemma amap_rel_sym {V} (R : V -> V -> Prop) m m' :
  (forall a b, R a b -> R b a) -> amap_rel R m m' -> amap_rel R m' m.
Proof.
  intros HS H. unfold amap_rel in *.
  induction H as [|a b l l' [H1 H2] H IH]; constructor.
  - split; [symmetry; exact H1|apply HS; exact H2].
  - exact IH.
Qed.

Lemma amap_rel_trans {V} (R : V -> V -> Prop) a b c :
  (forall x y z, R x y -> R y z -> R x z) -> amap_rel R a b -> amap_rel R b c -> amap_rel R a c.
Proof.
  intros HT H. unfold amap_rel in *. revert c.
  induction H as [|x y l l' [H1 H2] H IH]; intros c Hc;
    inversion Hc as [|y' z l2 l3 [H3 H4] H5]; subst; constructor.
  - split; [congruence|eapply HT; eassumption].
  - apply IH. exact H5.
Qed.

Lemma amap_rel_keys {V} (R : V -> V -> Prop) m m' : amap_rel R m m' -> map fst m = map fst m'.
Proof.
  intros H. unfold amap_rel in H.
  induction H as [|a b l l' [H1 H2] H IH]; cbn [map]; [reflexivity|].
  rewrite H1, IH. reflexivity.
Qed.

Lemma amap_rel_lookup {V} (R : V -> V -> Prop) m m' k : amap_rel R m m' ->
  match alookup k m, alookup k m' with Some v, Some v' => R v v' | None, None => True | _, _ => False end.
Proof.
  intros H. unfold amap_rel in H.
  induction H as [|[k1 v1] [k2 v2] l l' [H1 H2] H IH]; cbn [alookup]; [exact I|].
  cbn [fst snd] in H1, H2. subst k2.
  destruct (Pos.eqb k k1); [exact H2|exact IH].
Qed.

Lemma amap_rel_eq {V} (m m' : amap V) : amap_rel eq m m' -> m = m'.
Proof.
  intros H. unfold amap_rel in H.
  induction H as [|[k1 v1] [k2 v2] l l' [H1 H2] H IH]; [reflexivity|].
  cbn [fst snd] in H1, H2. subst. reflexivity.
Qed.

Lemma alookup_aupd_same {V} k (f : V -> V) m : alookup k (aupd k f m) = option_map f (alookup k m).
Proof.
  induction m as [|[k' v] r IH]; cbn [aupd alookup option_map]; [reflexivity|].
  destruct (Pos.eqb k k') eqn:E; cbn [alookup option_map]; rewrite E; [reflexivity|exact IH].
Qed.

Lemma alookup_aupd_other {V} j k (f : V -> V) m : j <> k -> alookup j (aupd k f m) = alookup j m.
Proof.
  intros N. induction m as [|[k' v] r IH]; cbn [aupd alookup]; [reflexivity|].
  destruct (Pos.eqb_spec k k') as [E|NE]; cbn [alookup].
  - subst k'. destruct (Pos.eqb_spec j k) as [E'|_]; [contradiction|reflexivity].
  - rewrite IH. reflexivity.
Qed.

Lemma aupd_aupd {V} k (f g : V -> V) m : aupd k g (aupd k f m) = aupd k (fun v => g (f v)) m.
Proof.
  induction m as [|[k' v] r IH]; cbn [aupd]; [reflexivity|].
  destruct (Pos.eqb k k') eqn:E; cbn [aupd]; rewrite E; [reflexivity|].
  rewrite IH. reflexivity.
Qed.

Lemma aupd_id {V} k (f : V -> V) m : (forall v, alookup k m = Some v -> f v = v) -> aupd k f m = m.
Proof.
  induction m as [|[k' v] r IH]; cbn [aupd alookup]; intros H; [reflexivity|].
  destruct (Pos.eqb k k') eqn:E.
  - rewrite (H v eq_refl). reflexivity.
  - rewrite (IH H). reflexivity.
Qed.

Lemma aupd_length {V} k (f : V -> V) m : length (aupd k f m) = length m.
Proof.
  induction m as [|[k' v] r IH]; cbn [aupd]; [reflexivity|].
  destruct (Pos.eqb k k'); cbn [length]; [reflexivity|].
  rewrite IH. reflexivity.
Qed.

Lemma amap_rel_aupd {V} (R : V -> V -> Prop) k f g m m' : amap_rel R m m' ->
  (forall v v', alookup k m = Some v -> alookup k m' = Some v' -> R v v' -> R (f v) (g v')) ->
  amap_rel R (aupd k f m) (aupd k g m').
Proof.
  intros H. unfold amap_rel in *.
  induction H as [|[k1 v1] [k2 v2] l l' [H1 H2] H IH]; cbn [aupd alookup]; intros HF; [constructor|].
  cbn [fst snd] in H1, H2. subst k2.
  destruct (Pos.eqb k k1) eqn:E.
  - constructor; [|exact H]. cbn [fst snd]. split; [reflexivity|].
    apply HF; [reflexivity|reflexivity|exact H2].
  - constructor; [cbn [fst snd]; split; [reflexivity|exact H2]|].
    apply IH. exact HF.
Qed.

Lemma amap_rel_aupd_r {V} (R : V -> V -> Prop) k h m m' : amap_rel R m m' ->
  (forall v v', alookup k m = Some v -> alookup k m' = Some v' -> R v v' -> R v (h v')) ->
  amap_rel R m (aupd k h m').
Proof.
  intros H HF.
  rewrite <- (aupd_id k (fun v => v) m) by reflexivity.
  apply amap_rel_aupd; [exact H|exact HF].
Qed.

Lemma amap_rel_aupd_l {V} (R : V -> V -> Prop) k h m m' : amap_rel R m m' ->
  (forall v v', alookup k m = Some v -> alookup k m' = Some v' -> R v v' -> R (h v) v') ->
  amap_rel R (aupd k h m) m'.
Proof.
  intros H HF.
  rewrite <- (aupd_id k (fun v => v) m') by reflexivity.
  apply amap_rel_aupd; [exact H|exact HF].
Qed.

(** * PART 2 — job bookkeeping *)

Definition idx_ext (a b : amap Z) : Prop := forall k, zget k a = zget k b.
Definition psrel (a b : psetc) : Prop :=
  pc_aa a = pc_aa b /\ pc_au a = pc_au b /\ pc_alive a = pc_alive b /\ idx_ext (pc_idx a) (pc_idx b).
Definition jrel (a b : job) : Prop :=
  j_queue a = j_queue b /\ j_nonpreempt a = j_nonpreempt b /\ j_alloc a = j_alloc b /\ j_active a = j_active b
  /\ idx_ext (j_idx a) (j_idx b) /\ amap_rel psrel (j_psets a) (j_psets b).

Lemma ab_scode_eqb a b : Pos.eqb (scode a) (scode b) = status_eqb a b.
Proof. destruct a, b; reflexivity. Qed.

Lemma ab_status_eqb_eq a b : status_eqb a b = true <-> a = b.
Proof. split; [destruct a, b; intros H; (reflexivity || discriminate H)|intros ->; destruct b; reflexivity]. Qed.

Lemma ab_scode_inj a b : scode a = scode b -> a = b.
Proof.
  intros H. apply ab_status_eqb_eq. rewrite <- ab_scode_eqb. apply Pos.eqb_eq. exact H.
Qed.

Lemma ab_idx_ext_refl a : idx_ext a a.
Proof. intros k. reflexivity. Qed.
Lemma ab_idx_ext_sym a b : idx_ext a b -> idx_ext b a.
Proof. intros H k. symmetry. apply H. Qed.
Lemma ab_idx_ext_trans a b c : idx_ext a b -> idx_ext b c -> idx_ext a c.
Proof. intros H1 H2 k. rewrite H1. apply H2. Qed.
Lemma ab_idx_ext_zadd k d a b : idx_ext a b -> idx_ext (zadd k d a) (zadd k d b).
Proof. intros H g. rewrite !zget_zadd, (H g). reflexivity. Qed.

Lemma ab_psrel_refl a : psrel a a.
Proof. unfold psrel. repeat split. Qed.
Lemma ab_psrel_sym a b : psrel a b -> psrel b a.
Proof.
  intros (H1 & H2 & H3 & H4). unfold psrel.
  split; [symmetry; exact H1|]. split; [symmetry; exact H2|]. split; [symmetry; exact H3|].
  apply ab_idx_ext_sym. exact H4.
Qed.
Lemma ab_psrel_trans a b c : psrel a b -> psrel b c -> psrel a c.
Proof.
  intros (H1 & H2 & H3 & H4) (G1 & G2 & G3 & G4). unfold psrel.
  split; [congruence|]. split; [congruence|]. split; [congruence|].
  eapply ab_idx_ext_trans; eassumption.
Qed.

Lemma ab_pset_assign_rel o n a b : psrel a b -> psrel (pset_assign o n a) (pset_assign o n b).
Proof.
  intros (H1 & H2 & H3 & H4). unfold psrel, pset_assign. cbn [pc_aa pc_au pc_alive pc_idx].
  rewrite H1, H2, H3. repeat split.
  apply ab_idx_ext_zadd, ab_idx_ext_zadd. exact H4.
Qed.

Lemma ab_pset_assign_back o n a : psrel a (pset_assign n o (pset_assign o n a)).
Proof.
  unfold psrel, pset_assign. cbn [pc_aa pc_au pc_alive pc_idx].
  repeat split; try lia.
  intros k. rewrite !zget_zadd.
  destruct (Pos.eqb k (scode o)), (Pos.eqb k (scode n)); lia.
Qed.

Lemma jrel_refl j : jrel j j.
Proof.
  unfold jrel. repeat split.
  apply amap_rel_refl. exact ab_psrel_refl.
Qed.

Lemma jrel_sym a b : jrel a b -> jrel b a.
Proof.
  intros (H1 & H2 & H3 & H4 & H5 & H6). unfold jrel.
  split; [symmetry; exact H1|]. split; [symmetry; exact H2|]. split; [symmetry; exact H3|].
  split; [symmetry; exact H4|]. split.
  - apply ab_idx_ext_sym. exact H5.
  - apply amap_rel_sym; [exact ab_psrel_sym|exact H6].
Qed.

Lemma jrel_trans a b c : jrel a b -> jrel b c -> jrel a c.
Proof.
  intros (H1 & H2 & H3 & H4 & H5 & H6) (G1 & G2 & G3 & G4 & G5 & G6). unfold jrel.
  split; [congruence|]. split; [congruence|]. split; [congruence|]. split; [congruence|]. split.
  - eapply ab_idx_ext_trans; eassumption.
  - eapply amap_rel_trans; [exact ab_psrel_trans|eassumption|eassumption].
Qed.

(** [job_update] in closed form *)
Lemma ab_job_update_eq j ps jreq passed cur new :
  job_update j ps jreq passed cur new =
  match alookup ps (j_psets j) with
  | None => None
  | Some _ =>
      Some (mkJob (j_queue j) (j_nonpreempt j)
              (let a1 := if allocated_status cur then rsub (j_alloc j) jreq else j_alloc j in
               if allocated_status new then radd a1 jreq else a1)
              (snd (idx_dec passed (j_idx j) (j_active j)) + b2z (active_allocated new))
              (zadd (scode new) 1 (fst (idx_dec passed (j_idx j) (j_active j))))
              (aupd ps (pset_assign cur new) (j_psets j)))
  end.
Proof.
  unfold job_update. destruct (alookup ps (j_psets j)); [|reflexivity].
  destruct (idx_dec passed (j_idx j) (j_active j)) as [i1 c1].
  unfold idx_inc. cbn [fst snd]. reflexivity.
Qed.

Lemma ab_idx_dec_pos passed idx active :
  0 < zget (scode passed) idx ->
  idx_dec passed idx active = (zadd (scode passed) (-1) idx, active - b2z (active_allocated passed)).
Proof.
  intros H. unfold idx_dec.
  destruct (0 <? zget (scode passed) idx) eqn:E; [reflexivity|lia].
Qed.

Lemma ab_idx_dec_rel passed i i' c :
  idx_ext i i' ->
  idx_ext (fst (idx_dec passed i c)) (fst (idx_dec passed i' c))
  /\ snd (idx_dec passed i c) = snd (idx_dec passed i' c).
Proof.
  intros H. unfold idx_dec. rewrite (H (scode passed)).
  destruct (0 <? zget (scode passed) i'); cbn [fst snd]; split; try reflexivity.
  - apply ab_idx_ext_zadd. exact H.
  - exact H.
Qed.

Lemma job_update_rel j ja ps jreq passed cur new :
  jrel j ja ->
  match job_update j ps jreq passed cur new, job_update ja ps jreq passed cur new with
  | Some j1, Some ja1 => jrel j1 ja1
  | None, None => True
  | _, _ => False
  end.
Proof.
  intros (Hq & Hn & Ha & Hc & Hi & Hp).
  rewrite !ab_job_update_eq.
  pose proof (amap_rel_lookup psrel _ _ ps Hp) as HL.
  destruct (alookup ps (j_psets j)) as [v|] eqn:E1, (alookup ps (j_psets ja)) as [v'|] eqn:E2;
    try contradiction; [|exact I].
  unfold jrel. cbn [j_queue j_nonpreempt j_alloc j_active j_idx j_psets].
  destruct (ab_idx_dec_rel passed _ _ (j_active j) Hi) as [Hd1 Hd2].
  rewrite <- Hc, <- Ha, Hd2.
  repeat split; try assumption.
  - apply ab_idx_ext_zadd. exact Hd1.
  - apply amap_rel_aupd; [exact Hp|].
    intros w w' _ _ Hw. apply ab_pset_assign_rel. exact Hw.
Qed.

Lemma job_update_back j ps jreq old new j1 :
  job_update j ps jreq old old new = Some j1 ->
  0 < zget (scode old) (j_idx j) -> 0 <= zget (scode new) (j_idx j) ->
  exists j2, job_update j1 ps jreq new new old = Some j2 /\ jrel j j2.
Proof.
  intros H Hold Hnew.
  rewrite ab_job_update_eq in H.
  destruct (alookup ps (j_psets j)) as [v|] eqn:EL; [|discriminate H].
  rewrite (ab_idx_dec_pos old _ _ Hold) in H. cbn [fst snd] in H.
  injection H as H. subst j1.
  rewrite ab_job_update_eq. cbn [j_queue j_nonpreempt j_alloc j_active j_idx j_psets].
  rewrite alookup_aupd_same, EL. cbn [option_map].
  assert (Hpos : 0 < zget (scode new) (zadd (scode new) 1 (zadd (scode old) (-1) (j_idx j)))).
  { rewrite !zget_zadd, Pos.eqb_refl.
    destruct (Pos.eqb_spec (scode new) (scode old)) as [E|N].
    - rewrite E. lia.
    - lia. }
  rewrite (ab_idx_dec_pos new _ _ Hpos). cbn [fst snd].
  eexists. split; [reflexivity|].
  unfold jrel. cbn [j_queue j_nonpreempt j_alloc j_active j_idx j_psets].
  split; [reflexivity|]. split; [reflexivity|].
  split; [|split; [|split]].
  - cbv zeta. destruct (allocated_status old), (allocated_status new); res_lia.
  - lia.
  - intros k. rewrite !zget_zadd.
    destruct (Pos.eqb k (scode old)), (Pos.eqb k (scode new)); lia.
  - rewrite aupd_aupd. apply amap_rel_aupd_r.
    + apply amap_rel_refl. exact ab_psrel_refl.
    + intros w w' _ _ Hw. eapply ab_psrel_trans; [exact Hw|].
      apply ab_pset_assign_back.
Qed.

Lemma ab_aupd_keys {V} k (f : V -> V) m : map fst (aupd k f m) = map fst m.
Proof.
  induction m as [|[k' v] r IH]; cbn [aupd]; [reflexivity|].
  destruct (Pos.eqb k k'); cbn [map fst]; [reflexivity|].
  rewrite IH. reflexivity.
Qed.

Lemma job_update_static j ps jreq passed cur new j1 :
  job_update j ps jreq passed cur new = Some j1 ->
  j_queue j1 = j_queue j /\ j_nonpreempt j1 = j_nonpreempt j /\ map fst (j_psets j1) = map fst (j_psets j).
Proof.
  intros H. rewrite ab_job_update_eq in H.
  destruct (alookup ps (j_psets j)) as [v|]; [|discriminate H].
  injection H as H. subst j1. cbn [j_queue j_nonpreempt j_psets].
  split; [reflexivity|]. split; [reflexivity|]. apply ab_aupd_keys.
Qed.

Lemma job_update_idx j ps jreq old new j1 :
  job_update j ps jreq old old new = Some j1 -> 0 < zget (scode old) (j_idx j) ->
  forall s, zget (scode s) (j_idx j1) =
            zget (scode s) (j_idx j) - (if status_eqb s old then 1 else 0) + (if status_eqb s new then 1 else 0).
Proof.
  intros H Hold s. rewrite ab_job_update_eq in H.
  destruct (alookup ps (j_psets j)) as [v|]; [|discriminate H].
  rewrite (ab_idx_dec_pos old _ _ Hold) in H. cbn [fst snd] in H.
  injection H as H. subst j1. cbn [j_idx].
  rewrite !zget_zadd, !ab_scode_eqb.
  destruct (status_eqb s old), (status_eqb s new); lia.
Qed.

(** * PART 3 — queue usage *)

Definition qeff (qs : amap queue) (q0 : positive) (np : bool) (d : res) : amap queue :=
  fold_left (fun acc q => aupd q (bump np d) acc) (chain (S (length qs)) qs q0) qs.

Lemma charge_queues_eq s p sign :
  charge_queues s p sign =
  match alookup (t_job (p_task p)) (s_jobs s) with
  | None => s
  | Some j => set_queues s (qeff (s_queues s) (j_queue j) (j_nonpreempt j) (if sign then p_qc p else rneg (p_qc p)))
  end.
Proof. reflexivity. Qed.

Definition ab_same_parent (a b : queue) : Prop := q_parent a = q_parent b.

Lemma ab_chain_rel fuel : forall qs qs' q,
  amap_rel ab_same_parent qs qs' -> chain fuel qs q = chain fuel qs' q.
Proof.
  induction fuel as [|f IH]; intros qs qs' q H; cbn [chain]; [reflexivity|].
  pose proof (amap_rel_lookup ab_same_parent _ _ q H) as HL.
  destruct (alookup q qs) as [a|], (alookup q qs') as [b|]; try contradiction; [|reflexivity].
  unfold ab_same_parent in HL. rewrite HL.
  destruct (q_parent b) as [pq|]; [|reflexivity].
  rewrite (IH qs qs' pq H). reflexivity.
Qed.

Lemma ab_fold_bump_rel np d c : forall qs m,
  amap_rel ab_same_parent qs m ->
  amap_rel ab_same_parent qs (fold_left (fun acc q => aupd q (bump np d) acc) c m).
Proof.
  induction c as [|q r IH]; intros qs m H; cbn [fold_left]; [exact H|].
  apply IH. apply amap_rel_aupd_r; [exact H|].
  intros v v' _ _ Hv. unfold ab_same_parent in *. cbn [bump q_parent]. exact Hv.
Qed.

Lemma ab_amap_rel_length {V} (R : V -> V -> Prop) m m' : amap_rel R m m' -> length m = length m'.
Proof.
  intros H. unfold amap_rel in H. induction H as [|a b l l' _ H IH]; cbn [length]; [reflexivity|].
  rewrite IH. reflexivity.
Qed.

Lemma ab_aupd_comm {V} k k' (f g : V -> V) m :
  (forall v, f (g v) = g (f v)) ->
  aupd k f (aupd k' g m) = aupd k' g (aupd k f m).
Proof.
  intros HC. induction m as [|[k0 v] r IH]; cbn [aupd]; [reflexivity|].
  destruct (Pos.eqb k' k0) eqn:E1, (Pos.eqb k k0) eqn:E2; cbn [aupd]; rewrite ?E1, ?E2.
  - rewrite HC. reflexivity.
  - reflexivity.
  - reflexivity.
  - rewrite IH. reflexivity.
Qed.

Lemma ab_bump_comm np a b q : bump np a (bump np b q) = bump np b (bump np a q).
Proof.
  unfold bump. cbn [q_parent q_alloc q_np]. f_equal.
  - res_lia.
  - destruct np; [res_lia|reflexivity].
Qed.

Lemma ab_bump_back np d q : bump np (rneg d) (bump np d q) = q.
Proof.
  destruct q as [pq qa qn]. unfold bump, rneg. cbn [q_parent q_alloc q_np]. f_equal.
  - res_lia.
  - destruct np; [res_lia|reflexivity].
Qed.

Lemma ab_bump_back' np d q : bump np d (bump np (rneg d) q) = q.
Proof. rewrite ab_bump_comm. apply ab_bump_back. Qed.

Lemma ab_aupd_fold_comm np a b q c : forall m,
  aupd q (bump np a) (fold_left (fun acc q => aupd q (bump np b) acc) c m) =
  fold_left (fun acc q => aupd q (bump np b) acc) c (aupd q (bump np a) m).
Proof.
  induction c as [|q' r IH]; intros m; cbn [fold_left]; [reflexivity|].
  rewrite IH. f_equal. apply ab_aupd_comm. intros v. apply ab_bump_comm.
Qed.

Lemma ab_fold_inv np a b c :
  (forall v, bump np b (bump np a v) = v) ->
  forall m,
  fold_left (fun acc q => aupd q (bump np b) acc) c
            (fold_left (fun acc q => aupd q (bump np a) acc) c m) = m.
Proof.
  intros HB. induction c as [|q r IH]; intros m; cbn [fold_left]; [reflexivity|].
  rewrite ab_aupd_fold_comm, aupd_aupd.
  rewrite (aupd_id q (fun v => bump np b (bump np a v)) m) by (intros v _; apply HB).
  apply IH.
Qed.

Lemma ab_qeff_inv qs q0 np a b :
  (forall v, bump np b (bump np a v) = v) ->
  qeff (qeff qs q0 np a) q0 np b = qs.
Proof.
  intros HB. unfold qeff at 1.
  assert (HR : amap_rel ab_same_parent qs (qeff qs q0 np a)).
  { unfold qeff. apply ab_fold_bump_rel. apply amap_rel_refl. intros v. reflexivity. }
  rewrite <- (ab_amap_rel_length _ _ _ HR).
  rewrite <- (ab_chain_rel _ _ _ q0 HR).
  unfold qeff. apply ab_fold_inv. exact HB.
Qed.

Lemma qeff_back qs q0 np d : qeff (qeff qs q0 np d) q0 np (rneg d) = qs.
Proof. apply ab_qeff_inv. intros v. apply ab_bump_back. Qed.

Lemma qeff_back' qs q0 np d : qeff (qeff qs q0 np (rneg d)) q0 np d = qs.
Proof. apply ab_qeff_inv. intros v. apply ab_bump_back'. Qed.


(* ------------------------------------------------------------------ NodeC *)
Open Scope Z_scope.

(** * Node accounting under a relation on nodes *)

Lemma nc_asg_set_pods m P t g : add_shared_group (set_pods m P) t g = set_pods (add_shared_group m t g) P.
Proof.
  unfold add_shared_group, used_gpus. cbv zeta. cbn [set_pods n_used n_idle n_rel n_ngpu g_used g_alloc g_rel g_mark].
  destruct (t_status t); repeat match goal with |- context [if ?c then _ else _] => destruct c end; reflexivity.
Qed.
Lemma nc_rsg_set_pods m P t g : remove_shared_group (set_pods m P) t g = set_pods (remove_shared_group m t g) P.
Proof.
  unfold remove_shared_group, used_gpus. cbv zeta. cbn [set_pods n_used n_idle n_rel n_ngpu g_used g_alloc g_rel g_mark].
  destruct (t_status t); repeat match goal with |- context [if ?c then _ else _] => destruct c end; reflexivity.
Qed.
Lemma nc_fold_asg_set_pods t gs : forall m P,
  fold_left (fun acc g => add_shared_group acc t g) gs (set_pods m P)
  = set_pods (fold_left (fun acc g => add_shared_group acc t g) gs m) P.
Proof. induction gs as [|g gs IH]; intros m P; cbn [fold_left]; [reflexivity|]. rewrite nc_asg_set_pods. apply IH. Qed.
Lemma nc_fold_rsg_set_pods t gs : forall m P,
  fold_left (fun acc g => remove_shared_group acc t g) gs (set_pods m P)
  = set_pods (fold_left (fun acc g => remove_shared_group acc t g) gs m) P.
Proof. induction gs as [|g gs IH]; intros m P; cbn [fold_left]; [reflexivity|]. rewrite nc_rsg_set_pods. apply IH. Qed.

Lemma add_resources_set_pods m P t : add_resources (set_pods m P) t = set_pods (add_resources m t) P.
Proof.
  rewrite !add_resources_eq. destruct (is_shared t).
  - rewrite <- nc_fold_asg_set_pods. reflexivity.
  - reflexivity.
Qed.
Lemma remove_resources_set_pods m P t : remove_resources (set_pods m P) t = set_pods (remove_resources m t) P.
Proof.
  rewrite !remove_resources_eq. destruct (is_shared t).
  - rewrite <- nc_fold_rsg_set_pods. reflexivity.
  - reflexivity.
Qed.
Lemma set_pods_set_pods m P Q : set_pods (set_pods m P) Q = set_pods m Q.
Proof. reflexivity. Qed.
Lemma set_pods_same m : set_pods m (n_pods m) = m.
Proof. destruct m; reflexivity. Qed.

Lemma aset_adel {V} k (v : V) m : sorted_keys m -> alookup k m = Some v -> aset k v (adel k m) = m.
Proof.
  induction m as [|[k' v'] r IH]; cbn [alookup adel aset sorted_keys]; intros S A; [discriminate|].
  destruct S as [Lb Sr].
  destruct (Pos.eqb k k') eqn:E.
  - apply Pos.eqb_eq in E. subst k'. injection A as ->.
    destruct r as [|[k2 v2] r2]; cbn [aset]; [reflexivity|].
    inversion Lb as [|? ? H1 H2]; subst. cbn [fst] in H1.
    rewrite (proj2 (Pos.compare_lt_iff k k2) H1). reflexivity.
  - cbn [aset]. apply Pos.eqb_neq in E.
    assert (Lt : (k' < k)%positive).
    { assert (In (k, v) r) as I.
      { clear -A. induction r as [|[a b] r IH]; cbn [alookup] in A; [discriminate|].
        destruct (Pos.eqb k a) eqn:E2; [apply Pos.eqb_eq in E2; subst; injection A as ->; left; reflexivity|right; apply IH; exact A]. }
      rewrite Forall_forall in Lb. apply (Lb _ I). }
    rewrite (proj2 (Pos.compare_gt_iff k k')) by exact Lt. rewrite IH by assumption. reflexivity.
Qed.

Lemma adel_aset_present {V} k (v v0 : V) m : sorted_keys m -> alookup k m = Some v0 -> adel k (aset k v m) = adel k m.
Proof.
  induction m as [|[k' v'] r IH]; cbn [alookup adel aset sorted_keys]; intros S A; [discriminate|].
  destruct S as [Lb Sr].
  destruct (Pos.eqb k k') eqn:E.
  - apply Pos.eqb_eq in E. subst k'. rewrite Pos.compare_refl. cbn [adel]. rewrite Pos.eqb_refl. reflexivity.
  - apply Pos.eqb_neq in E.
    assert (Lt : (k' < k)%positive).
    { assert (In (k, v0) r) as I.
      { clear -A. induction r as [|[a b] r IH]; cbn [alookup] in A; [discriminate|].
        destruct (Pos.eqb k a) eqn:E2; [apply Pos.eqb_eq in E2; subst; injection A as ->; left; reflexivity|right; apply IH; exact A]. }
      rewrite Forall_forall in Lb. apply (Lb _ I). }
    rewrite (proj2 (Pos.compare_gt_iff k k')) by exact Lt. cbn [adel].
    destruct (Pos.eqb k k') eqn:E3; [apply Pos.eqb_eq in E3; contradiction|]. rewrite IH by assumption. reflexivity.
Qed.

Lemma sortedb_sorted {V} (m : amap V) : sortedb m = true -> sorted_keys m.
Proof.
  induction m as [|[k v] r IH]; cbn [sortedb sorted_keys]; intros H; [exact I|].
  destruct r as [|[k' v'] r'].
  - split; [constructor|exact I].
  - apply andb_true_iff in H. destruct H as [L S]. apply Pos.ltb_lt in L.
    specialize (IH S). split; [|exact IH].
    constructor; [exact L|]. cbn [sorted_keys] in IH. destruct IH as [Lb _].
    eapply Forall_impl; [|exact Lb]. intros [a b] Hl. cbn [fst] in *. lia.
Qed.

Section NodeRel.
  Variable R : node -> node -> Prop.
  Variable tok : task -> bool.
  Hypothesis R_refl : forall n, R n n.
  Hypothesis R_sym : forall a b, R a b -> R b a.
  Hypothesis R_trans : forall a b c, R a b -> R b c -> R a c.
  Hypothesis R_pods : forall a b, R a b -> n_pods a = n_pods b.
  Hypothesis R_set_pods : forall a b P, R a b -> R (set_pods a P) (set_pods b P).
  Hypothesis R_add : forall a b t, tok t = true -> R a b -> R (add_resources a t) (add_resources b t).
  Hypothesis R_remove : forall a b t, tok t = true -> R a b -> R (remove_resources a t) (remove_resources b t).
  Hypothesis R_rem_add : forall a t, tok t = true -> R (remove_resources (add_resources a t) t) a.
  Hypothesis R_add_rem : forall a t, tok t = true -> R (add_resources (remove_resources a t) t) a.

  Lemma nr_sp_add n P t : set_pods (add_resources (set_pods n P) t) (n_pods n) = add_resources n t.
  Proof. rewrite <- add_resources_set_pods, set_pods_set_pods, set_pods_same. reflexivity. Qed.
  Lemma nr_sp_rem n P t : set_pods (remove_resources (set_pods n P) t) (n_pods n) = remove_resources n t.
  Proof. rewrite <- remove_resources_set_pods, set_pods_set_pods, set_pods_same. reflexivity. Qed.

  (** add, then (on any related node) remove: back to a related node *)
  Lemma nr_add_remove n t :
    tok t = true -> amem (t_id t) (n_pods n) = false ->
    exists n1, add_task n t = Ok n1 /\
      forall na, R n1 na -> exists na', remove_task na (t_id t) = Ok na' /\ R n na'.
  Proof.
    intros T A. apply amem_false_alookup in A.
    eexists. split; [apply add_task_ok; exact A|].
    intros na Hr. pose proof (R_pods _ _ Hr) as Ep. rewrite n_pods_add_resources in Ep. cbn [n_pods set_pods] in Ep.
    unfold remove_task. rewrite <- Ep, alookup_aset_same. eexists. split; [reflexivity|].
    rewrite adel_aset by exact A.
    apply R_sym. eapply R_trans.
    { apply R_remove; [exact T|]. apply R_set_pods. apply R_sym. exact Hr. }
    rewrite nr_sp_add. apply R_rem_add. exact T.
  Qed.

  (** remove the copy [t0], add [t1] in its place; then (on any related node) the converse *)
  Lemma nr_update_back n t0 t1 :
    tok t0 = true -> tok t1 = true -> sorted_keys (n_pods n) ->
    alookup (t_id t0) (n_pods n) = Some t0 -> t_id t1 = t_id t0 ->
    exists n1, update_task n t1 = Ok n1 /\
      forall na, R n1 na -> exists na', update_task na t0 = Ok na' /\ R n na'.
  Proof.
    intros T0 T1 S A E.
    pose (m := remove_resources (set_pods n (adel (t_id t0) (n_pods n))) t0).
    assert (Hm : remove_task n (t_id t1) = Ok m).
    { unfold remove_task. rewrite E, A. reflexivity. }
    assert (Pm : n_pods m = adel (t_id t0) (n_pods n)) by (unfold m; rewrite n_pods_remove_resources; reflexivity).
    assert (Am : alookup (t_id t1) (n_pods m) = None).
    { rewrite Pm, E. apply alookup_adel_same. exact S. }
    exists (add_resources (set_pods m (aset (t_id t1) t1 (n_pods m))) t1). split.
    { unfold update_task. rewrite Hm. apply add_task_ok. exact Am. }
    intros na Hr. pose proof (R_pods _ _ Hr) as Ep. rewrite n_pods_add_resources in Ep. cbn [n_pods set_pods] in Ep.
    pose (ma := remove_resources (set_pods na (adel (t_id t0) (n_pods na))) t1).
    assert (Hma : remove_task na (t_id t0) = Ok ma).
    { unfold remove_task, ma. rewrite <- Ep, <- E, alookup_aset_same. reflexivity. }
    assert (Pna : adel (t_id t0) (n_pods na) = n_pods m).
    { rewrite <- Ep, <- E. rewrite adel_aset; [reflexivity|exact Am]. }
    assert (Rm : R m ma).
    { unfold ma. rewrite Pna. apply R_sym. eapply R_trans.
      { apply R_remove; [exact T1|]. apply R_set_pods. apply R_sym. exact Hr. }
      rewrite nr_sp_add. apply R_rem_add. exact T1. }
    assert (Pma : n_pods ma = adel (t_id t0) (n_pods n)) by (rewrite <- (R_pods _ _ Rm); exact Pm).
    assert (Ama : alookup (t_id t0) (n_pods ma) = None).
    { rewrite Pma. apply alookup_adel_same. exact S. }
    exists (add_resources (set_pods ma (aset (t_id t0) t0 (n_pods ma))) t0). split.
    { unfold update_task. rewrite Hma. apply add_task_ok. exact Ama. }
    rewrite Pma, aset_adel by assumption.
    apply R_sym. eapply R_trans.
    { apply R_add; [exact T0|]. apply R_set_pods. apply R_sym. exact Rm. }
    unfold m. rewrite nr_sp_rem. apply R_add_rem. exact T0.
  Qed.

  (** move branch: the copy [c] is overwritten by [t1] (its resources stay charged); unpipeline removes [t1]
      and RestoreTaskEntry puts [c] back *)
  Lemma nr_move_back n c t1 :
    tok t1 = true -> sorted_keys (n_pods n) -> alookup (t_id t1) (n_pods n) = Some c -> is_shared t1 = true ->
    exists n1, consolidate_to_different_gpu n t1 = Ok n1 /\
      forall na, R n1 na -> exists na', remove_task na (t_id t1) = Ok na'
        /\ amem (t_id t1) (n_pods na') = false
        /\ R n (set_pods na' (aset (t_id t1) c (n_pods na'))).
  Proof.
    intros T1 S A Sh.
    eexists. split.
    { unfold consolidate_to_different_gpu, add_task_gen. rewrite Sh. cbn [andb negb]. rewrite andb_false_r. reflexivity. }
    intros na Hr. pose proof (R_pods _ _ Hr) as Ep. rewrite n_pods_add_resources in Ep. cbn [n_pods set_pods] in Ep.
    unfold remove_task. rewrite <- Ep, alookup_aset_same. eexists. split; [reflexivity|].
    rewrite (adel_aset_present (t_id t1) t1 c (n_pods n) S A).
    split.
    { unfold amem. rewrite n_pods_remove_resources. cbn [n_pods set_pods]. rewrite alookup_adel_same by exact S. reflexivity. }
    rewrite n_pods_remove_resources. cbn [n_pods set_pods]. rewrite aset_adel by assumption.
    rewrite <- remove_resources_set_pods, set_pods_set_pods.
    apply R_sym. eapply R_trans.
    { apply R_remove; [exact T1|]. apply R_set_pods. apply R_sym. exact Hr. }
    rewrite add_resources_set_pods, remove_resources_set_pods.
    rewrite ?remove_resources_set_pods, ?set_pods_set_pods.
    eapply R_trans; [apply R_set_pods, R_rem_add; exact T1|]. rewrite set_pods_same. apply R_refl.
  Qed.
End NodeRel.

(** * Instance 1: everything but the whole-GPU idle / releasing counts and the releasing marks *)
Definition neq (a b : node) : Prop :=
  restored_nogpu a b /\ n_ngpu a = n_ngpu b /\ n_gpumem a = n_gpumem b.

Lemma neq_intro a b :
  n_alloc a = n_alloc b -> n_used a = n_used b -> n_pods a = n_pods b ->
  eq_nogpu (n_idle a) (n_idle b) -> eq_nogpu (n_rel a) (n_rel b) ->
  (forall g, zget g (g_used a) = zget g (g_used b)) ->
  (forall g, zget g (g_alloc a) = zget g (g_alloc b)) ->
  (forall g, zget g (g_rel a) = zget g (g_rel b)) ->
  n_ngpu a = n_ngpu b -> n_gpumem a = n_gpumem b -> neq a b.
Proof. intros. unfold neq, restored_nogpu. split; [|split; assumption]. repeat (split; try assumption); auto. Qed.
Lemma neq_refl n : neq n n.
Proof. apply neq_intro; try reflexivity; apply eq_nogpu_refl. Qed.
Lemma neq_sym a b : neq a b -> neq b a.
Proof.
  intros ((A & U & P & I & Rl & G) & N & M).
  apply neq_intro; try congruence; try (apply eq_nogpu_sym; assumption); intros g; destruct (G g) as (X & Y & Z); congruence.
Qed.
Lemma neq_trans a b c : neq a b -> neq b c -> neq a c.
Proof.
  intros ((A & U & P & I & Rl & G) & N & M) ((A' & U' & P' & I' & Rl' & G') & N' & M').
  apply neq_intro; try congruence; try (eapply eq_nogpu_trans; eassumption);
    intros g; destruct (G g) as (X & Y & Z); destruct (G' g) as (X' & Y' & Z'); congruence.
Qed.
Lemma neq_pods a b : neq a b -> n_pods a = n_pods b.
Proof. intros ((_ & _ & P & _) & _). exact P. Qed.
Lemma neq_set_pods a b P : neq a b -> neq (set_pods a P) (set_pods b P).
Proof.
  intros ((A & U & Pp & I & Rl & G) & N & M).
  apply neq_intro; cbn [set_pods n_alloc n_used n_pods n_idle n_rel g_used g_alloc g_rel n_ngpu n_gpumem];
    try assumption; try reflexivity; intros g; apply G.
Qed.

Lemma neq_add a b t : neq a b -> neq (add_resources a t) (add_resources b t).
Proof.
  intros ((A & U & P & I & Rl & G) & N & M).
  destruct (add_resources_spec a t) as [(Fa & Fu & Fp & Fn & Fm & Fi & Fr) Sa].
  destruct (add_resources_spec b t) as [(Fa' & Fu' & Fp' & Fn' & Fm' & Fi' & Fr') Sb].
  unfold add_core in *. cbn [set_core n_alloc n_used n_pods n_idle n_rel n_ngpu n_gpumem] in *.
  apply neq_intro; try congruence; try intros g.
  - eapply eq_nogpu_trans; [exact Fi|]. eapply eq_nogpu_trans; [|apply eq_nogpu_sym; exact Fi']. apply d_idle_nogpu. exact I.
  - eapply eq_nogpu_trans; [exact Fr|]. eapply eq_nogpu_trans; [|apply eq_nogpu_sym; exact Fr']. apply d_rel_nogpu. exact Rl.
  - destruct (Sa g) as (X & _). destruct (Sb g) as (X' & _). destruct (G g) as (Y & _). lia.
  - destruct (Sa g) as (_ & X & _). destruct (Sb g) as (_ & X' & _). destruct (G g) as (_ & Y & _). lia.
  - destruct (Sa g) as (_ & _ & X). destruct (Sb g) as (_ & _ & X'). destruct (G g) as (_ & _ & Y). lia.
Qed.
Lemma neq_remove a b t : neq a b -> neq (remove_resources a t) (remove_resources b t).
Proof.
  intros ((A & U & P & I & Rl & G) & N & M).
  destruct (remove_resources_spec a t) as [(Fa & Fu & Fp & Fn & Fm & Fi & Fr) Sa].
  destruct (remove_resources_spec b t) as [(Fa' & Fu' & Fp' & Fn' & Fm' & Fi' & Fr') Sb].
  unfold remove_core in *. cbn [set_core n_alloc n_used n_pods n_idle n_rel n_ngpu n_gpumem] in *.
  apply neq_intro; try congruence; try intros g.
  - eapply eq_nogpu_trans; [exact Fi|]. eapply eq_nogpu_trans; [|apply eq_nogpu_sym; exact Fi']. apply u_idle_nogpu. exact I.
  - eapply eq_nogpu_trans; [exact Fr|]. eapply eq_nogpu_trans; [|apply eq_nogpu_sym; exact Fr']. apply u_rel_nogpu. exact Rl.
  - destruct (Sa g) as (X & _). destruct (Sb g) as (X' & _). destruct (G g) as (Y & _). lia.
  - destruct (Sa g) as (_ & X & _). destruct (Sb g) as (_ & X' & _). destruct (G g) as (_ & Y & _). lia.
  - destruct (Sa g) as (_ & _ & X). destruct (Sb g) as (_ & _ & X'). destruct (G g) as (_ & _ & Y). lia.
Qed.

Lemma d_u_idle t r : d_idle t (u_idle t r) = r.
Proof. unfold d_idle, u_idle. destruct (t_status t); try reflexivity; res_lia. Qed.
Lemma d_u_rel t r : d_rel t (u_rel t r) = r.
Proof. unfold d_rel, u_rel. destruct (t_status t); try reflexivity; res_lia. Qed.

Lemma neq_rem_add a t : neq (remove_resources (add_resources a t) t) a.
Proof.
  destruct (add_resources_spec a t) as [(Fa & Fu & Fp & Fn & Fm & Fi & Fr) Sa].
  destruct (remove_resources_spec (add_resources a t) t) as [(Ra & Ru & Rp & Rn & Rm & Ri & Rr) Sr].
  unfold add_core, remove_core in *. cbn [set_core n_alloc n_used n_pods n_idle n_rel n_ngpu n_gpumem] in *.
  apply neq_intro; try congruence; try intros g.
  - rewrite Ru, Fu. res_lia.
  - eapply eq_nogpu_trans; [exact Ri|]. eapply eq_nogpu_trans; [apply u_idle_nogpu; exact Fi|]. rewrite u_d_idle. apply eq_nogpu_refl.
  - eapply eq_nogpu_trans; [exact Rr|]. eapply eq_nogpu_trans; [apply u_rel_nogpu; exact Fr|]. rewrite u_d_rel. apply eq_nogpu_refl.
  - destruct (Sa g) as (X & _). destruct (Sr g) as (X' & _). lia.
  - destruct (Sa g) as (_ & X & _). destruct (Sr g) as (_ & X' & _). lia.
  - destruct (Sa g) as (_ & _ & X). destruct (Sr g) as (_ & _ & X'). lia.
Qed.
Lemma neq_add_rem a t : neq (add_resources (remove_resources a t) t) a.
Proof.
  destruct (remove_resources_spec a t) as [(Fa & Fu & Fp & Fn & Fm & Fi & Fr) Sa].
  destruct (add_resources_spec (remove_resources a t) t) as [(Ra & Ru & Rp & Rn & Rm & Ri & Rr) Sr].
  unfold add_core, remove_core in *. cbn [set_core n_alloc n_used n_pods n_idle n_rel n_ngpu n_gpumem] in *.
  apply neq_intro; try congruence; try intros g.
  - rewrite Ru, Fu. res_lia.
  - eapply eq_nogpu_trans; [exact Ri|]. eapply eq_nogpu_trans; [apply d_idle_nogpu; exact Fi|]. rewrite d_u_idle. apply eq_nogpu_refl.
  - eapply eq_nogpu_trans; [exact Rr|]. eapply eq_nogpu_trans; [apply d_rel_nogpu; exact Fr|]. rewrite d_u_rel. apply eq_nogpu_refl.
  - destruct (Sa g) as (X & _). destruct (Sr g) as (X' & _). lia.
  - destruct (Sa g) as (_ & X & _). destruct (Sr g) as (_ & X' & _). lia.
  - destruct (Sa g) as (_ & _ & X). destruct (Sr g) as (_ & _ & X'). lia.
Qed.

(** * Instance 2: equality, for tasks that do not share a GPU *)
Definition nonshared_b (t : task) : bool := negb (is_shared t).
Lemma eq_rem_add a t : nonshared_b t = true -> remove_resources (add_resources a t) t = a.
Proof.
  unfold nonshared_b. intros N. apply negb_true_iff in N.
  rewrite add_resources_eq, N, remove_resources_eq, N.
  destruct a as [al idl us rl ng gm pd gu ga gr mk]. unfold remove_core, add_core, set_core.
  cbn [n_alloc n_idle n_used n_rel n_ngpu n_gpumem n_pods g_used g_alloc g_rel g_mark].
  rewrite u_d_idle, u_d_rel. f_equal. res_lia.
Qed.
Lemma eq_add_rem a t : nonshared_b t = true -> add_resources (remove_resources a t) t = a.
Proof.
  unfold nonshared_b. intros N. apply negb_true_iff in N.
  rewrite remove_resources_eq, N, add_resources_eq, N.
  destruct a as [al idl us rl ng gm pd gu ga gr mk]. unfold remove_core, add_core, set_core.
  cbn [n_alloc n_idle n_used n_rel n_ngpu n_gpumem n_pods g_used g_alloc g_rel g_mark].
  rewrite d_u_idle, d_u_rel. f_equal. res_lia.
Qed.


(* ------------------------------------------------------------------ SessC1 *)
Open Scope Z_scope.

(** * Decidable equalities used by [wf_cmd] *)
Lemma list_pos_eqb_eq a : forall b, list_pos_eqb a b = true -> a = b.
Proof.
  induction a as [|x r IH]; intros [|y t] H; cbn in H; try discriminate; [reflexivity|].
  apply andb_true_iff in H. destruct H as [E H]. apply Pos.eqb_eq in E. subst. f_equal. apply IH. exact H.
Qed.
Lemma list_pos_eqb_refl a : list_pos_eqb a a = true.
Proof. induction a as [|x r IH]; cbn; [reflexivity|]. rewrite Pos.eqb_refl. exact IH. Qed.
Lemma req_eq a b : req a b = true -> a = b.
Proof.
  unfold req. intros H. repeat (apply andb_true_iff in H; destruct H as [H ?]).
  apply res_eq; lia.
Qed.
Lemma kind_eqb_eq a b : kind_eqb a b = true -> a = b.
Proof. destruct a, b; cbn; intros; congruence. Qed.
Lemma status_eqb_eq a b : status_eqb a b = true -> a = b.
Proof. apply ab_status_eqb_eq. Qed.
Lemma status_eqb_refl a : status_eqb a a = true.
Proof. apply ab_status_eqb_eq. reflexivity. Qed.
Lemma task_eqb_eq a b : task_eqb a b = true -> a = b.
Proof.
  unfold task_eqb. intros H. repeat (apply andb_true_iff in H; destruct H as [H ?]).
  destruct a as [a1 a2 a3 a4 a5 a6 a7 a8 a9 a10], b as [b1 b2 b3 b4 b5 b6 b7 b8 b9 b10].
  cbn [t_id t_job t_status t_kind t_req t_ndev t_gmem t_groups t_resv t_besteffort] in *.
  repeat match goal with
         | E : Pos.eqb _ _ = true |- _ => apply Pos.eqb_eq in E
         | E : status_eqb _ _ = true |- _ => apply status_eqb_eq in E
         | E : kind_eqb _ _ = true |- _ => apply kind_eqb_eq in E
         | E : res_eqb _ _ = true |- _ => apply req_eq in E
         | E : Z.eqb _ _ = true |- _ => apply Z.eqb_eq in E
         | E : list_pos_eqb _ _ = true |- _ => apply list_pos_eqb_eq in E
         | E : Bool.eqb _ _ = true |- _ => apply eqb_prop in E
         end.
  subst. reflexivity.
Qed.

(** * Records *)
Lemma task_with_with t s g s' g' : task_with (task_with t s g) s' g' = task_with t s' g'.
Proof. reflexivity. Qed.
Lemma task_with_same t : task_with t (t_status t) (t_groups t) = t.
Proof. destruct t; reflexivity. Qed.
Lemma pod_with_same p : pod_with p (p_status p) (p_groups p) (p_node p) (p_virt p) = p.
Proof. destruct p as [t n v ps jr qc gt qt]. unfold pod_with, p_status, p_groups. cbn [p_task p_node p_virt p_pset p_jreq p_qc p_gtab p_qtab]. rewrite task_with_same. reflexivity. Qed.
Lemma pod_with_with p s g n v s' g' n' v' : pod_with (pod_with p s g n v) s' g' n' v' = pod_with p s' g' n' v'.
Proof. reflexivity. Qed.

(** * Pods: equal up to what a shared pod that holds no resources carries over from its last placement
    (GPU groups, device memory and accepted resources) *)
Definition pmasked (p : pod) : bool :=
  is_shared (p_task p) && (status_eqb (p_status p) Pending || (status_eqb (p_status p) Releasing && p_virt p)).
Definition pcore (p : pod) : pod :=
  mkPod (set_gmem (task_with (p_task p) (p_status p) []) 0) (p_node p) (p_virt p) (p_pset p) (p_jreq p) rzero (p_gtab p) (p_qtab p).
Definition prel (a b : pod) : Prop := pcore a = pcore b /\ (pmasked a = false -> b = a).

Lemma prel_refl a : prel a a.
Proof. split; reflexivity. Qed.
Lemma pcore_fields a b : pcore a = pcore b ->
  p_status b = p_status a /\ p_node b = p_node a /\ p_virt b = p_virt a /\ p_pset b = p_pset a
  /\ p_jreq b = p_jreq a /\ p_id b = p_id a /\ t_job (p_task b) = t_job (p_task a)
  /\ is_shared (p_task b) = is_shared (p_task a) /\ pmasked b = pmasked a
  /\ p_gtab b = p_gtab a /\ p_qtab b = p_qtab a
  /\ forall s g n v nid, at_node_raw (pod_with b s g n v) nid = at_node_raw (pod_with a s g n v) nid.
Proof.
  destruct a as [[i1 j1 s1 k1 r1 d1 m1 g1 v1 e1] n1 w1 ps1 jr1 qc1 gt1 qt1].
  destruct b as [[i2 j2 s2 k2 r2 d2 m2 g2 v2 e2] n2 w2 ps2 jr2 qc2 gt2 qt2].
  unfold pcore, pmasked, p_status, p_groups, p_id, pod_with, task_with, set_gmem, is_shared, at_node_raw.
  cbn [p_task p_node p_virt p_pset p_jreq p_qc p_gtab p_qtab t_status t_groups t_id t_job t_kind t_req t_ndev t_gmem t_resv t_besteffort].
  intros H. injection H. intros; subst. repeat split.
Qed.
Lemma prel_fields a b : prel a b ->
  p_status b = p_status a /\ p_node b = p_node a /\ p_virt b = p_virt a /\ p_pset b = p_pset a
  /\ p_jreq b = p_jreq a /\ p_id b = p_id a /\ t_job (p_task b) = t_job (p_task a)
  /\ is_shared (p_task b) = is_shared (p_task a) /\ pmasked b = pmasked a
  /\ p_gtab b = p_gtab a /\ p_qtab b = p_qtab a
  /\ forall s g n v nid, at_node_raw (pod_with b s g n v) nid = at_node_raw (pod_with a s g n v) nid.
Proof. intros [E _]. apply pcore_fields. exact E. Qed.
Lemma prel_sym a b : prel a b -> prel b a.
Proof.
  intros [E G]. pose proof (pcore_fields _ _ E) as (_ & _ & _ & _ & _ & _ & _ & _ & Em & _).
  split; [symmetry; exact E|]. intros M. rewrite Em in M. symmetry. apply G. exact M.
Qed.
Lemma prel_trans a b c : prel a b -> prel b c -> prel a c.
Proof.
  intros [E1 G1] [E2 G2]. pose proof (pcore_fields _ _ E1) as (_ & _ & _ & _ & _ & _ & _ & _ & Em & _).
  split; [congruence|]. intros M. assert (Mb : pmasked b = false) by (rewrite Em; exact M).
  rewrite (G2 Mb). apply G1. exact M.
Qed.
Lemma prel_unmasked a b : prel a b -> pmasked a = false -> b = a.
Proof. intros [_ G] M. apply G. exact M. Qed.
Lemma prel_stale a b : pcore a = pcore b -> (pmasked a = false -> b = a) -> prel a b.
Proof. intros E G. split; assumption. Qed.
Lemma pcore_set_gs a g : pcore (set_gs a g) = pcore a.
Proof. reflexivity. Qed.
Lemma prel_groups a g : (pmasked a = false -> g = p_groups a) -> prel a (set_gs a g).
Proof.
  intros H. split; [symmetry; apply pcore_set_gs|]. intros M. rewrite (H M). unfold set_gs. apply pod_with_same.
Qed.
Lemma pod_norm p s g n v : p_status p = s -> p_groups p = g -> p_node p = n -> p_virt p = v -> pod_with p s g n v = p.
Proof. intros <- <- <- <-. apply pod_with_same. Qed.

(** accepted resources: recomputing them for the same node changes nothing *)
Lemma at_node_raw_idem p nid : at_node_raw (at_node_raw p nid) nid = at_node_raw p nid.
Proof. reflexivity. Qed.
Lemma at_node_raw_with p s g n v nid : at_node_raw (pod_with p s g n v) nid = pod_with (at_node_raw p nid) s g n v.
Proof. reflexivity. Qed.
Lemma pcore_at_node_raw p nid : pcore (at_node_raw p nid) = pcore p.
Proof. reflexivity. Qed.
Lemma fresh_on_eq p nid : fresh_on p nid = true -> at_node_raw p nid = p.
Proof.
  unfold fresh_on. intros H. apply andb_true_iff in H. destruct H as [G Q].
  apply Z.eqb_eq in G. apply req_eq in Q.
  destruct p as [[i1 j1 s1 k1 r1 d1 m1 g1 v1 e1] n1 w1 ps1 jr1 qc1 gt1 qt1].
  unfold at_node_raw, set_gmem in *. cbn [p_task p_node p_virt p_pset p_jreq p_qc p_gtab p_qtab t_gmem] in *.
  rewrite G, Q. reflexivity.
Qed.

(** * Association lists *)
Lemma amap_rel_put_back {V} (R : V -> V -> Prop) k v1 w m : forall m',
  amap_rel R (aput k v1 m) m' -> (forall v, alookup k m = Some v -> R v w) -> amap_rel R m (aput k w m').
Proof.
  unfold amap_rel, aput. induction m as [|[k' v] r IH]; intros m' H Hw; cbn [aupd] in H.
  - inversion H. subst. constructor.
  - cbn [alookup] in Hw. destruct (Pos.eqb k k') eqn:E.
    + inversion H as [|x y l l' [Hk Hv] Hr]; subst. destruct y as [k2 v2]. cbn [fst snd] in *. subst k2.
      cbn [aupd]. rewrite E. constructor; [|exact Hr]. cbn [fst snd]. split; [reflexivity|]. apply Hw. reflexivity.
    + inversion H as [|x y l l' [Hk Hv] Hr]; subst. destruct y as [k2 v2]. cbn [fst snd] in *. subst k2.
      cbn [aupd]. rewrite E. constructor; [split; [reflexivity|exact Hv]|]. apply IH; assumption.
Qed.
Lemma amap_rel_put {V} (R : V -> V -> Prop) k v w m m' :
  amap_rel R m m' -> R v w -> amap_rel R (aput k v m) (aput k w m').
Proof. intros H Hr. unfold aput. apply amap_rel_aupd; [exact H|]. intros. exact Hr. Qed.
Lemma alookup_aput_same {V} k (v : V) m : amem k m = true -> alookup k (aput k v m) = Some v.
Proof. unfold aput, amem. rewrite alookup_aupd_same. destruct (alookup k m); [reflexivity|discriminate]. Qed.
Lemma alookup_aput_same' {V} k (v v0 : V) m : alookup k m = Some v0 -> alookup k (aput k v m) = Some v.
Proof. unfold aput. rewrite alookup_aupd_same. intros ->. reflexivity. Qed.
Lemma alookup_aput_other {V} j k (v : V) m : j <> k -> alookup j (aput k v m) = alookup j m.
Proof. apply alookup_aupd_other. Qed.
Lemma amap_rel_lookup_some {V} (R : V -> V -> Prop) m m' k v :
  amap_rel R m m' -> alookup k m = Some v -> exists v', alookup k m' = Some v' /\ R v v'.
Proof.
  intros H A. pose proof (amap_rel_lookup R m m' k H) as L. rewrite A in L.
  destruct (alookup k m') as [v'|]; [|contradiction]. exists v'. split; [reflexivity|exact L].
Qed.


(* ------------------------------------------------------------------ SessC1b *)
Open Scope Z_scope.

(** * undoOperation on a valid index, by kind of entry *)
Lemma fuel_of_S a : fuel_of a = S (3 + length (s_log a)).
Proof. reflexivity. Qed.

Lemma undo_op_evict a i p prev nid pg pv :
  op_valid (s_log a) i = Some true -> nth_error (s_log a) i = Some (OEvict p prev nid pg pv) ->
  undo_operation a i = (push (unevict a p prev nid pg pv) (OUndo i), true).
Proof. intros V E. unfold undo_operation. rewrite fuel_of_S. cbn [exec]. rewrite V, E. reflexivity. Qed.

Lemma undo_op_pipe a i p prev pn pg pv nx mv a1 :
  op_valid (s_log a) i = Some true -> nth_error (s_log a) i = Some (OPipe p prev pn pg pv nx mv) ->
  unpipeline a p prev pn pg pv mv = (a1, true) ->
  undo_operation a i = (push a1 (OUndo i), true).
Proof. intros V E U. unfold undo_operation. rewrite fuel_of_S. cbn [exec]. rewrite V, E, U. reflexivity. Qed.

Lemma undo_op_alloc a i c nx pv cur a1 :
  op_valid (s_log a) i = Some true -> nth_error (s_log a) i = Some (OAlloc c nx pv) ->
  get_pod a (p_id c) = Some cur -> unallocate a cur pv = (a1, true) ->
  undo_operation a i = (push a1 (OUndo i), true).
Proof. intros V E G U. unfold undo_operation. rewrite fuel_of_S. cbn [exec]. rewrite V, E, G, U. reflexivity. Qed.

Lemma undo_op_undo_evict a i k p prev nid pg pv a1 :
  op_valid (s_log a) i = Some true -> nth_error (s_log a) i = Some (OUndo k) ->
  nth_error (s_log a) k = Some (OEvict p prev nid pg pv) -> evict a p = (a1, true) ->
  undo_operation a i = (push a1 (OUndo i), true).
Proof. intros V E Ek U. unfold undo_operation. rewrite fuel_of_S. cbn [exec]. rewrite V, E, Ek, U. reflexivity. Qed.

(** * Statement.Evict and its status test *)
Lemma releasing_in_eq s pid p : get_pod s pid = Some p -> releasing_in s pid = status_eqb (p_status p) Releasing.
Proof. intros G. unfold releasing_in. rewrite G. reflexivity. Qed.

(** on a pod that is not Releasing, Evict is what it was before the repair *)
Lemma evict_unrepaired s pid : releasing_in s pid = false -> evict s pid = evict_before_repair s pid.
Proof.
  unfold releasing_in, evict, evict_before_repair. destruct (get_pod s pid) as [p|]; [|reflexivity].
  intros E. rewrite E. reflexivity.
Qed.

(** on a Releasing pod, Evict changes nothing *)
Lemma evict_releasing_id s pid : releasing_in s pid = true -> fst (evict s pid) = s.
Proof.
  unfold releasing_in, evict. destruct (get_pod s pid) as [p|]; [|discriminate].
  intros E. rewrite E.
  destruct (alookup (t_job (p_task p)) (s_jobs s)); [|reflexivity].
  destruct (p_node p) as [nid|]; [|reflexivity].
  destruct (alookup nid (s_nodes s)); reflexivity.
Qed.

(** commands that leave the session and the log alone: Evict of a Releasing pod *)
Definition noop_cmd (s : sess) (c : cmd) : bool :=
  match c with Evict pid => releasing_in s pid | _ => false end.

Lemma noop_step fails s c : noop_cmd s c = true -> step fails s c = (s, []).
Proof.
  destruct c as [pid| | | | | | | |]; try discriminate. cbn [noop_cmd]. intros E.
  unfold step, step_full. destruct (s_stuck s); [reflexivity|].
  pose proof (evict_releasing_id s pid E) as I. destruct (evict s pid) as [s1 ok]. cbn [fst] in *. rewrite I. reflexivity.
Qed.

(** the pod a command operates on *)
Definition cpod (c : cmd) : positive :=
  match c with Evict p | Pipeline p _ _ _ | Allocate p _ _ | Unevict p => p | _ => 1%positive end.

(** * What Rollback has appended so far *)
Definition tk (n k : nat) (T : list op) : Prop :=
  (forall o, In o T -> match o with OUndo j => (k <= j < n)%nat | OEvict _ _ _ _ _ => True | _ => False end)
  /\ forall j, (k <= j < n)%nat -> In (OUndo j) T.

Lemma tk_tail_ok n i T : tk n (S i) T -> tail_ok n i T.
Proof.
  intros [A B]. split.
  - intros o Ho. specialize (A o Ho). destruct o; exact A.
  - intros j Hj. apply B. lia.
Qed.
Lemma tk_nil n : tk n n [].
Proof. split; [intros o []|intros j Hj; lia]. Qed.
Lemma tk_step n i T X :
  (i < n)%nat -> tk n (S i) T ->
  (forall o, In o X -> match o with OEvict _ _ _ _ _ => True | _ => False end) ->
  tk n i (T ++ X ++ [OUndo i]).
Proof.
  intros Lt [A B] Hx. split.
  - intros o Ho. apply in_app_or in Ho. destruct Ho as [Ho|Ho].
    + specialize (A o Ho). destruct o; try exact A. lia.
    + apply in_app_or in Ho. destruct Ho as [Ho|Ho].
      * specialize (Hx o Ho). destruct o; try contradiction. exact I.
      * destruct Ho as [<-|[]]. lia.
  - intros j Hj. destruct (Nat.eq_dec j i) as [->|Ne].
    + apply in_or_app. right. apply in_or_app. right. left. reflexivity.
    + apply in_or_app. left. apply B. lia.
Qed.

(** * Frames: what the primitives leave alone *)
Lemma update_status_frame s obj new :
  s_log (fst (update_status s obj new)) = s_log s /\ s_stuck (fst (update_status s obj new)) = s_stuck s
  /\ s_nodes (fst (update_status s obj new)) = s_nodes s /\ s_queues (fst (update_status s obj new)) = s_queues s.
Proof.
  unfold update_status. destruct (alookup (t_job (p_task obj)) (s_jobs s)); [|repeat split].
  destruct (alookup (p_id obj) (s_pods s)); [|repeat split].
  destruct (job_update _ _ _ _ _ _); repeat split.
Qed.

(** generalisation of [undo_op_evict] to any fuel *)
Lemma exec_undo_evict f a i p prev nid pg pv :
  op_valid (s_log a) i = Some true -> nth_error (s_log a) i = Some (OEvict p prev nid pg pv) ->
  exec (S f) a (QUndo i) = (push (unevict a p prev nid pg pv) (OUndo i), true).
Proof. intros V E. cbn [exec]. rewrite V, E. reflexivity. Qed.

(** * The earliest valid evict entry of a pod *)
Lemma fve_some all pid : forall L pos i,
  first_valid_evict L all pid pos = Some (Some i) ->
  (pos <= i)%nat /\ op_valid all i = Some true /\ exists a b c d, nth_error L (i - pos) = Some (OEvict pid a b c d).
Proof.
  induction L as [|o r IH]; intros pos i H; cbn [first_valid_evict] in H; [discriminate|].
  destruct (op_valid all pos) as [[|]|] eqn:V; [| |discriminate].
  - assert (Rec : first_valid_evict r all pid (S pos) = Some (Some i) ->
                  (pos <= i)%nat /\ op_valid all i = Some true /\ exists a b c d, nth_error (o :: r) (i - pos) = Some (OEvict pid a b c d)).
    { intros H'. destruct (IH _ _ H') as (Le & Vi & a & b & c & d & E). split; [lia|]. split; [exact Vi|].
      exists a, b, c, d. replace (i - pos)%nat with (S (i - S pos)) by lia. exact E. }
    destruct o as [p a b c d| | |]; try (apply Rec; exact H).
    destruct (Pos.eqb p pid) eqn:Ep; [|apply Rec; exact H].
    injection H as <-. apply Pos.eqb_eq in Ep. subst p. split; [lia|]. split; [exact V|].
    exists a, b, c, d. rewrite Nat.sub_diag. reflexivity.
  - destruct (IH _ _ H) as (Le & Vi & a & b & c & d & E). split; [lia|]. split; [exact Vi|].
    exists a, b, c, d. replace (i - pos)%nat with (S (i - S pos)) by lia. exact E.
Qed.

Lemma fve_top L pid i :
  first_valid_evict L L pid 0 = Some (Some i) ->
  op_valid L i = Some true /\ exists a b c d, nth_error L i = Some (OEvict pid a b c d).
Proof.
  intros H. destruct (fve_some L pid L 0%nat i H) as (_ & V & a & b & c & d & E).
  rewrite Nat.sub_0_r in E. split; [exact V|]. exists a, b, c, d. exact E.
Qed.

(** * Pipeline unfolded *)
Lemma pipeline_eq s pid nid gs upd p0 j n :
  get_pod s pid = Some p0 -> alookup (t_job (p_task p0)) (s_jobs s) = Some j -> alookup nid (s_nodes s) = Some n ->
  pipeline s pid nid gs upd =
    let p := match gs with Some g => set_gs p0 g | None => p0 end in
    let s0 := put_pod s p in
    match alookup pid (n_pods n) with
    | Some c =>
        let move := negb (Nat.eqb (length (p_groups p)) 0) && is_shared (p_task p) && negb (list_pos_eqb (p_groups p) (t_groups c)) in
        if negb upd && negb move then
          let s1 := put_pod s0 (set_gs p (t_groups c)) in
          match first_valid_evict (s_log s1) (s_log s1) pid 0 with
          | None => (set_stuck s1, false)
          | Some None => (s1, false)
          | Some (Some i) => exec (3 + length (s_log s)) s1 (QUndo i)
          end
        else pipeline_body s0 p nid n (Some c) move
    | None => pipeline_body s0 p nid n None false
    end.
Proof.
  intros G J N. unfold pipeline. rewrite fuel_of_S. cbn [exec]. rewrite G.
  assert (Ej : t_job (p_task match gs with Some g => set_gs p0 g | None => p0 end) = t_job (p_task p0)) by (destruct gs; reflexivity).
  cbv zeta. rewrite Ej.
  cbn [s_jobs s_nodes put_pod set_podsm]. rewrite J, N.
  destruct (alookup pid (n_pods n)) as [c|]; reflexivity.
Qed.

(** * The state at an outstanding checkpoint *)
Definition open_cmd (c : cmd) : bool := match c with Commit | Convert _ => false | _ => true end.
Definition snaps_after (sn : list (nat * sess)) (s : sess) (c : cmd) : list (nat * sess) :=
  match c with
  | Checkpoint => (length (s_log s), s) :: sn
  | Rollback cp => filter (fun x => Nat.leb (fst x) cp) sn
  | Commit | Discard => []
  | _ => sn
  end.
Fixpoint run_sn (fails : nat -> bool) (s : sess) (sn : list (nat * sess)) (prog : list cmd) : sess * list (nat * sess) :=
  match prog with
  | [] => (s, sn)
  | c :: r => run_sn fails (fst (step fails s c)) (snaps_after sn s c) r
  end.
(** the session as it was when the checkpoint [cp] that is outstanding after [prog] was taken *)
Definition state_at (fails : nat -> bool) (s : sess) (prog : list cmd) (cp : nat) : option sess :=
  match find (fun x => Nat.eqb (fst x) cp) (snd (run_sn fails s [] prog)) with
  | Some x => Some (snd x)
  | None => None
  end.

Lemma run_cons fails s c r : Session.run fails s (c :: r) = Session.run fails (fst (step fails s c)) r.
Proof. reflexivity. Qed.
Lemma run_app fails s a b : Session.run fails s (a ++ b) = Session.run fails (Session.run fails s a) b.
Proof. unfold Session.run. apply fold_left_app. Qed.

Lemma map_fst_filter (cp : nat) (sn : list (nat * sess)) :
  map fst (filter (fun x => Nat.leb (fst x) cp) sn) = filter (fun x => Nat.leb x cp) (map fst sn).
Proof. induction sn as [|x r IH]; cbn; [reflexivity|]. destruct (Nat.leb (fst x) cp); cbn; rewrite IH; reflexivity. Qed.

Lemma discard_of_rollback s s' : rollback s 0 = (s', true) -> discard s = s'.
Proof.
  unfold rollback, discard. cbn [Nat.ltb Nat.leb]. rewrite Nat.sub_0_r.
  assert (G : forall k a a', undo_down a 0 k = (a', true) -> discard_down a k = a').
  { induction k as [|k IH]; intros a a' H; cbn [undo_down discard_down] in *; [congruence|].
    change (0 + k)%nat with k in H.
    destruct (undo_operation a k) as [a1 ok]. cbn [fst]. destruct ok; [apply IH; exact H|discriminate]. }
  destruct (undo_down s 0 (length (s_log s))) as [a1 ok] eqn:E. destruct ok; [|discriminate].
  intros H. injection H as <-. rewrite (G _ _ _ E). reflexivity.
Qed.


(* ------------------------------------------------------------------ SessC2 *)
Open Scope Z_scope.

(** * Facts packed in [wf_cmd] *)
Definition Indexed (s : sess) (p : pod) (j : job) : Prop :=
  alookup (t_job (p_task p)) (s_jobs s) = Some j
  /\ 0 < zget (scode (p_status p)) (j_idx j) /\ amem (p_pset p) (j_psets j) = true
  /\ forall st, 0 <= zget (scode st) (j_idx j).

Lemma indexed_facts s p : indexed s p = true -> exists j, Indexed s p j.
Proof.
  unfold indexed, Indexed. destruct (alookup (t_job (p_task p)) (s_jobs s)) as [j|]; [|discriminate].
  intros H. apply andb_true_iff in H. destruct H as [H F]. apply andb_true_iff in H. destruct H as [H A].
  exists j. split; [reflexivity|]. split; [lia|]. split; [exact A|].
  intros st. rewrite forallb_forall in F. assert (I : In st all_statuses) by (destruct st; cbn; tauto).
  specialize (F st I). lia.
Qed.

Lemma update_status_eq s obj new j cur j' :
  alookup (t_job (p_task obj)) (s_jobs s) = Some j -> alookup (p_id obj) (s_pods s) = Some cur ->
  job_update j (p_pset cur) (p_jreq cur) (p_status obj) (p_status cur) new = Some j' ->
  update_status s obj new = (put_pod (set_jobs s (aput (t_job (p_task obj)) j' (s_jobs s))) (set_st obj new), true).
Proof. intros A B C. unfold update_status. rewrite A, B, C. reflexivity. Qed.

Lemma amem_alookup {V} k (m : amap V) : amem k m = true -> exists v, alookup k m = Some v.
Proof. unfold amem. destruct (alookup k m) as [v|]; [eexists; reflexivity|discriminate]. Qed.

Lemma job_update_some j ps jreq passed cur new :
  amem ps (j_psets j) = true -> exists j', job_update j ps jreq passed cur new = Some j'.
Proof.
  intros A. apply amem_alookup in A. destruct A as [c A]. rewrite ab_job_update_eq, A. eexists. reflexivity.
Qed.

Section Sess.
  Variable R : node -> node -> Prop.
  Variable tok : task -> bool.
  Hypothesis R_refl : forall n, R n n.
  Hypothesis R_sym : forall a b, R a b -> R b a.
  Hypothesis R_trans : forall a b c, R a b -> R b c -> R a c.
  Hypothesis R_pods : forall a b, R a b -> n_pods a = n_pods b.
  Hypothesis R_set_pods : forall a b P, R a b -> R (set_pods a P) (set_pods b P).
  Hypothesis R_add : forall a b t, tok t = true -> R a b -> R (add_resources a t) (add_resources b t).
  Hypothesis R_remove : forall a b t, tok t = true -> R a b -> R (remove_resources a t) (remove_resources b t).
  Hypothesis R_rem_add : forall a t, tok t = true -> R (remove_resources (add_resources a t) t) a.
  Hypothesis R_add_rem : forall a t, tok t = true -> R (add_resources (remove_resources a t) t) a.
  (** the token predicate only looks at the kind of the task *)
  Hypothesis tok_with : forall t s g, tok (task_with t s g) = tok t.
  Hypothesis tok_gmem : forall t m, tok (set_gmem t m) = tok t.

  Definition srel (s a : sess) : Prop :=
    amap_rel R (s_nodes s) (s_nodes a) /\ amap_rel prel (s_pods s) (s_pods a)
    /\ amap_rel jrel (s_jobs s) (s_jobs a) /\ s_queues s = s_queues a /\ s_stuck s = s_stuck a.

  Lemma srel_refl s : srel s s.
  Proof.
    split; [|split; [|split; [|split; reflexivity]]]; apply amap_rel_refl; [exact R_refl|exact prel_refl|exact jrel_refl].
  Qed.
  Lemma srel_sym s a : srel s a -> srel a s.
  Proof.
    intros (N & P & J & Q & K). split; [|split; [|split; [|split; congruence]]].
    - apply amap_rel_sym; [exact R_sym|exact N].
    - apply amap_rel_sym; [exact prel_sym|exact P].
    - apply amap_rel_sym; [exact jrel_sym|exact J].
  Qed.
  Lemma srel_trans s a b : srel s a -> srel a b -> srel s b.
  Proof.
    intros (N & P & J & Q & K) (N' & P' & J' & Q' & K'). split; [|split; [|split; [|split; congruence]]].
    - eapply amap_rel_trans; [exact R_trans|exact N|exact N'].
    - eapply amap_rel_trans; [exact prel_trans|exact P|exact P'].
    - eapply amap_rel_trans; [exact jrel_trans|exact J|exact J'].
  Qed.

  (** ** Evict, and its reverse applied to any related state *)
  Lemma wf_evict_facts stk s pid :
    wf_cmd tok stk false s (Evict pid) = true -> releasing_in s pid = false ->
    exists p j nid n,
      get_pod s pid = Some p /\ p_id p = pid /\ tok (p_task p) = true /\ active_allocated (p_status p) = true
      /\ Indexed s p j /\ has_placing (s_log s) pid = false
      /\ p_node p = Some nid /\ alookup nid (s_nodes s) = Some n /\ sorted_keys (n_pods n)
      /\ alookup pid (n_pods n) = Some (p_task p) /\ at_node_raw p nid = p.
  Proof.
    unfold wf_cmd, releasing_in. cbn [negb andb]. destruct (get_pod s pid) as [p|]; [|discriminate].
    intros H Nr. rewrite Nr in H. cbn [orb] in H.
    apply andb_true_iff in H. destruct H as [H Hn].
    apply andb_true_iff in H. destruct H as [H Hp].
    apply andb_true_iff in H. destruct H as [H Hi].
    apply andb_true_iff in H. destruct H as [H Ha].
    apply andb_true_iff in H. destruct H as [Hid Ht].
    destruct (p_node p) as [nid|] eqn:Epn; [|discriminate].
    destruct (alookup nid (s_nodes s)) as [n|] eqn:En; [|discriminate].
    apply andb_true_iff in Hn. destruct Hn as [Hn Cp]. apply andb_true_iff in Hn. destruct Hn as [Sd Fr].
    destruct (alookup pid (n_pods n)) as [c|] eqn:Ec; [|discriminate].
    apply task_eqb_eq in Cp. subst c.
    destruct (indexed_facts _ _ Hi) as [j Ij].
    exists p, j, nid, n. apply Pos.eqb_eq in Hid. apply negb_true_iff in Hp.
    split; [reflexivity|]. split; [exact Hid|]. split; [exact Ht|]. split; [exact Ha|]. split; [exact Ij|].
    split; [exact Hp|]. split; [exact Epn|]. split; [exact En|].
    split; [apply sortedb_sorted; exact Sd|]. split; [exact Ec|apply fresh_on_eq; exact Fr].
  Qed.

  Ltac sess_cbn :=
    cbn [s_nodes s_pods s_jobs s_queues s_log s_ncalls s_stuck put_pod put_node push set_nodes set_podsm set_jobs
         set_queues set_log set_ncalls set_stuck] in *.

  Lemma aput_aput {V} k (v w : V) m : aput k w (aput k v m) = aput k w m.
  Proof. unfold aput. rewrite aupd_aupd. reflexivity. Qed.

  (** the handlers' effect on the queues, given the job of the pod *)
  Lemma charge_queues_q s p sign j :
    alookup (t_job (p_task p)) (s_jobs s) = Some j ->
    charge_queues s p sign = set_queues s (qeff (s_queues s) (j_queue j) (j_nonpreempt j) (if sign then p_qc p else rneg (p_qc p))).
  Proof. intros A. rewrite charge_queues_eq, A. reflexivity. Qed.

  Lemma cq_frame s p sign :
    s_nodes (charge_queues s p sign) = s_nodes s /\ s_pods (charge_queues s p sign) = s_pods s
    /\ s_jobs (charge_queues s p sign) = s_jobs s /\ s_log (charge_queues s p sign) = s_log s
    /\ s_stuck (charge_queues s p sign) = s_stuck s /\ s_ncalls (charge_queues s p sign) = s_ncalls s.
  Proof. unfold charge_queues. destruct (alookup (t_job (p_task p)) (s_jobs s)); repeat split. Qed.
  Lemma cq_nodes s p sign : s_nodes (charge_queues s p sign) = s_nodes s. Proof. apply cq_frame. Qed.
  Lemma cq_pods s p sign : s_pods (charge_queues s p sign) = s_pods s. Proof. apply cq_frame. Qed.
  Lemma cq_jobs s p sign : s_jobs (charge_queues s p sign) = s_jobs s. Proof. apply cq_frame. Qed.
  Lemma cq_log s p sign : s_log (charge_queues s p sign) = s_log s. Proof. apply cq_frame. Qed.
  Lemma cq_stuck s p sign : s_stuck (charge_queues s p sign) = s_stuck s. Proof. apply cq_frame. Qed.
  Lemma cq_queues s p sign j :
    alookup (t_job (p_task p)) (s_jobs s) = Some j ->
    s_queues (charge_queues s p sign) = qeff (s_queues s) (j_queue j) (j_nonpreempt j) (if sign then p_qc p else rneg (p_qc p)).
  Proof. intros A. rewrite (charge_queues_q _ _ _ _ A). reflexivity. Qed.

  Ltac cq := unfold ev_dealloc, ev_alloc; rewrite ?cq_nodes, ?cq_pods, ?cq_jobs, ?cq_log, ?cq_stuck.

  Lemma link_evict stk s pid :
    wf_cmd tok stk false s (Evict pid) = true -> releasing_in s pid = false ->
    exists s' p nid, evict s pid = (s', true) /\ get_pod s pid = Some p
      /\ s_log s' = s_log s ++ [OEvict pid (p_status p) nid (p_groups p) (p_virt p)]
      /\ s_stuck s' = s_stuck s
      /\ forall a, srel s' a -> srel s (unevict a pid (p_status p) nid (p_groups p) (p_virt p)).
  Proof.
    intros W Nr.
    destruct (wf_evict_facts _ _ _ W Nr) as (p & j & nid & n & Gp & Eid & Tk & Act & (Ej & Ipos & Ips & Inn) & _ & Epn & En & Srt & Cp & Fr).
    destruct (job_update_some j (p_pset p) (p_jreq p) (p_status p) (p_status p) Releasing Ips) as [j1 Ej1].
    set (jid := t_job (p_task p)) in *.
    assert (Gp' : alookup (p_id p) (s_pods s) = Some p) by (rewrite Eid; exact Gp).
    pose (p1 := set_st p Releasing).
    assert (Tid : t_id (p_task p) = pid) by exact Eid.
    destruct (nr_update_back R tok R_sym R_trans R_pods R_set_pods R_add R_remove R_rem_add R_add_rem
                n (p_task p) (p_task p1)) as (n1 & Eu & Back).
    { exact Tk. } { unfold p1, set_st, pod_with. cbn [p_task]. rewrite tok_with. exact Tk. } { exact Srt. }
    { rewrite Tid. exact Cp. } { reflexivity. }
    pose (s1 := put_pod (set_jobs s (aput jid j1 (s_jobs s))) p1).
    pose (s' := put_pod (push (ev_dealloc (put_node s1 nid n1) p1) (OEvict pid (p_status p) nid (p_groups p) (p_virt p))) (set_vt p1 true)).
    assert (Ev : evict s pid = (s', true)).
    { rewrite (evict_unrepaired _ _ Nr). unfold evict_before_repair. rewrite Gp. fold jid. rewrite Ej, Epn, En.
      unfold evict_on. rewrite (update_status_eq s p Releasing j p j1 Ej Gp' Ej1). cbn [negb].
      assert (Eat : at_node (set_st p Releasing) nid = p1).
      { unfold at_node. change (t_status (p_task (set_st p Releasing))) with Releasing. cbn [active_used].
        unfold set_st. rewrite at_node_raw_with, Fr. reflexivity. }
      rewrite Eat. fold jid s1. rewrite Eu. reflexivity. }
    assert (Pid1 : p_id p1 = pid) by exact Eid.
    destruct (job_update_static _ _ _ _ _ _ _ Ej1) as (Jq & Jn & _).
    assert (Ej' : alookup jid (s_jobs s1) = Some j1).
    { unfold s1. sess_cbn. apply (alookup_aput_same' _ _ _ _ Ej). }
    (* components of s' *)
    assert (Ls : s_log s' = s_log s ++ [OEvict pid (p_status p) nid (p_groups p) (p_virt p)]).
    { unfold s'. sess_cbn. cq. reflexivity. }
    assert (Ks : s_stuck s' = s_stuck s) by (unfold s'; sess_cbn; cq; reflexivity).
    assert (Ns : s_nodes s' = aput nid n1 (s_nodes s)) by (unfold s'; sess_cbn; cq; reflexivity).
    assert (Ps : s_pods s' = aput pid (set_vt p1 true) (s_pods s)).
    { unfold s'. sess_cbn. cq. unfold s1. sess_cbn.
      change (p_id (set_vt p1 true)) with (p_id p). rewrite Pid1, Eid. apply aput_aput. }
    assert (Js : s_jobs s' = aput jid j1 (s_jobs s)) by (unfold s'; sess_cbn; cq; reflexivity).
    assert (Qs : s_queues s' = qeff (s_queues s) (j_queue j) (j_nonpreempt j) (rneg (p_qc p))).
    { unfold s'. sess_cbn. unfold ev_dealloc. rewrite (cq_queues _ _ _ j1) by exact Ej'. sess_cbn. rewrite Jq, Jn. reflexivity. }
    exists s', p, nid. split; [exact Ev|]. split; [exact Gp|]. split; [exact Ls|]. split; [exact Ks|].
    clearbody s'. intros a (Rn & Rp & Rj & Rq & Rk).
    rewrite Ns in Rn. rewrite Ps in Rp. rewrite Js in Rj. rewrite Qs in Rq.
    (* the related state *)
    destruct (amap_rel_lookup_some _ _ _ pid _ Rp (alookup_aput_same' _ _ _ _ Gp)) as (pa & Ga & Pa).
    destruct (amap_rel_lookup_some _ _ _ jid _ Rj (alookup_aput_same' _ _ _ _ Ej)) as (ja & Gja & Ja).
    destruct (amap_rel_lookup_some _ _ _ nid _ Rn (alookup_aput_same' _ _ _ _ En)) as (na & Gna & Na).
    pose proof (prel_fields _ _ Pa) as (Fs & Fn & Fv & Fps & Fjr & Fid & Fjob & _ & _ & _ & _ & Fw).
    destruct (job_update_back j (p_pset p) (p_jreq p) (p_status p) Releasing j1 Ej1 Ipos (Inn Releasing)) as (j2 & Ej2 & Jb).
    pose proof (job_update_rel j1 ja (p_pset p) (p_jreq p) Releasing Releasing (p_status p) Ja) as Jr. rewrite Ej2 in Jr.
    destruct (job_update ja (p_pset p) (p_jreq p) Releasing Releasing (p_status p)) as [ja2|] eqn:Eja2; [|contradiction].
    destruct (Back na Na) as (na' & Eua & Rna).
    assert (Fjob' : t_job (p_task pa) = jid) by exact Fjob.
    assert (Fid' : p_id pa = pid) by (rewrite Fid; exact Eid).
    assert (Ua : update_status a pa (p_status p) =
                 (put_pod (set_jobs a (aput jid ja2 (s_jobs a))) (set_st pa (p_status p)), true)).
    { rewrite <- Fjob'. apply (update_status_eq a pa (p_status p) ja pa ja2).
      - rewrite Fjob'. exact Gja.
      - rewrite Fid'. exact Ga.
      - rewrite Fps, Fjr, Fs. exact Eja2. }
    assert (Au : active_used (p_status p) = true) by (destruct (p_status p); cbn in Act; try discriminate; reflexivity).
    assert (Pb : at_node (pod_with (set_st pa (p_status p)) (p_status p) (p_groups p) (p_node pa) (p_virt p)) nid = p).
    { unfold at_node. change (t_status (p_task (pod_with (set_st pa (p_status p)) (p_status p) (p_groups p) (p_node pa) (p_virt p)))) with (p_status p).
      rewrite Au. unfold set_st. rewrite pod_with_with, Fw, Fn. change (p_node (set_vt p1 true)) with (p_node p).
      unfold set_vt, p1, set_st. rewrite !pod_with_with, at_node_raw_with, Fr. apply pod_with_same. }
    assert (Am : amem pid (n_pods na) = true).
    { destruct (update_task_inv _ _ _ Eua) as (m' & Hr & _). destruct (remove_task_inv _ _ _ Hr) as (t' & At & _).
      unfold amem. rewrite Tid in At. rewrite At. reflexivity. }
    unfold unevict, get_pod. rewrite Ga, Ua. cbv beta iota.
    sess_cbn. rewrite Gna. cbv zeta. rewrite Pb, Am, Eua. sess_cbn.
    assert (Ejf : alookup jid (aput jid ja2 (s_jobs a)) = Some ja2) by (apply (alookup_aput_same' _ _ _ _ Gja)).
    destruct (job_update_static _ _ _ _ _ _ _ Eja2) as (Jq2 & Jn2 & _).
    destruct Ja as (Jqa & Jna & _).
    split; [|split; [|split; [|split]]]; cq; sess_cbn.
    - apply (amap_rel_put_back R nid n1 na' (s_nodes s) (s_nodes a) Rn). intros v Ev'. rewrite En in Ev'. injection Ev' as <-. exact Rna.
    - change (p_id (set_st pa (p_status p))) with (p_id pa). rewrite Fid', Eid, aput_aput.
      apply (amap_rel_put_back prel pid (set_vt p1 true) p (s_pods s) (s_pods a) Rp). intros v Ev'. unfold get_pod in Gp. rewrite Gp in Ev'. injection Ev' as <-. apply prel_refl.
    - apply (amap_rel_put_back jrel jid j1 ja2 (s_jobs s) (s_jobs a) Rj). intros v Ev'. rewrite Ej in Ev'. injection Ev' as <-.
      eapply jrel_trans; [exact Jb|exact Jr].
    - unfold ev_alloc. rewrite (cq_queues _ _ _ ja2) by (sess_cbn; exact Ejf). sess_cbn.
      rewrite <- Rq, Jq2, Jn2, <- Jqa, <- Jna, Jq, Jn. symmetry. apply qeff_back'.
    - rewrite <- Ks. exact Rk.
  Qed.

  (** ** Un-evict (the earliest valid evict entry), and the re-eviction applied to any related state *)
  Lemma link_unevict s pid p j prev nid pg pv n :
    get_pod s pid = Some p -> p_id p = pid -> tok (p_task p) = true ->
    p_status p = Releasing -> p_virt p = true -> Indexed s p j -> active_allocated prev = true ->
    p_node p = Some nid -> ((p_groups p = pg /\ at_node_raw p nid = p) \/ is_shared (p_task p) = true) ->
    alookup nid (s_nodes s) = Some n -> sorted_keys (n_pods n) ->
    alookup pid (n_pods n) = Some (task_with (p_task (at_node_raw p nid)) Releasing pg) ->
    let s' := unevict s pid prev nid pg pv in
    s_log s' = s_log s /\ s_stuck s' = s_stuck s /\
    forall a, srel s' a ->
      exists a', evict a pid = (a', true) /\ srel s a' /\ s_stuck a' = s_stuck a
                 /\ exists e, s_log a' = s_log a ++ [e] /\ match e with OEvict _ _ _ _ _ => True | _ => False end.
  Proof.
    intros Gp Eid Tk St Vt (Ej & Ipos & Ips & Inn) Act Epn Gor En Srt Cp.
    rewrite St in Ipos.
    set (jid := t_job (p_task p)) in *.
    assert (Gp' : alookup (p_id p) (s_pods s) = Some p) by (rewrite Eid; exact Gp).
    destruct (job_update_some j (p_pset p) (p_jreq p) (p_status p) (p_status p) prev Ips) as [j1 Ej1].
    rewrite St in Ej1.
    assert (Au : active_used prev = true) by (destruct prev; cbn in Act; try discriminate; reflexivity).
    pose (p1 := at_node_raw (pod_with p prev pg (p_node p) pv) nid).
    assert (P1 : at_node (pod_with (set_st p prev) prev pg (p_node p) pv) nid = p1).
    { unfold at_node. change (t_status (p_task (pod_with (set_st p prev) prev pg (p_node p) pv))) with prev. rewrite Au. reflexivity. }
    assert (Tid : t_id (p_task p) = pid) by exact Eid.
    pose (t0 := task_with (p_task (at_node_raw p nid)) Releasing pg).
    destruct (nr_update_back R tok R_sym R_trans R_pods R_set_pods R_add R_remove R_rem_add R_add_rem
                n t0 (p_task p1)) as (n1 & Eu & Back).
    { unfold t0, at_node_raw. cbn [p_task]. rewrite tok_with, tok_gmem. exact Tk. }
    { unfold p1, at_node_raw, pod_with. cbn [p_task]. rewrite tok_gmem, tok_with. exact Tk. } { exact Srt. }
    { change (t_id t0) with (t_id (p_task p)). rewrite Tid. exact Cp. } { reflexivity. }
    assert (Am : amem pid (n_pods n) = true) by (unfold amem; rewrite Cp; reflexivity).
    pose (s1 := put_pod (set_jobs s (aput jid j1 (s_jobs s))) (set_st p prev)).
    assert (Us : update_status s p prev = (s1, true)).
    { apply (update_status_eq s p prev j p j1 Ej Gp'). rewrite St. exact Ej1. }
    pose (s2 := put_node (put_pod s1 p1) nid n1).
    assert (Ef : unevict s pid prev nid pg pv = ev_alloc s2 p1).
    { unfold unevict. rewrite Gp, Us. cbv beta iota.
      assert (Nl : alookup nid (s_nodes s1) = Some n) by (unfold s1; sess_cbn; exact En).
      rewrite Nl. cbv zeta. rewrite P1, Am, Eu. reflexivity. }
    destruct (job_update_static _ _ _ _ _ _ _ Ej1) as (Jq & Jn & _).
    assert (Ej' : alookup jid (s_jobs s2) = Some j1).
    { unfold s2, s1. sess_cbn. apply (alookup_aput_same' _ _ _ _ Ej). }
    cbv zeta. rewrite Ef.
    assert (Ns : s_nodes (ev_alloc s2 p1) = aput nid n1 (s_nodes s)) by (cq; reflexivity).
    assert (Ps : s_pods (ev_alloc s2 p1) = aput pid p1 (s_pods s)).
    { cq. unfold s2, s1. sess_cbn. change (p_id p1) with (p_id p). change (p_id (set_st p prev)) with (p_id p).
      rewrite Eid. apply aput_aput. }
    assert (Js : s_jobs (ev_alloc s2 p1) = aput jid j1 (s_jobs s)) by (cq; reflexivity).
    assert (Qs : s_queues (ev_alloc s2 p1) = qeff (s_queues s) (j_queue j) (j_nonpreempt j) (p_qc p1)).
    { unfold ev_alloc. rewrite (cq_queues _ _ _ j1) by exact Ej'. unfold s2, s1. sess_cbn. rewrite Jq, Jn. reflexivity. }
    split; [cq; reflexivity|]. split; [cq; reflexivity|].
    intros a (Rn & Rp & Rj & Rq & Rk).
    rewrite Ns in Rn. rewrite Ps in Rp. rewrite Js in Rj. rewrite Qs in Rq.
    assert (Ks : s_stuck (ev_alloc s2 p1) = s_stuck s) by (cq; reflexivity). rewrite Ks in Rk.
    destruct (amap_rel_lookup_some _ _ _ pid _ Rp (alookup_aput_same' _ _ _ _ Gp)) as (pa & Ga & Pa).
    destruct (amap_rel_lookup_some _ _ _ jid _ Rj (alookup_aput_same' _ _ _ _ Ej)) as (ja & Gja & Ja).
    destruct (amap_rel_lookup_some _ _ _ nid _ Rn (alookup_aput_same' _ _ _ _ En)) as (na & Gna & Na).
    assert (Nm : pmasked p1 = false).
    { unfold pmasked. change (p_status p1) with prev. change (p_virt p1) with pv.
      destruct prev; cbn in Act; try discriminate; cbn; apply andb_false_r. }
    pose proof (prel_unmasked _ _ Pa Nm) as Epa. subst pa.
    destruct (job_update_back j (p_pset p) (p_jreq p) Releasing prev j1 Ej1 Ipos (Inn prev)) as (j2 & Ej2 & Jb).
    pose proof (job_update_rel j1 ja (p_pset p) (p_jreq p) prev prev Releasing Ja) as Jr. rewrite Ej2 in Jr.
    destruct (job_update ja (p_pset p) (p_jreq p) prev prev Releasing) as [ja2|] eqn:Eja2; [|contradiction].
    destruct (Back na Na) as (na' & Eua & Rna).
    assert (Ua : update_status a p1 Releasing = (put_pod (set_jobs a (aput jid ja2 (s_jobs a))) (set_st p1 Releasing), true)).
    { apply (update_status_eq a p1 Releasing ja p1 ja2); [exact Gja|change (p_id p1) with (p_id p); rewrite Eid; exact Ga|exact Eja2]. }
    assert (Eat : at_node (set_st p1 Releasing) nid = set_st p1 Releasing) by reflexivity.
    assert (Tk1 : t0 = p_task (set_st p1 Releasing)) by reflexivity.
    rewrite Tk1 in Eua.
    eexists. split.
    { assert (Nra : releasing_in a pid = false).
      { rewrite (releasing_in_eq _ _ _ Ga). change (p_status p1) with prev. destruct prev; cbn in Act; try discriminate; reflexivity. }
      rewrite (evict_unrepaired _ _ Nra). unfold evict_before_repair, get_pod. rewrite Ga. change (t_job (p_task p1)) with jid. rewrite Gja.
      change (p_node p1) with (p_node p). rewrite Epn, Gna. unfold evict_on. rewrite Ua. cbn [negb]. rewrite Eat, Eua. reflexivity. }
    destruct (job_update_static _ _ _ _ _ _ _ Eja2) as (Jq2 & Jn2 & _).
    destruct Ja as (Jqa & Jna & _).
    assert (Ejf : alookup jid (aput jid ja2 (s_jobs a)) = Some ja2) by (apply (alookup_aput_same' _ _ _ _ Gja)).
    split; [|split].
    - split; [|split; [|split; [|split]]]; sess_cbn; cq; sess_cbn.
      + apply (amap_rel_put_back R nid n1 na' (s_nodes s) (s_nodes a) Rn). intros v Ev'. rewrite En in Ev'. injection Ev' as <-. exact Rna.
      + change (p_id (set_vt (set_st p1 Releasing) true)) with (p_id p). change (p_id (set_st p1 Releasing)) with (p_id p).
        rewrite Eid, aput_aput.
        apply (amap_rel_put_back prel pid p1 _ (s_pods s) (s_pods a) Rp). intros v Ev'. unfold get_pod in Gp. rewrite Gp in Ev'. injection Ev' as <-.
        assert (X : set_vt (set_st p1 Releasing) true = at_node_raw (set_gs p pg) nid).
        { unfold set_gs. rewrite St, Vt. reflexivity. }
        rewrite X. apply prel_stale; [reflexivity|]. intros M. destruct Gor as [[G F]|G].
        * rewrite <- G. unfold set_gs. rewrite pod_with_same. exact F.
        * unfold pmasked in M. rewrite G, St, Vt in M. cbn in M. discriminate.
      + apply (amap_rel_put_back jrel jid j1 ja2 (s_jobs s) (s_jobs a) Rj). intros v Ev'. rewrite Ej in Ev'. injection Ev' as <-.
        eapply jrel_trans; [exact Jb|exact Jr].
      + unfold ev_dealloc. rewrite (cq_queues _ _ _ ja2) by (sess_cbn; exact Ejf). sess_cbn.
        change (p_qc (set_st p1 Releasing)) with (p_qc p1).
        rewrite <- Rq, Jq2, Jn2, <- Jqa, <- Jna, Jq, Jn. symmetry. apply qeff_back.
      + exact Rk.
    - sess_cbn. cq. reflexivity.
    - eexists. split; [sess_cbn; cq; sess_cbn; reflexivity|exact I].
  Qed.

  (** ** Pipeline of a pod that is not on the target node, and unpipeline applied to any related state *)
  Lemma link_pipe_add s pid p0 gs nid n j :
    get_pod s pid = Some p0 -> p_id p0 = pid -> tok (p_task p0) = true -> Indexed s p0 j ->
    (p_status p0 = Pending \/ (p_status p0 = Releasing /\ p_virt p0 = true)) ->
    ((gs = None /\ at_node_raw p0 nid = p0) \/ is_shared (p_task p0) = true) ->
    alookup nid (s_nodes s) = Some n -> amem pid (n_pods n) = false ->
    let p := match gs with Some g => set_gs p0 g | None => p0 end in
    exists s', pipeline_body (put_pod s p) p nid n None false = (s', true)
      /\ s_log s' = s_log s ++ [OPipe pid (p_status p0) (p_node p0) (p_groups p) (p_virt p0) nid false]
      /\ s_stuck s' = s_stuck s
      /\ forall a, srel s' a ->
           exists a', unpipeline a pid (p_status p0) (p_node p0) (p_groups p) (p_virt p0) false = (a', true)
                      /\ srel s a' /\ s_log a' = s_log a /\ s_stuck a' = s_stuck a.
  Proof.
    intros Gp Eid Tk (Ej & Ipos & Ips & Inn) Hst Hgs En Am p.
    assert (Pp : p = set_gs p0 (p_groups p)).
    { unfold p. destruct gs; [reflexivity|]. unfold set_gs. symmetry. apply pod_with_same. }
    assert (Fst : p_status p = p_status p0) by (unfold p; destruct gs; reflexivity).
    assert (Fid : p_id p = pid) by (unfold p; destruct gs; exact Eid).
    assert (Fjob : t_job (p_task p) = t_job (p_task p0)) by (unfold p; destruct gs; reflexivity).
    assert (Fps : p_pset p = p_pset p0) by (unfold p; destruct gs; reflexivity).
    assert (Fjr : p_jreq p = p_jreq p0) by (unfold p; destruct gs; reflexivity).
    assert (Fqc : p_qc p = p_qc p0) by (unfold p; destruct gs; reflexivity).
    assert (Fnd : p_node p = p_node p0) by (unfold p; destruct gs; reflexivity).
    assert (Fvt : p_virt p = p_virt p0) by (unfold p; destruct gs; reflexivity).
    assert (Ftk : tok (p_task p) = true) by (unfold p; destruct gs; [unfold set_gs, pod_with; cbn [p_task]; rewrite tok_with|]; exact Tk).
    set (jid := t_job (p_task p0)) in *.
    set (s0 := put_pod s p).
    assert (G0 : alookup (p_id p) (s_pods s0) = Some p).
    { unfold s0. sess_cbn. rewrite Fid. unfold get_pod in Gp. apply (alookup_aput_same' _ _ _ _ Gp). }
    destruct (job_update_some j (p_pset p0) (p_jreq p0) (p_status p0) (p_status p0) Pipelined Ips) as [j1 Ej1].
    pose (p1 := at_node_raw (set_nd (set_st p Pipelined) (Some nid)) nid).
    destruct (nr_add_remove R tok R_sym R_trans R_pods R_set_pods R_remove R_rem_add n (p_task p1)) as (n1 & Ea & Back).
    { unfold p1, at_node_raw, set_nd, set_st, pod_with. cbn [p_task]. rewrite tok_gmem, !tok_with. exact Ftk. }
    { change (t_id (p_task p1)) with (p_id p). rewrite Fid. exact Am. }
    pose (s1 := put_pod (set_jobs s0 (aput jid j1 (s_jobs s0))) (set_st p Pipelined)).
    assert (Us : update_status s0 p Pipelined = (s1, true)).
    { unfold s1. rewrite <- Fjob. apply (update_status_eq s0 p Pipelined j p j1).
      - rewrite Fjob. exact Ej.
      - exact G0.
      - rewrite Fps, Fjr, Fst. exact Ej1. }
    pose (s2 := put_pod s1 p1).
    pose (s3 := ev_alloc (put_node s2 nid n1) p1).
    pose (s' := put_pod (push s3 (OPipe (p_id p) (p_status p) (p_node p) (p_groups p) (p_virt p) nid false)) (set_vt p1 true)).
    assert (Ef : pipeline_body s0 p nid n None false = (s', true)).
    { unfold pipeline_body. rewrite Us. cbv beta iota.
      change (at_node (set_nd (set_st p Pipelined) (Some nid)) nid) with p1. fold s2. rewrite Ea. reflexivity. }
    destruct (job_update_static _ _ _ _ _ _ _ Ej1) as (Jq & Jn & _).
    assert (Ej' : alookup jid (s_jobs (put_node s2 nid n1)) = Some j1).
    { unfold s2, s1, s0. sess_cbn. apply (alookup_aput_same' _ _ _ _ Ej). }
    assert (Ls : s_log s' = s_log s ++ [OPipe pid (p_status p0) (p_node p0) (p_groups p) (p_virt p0) nid false]).
    { unfold s', s3. sess_cbn. cq. rewrite Fid, Fst, Fnd, Fvt. reflexivity. }
    assert (Ks : s_stuck s' = s_stuck s) by (unfold s', s3; sess_cbn; cq; reflexivity).
    assert (Ns : s_nodes s' = aput nid n1 (s_nodes s)) by (unfold s', s3; sess_cbn; cq; reflexivity).
    assert (Ps : s_pods s' = aput pid (set_vt p1 true) (s_pods s)).
    { unfold s', s3. sess_cbn. cq. unfold s2, s1, s0. sess_cbn.
      change (p_id (set_vt p1 true)) with (p_id p). change (p_id p1) with (p_id p). change (p_id (set_st p Pipelined)) with (p_id p).
      rewrite Fid, !aput_aput. reflexivity. }
    assert (Js : s_jobs s' = aput jid j1 (s_jobs s)) by (unfold s', s3; sess_cbn; cq; reflexivity).
    assert (Qs : s_queues s' = qeff (s_queues s) (j_queue j) (j_nonpreempt j) (p_qc p1)).
    { unfold s', s3. sess_cbn. unfold ev_alloc.
      rewrite (cq_queues _ _ _ j1) by (change (t_job (p_task p1)) with (t_job (p_task p)); rewrite Fjob; exact Ej').
      unfold s2, s1, s0. sess_cbn. rewrite Jq, Jn. reflexivity. }
    exists s'. split; [exact Ef|]. split; [exact Ls|]. split; [exact Ks|].
    clearbody s'. intros a (Rn & Rp & Rj & Rq & Rk).
    rewrite Ns in Rn. rewrite Ps in Rp. rewrite Js in Rj. rewrite Qs in Rq. rewrite Ks in Rk.
    destruct (amap_rel_lookup_some _ _ _ pid _ Rp (alookup_aput_same' _ _ _ _ Gp)) as (pa & Ga & Pa).
    destruct (amap_rel_lookup_some _ _ _ jid _ Rj (alookup_aput_same' _ _ _ _ Ej)) as (ja & Gja & Ja).
    destruct (amap_rel_lookup_some _ _ _ nid _ Rn (alookup_aput_same' _ _ _ _ En)) as (na & Gna & Na).
    assert (Nm : pmasked (set_vt p1 true) = false).
    { unfold pmasked. change (p_status (set_vt p1 true)) with Pipelined. cbn. apply andb_false_r. }
    pose proof (prel_unmasked _ _ Pa Nm) as Epa. subst pa.
    destruct (job_update_back j (p_pset p0) (p_jreq p0) (p_status p0) Pipelined j1 Ej1 Ipos (Inn Pipelined)) as (j2 & Ej2 & Jb).
    pose proof (job_update_rel j1 ja (p_pset p0) (p_jreq p0) Pipelined Pipelined (p_status p0) Ja) as Jr. rewrite Ej2 in Jr.
    destruct (job_update ja (p_pset p0) (p_jreq p0) Pipelined Pipelined (p_status p0)) as [ja2|] eqn:Eja2; [|contradiction].
    destruct (Back na Na) as (na' & Era & Rna).
    change (t_id (p_task p1)) with (p_id p) in Era. rewrite Fid in Era.
    assert (Ua : update_status a (set_vt p1 true) (p_status p0) =
                 (put_pod (set_jobs a (aput jid ja2 (s_jobs a))) (set_st (set_vt p1 true) (p_status p0)), true)).
    { rewrite <- Fjob. change (t_job (p_task p)) with (t_job (p_task (set_vt p1 true))).
      apply (update_status_eq a (set_vt p1 true) (p_status p0) ja (set_vt p1 true) ja2).
      - change (t_job (p_task (set_vt p1 true))) with (t_job (p_task p)). rewrite Fjob. exact Gja.
      - change (p_id (set_vt p1 true)) with (p_id p). rewrite Fid. exact Ga.
      - change (p_pset (set_vt p1 true)) with (p_pset p). change (p_jreq (set_vt p1 true)) with (p_jreq p).
        rewrite Fps, Fjr. exact Eja2. }
    pose (pb := at_node_raw p nid).
    assert (Pb : pod_with (set_vt p1 true) (p_status p0) (p_groups p) (p_node p0) (p_virt p0) = pb).
    { transitivity (at_node_raw (pod_with p (p_status p0) (p_groups p) (p_node p0) (p_virt p0)) nid); [reflexivity|].
      rewrite <- Fst, <- Fnd, <- Fvt, pod_with_same. reflexivity. }
    eexists. split.
    { unfold unpipeline, get_pod. rewrite Ga, Ua. cbv beta iota.
      change (p_node (set_vt p1 true)) with (Some nid). rewrite Pb.
      sess_cbn. rewrite Gna, Era. cbn [andb]. reflexivity. }
    destruct (job_update_static _ _ _ _ _ _ _ Eja2) as (Jq2 & Jn2 & _).
    destruct Ja as (Jqa & Jna & _).
    assert (Ejf : alookup jid (aput jid ja2 (s_jobs a)) = Some ja2) by (apply (alookup_aput_same' _ _ _ _ Gja)).
    split; [|split].
    - split; [|split; [|split; [|split]]]; sess_cbn; cq; sess_cbn.
      + apply (amap_rel_put_back R nid n1 na' (s_nodes s) (s_nodes a) Rn). intros v Ev'. rewrite En in Ev'. injection Ev' as <-. exact Rna.
      + change (p_id (set_st (set_vt p1 true) (p_status p0))) with (p_id p). change (p_id pb) with (p_id p). rewrite Fid, aput_aput.
        apply (amap_rel_put_back prel pid (set_vt p1 true) pb (s_pods s) (s_pods a) Rp). intros v Ev'. unfold get_pod in Gp. rewrite Gp in Ev'. injection Ev' as <-.
        apply prel_stale; [unfold pb, p; destruct gs; reflexivity|]. intros M. destruct Hgs as [[G F]|G].
        * unfold pb, p. rewrite G. exact F.
        * unfold pmasked in M. rewrite G in M. destruct Hst as [H|[H H']]; rewrite H in M; [|rewrite H' in M]; cbn in M; discriminate.
      + apply (amap_rel_put_back jrel jid j1 ja2 (s_jobs s) (s_jobs a) Rj). intros v Ev'. rewrite Ej in Ev'. injection Ev' as <-.
        eapply jrel_trans; [exact Jb|exact Jr].
      + unfold ev_dealloc. rewrite (cq_queues _ _ _ ja2) by (sess_cbn; change (t_job (p_task pb)) with (t_job (p_task p)); rewrite Fjob; exact Ejf). sess_cbn.
        change (p_qc pb) with (p_qc p1). rewrite <- Rq, Jq2, Jn2, <- Jqa, <- Jna, Jq, Jn. symmetry. apply qeff_back.
      + exact Rk.
    - sess_cbn. cq. reflexivity.
    - sess_cbn. cq. reflexivity.
  Qed.
  (** ** Pipeline of an evicted shared pod to other devices of its node (the node keeps the evicted copy's
      charges), and unpipeline + RestoreTaskEntry applied to any related state *)
  Lemma link_pipe_move s pid p0 g nid n j c :
    get_pod s pid = Some p0 -> p_id p0 = pid -> tok (p_task p0) = true -> Indexed s p0 j ->
    p_status p0 = Releasing -> p_virt p0 = true -> is_shared (p_task p0) = true ->
    alookup nid (s_nodes s) = Some n -> sorted_keys (n_pods n) -> alookup pid (n_pods n) = Some c ->
    c = task_with (p_task (at_node_raw p0 nid)) Releasing (t_groups c) ->
    let p := set_gs p0 g in
    exists s', pipeline_body (put_pod s p) p nid n (Some c) true = (s', true)
      /\ s_log s' = s_log s ++ [OPipe pid (p_status p0) (p_node p0) (t_groups c) (p_virt p0) nid true]
      /\ s_stuck s' = s_stuck s
      /\ forall a, srel s' a ->
           exists a', unpipeline a pid (p_status p0) (p_node p0) (t_groups c) (p_virt p0) true = (a', true)
                      /\ srel s a' /\ s_log a' = s_log a /\ s_stuck a' = s_stuck a.
  Proof.
    intros Gp Eid Tk (Ej & Ipos & Ips & Inn) Hst Hvt Hsh En Srt Cp Hc p. pose (gs := Some g).
    assert (Pp : p = set_gs p0 (p_groups p)) by reflexivity.
    assert (Fst : p_status p = p_status p0) by reflexivity.
    assert (Fid : p_id p = pid) by exact Eid.
    assert (Fjob : t_job (p_task p) = t_job (p_task p0)) by reflexivity.
    assert (Fps : p_pset p = p_pset p0) by reflexivity.
    assert (Fjr : p_jreq p = p_jreq p0) by reflexivity.
    assert (Fqc : p_qc p = p_qc p0) by reflexivity.
    assert (Fnd : p_node p = p_node p0) by reflexivity.
    assert (Fvt : p_virt p = p_virt p0) by reflexivity.
    assert (Ftk : tok (p_task p) = true) by (unfold p, set_gs, pod_with; cbn [p_task]; rewrite tok_with; exact Tk).
    set (jid := t_job (p_task p0)) in *.
    set (s0 := put_pod s p).
    assert (G0 : alookup (p_id p) (s_pods s0) = Some p).
    { unfold s0. sess_cbn. rewrite Fid. unfold get_pod in Gp. apply (alookup_aput_same' _ _ _ _ Gp). }
    destruct (job_update_some j (p_pset p0) (p_jreq p0) (p_status p0) (p_status p0) Pipelined Ips) as [j1 Ej1].
    pose (p1 := at_node_raw (set_nd (set_st p Pipelined) (Some nid)) nid).
    destruct (nr_move_back R tok R_refl R_sym R_trans R_pods R_set_pods R_remove R_rem_add n c (p_task p1)) as (n1 & Ea & Back).
    { unfold p1, at_node_raw, set_nd, set_st, pod_with. cbn [p_task]. rewrite tok_gmem, !tok_with. exact Ftk. }
    { exact Srt. }
    { change (t_id (p_task p1)) with (p_id p). rewrite Fid. exact Cp. }
    { exact Hsh. }
    pose (s1 := put_pod (set_jobs s0 (aput jid j1 (s_jobs s0))) (set_st p Pipelined)).
    assert (Us : update_status s0 p Pipelined = (s1, true)).
    { unfold s1. rewrite <- Fjob. apply (update_status_eq s0 p Pipelined j p j1).
      - rewrite Fjob. exact Ej.
      - exact G0.
      - rewrite Fps, Fjr, Fst. exact Ej1. }
    pose (s2 := put_pod s1 p1).
    pose (s3 := ev_alloc (put_node s2 nid n1) p1).
    pose (s' := put_pod (push s3 (OPipe (p_id p) (p_status p) (p_node p) (t_groups c) (p_virt p) nid true)) (set_vt p1 true)).
    assert (Ef : pipeline_body s0 p nid n (Some c) true = (s', true)).
    { unfold pipeline_body. rewrite Us. cbv beta iota.
      change (at_node (set_nd (set_st p Pipelined) (Some nid)) nid) with p1. fold s2. rewrite Ea. reflexivity. }
    destruct (job_update_static _ _ _ _ _ _ _ Ej1) as (Jq & Jn & _).
    assert (Ej' : alookup jid (s_jobs (put_node s2 nid n1)) = Some j1).
    { unfold s2, s1, s0. sess_cbn. apply (alookup_aput_same' _ _ _ _ Ej). }
    assert (Ls : s_log s' = s_log s ++ [OPipe pid (p_status p0) (p_node p0) (t_groups c) (p_virt p0) nid true]).
    { unfold s', s3. sess_cbn. cq. rewrite Fid, Fst, Fnd, Fvt. reflexivity. }
    assert (Ks : s_stuck s' = s_stuck s) by (unfold s', s3; sess_cbn; cq; reflexivity).
    assert (Ns : s_nodes s' = aput nid n1 (s_nodes s)) by (unfold s', s3; sess_cbn; cq; reflexivity).
    assert (Ps : s_pods s' = aput pid (set_vt p1 true) (s_pods s)).
    { unfold s', s3. sess_cbn. cq. unfold s2, s1, s0. sess_cbn.
      change (p_id (set_vt p1 true)) with (p_id p). change (p_id p1) with (p_id p). change (p_id (set_st p Pipelined)) with (p_id p).
      rewrite Fid, !aput_aput. reflexivity. }
    assert (Js : s_jobs s' = aput jid j1 (s_jobs s)) by (unfold s', s3; sess_cbn; cq; reflexivity).
    assert (Qs : s_queues s' = qeff (s_queues s) (j_queue j) (j_nonpreempt j) (p_qc p1)).
    { unfold s', s3. sess_cbn. unfold ev_alloc.
      rewrite (cq_queues _ _ _ j1) by (change (t_job (p_task p1)) with (t_job (p_task p)); rewrite Fjob; exact Ej').
      unfold s2, s1, s0. sess_cbn. rewrite Jq, Jn. reflexivity. }
    exists s'. split; [exact Ef|]. split; [exact Ls|]. split; [exact Ks|].
    clearbody s'. intros a (Rn & Rp & Rj & Rq & Rk).
    rewrite Ns in Rn. rewrite Ps in Rp. rewrite Js in Rj. rewrite Qs in Rq. rewrite Ks in Rk.
    destruct (amap_rel_lookup_some _ _ _ pid _ Rp (alookup_aput_same' _ _ _ _ Gp)) as (pa & Ga & Pa).
    destruct (amap_rel_lookup_some _ _ _ jid _ Rj (alookup_aput_same' _ _ _ _ Ej)) as (ja & Gja & Ja).
    destruct (amap_rel_lookup_some _ _ _ nid _ Rn (alookup_aput_same' _ _ _ _ En)) as (na & Gna & Na).
    assert (Nm : pmasked (set_vt p1 true) = false).
    { unfold pmasked. change (p_status (set_vt p1 true)) with Pipelined. cbn. apply andb_false_r. }
    pose proof (prel_unmasked _ _ Pa Nm) as Epa. subst pa.
    destruct (job_update_back j (p_pset p0) (p_jreq p0) (p_status p0) Pipelined j1 Ej1 Ipos (Inn Pipelined)) as (j2 & Ej2 & Jb).
    pose proof (job_update_rel j1 ja (p_pset p0) (p_jreq p0) Pipelined Pipelined (p_status p0) Ja) as Jr. rewrite Ej2 in Jr.
    destruct (job_update ja (p_pset p0) (p_jreq p0) Pipelined Pipelined (p_status p0)) as [ja2|] eqn:Eja2; [|contradiction].
    destruct (Back na Na) as (na' & Era & Ama & Rna).
    change (t_id (p_task p1)) with (p_id p) in Era, Ama, Rna. rewrite Fid in Era, Ama, Rna.
    assert (Ua : update_status a (set_vt p1 true) (p_status p0) =
                 (put_pod (set_jobs a (aput jid ja2 (s_jobs a))) (set_st (set_vt p1 true) (p_status p0)), true)).
    { rewrite <- Fjob. change (t_job (p_task p)) with (t_job (p_task (set_vt p1 true))).
      apply (update_status_eq a (set_vt p1 true) (p_status p0) ja (set_vt p1 true) ja2).
      - change (t_job (p_task (set_vt p1 true))) with (t_job (p_task p)). rewrite Fjob. exact Gja.
      - change (p_id (set_vt p1 true)) with (p_id p). rewrite Fid. exact Ga.
      - change (p_pset (set_vt p1 true)) with (p_pset p). change (p_jreq (set_vt p1 true)) with (p_jreq p).
        rewrite Fps, Fjr. exact Eja2. }
    pose (pr := at_node_raw (set_gs p0 (t_groups c)) nid).
    assert (Pb : pod_with (set_vt p1 true) (p_status p0) (t_groups c) (p_node p0) (p_virt p0) = pr) by reflexivity.
    assert (Tc : p_task pr = c).
    { transitivity (task_with (p_task (at_node_raw p0 nid)) (p_status p0) (t_groups c)); [reflexivity|]. rewrite Hst. symmetry. exact Hc. }
    eexists. split.
    { unfold unpipeline, get_pod. rewrite Ga, Ua. cbv beta iota.
      change (p_node (set_vt p1 true)) with (Some nid). rewrite Pb.
      sess_cbn. rewrite Gna, Era, Ama. cbn [andb negb]. rewrite Tc. reflexivity. }
    destruct (job_update_static _ _ _ _ _ _ _ Eja2) as (Jq2 & Jn2 & _).
    destruct Ja as (Jqa & Jna & _).
    assert (Ejf : alookup jid (aput jid ja2 (s_jobs a)) = Some ja2) by (apply (alookup_aput_same' _ _ _ _ Gja)).
    split; [|split].
    - split; [|split; [|split; [|split]]]; sess_cbn; cq; sess_cbn.
      + apply (amap_rel_put_back R nid n1 _ (s_nodes s) (s_nodes a) Rn). intros v Ev'. rewrite En in Ev'. injection Ev' as <-. exact Rna.
      + change (p_id (set_st (set_vt p1 true) (p_status p0))) with (p_id p). change (p_id pr) with (p_id p). rewrite Fid, aput_aput.
        apply (amap_rel_put_back prel pid (set_vt p1 true) pr (s_pods s) (s_pods a) Rp). intros v Ev'. unfold get_pod in Gp. rewrite Gp in Ev'. injection Ev' as <-.
        apply prel_stale; [reflexivity|]. intros M. unfold pmasked in M. rewrite Hsh, Hst, Hvt in M. cbn in M. discriminate.
      + apply (amap_rel_put_back jrel jid j1 ja2 (s_jobs s) (s_jobs a) Rj). intros v Ev'. rewrite Ej in Ev'. injection Ev' as <-.
        eapply jrel_trans; [exact Jb|exact Jr].
      + unfold ev_dealloc. rewrite (cq_queues _ _ _ ja2) by (sess_cbn; exact Ejf). sess_cbn.
        change (p_qc pr) with (p_qc p1). rewrite <- Rq, Jq2, Jn2, <- Jqa, <- Jna, Jq, Jn. symmetry. apply qeff_back.
      + exact Rk.
    - sess_cbn. cq. reflexivity.
    - sess_cbn. cq. reflexivity.
  Qed.
  (** ** Allocate, and unallocate applied to any related state *)
  Lemma link_alloc s pid p0 gs nid n j :
    get_pod s pid = Some p0 -> p_id p0 = pid -> tok (p_task p0) = true -> Indexed s p0 j ->
    p_status p0 = Pending -> p_node p0 = None ->
    ((gs = None /\ at_node_raw p0 nid = p0) \/ is_shared (p_task p0) = true) ->
    alookup nid (s_nodes s) = Some n -> amem pid (n_pods n) = false ->
    let p := match gs with Some g => set_gs p0 g | None => p0 end in
    exists s', allocate s pid nid gs = (s', true)
      /\ s_log s' = s_log s ++ [OAlloc (at_node_raw (set_nd (set_st p Allocated) (Some nid)) nid) nid (p_virt p0)]
      /\ s_stuck s' = s_stuck s
      /\ forall a, srel s' a ->
           exists cur a', get_pod a pid = Some cur /\ unallocate a cur (p_virt p0) = (a', true)
                      /\ srel s a' /\ s_log a' = s_log a /\ s_stuck a' = s_stuck a.
  Proof.
    intros Gp Eid Tk (Ej & Ipos & Ips & Inn) Hst Hnd Hgs En Am p.
    assert (Pp : p = set_gs p0 (p_groups p)).
    { unfold p. destruct gs; [reflexivity|]. unfold set_gs. symmetry. apply pod_with_same. }
    assert (Fst : p_status p = p_status p0) by (unfold p; destruct gs; reflexivity).
    assert (Fid : p_id p = pid) by (unfold p; destruct gs; exact Eid).
    assert (Fjob : t_job (p_task p) = t_job (p_task p0)) by (unfold p; destruct gs; reflexivity).
    assert (Fps : p_pset p = p_pset p0) by (unfold p; destruct gs; reflexivity).
    assert (Fjr : p_jreq p = p_jreq p0) by (unfold p; destruct gs; reflexivity).
    assert (Fqc : p_qc p = p_qc p0) by (unfold p; destruct gs; reflexivity).
    assert (Fnd : p_node p = p_node p0) by (unfold p; destruct gs; reflexivity).
    assert (Fvt : p_virt p = p_virt p0) by (unfold p; destruct gs; reflexivity).
    assert (Ftk : tok (p_task p) = true) by (unfold p; destruct gs; [unfold set_gs, pod_with; cbn [p_task]; rewrite tok_with|]; exact Tk).
    set (jid := t_job (p_task p0)) in *.
    set (s0 := put_pod s p).
    assert (G0 : alookup (p_id p) (s_pods s0) = Some p).
    { unfold s0. sess_cbn. rewrite Fid. unfold get_pod in Gp. apply (alookup_aput_same' _ _ _ _ Gp). }
    destruct (job_update_some j (p_pset p0) (p_jreq p0) (p_status p0) (p_status p0) Allocated Ips) as [j1 Ej1].
    pose (p1 := at_node_raw (set_nd (set_st p Allocated) (Some nid)) nid).
    destruct (nr_add_remove R tok R_sym R_trans R_pods R_set_pods R_remove R_rem_add n (p_task p1)) as (n1 & Ea & Back).
    { unfold p1, at_node_raw, set_nd, set_st, pod_with. cbn [p_task]. rewrite tok_gmem, !tok_with. exact Ftk. }
    { change (t_id (p_task p1)) with (p_id p). rewrite Fid. exact Am. }
    pose (s1 := put_pod (set_jobs s0 (aput jid j1 (s_jobs s0))) (set_st p Allocated)).
    assert (Us : update_status s0 p Allocated = (s1, true)).
    { unfold s1. rewrite <- Fjob. apply (update_status_eq s0 p Allocated j p j1).
      - rewrite Fjob. exact Ej.
      - exact G0.
      - rewrite Fps, Fjr, Fst. exact Ej1. }
    pose (s2 := put_pod s1 p1).
    pose (s3 := ev_alloc (put_node s2 nid n1) p1).
    pose (s' := put_pod (push s3 (OAlloc p1 nid (p_virt p1))) (set_vt p1 true)).
    assert (Ef : allocate s pid nid gs = (s', true)).
    { unfold allocate. rewrite Gp. fold p s0. rewrite Us. cbn [negb].
      change (at_node (set_nd (set_st p Allocated) (Some nid)) nid) with p1. fold s2.
      assert (Nl : alookup nid (s_nodes s2) = Some n) by (unfold s2, s1, s0; sess_cbn; exact En).
      rewrite Nl, Ea. reflexivity. }
    destruct (job_update_static _ _ _ _ _ _ _ Ej1) as (Jq & Jn & _).
    assert (Ej' : alookup jid (s_jobs (put_node s2 nid n1)) = Some j1).
    { unfold s2, s1, s0. sess_cbn. apply (alookup_aput_same' _ _ _ _ Ej). }
    assert (Ls : s_log s' = s_log s ++ [OAlloc p1 nid (p_virt p0)]).
    { unfold s', s3. sess_cbn. cq. change (p_virt p1) with (p_virt p). rewrite Fvt. reflexivity. }
    assert (Ks : s_stuck s' = s_stuck s) by (unfold s', s3; sess_cbn; cq; reflexivity).
    assert (Ns : s_nodes s' = aput nid n1 (s_nodes s)) by (unfold s', s3; sess_cbn; cq; reflexivity).
    assert (Ps : s_pods s' = aput pid (set_vt p1 true) (s_pods s)).
    { unfold s', s3. sess_cbn. cq. unfold s2, s1, s0. sess_cbn.
      change (p_id (set_vt p1 true)) with (p_id p). change (p_id p1) with (p_id p). change (p_id (set_st p Allocated)) with (p_id p).
      rewrite Fid, !aput_aput. reflexivity. }
    assert (Js : s_jobs s' = aput jid j1 (s_jobs s)) by (unfold s', s3; sess_cbn; cq; reflexivity).
    assert (Qs : s_queues s' = qeff (s_queues s) (j_queue j) (j_nonpreempt j) (p_qc p1)).
    { unfold s', s3. sess_cbn. unfold ev_alloc.
      rewrite (cq_queues _ _ _ j1) by (change (t_job (p_task p1)) with (t_job (p_task p)); rewrite Fjob; exact Ej').
      unfold s2, s1, s0. sess_cbn. rewrite Jq, Jn. reflexivity. }
    exists s'. split; [exact Ef|]. split; [exact Ls|]. split; [exact Ks|].
    clearbody s'. intros a (Rn & Rp & Rj & Rq & Rk).
    rewrite Ns in Rn. rewrite Ps in Rp. rewrite Js in Rj. rewrite Qs in Rq. rewrite Ks in Rk.
    destruct (amap_rel_lookup_some _ _ _ pid _ Rp (alookup_aput_same' _ _ _ _ Gp)) as (pa & Ga & Pa).
    destruct (amap_rel_lookup_some _ _ _ jid _ Rj (alookup_aput_same' _ _ _ _ Ej)) as (ja & Gja & Ja).
    destruct (amap_rel_lookup_some _ _ _ nid _ Rn (alookup_aput_same' _ _ _ _ En)) as (na & Gna & Na).
    assert (Nm : pmasked (set_vt p1 true) = false).
    { unfold pmasked. change (p_status (set_vt p1 true)) with Allocated. cbn. apply andb_false_r. }
    rewrite Hst in *.
    pose proof (prel_unmasked _ _ Pa Nm) as Epa. subst pa.
    destruct (job_update_back j (p_pset p0) (p_jreq p0) Pending Allocated j1 Ej1 Ipos (Inn Allocated)) as (j2 & Ej2 & Jb).
    pose proof (job_update_rel j1 ja (p_pset p0) (p_jreq p0) Allocated Allocated Pending Ja) as Jr. rewrite Ej2 in Jr.
    destruct (job_update ja (p_pset p0) (p_jreq p0) Allocated Allocated Pending) as [ja2|] eqn:Eja2; [|contradiction].
    destruct (Back na Na) as (na' & Era & Rna).
    change (t_id (p_task p1)) with (p_id p) in Era. rewrite Fid in Era.
    assert (Ua : update_status a (set_vt p1 true) Pending =
                 (put_pod (set_jobs a (aput jid ja2 (s_jobs a))) (set_st (set_vt p1 true) Pending), true)).
    { rewrite <- Fjob. change (t_job (p_task p)) with (t_job (p_task (set_vt p1 true))).
      apply (update_status_eq a (set_vt p1 true) Pending ja (set_vt p1 true) ja2).
      - change (t_job (p_task (set_vt p1 true))) with (t_job (p_task p)). rewrite Fjob. exact Gja.
      - change (p_id (set_vt p1 true)) with (p_id p). rewrite Fid. exact Ga.
      - change (p_pset (set_vt p1 true)) with (p_pset p). change (p_jreq (set_vt p1 true)) with (p_jreq p).
        rewrite Fps, Fjr. exact Eja2. }
    pose (pb := at_node_raw p nid).
    assert (Pb : set_vt (set_nd (set_st (set_vt p1 true) Pending) None) (p_virt p0) = pb).
    { transitivity (at_node_raw (pod_with p Pending (p_groups p) None (p_virt p0)) nid); [reflexivity|].
      rewrite (pod_norm p Pending (p_groups p) None (p_virt p0)); [reflexivity|congruence|reflexivity|congruence|congruence]. }
    exists (set_vt p1 true). eexists. split; [exact Ga|]. split.
    { unfold unallocate. rewrite Ua. cbv beta iota.
      change (p_node (set_vt p1 true)) with (Some nid). sess_cbn. rewrite Gna.
      change (p_id (set_vt p1 true)) with (p_id p). rewrite Fid, Era. rewrite Pb. reflexivity. }
    destruct (job_update_static _ _ _ _ _ _ _ Eja2) as (Jq2 & Jn2 & _).
    destruct Ja as (Jqa & Jna & _).
    assert (Ejf : alookup jid (aput jid ja2 (s_jobs a)) = Some ja2) by (apply (alookup_aput_same' _ _ _ _ Gja)).
    split; [|split].
    - split; [|split; [|split; [|split]]]; sess_cbn; cq; sess_cbn.
      + apply (amap_rel_put_back R nid n1 na' (s_nodes s) (s_nodes a) Rn). intros v Ev'. rewrite En in Ev'. injection Ev' as <-. exact Rna.
      + change (p_id (set_st (set_vt p1 true) Pending)) with (p_id p). change (p_id pb) with (p_id p). rewrite Fid, aput_aput.
        apply (amap_rel_put_back prel pid (set_vt p1 true) pb (s_pods s) (s_pods a) Rp). intros v Ev'. unfold get_pod in Gp. rewrite Gp in Ev'. injection Ev' as <-.
        apply prel_stale; [unfold pb, p; destruct gs; reflexivity|]. intros M. destruct Hgs as [[G F]|G].
        * unfold pb, p. rewrite G. exact F.
        * unfold pmasked in M. rewrite G, Hst in M. cbn in M. discriminate.
      + apply (amap_rel_put_back jrel jid j1 ja2 (s_jobs s) (s_jobs a) Rj). intros v Ev'. rewrite Ej in Ev'. injection Ev' as <-.
        eapply jrel_trans; [exact Jb|exact Jr].
      + unfold ev_dealloc. rewrite (cq_queues _ _ _ ja2) by (sess_cbn; change (t_job (p_task pb)) with (t_job (p_task p)); rewrite Fjob; exact Ejf). sess_cbn.
        change (p_qc pb) with (p_qc p1). rewrite <- Rq, Jq2, Jn2, <- Jqa, <- Jna, Jq, Jn. symmetry. apply qeff_back.
      + exact Rk.
    - sess_cbn. cq. reflexivity.
    - sess_cbn. cq. reflexivity.
  Qed.

  (** * Rollback undoes every entry, last first *)

  Lemma unevict_log a p prev nid pg pv : s_log (unevict a p prev nid pg pv) = s_log a.
  Proof.
    unfold unevict. destruct (get_pod a p) as [p0|]; [|reflexivity].
    pose proof (update_status_frame a p0 prev) as (Fl & _ & Fn & _).
    destruct (update_status a p0 prev) as [s1 ok]. cbn [fst] in Fl, Fn.
    destruct (alookup nid (s_nodes s1)) as [n|]; cbv zeta; cq; sess_cbn; [|exact Fl].
    destruct (if amem p (n_pods n) then _ else _); sess_cbn; exact Fl.
  Qed.

  (** the state Rollback works on while undoing index [k-1]: related to the recorded state [s], its
      log is the log at the start of the rollback plus what the rollback appended *)
  Definition Act (L0 : list op) (k : nat) (s a : sess) : Prop :=
    srel s a /\ exists T, s_log a = L0 ++ T /\ tk (length L0) k T.

  Definition Link (P : list op) (i : nat) (si si1 : sess) : Prop :=
    forall L0 a, LogOK L0 -> firstn (S i) L0 = P -> (i < length L0)%nat ->
      Act L0 (S i) si1 a -> exists a', undo_operation a i = (a', true) /\ Act L0 i si a'.

  Lemma Link_pre P i t s s1 : srel t s -> Link P i s s1 -> Link P i t s1.
  Proof.
    intros Ht Lk L0 a OK Pf Lt Ha. destruct (Lk L0 a OK Pf Lt Ha) as (a' & Eu & (Sr & Tl)).
    exists a'. split; [exact Eu|]. split; [eapply srel_trans; eassumption|exact Tl].
  Qed.

  Lemma srel_push s a o : srel s a -> srel s (push a o).
  Proof. intros H. exact H. Qed.

  (** facts about the log of the acting state *)
  Lemma act_entry (L0 T : list op) i P e :
    firstn (S i) L0 = P -> nth_error P i = Some e -> nth_error (L0 ++ T) i = Some e.
  Proof.
    intros Pf Pe. rewrite <- Pf in Pe. rewrite la_nth_firstn in Pe.
    destruct (Nat.ltb i (S i)) eqn:E; [|apply Nat.ltb_ge in E; lia].
    rewrite nth_error_app1; [exact Pe|]. apply nth_error_Some. congruence.
  Qed.
  Lemma act_entry_lt (L0 T : list op) i P k e :
    firstn (S i) L0 = P -> (k <= i)%nat -> nth_error P k = Some e -> nth_error (L0 ++ T) k = Some e.
  Proof.
    intros Pf Le Pe. rewrite <- Pf in Pe. rewrite la_nth_firstn in Pe.
    destruct (Nat.ltb k (S i)) eqn:E; [|apply Nat.ltb_ge in E; lia].
    rewrite nth_error_app1; [exact Pe|]. apply nth_error_Some. congruence.
  Qed.

  Lemma nth_snoc {A} (L : list A) e : nth_error (L ++ [e]) (length L) = Some e.
  Proof. rewrite nth_error_app2 by lia. rewrite Nat.sub_diag. reflexivity. Qed.

  Lemma link_of_evict stk s pid :
    wf_cmd tok stk false s (Evict pid) = true -> releasing_in s pid = false ->
    exists s', evict s pid = (s', true) /\ s_stuck s' = s_stuck s
      /\ (exists a b c d, s_log s' = s_log s ++ [OEvict pid a b c d])
      /\ Link (s_log s') (length (s_log s)) s s'.
  Proof.
    intros W Nr. destruct (link_evict stk s pid W Nr) as (s' & p & nid & Ev & Gp & Ls & Ks & Back).
    exists s'. split; [exact Ev|]. split; [exact Ks|]. split; [do 4 eexists; exact Ls|].
    intros L0 a OK Pf Lt (Sr & T & La & Tk).
    assert (En : nth_error (s_log a) (length (s_log s)) = Some (OEvict pid (p_status p) nid (p_groups p) (p_virt p))).
    { rewrite La. eapply act_entry; [exact Pf|]. rewrite Ls. apply nth_snoc. }
    assert (V : op_valid (s_log a) (length (s_log s)) = Some true).
    { rewrite La. apply valid_during_rollback; [exact OK|exact Lt|apply tk_tail_ok; exact Tk]. }
    eexists. split; [apply (undo_op_evict _ _ _ _ _ _ _ V En)|].
    split; [apply srel_push, Back, Sr|].
    exists (T ++ [] ++ [OUndo (length (s_log s))]). split.
    - cbn [push set_log s_log app]. rewrite unevict_log, La, <- app_assoc. reflexivity.
    - apply tk_step; [exact Lt|exact Tk|intros o []].
  Qed.

  Lemma evicted_facts s p :
    evicted_ok s p = true ->
    p_status p = Releasing /\ p_virt p = true /\ (exists j, Indexed s p j) /\ has_placing (s_log s) (p_id p) = false
    /\ exists i prev nid pg pv n,
         first_valid_evict (s_log s) (s_log s) (p_id p) 0 = Some (Some i)
         /\ nth_error (s_log s) i = Some (OEvict (p_id p) prev nid pg pv) /\ op_valid (s_log s) i = Some true
         /\ active_allocated prev = true /\ p_node p = Some nid
         /\ ((p_groups p = pg /\ at_node_raw p nid = p) \/ is_shared (p_task p) = true)
         /\ alookup nid (s_nodes s) = Some n /\ sorted_keys (n_pods n)
         /\ alookup (p_id p) (n_pods n) = Some (task_with (p_task (at_node_raw p nid)) Releasing pg).
  Proof.
    unfold evicted_ok. intros H.
    apply andb_true_iff in H. destruct H as [H Hm].
    apply andb_true_iff in H. destruct H as [H Hp].
    apply andb_true_iff in H. destruct H as [H Hi].
    apply andb_true_iff in H. destruct H as [Hs Hv].
    apply status_eqb_eq in Hs. apply negb_true_iff in Hp.
    destruct (first_valid_evict (s_log s) (s_log s) (p_id p) 0) as [[i|]|] eqn:Ef; try discriminate.
    destruct (fve_top _ _ _ Ef) as (V & a & b & c & d & En). rewrite En in Hm.
    apply andb_true_iff in Hm. destruct Hm as [Hm Hn].
    apply andb_true_iff in Hm. destruct Hm as [Hm Hg].
    apply andb_true_iff in Hm. destruct Hm as [Ha Hnd].
    destruct (p_node p) as [h|] eqn:Eh; [|discriminate]. apply Pos.eqb_eq in Hnd. subst h.
    destruct (alookup b (s_nodes s)) as [n|] eqn:Enn; [|discriminate].
    apply andb_true_iff in Hn. destruct Hn as [Hsd Hc].
    destruct (alookup (p_id p) (n_pods n)) as [cc|] eqn:Ec; [|discriminate].
    apply task_eqb_eq in Hc. subst cc.
    split; [exact Hs|]. split; [exact Hv|]. split; [apply indexed_facts; exact Hi|]. split; [exact Hp|].
    exists i, a, b, c, d, n. split; [reflexivity|]. split; [exact En|]. split; [exact V|]. split; [exact Ha|].
    split; [reflexivity|]. split.
    { apply orb_true_iff in Hg. destruct Hg as [G|G]; [left|right; exact G].
      apply andb_true_iff in G. destruct G as [G F]. split; [apply list_pos_eqb_eq; exact G|apply fresh_on_eq; exact F]. }
    split; [exact Enn|]. split; [apply sortedb_sorted; exact Hsd|exact Ec].
  Qed.

  Lemma valid_not_undone L i : LogOK L -> (i < length L)%nat -> op_valid L i = Some true -> undone_in L i = false.
  Proof.
    intros OK Lt V. rewrite (valid_persistent L i OK Lt) in V. injection V as V. apply negb_true_iff in V. exact V.
  Qed.

  (** un-evicting pod [p] of state [s1] (first valid evict entry [i]) and its link *)
  Lemma link_of_unevict s1 p i prev nid pg pv n j :
    LogOK (s_log s1) ->
    get_pod s1 (p_id p) = Some p -> tok (p_task p) = true ->
    p_status p = Releasing -> p_virt p = true -> Indexed s1 p j -> active_allocated prev = true ->
    p_node p = Some nid -> ((p_groups p = pg /\ at_node_raw p nid = p) \/ is_shared (p_task p) = true) ->
    alookup nid (s_nodes s1) = Some n -> sorted_keys (n_pods n) ->
    alookup (p_id p) (n_pods n) = Some (task_with (p_task (at_node_raw p nid)) Releasing pg) ->
    nth_error (s_log s1) i = Some (OEvict (p_id p) prev nid pg pv) -> op_valid (s_log s1) i = Some true ->
    let s' := push (unevict s1 (p_id p) prev nid pg pv) (OUndo i) in
    s_stuck s' = s_stuck s1 /\ s_log s' = s_log s1 ++ [OUndo i] /\ LogOK (s_log s')
    /\ Link (s_log s') (length (s_log s1)) s1 s'.
  Proof.
    intros OK Gp Tk St Vt Ij Act Epn Gor En Srt Cp Ent V s'.
    destruct (link_unevict s1 (p_id p) p j prev nid pg pv n Gp eq_refl Tk St Vt Ij Act Epn Gor En Srt Cp) as (Ll & Kk & Back).
    assert (Ls : s_log s' = s_log s1 ++ [OUndo i]) by (unfold s'; cbn [push set_log s_log]; rewrite Ll; reflexivity).
    assert (Li : (i < length (s_log s1))%nat) by (apply nth_error_Some; congruence).
    split; [exact Kk|]. split; [exact Ls|]. split.
    { rewrite Ls. eapply LogOK_app_undo; [exact OK|exact Ent|]. apply valid_not_undone; assumption. }
    intros L0 a OK0 Pf Lt (Sr & T & La & Tkk).
    assert (Eu : nth_error (s_log a) (length (s_log s1)) = Some (OUndo i)).
    { rewrite La. eapply act_entry; [exact Pf|]. rewrite Ls. apply nth_snoc. }
    assert (Ek : nth_error (s_log a) i = Some (OEvict (p_id p) prev nid pg pv)).
    { rewrite La. eapply act_entry_lt; [exact Pf|lia|]. rewrite Ls. rewrite nth_error_app1 by exact Li. exact Ent. }
    assert (Va : op_valid (s_log a) (length (s_log s1)) = Some true).
    { rewrite La. apply valid_during_rollback; [exact OK0|exact Lt|apply tk_tail_ok; exact Tkk]. }
    destruct (Back a Sr) as (a' & Ev & Sr' & Ka & e & Lae & He).
    eexists. split; [apply (undo_op_undo_evict _ _ _ _ _ _ _ _ _ Va Eu Ek Ev)|].
    split; [apply srel_push; exact Sr'|].
    exists (T ++ [e] ++ [OUndo (length (s_log s1))]). split.
    - cbn [push set_log s_log]. rewrite Lae, La, <- !app_assoc. reflexivity.
    - apply tk_step; [exact Lt|exact Tkk|]. intros o [<-|[]]. exact He.
  Qed.

  Lemma shared_gs_or p gs : shared_gs p gs = true -> gs = None \/ is_shared (p_task p) = true.
  Proof. unfold shared_gs. destruct gs; [intros H; apply andb_true_iff in H; right; apply H|left; reflexivity]. Qed.

  Lemma hgs_of p gs nid :
    shared_gs p gs = true -> (is_shared (p_task p) || fresh_on p nid) = true ->
    (gs = None /\ at_node_raw p nid = p) \/ is_shared (p_task p) = true.
  Proof.
    intros Hs Hf. destruct (is_shared (p_task p)) eqn:E; [right; reflexivity|]. left.
    cbn [orb] in Hf. split; [|apply fresh_on_eq; exact Hf].
    unfold shared_gs in Hs. rewrite E in Hs. destruct gs; [discriminate|reflexivity].
  Qed.

  Lemma srel_put_pods s x p' p0 :
    alookup (p_id p') (s_pods s) = Some p0 -> p_id x = p_id p' -> prel p0 p' -> srel s (put_pod (put_pod s x) p').
  Proof.
    intros G Ex Pr. split; [|split; [|split; [|split]]]; sess_cbn; try reflexivity.
    - apply amap_rel_refl. exact R_refl.
    - rewrite Ex, aput_aput. unfold aput. apply amap_rel_aupd_r; [apply amap_rel_refl; exact prel_refl|].
      intros v v' Hv Hv' _. rewrite G in Hv. injection Hv as <-. exact Pr.
    - apply amap_rel_refl. exact jrel_refl.
  Qed.

  (** ** Frames: a command on pod [pid] leaves the other pods of the session alone *)
  Definition PF (pid : positive) (a b : sess) : Prop :=
    forall k, k <> pid -> alookup k (s_pods a) = alookup k (s_pods b).

  Lemma pf_refl pid a : PF pid a a.
  Proof. intros k _. reflexivity. Qed.
  Lemma pf_trans pid a b c : PF pid a b -> PF pid b c -> PF pid a c.
  Proof. intros H1 H2 k Hk. rewrite (H1 k Hk). apply H2. exact Hk. Qed.
  Lemma pf_pods pid a b : s_pods a = s_pods b -> PF pid a b.
  Proof. intros E k _. rewrite E. reflexivity. Qed.
  Lemma pf_put_pod pid a x : p_id x = pid -> PF pid (put_pod a x) a.
  Proof. intros E k Hk. unfold put_pod. cbn [s_pods set_podsm]. rewrite E. apply alookup_aput_other. exact Hk. Qed.
  Lemma pf_releasing pid a b k : PF pid a b -> k <> pid -> releasing_in a k = releasing_in b k.
  Proof. intros H Hk. unfold releasing_in, get_pod. rewrite (H k Hk). reflexivity. Qed.

  Lemma pid_at_node p n : p_id (at_node p n) = p_id p.
  Proof. unfold at_node. destruct (active_used _); reflexivity. Qed.

  Lemma pf_update_status pid a obj new : p_id obj = pid -> PF pid (fst (update_status a obj new)) a.
  Proof.
    intros E. unfold update_status. destruct (alookup (t_job (p_task obj)) (s_jobs a)) as [j|]; [|apply pf_refl].
    destruct (alookup (p_id obj) (s_pods a)) as [cur|]; [|apply pf_refl].
    destruct (job_update _ _ _ _ _ _) as [j'|]; [|apply pf_refl].
    cbn [fst]. eapply pf_trans; [apply pf_put_pod; exact E|apply pf_pods; reflexivity].
  Qed.

  Lemma pf_evict pid a : (forall p, get_pod a pid = Some p -> p_id p = pid) -> PF pid (fst (evict a pid)) a.
  Proof.
    intros K. unfold evict. destruct (get_pod a pid) as [p|] eqn:G; [|apply pf_refl].
    pose proof (K p eq_refl) as E.
    destruct (alookup (t_job (p_task p)) (s_jobs a)); [|apply pf_refl].
    destruct (p_node p) as [nid|]; [|apply pf_refl].
    destruct (alookup nid (s_nodes a)) as [n|]; [|apply pf_refl].
    destruct (status_eqb (p_status p) Releasing); [apply pf_refl|].
    unfold evict_on. pose proof (pf_update_status pid a p Releasing E) as U.
    destruct (update_status a p Releasing) as [s1 ok]. cbn [fst] in U. destruct ok; cbn [negb]; [|apply pf_refl].
    destruct (update_task n _) as [n'|]; cbn [fst]; [|exact U].
    eapply pf_trans; [apply pf_put_pod; change (p_id (at_node (set_st p Releasing) nid) = pid); rewrite pid_at_node; exact E|].
    eapply pf_trans; [|exact U]. apply pf_pods. sess_cbn. cq. reflexivity.
  Qed.

  Lemma pf_unevict pid a prev nid pg pv :
    (forall p, get_pod a pid = Some p -> p_id p = pid) -> PF pid (unevict a pid prev nid pg pv) a.
  Proof.
    intros K. unfold unevict. destruct (get_pod a pid) as [p|] eqn:G; [|apply pf_refl].
    pose proof (K p eq_refl) as E.
    pose proof (pf_update_status pid a p prev E) as U.
    destruct (update_status a p prev) as [s1 ok]. cbn [fst] in U.
    set (p0 := pod_with (if ok then set_st p prev else p) (if ok then prev else p_status p) pg (p_node p) pv).
    assert (E0 : p_id p0 = pid) by (unfold p0; destruct ok; exact E).
    destruct (alookup nid (s_nodes s1)) as [n|]; cbv zeta.
    - assert (E1 : p_id (at_node p0 nid) = pid) by (rewrite pid_at_node; exact E0).
      eapply pf_trans; [|exact U]. eapply pf_trans; [|apply pf_put_pod; exact E1].
      apply pf_pods. cq. destruct (if amem pid (n_pods n) then _ else _); reflexivity.
    - eapply pf_trans; [|exact U]. eapply pf_trans; [|apply pf_put_pod; exact E0]. apply pf_pods. cq. reflexivity.
  Qed.

  Lemma pf_pipeline_body pid s0 p nid n on move : p_id p = pid -> PF pid (fst (pipeline_body s0 p nid n on move)) s0.
  Proof.
    intros E. unfold pipeline_body. pose proof (pf_update_status pid s0 p Pipelined E) as U.
    destruct (update_status s0 p Pipelined) as [s1 ok]. cbn [fst] in U.
    set (p1 := at_node (set_nd (if ok then set_st p Pipelined else p) (Some nid)) nid).
    assert (E1 : p_id p1 = pid) by (unfold p1; rewrite pid_at_node; destruct ok; exact E).
    assert (U2 : PF pid (put_pod s1 p1) s0) by (eapply pf_trans; [apply pf_put_pod; exact E1|exact U]).
    match goal with |- context [match ?r with Err => _ | Ok n' => _ end] => destruct r as [n'|] end; cbn [fst]; [|exact U2].
    eapply pf_trans; [apply pf_put_pod; exact E1|]. eapply pf_trans; [|exact U2]. apply pf_pods. sess_cbn. cq. reflexivity.
  Qed.

  Lemma pf_allocate pid a nid gs :
    (forall p, get_pod a pid = Some p -> p_id p = pid) -> PF pid (fst (allocate a pid nid gs)) a.
  Proof.
    intros K. unfold allocate. destruct (get_pod a pid) as [p0|] eqn:G; [|apply pf_refl].
    pose proof (K p0 eq_refl) as E0.
    set (p := match gs with Some g => set_gs p0 g | None => p0 end).
    assert (E : p_id p = pid) by (unfold p; destruct gs; exact E0).
    assert (U0 : PF pid (put_pod a p) a) by (apply pf_put_pod; exact E).
    pose proof (pf_update_status pid (put_pod a p) p Allocated E) as U.
    destruct (update_status (put_pod a p) p Allocated) as [s1 ok]. cbn [fst] in U.
    destruct ok; cbn [negb fst]; [|exact U0].
    set (p1 := at_node (set_nd (set_st p Allocated) (Some nid)) nid).
    assert (E1 : p_id p1 = pid) by (unfold p1; rewrite pid_at_node; exact E).
    assert (U2 : PF pid (put_pod s1 p1) a).
    { eapply pf_trans; [apply pf_put_pod; exact E1|]. eapply pf_trans; [exact U|exact U0]. }
    match goal with |- context [alookup nid ?m] => destruct (alookup nid m) as [n|] end; cbn [fst]; [|exact U2].
    destruct (add_task n _) as [n'|]; cbn [fst]; [|exact U2].
    eapply pf_trans; [apply pf_put_pod; exact E1|]. eapply pf_trans; [|exact U2]. apply pf_pods. sess_cbn. cq. reflexivity.
  Qed.

  (** an Evict that returned nil leaves the pod Releasing *)
  Lemma evict_makes_releasing a pid p a' :
    get_pod a pid = Some p -> p_id p = pid -> evict a pid = (a', true) -> releasing_in a' pid = true.
  Proof.
    intros G E. unfold evict. rewrite G.
    destruct (alookup (t_job (p_task p)) (s_jobs a)) as [j0|] eqn:Ej0; [|discriminate].
    destruct (p_node p) as [nid|]; [|discriminate].
    destruct (alookup nid (s_nodes a)) as [n|]; [|discriminate].
    destruct (status_eqb (p_status p) Releasing) eqn:St.
    { intros H. injection H as <-. rewrite (releasing_in_eq _ _ _ G). exact St. }
    unfold evict_on. destruct (update_status a p Releasing) as [s1 ok] eqn:Eu. destruct ok; cbn [negb]; [|discriminate].
    destruct (update_task n _) as [n'|]; [|discriminate].
    intros H. injection H as <-. unfold releasing_in, get_pod. sess_cbn.
    change (p_id (set_vt (at_node (set_st p Releasing) nid) true)) with (p_id (at_node (set_st p Releasing) nid)).
    rewrite pid_at_node. change (p_id (set_st p Releasing)) with (p_id p). rewrite E.
    unfold aput. rewrite alookup_aupd_same. cq.
    (* the key is there: update_status put the pod under it *)
    unfold update_status in Eu. rewrite Ej0, E in Eu. unfold get_pod in G. rewrite G in Eu.
    destruct (job_update _ _ _ _ _ _) as [j'|]; [|discriminate]. injection Eu as <-. sess_cbn.
    change (p_id (set_st p Releasing)) with (p_id p). rewrite E. unfold aput. rewrite alookup_aupd_same, G. reflexivity.
  Qed.

  Definition log_cmd (c : cmd) : bool :=
    match c with Evict _ | Pipeline _ _ _ _ | Allocate _ _ _ | Unevict _ => true | _ => false end.

  Definition entry_for (c : cmd) (e : op) : Prop :=
    match c, e with
    | Evict pid, OEvict p _ _ _ _ => p = pid
    | Pipeline pid _ _ _, OPipe p _ _ _ _ _ _ => p = pid
    | Pipeline _ _ _ _, OUndo _ => True
    | Allocate pid _ _, OAlloc c _ _ => p_id c = pid
    | Unevict _, OUndo _ => True
    | _, _ => False
    end.

  (** what a recorded command does to the pods: only its own pod changes; an Evict leaves it
      Releasing; an undo entry (Unevict, Pipeline onto the pod's own node and devices) targets a
      valid evict entry of the command's pod *)
  Definition frame_for (c : cmd) (s s' : sess) (e : op) : Prop :=
    PF (cpod c) s' s
    /\ match c with Evict pid => releasing_in s' pid = true | _ => True end
    /\ match e with
       | OUndo i0 => exists a b c0 d, nth_error (s_log s) i0 = Some (OEvict (cpod c) a b c0 d)
                                     /\ op_valid (s_log s) i0 = Some true
       | _ => True
       end.

  Lemma frame_body s s0 s' p pid nid n on move c e :
    p_id p = pid -> PF pid s0 s -> pipeline_body s0 p nid n on move = (s', true) ->
    match c with Evict _ => False | _ => cpod c = pid end -> match e with OUndo _ => False | _ => True end ->
    frame_for c s s' e.
  Proof.
    intros E U0 Ef Hc He. pose proof (pf_pipeline_body pid s0 p nid n on move E) as U. rewrite Ef in U. cbn [fst] in U.
    split; [|split].
    - replace (cpod c) with pid by (destruct c; try contradiction; symmetry; exact Hc). eapply pf_trans; eassumption.
    - destruct c; try exact I. contradiction.
    - destruct e; try exact I. contradiction.
  Qed.

  Lemma frame_unevict s s1 pid p1 prev nid pg pv i c :
    PF pid s1 s -> get_pod s1 pid = Some p1 -> p_id p1 = pid -> s_log s1 = s_log s ->
    nth_error (s_log s) i = Some (OEvict pid prev nid pg pv) -> op_valid (s_log s) i = Some true ->
    match c with Evict _ => False | _ => cpod c = pid end ->
    frame_for c s (push (unevict s1 pid prev nid pg pv) (OUndo i)) (OUndo i).
  Proof.
    intros U0 G E Ls Ent V Hc.
    assert (Ec : cpod c = pid) by (destruct c; try contradiction; exact Hc).
    split; [|split].
    - rewrite Ec. eapply pf_trans; [|exact U0]. eapply pf_trans; [apply pf_pods; reflexivity|].
      apply pf_unevict. intros q Hq. rewrite G in Hq. injection Hq as <-. exact E.
    - destruct c; try exact I. contradiction.
    - rewrite Ec. do 4 eexists. split; [exact Ent|exact V].
  Qed.

  Lemma cmd_link fails stk s c :
    log_cmd c = true -> noop_cmd s c = false -> wf_cmd tok stk false s c = true -> LogOK (s_log s) -> s_stuck s = false ->
    exists s' e, step_full fails s c = (s', [], true) /\ s_stuck s' = false /\ s_log s' = s_log s ++ [e]
      /\ entry_for c e /\ LogOK (s_log s') /\ Link (s_log s') (length (s_log s)) s s' /\ frame_for c s s' e.
  Proof.
    intros Lc Nr W OK Ks. unfold step_full. rewrite Ks.
    destruct c as [pid|pid nid gs upd|pid nid gs|pid| | | | |]; try discriminate.
    - (* Evict *)
      cbn [noop_cmd] in Nr.
      destruct (link_of_evict stk s pid W Nr) as (s' & Ev & Kk & (ea & eb & ec & ed & Le) & Lk).
      destruct (wf_evict_facts _ _ _ W Nr) as (p & _ & _ & _ & Gp & Eid & _).
      exists s'. eexists. rewrite Ev. split; [reflexivity|]. split; [congruence|]. split; [exact Le|]. split; [reflexivity|].
      split; [rewrite Le; apply LogOK_app_prim; [exact OK|exact I]|]. split; [exact Lk|].
      split; [|split; [|exact I]].
      + pose proof (pf_evict pid s) as U. rewrite Ev in U. apply U. intros q Hq. rewrite Gp in Hq. injection Hq as <-. exact Eid.
      + exact (evict_makes_releasing _ _ _ _ Gp Eid Ev).
    - (* Pipeline *)
      unfold wf_cmd in W. cbn [negb andb] in W.
      destruct (get_pod s pid) as [p0|] eqn:Gp; [|discriminate].
      destruct (alookup nid (s_nodes s)) as [n|] eqn:En; [|discriminate].
      apply andb_true_iff in W. destruct W as [W Wst].
      apply andb_true_iff in W. destruct W as [W Wsd].
      apply andb_true_iff in W. destruct W as [W Wpl].
      apply andb_true_iff in W. destruct W as [W Wgs].
      apply andb_true_iff in W. destruct W as [Wid Wtk].
      apply andb_true_iff in Wsd. destruct Wsd as [Wsd Wfr].
      apply Pos.eqb_eq in Wid. apply sortedb_sorted in Wsd.
      pose proof (hgs_of _ _ _ Wgs Wfr) as Hgs.
      destruct (status_eqb (p_status p0) Pending) eqn:Est.
      + (* a Pending pod *)
        apply status_eqb_eq in Est.
        apply andb_true_iff in Wst. destruct Wst as [Wst Wnd].
        apply andb_true_iff in Wst. destruct Wst as [Wix Wam]. apply negb_true_iff in Wam.
        destruct (indexed_facts _ _ Wix) as [j Ij]. pose proof Ij as (Ej & _).
        rewrite (pipeline_eq s pid nid gs upd p0 j n Gp Ej En). cbv zeta.
        rewrite (amem_false_alookup _ _ Wam).
        destruct (link_pipe_add s pid p0 gs nid n j Gp Wid Wtk Ij (or_introl Est) Hgs En Wam) as (s' & Ef & Ls & Kk & Back).
        exists s'. eexists. rewrite Ef. split; [reflexivity|]. split; [congruence|]. split; [exact Ls|]. split; [reflexivity|].
        split; [rewrite Ls; apply LogOK_app_prim; [exact OK|exact I]|].
        split; [|eapply (frame_body s _ s' _ pid); [|apply pf_put_pod| exact Ef|reflexivity|exact I]; destruct gs; exact Wid].
        intros L0 a OK0 Pf Lt (Sr & T & La & Tkk).
        assert (Een : nth_error (s_log a) (length (s_log s)) = Some (OPipe pid (p_status p0) (p_node p0) (p_groups match gs with Some g => set_gs p0 g | None => p0 end) (p_virt p0) nid false)).
        { rewrite La. eapply act_entry; [exact Pf|]. rewrite Ls. apply nth_snoc. }
        assert (Va : op_valid (s_log a) (length (s_log s)) = Some true).
        { rewrite La. apply valid_during_rollback; [exact OK0|exact Lt|apply tk_tail_ok; exact Tkk]. }
        destruct (Back a Sr) as (a' & Eu & Sr' & Lae & Kae).
        eexists. split; [apply (undo_op_pipe _ _ _ _ _ _ _ _ _ _ Va Een Eu)|].
        split; [apply srel_push; exact Sr'|].
        exists (T ++ [] ++ [OUndo (length (s_log s))]). split.
        * cbn [push set_log s_log app]. rewrite Lae, La, <- app_assoc. reflexivity.
        * apply tk_step; [exact Lt|exact Tkk|intros o []].
      + (* a pod evicted by this statement *)
        apply andb_true_iff in Wst. destruct Wst as [Wst Wcp].
        apply andb_true_iff in Wst. destruct Wst as [Wev Wup]. apply negb_true_iff in Wup. subst upd.
        destruct (evicted_facts _ _ Wev) as (St & Vt & (j & Ij) & _ & i & prev & nid0 & pg & pv & n0 & Ef & Ent & V & Act & Epn & Gor & En0 & Srt0 & Cp0).
        rewrite Wid in *. pose proof Ij as (Ej & _).
        rewrite (pipeline_eq s pid nid gs false p0 j n Gp Ej En). cbv zeta.
        destruct (alookup pid (n_pods n)) as [c|] eqn:Ec.
        * (* the target node holds the evicted copy: it is the pod's node *)
          rewrite Epn in Wcp. apply Pos.eqb_eq in Wcp. subst nid0. rewrite En in En0. injection En0 as <-.
          rewrite Ec in Cp0. injection Cp0 as Hc.
          set (p := match gs with Some g => set_gs p0 g | None => p0 end).
          destruct (negb (Nat.eqb (length (p_groups p)) 0) && is_shared (p_task p) && negb (list_pos_eqb (p_groups p) (t_groups c))) eqn:Emv.
          -- (* move to other devices *)
             cbn [negb andb].
             assert (Hsh : is_shared (p_task p0) = true).
             { apply andb_true_iff in Emv. destruct Emv as [Emv _]. apply andb_true_iff in Emv. destruct Emv as [_ X].
               unfold p in X. destruct gs; exact X. }
             destruct gs as [g|].
             2:{ unfold shared_gs in Wgs. rewrite Hsh in Wgs. discriminate. }
             assert (Hc' : c = task_with (p_task (at_node_raw p0 nid)) Releasing (t_groups c)) by (rewrite Hc; reflexivity).
             destruct (link_pipe_move s pid p0 g nid n j c Gp Wid Wtk Ij St Vt Hsh En Wsd Ec Hc') as (s' & Efw & Ls & Kk & Back).
             exists s'. eexists. unfold p. rewrite Efw. split; [reflexivity|]. split; [congruence|]. split; [exact Ls|]. split; [reflexivity|].
             split; [rewrite Ls; apply LogOK_app_prim; [exact OK|exact I]|].
             split; [|eapply (frame_body s _ s' _ pid); [|apply pf_put_pod|exact Efw|reflexivity|exact I]; exact Wid].
             intros L0 a OK0 Pf Lt (Sr & T & La & Tkk).
             assert (Een : nth_error (s_log a) (length (s_log s)) = Some (OPipe pid (p_status p0) (p_node p0) (t_groups c) (p_virt p0) nid true)).
             { rewrite La. eapply act_entry; [exact Pf|]. rewrite Ls. apply nth_snoc. }
             assert (Va : op_valid (s_log a) (length (s_log s)) = Some true).
             { rewrite La. apply valid_during_rollback; [exact OK0|exact Lt|apply tk_tail_ok; exact Tkk]. }
             destruct (Back a Sr) as (a' & Eu & Sr' & Lae & Kae).
             eexists. split; [apply (undo_op_pipe _ _ _ _ _ _ _ _ _ _ Va Een Eu)|].
             split; [apply srel_push; exact Sr'|].
             exists (T ++ [] ++ [OUndo (length (s_log s))]). split.
             ++ cbn [push set_log s_log app]. rewrite Lae, La, <- app_assoc. reflexivity.
             ++ apply tk_step; [exact Lt|exact Tkk|intros o []].
          -- (* same devices: un-evict *)
             cbn [negb andb].
             set (p1 := set_gs p (t_groups c)).
             set (s1 := put_pod (put_pod s p) p1).
             assert (Tg : t_groups c = pg) by (rewrite Hc; reflexivity).
             assert (P1 : p1 = set_gs p0 pg) by (unfold p1, p; rewrite Tg; destruct gs; reflexivity).
             assert (Id1 : p_id p1 = pid) by (rewrite P1; exact Wid).
             assert (Ls1 : s_log s1 = s_log s) by reflexivity.
             rewrite Ls1, Ef.
             assert (Pr : prel p0 p1).
             { rewrite P1. apply prel_groups. intros M. destruct Gor as [[G _]|G]; [symmetry; exact G|].
               unfold pmasked in M. rewrite G, St, Vt in M. cbn in M. discriminate. }
             assert (Sr1 : srel s s1).
             { unfold s1. apply srel_put_pods with (p0 := p0); [rewrite Id1; exact Gp|unfold p, p1; destruct gs; reflexivity|exact Pr]. }
             assert (G1 : get_pod s1 (p_id p1) = Some p1).
             { unfold get_pod, s1. sess_cbn. rewrite Id1.
               assert (X : p_id p = pid) by (unfold p; destruct gs; exact Wid). rewrite X, aput_aput.
               apply (alookup_aput_same' _ _ _ _ Gp). }
             change (3 + length (s_log s))%nat with (S (2 + length (s_log s))).
             rewrite (exec_undo_evict _ s1 i pid prev nid pg pv) by (rewrite Ls1; assumption).
             assert (A1 : LogOK (s_log s1)) by (rewrite Ls1; exact OK).
             assert (A2 : tok (p_task p1) = true) by (rewrite P1; unfold set_gs, pod_with; cbn [p_task]; rewrite tok_with; exact Wtk).
             assert (A3 : p_status p1 = Releasing) by (rewrite P1; exact St).
             assert (A4 : p_virt p1 = true) by (rewrite P1; exact Vt).
             assert (A5 : Indexed s1 p1 j) by (rewrite P1; exact Ij).
             assert (A6 : p_node p1 = Some nid) by (rewrite P1; exact Epn).
             assert (A7 : (p_groups p1 = pg /\ at_node_raw p1 nid = p1) \/ is_shared (p_task p1) = true).
             { destruct Gor as [[G F]|G]; [left|right; rewrite P1; exact G].
               rewrite P1. split; [reflexivity|]. rewrite <- G. unfold set_gs. rewrite pod_with_same. exact F. }
             assert (A8 : alookup nid (s_nodes s1) = Some n) by exact En.
             assert (A9 : alookup (p_id p1) (n_pods n) = Some (task_with (p_task (at_node_raw p1 nid)) Releasing pg)).
             { rewrite Id1, P1, Ec, Hc. reflexivity. }
             assert (A10 : nth_error (s_log s1) i = Some (OEvict (p_id p1) prev nid pg pv)) by (rewrite Ls1, Id1; exact Ent).
             assert (A11 : op_valid (s_log s1) i = Some true) by (rewrite Ls1; exact V).
             destruct (link_of_unevict s1 p1 i prev nid pg pv n j A1 G1 A2 A3 A4 A5 Act A6 A7 A8 Wsd A9 A10 A11) as (Kk & Ls & OKs & Lk).
             rewrite Id1 in *. exists (push (unevict s1 pid prev nid pg pv) (OUndo i)). eexists.
             split; [reflexivity|]. split; [rewrite Kk; exact Ks|]. split; [exact Ls|]. split; [exact I|]. split; [exact OKs|].
             split; [eapply Link_pre; [exact Sr1|exact Lk]|].
             apply (frame_unevict s s1 pid p1); [|exact G1|exact Id1|exact Ls1|exact Ent|exact V|reflexivity].
             unfold s1. eapply pf_trans; apply pf_put_pod; [exact Id1|unfold p; destruct gs; exact Wid].
        * (* another node *)
          assert (Wam : amem pid (n_pods n) = false) by (unfold amem; rewrite Ec; reflexivity).
          destruct (link_pipe_add s pid p0 gs nid n j Gp Wid Wtk Ij (or_intror (conj St Vt)) Hgs En Wam) as (s' & Efw & Ls & Kk & Back).
          exists s'. eexists. rewrite Efw. split; [reflexivity|]. split; [congruence|]. split; [exact Ls|]. split; [reflexivity|].
          split; [rewrite Ls; apply LogOK_app_prim; [exact OK|exact I]|].
          split; [|eapply (frame_body s _ s' _ pid); [|apply pf_put_pod|exact Efw|reflexivity|exact I]; destruct gs; exact Wid].
          intros L0 a OK0 Pf Lt (Sr & T & La & Tkk).
          assert (Een : nth_error (s_log a) (length (s_log s)) = Some (OPipe pid (p_status p0) (p_node p0) (p_groups match gs with Some g => set_gs p0 g | None => p0 end) (p_virt p0) nid false)).
          { rewrite La. eapply act_entry; [exact Pf|]. rewrite Ls. apply nth_snoc. }
          assert (Va : op_valid (s_log a) (length (s_log s)) = Some true).
          { rewrite La. apply valid_during_rollback; [exact OK0|exact Lt|apply tk_tail_ok; exact Tkk]. }
          destruct (Back a Sr) as (a' & Eu & Sr' & Lae & Kae).
          eexists. split; [apply (undo_op_pipe _ _ _ _ _ _ _ _ _ _ Va Een Eu)|].
          split; [apply srel_push; exact Sr'|].
          exists (T ++ [] ++ [OUndo (length (s_log s))]). split.
          -- cbn [push set_log s_log app]. rewrite Lae, La, <- app_assoc. reflexivity.
          -- apply tk_step; [exact Lt|exact Tkk|intros o []].
    - (* Allocate *)
      unfold wf_cmd in W. cbn [negb andb] in W.
      destruct (get_pod s pid) as [p0|] eqn:Gp; [|discriminate].
      destruct (alookup nid (s_nodes s)) as [n|] eqn:En; [|discriminate].
      apply andb_true_iff in W. destruct W as [W Wnd].
      apply andb_true_iff in W. destruct W as [W Wam]. apply negb_true_iff in Wam.
      apply andb_true_iff in W. destruct W as [W Wix].
      apply andb_true_iff in W. destruct W as [W Wst]. apply status_eqb_eq in Wst.
      apply andb_true_iff in W. destruct W as [W Wsd].
      apply andb_true_iff in W. destruct W as [W Wpl].
      apply andb_true_iff in W. destruct W as [W Wgs].
      apply andb_true_iff in W. destruct W as [Wid Wtk].
      apply Pos.eqb_eq in Wid.
      apply andb_true_iff in Wsd. destruct Wsd as [Wsd Wfr].
      destruct (p_node p0) eqn:Epn; [discriminate|].
      destruct (indexed_facts _ _ Wix) as [j Ij].
      destruct (link_alloc s pid p0 gs nid n j Gp Wid Wtk Ij Wst Epn (hgs_of _ _ _ Wgs Wfr) En Wam) as (s' & Efw & Ls & Kk & Back).
      exists s'. eexists. rewrite Efw. split; [reflexivity|]. split; [congruence|]. split; [exact Ls|].
      split; [cbn [entry_for]; destruct gs; exact Wid|].
      split; [rewrite Ls; apply LogOK_app_prim; [exact OK|exact I]|].
      split.
      2:{ split; [|split; exact I]. pose proof (pf_allocate pid s nid gs) as U. rewrite Efw in U. apply U.
          intros q Hq. rewrite Gp in Hq. injection Hq as <-. exact Wid. }
      intros L0 a OK0 Pf Lt (Sr & T & La & Tkk).
      set (cl := at_node_raw (set_nd (set_st match gs with Some g => set_gs p0 g | None => p0 end Allocated) (Some nid)) nid) in *.
      assert (Een : nth_error (s_log a) (length (s_log s)) = Some (OAlloc cl nid (p_virt p0))).
      { rewrite La. eapply act_entry; [exact Pf|]. rewrite Ls. apply nth_snoc. }
      assert (Va : op_valid (s_log a) (length (s_log s)) = Some true).
      { rewrite La. apply valid_during_rollback; [exact OK0|exact Lt|apply tk_tail_ok; exact Tkk]. }
      destruct (Back a Sr) as (cur & a' & Gc & Eu & Sr' & Lae & Kae).
      assert (Icl : p_id cl = pid) by (unfold cl; destruct gs; exact Wid).
      rewrite <- Icl in Gc.
      eexists. split; [apply (undo_op_alloc _ _ _ _ _ _ _ Va Een Gc Eu)|].
      split; [apply srel_push; exact Sr'|].
      exists (T ++ [] ++ [OUndo (length (s_log s))]). split.
      + cbn [push set_log s_log app]. rewrite Lae, La, <- app_assoc. reflexivity.
      + apply tk_step; [exact Lt|exact Tkk|intros o []].
    - (* Unevict *)
      unfold wf_cmd in W. cbn [negb andb] in W.
      destruct (get_pod s pid) as [p|] eqn:Gp; [|discriminate].
      apply andb_true_iff in W. destruct W as [W Wev].
      apply andb_true_iff in W. destruct W as [Wid Wtk]. apply Pos.eqb_eq in Wid.
      destruct (evicted_facts _ _ Wev) as (St & Vt & (j & Ij) & _ & i & prev & nid0 & pg & pv & n0 & Ef & Ent & V & Act & Epn & Gor & En0 & Srt0 & Cp0).
      rewrite Wid in *.
      unfold unevict_cmd. rewrite Ef. rewrite (undo_op_evict _ _ _ _ _ _ _ V Ent).
      rewrite <- Wid in Gp, Cp0, Ent.
      destruct (link_of_unevict s p i prev nid0 pg pv n0 j OK Gp Wtk St Vt Ij Act Epn Gor En0 Srt0 Cp0 Ent V) as (Kk & Ls & OKs & Lk).
      rewrite Wid in *.
      exists (push (unevict s pid prev nid0 pg pv) (OUndo i)). eexists.
      split; [reflexivity|]. split; [rewrite Kk; exact Ks|]. split; [exact Ls|]. split; [exact I|]. split; [exact OKs|]. split; [exact Lk|].
      apply (frame_unevict s s pid p); [apply pf_refl|exact Gp|exact Wid|reflexivity|exact Ent|exact V|reflexivity].
  Qed.

  (** * The recorded states: one per log length *)
  Definition Hist (s : sess) (hist : list sess) : Prop :=
    length hist = S (length (s_log s)) /\ LogOK (s_log s) /\ s_stuck s = false
    /\ Forall (fun h => s_stuck h = false) hist
    /\ (forall i si si1, nth_error hist i = Some si -> nth_error hist (S i) = Some si1 ->
         Link (firstn (S i) (s_log s)) i si si1)
    /\ (forall top, nth_error hist (length (s_log s)) = Some top -> srel top s).

  Lemma Hist_init s : s_log s = [] -> s_stuck s = false -> Hist s [s].
  Proof.
    intros L K. unfold Hist. rewrite L. cbn [length].
    split; [reflexivity|]. split; [apply LogOK_nil|]. split; [exact K|]. split; [constructor; [exact K|constructor]|].
    split.
    - intros i si si1 _ H. destruct i; cbn in H; discriminate.
    - intros top H. cbn in H. injection H as <-. apply srel_refl.
  Qed.

  Lemma Hist_push s hist s' e :
    Hist s hist -> s_stuck s' = false -> s_log s' = s_log s ++ [e] -> LogOK (s_log s') ->
    Link (s_log s') (length (s_log s)) s s' -> Hist s' (hist ++ [s']).
  Proof.
    intros (Hl & OK & Ks & Fk & Lk & Tp) Ks' Ls OK' Lnew.
    assert (Ln : length (s_log s') = S (length (s_log s))) by (rewrite Ls, app_length; cbn; lia).
    unfold Hist. split; [rewrite app_length, Hl, Ln; cbn; lia|]. split; [exact OK'|]. split; [exact Ks'|].
    split; [apply Forall_app; split; [exact Fk|constructor; [exact Ks'|constructor]]|]. split.
    - intros i si si1 Hi Hi1.
      destruct (Nat.lt_ge_cases (S i) (length hist)) as [Lt|Ge].
      + rewrite nth_error_app1 in Hi by lia. rewrite nth_error_app1 in Hi1 by lia.
        rewrite Ls, firstn_app. replace (S i - length (s_log s))%nat with 0%nat by lia.
        cbn [firstn]. rewrite app_nil_r. apply (Lk i si si1 Hi Hi1).
      + assert (Ei : i = length (s_log s)).
        { assert (S i < length (hist ++ [s']))%nat by (apply nth_error_Some; congruence).
          rewrite app_length in H. cbn in H. lia. }
        subst i. rewrite nth_error_app1 in Hi by lia.
        rewrite nth_error_app2 in Hi1 by lia. replace (S (length (s_log s)) - length hist)%nat with 0%nat in Hi1 by lia.
        cbn in Hi1. injection Hi1 as <-.
        rewrite <- Ln, firstn_all. eapply Link_pre; [apply Tp; exact Hi|exact Lnew].
    - intros top Ht. rewrite Ln in Ht. rewrite nth_error_app2 in Ht by lia.
      replace (S (length (s_log s)) - length hist)%nat with 0%nat in Ht by lia. cbn in Ht. injection Ht as <-. apply srel_refl.
  Qed.

  Lemma undo_down_act L0 hist cp :
    LogOK L0 ->
    (forall i si si1, nth_error hist i = Some si -> nth_error hist (S i) = Some si1 -> Link (firstn (S i) L0) i si si1) ->
    forall k a h, (cp + k <= length L0)%nat -> (cp + k < length hist)%nat ->
      nth_error hist (cp + k) = Some h -> Act L0 (cp + k) h a ->
      exists a' h0, undo_down a cp k = (a', true) /\ nth_error hist cp = Some h0 /\ Act L0 cp h0 a'.
  Proof.
    intros OK Lk. induction k as [|k IH]; intros a h Le Lh Hh Ha.
    - rewrite Nat.add_0_r in *. exists a, h. split; [reflexivity|]. split; assumption.
    - cbn [undo_down].
      destruct (nth_error hist (cp + k)) as [hk|] eqn:Ek.
      2:{ apply nth_error_None in Ek. lia. }
      replace (cp + S k)%nat with (S (cp + k)) in * by lia.
      destruct (Lk _ _ _ Ek Hh L0 a OK eq_refl ltac:(lia) Ha) as (a1 & Eu & Ha1).
      rewrite Eu. apply (IH a1 hk); [lia|lia|reflexivity|exact Ha1].
  Qed.

  Lemma Hist_rollback s hist cp :
    Hist s hist -> (cp <= length (s_log s))%nat ->
    exists s' h0, rollback s cp = (s', true) /\ nth_error hist cp = Some h0 /\ srel h0 s'
      /\ Hist s' (firstn (S cp) hist) /\ s_log s' = firstn cp (s_log s).
  Proof.
    intros (Hl & OK & Ks & Fk & Lk & Tp) Le.
    set (n := length (s_log s)) in *.
    destruct (nth_error hist n) as [top|] eqn:Et.
    2:{ apply nth_error_None in Et. lia. }
    destruct (undo_down_act (s_log s) hist cp OK Lk (n - cp) s top) as (a' & h0 & Eu & Eh & (Sr & T & La & Tkk)).
    { fold n. lia. } { lia. } { replace (cp + (n - cp))%nat with n by lia. exact Et. }
    { replace (cp + (n - cp))%nat with n by lia. split; [apply Tp; reflexivity|].
      exists []. split; [rewrite app_nil_r; reflexivity|apply tk_nil]. }
    exists (set_log a' (firstn cp (s_log a'))), h0.
    split.
    { unfold rollback. fold n. destruct (Nat.ltb n cp) eqn:E; [apply Nat.ltb_lt in E; lia|]. rewrite Eu. reflexivity. }
    split; [exact Eh|]. split; [exact Sr|].
    assert (Lf : firstn cp (s_log a') = firstn cp (s_log s)).
    { rewrite La, firstn_app. replace (cp - length (s_log s))%nat with 0%nat by (fold n; lia). cbn [firstn]. apply app_nil_r. }
    assert (Ll : length (firstn cp (s_log s)) = cp) by (rewrite firstn_length; fold n; lia).
    split; [|cbn [s_log set_log]; exact Lf].
    unfold Hist. cbn [s_log s_stuck set_log]. rewrite Lf, Ll.
    split; [rewrite firstn_length; lia|]. split; [apply LogOK_firstn; exact OK|].
    assert (K0 : s_stuck h0 = false).
    { rewrite Forall_forall in Fk. apply Fk. eapply nth_error_In; exact Eh. }
    split; [destruct Sr as (_ & _ & _ & _ & K); congruence|].
    split; [rewrite Forall_forall in *; intros x Hx; apply Fk; rewrite <- (firstn_skipn (S cp) hist); apply in_or_app; left; exact Hx|]. split.
    - intros i si si1 Hi Hi1.
      assert (Li : (S i < S cp)%nat).
      { assert (S i < length (firstn (S cp) hist))%nat by (apply nth_error_Some; congruence). rewrite firstn_length in H. lia. }
      rewrite la_nth_firstn in Hi, Hi1.
      destruct (Nat.ltb i (S cp)) eqn:E1; [|apply Nat.ltb_ge in E1; lia].
      destruct (Nat.ltb (S i) (S cp)) eqn:E2; [|apply Nat.ltb_ge in E2; lia].
      rewrite firstn_firstn. replace (Nat.min (S i) cp) with (S i) by lia. apply (Lk i si si1 Hi Hi1).
    - intros top' Ht. rewrite la_nth_firstn in Ht. destruct (Nat.ltb cp (S cp)) eqn:E1; [|apply Nat.ltb_ge in E1; lia].
      rewrite Eh in Ht. injection Ht as <-. exact Sr.
  Qed.

  (** * Main induction *)
  Definition SnOK (s : sess) (hist : list sess) (stk : list nat) (sn : list (nat * sess)) : Prop :=
    map fst sn = stk
    /\ forall cp x, In (cp, x) sn -> (cp <= length (s_log s))%nat /\ exists h, nth_error hist cp = Some h /\ srel h x.

  Lemma inv_step fails s stk sn hist c :
    open_cmd c = true -> wf_cmd tok stk false s c = true -> Hist s hist -> SnOK s hist stk sn ->
    exists hist', Hist (fst (step fails s c)) hist'
      /\ SnOK (fst (step fails s c)) hist' (stk_after stk s c) (snaps_after sn s c)
      /\ nth_error hist' 0 = nth_error hist 0.
  Proof.
    intros Oc W H Sn. pose proof H as (Hl & OK & Ks & Fk & Lk & Tp). destruct Sn as (Sm & Se).
    destruct (noop_cmd s c) eqn:Nc.
    { (* Evict of a Releasing pod: nothing happens *)
      rewrite (noop_step fails s c Nc). cbn [fst]. exists hist. split; [exact H|]. split; [|reflexivity].
      destruct c; try discriminate. split; [exact Sm|exact Se]. }
    destruct (log_cmd c) eqn:Lc.
    - destruct (cmd_link fails stk s c Lc Nc W OK Ks) as (s' & e & Es & Ks' & Ls & _ & OK' & Lnew & _).
      unfold step. rewrite Es. cbn [fst].
      exists (hist ++ [s']). split; [eapply Hist_push; eassumption|]. split.
      + assert (E1 : stk_after stk s c = stk) by (destruct c; try discriminate; reflexivity).
        assert (E2 : snaps_after sn s c = sn) by (destruct c; try discriminate; reflexivity).
        rewrite E1, E2. split; [exact Sm|]. intros cp x Hin. destruct (Se cp x Hin) as (Le & h & Eh & Sr).
        split; [rewrite Ls, app_length; lia|]. exists h. split; [|exact Sr].
        rewrite nth_error_app1; [exact Eh|]. apply nth_error_Some. congruence.
      + destruct hist; [cbn in Hl; lia|reflexivity].
    - destruct c as [| | | | |cp| | |]; try discriminate.
      + (* Checkpoint *)
        unfold step, step_full. rewrite Ks. cbn [fst]. exists hist. split; [exact H|]. split; [|reflexivity].
        cbn [stk_after snaps_after]. split; [cbn [map fst]; rewrite Sm; reflexivity|].
        intros cp x [Hin|Hin].
        * injection Hin as <- <-. split; [lia|].
          destruct (nth_error hist (length (s_log s))) as [top|] eqn:Et.
          2:{ apply nth_error_None in Et. lia. }
          exists top. split; [reflexivity|]. apply Tp. reflexivity.
        * apply Se. exact Hin.
      + (* Rollback *)
        assert (Wc : existsb (Nat.eqb cp) stk = true) by exact W.
        apply existsb_exists in Wc. destruct Wc as (x & Hx & Ex). apply Nat.eqb_eq in Ex. subst x.
        rewrite <- Sm in Hx. apply in_map_iff in Hx. destruct Hx as ([cp' x0] & Ecp & Hin). cbn [fst] in Ecp. subst cp'.
        destruct (Se cp x0 Hin) as (Le & _).
        destruct (Hist_rollback s hist cp H Le) as (s' & h0 & Er & Eh & Sr & H' & _).
        unfold step, step_full. rewrite Ks, Er. cbn [fst].
        exists (firstn (S cp) hist). split; [exact H'|]. split.
        * cbn [stk_after snaps_after]. split; [rewrite map_fst_filter, Sm; reflexivity|].
          intros c2 x Hf. apply filter_In in Hf. destruct Hf as [Hf Hle]. cbn [fst] in Hle. apply Nat.leb_le in Hle.
          destruct (Se c2 x Hf) as (_ & h & Eh2 & Sr2).
          assert (Ll : length (s_log s') = cp).
          { destruct H' as (Hl' & _). rewrite firstn_length in Hl'. lia. }
          split; [lia|]. exists h. split; [|exact Sr2]. rewrite la_nth_firstn.
          destruct (Nat.ltb c2 (S cp)) eqn:E; [exact Eh2|apply Nat.ltb_ge in E; lia].
        * destruct hist; [cbn in Hl; lia|reflexivity].
      + (* Discard *)
        destruct (Hist_rollback s hist 0 H ltac:(lia)) as (s' & h0 & Er & Eh & Sr & H' & _).
        unfold step, step_full. rewrite Ks. cbn [fst]. rewrite (discard_of_rollback _ _ Er).
        exists (firstn 1 hist). split; [exact H'|]. split; [|destruct hist; [cbn in Hl; lia|reflexivity]].
        cbn [stk_after snaps_after]. split; [reflexivity|intros c2 x []].
  Qed.

  Lemma run_inv fails : forall prog s stk sn hist,
    forallb open_cmd prog = true -> Hist s hist -> SnOK s hist stk sn ->
    forall c, wf_from tok fails stk false s (prog ++ [c]) = true ->
    exists hist' stk',
      Hist (Session.run fails s prog) hist' /\ SnOK (Session.run fails s prog) hist' stk' (snd (run_sn fails s sn prog))
      /\ nth_error hist' 0 = nth_error hist 0
      /\ wf_cmd tok stk' false (Session.run fails s prog) c = true.
  Proof.
    induction prog as [|c0 r IH]; intros s stk sn hist Op H Sn c W.
    - exists hist, stk. cbn [app wf_from] in W. apply andb_true_iff in W. destruct W as [W _].
      split; [exact H|]. split; [exact Sn|]. split; [reflexivity|exact W].
    - cbn [forallb] in Op. apply andb_true_iff in Op. destruct Op as [Oc Or].
      cbn [app wf_from] in W. apply andb_true_iff in W. destruct W as [Wc Wr].
      destruct (inv_step fails s stk sn hist c0 Oc Wc H Sn) as (hist1 & H1 & Sn1 & E0).
      assert (Ec : conv_after false c0 = false) by (destruct c0; try discriminate; reflexivity).
      rewrite Ec in Wr.
      destruct (IH _ _ _ _ Or H1 Sn1 c Wr) as (hist' & stk' & H' & Sn' & E0' & W').
      exists hist', stk'. rewrite run_cons. cbn [run_sn]. split; [exact H'|]. split; [exact Sn'|].
      split; [congruence|exact W'].
  Qed.

  Lemma find_key cp (sn : list (nat * sess)) :
    In cp (map fst sn) -> exists x, find (fun y => Nat.eqb (fst y) cp) sn = Some (cp, x) /\ In (cp, x) sn.
  Proof.
    induction sn as [|[k x] r IH]; cbn [map fst In find]; [intros []|].
    intros [E|Hin].
    - subst k. rewrite Nat.eqb_refl. exists x. split; [reflexivity|left; reflexivity].
    - destruct (Nat.eqb k cp) eqn:E.
      + apply Nat.eqb_eq in E. subst k. exists x. split; [reflexivity|left; reflexivity].
      + destruct (IH Hin) as (y & Ey & Iy). exists y. split; [exact Ey|right; exact Iy].
  Qed.

  Theorem rollback_restores_gen fails S prog cp :
    s_log S = [] -> s_stuck S = false -> forallb open_cmd prog = true ->
    wf_from tok fails [] false S (prog ++ [Rollback cp]) = true ->
    exists x, state_at fails S prog cp = Some x /\ srel x (Session.run fails S (prog ++ [Rollback cp])).
  Proof.
    intros L K Op W.
    destruct (run_inv fails prog S [] [] [S] Op (Hist_init S L K)) with (c := Rollback cp) as (hist' & stk' & H' & (Sm & Se) & _ & Wc).
    { split; [reflexivity|intros c x []]. } { exact W. }
    assert (Wi : existsb (Nat.eqb cp) stk' = true) by exact Wc.
    apply existsb_exists in Wi. destruct Wi as (y & Hy & Ey). apply Nat.eqb_eq in Ey. subst y. rewrite <- Sm in Hy.
    destruct (find_key cp _ Hy) as (x & Ef & Hin).
    destruct (Se cp x Hin) as (Le & h & Eh & Sr).
    destruct (Hist_rollback _ _ cp H' Le) as (s' & h0 & Er & Eh0 & Sr0 & _ & _).
    rewrite Eh in Eh0. injection Eh0 as <-.
    exists x. split; [unfold state_at; rewrite Ef; reflexivity|].
    rewrite run_app. cbn [Session.run fold_left]. unfold step, step_full.
    destruct H' as (_ & _ & Ks & _). rewrite Ks, Er. cbn [fst].
    eapply srel_trans; [apply srel_sym; exact Sr|exact Sr0].
  Qed.

  Theorem discard_restores_gen fails S prog :
    s_log S = [] -> s_stuck S = false -> forallb open_cmd prog = true ->
    wf_from tok fails [] false S (prog ++ [Discard]) = true ->
    srel S (Session.run fails S (prog ++ [Discard])).
  Proof.
    intros L K Op W.
    destruct (run_inv fails prog S [] [] [S] Op (Hist_init S L K)) with (c := Discard) as (hist' & stk' & H' & _ & E0 & _).
    { split; [reflexivity|intros c x []]. } { exact W. }
    destruct (Hist_rollback _ _ 0%nat H' ltac:(lia)) as (s' & h0 & Er & Eh0 & Sr0 & _ & _).
    rewrite E0 in Eh0. cbn in Eh0. injection Eh0 as <-.
    rewrite run_app. cbn [Session.run fold_left]. unfold step, step_full.
    destruct H' as (_ & _ & Ks & _). rewrite Ks. cbn [fst]. rewrite (discard_of_rollback _ _ Er). exact Sr0.
  Qed.
End Sess.


(* ------------------------------------------------------------------ CommitC *)
Open Scope Z_scope.

(** * Commit emits calls only for valid entries, at most one per entry *)
Inductive subseq {A} : list A -> list A -> Prop :=
| sub_nil l : subseq [] l
| sub_skip a x l : subseq a l -> subseq a (x :: l)
| sub_take a x l : subseq a l -> subseq (x :: a) (x :: l).

Lemma subseq_in {A} (a l : list A) x : subseq a l -> In x a -> In x l.
Proof. induction 1; intros H'; [destruct H'|right; auto|destruct H' as [->|H']; [left; reflexivity|right; auto]]. Qed.
Lemma subseq_nodup {A} (a l : list A) : subseq a l -> NoDup l -> NoDup a.
Proof.
  induction 1 as [l|a x l S IH|a x l S IH]; intros N.
  - constructor.
  - inversion N; subst. auto.
  - inversion N as [|? ? Hn Hr]; subst. constructor; [|auto]. intros Hin. apply Hn. eapply subseq_in; eassumption.
Qed.
Lemma subseq_app_r {A} (a l pre : list A) : subseq a l -> subseq a (pre ++ l).
Proof. intros H. induction pre; cbn; [exact H|apply sub_skip; exact IHpre]. Qed.

(** kind (false: eviction, true: placement) and pod of a call / of a log entry *)
Definition ckey (c : api_call) : bool * positive :=
  match c with AEvict p => (false, p) | ABind p _ _ => (true, p) | APipe p _ _ => (true, p) end.
Definition okey (o : op) : list (bool * positive) :=
  match o with
  | OEvict p _ _ _ _ => [(false, p)]
  | OPipe p _ _ _ _ _ _ => [(true, p)]
  | OAlloc c _ _ => [(true, p_id c)]
  | OUndo _ => []
  end.
Fixpoint vkeys (all ops : list op) (pos : nat) : list (bool * positive) :=
  match ops with
  | [] => []
  | o :: r => (match op_valid all pos with Some true => okey o | _ => [] end) ++ vkeys all r (S pos)
  end.

Lemma commit_loop_sub fails all : forall ops s pos,
  subseq (map ckey (snd (fst (commit_loop fails s all ops pos)))) (vkeys all ops pos).
Proof.
  induction ops as [|o r IH]; intros s pos; cbn [commit_loop vkeys]; [constructor|].
  destruct (op_valid all pos) as [[|]|]; cbn [app]; try apply IH; [|constructor].
  destruct o as [pid a b c d|pid a b c d e f|c nx pv|k]; cbn [okey app].
  - destruct (get_pod s pid) as [p|]; [|apply sub_skip, IH].
    destruct (alookup (t_job (p_task p)) (s_jobs s)); [|apply sub_skip, IH].
    destruct (next_call fails s) as [s1 failed].
    match goal with |- context [commit_loop fails ?x all r (S pos)] => specialize (IH x (S pos)); destruct (commit_loop fails x all r (S pos)) as [[s3 cs] ok] end.
    cbn [fst snd map ckey] in *. apply sub_take. exact IH.
  - destruct (get_pod s pid) as [p|]; [|apply sub_skip, IH].
    destruct (next_call (fun _ => false) s) as [s1 f0].
    specialize (IH s1 (S pos)). destruct (commit_loop fails s1 all r (S pos)) as [[s3 cs] ok].
    cbn [fst snd map ckey] in *. apply sub_take. exact IH.
  - destruct (p_node c) as [h|]; [|constructor].
    destruct (alookup h (s_nodes s)) as [n|]; [|constructor].
    match goal with |- context [next_call fails ?x] => destruct (next_call fails x) as [s1 failed] end.
    destruct failed.
    + cbn [fst snd map ckey]. apply sub_take. constructor.
    + destruct (update_status s1 c Binding) as [s2 ok2]. destruct ok2.
      * specialize (IH s2 (S pos)). destruct (commit_loop fails s2 all r (S pos)) as [[s3 cs] ok].
        cbn [fst snd map ckey] in *. apply sub_take. exact IH.
      * cbn [fst snd map ckey]. apply sub_take. constructor.
  - apply IH.
Qed.

Lemma commit_sub fails s : subseq (map ckey (snd (commit fails s))) (vkeys (s_log s) (s_log s) 0).
Proof.
  unfold commit. pose proof (commit_loop_sub fails (s_log s) (s_log s) s 0%nat) as H.
  destruct (commit_loop fails s (s_log s) (s_log s) 0) as [[s1 cs] ok]. exact H.
Qed.

(** * At most once: the shape of the logs well-formed programs build *)
Definition placing_pods (L : list op) : list positive :=
  flat_map (fun o => match o with OPipe p _ _ _ _ _ _ => [p] | OAlloc c _ _ => [p_id c] | _ => [] end) L.
Definition once_ok (L : list op) : Prop :=
  (forall i j p a b c d a' b' c' d', (i < j)%nat ->
     nth_error L i = Some (OEvict p a b c d) -> nth_error L j = Some (OEvict p a' b' c' d') ->
     exists m, (i < m < j)%nat /\ nth_error L m = Some (OUndo i))
  /\ NoDup (placing_pods L).

Lemma placing_in L i o p :
  nth_error L i = Some o -> (match o with OPipe q _ _ _ _ _ _ => q = p | OAlloc c _ _ => p_id c = p | _ => False end) ->
  In p (placing_pods L).
Proof.
  intros H Hp. apply nth_error_In in H. unfold placing_pods. apply in_flat_map. exists o. split; [exact H|].
  destruct o; try contradiction; subst; left; reflexivity.
Qed.

Lemma nodup_app_r {A} (a b : list A) : NoDup (a ++ b) -> NoDup b.
Proof. induction a as [|x a IH]; cbn; [auto|]. intros N. inversion N; subst. auto. Qed.

(** two valid entries with the same key are the same entry *)
Lemma placing_nodup_idx L : NoDup (placing_pods L) ->
  forall i j oi oj p, nth_error L i = Some oi -> nth_error L j = Some oj ->
    In (true, p) (okey oi) -> In (true, p) (okey oj) -> i = j.
Proof.
  induction L as [|o r IH]; intros N i j oi oj p Hi Hj Ki Kj; [destruct i; discriminate|].
  unfold placing_pods in N. cbn [flat_map] in N. fold (placing_pods r) in N.
  assert (Key : forall q ox, nth_error r q = Some ox -> In (true, p) (okey ox) -> In p (placing_pods r)).
  { intros q ox Hq Kq. eapply placing_in; [exact Hq|]. destruct ox; cbn in Kq; try contradiction;
      destruct Kq as [E|[]]; inversion E; subst; reflexivity. }
  destruct i, j; cbn [nth_error] in Hi, Hj.
  - reflexivity.
  - injection Hi as <-. exfalso. pose proof (Key _ _ Hj Kj) as Hin.
    destruct o; cbn in Ki; try contradiction; destruct Ki as [E|[]]; inversion E; subst;
      cbn [app] in N; inversion N; subst; contradiction.
  - injection Hj as <-. exfalso. pose proof (Key _ _ Hi Ki) as Hin.
    destruct o; cbn in Kj; try contradiction; destruct Kj as [E|[]]; inversion E; subst;
      cbn [app] in N; inversion N; subst; contradiction.
  - f_equal. apply (IH (nodup_app_r _ _ N) i j oi oj p); assumption.
Qed.

Lemma vkeys_in all : forall ops pos k, In k (vkeys all ops pos) ->
  exists q o, nth_error ops q = Some o /\ op_valid all (pos + q) = Some true /\ In k (okey o).
Proof.
  induction ops as [|o r IH]; intros pos k H; cbn [vkeys] in H; [destruct H|].
  apply in_app_or in H. destruct H as [H|H].
  - destruct (op_valid all pos) as [[|]|] eqn:V; try destruct H.
    exists 0%nat, o. rewrite Nat.add_0_r. split; [reflexivity|]. split; [exact V|exact H].
  - destruct (IH _ _ H) as (q & o' & Hq & V & K). exists (S q), o'. replace (pos + S q)%nat with (S pos + q)%nat by lia.
    split; [exact Hq|]. split; [exact V|exact K].
Qed.

Lemma key_inj L : LogOK L -> once_ok L ->
  forall i j oi oj k, nth_error L i = Some oi -> nth_error L j = Some oj ->
    op_valid L i = Some true -> op_valid L j = Some true -> In k (okey oi) -> In k (okey oj) -> i = j.
Proof.
  intros OK [Ev Pl] i j oi oj [[|] p] Hi Hj Vi Vj Ki Kj.
  - eapply placing_nodup_idx; eassumption.
  - assert (Aux : forall i j oi oj, (i < j)%nat -> nth_error L i = Some oi -> nth_error L j = Some oj ->
                  op_valid L i = Some true -> In (false, p) (okey oi) -> In (false, p) (okey oj) -> False).
    { clear i j oi oj Hi Hj Vi Vj Ki Kj. intros i j oi oj Lt Hi Hj Vi Ki Kj.
      destruct oi as [p1 a b c d| | |]; cbn in Ki; try contradiction; destruct Ki as [E|[]]; inversion E; subst p1.
      destruct oj as [p2 a' b' c' d'| | |]; cbn in Kj; try contradiction; destruct Kj as [E'|[]]; inversion E'; subst p2.
      destruct (Ev i j p a b c d a' b' c' d' Lt Hi Hj) as (m & _ & Hm).
      rewrite (valid_persistent L i OK (la_nth_lt _ _ _ Hi)) in Vi. injection Vi as Vi.
      rewrite (la_undone_intro _ _ _ Hm) in Vi. discriminate. }
    destruct (Nat.lt_trichotomy i j) as [Lt|[E|Gt]]; [exfalso; eapply (Aux i j); eassumption|exact E|exfalso; eapply (Aux j i); eassumption].
Qed.

Lemma vkeys_nodup all : LogOK all -> once_ok all ->
  forall ops pos, (forall q, nth_error ops q = nth_error all (pos + q)) -> NoDup (vkeys all ops pos).
Proof.
  intros OK On. induction ops as [|o r IH]; intros pos Hn; cbn [vkeys]; [constructor|].
  assert (Hr : forall q, nth_error r q = nth_error all (S pos + q)).
  { intros q. specialize (Hn (S q)). cbn [nth_error] in Hn. rewrite Hn. f_equal. lia. }
  specialize (IH (S pos) Hr).
  destruct (op_valid all pos) as [[|]|] eqn:V; cbn [app]; try exact IH.
  assert (Ho : nth_error all pos = Some o) by (specialize (Hn 0%nat); rewrite Nat.add_0_r in Hn; symmetry; exact Hn).
  destruct o as [p a b c d|p a b c d e f|c nx pv|k]; cbn [okey app]; try exact IH;
    (constructor; [|exact IH]); intros Hin; destruct (vkeys_in _ _ _ _ Hin) as (q & o' & Hq & Vq & Kq);
    rewrite Hr in Hq;
    match goal with |- _ => assert (X : pos = (S pos + q)%nat) by
      (eapply (key_inj all OK On); [exact Ho|exact Hq|exact V|exact Vq|left; reflexivity|exact Kq]); lia end.
Qed.

Theorem commit_at_most_once fails s :
  LogOK (s_log s) -> once_ok (s_log s) -> NoDup (map ckey (snd (commit fails s))).
Proof.
  intros OK On. eapply subseq_nodup; [apply commit_sub|]. apply vkeys_nodup; [exact OK|exact On|]. intros q. reflexivity.
Qed.

(** every emitted call belongs to a valid entry (nothing for undone operations) *)
Theorem commit_only_valid fails s c :
  In c (snd (commit fails s)) ->
  exists i o, nth_error (s_log s) i = Some o /\ op_valid (s_log s) i = Some true /\ In (ckey c) (okey o).
Proof.
  intros H. assert (In (ckey c) (vkeys (s_log s) (s_log s) 0)).
  { eapply subseq_in; [apply commit_sub|]. apply in_map. exact H. }
  destruct (vkeys_in _ _ _ _ H0) as (q & o & Hq & V & K). exists q, o. repeat split; assumption.
Qed.

(** * [once_ok] along well-formed runs *)
Lemma once_nil : once_ok [].
Proof. split; [intros i j p a b c d a' b' c' d' _ H; destruct i; discriminate|constructor]. Qed.

Lemma placing_pods_app a b : placing_pods (a ++ b) = placing_pods a ++ placing_pods b.
Proof. unfold placing_pods. apply flat_map_app. Qed.

Lemma has_placing_false L pid : has_placing L pid = false -> ~ In pid (placing_pods L).
Proof.
  unfold has_placing, placing_pods. intros H Hin. apply in_flat_map in Hin. destruct Hin as (o & Ho & Hp).
  assert (X : existsb (fun o => match o with OPipe p _ _ _ _ _ _ => Pos.eqb p pid | OAlloc c _ _ => Pos.eqb (p_id c) pid | _ => false end) L = true).
  { apply existsb_exists. exists o. split; [exact Ho|]. destruct o; cbn in Hp; try contradiction; destruct Hp as [<-|[]]; apply Pos.eqb_refl. }
  congruence.
Qed.

Lemma fve_none all pid : forall L pos,
  first_valid_evict L all pid pos = Some None ->
  forall q a b c d, nth_error L q = Some (OEvict pid a b c d) -> op_valid all (pos + q) = Some false.
Proof.
  induction L as [|o r IH]; intros pos H q a b c d Hq; [destruct q; discriminate|].
  cbn [first_valid_evict] in H.
  destruct (op_valid all pos) as [[|]|] eqn:V; [| |discriminate].
  - destruct q; cbn [nth_error] in Hq.
    + injection Hq as ->. rewrite Pos.eqb_refl in H. discriminate.
    + replace (pos + S q)%nat with (S pos + q)%nat by lia. eapply IH; [|exact Hq].
      destruct o as [p ? ? ? ?| | |]; try exact H. destruct (Pos.eqb p pid); [discriminate|exact H].
  - destruct q; cbn [nth_error] in Hq.
    + rewrite Nat.add_0_r. exact V.
    + replace (pos + S q)%nat with (S pos + q)%nat by lia. eapply IH; [exact H|exact Hq].
Qed.

Lemma once_app_evict L pid a b c d :
  LogOK L -> once_ok L -> no_valid_evict L pid = true -> once_ok (L ++ [OEvict pid a b c d]).
Proof.
  intros OK [Ev Pl] Nv. split.
  - intros i j p x1 x2 x3 x4 y1 y2 y3 y4 Lt Hi Hj.
    destruct (la_nth_snoc _ _ _ _ Hj) as [[Lj Hj']|[Ej Eo]].
    + destruct (la_nth_snoc _ _ _ _ Hi) as [[Li Hi']|[Ei _]]; [|lia].
      destruct (Ev _ _ _ _ _ _ _ _ _ _ _ Lt Hi' Hj') as (m & Hm & Em). exists m. split; [exact Hm|].
      rewrite nth_error_app1 by lia. exact Em.
    + injection Eo as -> _ _ _ _. subst j.
      destruct (la_nth_snoc _ _ _ _ Hi) as [[Li Hi']|[Ei _]]; [|lia].
      unfold no_valid_evict in Nv. destruct (first_valid_evict L L pid 0) as [[|]|] eqn:Ef; try discriminate.
      pose proof (fve_none L pid L 0%nat Ef i _ _ _ _ Hi') as V. cbn [Nat.add] in V.
      rewrite (valid_persistent L i OK Li) in V. injection V as V. apply negb_false_iff in V.
      destruct (la_undone_true _ _ V) as (m & Em). exists m.
      destruct (OK m i Em) as (Lm & _). pose proof (la_nth_lt _ _ _ Em). split; [lia|].
      rewrite nth_error_app1 by lia. exact Em.
  - rewrite placing_pods_app. cbn. rewrite app_nil_r. exact Pl.
Qed.

Lemma once_app_other L o :
  once_ok L ->
  match o with
  | OEvict _ _ _ _ _ => False
  | OPipe p _ _ _ _ _ _ => ~ In p (placing_pods L)
  | OAlloc c _ _ => ~ In (p_id c) (placing_pods L)
  | OUndo _ => True
  end -> once_ok (L ++ [o]).
Proof.
  intros [Ev Pl] Ho. split.
  - intros i j p x1 x2 x3 x4 y1 y2 y3 y4 Lt Hi Hj.
    destruct (la_nth_snoc _ _ _ _ Hj) as [[Lj Hj']|[Ej Eo]].
    + destruct (la_nth_snoc _ _ _ _ Hi) as [[Li Hi']|[Ei _]]; [|lia].
      destruct (Ev _ _ _ _ _ _ _ _ _ _ _ Lt Hi' Hj') as (m & Hm & Em). exists m. split; [exact Hm|].
      rewrite nth_error_app1 by lia. exact Em.
    + subst o. contradiction.
  - rewrite placing_pods_app.
    assert (Snoc : forall x, ~ In x (placing_pods L) -> NoDup (placing_pods L ++ [x])).
    { intros x Hx. clear -Pl Hx. induction (placing_pods L) as [|y l IH]; cbn; [constructor; [intros []|constructor]|].
      inversion Pl; subst. constructor.
      - intros Hin. apply in_app_or in Hin. destruct Hin as [Hin|[->|[]]]; [contradiction|apply Hx; left; reflexivity].
      - apply IH; [assumption|]. intros Hin. apply Hx. right. exact Hin. }
    destruct o; cbn; rewrite ?app_nil_r; try exact Pl; try contradiction; apply Snoc; exact Ho.
Qed.

Lemma once_firstn L cp : once_ok L -> once_ok (firstn cp L).
Proof.
  intros [Ev Pl]. split.
  - intros i j p x1 x2 x3 x4 y1 y2 y3 y4 Lt Hi Hj. rewrite la_nth_firstn in Hi, Hj.
    destruct (Nat.ltb i cp) eqn:Ei; [|discriminate]. destruct (Nat.ltb j cp) eqn:Ej; [|discriminate].
    apply Nat.ltb_lt in Ei, Ej.
    destruct (Ev _ _ _ _ _ _ _ _ _ _ _ Lt Hi Hj) as (m & Hm & Em). exists m. split; [exact Hm|].
    rewrite la_nth_firstn. destruct (Nat.ltb m cp) eqn:E; [exact Em|apply Nat.ltb_ge in E; lia].
  - rewrite <- (firstn_skipn cp L), placing_pods_app in Pl. clear -Pl.
    induction (placing_pods (firstn cp L)) as [|y l IH]; [constructor|]. cbn in Pl. inversion Pl; subst.
    constructor; [intros Hin; apply H1; apply in_or_app; left; exact Hin|apply IH; assumption].
Qed.

(** the generic lemmas at the instance [neq] / every task *)
Definition any_task (t : task) : bool := true.
Definition cmd_link_n :=
  cmd_link neq any_task neq_refl neq_sym neq_trans neq_pods neq_set_pods
    (fun a b t _ => neq_add a b t) (fun a b t _ => neq_remove a b t) (fun a t _ => neq_rem_add a t)
    (fun a t _ => neq_add_rem a t) (fun t s g => eq_refl) (fun t m => eq_refl).
Definition inv_step_n :=
  inv_step neq any_task neq_refl neq_sym neq_trans neq_pods neq_set_pods
    (fun a b t _ => neq_add a b t) (fun a b t _ => neq_remove a b t) (fun a t _ => neq_rem_add a t)
    (fun a t _ => neq_add_rem a t) (fun t s g => eq_refl) (fun t m => eq_refl).
Definition Hist_rollback_n := Hist_rollback neq.

Lemma wf_placing_pipe tok stk s pid nid gs upd :
  wf_cmd tok stk false s (Pipeline pid nid gs upd) = true -> has_placing (s_log s) pid = false.
Proof.
  unfold wf_cmd. cbn [negb andb]. destruct (get_pod s pid); [|discriminate]. destruct (alookup nid (s_nodes s)); [|discriminate].
  intros W. apply andb_true_iff in W. destruct W as [W _]. apply andb_true_iff in W. destruct W as [W _].
  apply andb_true_iff in W. destruct W as [_ W]. apply negb_true_iff in W. exact W.
Qed.
Lemma wf_placing_alloc tok stk s pid nid gs :
  wf_cmd tok stk false s (Allocate pid nid gs) = true -> has_placing (s_log s) pid = false.
Proof.
  unfold wf_cmd. cbn [negb andb]. destruct (get_pod s pid); [|discriminate]. destruct (alookup nid (s_nodes s)); [|discriminate].
  intros W. do 5 (apply andb_true_iff in W; destruct W as [W _]).
  apply andb_true_iff in W. destruct W as [_ W]. apply negb_true_iff in W. exact W.
Qed.

(** * No valid eviction of a pod that is not Releasing

    [EI L s]: every evict entry of [L] that is still valid, of a pod that [L] has not placed since,
    is of a pod that is Releasing in [s].  It holds along well-formed open statements WITHOUT any
    clause on evictions in [wf_cmd]: Statement.Evict leaves a Releasing pod alone (83a0ca3, bce7109), so
    a second valid evict entry of a pod cannot come about.  [once_ok] (at most one valid evict
    entry per pod) and [EI] are proved together: an effective Evict finds the pod not Releasing,
    hence without valid evict entry ([ei_no_valid_evict]); an un-eviction withdraws the pod's
    only valid evict entry ([once_ok]). *)
Definition EI (L : list op) (s : sess) : Prop :=
  forall i p a b c d, nth_error L i = Some (OEvict p a b c d) -> undone_in L i = false ->
    has_placing L p = false -> releasing_in s p = true.
(** the states recorded at the outstanding checkpoints, each with the log prefix it was taken at *)
Definition SEI (L : list op) (sn : list (nat * sess)) : Prop :=
  forall cp x, In (cp, x) sn -> EI (firstn cp L) x.

Lemma undone_in_snoc L e k :
  undone_in (L ++ [e]) k = undone_in L k || match e with OUndo j => Nat.eqb j k | _ => false end.
Proof. unfold undone_in. rewrite existsb_app. cbn [existsb]. rewrite orb_false_r. reflexivity. Qed.

Lemma has_placing_snoc L e p :
  has_placing (L ++ [e]) p = has_placing L p || match e with
                                                | OPipe q _ _ _ _ _ _ => Pos.eqb q p
                                                | OAlloc c _ _ => Pos.eqb (p_id c) p
                                                | _ => false
                                                end.
Proof. unfold has_placing. rewrite existsb_app. cbn [existsb]. rewrite orb_false_r. reflexivity. Qed.

Lemma EI_nil s : EI [] s.
Proof. intros i p a b c d H. destruct i; discriminate H. Qed.

Lemma fve_total all pid : LogOK all -> forall L pos, (pos + length L <= length all)%nat ->
  exists r, first_valid_evict L all pid pos = Some r.
Proof.
  intros OK. induction L as [|o r IH]; intros pos Len; cbn [first_valid_evict]; [eexists; reflexivity|].
  cbn [length] in Len. rewrite (valid_persistent all pos OK) by lia.
  destruct (negb (undone_in all pos)); [|apply IH; lia].
  destruct o as [p ? ? ? ?| | |]; try (apply IH; lia).
  destruct (Pos.eqb p pid); [eexists; reflexivity|apply IH; lia].
Qed.

(** a pod that is not Releasing and not placed by the statement has no valid evict entry: what the
    dropped clause of [wf_cmd] used to demand *)
Lemma ei_no_valid_evict L s pid :
  LogOK L -> EI L s -> releasing_in s pid = false -> has_placing L pid = false -> no_valid_evict L pid = true.
Proof.
  intros OK Ei Nr Hp. unfold no_valid_evict.
  destruct (fve_total L pid OK L 0%nat ltac:(lia)) as ([i|] & E); rewrite E; [|reflexivity].
  exfalso. destruct (fve_top _ _ _ E) as (V & a & b & c & d & En).
  assert (U : undone_in L i = false).
  { rewrite (valid_persistent L i OK (la_nth_lt _ _ _ En)) in V. injection V as V. apply negb_true_iff in V. exact V. }
  rewrite (Ei i pid a b c d En U Hp) in Nr. discriminate.
Qed.

Lemma once_unique L : once_ok L ->
  forall i j p a b c d a' b' c' d', nth_error L i = Some (OEvict p a b c d) -> nth_error L j = Some (OEvict p a' b' c' d') ->
    undone_in L i = false -> undone_in L j = false -> i = j.
Proof.
  intros [Ev _] i j p a b c d a' b' c' d' Hi Hj Ui Uj.
  destruct (Nat.lt_trichotomy i j) as [Lt|[E|Gt]]; [exfalso|exact E|exfalso].
  - destruct (Ev _ _ _ _ _ _ _ _ _ _ _ Lt Hi Hj) as (m & _ & Hm). rewrite (la_undone_intro _ _ _ Hm) in Ui. discriminate.
  - destruct (Ev _ _ _ _ _ _ _ _ _ _ _ Gt Hj Hi) as (m & _ & Hm). rewrite (la_undone_intro _ _ _ Hm) in Uj. discriminate.
Qed.

Lemma srel_releasing R x y pid : srel R x y -> releasing_in y pid = releasing_in x pid.
Proof.
  intros (_ & P & _). unfold releasing_in, get_pod. pose proof (amap_rel_lookup prel _ _ pid P) as H.
  destruct (alookup pid (s_pods x)) as [a|]; destruct (alookup pid (s_pods y)) as [b|]; try contradiction; [|reflexivity].
  destruct (prel_fields _ _ H) as (E & _). rewrite E. reflexivity.
Qed.

Lemma EI_srel R L x y : srel R x y -> EI L x -> EI L y.
Proof. intros Sr Ei i p a b c d Hi Hu Hp. rewrite (srel_releasing R x y p Sr). exact (Ei i p a b c d Hi Hu Hp). Qed.

(** a recorded command keeps [EI] *)
Lemma ei_snoc s s' c e :
  LogOK (s_log s) -> once_ok (s_log s) -> EI (s_log s) s -> entry_for c e -> frame_for c s s' e ->
  EI (s_log s ++ [e]) s'.
Proof.
  intros OK On Ei Ef (Pf & Fr & Fu) i p a b c0 d Hi Hu Hp.
  rewrite undone_in_snoc in Hu. apply orb_false_iff in Hu. destruct Hu as [Hu Hue].
  rewrite has_placing_snoc in Hp. apply orb_false_iff in Hp. destruct Hp as [Hp Hpe].
  assert (Other : p <> cpod c -> (i < length (s_log s))%nat -> releasing_in s' p = true).
  { intros Ne Lt. rewrite (pf_releasing _ _ _ _ Pf Ne). apply (Ei i p a b c0 d); [|exact Hu|exact Hp].
    destruct (la_nth_snoc _ _ _ _ Hi) as [[_ H]|[H _]]; [exact H|lia]. }
  destruct (Pos.eq_dec p (cpod c)) as [Ep|Ne].
  2:{ apply (Other Ne). destruct (la_nth_snoc _ _ _ _ Hi) as [[Lt _]|[_ He]]; [exact Lt|].
      exfalso. subst e. destruct c; cbn [entry_for] in Ef; try contradiction. }
  subst p.
  destruct c as [pid|pid nid gs upd|pid nid gs|pid| | | | |]; destruct e as [q ? ? ? ?|q ? ? ? ? ? ?|cl ? ?|i0];
    cbn [entry_for cpod] in *; try contradiction.
  - (* Evict *) exact Fr.
  - (* Pipeline, nomination: the pod is placed *) subst q. rewrite Pos.eqb_refl in Hpe. discriminate.
  - (* Pipeline onto the pod's own node: its only valid eviction is withdrawn *)
    exfalso. destruct Fu as (a' & b' & c' & d' & En & V).
    assert (U0 : undone_in (s_log s) i0 = false).
    { rewrite (valid_persistent _ i0 OK (la_nth_lt _ _ _ En)) in V. injection V as V. apply negb_true_iff in V. exact V. }
    destruct (la_nth_snoc _ _ _ _ Hi) as [[Lt Hi']|[_ He]]; [|discriminate He].
    pose proof (once_unique _ On _ _ _ _ _ _ _ _ _ _ _ Hi' En Hu U0) as E. subst i0. rewrite Nat.eqb_refl in Hue. discriminate.
  - (* Allocate *) rewrite Ef, Pos.eqb_refl in Hpe. discriminate.
  - (* Unevict *)
    exfalso. destruct Fu as (a' & b' & c' & d' & En & V).
    assert (U0 : undone_in (s_log s) i0 = false).
    { rewrite (valid_persistent _ i0 OK (la_nth_lt _ _ _ En)) in V. injection V as V. apply negb_true_iff in V. exact V. }
    destruct (la_nth_snoc _ _ _ _ Hi) as [[Lt Hi']|[_ He]]; [|discriminate He].
    pose proof (once_unique _ On _ _ _ _ _ _ _ _ _ _ _ Hi' En Hu U0) as E. subst i0. rewrite Nat.eqb_refl in Hue. discriminate.
Qed.

Lemma firstn_snoc_le {A} (L : list A) e cp : (cp <= length L)%nat -> firstn cp (L ++ [e]) = firstn cp L.
Proof. intros Le. rewrite firstn_app. replace (cp - length L)%nat with 0%nat by lia. cbn [firstn]. apply app_nil_r. Qed.

Lemma once_step fails s stk sn hist c :
  open_cmd c = true -> wf_cmd any_task stk false s c = true -> Hist neq s hist -> SnOK neq s hist stk sn ->
  once_ok (s_log s) -> EI (s_log s) s -> SEI (s_log s) sn ->
  once_ok (s_log (fst (step fails s c))) /\ EI (s_log (fst (step fails s c))) (fst (step fails s c))
  /\ SEI (s_log (fst (step fails s c))) (snaps_after sn s c).
Proof.
  intros Oc W H Sn On Ei Se'. pose proof H as (Hl & OK & Ks & _). destruct Sn as (Sm & Se).
  destruct (noop_cmd s c) eqn:Nc.
  { rewrite (noop_step fails s c Nc). cbn [fst]. destruct c; try discriminate. split; [exact On|]. split; [exact Ei|exact Se']. }
  destruct (log_cmd c) eqn:Lc.
  - destruct (cmd_link_n fails stk s c Lc Nc W OK Ks) as (s' & e & Es & _ & Ls & Ef & _ & _ & Fr).
    unfold step. rewrite Es. cbn [fst]. rewrite Ls.
    assert (E2 : snaps_after sn s c = sn) by (destruct c; try discriminate; reflexivity). rewrite E2.
    split; [|split].
    + destruct c as [pid|pid nid gs upd|pid nid gs|pid| | | | |]; try discriminate; destruct e; cbn [entry_for] in Ef; try contradiction.
      * subst p. cbn [noop_cmd] in Nc.
        destruct (wf_evict_facts any_task stk s pid W Nc) as (p & j & nid & n & _ & _ & _ & _ & _ & Hp & _).
        apply once_app_evict; [exact OK|exact On|]. apply (ei_no_valid_evict _ s); assumption.
      * subst p. apply once_app_other; [exact On|]. apply has_placing_false. eapply wf_placing_pipe. exact W.
      * apply once_app_other; [exact On|exact I].
      * subst pid. apply once_app_other; [exact On|]. apply has_placing_false. eapply wf_placing_alloc. exact W.
      * apply once_app_other; [exact On|exact I].
    + exact (ei_snoc s s' c e OK On Ei Ef Fr).
    + intros cp x Hin. destruct (Se cp x Hin) as (Le & _). rewrite (firstn_snoc_le _ _ _ Le). exact (Se' cp x Hin).
  - destruct c as [| | | | |cp| | |]; try discriminate.
    + (* Checkpoint *)
      unfold step, step_full. rewrite Ks. cbn [fst snaps_after]. split; [exact On|]. split; [exact Ei|].
      intros cp x [Hin|Hin]; [|exact (Se' cp x Hin)]. injection Hin as <- <-. rewrite firstn_all. exact Ei.
    + (* Rollback *)
      assert (Wc : existsb (Nat.eqb cp) stk = true) by exact W.
      apply existsb_exists in Wc. destruct Wc as (x & Hx & Ex). apply Nat.eqb_eq in Ex. subst x.
      rewrite <- Sm in Hx. apply in_map_iff in Hx. destruct Hx as ([cp' x0] & Ecp & Hin). cbn [fst] in Ecp. subst cp'.
      destruct (Se cp x0 Hin) as (Le & h & Eh2 & Sr2).
      destruct (Hist_rollback_n s hist cp H Le) as (s' & h0 & Er & Eh & Sr & _ & Lg).
      unfold step, step_full. rewrite Ks, Er. cbn [fst snaps_after]. rewrite Lg.
      split; [apply once_firstn; exact On|]. split.
      * rewrite Eh2 in Eh. injection Eh as <-.
        apply (EI_srel neq _ h s' Sr). apply (EI_srel neq _ x0 h); [|exact (Se' cp x0 Hin)].
        apply (srel_sym neq neq_sym). exact Sr2.
      * intros c2 x Hf. apply filter_In in Hf. destruct Hf as [Hf Hle]. cbn [fst] in Hle. apply Nat.leb_le in Hle.
        rewrite firstn_firstn. replace (Nat.min c2 cp) with c2 by lia. exact (Se' c2 x Hf).
    + (* Discard *)
      destruct (Hist_rollback_n s hist 0%nat H ltac:(lia)) as (s' & h0 & Er & _ & _ & _ & Lg).
      unfold step, step_full. rewrite Ks. cbn [fst snaps_after]. rewrite (discard_of_rollback _ _ Er), Lg.
      split; [apply once_nil|]. split; [apply EI_nil|intros c2 x []].
Qed.

Lemma run_once fails : forall prog s stk sn hist,
  forallb open_cmd prog = true -> Hist neq s hist -> SnOK neq s hist stk sn -> once_ok (s_log s) ->
  EI (s_log s) s -> SEI (s_log s) sn ->
  forall c, wf_from any_task fails stk false s (prog ++ [c]) = true ->
  LogOK (s_log (Session.run fails s prog)) /\ once_ok (s_log (Session.run fails s prog))
  /\ s_stuck (Session.run fails s prog) = false /\ EI (s_log (Session.run fails s prog)) (Session.run fails s prog).
Proof.
  induction prog as [|c0 r IH]; intros s stk sn hist Op H Sn On Ei Se c W.
  - destruct H as (_ & OK & Ks & _). split; [exact OK|]. split; [exact On|]. split; [exact Ks|exact Ei].
  - cbn [forallb] in Op. apply andb_true_iff in Op. destruct Op as [Oc Or].
    cbn [app wf_from] in W. apply andb_true_iff in W. destruct W as [Wc Wr].
    destruct (inv_step_n fails s stk sn hist c0 Oc Wc H Sn) as (hist1 & H1 & Sn1 & _).
    destruct (once_step fails s stk sn hist c0 Oc Wc H Sn On Ei Se) as (On1 & Ei1 & Se1).
    assert (Ec : conv_after false c0 = false) by (destruct c0; try discriminate; reflexivity).
    rewrite Ec in Wr. rewrite run_cons. apply (IH _ _ _ _ Or H1 Sn1 On1 Ei1 Se1 c Wr).
Qed.

(** the invariants after a well-formed open statement started on an empty log *)
Lemma run_once_init fails S prog c :
  s_log S = [] -> s_stuck S = false -> forallb open_cmd prog = true ->
  wf_from any_task fails [] false S (prog ++ [c]) = true ->
  LogOK (s_log (Session.run fails S prog)) /\ once_ok (s_log (Session.run fails S prog))
  /\ s_stuck (Session.run fails S prog) = false /\ EI (s_log (Session.run fails S prog)) (Session.run fails S prog).
Proof.
  intros L K Op W. apply (run_once fails prog S [] [] [S] Op) with (c := c).
  - apply Hist_init; [exact neq_refl|exact L|exact K].
  - split; [reflexivity|intros c0 x []].
  - rewrite L. apply once_nil.
  - rewrite L. apply EI_nil.
  - intros cp x [].
  - exact W.
Qed.

(** Commit after a well-formed open statement - in which Evict may be applied to any Releasing pod of
    the session, already evicted ones included: at most one call per kind and pod, for every failure oracle *)
Theorem commit_once_run fails S prog :
  s_log S = [] -> s_stuck S = false -> forallb open_cmd prog = true ->
  wf_from any_task fails [] false S (prog ++ [Commit]) = true ->
  NoDup (map ckey (snd (step fails (Session.run fails S prog) Commit))).
Proof.
  intros L K Op W.
  destruct (run_once_init fails S prog Commit L K Op W) as (OK & On & Ks & _).
  unfold step, step_full. rewrite Ks.
  destruct (commit fails (Session.run fails S prog)) as [s1 cs] eqn:Ec. cbn [fst snd].
  change cs with (snd (s1, cs)). rewrite <- Ec. apply commit_at_most_once; assumption.
Qed.

(** read on the calls: no pod is sent to Cache.Evict twice by one Commit *)
Theorem commit_no_two_evictions fails S prog :
  s_log S = [] -> s_stuck S = false -> forallb open_cmd prog = true ->
  wf_from any_task fails [] false S (prog ++ [Commit]) = true ->
  forall p pre mid post, snd (step fails (Session.run fails S prog) Commit) <> pre ++ AEvict p :: mid ++ AEvict p :: post.
Proof.
  intros L K Op W p pre mid post E. pose proof (commit_once_run fails S prog L K Op W) as N. rewrite E in N.
  rewrite map_app in N. cbn [map] in N. apply NoDup_remove_2 in N. apply N.
  apply in_or_app. right. rewrite map_app. apply in_or_app. right. left. reflexivity.
Qed.

(** in a well-formed open statement, a pod that is not Releasing and was not placed has no valid
    evict entry (the clause [wf_cmd] used to contain) *)
Theorem run_no_valid_evict fails S prog pid :
  s_log S = [] -> s_stuck S = false -> forallb open_cmd prog = true ->
  wf_from any_task fails [] false S (prog ++ [Evict pid]) = true ->
  releasing_in (Session.run fails S prog) pid = false ->
  has_placing (s_log (Session.run fails S prog)) pid = false ->
  no_valid_evict (s_log (Session.run fails S prog)) pid = true.
Proof.
  intros L K Op W Nr Hp. destruct (run_once_init fails S prog (Evict pid) L K Op W) as (OK & _ & _ & Ei).
  apply (ei_no_valid_evict _ (Session.run fails S prog)); assumption.
Qed.


(* ------------------------------------------------------------------ Inst *)
Open Scope Z_scope.

(** * The two instances *)

Theorem rollback_restores_partial fails S prog cp :
  s_log S = [] -> s_stuck S = false -> forallb open_cmd prog = true ->
  wf_from any_task fails [] false S (prog ++ [Rollback cp]) = true ->
  exists x, state_at fails S prog cp = Some x /\ srel neq x (Session.run fails S (prog ++ [Rollback cp])).
Proof.
  apply (rollback_restores_gen neq any_task neq_refl neq_sym neq_trans neq_pods neq_set_pods).
  - intros a b t _. apply neq_add.
  - intros a b t _. apply neq_remove.
  - intros a t _. apply neq_rem_add.
  - intros a t _. apply neq_add_rem.
  - reflexivity.
  - reflexivity.
Qed.

Theorem discard_restores_partial fails S prog :
  s_log S = [] -> s_stuck S = false -> forallb open_cmd prog = true ->
  wf_from any_task fails [] false S (prog ++ [Discard]) = true ->
  srel neq S (Session.run fails S (prog ++ [Discard])).
Proof.
  apply (discard_restores_gen neq any_task neq_refl neq_sym neq_trans neq_pods neq_set_pods).
  - intros a b t _. apply neq_add.
  - intros a b t _. apply neq_remove.
  - intros a t _. apply neq_rem_add.
  - intros a t _. apply neq_add_rem.
  - reflexivity.
  - reflexivity.
Qed.

Lemma nonshared_with t s g : nonshared_b (task_with t s g) = nonshared_b t.
Proof. reflexivity. Qed.

Theorem rollback_restores_nonshared fails S prog cp :
  s_log S = [] -> s_stuck S = false -> forallb open_cmd prog = true ->
  wf_from nonshared_b fails [] false S (prog ++ [Rollback cp]) = true ->
  exists x, state_at fails S prog cp = Some x /\ srel eq x (Session.run fails S (prog ++ [Rollback cp])).
Proof.
  apply (rollback_restores_gen eq nonshared_b).
  - reflexivity.
  - intros a b H. symmetry. exact H.
  - intros a b c H1 H2. congruence.
  - intros a b ->. reflexivity.
  - intros a b P ->. reflexivity.
  - intros a b t _ ->. reflexivity.
  - intros a b t _ ->. reflexivity.
  - intros a t T. apply eq_rem_add. exact T.
  - intros a t T. apply eq_add_rem. exact T.
  - exact nonshared_with.
  - reflexivity.
Qed.

Theorem discard_restores_nonshared fails S prog :
  s_log S = [] -> s_stuck S = false -> forallb open_cmd prog = true ->
  wf_from nonshared_b fails [] false S (prog ++ [Discard]) = true ->
  srel eq S (Session.run fails S (prog ++ [Discard])).
Proof.
  apply (discard_restores_gen eq nonshared_b).
  - reflexivity.
  - intros a b H. symmetry. exact H.
  - intros a b c H1 H2. congruence.
  - intros a b ->. reflexivity.
  - intros a b P ->. reflexivity.
  - intros a b t _ ->. reflexivity.
  - intros a b t _ ->. reflexivity.
  - intros a t T. apply eq_rem_add. exact T.
  - intros a t T. apply eq_add_rem. exact T.
  - exact nonshared_with.
  - reflexivity.
Qed.

(** * What the relation says about the projection *)
Lemma jrel_view a b : jrel a b -> job_view a = job_view b.
Proof.
  intros (Q & N & A & C & I & P). unfold job_view. rewrite A, C. f_equal.
  - apply map_ext. intros st. apply I.
  - unfold amapv. revert P. generalize (j_psets a) (j_psets b). intros x y H.
    induction H as [|[k u] [k' v] l l' [Hk (H1 & H2 & H3 & H4)] Hr IH]; cbn [map fst snd] in *; [reflexivity|].
    subst k'. rewrite IH. unfold pset_view. rewrite H1, H2, H3, !H4. reflexivity.
Qed.

Lemma srel_jobs R x y : srel R x y -> d_jobs (project x) = d_jobs (project y).
Proof.
  intros (_ & _ & J & _). cbn [project d_jobs]. unfold amapv.
  induction J as [|[k u] [k' v] l l' [Hk H] Hr IH]; cbn [map fst snd] in *; [reflexivity|].
  subst k'. rewrite IH, (jrel_view _ _ H). reflexivity.
Qed.
Lemma srel_queues R x y : srel R x y -> d_queues (project x) = d_queues (project y).
Proof. intros (_ & _ & _ & Q & _). cbn [project d_queues]. rewrite Q. reflexivity. Qed.
Lemma srel_pods R x y pid : srel R x y ->
  match get_pod x pid, get_pod y pid with
  | Some a, Some b =>
      p_status b = p_status a /\ p_node b = p_node a /\ p_virt b = p_virt a /\ (pmasked a = false -> p_groups b = p_groups a)
  | None, None => True
  | _, _ => False
  end.
Proof.
  intros (_ & P & _). pose proof (amap_rel_lookup prel _ _ pid P) as L. unfold get_pod.
  destruct (alookup pid (s_pods x)) as [a|], (alookup pid (s_pods y)) as [b|]; try exact L.
  pose proof (prel_fields _ _ L) as (F1 & F2 & F3 & _). destruct L as [_ G].
  split; [exact F1|]. split; [exact F2|]. split; [exact F3|]. intros M. rewrite (G M). reflexivity.
Qed.
Lemma srel_nodes R x y nid : srel R x y ->
  match alookup nid (s_nodes x), alookup nid (s_nodes y) with
  | Some a, Some b => R a b
  | None, None => True
  | _, _ => False
  end.
Proof. intros (N & _). apply (amap_rel_lookup R _ _ nid N). Qed.
Lemma srel_eq_nodes x y : srel eq x y -> s_nodes x = s_nodes y.
Proof. intros (N & _). apply amap_rel_eq. exact N. Qed.

(* ------------------------------------------------------------------ witnesses *)
(** * Witnesses.  The sessions are the ones the harness builds with the real
    constructors for its boundary corpus (harness/internal/c13/corpus.go:
    W1-device-guard, W2-stale-gpu-groups, W3-double-evict,
    W9-nominate-on-releasing-device, W10-evict-move-unevict-nested); the same
    programs run on the real framework.Statement on every check. *)
Open Scope Z_scope.
Definition w1_init : sess :=
  (mkSess [(1%positive, (mkNode (mkRes 16000%Z 68719476736%Z 4%Z 110%Z 0%Z 0%Z) (mkRes 15700%Z 68716331008%Z 1%Z 107%Z 0%Z 0%Z) (mkRes 300%Z 3145728%Z 2%Z 3%Z 0%Z 0%Z) (mkRes 100%Z 1048576%Z 1%Z 1%Z 0%Z 0%Z) 4%Z 100%Z [(3%positive, (mkTask 3%positive 2%positive Running KFraction (mkRes 100%Z 1048576%Z 0%Z 1%Z 0%Z 0%Z) 1%Z 50%Z [16%positive] false false)); (5%positive, (mkTask 5%positive 4%positive Releasing KRegular (mkRes 100%Z 1048576%Z 1%Z 1%Z 0%Z 0%Z) 1%Z 0%Z [] false false)); (7%positive, (mkTask 7%positive 6%positive Running KRegular (mkRes 100%Z 1048576%Z 1%Z 1%Z 0%Z 0%Z) 1%Z 0%Z [] false false))] [(16%positive, 50%Z)] [(16%positive, 50%Z)] [] []))] [(3%positive, (mkPod (mkTask 3%positive 2%positive Running KFraction (mkRes 100%Z 1048576%Z 0%Z 1%Z 0%Z 0%Z) 1%Z 50%Z [16%positive] false false) (Some 1%positive) false 10%positive (mkRes 100%Z 1048576%Z 500%Z 0%Z 0%Z 0%Z) (mkRes 100%Z 1048576%Z 500%Z 0%Z 0%Z 0%Z) [(1%positive, 50%Z)] [(1%positive, (mkRes 100%Z 1048576%Z 500%Z 0%Z 0%Z 0%Z))])); (5%positive, (mkPod (mkTask 5%positive 4%positive Releasing KRegular (mkRes 100%Z 1048576%Z 1%Z 1%Z 0%Z 0%Z) 1%Z 0%Z [] false false) (Some 1%positive) false 11%positive (mkRes 100%Z 1048576%Z 1000%Z 0%Z 0%Z 0%Z) (mkRes 100%Z 1048576%Z 1000%Z 0%Z 0%Z 0%Z) [(1%positive, 0%Z)] [(1%positive, (mkRes 100%Z 1048576%Z 1000%Z 0%Z 0%Z 0%Z))])); (7%positive, (mkPod (mkTask 7%positive 6%positive Running KRegular (mkRes 100%Z 1048576%Z 1%Z 1%Z 0%Z 0%Z) 1%Z 0%Z [] false false) (Some 1%positive) false 12%positive (mkRes 100%Z 1048576%Z 1000%Z 0%Z 0%Z 0%Z) (mkRes 100%Z 1048576%Z 1000%Z 0%Z 0%Z 0%Z) [(1%positive, 0%Z)] [(1%positive, (mkRes 100%Z 1048576%Z 1000%Z 0%Z 0%Z 0%Z))])); (9%positive, (mkPod (mkTask 9%positive 8%positive Pending KRegular (mkRes 100%Z 1048576%Z 2%Z 1%Z 0%Z 0%Z) 2%Z 0%Z [] false false) None false 13%positive (mkRes 100%Z 1048576%Z 2000%Z 0%Z 0%Z 0%Z) (mkRes 100%Z 1048576%Z 2000%Z 0%Z 0%Z 0%Z) [(1%positive, 0%Z)] [(1%positive, (mkRes 100%Z 1048576%Z 2000%Z 0%Z 0%Z 0%Z))]))] [(2%positive, (mkJob 15%positive false (mkRes 100%Z 1048576%Z 500%Z 0%Z 0%Z 0%Z) 1%Z [(7%positive, 1%Z)] [(10%positive, (mkPsc 1%Z 1%Z 1%Z [(1%positive, 0%Z); (2%positive, 0%Z)]))])); (4%positive, (mkJob 15%positive false (mkRes 0%Z 0%Z 0%Z 0%Z 0%Z 0%Z) 0%Z [(8%positive, 1%Z)] [(11%positive, (mkPsc 0%Z 1%Z 0%Z [(1%positive, 0%Z); (2%positive, 0%Z)]))])); (6%positive, (mkJob 15%positive false (mkRes 100%Z 1048576%Z 1000%Z 0%Z 0%Z 0%Z) 1%Z [(7%positive, 1%Z)] [(12%positive, (mkPsc 1%Z 1%Z 1%Z [(1%positive, 0%Z); (2%positive, 0%Z)]))])); (8%positive, (mkJob 15%positive false (mkRes 0%Z 0%Z 0%Z 0%Z 0%Z 0%Z) 0%Z [(1%positive, 1%Z)] [(13%positive, (mkPsc 0%Z 0%Z 1%Z [(1%positive, 1%Z); (2%positive, 0%Z)]))]))] [(14%positive, (mkQ None (mkRes 200%Z 2097152%Z 1500%Z 0%Z 0%Z 0%Z) (mkRes 0%Z 0%Z 0%Z 0%Z 0%Z 0%Z))); (15%positive, (mkQ (Some 14%positive) (mkRes 200%Z 2097152%Z 1500%Z 0%Z 0%Z 0%Z) (mkRes 0%Z 0%Z 0%Z 0%Z 0%Z 0%Z)))] [] 0%nat false).
Definition w1_prog : list cmd := [(Pipeline 9%positive 1%positive None false); Checkpoint; (Evict 3%positive); (Rollback 1%nat); Discard].
Definition w2_init : sess :=
  (mkSess [(1%positive, (mkNode (mkRes 16000%Z 68719476736%Z 4%Z 110%Z 0%Z 0%Z) (mkRes 16000%Z 68719476736%Z 4%Z 110%Z 0%Z 0%Z) (mkRes 0%Z 0%Z 0%Z 0%Z 0%Z 0%Z) (mkRes 0%Z 0%Z 0%Z 0%Z 0%Z 0%Z) 4%Z 100%Z [] [] [] [] []))] [(3%positive, (mkPod (mkTask 3%positive 2%positive Pending KFraction (mkRes 100%Z 1048576%Z 0%Z 1%Z 0%Z 0%Z) 1%Z 50%Z [] false false) None false 4%positive (mkRes 100%Z 1048576%Z 500%Z 0%Z 0%Z 0%Z) (mkRes 100%Z 1048576%Z 500%Z 0%Z 0%Z 0%Z) [(1%positive, 50%Z)] [(1%positive, (mkRes 100%Z 1048576%Z 500%Z 0%Z 0%Z 0%Z))]))] [(2%positive, (mkJob 6%positive false (mkRes 0%Z 0%Z 0%Z 0%Z 0%Z 0%Z) 0%Z [(1%positive, 1%Z)] [(4%positive, (mkPsc 0%Z 0%Z 1%Z [(1%positive, 1%Z); (2%positive, 0%Z)]))]))] [(5%positive, (mkQ None (mkRes 0%Z 0%Z 0%Z 0%Z 0%Z 0%Z) (mkRes 0%Z 0%Z 0%Z 0%Z 0%Z 0%Z))); (6%positive, (mkQ (Some 5%positive) (mkRes 0%Z 0%Z 0%Z 0%Z 0%Z 0%Z) (mkRes 0%Z 0%Z 0%Z 0%Z 0%Z 0%Z)))] [] 0%nat false).
Definition w2_prog : list cmd := [Checkpoint; (Pipeline 3%positive 1%positive (Some [7%positive]) false); (Rollback 0%nat)].
Definition w3_init : sess :=
  (mkSess [(1%positive, (mkNode (mkRes 16000%Z 68719476736%Z 4%Z 110%Z 0%Z 0%Z) (mkRes 15900%Z 68718428160%Z 3%Z 109%Z 0%Z 0%Z) (mkRes 100%Z 1048576%Z 1%Z 1%Z 0%Z 0%Z) (mkRes 0%Z 0%Z 0%Z 0%Z 0%Z 0%Z) 4%Z 100%Z [(3%positive, (mkTask 3%positive 2%positive Running KRegular (mkRes 100%Z 1048576%Z 1%Z 1%Z 0%Z 0%Z) 1%Z 0%Z [] false false))] [] [] [] []))] [(3%positive, (mkPod (mkTask 3%positive 2%positive Running KRegular (mkRes 100%Z 1048576%Z 1%Z 1%Z 0%Z 0%Z) 1%Z 0%Z [] false false) (Some 1%positive) false 4%positive (mkRes 100%Z 1048576%Z 1000%Z 0%Z 0%Z 0%Z) (mkRes 100%Z 1048576%Z 1000%Z 0%Z 0%Z 0%Z) [(1%positive, 0%Z)] [(1%positive, (mkRes 100%Z 1048576%Z 1000%Z 0%Z 0%Z 0%Z))]))] [(2%positive, (mkJob 6%positive false (mkRes 100%Z 1048576%Z 1000%Z 0%Z 0%Z 0%Z) 1%Z [(7%positive, 1%Z)] [(4%positive, (mkPsc 1%Z 1%Z 1%Z [(1%positive, 0%Z); (2%positive, 0%Z)]))]))] [(5%positive, (mkQ None (mkRes 100%Z 1048576%Z 1000%Z 0%Z 0%Z 0%Z) (mkRes 0%Z 0%Z 0%Z 0%Z 0%Z 0%Z))); (6%positive, (mkQ (Some 5%positive) (mkRes 100%Z 1048576%Z 1000%Z 0%Z 0%Z 0%Z) (mkRes 0%Z 0%Z 0%Z 0%Z 0%Z 0%Z)))] [] 0%nat false).
Definition w3_prog : list cmd := [(Evict 3%positive); (Evict 3%positive); Commit].
Definition w9_init : sess :=
  (mkSess [(1%positive, (mkNode (mkRes 16000%Z 68719476736%Z 4%Z 110%Z 0%Z 0%Z) (mkRes 15700%Z 68716331008%Z 1%Z 107%Z 0%Z 0%Z) (mkRes 300%Z 3145728%Z 1%Z 3%Z 0%Z 0%Z) (mkRes 100%Z 1048576%Z 1%Z 1%Z 0%Z 0%Z) 4%Z 100%Z [(3%positive, (mkTask 3%positive 2%positive Running KFraction (mkRes 100%Z 1048576%Z 0%Z 1%Z 0%Z 0%Z) 1%Z 50%Z [17%positive] false false)); (5%positive, (mkTask 5%positive 4%positive Running KRegular (mkRes 100%Z 1048576%Z 1%Z 1%Z 0%Z 0%Z) 1%Z 0%Z [] false false)); (7%positive, (mkTask 7%positive 6%positive Releasing KFraction (mkRes 100%Z 1048576%Z 0%Z 1%Z 0%Z 0%Z) 1%Z 25%Z [16%positive] false false))] [(16%positive, 25%Z); (17%positive, 50%Z)] [(16%positive, 25%Z); (17%positive, 50%Z)] [(16%positive, 25%Z)] [(16%positive, tt)]))] [(3%positive, (mkPod (mkTask 3%positive 2%positive Running KFraction (mkRes 100%Z 1048576%Z 0%Z 1%Z 0%Z 0%Z) 1%Z 50%Z [17%positive] false false) (Some 1%positive) false 10%positive (mkRes 100%Z 1048576%Z 500%Z 0%Z 0%Z 0%Z) (mkRes 100%Z 1048576%Z 500%Z 0%Z 0%Z 0%Z) [(1%positive, 50%Z)] [(1%positive, (mkRes 100%Z 1048576%Z 500%Z 0%Z 0%Z 0%Z))])); (5%positive, (mkPod (mkTask 5%positive 4%positive Running KRegular (mkRes 100%Z 1048576%Z 1%Z 1%Z 0%Z 0%Z) 1%Z 0%Z [] false false) (Some 1%positive) false 11%positive (mkRes 100%Z 1048576%Z 1000%Z 0%Z 0%Z 0%Z) (mkRes 100%Z 1048576%Z 1000%Z 0%Z 0%Z 0%Z) [(1%positive, 0%Z)] [(1%positive, (mkRes 100%Z 1048576%Z 1000%Z 0%Z 0%Z 0%Z))])); (7%positive, (mkPod (mkTask 7%positive 6%positive Releasing KFraction (mkRes 100%Z 1048576%Z 0%Z 1%Z 0%Z 0%Z) 1%Z 25%Z [16%positive] false false) (Some 1%positive) false 12%positive (mkRes 100%Z 1048576%Z 250%Z 0%Z 0%Z 0%Z) (mkRes 100%Z 1048576%Z 250%Z 0%Z 0%Z 0%Z) [(1%positive, 25%Z)] [(1%positive, (mkRes 100%Z 1048576%Z 250%Z 0%Z 0%Z 0%Z))])); (9%positive, (mkPod (mkTask 9%positive 8%positive Pending KFraction (mkRes 100%Z 1048576%Z 0%Z 1%Z 0%Z 0%Z) 1%Z 50%Z [] false false) None false 13%positive (mkRes 100%Z 1048576%Z 500%Z 0%Z 0%Z 0%Z) (mkRes 100%Z 1048576%Z 500%Z 0%Z 0%Z 0%Z) [(1%positive, 50%Z)] [(1%positive, (mkRes 100%Z 1048576%Z 500%Z 0%Z 0%Z 0%Z))]))] [(2%positive, (mkJob 15%positive false (mkRes 100%Z 1048576%Z 500%Z 0%Z 0%Z 0%Z) 1%Z [(7%positive, 1%Z)] [(10%positive, (mkPsc 1%Z 1%Z 1%Z [(1%positive, 0%Z); (2%positive, 0%Z)]))])); (4%positive, (mkJob 15%positive false (mkRes 100%Z 1048576%Z 1000%Z 0%Z 0%Z 0%Z) 1%Z [(7%positive, 1%Z)] [(11%positive, (mkPsc 1%Z 1%Z 1%Z [(1%positive, 0%Z); (2%positive, 0%Z)]))])); (6%positive, (mkJob 15%positive false (mkRes 0%Z 0%Z 0%Z 0%Z 0%Z 0%Z) 0%Z [(8%positive, 1%Z)] [(12%positive, (mkPsc 0%Z 1%Z 0%Z [(1%positive, 0%Z); (2%positive, 0%Z)]))])); (8%positive, (mkJob 15%positive false (mkRes 0%Z 0%Z 0%Z 0%Z 0%Z 0%Z) 0%Z [(1%positive, 1%Z)] [(13%positive, (mkPsc 0%Z 0%Z 1%Z [(1%positive, 1%Z); (2%positive, 0%Z)]))]))] [(14%positive, (mkQ None (mkRes 200%Z 2097152%Z 1500%Z 0%Z 0%Z 0%Z) (mkRes 0%Z 0%Z 0%Z 0%Z 0%Z 0%Z))); (15%positive, (mkQ (Some 14%positive) (mkRes 200%Z 2097152%Z 1500%Z 0%Z 0%Z 0%Z) (mkRes 0%Z 0%Z 0%Z 0%Z 0%Z 0%Z)))] [] 0%nat false).
Definition w9_prog : list cmd := [Checkpoint; (Pipeline 9%positive 1%positive (Some [16%positive]) false); (Rollback 0%nat)].
Definition w10_init : sess :=
  (mkSess [(1%positive, (mkNode (mkRes 16000%Z 68719476736%Z 4%Z 110%Z 0%Z 0%Z) (mkRes 15800%Z 68717379584%Z 1%Z 108%Z 0%Z 0%Z) (mkRes 200%Z 2097152%Z 2%Z 2%Z 0%Z 0%Z) (mkRes 0%Z 0%Z 0%Z 0%Z 0%Z 0%Z) 4%Z 100%Z [(4%positive, (mkTask 4%positive 3%positive Running KFraction (mkRes 100%Z 1048576%Z 0%Z 1%Z 0%Z 0%Z) 1%Z 50%Z [14%positive] false false)); (6%positive, (mkTask 6%positive 5%positive Running KRegular (mkRes 100%Z 1048576%Z 2%Z 1%Z 0%Z 0%Z) 2%Z 0%Z [] false false))] [(14%positive, 50%Z)] [(14%positive, 50%Z)] [] [])); (2%positive, (mkNode (mkRes 16000%Z 68719476736%Z 4%Z 110%Z 0%Z 0%Z) (mkRes 16000%Z 68719476736%Z 4%Z 110%Z 0%Z 0%Z) (mkRes 0%Z 0%Z 0%Z 0%Z 0%Z 0%Z) (mkRes 0%Z 0%Z 0%Z 0%Z 0%Z 0%Z) 4%Z 100%Z [] [] [] [] []))] [(4%positive, (mkPod (mkTask 4%positive 3%positive Running KFraction (mkRes 100%Z 1048576%Z 0%Z 1%Z 0%Z 0%Z) 1%Z 50%Z [14%positive] false false) (Some 1%positive) false 9%positive (mkRes 100%Z 1048576%Z 500%Z 0%Z 0%Z 0%Z) (mkRes 100%Z 1048576%Z 500%Z 0%Z 0%Z 0%Z) [(1%positive, 50%Z); (2%positive, 50%Z)] [(1%positive, (mkRes 100%Z 1048576%Z 500%Z 0%Z 0%Z 0%Z)); (2%positive, (mkRes 100%Z 1048576%Z 500%Z 0%Z 0%Z 0%Z))])); (6%positive, (mkPod (mkTask 6%positive 5%positive Running KRegular (mkRes 100%Z 1048576%Z 2%Z 1%Z 0%Z 0%Z) 2%Z 0%Z [] false false) (Some 1%positive) false 10%positive (mkRes 100%Z 1048576%Z 2000%Z 0%Z 0%Z 0%Z) (mkRes 100%Z 1048576%Z 2000%Z 0%Z 0%Z 0%Z) [(1%positive, 0%Z); (2%positive, 0%Z)] [(1%positive, (mkRes 100%Z 1048576%Z 2000%Z 0%Z 0%Z 0%Z)); (2%positive, (mkRes 100%Z 1048576%Z 2000%Z 0%Z 0%Z 0%Z))])); (8%positive, (mkPod (mkTask 8%positive 7%positive Pending KRegular (mkRes 100%Z 1048576%Z 1%Z 1%Z 0%Z 0%Z) 1%Z 0%Z [] false false) None false 11%positive (mkRes 100%Z 1048576%Z 1000%Z 0%Z 0%Z 0%Z) (mkRes 100%Z 1048576%Z 1000%Z 0%Z 0%Z 0%Z) [(1%positive, 0%Z); (2%positive, 0%Z)] [(1%positive, (mkRes 100%Z 1048576%Z 1000%Z 0%Z 0%Z 0%Z)); (2%positive, (mkRes 100%Z 1048576%Z 1000%Z 0%Z 0%Z 0%Z))]))] [(3%positive, (mkJob 13%positive false (mkRes 100%Z 1048576%Z 500%Z 0%Z 0%Z 0%Z) 1%Z [(7%positive, 1%Z)] [(9%positive, (mkPsc 1%Z 1%Z 1%Z [(1%positive, 0%Z); (2%positive, 0%Z)]))])); (5%positive, (mkJob 13%positive false (mkRes 100%Z 1048576%Z 2000%Z 0%Z 0%Z 0%Z) 1%Z [(7%positive, 1%Z)] [(10%positive, (mkPsc 1%Z 1%Z 1%Z [(1%positive, 0%Z); (2%positive, 0%Z)]))])); (7%positive, (mkJob 13%positive false (mkRes 0%Z 0%Z 0%Z 0%Z 0%Z 0%Z) 0%Z [(1%positive, 1%Z)] [(11%positive, (mkPsc 0%Z 0%Z 1%Z [(1%positive, 1%Z); (2%positive, 0%Z)]))]))] [(12%positive, (mkQ None (mkRes 200%Z 2097152%Z 2500%Z 0%Z 0%Z 0%Z) (mkRes 0%Z 0%Z 0%Z 0%Z 0%Z 0%Z))); (13%positive, (mkQ (Some 12%positive) (mkRes 200%Z 2097152%Z 2500%Z 0%Z 0%Z 0%Z) (mkRes 0%Z 0%Z 0%Z 0%Z 0%Z 0%Z)))] [] 0%nat false).
Definition w10_prog : list cmd := [(Evict 4%positive); Checkpoint; (Evict 6%positive); (Pipeline 8%positive 1%positive None false); (Pipeline 4%positive 1%positive (Some [14%positive]) false); Checkpoint; (Pipeline 6%positive 2%positive None false); (Rollback 4%nat); (Rollback 1%nat); Commit].
Definition w11_init : sess :=
  (mkSess [(1%positive, (mkNode (mkRes 16000%Z 68719476736%Z 2%Z 110%Z 0%Z 0%Z) (mkRes 15900%Z 68718428160%Z 1%Z 109%Z 0%Z 0%Z) (mkRes 100%Z 1048576%Z 0%Z 1%Z 0%Z 0%Z) (mkRes 0%Z 0%Z 0%Z 0%Z 0%Z 0%Z) 2%Z 100%Z [(4%positive, (mkTask 4%positive 3%positive Running KMemory (mkRes 100%Z 1048576%Z 0%Z 1%Z 0%Z 0%Z) 1%Z 50%Z [11%positive] false false))] [(11%positive, 50%Z)] [(11%positive, 50%Z)] [] [])); (2%positive, (mkNode (mkRes 16000%Z 68719476736%Z 2%Z 110%Z 0%Z 0%Z) (mkRes 15900%Z 68718428160%Z 1%Z 109%Z 0%Z 0%Z) (mkRes 100%Z 1048576%Z 0%Z 1%Z 0%Z 0%Z) (mkRes 0%Z 0%Z 0%Z 0%Z 0%Z 0%Z) 2%Z 200%Z [(6%positive, (mkTask 6%positive 5%positive Running KFraction (mkRes 100%Z 1048576%Z 0%Z 1%Z 0%Z 0%Z) 1%Z 50%Z [12%positive] false false))] [(12%positive, 50%Z)] [(12%positive, 50%Z)] [] []))] [(4%positive, (mkPod (mkTask 4%positive 3%positive Running KMemory (mkRes 100%Z 1048576%Z 0%Z 1%Z 0%Z 0%Z) 1%Z 50%Z [11%positive] false false) (Some 1%positive) false 7%positive (mkRes 100%Z 1048576%Z 0%Z 0%Z 0%Z 0%Z) (mkRes 100%Z 1048576%Z 500%Z 0%Z 0%Z 0%Z) [(1%positive, 50%Z); (2%positive, 50%Z)] [(1%positive, (mkRes 100%Z 1048576%Z 500%Z 0%Z 0%Z 0%Z)); (2%positive, (mkRes 100%Z 1048576%Z 250%Z 0%Z 0%Z 0%Z))])); (6%positive, (mkPod (mkTask 6%positive 5%positive Running KFraction (mkRes 100%Z 1048576%Z 0%Z 1%Z 0%Z 0%Z) 1%Z 50%Z [12%positive] false false) (Some 2%positive) false 8%positive (mkRes 100%Z 1048576%Z 250%Z 0%Z 0%Z 0%Z) (mkRes 100%Z 1048576%Z 250%Z 0%Z 0%Z 0%Z) [(1%positive, 25%Z); (2%positive, 50%Z)] [(1%positive, (mkRes 100%Z 1048576%Z 250%Z 0%Z 0%Z 0%Z)); (2%positive, (mkRes 100%Z 1048576%Z 250%Z 0%Z 0%Z 0%Z))]))] [(3%positive, (mkJob 10%positive false (mkRes 100%Z 1048576%Z 0%Z 0%Z 0%Z 0%Z) 1%Z [(7%positive, 1%Z)] [(7%positive, (mkPsc 1%Z 1%Z 1%Z [(1%positive, 0%Z); (2%positive, 0%Z)]))])); (5%positive, (mkJob 10%positive false (mkRes 100%Z 1048576%Z 250%Z 0%Z 0%Z 0%Z) 1%Z [(7%positive, 1%Z)] [(8%positive, (mkPsc 1%Z 1%Z 1%Z [(1%positive, 0%Z); (2%positive, 0%Z)]))]))] [(9%positive, (mkQ None (mkRes 200%Z 2097152%Z 750%Z 0%Z 0%Z 0%Z) (mkRes 0%Z 0%Z 0%Z 0%Z 0%Z 0%Z))); (10%positive, (mkQ (Some 9%positive) (mkRes 200%Z 2097152%Z 750%Z 0%Z 0%Z 0%Z) (mkRes 0%Z 0%Z 0%Z 0%Z 0%Z 0%Z)))] [] 0%nat false).
Definition w11_prog : list cmd := [(Evict 4%positive); Checkpoint; (Pipeline 4%positive 2%positive (Some [13%positive]) false); (Rollback 1%nat); (Evict 6%positive); (Pipeline 6%positive 1%positive (Some [11%positive]) false); Discard].
Definition nofail (_ : nat) : bool := false.

(** the full statements *)
Definition rollback_restores_statement : Prop :=
  forall fails S prog cp,
    s_log S = [] -> s_stuck S = false -> forallb open_cmd prog = true ->
    wf_from any_task fails [] false S (prog ++ [Rollback cp]) = true ->
    exists x, state_at fails S prog cp = Some x /\ project x = project (Session.run fails S (prog ++ [Rollback cp])).
Definition discard_restores_statement : Prop :=
  forall fails S prog,
    s_log S = [] -> s_stuck S = false -> forallb open_cmd prog = true ->
    wf_from any_task fails [] false S (prog ++ [Discard]) = true ->
    project S = project (Session.run fails S (prog ++ [Discard])).

Definition node1 (s : sess) : node :=
  match alookup 1%positive (s_nodes s) with Some n => n | None => mkNode rzero rzero rzero rzero 0 0 [] [] [] [] [] end.

(** W1: a 2-GPU pod is nominated on the node; a shared pod is evicted and the
    eviction rolled back: one idle GPU is gone (device-count guard). *)
Theorem rollback_device_guard_witness :
  let prog := [Pipeline 9 1 None false; Checkpoint; Evict 3] in
  wf_from any_task nofail [] false w1_init (prog ++ [Rollback 1]) = true
  /\ forallb open_cmd prog = true
  /\ (exists x, state_at nofail w1_init prog 1 = Some x /\ gpu (n_idle (node1 x)) = 1
        /\ exists t, alookup 3%positive (n_pods (node1 x)) = Some t /\ exposed (tasks_of (node1 x)) t = true)
  /\ gpu (n_idle (node1 (Session.run nofail w1_init (prog ++ [Rollback 1])))) = 0.
Proof.
  cbv zeta. split; [vm_compute; reflexivity|]. split; [reflexivity|]. split.
  - eexists. split; [vm_compute; reflexivity|]. split; [vm_compute; reflexivity|].
    eexists. split; vm_compute; reflexivity.
  - vm_compute. reflexivity.
Qed.

Theorem rollback_restores_refuted : ~ rollback_restores_statement.
Proof.
  intros H.
  destruct (H nofail w1_init [Pipeline 9 1 None false; Checkpoint; Evict 3] 1%nat) as (x & Ex & Ep);
    try (vm_compute; reflexivity).
  vm_compute in Ex. injection Ex as <-. vm_compute in Ep. discriminate Ep.
Qed.

Theorem discard_restores_refuted : ~ discard_restores_statement.
Proof.
  intros H.
  pose proof (H nofail w1_init [Pipeline 9 1 None false; Checkpoint; Evict 3]) as Ep.
  vm_compute in Ep. specialize (Ep eq_refl eq_refl eq_refl eq_refl). discriminate Ep.
Qed.

(** W2: a Pending fractional pod is nominated (the caller sets its GPU groups
    first) and the nomination rolled back: the pod keeps the groups. *)
Theorem rollback_stale_groups_witness :
  wf_from any_task nofail [] false w2_init w2_prog = true
  /\ w2_prog = [Checkpoint; Pipeline 3 1 (Some [7%positive]) false; Rollback 0]
  /\ option_map p_groups (get_pod w2_init 3) = Some []
  /\ option_map p_groups (get_pod (Session.run nofail w2_init w2_prog) 3) = Some [7%positive]
  /\ option_map p_status (get_pod (Session.run nofail w2_init w2_prog) 3) = Some Pending.
Proof. repeat split; vm_compute; reflexivity. Qed.

(** W9: a sharer is nominated onto a device whose only sharer is terminating
    and the nomination withdrawn: the releasing GPU is gone. *)
Theorem rollback_releasing_device_witness :
  wf_from any_task nofail [] false w9_init w9_prog = true
  /\ gpu (n_rel (node1 w9_init)) = 1
  /\ gpu (n_rel (node1 (Session.run nofail w9_init w9_prog))) = 0.
Proof. repeat split; vm_compute; reflexivity. Qed.

(** W3: the same running pod evicted twice.  Before the repair 83a0ca3 + bce7109 the second Evict met a
    virtually evicted pod and recorded a second operation: Commit sent two evictions (the actions
    issued this: former known finding C13-double-evict). *)
Theorem commit_double_evict_before_repair :
  option_map p_status (get_pod w3_init 3) = Some Running
  /\ length (s_log (run_before_repair nofail w3_init [Evict 3; Evict 3])) = 2%nat
  /\ snd (step nofail (run_before_repair nofail w3_init [Evict 3; Evict 3]) Commit) = [AEvict 3; AEvict 3].
Proof. repeat split; vm_compute; reflexivity. Qed.

(** the same program on the code as it is: well-formed, the second Evict changes nothing, one eviction is sent;
    with a checkpoint and a rollback around the second Evict; followed by Unevict (nothing is
    sent); followed by Discard (the projection of the session is the initial one) *)
Theorem commit_evict_twice_once :
  wf_from any_task nofail [] false w3_init ([Evict 3; Evict 3] ++ [Commit]) = true
  /\ forallb open_cmd [Evict 3; Evict 3] = true
  /\ Session.run nofail w3_init [Evict 3; Evict 3] = Session.run nofail w3_init [Evict 3]
  /\ snd (step nofail (Session.run nofail w3_init [Evict 3; Evict 3]) Commit) = [AEvict 3]
  /\ wf_from any_task nofail [] false w3_init ([Evict 3; Checkpoint; Evict 3; Rollback 1] ++ [Commit]) = true
  /\ snd (step nofail (Session.run nofail w3_init [Evict 3; Checkpoint; Evict 3; Rollback 1]) Commit) = [AEvict 3]
  /\ wf_from any_task nofail [] false w3_init ([Evict 3; Evict 3; Unevict 3] ++ [Commit]) = true
  /\ snd (step nofail (Session.run nofail w3_init [Evict 3; Evict 3; Unevict 3]) Commit) = []
  /\ wf_from any_task nofail [] false w3_init ([Evict 3; Evict 3] ++ [Discard]) = true
  /\ project (Session.run nofail w3_init ([Evict 3; Evict 3] ++ [Discard])) = project w3_init.
Proof. repeat split; vm_compute; reflexivity. Qed.

(** Non-vacuity: W10 (evict, nested checkpoints, move to the node's other
    devices / un-evict through Pipeline, rollback of an inner and an outer
    checkpoint, commit) meets the hypotheses of the rollback and commit
    theorems; a program over whole-GPU pods meets those of the exact variant. *)
Definition w10_open : list cmd := firstn 7 w10_prog.
Theorem session_nonvacuous :
  s_log w10_init = [] /\ s_stuck w10_init = false
  /\ forallb open_cmd w10_open = true
  /\ wf_from any_task nofail [] false w10_init (w10_open ++ [Rollback 1]) = true
  /\ length (s_log (Session.run nofail w10_init w10_open)) = 5%nat
  /\ length (s_log (Session.run nofail w10_init (w10_open ++ [Rollback 1]))) = 1%nat
  /\ wf_from any_task nofail [] false w10_init (firstn 9 w10_prog ++ [Commit]) = true
  /\ snd (step nofail (Session.run nofail w10_init (firstn 9 w10_prog)) Commit) <> []
  /\ wf_from nonshared_b nofail [] false w1_init ([Checkpoint; Evict 7; Pipeline 9 1 None false] ++ [Rollback 0]) = true.
Proof. repeat split; try (vm_compute; reflexivity). vm_compute. discriminate. Qed.

(* ------------------------------------------------------------------ statements used by Properties/C13.v *)
Theorem restored_meaning (x y : sess) :
  srel neq x y ->
  d_jobs (project x) = d_jobs (project y)
  /\ d_queues (project x) = d_queues (project y)
  /\ (forall pid,
        match get_pod x pid, get_pod y pid with
        | Some a, Some b =>
            p_status b = p_status a /\ p_node b = p_node a /\ p_virt b = p_virt a
            /\ (pmasked a = false -> p_groups b = p_groups a)
        | None, None => True
        | _, _ => False
        end)
  /\ (forall nid,
        match alookup nid (s_nodes x), alookup nid (s_nodes y) with
        | Some a, Some b =>
            n_alloc a = n_alloc b /\ n_used a = n_used b /\ n_pods a = n_pods b
            /\ eq_nogpu (n_idle a) (n_idle b) /\ eq_nogpu (n_rel a) (n_rel b)
            /\ (forall g, zget g (g_used a) = zget g (g_used b)
                          /\ zget g (g_alloc a) = zget g (g_alloc b)
                          /\ zget g (g_rel a) = zget g (g_rel b))
        | None, None => True
        | _, _ => False
        end).
Proof.
  intros H. split; [eapply srel_jobs; exact H|]. split; [eapply srel_queues; exact H|]. split.
  - intros pid. apply (srel_pods neq x y pid H).
  - intros nid. pose proof (srel_nodes neq x y nid H) as L.
    destruct (alookup nid (s_nodes x)) as [a|], (alookup nid (s_nodes y)) as [b|]; try exact L.
    destruct L as ((A & U & P & I & Rl & G) & _).
    split; [exact A|]. split; [exact U|]. split; [exact P|]. split; [exact I|]. split; [exact Rl|exact G].
Qed.

Theorem rollback_restores_nonshared_nodes fails S prog cp :
  s_log S = [] -> s_stuck S = false -> forallb open_cmd prog = true ->
  wf_from nonshared_b fails [] false S (prog ++ [Rollback cp]) = true ->
  exists x, state_at fails S prog cp = Some x
            /\ s_nodes x = s_nodes (Session.run fails S (prog ++ [Rollback cp]))
            /\ srel eq x (Session.run fails S (prog ++ [Rollback cp])).
Proof.
  intros L K Op W. destruct (rollback_restores_nonshared fails S prog cp L K Op W) as (x & Ex & Sr).
  exists x. split; [exact Ex|]. split; [apply srel_eq_nodes; exact Sr|exact Sr].
Qed.

Theorem discard_restores_nonshared_nodes fails S prog :
  s_log S = [] -> s_stuck S = false -> forallb open_cmd prog = true ->
  wf_from nonshared_b fails [] false S (prog ++ [Discard]) = true ->
  s_nodes S = s_nodes (Session.run fails S (prog ++ [Discard]))
  /\ srel eq S (Session.run fails S (prog ++ [Discard])).
Proof.
  intros L K Op W. pose proof (discard_restores_nonshared fails S prog L K Op W) as Sr.
  split; [apply srel_eq_nodes; exact Sr|exact Sr].
Qed.

Theorem discard_restores_partial_log fails S prog :
  s_log S = [] -> s_stuck S = false -> forallb open_cmd prog = true ->
  wf_from any_task fails [] false S (prog ++ [Discard]) = true ->
  srel neq S (Session.run fails S (prog ++ [Discard]))
  /\ s_log (Session.run fails S (prog ++ [Discard])) = [].
Proof.
  intros L K Op W. split; [apply discard_restores_partial; assumption|].
  destruct (run_once_init fails S prog Discard L K Op W) as (_ & _ & Ks & _).
  rewrite run_app. cbn [Session.run fold_left]. unfold step, step_full. rewrite Ks. reflexivity.
Qed.

(** the accepted resources of a gpu-memory pod depend on the node (W11: nodes with 100 and 200 MiB GPUs) and a
    well-formed program moves such a pod between them and rolls back *)
Theorem hetero_nonvacuous :
  wf_from any_task nofail [] false w11_init w11_prog = true
  /\ exists p, get_pod w11_init 4 = Some p
       /\ option_map gpu (alookup 1%positive (p_qtab p)) = Some 500%Z
       /\ option_map gpu (alookup 2%positive (p_qtab p)) = Some 250%Z.
Proof. split; [vm_compute; reflexivity|]. eexists. split; [vm_compute; reflexivity|]. split; vm_compute; reflexivity. Qed.
