(** Proofs about Model/QuotaGate.v and the capacity-gate clause of C16
    (Model/QuotaGateSpec.v): the decision-level statement follows from "the gate
    does not read the priority" and "more usage never admits"; the modelled gate
    (limit, then non-preemptible quota, along the parent chain) has both
    properties; a gate whose reading of the preemptibility depends on the priority
    has not, and the statement fails for it on a concrete pair. *)
From Coq Require Import List ZArith Bool Lia ZifyBool.
From KaiV Require Import Model.JobOrder Model.JobOrderSpec Model.QuotaGate Model.QuotaGateSpec Proofs.JobOrder.
Import ListNotations.
Set Default Timeout 60.
Open Scope Z_scope.

(** * The statement from the two properties of the gate *)
Theorem gated_decision_proof :
  forall G, gate_independent_of_priority G -> gate_antitone G -> C16_gated_stmt G.
Proof.
  intros G Hind Hanti depth Hd qs qord C qst place cle a b fuel jobs c0 out
         Hrefl Htrans Hshr Hq Hmono Heq Hrep Hsame Hless Hnd Ha Hb Hqok Hal Hin.
  destruct Hsame as (Hsq & _ & Hsr & Hsp).
  refine (C16_decision_proof depth Hd qs qord C (gated_attempt G qst place) cle a b fuel jobs c0 out
                             Hrefl Htrans _ _ _ _ Hsq Hless Hnd Ha Hb Hqok Hal Hin).
  - intros j c c' r H. unfold gated_attempt in H.
    destruct (G (qst c) j) as [[| |]| |]; try discriminate. eapply Hshr; eassumption.
  - intros c c' Hc Hf. unfold fits, gated_attempt in *.
    destruct (G (qst c') a) as [[| |]| |] eqn:E; try discriminate.
    rewrite (Hanti _ _ _ (Hq _ _ Hc) E). exact (Hmono c c' Hc Hf).
  - intros c. unfold fits, gated_attempt. rewrite (Hind (qst c) a b Hsq Hsr Hsp).
    destruct (G (qst c) b) as [[| |]| |]; try reflexivity. exact (Heq c).
  - intros j c c' j' H. unfold gated_attempt in H.
    destruct (G (qst c) j) as [[| |]| |]; try discriminate. eapply Hrep; eassumption.
Qed.

(** * The modelled gate does not read the priority *)
Lemma gate_with_independent :
  forall ispre : job -> bool,
    (forall a b, j_pre a = j_pre b -> ispre a = ispre b) ->
    gate_independent_of_priority (job_over_queue_capacity_with ispre)
    /\ gate_independent_of_priority (np_job_over_quota_with ispre).
Proof.
  intros ispre Hp. split; intros st a b Hq Hr Hpre;
    unfold job_over_queue_capacity_with, np_job_over_quota_with;
    rewrite Hq, Hr, (Hp a b Hpre); reflexivity.
Qed.

Lemma is_preemptible_job_reads_pre : forall a b, j_pre a = j_pre b -> is_preemptible_job a = is_preemptible_job b.
Proof. intros a b H. unfold is_preemptible_job. now rewrite H. Qed.

Theorem gate_independent_of_priority_proof :
  gate_independent_of_priority job_over_queue_capacity /\ gate_independent_of_priority np_job_over_quota.
Proof. exact (gate_with_independent is_preemptible_job is_preemptible_job_reads_pre). Qed.

(** changing nothing but the priority of a job does not change a verdict *)
Definition with_prio (j : job) (p : Z) : job :=
  {| j_uid := j_uid j; j_queue := j_queue j; j_prio := p; j_subgroups := j_subgroups j;
     j_ctime := j_ctime j; j_shape := j_shape j; j_pre := j_pre j; j_req := j_req j; j_last_start := j_last_start j |}.

Lemma gate_ignores_priority_proof :
  forall st j p, job_over_queue_capacity st (with_prio j p) = job_over_queue_capacity st j
                 /\ np_job_over_quota st (with_prio j p) = np_job_over_quota st j.
Proof.
  intros st j p. destruct gate_independent_of_priority_proof as [H1 H2].
  split; [apply H1 | apply H2]; reflexivity.
Qed.

(** * More usage never admits *)
Lemma Forall2_refl : forall (A : Type) (R : A -> A -> Prop), (forall x, R x x) -> forall l, Forall2 R l l.
Proof. intros A R HR l. induction l; constructor; auto. Qed.

Lemma Forall2_trans : forall (A : Type) (R : A -> A -> Prop),
    (forall x y z, R x y -> R y z -> R x z) -> forall l1 l2 l3, Forall2 R l1 l2 -> Forall2 R l2 l3 -> Forall2 R l1 l3.
Proof.
  intros A R HR l1 l2 l3 H12. revert l3. induction H12 as [|x y l1 l2 Hxy _ IH]; intros l3 H23.
  - inversion H23. constructor.
  - inversion H23 as [|y' z l2' l3' Hyz Hr]; subst. constructor; eauto.
Qed.

Lemma share_le_refl : forall s, share_le s s.
Proof. intros s. unfold share_le. repeat split; lia. Qed.
Lemma share_le_trans : forall x y z, share_le x y -> share_le y z -> share_le x z.
Proof. unfold share_le. intros x y z (A1 & A2 & A3 & A4) (B1 & B2 & B3 & B4). repeat split; lia. Qed.
Lemma qattr_le_refl : forall a, qattr_le a a.
Proof. intros a. repeat split. apply Forall2_refl, share_le_refl. Qed.
Lemma qattr_le_trans : forall x y z, qattr_le x y -> qattr_le y z -> qattr_le x z.
Proof.
  intros x y z (A1 & A2 & A3) (B1 & B2 & B3). repeat split; try congruence.
  eapply Forall2_trans; eauto using share_le_trans.
Qed.
Lemma qstate_le_refl : forall st, qstate_le st st.
Proof. apply Forall2_refl, qattr_le_refl. Qed.
Lemma qstate_le_trans : forall x y z, qstate_le x y -> qstate_le y z -> qstate_le x z.
Proof. apply Forall2_trans, qattr_le_trans. Qed.

Lemma find_q_le : forall st st' q, qstate_le st st' ->
    match find_q st q, find_q st' q with
    | Some a, Some a' => qattr_le a a'
    | None, None => True
    | _, _ => False
    end.
Proof.
  intros st st' q H. induction H as [|x y l l' Hxy _ IH]; cbn [find_q]; [trivial|].
  pose proof Hxy as (Hid & _). rewrite <- Hid. destruct (qa_id x =? q); [exact Hxy | exact IH].
Qed.

Lemma share_over_limit_le : forall s s' r, share_le s s' -> share_over_limit s' r = false -> share_over_limit s r = false.
Proof.
  intros s s' r (Hd & Hm & Ha & Hn) H. unfold share_over_limit in *. rewrite Hm.
  destruct (rs_max_allowed s' =? unlimited); auto. destruct (r =? 0); auto. lia.
Qed.

Lemma share_np_over_quota_le : forall s s' r, share_le s s' -> share_np_over_quota s' r = false -> share_np_over_quota s r = false.
Proof.
  intros s s' r (Hd & Hm & Ha & Hn) H. unfold share_np_over_quota in *. rewrite Hd.
  destruct (rs_deserved s' =? unlimited); auto. destruct (r =? 0); auto. lia.
Qed.

Lemma any_resource_le : forall check,
    (forall s s' r, share_le s s' -> check s' r = false -> check s r = false) ->
    forall sh sh' req, Forall2 share_le sh sh' -> any_resource check sh' req = false -> any_resource check sh req = false.
Proof.
  intros check Hc sh sh' req H. revert req. induction H as [|x y l l' Hxy _ IH]; intros req Hr; [reflexivity|].
  destruct req as [|r rr]; [reflexivity|]. cbn [any_resource] in *.
  apply orb_false_iff in Hr as [H1 H2]. apply orb_false_iff. split; eauto.
Qed.

Lemma chain_any_le : forall p,
    (forall a a', qattr_le a a' -> p a' = false -> p a = false) ->
    forall f st st' q, qstate_le st st' -> chain_any f st' q p = Ok false -> chain_any f st q p = Ok false.
Proof.
  intros p Hp f. induction f as [|f IH]; intros st st' q Hle H; cbn [chain_any] in *; [discriminate|].
  destruct q as [id|]; [|reflexivity].
  pose proof (find_q_le st st' id Hle) as Hf.
  destruct (find_q st id) as [a|], (find_q st' id) as [a'|]; try contradiction; [|reflexivity].
  destruct (p a') eqn:E; [discriminate|]. rewrite (Hp a a' Hf E).
  destruct Hf as (_ & Hpar & _). rewrite Hpar. eapply IH; eassumption.
Qed.

Lemma chain_fuel_le : forall st st', qstate_le st st' -> chain_fuel st = chain_fuel st'.
Proof. intros st st' H. unfold chain_fuel. f_equal. induction H; cbn [length]; congruence. Qed.

Lemma results_over_limit_le : forall st st' q req,
    qstate_le st st' -> results_over_limit st' q req = Ok false -> results_over_limit st q req = Ok false.
Proof.
  intros st st' q req Hle H. unfold results_over_limit in *. rewrite (chain_fuel_le st st' Hle).
  eapply chain_any_le; [|eassumption|eassumption].
  intros a a' (_ & _ & Hs). apply any_resource_le; [apply share_over_limit_le | exact Hs].
Qed.

Lemma results_np_over_quota_le : forall pre st st' q req,
    qstate_le st st' -> results_np_over_quota pre st' q req = Ok false -> results_np_over_quota pre st q req = Ok false.
Proof.
  intros pre st st' q req Hle H. unfold results_np_over_quota in *. destruct pre; [reflexivity|].
  rewrite (chain_fuel_le st st' Hle).
  eapply chain_any_le; [|eassumption|eassumption].
  intros a a' (_ & _ & Hs). apply any_resource_le; [apply share_np_over_quota_le | exact Hs].
Qed.

Theorem gate_with_antitone : forall ispre, gate_antitone (job_over_queue_capacity_with ispre).
Proof.
  intros ispre st st' j Hle H. unfold job_over_queue_capacity_with, over_queue_capacity, bind in *.
  destruct (results_over_limit st' (j_queue j) (j_req j)) as [[|]| |] eqn:E1; try discriminate.
  destruct (results_np_over_quota (ispre j) st' (j_queue j) (j_req j)) as [[|]| |] eqn:E2; try discriminate.
  rewrite (results_over_limit_le _ _ _ _ Hle E1), (results_np_over_quota_le _ _ _ _ _ Hle E2). reflexivity.
Qed.

Theorem gate_antitone_proof : gate_antitone job_over_queue_capacity.
Proof. exact (gate_with_antitone is_preemptible_job). Qed.

(** the decision-level statement for the allocate loop with the modelled gate *)
Theorem gated_decision_capacity_gate_proof : C16_gated_stmt job_over_queue_capacity.
Proof.
  apply gated_decision_proof; [exact (proj1 gate_independent_of_priority_proof) | exact gate_antitone_proof].
Qed.

(** * Accounting an allocation only adds usage *)
Lemma add_shares_le : forall np sh req, Forall (fun r => 0 <= r) req -> Forall2 share_le sh (add_shares np sh req).
Proof.
  intros np sh. induction sh as [|s ss IH]; intros req Hreq.
  - destruct req; constructor.
  - destruct req as [|r rr]; cbn [add_shares].
    + apply Forall2_refl, share_le_refl.
    + inversion Hreq as [|? ? Hr Hrr]; subst. constructor; [|apply IH; exact Hrr].
      unfold share_le, add_share; cbn. destruct np; repeat split; lia.
Qed.

Lemma set_q_le : forall st qa qa', find_q st (qa_id qa') = Some qa -> qattr_le qa qa' -> qstate_le st (set_q st qa').
Proof.
  induction st as [|x r IH]; intros qa qa' Hf Hle; cbn [find_q set_q] in *; [discriminate|].
  destruct (qa_id x =? qa_id qa').
  - injection Hf as ->. constructor; [exact Hle | apply qstate_le_refl].
  - constructor; [apply qattr_le_refl | eapply IH; eassumption].
Qed.

Lemma find_q_id : forall st q qa, find_q st q = Some qa -> qa_id qa = q.
Proof.
  induction st as [|x r IH]; intros q qa H; cbn [find_q] in H; [discriminate|].
  destruct (qa_id x =? q) eqn:E; [injection H as <-; lia | eauto].
Qed.

Lemma account_chain_le : forall np req, Forall (fun r => 0 <= r) req ->
    forall f st q st', account_chain f st q np req = Ok st' -> qstate_le st st'.
Proof.
  intros np req Hreq f. induction f as [|f IH]; intros st q st' H; cbn [account_chain] in H; [discriminate|].
  destruct q as [id|]; [|injection H as <-; apply qstate_le_refl].
  destruct (find_q st id) as [qa|] eqn:Ef; [|injection H as <-; apply qstate_le_refl].
  apply IH in H. eapply qstate_le_trans; [|exact H].
  eapply set_q_le.
  - cbn [qa_id]. rewrite (find_q_id _ _ _ Ef). exact Ef.
  - repeat split. cbn [qa_shares]. apply add_shares_le, Hreq.
Qed.

Theorem account_le_proof : forall ispre st j st',
    Forall (fun r => 0 <= r) (j_req j) -> account ispre st j = Ok st' -> qstate_le st st'.
Proof. intros ispre st j st' Hreq H. unfold account in H. eapply account_chain_le; eassumption. Qed.

(** * A gate that reads the priority *)
Definition gate_below_build : gate := job_over_queue_capacity_with is_preemptible_job_below_build.

Definition gw_unl : rshare := {| rs_deserved := -1; rs_max_allowed := -1; rs_allocated := 0; rs_allocated_np := 0 |}.
(** one leaf queue with a quota of one GPU, taken by a non-preemptible allocation *)
Definition gw_st : qstate :=
  [ {| qa_id := 1; qa_parent := None;
       qa_shares := [gw_unl; gw_unl;
                     {| rs_deserved := 1000; rs_max_allowed := -1; rs_allocated := 1000; rs_allocated_np := 1000 |}] |} ].
Definition gw_job (uid prio : Z) : job :=
  {| j_uid := uid; j_queue := 1; j_prio := prio; j_subgroups := [(0, 1)]; j_ctime := 0; j_shape := 0;
     j_pre := PPreemptible; j_req := [0; 0; 1000]; j_last_start := None |}.
(** both say "preemptible" explicitly; [gw_a] has priority 125, [gw_b] priority 50 *)
Definition gw_a : job := gw_job 1 125.
Definition gw_b : job := gw_job 2 50.

(** placement: the session state is the queue usage and the free GPUs (thousandths);
    a job is placed when its GPUs are free, its usage is accounted *)
Definition gw_gpus (j : job) : Z := nth 2 (j_req j) 0.
Definition gw_place (ispre : job -> bool) (j : job) (c : qstate * Z) : option ((qstate * Z) * option job) :=
  if forallb (fun r => 0 <=? r) (j_req j) && (gw_gpus j <=? snd c)
  then Some ((match account ispre (fst c) j with Ok st' => st' | _ => fst c end, snd c - gw_gpus j), None)
  else None.
Definition gw_cle (c' c : qstate * Z) : Prop := qstate_le (fst c) (fst c') /\ snd c' <= snd c.

Lemma gate_below_build_reads_priority :
  same_workload gw_a gw_b /\ job_less gw_a gw_b = true
  /\ gate_below_build gw_st gw_a = Ok NonPreemptibleOverQuota
  /\ gate_below_build gw_st gw_b = Ok Schedulable
  /\ job_over_queue_capacity gw_st gw_a = Ok Schedulable
  /\ job_over_queue_capacity gw_st gw_b = Ok Schedulable.
Proof. repeat split; vm_compute; reflexivity. Qed.

Lemma gate_below_build_not_independent : ~ gate_independent_of_priority gate_below_build.
Proof.
  intros H. specialize (H gw_st gw_a gw_b eq_refl eq_refl eq_refl). vm_compute in H. discriminate.
Qed.

Lemma gw_runs :
  allocate w_qs w_qord (-1) (gated_attempt gate_below_build fst (gw_place is_preemptible_job_below_build)) 10
           [gw_b; gw_a] (gw_st, 1000)
  = Ok [(gw_a, false); (gw_b, true)]
  /\ allocate w_qs w_qord (-1) (gated_attempt job_over_queue_capacity fst (gw_place is_preemptible_job)) 10
              [gw_b; gw_a] (gw_st, 1000)
     = Ok [(gw_a, true); (gw_b, false)].
Proof. split; vm_compute; reflexivity. Qed.

Lemma nth_nonneg : forall (l : list Z) n, forallb (fun r => 0 <=? r) l = true -> 0 <= nth n l 0.
Proof.
  induction l as [|x l IH]; intros [|n] H; cbn [nth]; try lia;
    cbn [forallb] in H; apply andb_true_iff in H as [H1 H2]; [lia | auto].
Qed.

Lemma gw_place_inv : forall ispre j c c' r,
    gw_place ispre j c = Some (c', r) ->
    forallb (fun r => 0 <=? r) (j_req j) = true /\ gw_gpus j <= snd c /\ r = None
    /\ c' = (match account ispre (fst c) j with Ok st' => st' | _ => fst c end, snd c - gw_gpus j).
Proof.
  intros ispre j c c' r H. unfold gw_place in H.
  destruct (forallb (fun r0 => 0 <=? r0) (j_req j)) eqn:Ereq; [|discriminate].
  destruct (gw_gpus j <=? snd c) eqn:Eg; [|discriminate]. cbn [andb] in H.
  injection H as <- <-. repeat split. lia.
Qed.

Lemma gw_fits : forall ispre j c,
    fits (gw_place ispre) j c = forallb (fun r => 0 <=? r) (j_req j) && (gw_gpus j <=? snd c).
Proof.
  intros ispre j c. unfold fits, gw_place.
  destruct (forallb (fun r => 0 <=? r) (j_req j) && (gw_gpus j <=? snd c)); reflexivity.
Qed.

Lemma gw_place_hyps : forall ispre,
    (forall c, gw_cle c c)
    /\ (forall c1 c2 c3, gw_cle c1 c2 -> gw_cle c2 c3 -> gw_cle c1 c3)
    /\ (forall j c c' r, gw_place ispre j c = Some (c', r) -> gw_cle c' c)
    /\ (forall c c', gw_cle c' c -> qstate_le (fst c) (fst c'))
    /\ (forall c c', gw_cle c' c -> fits (gw_place ispre) gw_a c' = true -> fits (gw_place ispre) gw_a c = true)
    /\ (forall c, fits (gw_place ispre) gw_a c = fits (gw_place ispre) gw_b c)
    /\ repush_same_job (gw_place ispre).
Proof.
  intros ispre. split; [|split; [|split; [|split; [|split; [|split]]]]].
  - intros c. split; [apply qstate_le_refl | lia].
  - intros c1 c2 c3 [H1 H2] [H3 H4]. split; [eapply qstate_le_trans; eassumption | lia].
  - intros j c c' r H. apply gw_place_inv in H as (Hreq & Hg & _ & ->). split; cbn [fst snd].
    + destruct (account ispre (fst c) j) as [st'| |] eqn:Ea; try apply qstate_le_refl.
      eapply account_le_proof; [|exact Ea].
      apply Forall_forall. intros x Hx. rewrite forallb_forall in Hreq. specialize (Hreq x Hx). lia.
    + pose proof (nth_nonneg (j_req j) 2 Hreq) as Hn. unfold gw_gpus. lia.
  - intros c c' [H _]. exact H.
  - intros c c' [_ H]. rewrite !gw_fits. intros Hf. apply andb_true_iff in Hf as [H1 H2].
    apply andb_true_iff. split; [exact H1 | lia].
  - intros c. rewrite !gw_fits. reflexivity.
  - intros j c c' j' H. apply gw_place_inv in H as (_ & _ & Hr & _). discriminate.
Qed.

(** non-vacuity of [C16_gated_stmt]: the concrete placement meets every hypothesis
    on [place], [gw_a] and [gw_b] are identical workloads in the order a, b, and the
    loop with the modelled gate places [gw_a]; with the gate that reads the priority
    the same hypotheses hold and the conclusion fails *)
Theorem gated_nonvacuous_and_refuted :
  (forall ispre,
      (forall c, gw_cle c c)
      /\ (forall c1 c2 c3, gw_cle c1 c2 -> gw_cle c2 c3 -> gw_cle c1 c3)
      /\ (forall j c c' r, gw_place ispre j c = Some (c', r) -> gw_cle c' c)
      /\ (forall c c', gw_cle c' c -> qstate_le (fst c) (fst c'))
      /\ (forall c c', gw_cle c' c -> fits (gw_place ispre) gw_a c' = true -> fits (gw_place ispre) gw_a c = true)
      /\ (forall c, fits (gw_place ispre) gw_a c = fits (gw_place ispre) gw_b c)
      /\ repush_same_job (gw_place ispre))
  /\ same_workload gw_a gw_b /\ job_less gw_a gw_b = true
  /\ NoDup (map j_uid [gw_b; gw_a]) /\ queue_ok w_qs (j_queue gw_a) = true
  /\ allocate w_qs w_qord (-1) (gated_attempt job_over_queue_capacity fst (gw_place is_preemptible_job)) 10
              [gw_b; gw_a] (gw_st, 1000)
     = Ok [(gw_a, true); (gw_b, false)]
  /\ allocate w_qs w_qord (-1) (gated_attempt gate_below_build fst (gw_place is_preemptible_job_below_build)) 10
              [gw_b; gw_a] (gw_st, 1000)
     = Ok [(gw_a, false); (gw_b, true)]
  /\ gate_antitone gate_below_build
  /\ ~ gate_independent_of_priority gate_below_build
  /\ ~ C16_gated_stmt gate_below_build.
Proof.
  split; [exact gw_place_hyps|].
  destruct gate_below_build_reads_priority as (Hsame & Hless & _).
  destruct gw_runs as [Hbad Hgood].
  split; [exact Hsame|]. split; [exact Hless|].
  split; [repeat constructor; cbn; intuition discriminate|].
  split; [vm_compute; reflexivity|].
  split; [exact Hgood|]. split; [exact Hbad|].
  split; [exact (gate_with_antitone is_preemptible_job_below_build)|].
  split; [exact gate_below_build_not_independent|].
  intros Hstmt.
  destruct (gw_place_hyps is_preemptible_job_below_build) as (H1 & H2 & H3 & H4 & H5 & H6 & H7).
  assert (Hnd : NoDup (map j_uid [gw_b; gw_a])) by (repeat constructor; cbn; intuition discriminate).
  assert (Hqok : queue_ok w_qs (j_queue gw_a) = true) by (vm_compute; reflexivity).
  pose proof (Hstmt (-1) ltac:(lia) w_qs w_qord (qstate * Z)%type fst (gw_place is_preemptible_job_below_build) gw_cle
                    gw_a gw_b 10%nat [gw_b; gw_a] (gw_st, 1000) _ H1 H2 H3 H4 H5 H6 H7 Hsame Hless Hnd
                    (or_intror (or_introl eq_refl)) (or_introl eq_refl) Hqok Hbad
                    (or_intror (or_introl eq_refl))) as Hin.
  cbn in Hin. destruct Hin as [Hin|[Hin|[]]]; inversion Hin.
Qed.

Lemma gate_witness_proof :
  gate_below_build gw_st gw_a = Ok NonPreemptibleOverQuota
  /\ gate_below_build gw_st gw_b = Ok Schedulable
  /\ job_over_queue_capacity gw_st gw_a = Ok Schedulable
  /\ job_over_queue_capacity gw_st gw_b = Ok Schedulable
  /\ calculate_preemptibility PPreemptible 125 = PPreemptible
  /\ calculate_preemptibility PUnset 125 = PNonPreemptible
  /\ calculate_preemptibility PUnset 99 = PPreemptible.
Proof.
  destruct gate_below_build_reads_priority as (_ & _ & H1 & H2 & H3 & H4).
  repeat split; try assumption; reflexivity.
Qed.
