(** Proofs for property C15: the saturation multiplier (Model/ClosedSystemMult.v).
    - the documented test is monotone in the multiplier: a larger multiplier only refuses more
      ([saturation_ok_mono], [reclaim_ok_mono], [run_mono]); in particular for every m >= 1 whatever the gate admits
      is admitted at m = 1;
    - hence every closed system built on the gate at m >= 1 is a sub-system of the one at m = 1 (same states, fewer
      cycles, fewer evicting cycles), and "no lasso" / "finitely many evicting cycles" proved at m = 1 carry over
      ([no_lasso_sub], [class_lift], [sized_lift], [ordered_lift]);
    - with the multiplier on the sibling's side the test at m is the documented test at 1/m ([sibling_is_inverse]):
      identical at 1, a lasso for the valid multiplier 5/2 ([sibling_lasso]); on the numbers of seeded/C15-4/README.md it
      admits at m = 2 and m = 3 the reclaim that the documented test refuses for every m >= 1 ([readme_numbers]). *)
Set Default Timeout 60.
From Coq Require Import List ZArith Bool Lia QArith.
From KaiV Require Import Model.ClosedSystem Model.ClosedSystemMult Proofs.ClosedSystem Proofs.ClosedSystemOrder
  Proofs.ClosedSystemSize.
Import ListNotations.
Open Scope Z_scope.

(** * the gate of the class is [reclaim_ok_with saturation_ok] *)
Lemma reclaim_ok_with_std : forall m p s j v, reclaim_ok_with saturation_ok m p s j v = reclaim_ok m p s j v.
Proof. reflexivity. Qed.
Lemma apply_with_std : forall m p s d, apply_with saturation_ok m p s d = apply m p s d.
Proof. intros m p s [j|j v|j v]; reflexivity. Qed.
Lemma run_with_std : forall m p ds s, run_with saturation_ok m p s ds = run m p s ds.
Proof.
  intros m p ds. induction ds as [|d r IH]; intros s; cbn [run_with run]; [reflexivity|].
  rewrite apply_with_std. destruct (apply m p s d); [apply IH|reflexivity].
Qed.

(** * monotone in the multiplier *)
Lemma sat_core_mono : forall mn md mn' md' x y Fr Fe,
  0 < md -> 0 < md' -> mn * md' <= mn' * md -> 0 < Fr -> Fr < x -> 0 < Fe ->
  y * Fr * md <= x * mn * Fe -> y * Fr * md' <= x * mn' * Fe.
Proof.
  intros mn md mn' md' x y Fr Fe Hmd Hmd' Hle HFr Hx HFe H.
  assert (Hxf : 0 < x * Fe) by nia.
  assert (H1 : y * Fr * md * md' <= x * mn * Fe * md') by (apply Z.mul_le_mono_nonneg_r; lia).
  assert (H2 : x * Fe * (mn * md') <= x * Fe * (mn' * md)) by (apply Z.mul_le_mono_nonneg_l; lia).
  assert (H3 : (y * Fr * md') * md <= (x * mn' * Fe) * md) by nia.
  apply Z.mul_le_mono_pos_r in H3; assumption.
Qed.

(** a larger multiplier refuses more: what the test admits at m' it admits at every m <= m' *)
Lemma saturation_ok_mono : forall mn md mn' md' sz ar Fr ae Fe,
  0 < md -> 0 < md' -> mn * md' <= mn' * md -> 0 <= Fr ->
  saturation_ok mn' md' sz ar Fr ae Fe = true -> saturation_ok mn md sz ar Fr ae Fe = true.
Proof.
  intros mn md mn' md' sz ar Fr ae Fe Hmd Hmd' Hle HFr H. unfold saturation_ok in *. cbv zeta in *.
  apply negb_true_iff in H. apply negb_true_iff.
  destruct (Fr <? ar + sz) eqn:E1; [|reflexivity].
  destruct (0 <? Fe) eqn:E2; [|reflexivity]. cbn [andb] in *.
  destruct (Fr =? 0) eqn:E0; [exact H|].
  apply Z.ltb_lt in E1. apply Z.ltb_lt in E2. apply Z.eqb_neq in E0.
  apply Z.leb_gt in H. apply Z.leb_gt.
  destruct (Z_le_gt_dec ((ae - sz) * Fr * md) ((ar + sz) * mn * Fe)) as [C|C]; [|lia].
  exfalso.
  pose proof (sat_core_mono mn md mn' md' (ar + sz) (ae - sz) Fr Fe Hmd Hmd' Hle ltac:(lia) E1 E2 C). lia.
Qed.

Lemma saturation_ok_sized_mono_mult : forall mn md mn' md' gz cz ar Fr ae Fe,
  0 < md -> 0 < md' -> mn * md' <= mn' * md -> 0 <= Fr ->
  saturation_ok_sized mn' md' gz cz ar Fr ae Fe = true -> saturation_ok_sized mn md gz cz ar Fr ae Fe = true.
Proof.
  intros mn md mn' md' gz cz ar Fr ae Fe Hmd Hmd' Hle HFr H. unfold saturation_ok_sized in *. cbv zeta in *.
  apply negb_true_iff in H. apply negb_true_iff.
  destruct (Fr <? ar + gz) eqn:E1; [|reflexivity].
  destruct (0 <? Fe) eqn:E2; [|reflexivity]. cbn [andb] in *.
  destruct (Fr =? 0) eqn:E0; [exact H|].
  apply Z.ltb_lt in E1. apply Z.ltb_lt in E2. apply Z.eqb_neq in E0.
  apply Z.leb_gt in H. apply Z.leb_gt.
  destruct (Z_le_gt_dec ((ae - cz) * Fr * md) ((ar + gz) * mn * Fe)) as [C|C]; [|lia].
  exfalso.
  pose proof (sat_core_mono mn md mn' md' (ar + gz) (ae - cz) Fr Fe Hmd Hmd' Hle ltac:(lia) E1 E2 C). lia.
Qed.

(** the gate with saturation test [sat1] at [m1] admits only what the gate with [sat2] at [m2] admits, when that
    holds for the tests on the department shares of the world *)
Lemma reclaim_ok_with_impl : forall (sat1 sat2 : sat_test) m1 m2 p s j v,
  (forall P P' sz ar ae, In P (p_depts p) -> In P' (p_depts p) ->
     sat1 (fst m1) (snd m1) sz ar (d_fair P) ae (d_fair P') = true ->
     sat2 (fst m2) (snd m2) sz ar (d_fair P) ae (d_fair P') = true) ->
  reclaim_ok_with sat1 m1 p s j v = true -> reclaim_ok_with sat2 m2 p s j v = true.
Proof.
  intros sat1 sat2 m1 m2 p s j v Hs H. unfold reclaim_ok_with in *.
  destruct (find_job (p_jobs p) j) as [J|]; [|discriminate].
  destruct (find_job (p_jobs p) v) as [V|]; [|discriminate].
  destruct (find_queue (p_queues p) (j_queue J)) as [Q|]; [|discriminate].
  destruct (find_queue (p_queues p) (j_queue V)) as [Q'|]; [|discriminate].
  apply andb_prop in H as [H H5]. rewrite H. cbn [andb].
  destruct (Pos.eqb (q_dept Q) (q_dept Q')); [exact H5|].
  destruct (find_dept (p_depts p) (q_dept Q)) as [P|] eqn:EP; [|discriminate].
  destruct (find_dept (p_depts p) (q_dept Q')) as [P'|] eqn:EP'; [|discriminate].
  apply andb_prop in H5 as [H51 H52]. rewrite H51. cbn [andb].
  apply Hs; [exact (proj2 (find_dept_some _ _ _ EP))|exact (proj2 (find_dept_some _ _ _ EP'))|exact H52].
Qed.

Lemma apply_with_impl : forall (sat1 sat2 : sat_test) m1 m2 p,
  (forall s j v, reclaim_ok_with sat1 m1 p s j v = true -> reclaim_ok_with sat2 m2 p s j v = true) ->
  forall s d s', apply_with sat1 m1 p s d = Some s' -> apply_with sat2 m2 p s d = Some s'.
Proof.
  intros sat1 sat2 m1 m2 p Hg s d s' H. destruct d as [j|j v|j v]; cbn [apply_with] in *; try exact H.
  destruct (reclaim_ok_with sat1 m1 p s j v) eqn:E; [|discriminate]. now rewrite (Hg s j v E).
Qed.
Lemma run_with_impl : forall (sat1 sat2 : sat_test) m1 m2 p,
  (forall s j v, reclaim_ok_with sat1 m1 p s j v = true -> reclaim_ok_with sat2 m2 p s j v = true) ->
  forall ds s s', run_with sat1 m1 p s ds = Some s' -> run_with sat2 m2 p s ds = Some s'.
Proof.
  intros sat1 sat2 m1 m2 p Hg ds. induction ds as [|d r IH]; intros s s' H; cbn [run_with] in *; [exact H|].
  destruct (apply_with sat1 m1 p s d) as [s1|] eqn:E; [|discriminate].
  rewrite (apply_with_impl sat1 sat2 m1 m2 p Hg s d s1 E). now apply IH.
Qed.

(** the gate of the class: m <= m' and the gate admits at m'  ==>  it admits at m *)
Theorem reclaim_ok_mono : forall m m' p s j v,
  wf_paramsb p = true -> 0 < snd m -> 0 < snd m' -> mult_le m m' ->
  reclaim_ok m' p s j v = true -> reclaim_ok m p s j v = true.
Proof.
  intros m m' p s j v W Hd Hd' Hle H. apply wf_paramsb_wf in W.
  rewrite <- reclaim_ok_with_std in *. revert H. apply reclaim_ok_with_impl.
  intros P P' sz ar ae HP HP'. destruct (wf_dept p W P HP) as [HF _].
  apply saturation_ok_mono; try assumption. lia.
Qed.

Lemma mult_le_one : forall m, wf_multb m = true -> mult_le (1, 1) m.
Proof. intros m H. destruct (wf_mult_spec m H). unfold mult_le. cbn [fst snd]. lia. Qed.

(** every m >= 1: the gate is at least as strict as at m = 1 *)
Theorem reclaim_ok_at_least_as_strict_as_one : forall m p s j v,
  wf_paramsb p = true -> wf_multb m = true ->
  reclaim_ok m p s j v = true -> reclaim_ok (1, 1) p s j v = true.
Proof.
  intros m p s j v W Hm. destruct (wf_mult_spec m Hm) as [Hd _].
  apply reclaim_ok_mono; [assumption|cbn; lia|assumption|now apply mult_le_one].
Qed.

Theorem saturation_at_least_as_strict_as_one : forall mn md sz ar Fr ae Fe,
  0 < md -> md <= mn -> 0 <= Fr ->
  saturation_ok mn md sz ar Fr ae Fe = true -> saturation_ok 1 1 sz ar Fr ae Fe = true.
Proof. intros mn md sz ar Fr ae Fe Hd Hm HF. apply saturation_ok_mono; lia. Qed.

Lemma apply_mono : forall m m' p s d s',
  wf_paramsb p = true -> 0 < snd m -> 0 < snd m' -> mult_le m m' ->
  apply m' p s d = Some s' -> apply m p s d = Some s'.
Proof.
  intros m m' p s d s' W Hd Hd' Hle H. destruct d as [j|j v|j v]; cbn [apply] in *; try exact H.
  destruct (reclaim_ok m' p s j v) eqn:E; [|discriminate].
  now rewrite (reclaim_ok_mono m m' p s j v W Hd Hd' Hle E).
Qed.
Theorem run_mono : forall m m' p ds s s',
  wf_paramsb p = true -> 0 < snd m -> 0 < snd m' -> mult_le m m' ->
  run m' p s ds = Some s' -> run m p s ds = Some s'.
Proof.
  intros m m' p ds. induction ds as [|d r IH]; intros s s' W Hd Hd' Hle H; cbn [run] in *; [exact H|].
  destruct (apply m' p s d) as [s1|] eqn:E; [|discriminate].
  rewrite (apply_mono m m' p s d s1 W Hd Hd' Hle E). now apply IH.
Qed.

(** * lifting "no lasso" along a sub-system *)
Lemma no_lasso_sub : forall (T : Type) (c1 e1 c2 e2 : T -> T -> Prop),
  (forall s s', c1 s s' -> c2 s s') -> (forall s s', e1 s s' -> e2 s s') ->
  no_lasso (mk_cs T c2 e2) -> no_lasso (mk_cs T c1 e1).
Proof.
  intros T c1 e1 c2 e2 Hc He H r Hr i c k Hick Hev.
  assert (Hr2 : is_run (mk_cs T c2 e2) r) by (intros n; apply Hc, Hr).
  exact (H r Hr2 i c k Hick (He _ _ Hev)).
Qed.
Lemma finitely_many_sub : forall (T : Type) (c1 e1 c2 e2 : T -> T -> Prop),
  (forall s s', c1 s s' -> c2 s s') -> (forall s s', e1 s s' -> e2 s s') ->
  finitely_many_evictions (mk_cs T c2 e2) -> finitely_many_evictions (mk_cs T c1 e1).
Proof.
  intros T c1 e1 c2 e2 Hc He H r Hr Hinf.
  assert (Hr2 : is_run (mk_cs T c2 e2) r) by (intros n; apply Hc, Hr).
  apply (H r Hr2).
  intros n. destruct (Hinf n) as [c [Hn Hev]]. exists c. split; [exact Hn|apply He, Hev].
Qed.

(** the class at m >= 1 is a sub-system of the class at m = 1 *)
Theorem class_lift : forall m p, wf_paramsb p = true -> wf_multb m = true ->
  (no_lasso (class_system (1, 1) p) -> no_lasso (class_system m p))
  /\ (finitely_many_evictions (class_system (1, 1) p) -> finitely_many_evictions (class_system m p)).
Proof.
  intros m p W Hm. destruct (wf_mult_spec m Hm) as [Hd _].
  assert (R : forall ds s s', run m p s ds = Some s' -> run (1, 1) p s ds = Some s').
  { intros ds s s'. apply run_mono; [assumption|cbn; lia|assumption|now apply mult_le_one]. }
  split; intros H.
  - revert H. apply (no_lasso_sub state).
    + intros s s' [Hc [ds Hr]]. split; [exact Hc|]. exists ds. now apply R.
    + intros s s' [ds [Hr He]]. exists ds. split; [now apply R|exact He].
  - revert H. apply (finitely_many_sub state).
    + intros s s' [Hc [ds Hr]]. split; [exact Hc|]. exists ds. now apply R.
    + intros s s' [ds [Hr He]]. exists ds. split; [now apply R|exact He].
Qed.

(** the sized gate (section 5 of Properties/C15.v) *)
Lemma reclaim_ok_sized_mono_mult : forall g m m' p s j v,
  wf_paramsb p = true -> 0 < snd m -> 0 < snd m' -> mult_le m m' ->
  reclaim_ok_sized g m' p s j v = true -> reclaim_ok_sized g m p s j v = true.
Proof.
  intros g m m' p s j v W Hd Hd' Hle H. apply wf_paramsb_wf in W. unfold reclaim_ok_sized in *.
  destruct (find_job (p_jobs p) j) as [J|]; [|discriminate].
  destruct (find_job (p_jobs p) v) as [V|]; [|discriminate].
  destruct (find_queue (p_queues p) (j_queue J)) as [Q|]; [|discriminate].
  destruct (find_queue (p_queues p) (j_queue V)) as [Q'|]; [|discriminate].
  apply andb_prop in H as [H H5]. rewrite H. cbn [andb].
  destruct (Pos.eqb (q_dept Q) (q_dept Q')); [exact H5|].
  destruct (find_dept (p_depts p) (q_dept Q)) as [P|] eqn:EP; [|discriminate].
  destruct (find_dept (p_depts p) (q_dept Q')) as [P'|] eqn:EP'; [|discriminate].
  apply andb_prop in H5 as [H51 H52]. rewrite H51. cbn [andb].
  destruct (wf_dept p W P (proj2 (find_dept_some _ _ _ EP))) as [HF _].
  revert H52. apply saturation_ok_sized_mono_mult; try assumption. lia.
Qed.
Lemma run_sized_mono_mult : forall g m m' p ds s s',
  wf_paramsb p = true -> 0 < snd m -> 0 < snd m' -> mult_le m m' ->
  run_sized g m' p s ds = Some s' -> run_sized g m p s ds = Some s'.
Proof.
  intros g m m' p ds. induction ds as [|d r IH]; intros s s' W Hd Hd' Hle H; cbn [run_sized] in *; [exact H|].
  destruct (apply_sized g m' p s d) as [s1|] eqn:E; [|discriminate].
  assert (E' : apply_sized g m p s d = Some s1).
  { destruct d as [j|j v|j v]; cbn [apply_sized] in *; try exact E.
    destruct (reclaim_ok_sized g m' p s j v) eqn:G; [|discriminate].
    now rewrite (reclaim_ok_sized_mono_mult g m m' p s j v W Hd Hd' Hle G). }
  rewrite E'. now apply IH.
Qed.
Theorem sized_lift : forall g m p, wf_paramsb p = true -> wf_multb m = true ->
  (no_lasso (sized_system g (1, 1) p) -> no_lasso (sized_system g m p))
  /\ (finitely_many_evictions (sized_system g (1, 1) p) -> finitely_many_evictions (sized_system g m p)).
Proof.
  intros g m p W Hm. destruct (wf_mult_spec m Hm) as [Hd _].
  assert (R : forall ds s s', run_sized g m p s ds = Some s' -> run_sized g (1, 1) p s ds = Some s').
  { intros ds s s'. apply run_sized_mono_mult; [assumption|cbn; lia|assumption|now apply mult_le_one]. }
  split; intros H.
  - revert H. apply (no_lasso_sub state).
    + intros s s' [Hc [ds Hr]]. split; [exact Hc|]. exists ds. now apply R.
    + intros s s' [ds [Hr He]]. exists ds. split; [now apply R|exact He].
  - revert H. apply (finitely_many_sub state).
    + intros s s' [Hc [ds Hr]]. split; [exact Hc|]. exists ds. now apply R.
    + intros s s' [ds [Hr He]]. exists ds. split; [now apply R|exact He].
Qed.

(** "allocate, then at most one simulated reclaim" (section 4 of Properties/C15.v), any order, any job set *)
Lemma reclaim_sim_mono : forall m o js p s j v s',
  wf_paramsb p = true -> wf_multb m = true ->
  reclaim_sim m o js p s j v = Some s' -> reclaim_sim (1, 1) o js p s j v = Some s'.
Proof.
  intros m o js p s j v s' W Hm H. unfold reclaim_sim in *.
  destruct (reclaim_ok m p s j v) eqn:E; [|discriminate].
  now rewrite (reclaim_ok_at_least_as_strict_as_one m p s j v W Hm E).
Qed.
Theorem ordered_lift : forall m o js p, wf_paramsb p = true -> wf_multb m = true ->
  (no_lasso (ordered_system (1, 1) o js p) -> no_lasso (ordered_system m o js p))
  /\ (finitely_many_evictions (ordered_system (1, 1) o js p) -> finitely_many_evictions (ordered_system m o js p)).
Proof.
  intros m o js p W Hm.
  split; intros H.
  - revert H. apply (no_lasso_sub state).
    + intros s s' [Ha|[j [v Hr]]]; [now left|right]. exists j, v. now apply (reclaim_sim_mono m).
    + intros s s' [j [v Hr]]. exists j, v. now apply (reclaim_sim_mono m).
  - revert H. apply (finitely_many_sub state).
    + intros s s' [Ha|[j [v Hr]]]; [now left|right]. exists j, v. now apply (reclaim_sim_mono m).
    + intros s s' [j [v Hr]]. exists j, v. now apply (reclaim_sim_mono m).
Qed.

(** * the multiplier on the sibling's side *)
(** ... is the documented test with the inverse multiplier *)
Lemma sibling_is_inverse : forall mn md sz ar Fr ae Fe,
  saturation_ok_sibling mn md sz ar Fr ae Fe = saturation_ok md mn sz ar Fr ae Fe.
Proof.
  intros. unfold saturation_ok_sibling, saturation_ok. cbv zeta.
  replace ((ae - sz) * mn * Fr) with ((ae - sz) * Fr * mn) by ring.
  replace ((ar + sz) * Fe * md) with ((ar + sz) * md * Fe) by ring. reflexivity.
Qed.
Lemma reclaim_ok_sibling_is_inverse : forall m p s j v,
  reclaim_ok_sibling m p s j v = reclaim_ok (snd m, fst m) p s j v.
Proof.
  intros m p s j v. unfold reclaim_ok_sibling, reclaim_ok_with, reclaim_ok.
  destruct (find_job (p_jobs p) j) as [J|]; [|reflexivity].
  destruct (find_job (p_jobs p) v) as [V|]; [|reflexivity].
  destruct (find_queue (p_queues p) (j_queue J)) as [Q|]; [|reflexivity].
  destruct (find_queue (p_queues p) (j_queue V)) as [Q'|]; [|reflexivity].
  destruct (Pos.eqb (q_dept Q) (q_dept Q')); [reflexivity|].
  destruct (find_dept (p_depts p) (q_dept Q)) as [P|]; [|reflexivity].
  destruct (find_dept (p_depts p) (q_dept Q')) as [P'|]; [|reflexivity].
  rewrite sibling_is_inverse. reflexivity.
Qed.
Lemma run_sibling_is_inverse : forall m p ds s, run_sibling m p s ds = run (snd m, fst m) p s ds.
Proof.
  intros m p ds. induction ds as [|d r IH]; intros s; unfold run_sibling in *; cbn [run_with run]; [reflexivity|].
  assert (E : apply_with saturation_ok_sibling m p s d = apply (snd m, fst m) p s d).
  { destruct d as [j|j v|j v]; cbn [apply_with apply]; try reflexivity.
    change (reclaim_ok_with saturation_ok_sibling m p s j v) with (reclaim_ok_sibling m p s j v).
    now rewrite reclaim_ok_sibling_is_inverse. }
  rewrite E. destruct (apply (snd m, fst m) p s d); [apply IH|reflexivity].
Qed.
(** at m = 1 the two gates are the same function: no run with the default multiplier tells them apart *)
Lemma sibling_same_at_one : forall p s j v, reclaim_ok_sibling (1, 1) p s j v = reclaim_ok (1, 1) p s j v.
Proof. intros. now rewrite reclaim_ok_sibling_is_inverse. Qed.

(** the two-department ping-pong of [pp_params] under the VALID multiplier 5/2 on the sibling's side *)
Definition sb_m : Z * Z := (5, 2).
Lemma sb_is_run : is_run (sibling_system sb_m pp_params) pp_run.
Proof.
  intros n. destruct (pp_is_run n) as [Hc [ds Hr]]. split; [exact Hc|]. exists ds.
  change (run_with saturation_ok_sibling sb_m pp_params (pp_run n) ds) with (run_sibling sb_m pp_params (pp_run n) ds).
  rewrite run_sibling_is_inverse. exact Hr.
Qed.
Lemma sb_not_no_lasso : ~ no_lasso (sibling_system sb_m pp_params).
Proof.
  intros H. apply (H pp_run sb_is_run 0%nat 0%nat 2%nat); [lia| |reflexivity].
  exists [DReclaim 4 2]%positive. split; vm_compute; reflexivity.
Qed.

Definition no_lasso_multiplier_on_sibling_side : Prop :=
  forall m p, wf_paramsb p = true -> wf_multb m = true -> no_lasso (sibling_system m p).

Theorem sibling_lasso :
  exists m p s0 s1 j v,
    wf_paramsb p = true /\ wf_multb m = true /\ within_cap p s0
    /\ run_sibling m p s0 [DReclaim j v] = Some s1 /\ run_sibling m p s1 [DReclaim v j] = Some s0
    /\ ~ no_lasso (sibling_system m p)
    /\ run m p s0 [DReclaim j v] = None /\ run m p s1 [DReclaim v j] = None
    /\ no_lasso (class_system m p).
Proof.
  exists sb_m, pp_params, pp_s0, pp_s1, 4%positive, 2%positive.
  split; [vm_compute; reflexivity|]. split; [vm_compute; reflexivity|].
  split; [vm_compute; intros; discriminate|].
  split; [vm_compute; reflexivity|]. split; [vm_compute; reflexivity|].
  split; [exact sb_not_no_lasso|].
  split; [vm_compute; reflexivity|]. split; [vm_compute; reflexivity|].
  apply p_no_lasso; vm_compute; reflexivity.
Qed.
Theorem sibling_side_refuted : ~ no_lasso_multiplier_on_sibling_side.
Proof. intros H. apply sb_not_no_lasso. apply H; vm_compute; reflexivity. Qed.

(** * the numbers of seeded/C15-4/README.md *)
(** the documented test refuses the reclaim at m = 1, 6/5, 3/2, 2, 3, 5; with the multiplier on the sibling's side
    m = 1, 6/5 and 3/2 still refuse, m = 2, 3 and 5 admit (4/3 >= m * 3/4 iff m <= 16/9) *)
Lemma readme_numbers :
  saturation_ok 1 1 rm_sz rm_ar rm_Fr rm_ae rm_Fe = false
  /\ saturation_ok 2 1 rm_sz rm_ar rm_Fr rm_ae rm_Fe = false
  /\ saturation_ok_sibling 1 1 rm_sz rm_ar rm_Fr rm_ae rm_Fe = false
  /\ saturation_ok_sibling 2 1 rm_sz rm_ar rm_Fr rm_ae rm_Fe = true
  /\ forallb (fun m => negb (saturation_ok (fst m) (snd m) rm_sz rm_ar rm_Fr rm_ae rm_Fe))
             [(1, 1); (6, 5); (3, 2); (2, 1); (3, 1); (5, 1)] = true
  /\ map (fun m => saturation_ok_sibling (fst m) (snd m) rm_sz rm_ar rm_Fr rm_ae rm_Fe)
         [(1, 1); (6, 5); (3, 2); (2, 1); (3, 1); (5, 1)] = [false; false; false; true; true; true].
Proof. repeat split; vm_compute; reflexivity. Qed.
(** ... and for EVERY m >= 1 *)
Lemma readme_refused_for_every_valid_multiplier : forall mn md,
  0 < md -> md <= mn -> saturation_ok mn md rm_sz rm_ar rm_Fr rm_ae rm_Fe = false.
Proof.
  intros mn md Hd Hm. destruct (saturation_ok mn md rm_sz rm_ar rm_Fr rm_ae rm_Fe) eqn:E; [|reflexivity].
  apply (saturation_at_least_as_strict_as_one mn md) in E; [|assumption|assumption|vm_compute; discriminate].
  vm_compute in E. discriminate.
Qed.

(** * the README world in the general model (the reclaim gate of C07: queue tree, both strategies, saturation rule) *)
Module ReadmeWorld.
  Import QArith Reclaim General.
  Open Scope Q_scope.
  Definition shr (d f : Q) : rshare :=
    {| s_deserved := d; s_fair := f; s_max := -1 # 1; s_alloc := 0; s_allocnp := 0 |}.
  Definition unl : rshare := shr (-1 # 1) (-1 # 1).
  Definition mkq (i : positive) (par : option positive) (d f : Q) : Reclaim.queue :=
    {| Reclaim.q_id := i; q_parent := par; q_cpu := unl; q_mem := unl; q_gpu := shr d f |}.
  Definition gp (g : Q) : res := {| r_cpu := 0; r_mem := 0; r_gpus := g; r_mig := 0 |}.
  (** queues: 1 dept-a (quota 3), 2 dept-b (quota 4), 3 a-new, 4 a-old (quota 2 each, under 1), 5 b-big (quota 3),
      6 b-small (quota 2) (under 2); fair shares as the proportion plugin computes them on 7 GPUs.
      jobs: 1 a-old-1, 2 a-old-2 (1 GPU), 3 b-small-train (2 GPUs), 4 b-big-train (3 GPUs), 5 a-new-train (2 GPUs) *)
  Definition world : gparams :=
    mkGParams (mkvec 0 0 7)
      [mkq 1%positive None 3 3; mkq 2%positive None 4 4;
       mkq 3%positive (Some 1%positive) 2 2; mkq 4%positive (Some 1%positive) 2 2;
       mkq 5%positive (Some 2%positive) 3 3; mkq 6%positive (Some 2%positive) 2 2]
      [mkGJob 1%positive 4%positive 50%Z (gp 1) true; mkGJob 2%positive 4%positive 50%Z (gp 1) true;
       mkGJob 3%positive 6%positive 50%Z (gp 2) true; mkGJob 4%positive 5%positive 50%Z (gp 3) true;
       mkGJob 5%positive 3%positive 50%Z (gp 2) true].
  Definition s0 : gstate := [1; 2; 3; 4]%positive.
  Definition reclaim_b_small : gdecision := GReclaim 5 [3]%positive.
  (** refused for the valid multipliers; admitted at 1/2 and 1/3 - what multipliers 2 and 3 amount to on the sibling's
      side - so the saturation rule is the only part of the gate in the way *)
  Lemma facts :
    gwfb world = true
    /\ map (fun m => gapply m world s0 reclaim_b_small) [1; 6 # 5; 3 # 2; 2; 3; 5]
       = [None; None; None; None; None; None]
    /\ gapply (1 # 2) world s0 reclaim_b_small = Some [5; 1; 2; 4]%positive
    /\ gapply (1 # 3) world s0 reclaim_b_small = Some [5; 1; 2; 4]%positive
    /\ gapply (2 # 3) world s0 reclaim_b_small = None.
  Proof. repeat split; vm_compute; reflexivity. Qed.
End ReadmeWorld.
