From Coq Require Import List ZArith NArith String Ascii Bool Lia.
From KaiV Require Import Model.Strconv Model.GpuRequest Model.GpuRequestSpec Proofs.Strconv.
Import ListNotations.
Set Default Timeout 60.
Open Scope Z_scope.

(** Oracle contract used where the code parses an *absent* annotation:
    strconv.ParseFloat("") fails (and returns 0). *)
Definition pf_contract (pf : string -> pfres) : Prop :=
  pf_err (pf EmptyString) = true /\ pf_bits (pf EmptyString) = 0%N.

Lemma validate_parts pf p :
  validate_gpu_requests pf p = true ->
  valid_memory p = true /\ valid_fraction pf p = true /\ valid_numdev p = true
  /\ (isSome (a_fraction p) && first_gpu_limit p = false)
  /\ (isSome (a_memory p) && (isSome (a_fraction p) || first_gpu_limit p) = false)
  /\ (isSome (a_numdev p) && negb (isSome (a_fraction p) || isSome (a_memory p)) = false).
Proof.
  unfold validate_gpu_requests.
  destruct (negb (isSome (a_fraction p) || isSome (a_memory p)) && _); [discriminate|].
  destruct (isSome (a_fraction p) && first_gpu_limit p) eqn:E1; [discriminate|].
  destruct (isSome (a_memory p) && (isSome (a_fraction p) || first_gpu_limit p)) eqn:E2; [discriminate|].
  destruct (isSome (a_numdev p) && negb (isSome (a_fraction p) || isSome (a_memory p))) eqn:E3; [discriminate|].
  intros H. apply andb_true_iff in H as [H H3]. apply andb_true_iff in H as [H1 H2]. auto 10.
Qed.

Lemma admission_validate_inner en pf p :
  admission_validate en pf p = true ->
  validate_gpu_requests pf p = true /\ (requests_gpu_fraction p = true -> en = true).
Proof.
  unfold admission_validate. destruct en; cbn [negb andb].
  - auto.
  - destruct (requests_gpu_fraction p); [discriminate|]. split; [assumption|discriminate].
Qed.

Lemma valid_int_pos (o : option string) :
  match o with
  | Some s => match parse_int s with Some n => 0 <? n | None => false end
  | None => true
  end = true ->
  match o with Some s => isSome (int63_pos s) | None => true end = true.
Proof.
  destruct o as [s|]; [|reflexivity]. unfold int63_pos.
  destruct (parse_int s) as [n|] eqn:E; [|discriminate].
  intros H. pose proof (parse_int_range _ _ E) as R.
  rewrite H. destruct (Z.ltb_spec n 9223372036854775808); [reflexivity|lia].
Qed.

Lemma valid_fraction_good pf p :
  valid_fraction pf p = true ->
  match a_fraction p with Some s => good_fraction (pf s) | None => true end = true.
Proof.
  unfold valid_fraction, good_fraction. destruct (a_fraction p) as [s|]; [|reflexivity].
  intros H. apply andb_true_iff in H as [H H1]. apply andb_true_iff in H as [He H0].
  rewrite He, H0, H1, (gt0_lt1_finite _ H0 H1). reflexivity.
Qed.

(** C19.1 *)
Theorem accepted_is_finite_positive en pf p :
  admission_validate en pf p = true -> wellformed_sharing pf p = true.
Proof.
  intros H. apply admission_validate_inner in H as [H _].
  apply validate_parts in H as (Hm & Hf & Hn & E1 & E2 & _).
  unfold wellformed_sharing.
  rewrite (valid_fraction_good _ _ Hf).
  unfold valid_memory in Hm. rewrite (valid_int_pos _ Hm).
  unfold valid_numdev in Hn. rewrite (valid_int_pos _ Hn).
  unfold requests_gpu_fraction.
  cbn [andb]. destruct (isSome (a_fraction p)), (isSome (a_memory p)), (first_gpu_limit p);
    cbn in E1, E2 |- *; try reflexivity; discriminate.
Qed.

(** ** requests = limits on normalised pods *)

Lemma normalised_req_lim l :
  forallb (fun c => match c_gpu_req c, c_gpu_lim c with
                    | Some a, Some b => (a =? b) && (0 <=? a)
                    | None, None => true
                    | _, _ => false
                    end) l = true ->
  forall c, In c l -> c_gpu_req c = c_gpu_lim c.
Proof.
  intros H c Hin. rewrite forallb_forall in H. specialize (H c Hin).
  destruct (c_gpu_req c) as [a|], (c_gpu_lim c) as [b|]; try discriminate; [|reflexivity].
  apply andb_true_iff in H as [H _]. apply Z.eqb_eq in H. now subst.
Qed.

Lemma sum_req_lim l acc :
  (forall c, In c l -> c_gpu_req c = c_gpu_lim c) ->
  fold_left (fun acc c => match c_gpu_req c with
                          | None => acc
                          | Some q => Some (match acc with Some a => a + q | None => q end)
                          end) l acc =
  fold_left (fun acc c => match c_gpu_lim c with
                          | None => acc
                          | Some q => Some (match acc with Some a => a + q | None => q end)
                          end) l acc.
Proof.
  revert acc. induction l as [|c l IH]; intros acc H; [reflexivity|].
  cbn [fold_left]. rewrite (H c (or_introl eq_refl)). apply IH. intros; apply H; now right.
Qed.

Lemma max_req_lim l g :
  (forall c, In c l -> c_gpu_req c = c_gpu_lim c) ->
  fold_left (fun g c => set_max g (gpu_from_list (c_gpu_req c))) l g =
  fold_left (fun g c => set_max g (gpu_from_list (c_gpu_lim c))) l g.
Proof.
  revert g. induction l as [|c l IH]; intros g H; [reflexivity|].
  cbn [fold_left]. rewrite (H c (or_introl eq_refl)). apply IH. intros; apply H; now right.
Qed.

Lemma normalised_whole p : normalised p = true -> init_gpu p = whole_of_limits p.
Proof.
  intros H. unfold normalised in H. pose proof (normalised_req_lim _ H) as E.
  unfold init_gpu, whole_of_limits, sum_gpu_requests, sum_gpu_limits.
  rewrite sum_req_lim by (intros; apply E, in_or_app; now left).
  apply max_req_lim. intros; apply E, in_or_app; now right.
Qed.

Lemma parse_int_raw_some s n : parse_int s = Some n -> parse_int_raw s = n.
Proof.
  unfold parse_int, parse_int_raw. destruct s as [|a r]; [discriminate|].
  destruct (if (N_of_ascii a =? 43)%N then (false, r) else if (N_of_ascii a =? 45)%N then (true, r) else (false, String a r)) as [neg body].
  destruct body as [|b body']; [discriminate|].
  destruct (digits (String b body') 0) as [k|]; [|discriminate].
  destruct neg.
  - destruct (k <=? two63)%N; intros H; inversion H; reflexivity.
  - destruct (k <? two63)%N; intros H; inversion H; reflexivity.
Qed.

Lemma parse_int_nonempty s n : parse_int s = Some n -> String.eqb s "" = false.
Proof. destruct s; [discriminate|reflexivity]. Qed.

(** C19.2 *)
Theorem same_interpretation en pf p :
  pf_contract pf ->
  admission_validate en pf p = true -> normalised p = true ->
  scheduler_interpret pf p = denoted pf p.
Proof.
  intros [Ce Cb] H Hn. apply admission_validate_inner in H as [H _].
  apply validate_parts in H as (Hm & Hf & Hd & E1 & E2 & E3).
  unfold scheduler_interpret, denoted.
  rewrite <- (normalised_whole _ Hn).
  unfold valid_memory in Hm. unfold valid_fraction in Hf. unfold valid_numdev in Hd.
  unfold numdev_or_1, int63_pos.
  destruct (a_fraction p) as [fs|] eqn:EF; destruct (a_memory p) as [ms|] eqn:EM;
    cbn [isSome andb orb negb oget] in *.
  - discriminate.
  - (* fraction *)
    rewrite parse_int_empty.
    apply andb_true_iff in Hf as [Hf H1]. apply andb_true_iff in Hf as [He H0].
    apply negb_true_iff in He.
    rewrite (gt0_not_le0 _ H0), (lt1_not_gt1 _ H1 H0), He, (gt0_lt1_not_ge1 _ H1 H0), H0.
    cbn [orb negb g_type].
    destruct (a_numdev p) as [ns|]; [|reflexivity].
    destruct (parse_int ns) as [n|] eqn:EN; [|discriminate].
    rewrite (parse_int_nonempty _ _ EN). pose proof (parse_int_range _ _ EN) as R.
    rewrite Hd. destruct (Z.ltb_spec n 9223372036854775808); [reflexivity|lia].
  - (* memory *)
    destruct (parse_int ms) as [m|] eqn:EMs; [|discriminate].
    pose proof (parse_int_range _ _ EMs) as Rm.
    rewrite (parse_int_raw_some _ _ EMs).
    rewrite Hm, Ce, Cb. rewrite orb_true_r. cbn [negb g_type].
    assert (Hlt : (m <? 9223372036854775808) = true) by (apply Z.ltb_lt; lia).
    rewrite Hlt. cbn [andb].
    destruct (a_numdev p) as [ns|]; [|reflexivity].
    destruct (parse_int ns) as [n|] eqn:EN; [|discriminate].
    rewrite (parse_int_nonempty _ _ EN). pose proof (parse_int_range _ _ EN) as R.
    rewrite Hd. destruct (Z.ltb_spec n 9223372036854775808); [reflexivity|lia].
  - (* whole GPUs / none *)
    rewrite parse_int_empty, Ce, orb_true_r. cbn [negb g_type]. reflexivity.
Qed.

(** C19.3 *)
Lemma sharing_has_annotation pf p :
  pf_contract pf -> is_sharing (scheduler_interpret pf p) = true -> requests_gpu_fraction p = true.
Proof.
  intros [Ce _]. unfold requests_gpu_fraction, scheduler_interpret, is_sharing.
  destruct (a_fraction p) as [fs|]; [reflexivity|].
  destruct (a_memory p) as [ms|]; [reflexivity|].
  cbn [oget isSome orb]. rewrite parse_int_empty, Ce, orb_true_r. cbn [negb g_type]. discriminate.
Qed.

Theorem sharing_implies_checked en pf p :
  pf_contract pf ->
  is_sharing (scheduler_interpret pf p) = true ->
  en = false \/ wellformed_sharing pf p = false ->
  admission_validate en pf p = false.
Proof.
  intros C Hs [He|Hw].
  - subst en. unfold admission_validate. rewrite (sharing_has_annotation _ _ C Hs). reflexivity.
  - destruct (admission_validate en pf p) eqn:E; [|reflexivity].
    apply accepted_is_finite_positive in E. congruence.
Qed.

(** ** Mutation is idempotent *)

Definition drop3 (e : list (string * string)) :=
  filter (fun x => negb (String.eqb (fst x) gpu_portion_env))
    (filter (fun x => negb (String.eqb (fst x) runai_num_of_gpus))
       (filter (fun x => negb (String.eqb (fst x) nvidia_visible_devices)) e)).

Lemma add3_shape e cap :
  add_env (add_env (add_env e nvidia_visible_devices cap) runai_num_of_gpus cap) gpu_portion_env cap
  = drop3 e ++ [(nvidia_visible_devices, cap); (runai_num_of_gpus, cap); (gpu_portion_env, cap)].
Proof.
  unfold add_env, drop3. rewrite !filter_app. cbn [filter fst].
  change (String.eqb nvidia_visible_devices runai_num_of_gpus) with false.
  change (String.eqb nvidia_visible_devices gpu_portion_env) with false.
  change (String.eqb runai_num_of_gpus gpu_portion_env) with false.
  cbn [negb]. rewrite <- !app_assoc. reflexivity.
Qed.

Lemma filter_idem {A} (f : A -> bool) l : filter f (filter f l) = filter f l.
Proof.
  induction l as [|x l IH]; [reflexivity|]. cbn [filter].
  destruct (f x) eqn:E; cbn [filter]; rewrite ?E, IH; reflexivity.
Qed.

Lemma filter_comm {A} (f g : A -> bool) l : filter f (filter g l) = filter g (filter f l).
Proof.
  induction l as [|x l IH]; [reflexivity|]. cbn [filter].
  destruct (f x) eqn:Ef, (g x) eqn:Eg; cbn [filter]; rewrite ?Ef, ?Eg, IH; reflexivity.
Qed.

Lemma filter_filter {A} (f g : A -> bool) l : filter f (filter g l) = filter (fun x => g x && f x) l.
Proof.
  induction l as [|x l IH]; [reflexivity|]. cbn [filter].
  destruct (g x) eqn:Eg; cbn [filter andb]; [destruct (f x); now rewrite IH | exact IH].
Qed.

Lemma drop3_idem e : drop3 (drop3 e) = drop3 e.
Proof.
  unfold drop3. rewrite !filter_filter. apply filter_ext. intros x.
  destruct (negb (String.eqb (fst x) nvidia_visible_devices)),
           (negb (String.eqb (fst x) runai_num_of_gpus)),
           (negb (String.eqb (fst x) gpu_portion_env)); reflexivity.
Qed.

Lemma drop3_tail cap :
  drop3 [(nvidia_visible_devices, cap); (runai_num_of_gpus, cap); (gpu_portion_env, cap)] = [].
Proof. reflexivity. Qed.

Lemma drop3_app a b : drop3 (a ++ b) = drop3 a ++ drop3 b.
Proof. unfold drop3. now rewrite !filter_app. Qed.

Lemma mutate_container_idem c cap evar :
  mutate_container (mutate_container c cap evar) cap evar = mutate_container c cap evar.
Proof.
  unfold mutate_container. cbn [c_env c_envfrom c_name c_gpu_req c_gpu_lim].
  rewrite !add3_shape, drop3_app, drop3_idem, drop3_tail, app_nil_r.
  f_equal.
  destruct (existsb (String.eqb evar) (c_envfrom c)) eqn:E.
  - now rewrite E.
  - rewrite existsb_app. cbn [existsb]. rewrite String.eqb_refl, orb_true_r. reflexivity.
Qed.

Lemma update_nth_idem {A} (f : A -> A) i l :
  (forall x, f (f x) = f x) -> update_nth i f (update_nth i f l) = update_nth i f l.
Proof.
  intros Hf. revert i. induction l as [|x l IH]; intros [|i]; cbn [update_nth]; try reflexivity.
  - now rewrite Hf.
  - now rewrite IH.
Qed.

Lemma find_container_update name f cs i k :
  (forall c, c_name (f c) = c_name c) ->
  find_container name (update_nth k f cs) i = find_container name cs i.
Proof.
  intros Hn. revert i k. induction cs as [|c cs IH]; intros i [|k]; cbn [update_nth find_container]; try reflexivity.
  - now rewrite Hn.
  - now rewrite IH.
Qed.

Lemma update_nth_nil_iff {A} (f : A -> A) i l : update_nth i f l = [] <-> l = [].
Proof. destruct l, i; cbn [update_nth]; split; intros; try reflexivity; discriminate. Qed.

Lemma filter_vol_idem vol cap vs :
  filter (fun v : string * string => negb (String.eqb (fst v) vol))
         (filter (fun v => negb (String.eqb (fst v) vol)) vs ++ [(vol, cap)]) ++ [(vol, cap)]
  = filter (fun v => negb (String.eqb (fst v) vol)) vs ++ [(vol, cap)].
Proof.
  rewrite filter_app, filter_idem. cbn [filter fst]. rewrite String.eqb_refl. cbn [negb].
  now rewrite app_nil_r.
Qed.

(** C19.4 *)
Theorem mutate_idempotent idx fresh fresh' p :
  mutate idx fresh' (mutate idx fresh p) = mutate idx fresh p.
Proof.
  unfold mutate at 2 3.
  destruct (containers p) as [|c0 cs] eqn:EC.
  { unfold mutate. now rewrite EC. }
  destruct (negb (requests_gpu_fraction p)) eqn:ER.
  { unfold mutate. now rewrite EC, ER. }
  destruct (fraction_container_ref p) as [[ty i]|] eqn:EF.
  2:{ unfold mutate. now rewrite EC, ER, EF. }
  set (prefix := match a_cm p with Some s => s | None => fresh end).
  set (cap := (prefix ++ "-" ++ idx ty i)%string).
  set (evar := (cap ++ "-evar")%string).
  set (vol := (cap ++ "-vol")%string).
  set (f := fun c => mutate_container c cap evar).
  assert (Hname : forall c, c_name (f c) = c_name c) by reflexivity.
  assert (Hidem : forall c, f (f c) = f c) by (intros; apply mutate_container_idem).
  unfold mutate.
  cbn [containers inits volumes a_cm a_cname a_fraction a_memory a_numdev a_mps p_name].
  (* containers of the mutated pod are non-empty *)
  destruct (match ty with RegularC => update_nth i f (c0 :: cs) | InitC => c0 :: cs end) as [|d ds] eqn:ED.
  { destruct ty; [apply update_nth_nil_iff in ED|]; discriminate. }
  unfold requests_gpu_fraction in *.
  cbn [a_fraction a_memory]. rewrite ER.
  (* same container reference *)
  assert (EF' : fraction_container_ref
            {| a_fraction := a_fraction p; a_memory := a_memory p; a_numdev := a_numdev p;
               a_mps := a_mps p; a_cname := a_cname p; a_cm := Some prefix; p_name := p_name p;
               containers := d :: ds;
               inits := match ty with InitC => update_nth i f (inits p) | RegularC => inits p end;
               volumes := filter (fun v => negb (String.eqb (fst v) vol)) (volumes p) ++ [(vol, cap)] |}
            = Some (ty, i)).
  { unfold fraction_container_ref in *. cbn [a_cname inits containers]. rewrite <- ED.
    destruct (a_cname p) as [nm|]; [|exact EF].
    rewrite EC in EF.
    destruct ty; rewrite ?find_container_update by exact Hname; exact EF. }
  rewrite EF'. cbn [a_cm].
  fold cap evar vol f.
  rewrite <- ED.
  f_equal.
  - destruct ty; [apply update_nth_idem; exact Hidem | reflexivity].
  - destruct ty; [reflexivity | apply update_nth_idem; exact Hidem].
  - apply filter_vol_idem.
Qed.

(** Non-vacuity: a concrete accepted multi-device fraction pod. *)
Definition ex_pf (s : string) : pfres :=
  if String.eqb s "0.5" then {| pf_bits := 4602678819172646912%N; pf_err := false |}
  else {| pf_bits := 0%N; pf_err := true |}.
Definition ex_pod : gpod :=
  {| a_fraction := Some "0.5"%string; a_memory := None; a_numdev := Some "2"%string; a_mps := None;
     a_cname := None; a_cm := None; p_name := "p"%string;
     containers := [{| c_name := "c0"%string; c_gpu_req := None; c_gpu_lim := None; c_env := []; c_envfrom := [] |}];
     inits := []; volumes := [] |}.
Example ex_accepted :
  pf_contract ex_pf /\ admission_validate true ex_pf ex_pod = true /\ normalised ex_pod = true
  /\ is_sharing (scheduler_interpret ex_pf ex_pod) = true
  /\ g_count (scheduler_interpret ex_pf ex_pod) = 2.
Proof. repeat split; vm_compute; reflexivity. Qed.

(** whatever is stored after any sequence of writes was accepted by the validation *)
Lemma stored_is_validated en pf : forall writes stored p,
  (forall q, stored = Some q -> admission_validate en pf q = true) ->
  fold_left (write en pf) writes stored = Some p -> admission_validate en pf p = true.
Proof.
  induction writes as [|w ws IH]; intros stored p Hs H; cbn [fold_left] in H.
  - apply Hs. exact H.
  - eapply IH; [|exact H]. intros q Hq. unfold write in Hq.
    destruct (admission_validate en pf w) eqn:E; [inversion Hq; subst; exact E|apply Hs; exact Hq].
Qed.

Theorem stored_pod_is_validated en pf writes p :
  stored_after en pf writes = Some p -> admission_validate en pf p = true.
Proof. unfold stored_after. apply stored_is_validated. intros q Hq. discriminate. Qed.
