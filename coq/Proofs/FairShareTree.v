(** Proofs for property C09, the hierarchy: the per-sibling-set theorems of
    Proofs/FairShare.v lifted to the recursion of proportion.go
    (setFairShare / setFairShareForQueues, Model/FairShare.v [set_fair_share_tree])
    by induction over the depth of the queue forest. *)
From Coq Require Import List ZArith QArith Qround Qminmax Qabs Bool PArith Lia Lqa Permutation.
From KaiV Require Import Model.FairShare Model.FairShareSpec Proofs.FairShare.
Import ListNotations.
Set Default Timeout 60.
Open Scope Q_scope.

(** * The contract of one division, as a predicate on (queues as given, queues as
    they are afterwards).  [T] is the amount being divided, [res] the sibling set
    after the division in ANY enumeration order; every clause is one of the
    per-sibling-set theorems of Properties/C09.v (same queues, lower bound, upper
    bound, conservation, weight monotonicity, no idle surplus, priority bands).
    "Something is left undistributed" is expressed without the division's internal
    remainder: the fair shares sum to less than max(T, sum of the in-quota parts). *)
Record contract_holds (T k : Q) (given res : list queue) : Prop := {
  ch_same : Permutation (map static res) (map static given);
  ch_lower : forall q, In q res -> phase1 T q <= q_fair q;
  ch_upper : forall q, In q res -> q_fair q < cap q + 1;
  ch_conservation :
    sum_fair res <= Qmax T (sum_phase1 T given)
    /\ sum_fair res - sum_phase1 T given <= Qmax 0 (T - sum_phase1 T given);
  ch_weight_monotone :
    0 <= k -> Forall (fun q => 0 <= q_weight q) given ->
    forall q1 q2, In q1 res -> In q2 res -> same_situation q1 q2 = true ->
                  q_weight q1 <= q_weight q2 -> q_fair q1 <= q_fair q2 + 1;
  ch_no_idle_surplus :
    0 <= k -> Forall (fun q => 0 <= q_weight q /\ 0 <= q_usage q) given ->
    sum_fair res < Qmax T (sum_phase1 T given) ->
    forall q, In q res -> satisfied q = false ->
              band_eff k (band (q_prio q) res) (q, None) == 0;
  ch_priority :
    0 <= k -> Forall (fun q => 0 <= q_weight q /\ 0 <= q_usage q) given ->
    forall q, In q res -> satisfied q = false ->
      0 < band_eff k (band (q_prio q) res) (q, None) ->
      sum_fair (filter (lower (q_prio q)) res) - sum_phase1 T (filter (lower (q_prio q)) given)
      < nat_Q (length (band (q_prio q) res))
}.

Lemma band_eff_perm k b b' x : Permutation b b' -> band_eff k b x = band_eff k b' x.
Proof. intros P. unfold band_eff. rewrite (total_weights_perm _ _ P). reflexivity. Qed.

(** the division's result, read in any other enumeration order, meets the contract *)
Lemma contract_of_division T k given out rem res :
  fresh given -> set_resource_share T k given = Done (out, rem) -> Permutation out res ->
  contract_holds T k given res.
Proof.
  intros HF H P.
  assert (Pin : forall q, In q res -> In q out).
  { intros q Hq. eapply Permutation_in; [symmetry; exact P|exact Hq]. }
  assert (Sres : sum_fair res == sum_fair out) by (symmetry; apply sum_fair_perm; exact P).
  destruct (conservation _ _ _ _ _ HF H) as [C1 [C2 C3]].
  constructor.
  - etransitivity; [|exact (same_queues _ _ _ _ _ H)].
    apply Permutation_map. symmetry. exact P.
  - intros q Hq. exact (lower_bound _ _ _ _ _ HF H q (Pin q Hq)).
  - intros q Hq. exact (upper_bound _ _ _ _ _ HF H q (Pin q Hq)).
  - rewrite Sres. split; lra.
  - intros Hk HW q1 q2 H1 H2. exact (weight_monotone _ _ _ _ _ HF Hk HW H q1 q2 (Pin _ H1) (Pin _ H2)).
  - intros Hk HW Hlt q Hq Hs.
    rewrite (band_eff_perm k _ (band (q_prio q) out)) by (apply band_perm; symmetry; exact P).
    apply (no_idle_surplus _ _ _ _ _ HF Hk HW H); [lra|exact (Pin _ Hq)|exact Hs].
  - intros Hk HW q Hq Hs.
    rewrite (band_eff_perm k _ (band (q_prio q) out)) by (apply band_perm; symmetry; exact P).
    intros Hpos.
    pose proof (priority_bands _ _ _ _ _ HF Hk HW H q (Pin _ Hq) Hs Hpos) as G.
    assert (E1 : sum_fair (filter (lower (q_prio q)) res) == sum_fair (filter (lower (q_prio q)) out)).
    { apply sum_fair_perm, filter_perm. symmetry. exact P. }
    assert (E2 : length (band (q_prio q) res) = length (band (q_prio q) out)).
    { apply Permutation_length, band_perm. symmetry. exact P. }
    rewrite E1, E2. exact G.
Qed.

Lemma contract_nil T k : contract_holds T k [] [].
Proof.
  constructor.
  - constructor.
  - intros q [].
  - intros q [].
  - cbn. split.
    + apply Q.le_max_r.
    + assert (E : 0 - 0 == 0) by ring. rewrite E. apply Q.le_max_l.
  - intros _ _ q1 q2 [].
  - intros _ _ _ q [].
  - intros _ _ q [].
Qed.

(** * Finding the queues again by UID *)
Lemma uid_set_fair q f : q_uid (set_fair q f) = q_uid q.
Proof. reflexivity. Qed.

Lemma uid_updated out q : q_uid (updated out q) = q_uid q.
Proof. unfold updated. destruct (fair_of (q_uid q) out); reflexivity. Qed.

Lemma fair_of_in l : NoDup (map q_uid l) -> forall q, In q l -> fair_of (q_uid q) l = Some (q_fair q).
Proof.
  induction l as [|x l IH]; intros ND q Hq; [contradiction|].
  cbn [map] in ND. inversion ND as [|? ? Hn ND']. subst.
  cbn [fair_of]. destruct Hq as [->|Hq].
  - rewrite Pos.eqb_refl. reflexivity.
  - destruct (q_uid x =? q_uid q)%positive eqn:E.
    + apply Pos.eqb_eq in E. exfalso. apply Hn. rewrite E. apply in_map. exact Hq.
    + apply IH; assumption.
Qed.

Lemma static_set_fair q q' : static q' = static q -> set_fair q (q_fair q') = q'.
Proof.
  destruct q, q'. unfold static, set_fair. cbn. intros E. inversion E. subst. reflexivity.
Qed.

Lemma static_uid q q' : static q' = static q -> q_uid q' = q_uid q.
Proof. intros E. change (q_uid (static q') = q_uid (static q)). rewrite E. reflexivity. Qed.

Lemma updated_in out q q' :
  NoDup (map q_uid out) -> In q' out -> static q' = static q -> updated out q = q'.
Proof.
  intros ND Hin S. unfold updated. rewrite <- (static_uid _ _ S).
  rewrite (fair_of_in _ ND _ Hin). apply static_set_fair. exact S.
Qed.

Lemma nodup_of_map {A B} (f : A -> B) l : NoDup (map f l) -> NoDup l.
Proof.
  induction l as [|x l IH]; intros ND; [constructor|].
  cbn [map] in ND. inversion ND as [|? ? Hn ND']. subst. constructor.
  - intros Hx. apply Hn. apply in_map. exact Hx.
  - apply IH. exact ND'.
Qed.

(** the sibling set after the division (every queue with its new fair share) is the
    division's result in another enumeration order *)
Lemma updated_perm given out :
  NoDup (map q_uid given) -> Permutation (map static out) (map static given) ->
  Permutation (map (updated out) given) out.
Proof.
  intros ND P.
  assert (NDo : NoDup (map q_uid out)).
  { rewrite <- uid_static. eapply Permutation_NoDup.
    - symmetry. apply Permutation_map. exact P.
    - rewrite uid_static. exact ND. }
  apply NoDup_Permutation.
  - apply (nodup_of_map q_uid). rewrite map_map.
    erewrite map_ext; [exact ND|]. intros q. apply uid_updated.
  - apply (nodup_of_map q_uid). exact NDo.
  - intros x. split.
    + intros Hx. apply in_map_iff in Hx. destruct Hx as [q [<- Hq]].
      assert (Hs : In (static q) (map static out)).
      { eapply Permutation_in; [symmetry; exact P|]. apply in_map. exact Hq. }
      apply in_map_iff in Hs. destruct Hs as [q' [S Hq']].
      rewrite (updated_in out q q' NDo Hq' S). exact Hq'.
    + intros Hx.
      assert (Hs : In (static x) (map static given)).
      { eapply Permutation_in; [exact P|]. apply in_map. exact Hx. }
      apply in_map_iff in Hs. destruct Hs as [q [S Hq]].
      apply in_map_iff. exists q. split; [|exact Hq].
      apply updated_in; [exact NDo|exact Hx|]. symmetry. exact S.
Qed.

(** one level: what the queues of a sibling set look like after the division *)
Lemma level_contract T k given out rem :
  fresh given -> NoDup (map q_uid given) ->
  set_resource_share T k given = Done (out, rem) ->
  contract_holds T k given (map (updated out) given).
Proof.
  intros HF ND H. apply (contract_of_division T k given out rem); [exact HF|exact H|].
  symmetry. apply updated_perm; [exact ND|]. exact (same_queues _ _ _ _ _ H).
Qed.

(** * The forest *)

(** well-formed input: sibling UIDs are unique (they are Go map keys) and every
    queue starts with fair share 0 (proportion.createQueueResourceAttrs), at every
    level *)
Inductive wf_forest : list qtree -> Prop :=
| WF_forest ts :
    (forall r, NoDup (map (fun t => q_uid (res_of r (troot t))) ts)) ->
    (forall r, fresh (map (fun t => res_of r (troot t)) ts)) ->
    Forall (fun t => wf_forest (tkids t)) ts ->
    wf_forest ts.

(** the contract at every level: the roots against [totals], and below every
    queue its children against the fair share that queue ended up with *)
Inductive levels_hold (k : Q) : Q3 -> list qtree -> list qtree -> Prop :=
| LH totals ts out :
    (forall r, contract_holds (sel r totals) k
                              (map (fun t => res_of r (troot t)) ts)
                              (map (fun t => res_of r (troot t)) out)) ->
    Forall2 (fun t o => levels_hold k (fair3 (troot o)) (tkids t) (tkids o)) ts out ->
    levels_hold k totals ts out.

Lemma all_done_map {A B} (F : A -> outcome B) l out :
  all_done (map F l) = Done out -> Forall2 (fun a b => F a = Done b) l out.
Proof.
  revert out. induction l as [|a l IH]; intros out H; cbn [map all_done] in H.
  - inversion H. constructor.
  - destruct (F a) as [b|] eqn:Ea; [|discriminate].
    destruct (all_done (map F l)) as [l'|] eqn:El; [|discriminate].
    inversion H. subst. constructor; [exact Ea|]. apply IH. reflexivity.
Qed.

Lemma all_done_not_stuck {A B} (F : A -> outcome B) l :
  (forall a, In a l -> F a <> OutOfFuel) -> all_done (map F l) <> OutOfFuel.
Proof.
  induction l as [|a l IH]; intros H; cbn [map all_done]; [discriminate|].
  destruct (F a) as [b|] eqn:Ea.
  - assert (G : all_done (map F l) <> OutOfFuel).
    { apply IH. intros x Hx. apply H. right. exact Hx. }
    destruct (all_done (map F l)) eqn:El; [discriminate|]. exfalso. apply G. reflexivity.
  - exfalso. apply (H a); [left; reflexivity|exact Ea].
Qed.

Lemma tree_depth_eq q c : tree_depth (QT q c) = S (forest_depth c).
Proof. reflexivity. Qed.

Lemma forest_depth_in t ts : In t ts -> (tree_depth t <= forest_depth ts)%nat.
Proof.
  induction ts as [|x ts IH]; intros H; [contradiction|]. cbn [forest_depth].
  destruct H as [->|H]; [lia|]. specialize (IH H). lia.
Qed.

(** the recursion never runs out of fuel when given the depth of the forest (with or
    without the shortcut) *)
Theorem tree_fuel_suffices skip : forall fuel totals k ts,
  (forest_depth ts <= fuel)%nat -> fair_share_tree_gen skip fuel totals k ts <> OutOfFuel.
Proof.
  induction fuel as [|f IH]; intros totals k ts Hd.
  - destruct ts as [|t ts]; cbn [fair_share_tree_gen]; [discriminate|].
    exfalso. cbn [forest_depth] in Hd. destruct t as [q c]. rewrite tree_depth_eq in Hd. lia.
  - destruct ts as [|t ts]; [cbn [fair_share_tree_gen]; discriminate|].
    cbn [fair_share_tree_gen]. remember (t :: ts) as l eqn:El.
    destruct (set_resource_share (sel Cpu totals) k (map (fun t => q3_cpu (troot t)) l))
      as [[oc rc]|] eqn:Hc; [|exfalso; exact (fuel_suffices _ _ _ Hc)].
    destruct (set_resource_share (sel Mem totals) k (map (fun t => q3_mem (troot t)) l))
      as [[om rm]|] eqn:Hm; [|exfalso; exact (fuel_suffices _ _ _ Hm)].
    destruct (set_resource_share (sel Gpu totals) k (map (fun t => q3_gpu (troot t)) l))
      as [[og rg]|] eqn:Hg; [|exfalso; exact (fuel_suffices _ _ _ Hg)].
    apply all_done_not_stuck. intros a Ha.
    destruct (skip && nothing_to_divide _); [discriminate|].
    match goal with |- match ?X with _ => _ end <> _ => destruct X eqn:Er end; [discriminate|].
    exfalso. revert Er. apply IH.
    pose proof (forest_depth_in _ _ Ha) as Hle. destruct a as [q c]. rewrite tree_depth_eq in Hle.
    cbn [tkids]. lia.
Qed.

Lemma map_updated_roots (pr : queue3 -> queue) (F : qtree -> outcome qtree) (upd : queue -> queue) ts out :
  Forall2 (fun t o => F t = Done o) ts out ->
  (forall t o, F t = Done o -> pr (troot o) = upd (pr (troot t))) ->
  map (fun t => pr (troot t)) out = map upd (map (fun t => pr (troot t)) ts).
Proof.
  intros H G. induction H as [|t o ts out Hto _ IH]; [reflexivity|].
  cbn [map]. rewrite IH. f_equal. apply G. exact Hto.
Qed.

(** the contract holds at every level of the result *)
Theorem contract_at_every_level_done : forall fuel totals k ts out,
  wf_forest ts -> set_fair_share_tree fuel totals k ts = Done out -> levels_hold k totals ts out.
Proof.
  unfold set_fair_share_tree.
  induction fuel as [|f IH]; intros totals k ts out WF H.
  - destruct ts as [|t ts]; cbn [fair_share_tree_gen] in H; [|discriminate].
    inversion H. subst. constructor; [|constructor]. intros r. cbn [map]. apply contract_nil.
  - destruct ts as [|t ts].
    { cbn [fair_share_tree_gen] in H. inversion H. subst.
      constructor; [|constructor]. intros r. cbn [map]. apply contract_nil. }
    cbn [fair_share_tree_gen] in H. remember (t :: ts) as l eqn:El.
    destruct (set_resource_share (sel Cpu totals) k (map (fun t => q3_cpu (troot t)) l))
      as [[oc rc]|] eqn:Hc; [|discriminate].
    destruct (set_resource_share (sel Mem totals) k (map (fun t => q3_mem (troot t)) l))
      as [[om rm]|] eqn:Hm; [|discriminate].
    destruct (set_resource_share (sel Gpu totals) k (map (fun t => q3_gpu (troot t)) l))
      as [[og rg]|] eqn:Hg; [|discriminate].
    apply all_done_map in H.
    inversion WF as [ts0 ND HF HK E0]. subst ts0.
    assert (Hroot : forall t o,
               (let q := troot t in
                let q' := mkQ3 (updated oc (q3_cpu q)) (updated om (q3_mem q)) (updated og (q3_gpu q)) in
                if false && nothing_to_divide (fair3 q') then Done (QT q' (tkids t))
                else match fair_share_tree_gen false f (fair3 q') k (tkids t) with
                     | Done c => Done (QT q' c)
                     | OutOfFuel => OutOfFuel
                     end) = Done o ->
               troot o = mkQ3 (updated oc (q3_cpu (troot t))) (updated om (q3_mem (troot t)))
                              (updated og (q3_gpu (troot t)))
               /\ fair_share_tree_gen false f (fair3 (troot o)) k (tkids t) = Done (tkids o)).
    { intros t0 o0 E. cbn zeta in E. cbn [andb] in E.
      destruct (fair_share_tree_gen false f _ k (tkids t0)) as [c|] eqn:Er; [|discriminate].
      inversion E. subst. cbn [troot tkids]. split; [reflexivity|exact Er]. }
    constructor.
    + intros r. destruct r; cbn [res_of].
      * rewrite (map_updated_roots q3_cpu _ (updated oc) _ _ H)
          by (intros t0 o0 E; destruct (Hroot _ _ E) as [-> _]; reflexivity).
        apply (level_contract _ _ _ _ rc); [exact (HF Cpu)| |exact Hc].
        rewrite map_map. exact (ND Cpu).
      * rewrite (map_updated_roots q3_mem _ (updated om) _ _ H)
          by (intros t0 o0 E; destruct (Hroot _ _ E) as [-> _]; reflexivity).
        apply (level_contract _ _ _ _ rm); [exact (HF Mem)| |exact Hm].
        rewrite map_map. exact (ND Mem).
      * rewrite (map_updated_roots q3_gpu _ (updated og) _ _ H)
          by (intros t0 o0 E; destruct (Hroot _ _ E) as [-> _]; reflexivity).
        apply (level_contract _ _ _ _ rg); [exact (HF Gpu)| |exact Hg].
        rewrite map_map. exact (ND Gpu).
    + clear ND HF Hc Hm Hg WF El. rewrite Forall_forall in HK.
      assert (HK' : forall x, In x l -> wf_forest (tkids x)) by exact HK. clear HK.
      induction H as [|t0 o0 l0 out0 Hto Hrest IHF]; constructor.
      * destruct (Hroot _ _ Hto) as [_ Er]. apply (IH _ _ _ _ (HK' t0 (or_introl eq_refl)) Er).
      * apply IHF. intros x Hx. apply HK'. right. exact Hx.
Qed.

Theorem contract_at_every_level : forall fuel totals k ts,
  wf_forest ts -> (forest_depth ts <= fuel)%nat ->
  exists out, set_fair_share_tree fuel totals k ts = Done out /\ levels_hold k totals ts out.
Proof.
  intros fuel totals k ts WF Hd.
  destruct (set_fair_share_tree fuel totals k ts) as [out|] eqn:E.
  - exists out. split; [reflexivity|]. exact (contract_at_every_level_done _ _ _ _ _ WF E).
  - exfalso. exact (tree_fuel_suffices false _ _ _ _ Hd E).
Qed.

(** * Non-vacuity and the skip variant

    The hierarchy of the seeded demonstration: department [dep_a] is frozen (limit 0,
    nothing guaranteed) above team [team_a], which holds a quota of 2 GPUs and asks
    for 3; department [dep_b] (quota 4, request 6) above [team_b].  CPU and memory
    are empty (rs.EmptyResource) everywhere; the cluster has 8 GPUs. *)
Definition empty_share (u : positive) : queue := mkQ u 0 0 0 0 0 0 0 0.
Definition gpu_queue (u : positive) (d l w r : Q) : queue3 :=
  mkQ3 (empty_share u) (empty_share u) (mkQ u 0 0 d l w r 0 0).

Definition dep_a : queue3 := gpu_queue 1 0 0 0 3.
Definition dep_b : queue3 := gpu_queue 2 4 unlimited 1 6.
Definition team_a : queue3 := gpu_queue 3 2 unlimited 1 3.
Definition team_b : queue3 := gpu_queue 4 4 unlimited 1 6.
Definition ex_forest : list qtree := [QT dep_a [QT team_a []]; QT dep_b [QT team_b []]].
Definition ex_totals : Q3 := (0, 0, 8).

Definition with_gpu_fair (q : queue3) (f : Q) : queue3 :=
  mkQ3 (q3_cpu q) (q3_mem q) (set_fair (q3_gpu q) f).
Definition ex_forest_result : list qtree :=
  [QT (with_gpu_fair dep_a 0) [QT (with_gpu_fair team_a 2) []];
   QT (with_gpu_fair dep_b 6) [QT (with_gpu_fair team_b 6) []]].
Definition ex_forest_skipped : list qtree :=
  [QT (with_gpu_fair dep_a 0) [QT team_a []];
   QT (with_gpu_fair dep_b 6) [QT (with_gpu_fair team_b 6) []]].

Lemma fresh_cons q l : q_fair q == 0 -> fresh l -> fresh (q :: l).
Proof. intros. constructor; assumption. Qed.

Lemma ex_forest_wf : wf_forest ex_forest.
Proof.
  assert (L : forall q, (forall r, q_fair (res_of r q) == 0) -> wf_forest [QT q []]).
  { intros q Hq. constructor.
    - intros r. cbn. constructor; [intros []|constructor].
    - intros r. cbn [map troot]. apply fresh_cons; [apply Hq|constructor].
    - constructor; [|constructor]. cbn [tkids]. constructor.
      + intros r. constructor.
      + intros r. constructor.
      + constructor. }
  constructor.
  - intros r. destruct r; cbn; (constructor; [intros [E|[]]; discriminate|constructor; [intros []|constructor]]).
  - intros r. destruct r; cbn [map troot ex_forest res_of];
      (apply fresh_cons; [reflexivity|apply fresh_cons; [reflexivity|constructor]]).
  - constructor; [|constructor; [|constructor]]; cbn [tkids]; apply L; intros r; destruct r; reflexivity.
Qed.

(** the code as it is: the frozen department ends with fair share 0 in all three
    resources and the team below it still gets min(deserved, request) = 2 *)
Lemma ex_forest_division :
  wf_forest ex_forest
  /\ (forest_depth ex_forest <= 2)%nat
  /\ set_fair_share_tree 2 ex_totals 0 ex_forest = Done ex_forest_result
  /\ fair3 (with_gpu_fair dep_a 0) = (0, 0, 0)
  /\ phase1 (q_fair (q3_gpu (with_gpu_fair dep_a 0))) (q3_gpu team_a) == 2
  /\ q_fair (q3_gpu (with_gpu_fair team_a 2)) == 2.
Proof.
  split; [exact ex_forest_wf|]. split; [cbn; lia|].
  split; [vm_compute; reflexivity|]. split; [reflexivity|]. split; reflexivity.
Qed.

(** the variant with the shortcut leaves the team with 0 < 2 = min(deserved, request):
    the lower bound fails in the sibling set below the frozen department *)
Lemma skip_idle_breaks_lower_bound :
  wf_forest ex_forest
  /\ set_fair_share_tree_skip_idle 2 ex_totals 0 ex_forest = Done ex_forest_skipped
  /\ (exists parent child rest,
        ex_forest_skipped = QT parent [QT child []] :: rest
        /\ q_fair (q3_gpu child) < phase1 (q_fair (q3_gpu parent)) (q3_gpu child))
  /\ ~ levels_hold 0 ex_totals ex_forest ex_forest_skipped.
Proof.
  split; [exact ex_forest_wf|]. split; [vm_compute; reflexivity|]. split.
  - exists (with_gpu_fair dep_a 0), team_a, [QT (with_gpu_fair dep_b 6) [QT (with_gpu_fair team_b 6) []]].
    split; [reflexivity|]. vm_compute. reflexivity.
  - intros H. inversion H as [? ? ? _ HF]. subst.
    unfold ex_forest, ex_forest_skipped in HF.
    inversion HF as [|? ? ? ? Hfirst _]. subst. cbn [tkids troot] in Hfirst.
    inversion Hfirst as [? ? ? Hc _]. subst.
    pose proof (ch_lower _ _ _ _ (Hc Gpu) (q3_gpu team_a) (or_introl eq_refl)) as L.
    vm_compute in L. apply L. reflexivity.
Qed.
