(** C13 — erasure of abandoned what-if steps (Model/SessionErase.v).

    Contents
      1. node operations are congruences for [neq]
      2. the shape of what each primitive makes of a session ([is_upd]: one node, one pod, one job,
         the queue usage, entries appended to the log) from the look-ups it performs
      3. forward simulation: a well-formed recorded command applied to two [srel neq]-related
         sessions with equal logs gives related sessions with equal logs ([sim_cmd])
      4. the erasure invariant along an open statement: the session reached by the program and the
         session reached by the erased program are related, with equal logs and call counters
         ([erase_open])
      5. Commit on two such sessions emits the same calls ([commit_calls_eq]) *)
Set Default Timeout 60.
From Coq Require Import List ZArith PArith Bool Arith Lia ZifyBool.
From KaiV Require Import Model.Res Model.Status Model.AMap Model.Node Model.NodeSpec Model.Session Model.SessionSpec
  Model.SessionErase Proofs.Node Proofs.Session Proofs.SessionLog.
Import ListNotations.
Open Scope Z_scope.

Ltac sess_cbn :=
  cbn [s_nodes s_pods s_jobs s_queues s_log s_ncalls s_stuck put_pod put_node push set_nodes set_podsm set_jobs
       set_queues set_log set_ncalls set_stuck] in *.
Lemma cq_ncalls s p sign : s_ncalls (charge_queues s p sign) = s_ncalls s.
Proof. apply cq_frame. Qed.
Ltac cq := unfold ev_dealloc, ev_alloc; rewrite ?cq_nodes, ?cq_pods, ?cq_jobs, ?cq_log, ?cq_stuck, ?cq_ncalls.

(** * 1. Node operations respect [neq] *)
Lemma neq_add_task_gen b n n' t :
  neq n n' ->
  match add_task_gen b n t, add_task_gen b n' t with
  | Ok a, Ok a' => neq a a'
  | Err, Err => True
  | _, _ => False
  end.
Proof.
  intros H. unfold add_task_gen. rewrite <- (neq_pods _ _ H).
  destruct (amem (t_id t) (n_pods n) && negb (is_shared t && b)); [exact I|].
  apply neq_add. apply neq_set_pods. exact H.
Qed.
Lemma neq_remove_task n n' id :
  neq n n' ->
  match remove_task n id, remove_task n' id with
  | Ok a, Ok a' => neq a a'
  | Err, Err => True
  | _, _ => False
  end.
Proof.
  intros H. unfold remove_task. rewrite <- (neq_pods _ _ H).
  destruct (alookup id (n_pods n)) as [t|]; [|exact I].
  apply neq_remove. apply neq_set_pods. exact H.
Qed.
Lemma neq_update_task n n' t :
  neq n n' ->
  match update_task n t, update_task n' t with
  | Ok a, Ok a' => neq a a'
  | Err, Err => True
  | _, _ => False
  end.
Proof.
  intros H. unfold update_task. pose proof (neq_remove_task n n' (t_id t) H) as Hr.
  destruct (remove_task n (t_id t)) as [m|], (remove_task n' (t_id t)) as [m'|]; try contradiction; [|exact I].
  apply (neq_add_task_gen false). exact Hr.
Qed.
Lemma neq_add_task_ok n n' t n1 :
  neq n n' -> add_task n t = Ok n1 -> exists n1', add_task n' t = Ok n1' /\ neq n1 n1'.
Proof.
  intros H E. pose proof (neq_add_task_gen false n n' t H) as G. unfold add_task in *. rewrite E in G.
  destruct (add_task_gen false n' t) as [a|]; [|contradiction]. exists a. split; [reflexivity|exact G].
Qed.
Lemma neq_consolidate_ok n n' t n1 :
  neq n n' -> consolidate_to_different_gpu n t = Ok n1 -> exists n1', consolidate_to_different_gpu n' t = Ok n1' /\ neq n1 n1'.
Proof.
  intros H E. pose proof (neq_add_task_gen true n n' t H) as G. unfold consolidate_to_different_gpu in *. rewrite E in G.
  destruct (add_task_gen true n' t) as [a|]; [|contradiction]. exists a. split; [reflexivity|exact G].
Qed.
Lemma neq_update_task_ok n n' t n1 :
  neq n n' -> update_task n t = Ok n1 -> exists n1', update_task n' t = Ok n1' /\ neq n1 n1'.
Proof.
  intros H E. pose proof (neq_update_task n n' t H) as G. rewrite E in G.
  destruct (update_task n' t) as [a|]; [|contradiction]. exists a. split; [reflexivity|exact G].
Qed.

(** * 2. Shapes *)
Definition is_upd (s s' : sess) (nid : positive) (n1 : node) (pid : positive) (P : pod) (jid : positive) (j1 : job)
           (qs : amap queue) (L : list op) : Prop :=
  s_nodes s' = aput nid n1 (s_nodes s) /\ s_pods s' = aput pid P (s_pods s) /\ s_jobs s' = aput jid j1 (s_jobs s)
  /\ s_queues s' = qs /\ s_log s' = s_log s ++ L /\ s_ncalls s' = s_ncalls s /\ s_stuck s' = s_stuck s.

Lemma is_upd_push s s' nid n1 pid P jid j1 qs L o :
  is_upd s s' nid n1 pid P jid j1 qs L -> is_upd s (push s' o) nid n1 pid P jid j1 qs (L ++ [o]).
Proof.
  intros (A & B & C & D & E & F & G). unfold is_upd. sess_cbn. rewrite E, app_assoc. repeat split; assumption.
Qed.

(** Statement.Evict of a pod that is not Releasing *)
Lemma shape_evict s pid p j j1 nid n n1 :
  get_pod s pid = Some p -> p_id p = pid -> alookup (t_job (p_task p)) (s_jobs s) = Some j ->
  p_node p = Some nid -> alookup nid (s_nodes s) = Some n -> status_eqb (p_status p) Releasing = false ->
  job_update j (p_pset p) (p_jreq p) (p_status p) (p_status p) Releasing = Some j1 ->
  update_task n (p_task (at_node_raw (set_st p Releasing) nid)) = Ok n1 ->
  exists s', evict s pid = (s', true)
    /\ is_upd s s' nid n1 pid (set_vt (at_node_raw (set_st p Releasing) nid) true) (t_job (p_task p)) j1
         (qeff (s_queues s) (j_queue j1) (j_nonpreempt j1) (rneg (p_qc (at_node_raw (set_st p Releasing) nid))))
         [OEvict pid (p_status p) nid (p_groups p) (p_virt p)].
Proof.
  intros Gp Eid Ej Epn En Nr Ej1 Eu.
  set (jid := t_job (p_task p)) in *. set (p1 := at_node_raw (set_st p Releasing) nid) in *.
  assert (Gp' : alookup (p_id p) (s_pods s) = Some p) by (rewrite Eid; exact Gp).
  pose (s1 := put_pod (set_jobs s (aput jid j1 (s_jobs s))) (set_st p Releasing)).
  eexists. split.
  { unfold evict. rewrite Gp. fold jid. rewrite Ej, Epn, En, Nr. unfold evict_on.
    rewrite (update_status_eq s p Releasing j p j1 Ej Gp' Ej1). cbn [negb].
    change (at_node (set_st p Releasing) nid) with p1. fold jid s1. rewrite Eu. reflexivity. }
  assert (Ej' : alookup (t_job (p_task p1)) (s_jobs (put_node s1 nid n1)) = Some j1).
  { unfold s1. sess_cbn. apply (alookup_aput_same' _ _ _ _ Ej). }
  assert (Qs : s_queues (ev_dealloc (put_node s1 nid n1) p1)
               = qeff (s_queues s) (j_queue j1) (j_nonpreempt j1) (rneg (p_qc p1))).
  { unfold ev_dealloc. rewrite (cq_queues _ _ _ j1 Ej'). reflexivity. }
  unfold is_upd. sess_cbn.
  split; [cq; reflexivity|]. split.
  { cq. unfold s1. sess_cbn.
    change (p_id (set_vt p1 true)) with (p_id p). change (p_id (set_st p Releasing)) with (p_id p). rewrite Eid. apply aput_aput. }
  split; [cq; reflexivity|]. split; [exact Qs|]. split; [cq; reflexivity|]. split; cq; reflexivity.
Qed.

(** Statement.unevict *)
Lemma shape_unevict s pid p j j1 prev nid pg pv n n1 :
  get_pod s pid = Some p -> p_id p = pid -> alookup (t_job (p_task p)) (s_jobs s) = Some j ->
  job_update j (p_pset p) (p_jreq p) (p_status p) (p_status p) prev = Some j1 -> active_used prev = true ->
  alookup nid (s_nodes s) = Some n -> amem pid (n_pods n) = true ->
  update_task n (p_task (at_node_raw (pod_with p prev pg (p_node p) pv) nid)) = Ok n1 ->
  is_upd s (unevict s pid prev nid pg pv) nid n1 pid (at_node_raw (pod_with p prev pg (p_node p) pv) nid) (t_job (p_task p)) j1
    (qeff (s_queues s) (j_queue j1) (j_nonpreempt j1) (p_qc (at_node_raw (pod_with p prev pg (p_node p) pv) nid))) [].
Proof.
  intros Gp Eid Ej Ej1 Au En Am Eu.
  set (jid := t_job (p_task p)) in *. set (p1 := at_node_raw (pod_with p prev pg (p_node p) pv) nid) in *.
  assert (Gp' : alookup (p_id p) (s_pods s) = Some p) by (rewrite Eid; exact Gp).
  pose (s1 := put_pod (set_jobs s (aput jid j1 (s_jobs s))) (set_st p prev)).
  assert (Us : update_status s p prev = (s1, true)) by (apply (update_status_eq s p prev j p j1 Ej Gp' Ej1)).
  assert (P1 : at_node (pod_with (set_st p prev) prev pg (p_node p) pv) nid = p1).
  { unfold at_node. change (t_status (p_task (pod_with (set_st p prev) prev pg (p_node p) pv))) with prev. rewrite Au. reflexivity. }
  assert (Ef : unevict s pid prev nid pg pv = ev_alloc (put_node (put_pod s1 p1) nid n1) p1).
  { unfold unevict. rewrite Gp, Us. cbv beta iota.
    assert (Nl : alookup nid (s_nodes s1) = Some n) by (unfold s1; sess_cbn; exact En).
    rewrite Nl. cbv zeta. rewrite P1, Am, Eu. reflexivity. }
  rewrite Ef.
  assert (Ej' : alookup (t_job (p_task p1)) (s_jobs (put_node (put_pod s1 p1) nid n1)) = Some j1).
  { unfold s1. sess_cbn. apply (alookup_aput_same' _ _ _ _ Ej). }
  assert (Qs : s_queues (ev_alloc (put_node (put_pod s1 p1) nid n1) p1)
               = qeff (s_queues s) (j_queue j1) (j_nonpreempt j1) (p_qc p1)).
  { unfold ev_alloc. rewrite (cq_queues _ _ _ j1 Ej'). reflexivity. }
  unfold is_upd.
  split; [cq; reflexivity|]. split.
  { cq. unfold s1. sess_cbn.
    change (p_id p1) with (p_id p). change (p_id (set_st p prev)) with (p_id p). rewrite Eid. apply aput_aput. }
  split; [cq; reflexivity|]. split; [exact Qs|]. split; [cq; sess_cbn; rewrite app_nil_r; reflexivity|]. split; cq; reflexivity.
Qed.

(** Statement.Pipeline past the un-evict test *)
Lemma shape_pipe_body s pid p0 gs j j1 nid n (on : option task) (move : bool) n1 :
  get_pod s pid = Some p0 -> p_id p0 = pid -> alookup (t_job (p_task p0)) (s_jobs s) = Some j ->
  job_update j (p_pset p0) (p_jreq p0) (p_status p0) (p_status p0) Pipelined = Some j1 ->
  let p := match gs with Some g => set_gs p0 g | None => p0 end in
  let p1 := at_node_raw (set_nd (set_st p Pipelined) (Some nid)) nid in
  (if move then consolidate_to_different_gpu n (p_task p1)
   else match on with
        | Some _ => match update_task n (p_task p1) with Ok n' => Ok n' | Err => Ok n end
        | None => add_task n (p_task p1)
        end) = Ok n1 ->
  let pg := match on with Some c => if move then t_groups c else p_groups p | None => p_groups p end in
  exists s', pipeline_body (put_pod s p) p nid n on move = (s', true)
    /\ is_upd s s' nid n1 pid (set_vt p1 true) (t_job (p_task p0)) j1
         (qeff (s_queues s) (j_queue j1) (j_nonpreempt j1) (p_qc p1))
         [OPipe pid (p_status p0) (p_node p0) pg (p_virt p0) nid move].
Proof.
  intros Gp Eid Ej Ej1 p p1 Er pg.
  assert (Fst : p_status p = p_status p0) by (unfold p; destruct gs; reflexivity).
  assert (Fid : p_id p = pid) by (unfold p; destruct gs; exact Eid).
  assert (Fjob : t_job (p_task p) = t_job (p_task p0)) by (unfold p; destruct gs; reflexivity).
  assert (Fps : p_pset p = p_pset p0) by (unfold p; destruct gs; reflexivity).
  assert (Fjr : p_jreq p = p_jreq p0) by (unfold p; destruct gs; reflexivity).
  assert (Fnd : p_node p = p_node p0) by (unfold p; destruct gs; reflexivity).
  assert (Fvt : p_virt p = p_virt p0) by (unfold p; destruct gs; reflexivity).
  set (jid := t_job (p_task p0)) in *.
  set (s0 := put_pod s p).
  assert (G0 : alookup (p_id p) (s_pods s0) = Some p).
  { unfold s0. sess_cbn. rewrite Fid. unfold get_pod in Gp. apply (alookup_aput_same' _ _ _ _ Gp). }
  pose (s1 := put_pod (set_jobs s0 (aput jid j1 (s_jobs s0))) (set_st p Pipelined)).
  assert (Us : update_status s0 p Pipelined = (s1, true)).
  { unfold s1. rewrite <- Fjob. apply (update_status_eq s0 p Pipelined j p j1).
    - rewrite Fjob. exact Ej.
    - exact G0.
    - rewrite Fps, Fjr, Fst. exact Ej1. }
  eexists. split.
  { unfold pipeline_body. fold s0. rewrite Us. cbv beta iota.
    change (at_node (set_nd (set_st p Pipelined) (Some nid)) nid) with p1. rewrite Er. reflexivity. }
  assert (Ej' : alookup (t_job (p_task p1)) (s_jobs (put_node (put_pod s1 p1) nid n1)) = Some j1).
  { change (t_job (p_task p1)) with (t_job (p_task p)). rewrite Fjob. unfold s1, s0. sess_cbn. apply (alookup_aput_same' _ _ _ _ Ej). }
  assert (Qs : s_queues (ev_alloc (put_node (put_pod s1 p1) nid n1) p1)
               = qeff (s_queues s) (j_queue j1) (j_nonpreempt j1) (p_qc p1)).
  { unfold ev_alloc. rewrite (cq_queues _ _ _ j1 Ej'). reflexivity. }
  unfold is_upd. sess_cbn.
  split; [cq; reflexivity|]. split.
  { cq. unfold s1, s0. sess_cbn.
    change (p_id (set_vt p1 true)) with (p_id p). change (p_id p1) with (p_id p). change (p_id (set_st p Pipelined)) with (p_id p).
    rewrite Fid, !aput_aput. reflexivity. }
  split; [cq; reflexivity|]. split; [exact Qs|]. split; [cq; sess_cbn; rewrite Fid, Fst, Fnd, Fvt; reflexivity|]. split; cq; reflexivity.
Qed.

(** Statement.Allocate *)
Lemma shape_alloc s pid p0 gs j j1 nid n n1 :
  get_pod s pid = Some p0 -> p_id p0 = pid -> alookup (t_job (p_task p0)) (s_jobs s) = Some j ->
  job_update j (p_pset p0) (p_jreq p0) (p_status p0) (p_status p0) Allocated = Some j1 ->
  alookup nid (s_nodes s) = Some n ->
  let p := match gs with Some g => set_gs p0 g | None => p0 end in
  let p1 := at_node_raw (set_nd (set_st p Allocated) (Some nid)) nid in
  add_task n (p_task p1) = Ok n1 ->
  exists s', allocate s pid nid gs = (s', true)
    /\ is_upd s s' nid n1 pid (set_vt p1 true) (t_job (p_task p0)) j1
         (qeff (s_queues s) (j_queue j1) (j_nonpreempt j1) (p_qc p1)) [OAlloc p1 nid (p_virt p0)].
Proof.
  intros Gp Eid Ej Ej1 En p p1 Ea.
  assert (Fst : p_status p = p_status p0) by (unfold p; destruct gs; reflexivity).
  assert (Fid : p_id p = pid) by (unfold p; destruct gs; exact Eid).
  assert (Fjob : t_job (p_task p) = t_job (p_task p0)) by (unfold p; destruct gs; reflexivity).
  assert (Fps : p_pset p = p_pset p0) by (unfold p; destruct gs; reflexivity).
  assert (Fjr : p_jreq p = p_jreq p0) by (unfold p; destruct gs; reflexivity).
  assert (Fvt : p_virt p = p_virt p0) by (unfold p; destruct gs; reflexivity).
  set (jid := t_job (p_task p0)) in *.
  set (s0 := put_pod s p).
  assert (G0 : alookup (p_id p) (s_pods s0) = Some p).
  { unfold s0. sess_cbn. rewrite Fid. unfold get_pod in Gp. apply (alookup_aput_same' _ _ _ _ Gp). }
  pose (s1 := put_pod (set_jobs s0 (aput jid j1 (s_jobs s0))) (set_st p Allocated)).
  assert (Us : update_status s0 p Allocated = (s1, true)).
  { unfold s1. rewrite <- Fjob. apply (update_status_eq s0 p Allocated j p j1).
    - rewrite Fjob. exact Ej.
    - exact G0.
    - rewrite Fps, Fjr, Fst. exact Ej1. }
  eexists. split.
  { unfold allocate. rewrite Gp. fold p s0. rewrite Us. cbn [negb].
    change (at_node (set_nd (set_st p Allocated) (Some nid)) nid) with p1.
    assert (Nl : alookup nid (s_nodes (put_pod s1 p1)) = Some n) by (unfold s1, s0; sess_cbn; exact En).
    rewrite Nl, Ea. reflexivity. }
  assert (Ej' : alookup (t_job (p_task p1)) (s_jobs (put_node (put_pod s1 p1) nid n1)) = Some j1).
  { change (t_job (p_task p1)) with (t_job (p_task p)). rewrite Fjob. unfold s1, s0. sess_cbn. apply (alookup_aput_same' _ _ _ _ Ej). }
  assert (Qs : s_queues (ev_alloc (put_node (put_pod s1 p1) nid n1) p1)
               = qeff (s_queues s) (j_queue j1) (j_nonpreempt j1) (p_qc p1)).
  { unfold ev_alloc. rewrite (cq_queues _ _ _ j1 Ej'). reflexivity. }
  unfold is_upd. sess_cbn.
  split; [cq; reflexivity|]. split.
  { cq. unfold s1, s0. sess_cbn.
    change (p_id (set_vt p1 true)) with (p_id p). change (p_id p1) with (p_id p). change (p_id (set_st p Allocated)) with (p_id p).
    rewrite Fid, !aput_aput. reflexivity. }
  split; [cq; reflexivity|]. split; [exact Qs|].
  split; [cq; sess_cbn; change (p_virt p1) with (p_virt p); rewrite Fvt; reflexivity|]. split; cq; reflexivity.
Qed.

(** * 3. Forward simulation *)
Definition erel (x y : sess) : Prop := srel neq x y /\ s_log x = s_log y /\ s_ncalls x = s_ncalls y.

Lemma tr_pod x y pid p : srel neq x y -> get_pod x pid = Some p -> exists p', get_pod y pid = Some p' /\ prel p p'.
Proof. intros (_ & Rp & _) G. exact (amap_rel_lookup_some _ _ _ pid _ Rp G). Qed.
Lemma tr_job x y jid j : srel neq x y -> alookup jid (s_jobs x) = Some j -> exists j', alookup jid (s_jobs y) = Some j' /\ jrel j j'.
Proof. intros (_ & _ & Rj & _) G. exact (amap_rel_lookup_some _ _ _ jid _ Rj G). Qed.
Lemma tr_node x y nid n : srel neq x y -> alookup nid (s_nodes x) = Some n -> exists n', alookup nid (s_nodes y) = Some n' /\ neq n n'.
Proof. intros (Rn & _) G. exact (amap_rel_lookup_some _ _ _ nid _ Rn G). Qed.
Lemma tr_job_update j j' ps jreq a b c j1 :
  jrel j j' -> job_update j ps jreq a b c = Some j1 -> exists j1', job_update j' ps jreq a b c = Some j1' /\ jrel j1 j1'.
Proof.
  intros H E. pose proof (job_update_rel j j' ps jreq a b c H) as G. rewrite E in G.
  destruct (job_update j' ps jreq a b c) as [x|]; [|contradiction]. exists x. split; [reflexivity|exact G].
Qed.

Lemma srel_is_upd x y x' y' nid n1 n1' pid P P' jid j1 j1' qs qs' L L' :
  srel neq x y -> is_upd x x' nid n1 pid P jid j1 qs L -> is_upd y y' nid n1' pid P' jid j1' qs' L' ->
  neq n1 n1' -> prel P P' -> jrel j1 j1' -> qs = qs' -> srel neq x' y'.
Proof.
  intros (Rn & Rp & Rj & Rq & Rk) (A & B & C & D & _ & _ & G) (A' & B' & C' & D' & _ & _ & G') Hn Hp Hj Hq.
  unfold srel. rewrite A, A', B, B', C, C', D, D', G, G'.
  split; [apply amap_rel_put; assumption|]. split; [apply amap_rel_put; assumption|].
  split; [apply amap_rel_put; assumption|]. split; assumption.
Qed.
Lemma erel_is_upd x y x' y' nid n1 n1' pid P P' jid j1 j1' qs qs' L :
  erel x y -> is_upd x x' nid n1 pid P jid j1 qs L -> is_upd y y' nid n1' pid P' jid j1' qs' L ->
  neq n1 n1' -> prel P P' -> jrel j1 j1' -> qs = qs' -> erel x' y'.
Proof.
  intros (Sr & El & En) U U' Hn Hp Hj Hq.
  split; [eapply srel_is_upd; eassumption|].
  destruct U as (_ & _ & _ & _ & E & F & _). destruct U' as (_ & _ & _ & _ & E' & F' & _).
  split; congruence.
Qed.

Lemma qeff_rel x y j1 j1' d : srel neq x y -> jrel j1 j1' ->
  qeff (s_queues x) (j_queue j1) (j_nonpreempt j1) d = qeff (s_queues y) (j_queue j1') (j_nonpreempt j1') d.
Proof. intros (_ & _ & _ & Rq & _) (Hq & Hn & _). rewrite Rq, Hq, Hn. reflexivity. Qed.

Lemma is_upd_put_pod s q s' nid n1 P jid j1 qs L :
  is_upd (put_pod s q) s' nid n1 (p_id q) P jid j1 qs L -> is_upd s s' nid n1 (p_id q) P jid j1 qs L.
Proof.
  intros (A & B & C & D & E & F & G). unfold is_upd. sess_cbn. rewrite aput_aput in B. repeat split; assumption.
Qed.

Lemma active_allocated_unmasked p : active_allocated (p_status p) = true -> pmasked p = false.
Proof. unfold pmasked. destruct (p_status p); cbn; intros H; try discriminate; apply andb_false_r. Qed.
Lemma active_allocated_used s : active_allocated s = true -> active_used s = true.
Proof. destruct s; cbn; intros H; try discriminate; reflexivity. Qed.

Definition nr_update_ex := nr_update_back neq any_task neq_sym neq_trans neq_pods neq_set_pods
    (fun a b t _ => neq_add a b t) (fun a b t _ => neq_remove a b t) (fun a t _ => neq_rem_add a t)
    (fun a t _ => neq_add_rem a t).

(** ** Evict (of a pod that is not Releasing) *)
Lemma sim_evict stk x y pid :
  erel x y -> wf_cmd any_task stk false x (Evict pid) = true -> releasing_in x pid = false ->
  exists x' y', evict x pid = (x', true) /\ evict y pid = (y', true) /\ erel x' y'.
Proof.
  intros Er W Nr. pose proof Er as (Sr & _).
  destruct (wf_evict_facts _ _ _ _ W Nr) as (p & j & nid & n & Gp & Eid & _ & Act & (Ej & Ipos & Ips & Inn) & _ & Epn & En & Srt & Cp & Fr).
  destruct (job_update_some j (p_pset p) (p_jreq p) (p_status p) (p_status p) Releasing Ips) as [j1 Ej1].
  assert (P1 : at_node_raw (set_st p Releasing) nid = set_st p Releasing).
  { unfold set_st. rewrite at_node_raw_with, Fr. reflexivity. }
  destruct (nr_update_ex n (p_task p) (p_task (set_st p Releasing))) as (n1 & Eu & _);
    [reflexivity|reflexivity|exact Srt|change (t_id (p_task p)) with (p_id p); rewrite Eid; exact Cp|reflexivity|].
  assert (Ns : status_eqb (p_status p) Releasing = false) by (rewrite <- (releasing_in_eq _ _ _ Gp); exact Nr).
  rewrite <- P1 in Eu.
  destruct (shape_evict x pid p j j1 nid n n1 Gp Eid Ej Epn En Ns Ej1 Eu) as (x' & Ex & Ux).
  destruct (tr_pod _ _ _ _ Sr Gp) as (p' & Gp' & Pr).
  pose proof (prel_unmasked _ _ Pr (active_allocated_unmasked _ Act)) as Epp. subst p'.
  destruct (tr_job _ _ _ _ Sr Ej) as (j' & Ej' & Jr).
  destruct (tr_job_update _ _ _ _ _ _ _ _ Jr Ej1) as (j1' & Ej1' & Jr1).
  destruct (tr_node _ _ _ _ Sr En) as (n' & En' & Nr').
  destruct (neq_update_task_ok _ _ _ _ Nr' Eu) as (n1' & Eu' & Nr1).
  destruct (shape_evict y pid p j' j1' nid n' n1' Gp' Eid Ej' Epn En' Ns Ej1' Eu') as (y' & Ey & Uy).
  exists x', y'. split; [exact Ex|]. split; [exact Ey|].
  eapply erel_is_upd; [exact Er|exact Ux|exact Uy|exact Nr1|apply prel_refl|exact Jr1|apply qeff_rel; assumption].
Qed.

(** ** un-evict of the pod's earliest valid evict entry, on two related sessions *)
Lemma sim_unevict_core x y pid p i prev nid pg pv n j :
  erel x y ->
  get_pod x pid = Some p -> p_id p = pid -> p_status p = Releasing -> Indexed x p j ->
  active_allocated prev = true -> p_node p = Some nid ->
  alookup nid (s_nodes x) = Some n -> sorted_keys (n_pods n) ->
  alookup pid (n_pods n) = Some (task_with (p_task (at_node_raw p nid)) Releasing pg) ->
  erel (push (unevict x pid prev nid pg pv) (OUndo i)) (push (unevict y pid prev nid pg pv) (OUndo i)).
Proof.
  intros Er Gp Eid St (Ej & Ipos & Ips & Inn) Act Epn En Srt Cp. pose proof Er as (Sr & _).
  destruct (job_update_some j (p_pset p) (p_jreq p) (p_status p) (p_status p) prev Ips) as [j1 Ej1].
  pose proof (active_allocated_used _ Act) as Au.
  set (P := at_node_raw (pod_with p prev pg (p_node p) pv) nid).
  destruct (nr_update_ex n (task_with (p_task (at_node_raw p nid)) Releasing pg) (p_task P)) as (n1 & Eu & _);
    [reflexivity|reflexivity|exact Srt|change (t_id (task_with (p_task (at_node_raw p nid)) Releasing pg)) with (p_id p); rewrite Eid; exact Cp|reflexivity|].
  assert (Am : amem pid (n_pods n) = true) by (unfold amem; rewrite Cp; reflexivity).
  pose proof (shape_unevict x pid p j j1 prev nid pg pv n n1 Gp Eid Ej Ej1 Au En Am Eu) as Ux.
  destruct (tr_pod _ _ _ _ Sr Gp) as (p' & Gp' & Pr).
  pose proof (prel_fields _ _ Pr) as (Fs & Fn & Fv & Fps & Fjr & Fid & Fjob & _ & _ & _ & _ & Fw).
  destruct (tr_job _ _ _ _ Sr Ej) as (j' & Ej' & Jr).
  destruct (tr_job_update _ _ _ _ _ _ _ _ Jr Ej1) as (j1' & Ej1' & Jr1).
  destruct (tr_node _ _ _ _ Sr En) as (n' & En' & Nr').
  assert (PP : at_node_raw (pod_with p' prev pg (p_node p') pv) nid = P) by (rewrite Fn; apply Fw).
  destruct (neq_update_task_ok _ _ _ _ Nr' Eu) as (n1' & Eu' & Nr1).
  assert (Am' : amem pid (n_pods n') = true) by (rewrite <- (neq_pods _ _ Nr'); exact Am).
  assert (Uy : is_upd y (unevict y pid prev nid pg pv) nid n1' pid P (t_job (p_task p)) j1'
                 (qeff (s_queues y) (j_queue j1') (j_nonpreempt j1') (p_qc P)) []).
  { rewrite <- PP, <- Fjob. apply (shape_unevict y pid p' j' j1' prev nid pg pv n' n1').
    - exact Gp'.
    - rewrite Fid. exact Eid.
    - rewrite Fjob. exact Ej'.
    - rewrite Fps, Fjr, Fs. exact Ej1'.
    - exact Au.
    - exact En'.
    - exact Am'.
    - rewrite PP. exact Eu'. }
  eapply erel_is_upd; [exact Er|apply is_upd_push; exact Ux|apply is_upd_push; exact Uy|exact Nr1|apply prel_refl|exact Jr1|apply qeff_rel; assumption].
Qed.

Lemma erel_log x y : erel x y -> s_log x = s_log y.
Proof. intros (_ & E & _). exact E. Qed.

(** ** Unevict *)
Lemma sim_unevict stk x y pid :
  erel x y -> wf_cmd any_task stk false x (Unevict pid) = true ->
  exists x' y', unevict_cmd x pid = (x', true) /\ unevict_cmd y pid = (y', true) /\ erel x' y'.
Proof.
  intros Er W. pose proof (erel_log _ _ Er) as El.
  unfold wf_cmd in W. cbn [negb andb] in W.
  destruct (get_pod x pid) as [p|] eqn:Gp; [|discriminate].
  apply andb_true_iff in W. destruct W as [W Wev].
  apply andb_true_iff in W. destruct W as [Wid _]. apply Pos.eqb_eq in Wid.
  destruct (evicted_facts _ _ Wev) as (St & Vt & (j & Ij) & _ & i & prev & nid & pg & pv & n & Ef & Ent & V & Act & Epn & Gor & En & Srt & Cp).
  rewrite Wid in *.
  exists (push (unevict x pid prev nid pg pv) (OUndo i)), (push (unevict y pid prev nid pg pv) (OUndo i)).
  split; [unfold unevict_cmd; rewrite Ef; apply (undo_op_evict _ _ _ _ _ _ _ V Ent)|].
  split; [unfold unevict_cmd; rewrite <- El, Ef; apply undo_op_evict; rewrite <- El; assumption|].
  apply (sim_unevict_core x y pid p i prev nid pg pv n j); assumption.
Qed.

(** a pod the statement has placed: nominated or allocated *)
Definition placed (a : pod) : bool := match p_status a with Pipelined | Allocated => true | _ => false end.
Definition placed_in (s : sess) (pid : positive) : Prop := exists a, get_pod s pid = Some a /\ placed a = true.
Definition is_placing (e : op) : bool := match e with OPipe _ _ _ _ _ _ _ | OAlloc _ _ _ => true | _ => false end.
Lemma is_upd_pod s s' nid n1 pid P jid j1 qs L p :
  is_upd s s' nid n1 pid P jid j1 qs L -> get_pod s pid = Some p -> get_pod s' pid = Some P.
Proof. intros (_ & B & _) G. unfold get_pod. rewrite B. apply (alookup_aput_same' _ _ _ _ G). Qed.

(** the pod a placement puts on the node is the same in two related sessions *)
Lemma placed_eq p0 p0' (gs : option (list positive)) st nid :
  prel p0 p0' -> (gs = None -> pmasked p0 = false) ->
  at_node_raw (set_nd (set_st match gs with Some g => set_gs p0' g | None => p0' end st) (Some nid)) nid
  = at_node_raw (set_nd (set_st match gs with Some g => set_gs p0 g | None => p0 end st) (Some nid)) nid
  /\ p_groups match gs with Some g => set_gs p0' g | None => p0' end = p_groups match gs with Some g => set_gs p0 g | None => p0 end.
Proof.
  intros Pr Hn. destruct gs as [g|].
  - pose proof (prel_fields _ _ Pr) as (_ & _ & Fv & _ & _ & _ & _ & _ & _ & _ & _ & Fw).
    split; [|reflexivity].
    change (at_node_raw (pod_with p0' st g (Some nid) (p_virt p0')) nid = at_node_raw (pod_with p0 st g (Some nid) (p_virt p0)) nid).
    rewrite Fv. apply Fw.
  - rewrite (prel_unmasked _ _ Pr (Hn eq_refl)). split; reflexivity.
Qed.

Lemma shared_gs_none_unmasked p : shared_gs p None = true -> pmasked p = false.
Proof. unfold shared_gs, pmasked. intros H. apply andb_true_iff in H. destruct H as [H _]. apply negb_true_iff in H. rewrite H. reflexivity. Qed.

(** ** Allocate *)
Lemma sim_alloc stk x y pid nid gs :
  erel x y -> wf_cmd any_task stk false x (Allocate pid nid gs) = true ->
  exists x' y', allocate x pid nid gs = (x', true) /\ allocate y pid nid gs = (y', true) /\ erel x' y' /\ placed_in x' pid.
Proof.
  intros Er W. pose proof Er as (Sr & _).
  unfold wf_cmd in W. cbn [negb andb] in W.
  destruct (get_pod x pid) as [p0|] eqn:Gp; [|discriminate].
  destruct (alookup nid (s_nodes x)) as [n|] eqn:En; [|discriminate].
  apply andb_true_iff in W. destruct W as [W Wnd].
  apply andb_true_iff in W. destruct W as [W Wam]. apply negb_true_iff in Wam.
  apply andb_true_iff in W. destruct W as [W Wix].
  apply andb_true_iff in W. destruct W as [W Wst]. apply status_eqb_eq in Wst.
  apply andb_true_iff in W. destruct W as [W Wsd].
  apply andb_true_iff in W. destruct W as [W Wpl].
  apply andb_true_iff in W. destruct W as [W Wgs].
  apply andb_true_iff in W. destruct W as [Wid Wtk]. apply Pos.eqb_eq in Wid.
  destruct (indexed_facts _ _ Wix) as [j (Ej & Ipos & Ips & Inn)].
  destruct (job_update_some j (p_pset p0) (p_jreq p0) (p_status p0) (p_status p0) Allocated Ips) as [j1 Ej1].
  set (p := match gs with Some g => set_gs p0 g | None => p0 end).
  set (p1 := at_node_raw (set_nd (set_st p Allocated) (Some nid)) nid).
  assert (Ip1 : t_id (p_task p1) = pid) by (unfold p1, p; destruct gs; exact Wid).
  assert (Ea : add_task n (p_task p1) = Ok (add_resources (set_pods n (aset (t_id (p_task p1)) (p_task p1) (n_pods n))) (p_task p1))).
  { apply add_task_ok. rewrite Ip1. apply amem_false_alookup. exact Wam. }
  destruct (shape_alloc x pid p0 gs j j1 nid n _ Gp Wid Ej Ej1 En Ea) as (x' & Ex & Ux).
  destruct (tr_pod _ _ _ _ Sr Gp) as (p0' & Gp' & Pr).
  pose proof (prel_fields _ _ Pr) as (Fs & Fn & Fv & Fps & Fjr & Fid & Fjob & _ & _ & _ & _ & Fw).
  destruct (placed_eq p0 p0' gs Allocated nid Pr) as (Pe & _).
  { intros ->. apply shared_gs_none_unmasked. exact Wgs. }
  destruct (tr_job _ _ _ _ Sr Ej) as (j' & Ej' & Jr).
  destruct (tr_job_update _ _ _ _ _ _ _ _ Jr Ej1) as (j1' & Ej1' & Jr1).
  destruct (tr_node _ _ _ _ Sr En) as (n' & En' & Nr').
  destruct (neq_add_task_ok _ _ _ _ Nr' Ea) as (n1' & Ea' & Nr1).
  destruct (shape_alloc y pid p0' gs j' j1' nid n' n1') as (y' & Ey & Uy).
  { exact Gp'. } { rewrite Fid. exact Wid. } { rewrite Fjob. exact Ej'. } { rewrite Fps, Fjr, Fs. exact Ej1'. } { exact En'. }
  { rewrite Pe. exact Ea'. }
  rewrite Pe, Fjob, Fv in Uy.
  exists x', y'. split; [exact Ex|]. split; [exact Ey|]. split.
  - eapply erel_is_upd; [exact Er|exact Ux|exact Uy|exact Nr1|apply prel_refl|exact Jr1|apply qeff_rel; assumption].
  - eexists. split; [exact (is_upd_pod _ _ _ _ _ _ _ _ _ _ _ Ux Gp)|reflexivity].
Qed.

(** ** Pipeline: a Pending pod / an evicted pod onto another node / onto other devices of its node /
    back onto its own node and devices (un-evict) *)
Lemma sim_pipe_body x y pid p0 p0' gs j nid n (on : option task) (move : bool) n1 :
  erel x y -> get_pod x pid = Some p0 -> p_id p0 = pid -> get_pod y pid = Some p0' -> prel p0 p0' ->
  (gs = None -> pmasked p0 = false) ->
  Indexed x p0 j -> alookup nid (s_nodes x) = Some n ->
  let p := match gs with Some g => set_gs p0 g | None => p0 end in
  let p' := match gs with Some g => set_gs p0' g | None => p0' end in
  let p1 := at_node_raw (set_nd (set_st p Pipelined) (Some nid)) nid in
  (if move then consolidate_to_different_gpu n (p_task p1)
   else match on with
        | Some _ => match update_task n (p_task p1) with Ok n' => Ok n' | Err => Ok n end
        | None => add_task n (p_task p1)
        end) = Ok n1 ->
  (on = None \/ move = true) ->
  exists n' x' y', alookup nid (s_nodes y) = Some n' /\ n_pods n' = n_pods n
    /\ pipeline_body (put_pod x p) p nid n on move = (x', true)
    /\ pipeline_body (put_pod y p') p' nid n' on move = (y', true) /\ erel x' y' /\ placed_in x' pid.
Proof.
  intros Er Gp Wid Gp' Pr Hn (Ej & Ipos & Ips & Inn) En p p' p1 Eop Hon. pose proof Er as (Sr & _).
  destruct (job_update_some j (p_pset p0) (p_jreq p0) (p_status p0) (p_status p0) Pipelined Ips) as [j1 Ej1].
  destruct (shape_pipe_body x pid p0 gs j j1 nid n on move n1 Gp Wid Ej Ej1 Eop) as (x' & Ex & Ux).
  pose proof (prel_fields _ _ Pr) as (Fs & Fn & Fv & Fps & Fjr & Fid & Fjob & _ & _ & _ & _ & Fw).
  destruct (placed_eq p0 p0' gs Pipelined nid Pr Hn) as (Pe & Ge).
  destruct (tr_job _ _ _ _ Sr Ej) as (j' & Ej' & Jr).
  destruct (tr_job_update _ _ _ _ _ _ _ _ Jr Ej1) as (j1' & Ej1' & Jr1).
  destruct (tr_node _ _ _ _ Sr En) as (n' & En' & Nr').
  assert (Eop' : exists n1', (if move then consolidate_to_different_gpu n' (p_task p1)
                            else match on with
                                 | Some _ => match update_task n' (p_task p1) with Ok n'' => Ok n'' | Err => Ok n' end
                                 | None => add_task n' (p_task p1)
                                 end) = Ok n1' /\ neq n1 n1').
  { destruct move.
    - apply (neq_consolidate_ok _ _ _ _ Nr' Eop).
    - destruct Hon as [->|?]; [|discriminate]. apply (neq_add_task_ok _ _ _ _ Nr' Eop). }
  destruct Eop' as (n1' & Eop' & Nr1).
  destruct (shape_pipe_body y pid p0' gs j' j1' nid n' on move n1') as (y' & Ey & Uy).
  { exact Gp'. } { rewrite Fid. exact Wid. } { rewrite Fjob. exact Ej'. } { rewrite Fps, Fjr, Fs. exact Ej1'. }
  { fold p'. unfold p1, p in Eop'. rewrite <- Pe in Eop'. exact Eop'. }
  fold p' in Uy, Ey. unfold p' in Uy. rewrite Pe, Ge, Fjob, Fv, Fs, Fn in Uy. fold p p1 in Uy.
  exists n', x', y'. split; [exact En'|]. split; [symmetry; apply neq_pods; exact Nr'|]. split; [exact Ex|]. split; [exact Ey|]. split.
  - eapply erel_is_upd; [exact Er|exact Ux|exact Uy|exact Nr1|apply prel_refl|exact Jr1|apply qeff_rel; assumption].
  - eexists. split; [exact (is_upd_pod _ _ _ _ _ _ _ _ _ _ _ Ux Gp)|reflexivity].
Qed.

Lemma sim_pipeline stk x y pid nid gs upd :
  erel x y -> wf_cmd any_task stk false x (Pipeline pid nid gs upd) = true ->
  exists x' y', pipeline x pid nid gs upd = (x', true) /\ pipeline y pid nid gs upd = (y', true) /\ erel x' y'
    /\ (forall e, s_log x' = s_log x ++ [e] -> is_placing e = true -> placed_in x' pid).
Proof.
  intros Er W. pose proof Er as (Sr & El & _).
  unfold wf_cmd in W. cbn [negb andb] in W.
  destruct (get_pod x pid) as [p0|] eqn:Gp; [|discriminate].
  destruct (alookup nid (s_nodes x)) as [n|] eqn:En; [|discriminate].
  apply andb_true_iff in W. destruct W as [W Wst].
  apply andb_true_iff in W. destruct W as [W Wsd].
  apply andb_true_iff in W. destruct W as [W Wpl].
  apply andb_true_iff in W. destruct W as [W Wgs].
  apply andb_true_iff in W. destruct W as [Wid Wtk].
  apply andb_true_iff in Wsd. destruct Wsd as [Wsd Wfr].
  apply Pos.eqb_eq in Wid. apply sortedb_sorted in Wsd.
  destruct (tr_pod _ _ _ _ Sr Gp) as (p0' & Gp' & Pr).
  pose proof (prel_fields _ _ Pr) as (Fs & Fn & Fv & Fps & Fjr & Fid & Fjob & Fsh & _ & _ & _ & Fw).
  assert (Hn : gs = None -> pmasked p0 = false) by (intros ->; apply shared_gs_none_unmasked; exact Wgs).
  set (p := match gs with Some g => set_gs p0 g | None => p0 end).
  set (p' := match gs with Some g => set_gs p0' g | None => p0' end).
  set (p1 := at_node_raw (set_nd (set_st p Pipelined) (Some nid)) nid).
  assert (Ip1 : t_id (p_task p1) = pid) by (unfold p1, p; destruct gs; exact Wid).
  assert (Gg : p_groups p' = p_groups p) by (apply (placed_eq p0 p0' gs Pipelined nid Pr Hn)).
  assert (Gsh : is_shared (p_task p') = is_shared (p_task p)) by (unfold p, p'; destruct gs; exact Fsh).
  (* the job of the pod, on both sides *)
  assert (HJ : exists j, Indexed x p0 j).
  { destruct (status_eqb (p_status p0) Pending).
    - apply andb_true_iff in Wst. destruct Wst as [Wst _]. apply andb_true_iff in Wst. destruct Wst as [Wix _].
      apply indexed_facts. exact Wix.
    - apply andb_true_iff in Wst. destruct Wst as [Wst _]. apply andb_true_iff in Wst. destruct Wst as [Wev _].
      destruct (evicted_facts _ _ Wev) as (_ & _ & Hj & _). exact Hj. }
  destruct HJ as [j Ij]. pose proof Ij as (Ej & _).
  destruct (tr_job _ _ _ _ Sr Ej) as (j' & Ej' & Jr). rewrite <- Fjob in Ej'.
  destruct (tr_node _ _ _ _ Sr En) as (n' & En' & Nr'). pose proof (neq_pods _ _ Nr') as Enp.
  rewrite (pipeline_eq x pid nid gs upd p0 j n Gp Ej En), (pipeline_eq y pid nid gs upd p0' j' n' Gp' Ej' En').
  cbv zeta. fold p p'. rewrite <- Enp, Gg, Gsh.
  assert (NoneCase : alookup pid (n_pods n) = None ->
            exists x' y', pipeline_body (put_pod x p) p nid n None false = (x', true)
                          /\ pipeline_body (put_pod y p') p' nid n' None false = (y', true) /\ erel x' y'
                          /\ (forall e, s_log x' = s_log x ++ [e] -> is_placing e = true -> placed_in x' pid)).
  { intros Ec.
    assert (Ea : add_task n (p_task p1) = Ok (add_resources (set_pods n (aset (t_id (p_task p1)) (p_task p1) (n_pods n))) (p_task p1))).
    { apply add_task_ok. rewrite Ip1. exact Ec. }
    destruct (sim_pipe_body x y pid p0 p0' gs j nid n None false _ Er Gp Wid Gp' Pr Hn Ij En Ea (or_introl eq_refl))
      as (n2 & x' & y' & En2 & _ & Ex & Ey & Er' & Pl).
    rewrite En' in En2. injection En2 as <-. exists x', y'. split; [exact Ex|]. split; [exact Ey|]. split; [exact Er'|intros; exact Pl]. }
  destruct (status_eqb (p_status p0) Pending) eqn:Est.
  - (* a Pending pod: not on the node *)
    apply andb_true_iff in Wst. destruct Wst as [Wst _].
    apply andb_true_iff in Wst. destruct Wst as [_ Wam]. apply negb_true_iff in Wam.
    rewrite (amem_false_alookup _ _ Wam). apply NoneCase. apply amem_false_alookup. exact Wam.
  - apply andb_true_iff in Wst. destruct Wst as [Wst Wcp].
    apply andb_true_iff in Wst. destruct Wst as [Wev Wup]. apply negb_true_iff in Wup. subst upd.
    destruct (evicted_facts _ _ Wev) as (St & Vt & _ & _ & i & prev & nid0 & pg & pv & n0 & Ef & Ent & V & Act & Epn & Gor & En0 & Srt0 & Cp0).
    rewrite Wid in *.
    destruct (alookup pid (n_pods n)) as [c|] eqn:Ec; [|apply NoneCase; reflexivity].
    rewrite Epn in Wcp. apply Pos.eqb_eq in Wcp. subst nid0. rewrite En in En0. injection En0 as <-.
    rewrite Ec in Cp0. injection Cp0 as Hc.
    destruct (negb (Nat.eqb (length (p_groups p)) 0) && is_shared (p_task p) && negb (list_pos_eqb (p_groups p) (t_groups c))) eqn:Emv.
    + (* other devices of the node *)
      cbn [negb andb].
      assert (Hsh : is_shared (p_task p1) = true).
      { apply andb_true_iff in Emv. destruct Emv as [Emv _]. apply andb_true_iff in Emv. destruct Emv as [_ X].
        unfold p in X. unfold p1, p. destruct gs; exact X. }
      assert (Ea : consolidate_to_different_gpu n (p_task p1)
                   = Ok (add_resources (set_pods n (aset (t_id (p_task p1)) (p_task p1) (n_pods n))) (p_task p1))).
      { unfold consolidate_to_different_gpu, add_task_gen. rewrite Hsh. cbn [andb negb]. rewrite andb_false_r. reflexivity. }
      destruct (sim_pipe_body x y pid p0 p0' gs j nid n (Some c) true _ Er Gp Wid Gp' Pr Hn Ij En Ea (or_intror eq_refl))
        as (n2 & x' & y' & En2 & _ & Ex & Ey & Er' & Pl).
      rewrite En' in En2. injection En2 as <-. exists x', y'. split; [exact Ex|]. split; [exact Ey|]. split; [exact Er'|intros; exact Pl].
    + (* the pod's own node and devices: un-evict *)
      cbn [negb andb].
      set (q := set_gs p (t_groups c)). set (q' := set_gs p' (t_groups c)).
      set (x1 := put_pod (put_pod x p) q). set (y1 := put_pod (put_pod y p') q').
      assert (Tg : t_groups c = pg) by (rewrite Hc; reflexivity).
      assert (Q1 : q = set_gs p0 pg) by (unfold q, p; rewrite Tg; destruct gs; reflexivity).
      assert (Q1' : q' = set_gs p0' pg) by (unfold q', p'; rewrite Tg; destruct gs; reflexivity).
      assert (Idp : p_id p = pid) by (unfold p; destruct gs; exact Wid).
      assert (Idp' : p_id p' = pid) by (unfold p'; destruct gs; exact Fid).
      assert (Idq : p_id q = pid) by exact Idp.
      assert (Idq' : p_id q' = pid) by exact Idp'.
      assert (Lx : s_log x1 = s_log x) by reflexivity.
      assert (Ly : s_log y1 = s_log y) by reflexivity.
      rewrite Lx, Ly, <- El, Ef.
      change (3 + length (s_log x))%nat with (S (2 + length (s_log x))).
      rewrite (exec_undo_evict _ x1 i pid prev nid pg pv) by (rewrite Lx; assumption).
      rewrite (exec_undo_evict _ y1 i pid prev nid pg pv) by (rewrite Ly, <- El; assumption).
      exists (push (unevict x1 pid prev nid pg pv) (OUndo i)), (push (unevict y1 pid prev nid pg pv) (OUndo i)).
      split; [reflexivity|]. split; [reflexivity|]. split.
      2:{ intros e He Hp. cbn [push set_log s_log] in He. rewrite unevict_log, Lx in He. apply app_inv_head in He.
          injection He as <-. discriminate Hp. }
      assert (Prq : prel p0 q).
      { rewrite Q1. apply prel_groups. intros M. destruct Gor as [[G _]|G]; [symmetry; exact G|].
        unfold pmasked in M. rewrite G, St, Vt in M. cbn in M. discriminate. }
      assert (Prq' : prel q q').
      { rewrite Q1, Q1'. destruct Pr as [Pc Pu]. split.
        - rewrite !pcore_set_gs. exact Pc.
        - intros M. assert (M0 : pmasked p0 = false) by exact M. rewrite (Pu M0). reflexivity. }
      assert (Gq : get_pod x1 pid = Some q).
      { unfold get_pod, x1. sess_cbn. rewrite Idq, Idp, aput_aput. apply (alookup_aput_same' _ _ _ _ Gp). }
      assert (Gq' : get_pod y1 pid = Some q').
      { unfold get_pod, y1. sess_cbn. rewrite Idq', Idp', aput_aput. apply (alookup_aput_same' _ _ _ _ Gp'). }
      assert (Er1 : erel x1 y1).
      { split; [|split; [exact El|apply Er]].
        destruct Sr as (Rn & Rp & Rj & Rq & Rk). unfold srel, x1, y1. sess_cbn.
        split; [exact Rn|]. split; [|split; [exact Rj|split; assumption]].
        rewrite Idq, Idq', Idp, Idp', !aput_aput. apply amap_rel_put; [exact Rp|exact Prq']. }
      apply (sim_unevict_core x1 y1 pid q i prev nid pg pv n j); try assumption.
      * rewrite Q1. exact St.
      * rewrite Q1. exact Ij.
      * rewrite Q1. exact Epn.
      * rewrite Ec, Hc, Q1. reflexivity.
Qed.

(** * The call counter moves at Commit only *)
Lemma nc_update_status s obj new : s_ncalls (fst (update_status s obj new)) = s_ncalls s.
Proof.
  unfold update_status. destruct (alookup (t_job (p_task obj)) (s_jobs s)); [|reflexivity].
  destruct (alookup (p_id obj) (s_pods s)); [|reflexivity]. destruct (job_update _ _ _ _ _ _); reflexivity.
Qed.
Lemma nc_evict s pid : s_ncalls (fst (evict s pid)) = s_ncalls s.
Proof.
  unfold evict. destruct (get_pod s pid) as [p|]; [|reflexivity].
  destruct (alookup (t_job (p_task p)) (s_jobs s)); [|reflexivity]. destruct (p_node p) as [nid|]; [|reflexivity].
  destruct (alookup nid (s_nodes s)) as [n|]; [|reflexivity]. destruct (status_eqb (p_status p) Releasing); [reflexivity|].
  unfold evict_on. pose proof (nc_update_status s p Releasing) as U. destruct (update_status s p Releasing) as [s1 ok]. cbn [fst] in U.
  destruct ok; cbn [negb]; [|reflexivity]. destruct (update_task n _); cbn [fst]; [|exact U]. sess_cbn. cq. sess_cbn. exact U.
Qed.
Lemma nc_unevict s pid prev nid pg pv : s_ncalls (unevict s pid prev nid pg pv) = s_ncalls s.
Proof.
  unfold unevict. destruct (get_pod s pid) as [p|]; [|reflexivity].
  pose proof (nc_update_status s p prev) as U. destruct (update_status s p prev) as [s1 ok]. cbn [fst] in U.
  destruct (alookup nid (s_nodes s1)) as [n|]; cbv zeta; cq; sess_cbn; [|exact U].
  destruct (if amem pid (n_pods n) then _ else _); sess_cbn; exact U.
Qed.
Lemma nc_unpipeline s pid prev pn pg pv mv : s_ncalls (fst (unpipeline s pid prev pn pg pv mv)) = s_ncalls s.
Proof.
  unfold unpipeline. destruct (get_pod s pid) as [p|]; [|reflexivity].
  pose proof (nc_update_status s p prev) as U. destruct (update_status s p prev) as [s1 ok]. cbn [fst] in U.
  destruct (p_node p) as [h|]; [|exact U]. sess_cbn.
  destruct (alookup h (s_nodes s1)) as [n|]; cbn [fst]; [|exact U]. cq. sess_cbn. exact U.
Qed.
Lemma nc_unallocate s obj pv : s_ncalls (fst (unallocate s obj pv)) = s_ncalls s.
Proof.
  unfold unallocate. pose proof (nc_update_status s obj Pending) as U. destruct (update_status s obj Pending) as [s1 ok]. cbn [fst] in U.
  destruct (p_node obj) as [h|]; [|exact U]. destruct (alookup h (s_nodes s1)) as [n|]; cbn [fst]; [|exact U].
  cq. sess_cbn. destruct (remove_task n (p_id obj)); sess_cbn; exact U.
Qed.
Lemma nc_allocate s pid nid gs : s_ncalls (fst (allocate s pid nid gs)) = s_ncalls s.
Proof.
  unfold allocate. destruct (get_pod s pid) as [p0|]; [|reflexivity].
  set (p := match gs with Some g => set_gs p0 g | None => p0 end).
  pose proof (nc_update_status (put_pod s p) p Allocated) as U. destruct (update_status (put_pod s p) p Allocated) as [s1 ok]. cbn [fst] in U.
  destruct ok; cbn [negb fst]; [|reflexivity]. sess_cbn.
  destruct (alookup nid (s_nodes s1)) as [n|]; cbn [fst]; [|exact U].
  destruct (add_task n _); cbn [fst]; [|exact U]. sess_cbn. cq. sess_cbn. exact U.
Qed.
Lemma nc_pipeline_body s0 p nid n on move : s_ncalls (fst (pipeline_body s0 p nid n on move)) = s_ncalls s0.
Proof.
  unfold pipeline_body. pose proof (nc_update_status s0 p Pipelined) as U. destruct (update_status s0 p Pipelined) as [s1 ok]. cbn [fst] in U.
  match goal with |- context [match ?r with Err => _ | Ok n' => _ end] => destruct r as [n'|] end; cbn [fst]; [|exact U].
  sess_cbn. cq. sess_cbn. exact U.
Qed.
Lemma nc_exec : forall f s q, s_ncalls (fst (exec f s q)) = s_ncalls s.
Proof.
  induction f as [|f IH]; intros s q; [reflexivity|]. cbn [exec]. destruct q as [pid nid gs upd|i].
  - destruct (get_pod s pid) as [p0|]; [|reflexivity].
    set (p := match gs with Some g => set_gs p0 g | None => p0 end).
    destruct (alookup (t_job (p_task p)) (s_jobs (put_pod s p))); [|reflexivity].
    destruct (alookup nid (s_nodes (put_pod s p))) as [n|]; [|reflexivity].
    destruct (alookup pid (n_pods n)) as [c|].
    + match goal with |- context [if ?b then _ else _] => destruct b end.
      * match goal with |- context [first_valid_evict ?a ?b ?c ?d] => destruct (first_valid_evict a b c d) as [[i|]|] end; try reflexivity.
        rewrite IH. reflexivity.
      * rewrite nc_pipeline_body. reflexivity.
    + rewrite nc_pipeline_body. reflexivity.
  - destruct (op_valid (s_log s) i) as [[|]|]; try reflexivity.
    destruct (nth_error (s_log s) i) as [o|]; [|reflexivity].
    assert (G : forall r : sess * bool, s_ncalls (fst r) = s_ncalls s ->
                s_ncalls (fst (let '(s1, ok) := r in if ok then (push s1 (OUndo i), true) else (s1, false))) = s_ncalls s).
    { intros [s1 ok] H. destruct ok; exact H. }
    apply G. destruct o as [p prev nid pg pv|p prev pn pg pv nx mv|c nx pv|k].
    + apply nc_unevict.
    + apply nc_unpipeline.
    + destruct (get_pod s (p_id c)); [apply nc_unallocate|reflexivity].
    + destruct (nth_error (s_log s) k) as [[p ? ? ? ?|p ? ? ? ? nx ?|c nx ?|k']|]; try reflexivity.
      * apply nc_evict.
      * apply IH.
      * apply nc_allocate.
      * apply IH.
Qed.
Lemma nc_undo_down : forall k s cp, s_ncalls (fst (undo_down s cp k)) = s_ncalls s.
Proof.
  induction k as [|k IH]; intros s cp; [reflexivity|]. cbn [undo_down]. unfold undo_operation.
  pose proof (nc_exec (fuel_of s) s (QUndo (cp + k))) as U. destruct (exec (fuel_of s) s (QUndo (cp + k))) as [s1 ok]. cbn [fst] in U.
  destruct ok; [rewrite IH; exact U|exact U].
Qed.
Lemma nc_rollback s cp : s_ncalls (fst (rollback s cp)) = s_ncalls s.
Proof.
  unfold rollback. destruct (Nat.ltb (length (s_log s)) cp); [reflexivity|].
  pose proof (nc_undo_down (length (s_log s) - cp) s cp) as U. destruct (undo_down s cp (length (s_log s) - cp)) as [s1 ok]. cbn [fst] in U.
  destruct ok; exact U.
Qed.

(** ** a recorded command on two related sessions *)
Lemma sim_cmd fails stk x y c :
  log_cmd c = true -> noop_cmd x c = false -> wf_cmd any_task stk false x c = true -> s_stuck x = false -> erel x y ->
  exists x' y', step_full fails x c = (x', [], true) /\ step_full fails y c = (y', [], true) /\ erel x' y'.
Proof.
  intros Lc Nc W Ks Er. pose proof Er as ((_ & _ & _ & _ & Kk) & _).
  assert (Ky : s_stuck y = false) by congruence.
  unfold step_full. rewrite Ks, Ky.
  destruct c as [pid|pid nid gs upd|pid nid gs|pid| | | | |]; try discriminate.
  - destruct (sim_evict stk x y pid Er W Nc) as (x' & y' & Ex & Ey & Er'). exists x', y'. rewrite Ex, Ey. split; [reflexivity|split; [reflexivity|exact Er']].
  - destruct (sim_pipeline stk x y pid nid gs upd Er W) as (x' & y' & Ex & Ey & Er' & _). exists x', y'. rewrite Ex, Ey. split; [reflexivity|split; [reflexivity|exact Er']].
  - destruct (sim_alloc stk x y pid nid gs Er W) as (x' & y' & Ex & Ey & Er' & _). exists x', y'. rewrite Ex, Ey. split; [reflexivity|split; [reflexivity|exact Er']].
  - destruct (sim_unevict stk x y pid Er W) as (x' & y' & Ex & Ey & Er'). exists x', y'. rewrite Ex, Ey. split; [reflexivity|split; [reflexivity|exact Er']].
Qed.

Lemma nc_step_open fails s c : open_cmd c = true -> s_ncalls (fst (step fails s c)) = s_ncalls s.
Proof.
  intros Oc. unfold step, step_full. destruct (s_stuck s); [reflexivity|].
  destruct c as [pid|pid nid gs upd|pid nid gs|pid| |cp| | |]; try discriminate.
  - pose proof (nc_evict s pid) as U. destruct (evict s pid). exact U.
  - pose proof (nc_exec (fuel_of s) s (QPipeline pid nid gs upd)) as U. unfold pipeline. destruct (exec _ _ _). exact U.
  - pose proof (nc_allocate s pid nid gs) as U. destruct (allocate s pid nid gs). exact U.
  - unfold unevict_cmd. destruct (first_valid_evict _ _ _ _) as [[i|]|]; try reflexivity.
    pose proof (nc_exec (fuel_of s) s (QUndo i)) as U. unfold undo_operation. destruct (exec _ _ _). exact U.
  - reflexivity.
  - pose proof (nc_rollback s cp) as U. destruct (rollback s cp). exact U.
  - cbn [fst]. unfold discard. cbn [s_ncalls set_log].
    generalize (length (s_log s)). intros k. revert s. induction k as [|k IH]; intros s; [reflexivity|].
    cbn [discard_down]. rewrite IH. unfold undo_operation. apply nc_exec.
Qed.

(** * 4. The erasure invariant along an open statement *)
Section Erase.
  Variable fails : nat -> bool.
  Variable S : sess.

  Definition EK (x : sess) (hist : list sess) (ek : list (nat * list cmd)) : Prop :=
    forall cp k, In (cp, k) ek ->
      (cp <= length (s_log x))%nat
      /\ exists h, nth_error hist cp = Some h /\ srel neq h (Session.run fails S k)
                   /\ s_log (Session.run fails S k) = firstn cp (s_log x)
                   /\ s_ncalls (Session.run fails S k) = s_ncalls x.
  Definition J (x : sess) (hist : list sess) (stk : list nat) (ek : list (nat * list cmd)) (base kept : list cmd) : Prop :=
    Hist neq x hist /\ erel x (Session.run fails S kept) /\ map fst ek = stk /\ EK x hist ek
    /\ exists h0, nth_error hist 0 = Some h0 /\ srel neq h0 (Session.run fails S base)
                  /\ s_log (Session.run fails S base) = [] /\ s_ncalls (Session.run fails S base) = s_ncalls x.

  Lemma find_key_gen {A} cp (l : list (nat * A)) :
    In cp (map fst l) -> exists v, find (fun y => Nat.eqb (fst y) cp) l = Some (cp, v) /\ In (cp, v) l.
  Proof.
    induction l as [|[k v] r IH]; cbn [map fst In find]; [intros []|].
    intros [E|Hin].
    - subst k. rewrite Nat.eqb_refl. exists v. split; [reflexivity|left; reflexivity].
    - destruct (Nat.eqb k cp) eqn:E.
      + apply Nat.eqb_eq in E. subst k. exists v. split; [reflexivity|left; reflexivity].
      + destruct (IH Hin) as (y & Ey & Iy). exists y. split; [exact Ey|right; exact Iy].
  Qed.
  Lemma map_fst_filter_gen {A} (cp : nat) (l : list (nat * A)) :
    map fst (filter (fun x => Nat.leb (fst x) cp) l) = filter (fun x => Nat.leb x cp) (map fst l).
  Proof. induction l as [|x r IH]; cbn; [reflexivity|]. destruct (Nat.leb (fst x) cp); cbn; rewrite IH; reflexivity. Qed.

  Lemma run_snoc kept c : Session.run fails S (kept ++ [c]) = fst (step fails (Session.run fails S kept) c).
  Proof. rewrite run_app. reflexivity. Qed.

  Lemma firstn_firstn_le {A} (L : list A) a b : (a <= b)%nat -> firstn a (firstn b L) = firstn a L.
  Proof. intros H. rewrite firstn_firstn. replace (Nat.min a b) with a by lia. reflexivity. Qed.
  Lemma firstn_app_le {A} (L T : list A) a : (a <= length L)%nat -> firstn a (L ++ T) = firstn a L.
  Proof. intros H. rewrite firstn_app. replace (a - length L)%nat with 0%nat by lia. cbn [firstn]. apply app_nil_r. Qed.

  Lemma erase_step x hist stk ek base kept c :
    open_cmd c = true -> wf_cmd any_task stk false x c = true -> J x hist stk ek base kept ->
    exists hist' ek' base' kept',
      erase_go fails x ek base kept (c :: nil) = kept'
      /\ (forall r, erase_go fails x ek base kept (c :: r) = erase_go fails (fst (step fails x c)) ek' base' kept' r)
      /\ J (fst (step fails x c)) hist' (stk_after stk x c) ek' base' kept'.
  Proof.
    intros Oc W (H & Er & Sm & Ek & h0 & Eh0 & Sr0 & Lb & Nb).
    pose proof H as (Hl & OK & Ks & Fk & Lk & Tp).
    set (y := Session.run fails S kept) in *.
    pose proof (nc_step_open fails x c Oc) as Ncx.
    destruct (noop_cmd x c) eqn:Nc.
    { (* Evict of a Releasing pod: nothing happens on either side *)
      destruct c as [pid| | | | | | | |]; try discriminate. cbn [noop_cmd] in Nc.
      exists hist, ek, base, (kept ++ [Evict pid]). split; [reflexivity|]. split; [reflexivity|].
      rewrite (noop_step fails x (Evict pid) Nc). cbn [fst stk_after].
      split; [exact H|]. split.
      { rewrite run_snoc. fold y. rewrite (noop_step fails y (Evict pid)); [exact Er|].
        cbn [noop_cmd]. destruct Er as (Sr & _). rewrite (srel_releasing neq x y pid Sr). exact Nc. }
      split; [exact Sm|]. split; [exact Ek|]. exists h0. split; [exact Eh0|]. split; [exact Sr0|]. split; assumption. }
    destruct (log_cmd c) eqn:Lc.
    - destruct (cmd_link_n fails stk x c Lc Nc W OK Ks) as (x' & e & Es & Ks' & Ls & _ & OK' & Lnew & _).
      destruct (sim_cmd fails stk x y c Lc Nc W Ks Er) as (x'' & y' & Es' & Ey & Er').
      rewrite Es in Es'. injection Es' as <-.
      assert (Ex : fst (step fails x c) = x') by (unfold step; rewrite Es; reflexivity).
      assert (Eyy : Session.run fails S (kept ++ [c]) = y') by (rewrite run_snoc; fold y; unfold step; rewrite Ey; reflexivity).
      rewrite Ex in *.
      assert (E1 : stk_after stk x c = stk) by (destruct c; try discriminate; reflexivity).
      exists (hist ++ [x']), ek, base, (kept ++ [c]).
      split; [destruct c; try discriminate; reflexivity|]. split; [intros r; destruct c; try discriminate; cbn [erase_go]; rewrite Ex; reflexivity|].
      rewrite E1. split; [eapply (Hist_push neq neq_refl neq_trans); eassumption|]. split; [rewrite Eyy; exact Er'|]. split; [exact Sm|]. split.
      + intros cp k Hin. destruct (Ek cp k Hin) as (Le & h & Eh & Sr & Lg & Ng).
        split; [rewrite Ls, app_length; lia|]. exists h.
        split; [rewrite nth_error_app1; [exact Eh|apply nth_error_Some; congruence]|].
        split; [exact Sr|]. split; [rewrite Ls, firstn_app_le by exact Le; exact Lg|congruence].
      + exists h0. split; [destruct hist; [cbn in Hl; lia|exact Eh0]|]. split; [exact Sr0|]. split; [exact Lb|congruence].
    - destruct c as [| | | | |cp| | |]; try discriminate.
      + (* Checkpoint *)
        assert (Ex : fst (step fails x Checkpoint) = x) by (unfold step, step_full; rewrite Ks; reflexivity).
        exists hist, ((length (s_log x), kept) :: ek), base, kept.
        split; [reflexivity|]. split; [intros r; cbn [erase_go]; rewrite Ex; reflexivity|]. rewrite Ex.
        split; [exact H|]. split; [exact Er|]. split; [cbn [map fst stk_after]; rewrite Sm; reflexivity|]. split.
        * intros c2 k [Hin|Hin]; [|apply Ek; exact Hin]. injection Hin as <- <-. split; [lia|].
          destruct (nth_error hist (length (s_log x))) as [top|] eqn:Et.
          2:{ apply nth_error_None in Et. lia. }
          exists top. split; [reflexivity|]. destruct Er as (Sr & El & En).
          split; [eapply srel_trans; [exact neq_trans|apply Tp; reflexivity|exact Sr]|].
          split; [rewrite firstn_all; symmetry; exact El|symmetry; exact En].
        * exists h0. split; [exact Eh0|]. split; [exact Sr0|]. split; assumption.
      + (* Rollback *)
        assert (Wc : existsb (Nat.eqb cp) stk = true) by exact W.
        apply existsb_exists in Wc. destruct Wc as (z & Hz & Ez). apply Nat.eqb_eq in Ez. subst z.
        rewrite <- Sm in Hz. destruct (find_key_gen cp ek Hz) as (k & Ef & Hin).
        destruct (Ek cp k Hin) as (Le & h & Eh & Sr & Lg & Ng).
        destruct (Hist_rollback_n x hist cp H Le) as (x' & hh & Erb & Ehh & Srh & H' & Lx').
        rewrite Eh in Ehh. injection Ehh as <-.
        assert (Ex : fst (step fails x (Rollback cp)) = x') by (unfold step, step_full; rewrite Ks, Erb; reflexivity).
        rewrite Ex in *.
        assert (Ll : length (s_log x') = cp) by (rewrite Lx', firstn_length; lia).
        exists (firstn (Datatypes.S cp) hist), (filter (fun z => Nat.leb (fst z) cp) ek), base, k.
        split; [cbn [erase_go]; rewrite Ef; reflexivity|].
        split; [intros r; cbn [erase_go]; rewrite Ef, Ex; reflexivity|].
        split; [exact H'|]. split.
        { split; [eapply srel_trans; [exact neq_trans|apply srel_sym; [exact neq_sym|exact Srh]|exact Sr]|].
          split; [rewrite Lx'; symmetry; exact Lg|congruence]. }
        split; [cbn [stk_after]; rewrite map_fst_filter_gen, Sm; reflexivity|]. split.
        * intros c2 k2 Hf. apply filter_In in Hf. destruct Hf as [Hf Hle]. cbn [fst] in Hle. apply Nat.leb_le in Hle.
          destruct (Ek c2 k2 Hf) as (Le2 & h2 & Eh2 & Sr2 & Lg2 & Ng2).
          split; [lia|]. exists h2. split.
          { rewrite la_nth_firstn. destruct (Nat.ltb c2 (Datatypes.S cp)) eqn:E; [exact Eh2|apply Nat.ltb_ge in E; lia]. }
          split; [exact Sr2|]. split; [rewrite Lx', firstn_firstn_le by exact Hle; exact Lg2|congruence].
        * exists h0. split; [destruct hist; [cbn in Hl; lia|exact Eh0]|]. split; [exact Sr0|]. split; [exact Lb|congruence].
      + (* Discard *)
        destruct (Hist_rollback_n x hist 0%nat H ltac:(lia)) as (x' & hh & Erb & Ehh & Srh & H' & Lx').
        rewrite Eh0 in Ehh. injection Ehh as <-.
        assert (Ex : fst (step fails x Discard) = x').
        { unfold step, step_full. rewrite Ks. cbn [fst]. apply discard_of_rollback. exact Erb. }
        rewrite Ex in *.
        exists (firstn 1 hist), [], base, base.
        split; [reflexivity|]. split; [intros r; cbn [erase_go]; rewrite Ex; reflexivity|].
        split; [exact H'|]. split.
        { split; [eapply srel_trans; [exact neq_trans|apply srel_sym; [exact neq_sym|exact Srh]|exact Sr0]|].
          split; [rewrite Lx', Lb; reflexivity|congruence]. }
        split; [reflexivity|]. split; [intros c2 k2 []|].
        exists h0. split; [destruct hist; [cbn in Hl; lia|exact Eh0]|]. split; [exact Sr0|]. split; [exact Lb|congruence].
  Qed.
End Erase.

Lemma erase_run fails S : forall prog x hist stk ek base kept c,
  forallb open_cmd prog = true -> J fails S x hist stk ek base kept ->
  wf_from any_task fails stk false x (prog ++ [c]) = true ->
  exists hist' stk' ek' base' kept',
    (forall r, erase_go fails x ek base kept (prog ++ r) = erase_go fails (Session.run fails x prog) ek' base' kept' r)
    /\ J fails S (Session.run fails x prog) hist' stk' ek' base' kept'
    /\ wf_cmd any_task stk' false (Session.run fails x prog) c = true.
Proof.
  induction prog as [|c0 r0 IH]; intros x hist stk ek base kept c Op Hj W.
  - exists hist, stk, ek, base, kept. cbn [app wf_from] in W. apply andb_true_iff in W. destruct W as [W _].
    split; [intros r; reflexivity|]. split; [exact Hj|exact W].
  - cbn [forallb] in Op. apply andb_true_iff in Op. destruct Op as [Oc Or].
    cbn [app wf_from] in W. apply andb_true_iff in W. destruct W as [Wc Wr].
    destruct (erase_step fails S x hist stk ek base kept c0 Oc Wc Hj) as (hist1 & ek1 & base1 & kept1 & _ & Eg & Hj1).
    assert (Ec : conv_after false c0 = false) by (destruct c0; try discriminate; reflexivity).
    rewrite Ec in Wr.
    destruct (IH _ _ _ _ _ _ c Or Hj1 Wr) as (hist' & stk' & ek' & base' & kept' & Eg' & Hj' & W').
    exists hist', stk', ek', base', kept'. rewrite run_cons.
    split; [intros r; cbn [app]; rewrite Eg; apply Eg'|]. split; [exact Hj'|exact W'].
Qed.

(** the erased program reaches a session related to the one the program reaches, with the same operation
    log (every recorded entry, the clones kept by the allocate entries included) and the same call counter *)
Theorem erase_open fails S prog c :
  s_log S = [] -> s_stuck S = false -> forallb open_cmd prog = true ->
  wf_from any_task fails [] false S (prog ++ [c]) = true ->
  srel neq (Session.run fails S prog) (Session.run fails S (erase fails S prog))
  /\ s_log (Session.run fails S prog) = s_log (Session.run fails S (erase fails S prog))
  /\ s_ncalls (Session.run fails S prog) = s_ncalls (Session.run fails S (erase fails S prog)).
Proof.
  intros L K Op W.
  assert (Hj : J fails S S [S] [] [] [] []).
  { split; [exact (Hist_init neq neq_refl S L K)|].
    split; [split; [apply srel_refl; exact neq_refl|split; reflexivity]|].
    split; [reflexivity|]. split; [intros cp k []|].
    exists S. split; [reflexivity|]. split; [apply srel_refl; exact neq_refl|]. split; [exact L|reflexivity]. }
  destruct (erase_run fails S prog S [S] [] [] [] [] c Op Hj W) as (hist' & stk' & ek' & base' & kept' & Eg & (_ & Er & _) & _).
  specialize (Eg []). rewrite app_nil_r in Eg. cbn [erase_go] in Eg.
  unfold erase. rewrite Eg. exact Er.
Qed.

(** what Commit would hand to Cache.Bind is the same after the program and after the erased program *)
Corollary erase_payload fails S prog c :
  s_log S = [] -> s_stuck S = false -> forallb open_cmd prog = true ->
  wf_from any_task fails [] false S (prog ++ [c]) = true ->
  commit_payload (s_log (Session.run fails S prog)) = commit_payload (s_log (Session.run fails S (erase fails S prog))).
Proof. intros L K Op W. destruct (erase_open fails S prog c L K Op W) as (_ & E & _). rewrite E. reflexivity. Qed.

(** * 5. Commit emits the same calls after the program and after the erased program *)

(** ** a pod with a placing entry in the log of a well-formed open statement is nominated or allocated *)
Definition PM (L : list op) (s : sess) : Prop := forall pid, has_placing L pid = true -> placed_in s pid.
Definition SPM (L : list op) (sn : list (nat * sess)) : Prop := forall cp x, In (cp, x) sn -> PM (firstn cp L) x.

Lemma placed_in_srel x y pid : srel neq x y -> placed_in x pid -> placed_in y pid.
Proof.
  intros Sr (a & G & P). destruct (tr_pod _ _ _ _ Sr G) as (b & Gb & Pr).
  exists b. split; [exact Gb|]. destruct (prel_fields _ _ Pr) as (E & _). unfold placed in *. rewrite E. exact P.
Qed.
Lemma PM_srel L x y : srel neq x y -> PM L x -> PM L y.
Proof. intros Sr H pid Hp. apply (placed_in_srel x y pid Sr). apply H. exact Hp. Qed.

Lemma wf_no_placing stk s c :
  log_cmd c = true -> noop_cmd s c = false -> wf_cmd any_task stk false s c = true -> has_placing (s_log s) (cpod c) = false.
Proof.
  intros Lc Nc W. destruct c as [pid|pid nid gs upd|pid nid gs|pid| | | | |]; try discriminate; cbn [cpod].
  - destruct (wf_evict_facts any_task stk s pid W Nc) as (p & j & nid & n & _ & _ & _ & _ & _ & Hp & _). exact Hp.
  - eapply wf_placing_pipe. exact W.
  - eapply wf_placing_alloc. exact W.
  - unfold wf_cmd in W. cbn [negb andb] in W. destruct (get_pod s pid) as [p|]; [|discriminate].
    apply andb_true_iff in W. destruct W as [W Wev]. apply andb_true_iff in W. destruct W as [Wid _]. apply Pos.eqb_eq in Wid.
    destruct (evicted_facts _ _ Wev) as (_ & _ & _ & Hp & _). rewrite Wid in Hp. exact Hp.
Qed.

Lemma erel_refl x : erel x x.
Proof. split; [apply srel_refl; exact neq_refl|split; reflexivity]. Qed.

(** the pod of a command that recorded a placing entry is placed afterwards *)
Lemma placing_makes_placed fails stk s c s' e :
  log_cmd c = true -> noop_cmd s c = false -> wf_cmd any_task stk false s c = true -> s_stuck s = false ->
  step_full fails s c = (s', [], true) -> s_log s' = s_log s ++ [e] -> is_placing e = true -> placed_in s' (cpod c).
Proof.
  intros Lc Nc W Ks Es Ls Pe. unfold step_full in Es. rewrite Ks in Es.
  destruct c as [pid|pid nid gs upd|pid nid gs|pid| | | | |]; try discriminate; cbn [cpod].
  - exfalso. destruct (sim_evict stk s s pid (erel_refl s) W Nc) as (x' & _ & Ex & _ & _).
    destruct (wf_evict_facts any_task stk s pid W Nc) as (p & j & nid & n & Gp & Eid & _).
    destruct (link_evict neq any_task neq_sym neq_trans neq_pods neq_set_pods (fun a b t _ => neq_add a b t) (fun a b t _ => neq_remove a b t)
                (fun a t _ => neq_rem_add a t) (fun a t _ => neq_add_rem a t) (fun t s0 g => eq_refl) stk s pid W Nc)
      as (s2 & p2 & nid2 & Ev & _ & Lg & _).
    rewrite Ev in Es. injection Es as <-. rewrite Lg in Ls. apply app_inv_head in Ls. injection Ls as <-. discriminate Pe.
  - destruct (sim_pipeline stk s s pid nid gs upd (erel_refl s) W) as (x' & _ & Ex & _ & _ & Pl).
    rewrite Ex in Es. injection Es as <-. exact (Pl e Ls Pe).
  - destruct (sim_alloc stk s s pid nid gs (erel_refl s) W) as (x' & _ & Ex & _ & _ & Pl).
    rewrite Ex in Es. injection Es as <-. exact Pl.
  - exfalso. unfold wf_cmd in W. cbn [negb andb] in W. destruct (get_pod s pid) as [p|] eqn:Gp; [|discriminate].
    apply andb_true_iff in W. destruct W as [W Wev]. apply andb_true_iff in W. destruct W as [Wid _]. apply Pos.eqb_eq in Wid.
    destruct (evicted_facts _ _ Wev) as (_ & _ & _ & _ & i & prev & nid & pg & pv & n & Ef & Ent & V & _). rewrite Wid in *.
    unfold unevict_cmd in Es. rewrite Ef, (undo_op_evict _ _ _ _ _ _ _ V Ent) in Es. injection Es as <-.
    cbn [push set_log s_log] in Ls. rewrite unevict_log in Ls. apply app_inv_head in Ls. injection Ls as <-. discriminate Pe.
Qed.

Lemma pm_step fails s stk sn hist c :
  open_cmd c = true -> wf_cmd any_task stk false s c = true -> Hist neq s hist -> SnOK neq s hist stk sn ->
  PM (s_log s) s -> SPM (s_log s) sn ->
  PM (s_log (fst (step fails s c))) (fst (step fails s c)) /\ SPM (s_log (fst (step fails s c))) (snaps_after sn s c).
Proof.
  intros Oc W H Sn Pm Sp. pose proof H as (Hl & OK & Ks & _). destruct Sn as (Sm & Se).
  destruct (noop_cmd s c) eqn:Nc.
  { rewrite (noop_step fails s c Nc). cbn [fst]. destruct c; try discriminate. split; [exact Pm|exact Sp]. }
  destruct (log_cmd c) eqn:Lc.
  - destruct (cmd_link_n fails stk s c Lc Nc W OK Ks) as (s' & e & Es & _ & Ls & Ef & _ & _ & (Pf & _)).
    unfold step. rewrite Es. cbn [fst]. rewrite Ls.
    assert (E2 : snaps_after sn s c = sn) by (destruct c; try discriminate; reflexivity). rewrite E2.
    split.
    + intros pid Hp. rewrite has_placing_snoc in Hp. apply orb_true_iff in Hp. destruct Hp as [Hp|Hp].
      * assert (Ne : pid <> cpod c).
        { intros ->. rewrite (wf_no_placing stk s c Lc Nc W) in Hp. discriminate. }
        destruct (Pm pid Hp) as (a & G & Pa). exists a. split; [|exact Pa]. unfold get_pod. rewrite (Pf pid Ne). exact G.
      * assert (Ep : is_placing e = true /\ pid = cpod c).
        { destruct e as [q ? ? ? ?|q ? ? ? ? ? ?|cl ? ?|i0]; try discriminate; apply Pos.eqb_eq in Hp;
            destruct c; cbn [entry_for cpod] in *; try contradiction; (split; [reflexivity|congruence]). }
        destruct Ep as (Pe & ->). exact (placing_makes_placed fails stk s c s' e Lc Nc W Ks Es Ls Pe).
    + intros cp x Hin. destruct (Se cp x Hin) as (Le & _). rewrite (firstn_snoc_le _ _ _ Le). exact (Sp cp x Hin).
  - destruct c as [| | | | |cp| | |]; try discriminate.
    + unfold step, step_full. rewrite Ks. cbn [fst snaps_after]. split; [exact Pm|].
      intros cp x [Hin|Hin]; [|exact (Sp cp x Hin)]. injection Hin as <- <-. rewrite firstn_all. exact Pm.
    + assert (Wc : existsb (Nat.eqb cp) stk = true) by exact W.
      apply existsb_exists in Wc. destruct Wc as (x & Hx & Ex). apply Nat.eqb_eq in Ex. subst x.
      rewrite <- Sm in Hx. apply in_map_iff in Hx. destruct Hx as ([cp' x0] & Ecp & Hin). cbn [fst] in Ecp. subst cp'.
      destruct (Se cp x0 Hin) as (Le & h & Eh2 & Sr2).
      destruct (Hist_rollback_n s hist cp H Le) as (s' & h0 & Er & Eh & Sr & _ & Lg).
      unfold step, step_full. rewrite Ks, Er. cbn [fst snaps_after]. rewrite Lg.
      split.
      * rewrite Eh2 in Eh. injection Eh as <-.
        apply (PM_srel _ h s' Sr). apply (PM_srel _ x0 h); [|exact (Sp cp x0 Hin)].
        apply (srel_sym neq neq_sym). exact Sr2.
      * intros c2 x Hf. apply filter_In in Hf. destruct Hf as [Hf Hle]. cbn [fst] in Hle. apply Nat.leb_le in Hle.
        rewrite firstn_firstn. replace (Nat.min c2 cp) with c2 by lia. exact (Sp c2 x Hf).
    + destruct (Hist_rollback_n s hist 0%nat H ltac:(lia)) as (s' & h0 & Er & _ & _ & _ & Lg).
      unfold step, step_full. rewrite Ks. cbn [fst snaps_after]. rewrite (discard_of_rollback _ _ Er), Lg.
      split; [intros pid Hp; discriminate Hp|intros c2 x []].
Qed.

Lemma run_pm fails : forall prog s stk sn hist,
  forallb open_cmd prog = true -> Hist neq s hist -> SnOK neq s hist stk sn -> PM (s_log s) s -> SPM (s_log s) sn ->
  forall c, wf_from any_task fails stk false s (prog ++ [c]) = true ->
  PM (s_log (Session.run fails s prog)) (Session.run fails s prog).
Proof.
  induction prog as [|c0 r IH]; intros s stk sn hist Op H Sn Pm Sp c W; [exact Pm|].
  cbn [forallb] in Op. apply andb_true_iff in Op. destruct Op as [Oc Or].
  cbn [app wf_from] in W. apply andb_true_iff in W. destruct W as [Wc Wr].
  destruct (inv_step_n fails s stk sn hist c0 Oc Wc H Sn) as (hist1 & H1 & Sn1 & _).
  destruct (pm_step fails s stk sn hist c0 Oc Wc H Sn Pm Sp) as (Pm1 & Sp1).
  assert (Ec : conv_after false c0 = false) by (destruct c0; try discriminate; reflexivity).
  rewrite Ec in Wr. rewrite run_cons. apply (IH _ _ _ _ Or H1 Sn1 Pm1 Sp1 c Wr).
Qed.
Lemma run_pm_init fails S prog c :
  s_log S = [] -> s_stuck S = false -> forallb open_cmd prog = true ->
  wf_from any_task fails [] false S (prog ++ [c]) = true ->
  PM (s_log (Session.run fails S prog)) (Session.run fails S prog).
Proof.
  intros L K Op W. apply (run_pm fails prog S [] [] [S] Op) with (c := c).
  - apply Hist_init; [exact neq_refl|exact L|exact K].
  - split; [reflexivity|intros c0 x []].
  - rewrite L. intros pid Hp. discriminate Hp.
  - intros cp x [].
  - exact W.
Qed.

(** ** the commit loop on two sessions of the same shape that agree on where the placed pods sit *)
Definition GP (all : list op) (s t : sess) : Prop :=
  forall pid a b, has_placing all pid = true -> get_pod s pid = Some a -> get_pod t pid = Some b ->
    p_node a = p_node b /\ p_groups a = p_groups b.

Lemma SS_get_pod s t pid : SS s t ->
  match get_pod s pid, get_pod t pid with
  | Some a, Some b => pshape a = pshape b
  | None, None => True
  | _, _ => False
  end.
Proof.
  intros H. unfold get_pod. destruct (alookup pid (s_pods s)) as [a|] eqn:A.
  - destruct (SS_pod _ _ _ _ H A) as (q & Gq & Eq). rewrite Gq. symmetry. exact Eq.
  - destruct (alookup pid (s_pods t)) as [b|] eqn:B; [|exact I].
    destruct (SS_pod _ _ _ _ (SS_sym _ _ H) B) as (q & Gq & _). congruence.
Qed.
Lemma SS_job_none s t jid : SS s t -> (alookup jid (s_jobs s) = None <-> alookup jid (s_jobs t) = None).
Proof.
  intros H. split; intros E.
  - destruct (alookup jid (s_jobs t)) as [j|] eqn:B; [|reflexivity]. destruct (SS_job _ _ _ _ (SS_sym _ _ H) B) as (q & Gq & _). congruence.
  - destruct (alookup jid (s_jobs s)) as [j|] eqn:B; [|reflexivity]. destruct (SS_job _ _ _ _ H B) as (q & Gq & _). congruence.
Qed.
Lemma SS_node_none s t nid : SS s t -> (alookup nid (s_nodes s) = None <-> alookup nid (s_nodes t) = None).
Proof.
  intros H. split; intros E.
  - destruct (alookup nid (s_nodes t)) as [j|] eqn:B; [|reflexivity]. destruct (SS_node _ _ _ _ (SS_sym _ _ H) B) as (q & Gq). congruence.
  - destruct (alookup nid (s_nodes s)) as [j|] eqn:B; [|reflexivity]. destruct (SS_node _ _ _ _ H B) as (q & Gq). congruence.
Qed.

Lemma update_status_ok_SS s t obj new : SS s t -> snd (update_status s obj new) = snd (update_status t obj new).
Proof.
  intros H. unfold update_status.
  destruct (alookup (t_job (p_task obj)) (s_jobs s)) as [j|] eqn:Ej.
  - destruct (SS_job _ _ _ _ H Ej) as (j' & Ej' & Kj). rewrite Ej'.
    pose proof (SS_get_pod s t (p_id obj) H) as Gp. unfold get_pod in Gp.
    destruct (alookup (p_id obj) (s_pods s)) as [cur|], (alookup (p_id obj) (s_pods t)) as [cur'|]; try contradiction; [|reflexivity].
    assert (Eps : p_pset cur = p_pset cur') by (unfold pshape in Gp; congruence).
    rewrite !ab_job_update_eq, Eps.
    pose proof (amem_keys (p_pset cur') (j_psets j) (j_psets j') (eq_sym Kj)) as Am. unfold amem in Am.
    destruct (alookup (p_pset cur') (j_psets j)), (alookup (p_pset cur') (j_psets j')); try discriminate; reflexivity.
  - apply (SS_job_none s t _ H) in Ej. rewrite Ej. reflexivity.
Qed.

Lemma GP_pods all s t s' t' : GP all s t -> s_pods s' = s_pods s -> s_pods t' = s_pods t -> GP all s' t'.
Proof. intros H A B pid a b Hp Ga Gb. unfold get_pod in *. rewrite A in Ga. rewrite B in Gb. exact (H pid a b Hp Ga Gb). Qed.

(** what un-evicting makes of the pod itself *)
Lemma unevict_self s q prev nid pg pv p :
  get_pod s q = Some p -> p_id p = q ->
  exists r, get_pod (unevict s q prev nid pg pv) q = Some r /\ p_node r = p_node p /\ p_groups r = pg.
Proof.
  intros G E. unfold unevict. rewrite G.
  assert (U : forall o, p_id o = q -> alookup q (s_pods (fst (update_status s p prev))) <> None).
  { intros o _. unfold update_status. destruct (alookup (t_job (p_task p)) (s_jobs s)); [|cbn [fst]; unfold get_pod in G; congruence].
    rewrite E. unfold get_pod in G. rewrite G. destruct (job_update _ _ _ _ _ _); cbn [fst]; [|congruence].
    sess_cbn. change (p_id (set_st p prev)) with (p_id p). rewrite E. rewrite (alookup_aput_same' _ _ _ _ G). discriminate. }
  destruct (update_status s p prev) as [s1 ok]. cbn [fst] in U.
  set (p0 := pod_with (if ok then set_st p prev else p) (if ok then prev else p_status p) pg (p_node p) pv).
  assert (E0 : p_id p0 = q) by (unfold p0; destruct ok; exact E).
  assert (N0 : p_node p0 = p_node p) by reflexivity.
  assert (G0 : p_groups p0 = pg) by reflexivity.
  destruct (alookup q (s_pods s1)) as [old|] eqn:Go; [|exfalso; apply (U p E); reflexivity].
  destruct (alookup nid (s_nodes s1)) as [n|]; cbv zeta.
  - exists (at_node p0 nid). split; [|split].
    + unfold get_pod. cq. destruct (if amem q (n_pods n) then _ else _); sess_cbn; rewrite pid_at_node, E0; apply (alookup_aput_same' _ _ _ _ Go).
    + unfold at_node. destruct (active_used _); exact N0.
    + unfold at_node. destruct (active_used _); exact G0.
  - exists p0. split; [|split; [exact N0|exact G0]]. unfold get_pod. cq. sess_cbn. rewrite E0. apply (alookup_aput_same' _ _ _ _ Go).
Qed.

Lemma GP_unevict all s t q prev nid pg pv :
  keyed s -> keyed t -> SS s t -> GP all s t -> GP all (unevict s q prev nid pg pv) (unevict t q prev nid pg pv).
Proof.
  intros Ks Kt H Gp pid a b Hp Ga Gb.
  destruct (Pos.eq_dec pid q) as [->|Ne].
  - pose proof (SS_get_pod s t q H) as Sg.
    destruct (get_pod s q) as [p|] eqn:Gs, (get_pod t q) as [p'|] eqn:Gt; try contradiction.
    + destruct (unevict_self s q prev nid pg pv p Gs (keyed_get _ _ _ Ks Gs)) as (r & Gr & Nr & Rr).
      destruct (unevict_self t q prev nid pg pv p' Gt (keyed_get _ _ _ Kt Gt)) as (r' & Gr' & Nr' & Rr').
      rewrite Gr in Ga. injection Ga as <-. rewrite Gr' in Gb. injection Gb as <-.
      destruct (Gp q p p' Hp Gs Gt) as (En & _). split; congruence.
    + unfold unevict in Ga. rewrite Gs in Ga. congruence.
  - assert (Fs : get_pod (unevict s q prev nid pg pv) pid = get_pod s pid).
    { apply (pf_unevict q s prev nid pg pv); [intros p0 Hp0; exact (keyed_get _ _ _ Ks Hp0)|exact Ne]. }
    assert (Ft : get_pod (unevict t q prev nid pg pv) pid = get_pod t pid).
    { apply (pf_unevict q t prev nid pg pv); [intros p0 Hp0; exact (keyed_get _ _ _ Kt Hp0)|exact Ne]. }
    rewrite Fs in Ga. rewrite Ft in Gb. exact (Gp pid a b Hp Ga Gb).
Qed.

Lemma GP_put_same all s t x y0 :
  p_id x = p_id y0 -> p_node x = p_node y0 -> p_groups x = p_groups y0 ->
  GP all s t -> GP all (put_pod s x) (put_pod t y0).
Proof.
  intros Ei En Eg Gp pid a b Hp Ga Gb. unfold get_pod, put_pod in *. sess_cbn.
  destruct (Pos.eq_dec pid (p_id x)) as [->|Ne].
  - unfold aput in *. rewrite alookup_aupd_same in Ga. rewrite Ei, alookup_aupd_same in Gb.
    destruct (alookup (p_id x) (s_pods s)); [|discriminate]. rewrite <- Ei in Gb. destruct (alookup (p_id x) (s_pods t)); [|discriminate].
    injection Ga as <-. injection Gb as <-. split; assumption.
  - rewrite alookup_aput_other in Ga by exact Ne. rewrite alookup_aput_other in Gb by (rewrite <- Ei; exact Ne).
    exact (Gp pid a b Hp Ga Gb).
Qed.

Lemma GP_update_status all s t c new :
  SS s t -> GP all s t -> GP all (fst (update_status s c new)) (fst (update_status t c new)).
Proof.
  intros H Gp. pose proof (update_status_ok_SS s t c new H) as Ok.
  unfold update_status in *.
  destruct (alookup (t_job (p_task c)) (s_jobs s)) as [j|], (alookup (t_job (p_task c)) (s_jobs t)) as [j'|]; cbn [fst snd] in *;
    try exact Gp; try discriminate.
  - destruct (alookup (p_id c) (s_pods s)) as [cur|], (alookup (p_id c) (s_pods t)) as [cur'|]; cbn [fst snd] in *; try exact Gp.
    + destruct (job_update j _ _ _ _ _), (job_update j' _ _ _ _ _); cbn [fst snd] in *; try exact Gp; try discriminate.
      apply GP_put_same; try reflexivity. eapply GP_pods; [exact Gp|reflexivity|reflexivity].
    + destruct (job_update j _ _ _ _ _); cbn [fst snd] in *; [discriminate|exact Gp].
    + destruct (job_update j' _ _ _ _ _); cbn [fst snd] in *; [discriminate|exact Gp].
  - destruct (alookup (p_id c) (s_pods s)) as [cur|]; cbn [fst snd] in *; [|exact Gp].
    destruct (job_update j _ _ _ _ _); cbn [fst snd] in *; [discriminate|exact Gp].
  - destruct (alookup (p_id c) (s_pods t)) as [cur|]; cbn [fst snd] in *; [|exact Gp].
    destruct (job_update j' _ _ _ _ _); cbn [fst snd] in *; [discriminate|exact Gp].
Qed.

Lemma amapv_aput {V W} (f : V -> W) k v m : amapv f (aput k v m) = aput k (f v) (amapv f m).
Proof.
  unfold aput. induction m as [|[k' v'] r IH]; cbn [aupd amapv map fst snd]; [reflexivity|].
  destruct (Pos.eqb k k'); cbn [amapv map fst snd]; [reflexivity|]. f_equal. exact IH.
Qed.

Lemma SS_update_status_cong s t c new : SS s t -> SS (fst (update_status s c new)) (fst (update_status t c new)).
Proof.
  intros H. pose proof (update_status_ok_SS s t c new H) as Ok. pose proof H as (Hn & Hp & Hj).
  unfold update_status in *.
  destruct (alookup (t_job (p_task c)) (s_jobs s)) as [j|] eqn:Ej.
  - destruct (SS_job _ _ _ _ H Ej) as (j' & Ej' & Kj). rewrite Ej' in *.
    destruct (alookup (p_id c) (s_pods s)) as [cur|], (alookup (p_id c) (s_pods t)) as [cur'|]; cbn [fst snd] in *; try exact H.
    + destruct (job_update j _ _ _ _ _) as [j1|] eqn:E1, (job_update j' _ _ _ _ _) as [j1'|] eqn:E1'; cbn [fst snd] in *; try exact H; try discriminate.
      split; [exact Hn|]. split.
      * unfold kp in *. sess_cbn. rewrite !amapv_aput, Hp. reflexivity.
      * unfold kj in *. sess_cbn. rewrite !amapv_aput, Hj, (job_update_psets _ _ _ _ _ _ _ E1), (job_update_psets _ _ _ _ _ _ _ E1'), Kj. reflexivity.
    + destruct (job_update j _ _ _ _ _); cbn [fst snd] in *; [discriminate|exact H].
    + destruct (job_update j' _ _ _ _ _); cbn [fst snd] in *; [discriminate|exact H].
  - pose proof Ej as Ej0. apply (SS_job_none s t _ H) in Ej. rewrite Ej. exact H.
Qed.

Lemma keyed_pods s s' : s_pods s' = s_pods s -> keyed s -> keyed s'.
Proof. intros E K k p G. rewrite E in G. exact (K k p G). Qed.
Lemma keyed_put_pod s x : keyed s -> keyed (put_pod s x).
Proof.
  intros K k p G. unfold put_pod in G. sess_cbn. destruct (Pos.eq_dec k (p_id x)) as [->|Ne].
  - unfold aput in G. rewrite alookup_aupd_same in G. destruct (alookup (p_id x) (s_pods s)); [|discriminate]. injection G as <-. reflexivity.
  - rewrite alookup_aput_other in G by exact Ne. exact (K k p G).
Qed.
Lemma keyed_update_status s c new : keyed s -> keyed (fst (update_status s c new)).
Proof.
  intros K. unfold update_status. destruct (alookup _ (s_jobs s)); [|exact K]. destruct (alookup _ (s_pods s)); [|exact K].
  destruct (job_update _ _ _ _ _ _); cbn [fst]; [|exact K]. apply keyed_put_pod. eapply keyed_pods; [|exact K]. reflexivity.
Qed.

Lemma GP_put_vt all s t q p p' :
  get_pod s q = Some p -> get_pod t q = Some p' -> p_id p = q -> p_id p' = q -> GP all s t ->
  GP all (put_pod s (set_vt p false)) (put_pod t (set_vt p' false)).
Proof.
  intros Gs Gt Ei Ei' Gp pid a b Hp Ga Gb. unfold get_pod, put_pod in *. sess_cbn.
  change (p_id (set_vt p false)) with (p_id p) in Ga. change (p_id (set_vt p' false)) with (p_id p') in Gb. rewrite Ei in Ga. rewrite Ei' in Gb.
  destruct (Pos.eq_dec pid q) as [->|Ne].
  - rewrite (alookup_aput_same' _ _ _ _ Gs) in Ga. rewrite (alookup_aput_same' _ _ _ _ Gt) in Gb.
    injection Ga as <-. injection Gb as <-. exact (Gp q p p' Hp Gs Gt).
  - rewrite alookup_aput_other in Ga by exact Ne. rewrite alookup_aput_other in Gb by exact Ne. exact (Gp pid a b Hp Ga Gb).
Qed.

Lemma snd_fst_cons {A B C} (r : A * list B * C) (x : B) :
  snd (fst (let '(a, b, c) := r in (a, x :: b, c))) = x :: snd (fst r).
Proof. destruct r as [[a b] c]. reflexivity. Qed.

Lemma commit_loop_calls fails all : forall ops s t pos,
  incl ops all -> s_ncalls s = s_ncalls t -> SS s t -> keyed s -> keyed t -> GP all s t ->
  snd (fst (commit_loop fails s all ops pos)) = snd (fst (commit_loop fails t all ops pos)).
Proof.
  induction ops as [|o r IH]; intros s t pos Inc Nc H Ks Kt Gp; cbn [commit_loop]; [reflexivity|].
  assert (Incr : incl r all) by (intros z Hz; apply Inc; right; exact Hz).
  destruct (op_valid all pos) as [[|]|]; [|apply IH; assumption|reflexivity].
  destruct o as [pid prev nid pg pv|pid a b c d e f|c nx pv|k].
  - (* eviction *)
    pose proof (SS_get_pod s t pid H) as Sg.
    destruct (get_pod s pid) as [p|] eqn:Gs, (get_pod t pid) as [p'|] eqn:Gt; try contradiction; [|apply IH; assumption].
    assert (Ej : t_job (p_task p) = t_job (p_task p')) by (unfold pshape in Sg; congruence).
    pose proof (SS_job_none s t (t_job (p_task p)) H) as Jn. rewrite <- Ej.
    destruct (alookup (t_job (p_task p)) (s_jobs s)) as [j|] eqn:Ejs, (alookup (t_job (p_task p)) (s_jobs t)) as [j'|] eqn:Ejt;
      try (apply IH; assumption); try (destruct Jn as [J1 J2]; (specialize (J1 eq_refl) || specialize (J2 eq_refl)); discriminate).
    unfold next_call. rewrite <- Nc.
    rewrite !snd_fst_cons. f_equal.
    destruct (fails (s_ncalls s)).
    + apply IH; [exact Incr| | | | |].
      * rewrite !unevict_ncalls. reflexivity.
      * eapply SS_trans; [apply ss_unevict; eapply keyed_pods; [|exact Ks]; reflexivity|].
        eapply SS_trans; [|apply SS_sym; apply ss_unevict; eapply keyed_pods; [|exact Kt]; reflexivity].
        eapply SS_trans; [apply ss_set_ncalls|]. eapply SS_trans; [exact H|apply SS_sym; apply ss_set_ncalls].
      * eapply keyed_SS; [apply ss_unevict; eapply keyed_pods; [|exact Ks]; reflexivity|eapply keyed_pods; [|exact Ks]; reflexivity].
      * eapply keyed_SS; [apply ss_unevict; eapply keyed_pods; [|exact Kt]; reflexivity|eapply keyed_pods; [|exact Kt]; reflexivity].
      * apply GP_unevict.
        -- eapply keyed_pods; [|exact Ks]. reflexivity.
        -- eapply keyed_pods; [|exact Kt]. reflexivity.
        -- eapply SS_trans; [apply ss_set_ncalls|]. eapply SS_trans; [exact H|apply SS_sym; apply ss_set_ncalls].
        -- eapply GP_pods; [exact Gp|reflexivity|reflexivity].
    + apply IH; [exact Incr| | | | |].
      * reflexivity.
      * eapply SS_trans; [apply (ss_put_pod' s (set_ncalls s (S (s_ncalls s))) pid p); [apply ss_set_ncalls|exact Ks|exact Gs|reflexivity]|].
        eapply SS_trans; [exact H|]. apply SS_sym.
        apply (ss_put_pod' t (set_ncalls t (S (s_ncalls s))) pid p'); [apply ss_set_ncalls|exact Kt|exact Gt|reflexivity].
      * apply keyed_put_pod. eapply keyed_pods; [|exact Ks]. reflexivity.
      * apply keyed_put_pod. eapply keyed_pods; [|exact Kt]. reflexivity.
      * apply (GP_put_vt all _ _ pid p p'); [exact Gs|exact Gt|exact (keyed_get _ _ _ Ks Gs)|exact (keyed_get _ _ _ Kt Gt)|].
        eapply GP_pods; [exact Gp|reflexivity|reflexivity].
  - (* nomination *)
    pose proof (SS_get_pod s t pid H) as Sg.
    destruct (get_pod s pid) as [p|] eqn:Gs, (get_pod t pid) as [p'|] eqn:Gt; try contradiction; [|apply IH; assumption].
    unfold next_call. rewrite !snd_fst_cons.
    assert (Hp : has_placing all pid = true).
    { unfold has_placing. apply existsb_exists. exists (OPipe pid a b c d e f). split; [apply Inc; left; reflexivity|apply Pos.eqb_refl]. }
    destruct (Gp pid p p' Hp Gs Gt) as (En & Eg). rewrite En, Eg. f_equal.
    apply IH; [exact Incr| | | | |].
    + cbn [s_ncalls set_ncalls]. congruence.
    + eapply SS_trans; [apply ss_set_ncalls|]. eapply SS_trans; [exact H|apply SS_sym; apply ss_set_ncalls].
    + eapply keyed_pods; [|exact Ks]. reflexivity.
    + eapply keyed_pods; [|exact Kt]. reflexivity.
    + eapply GP_pods; [exact Gp|reflexivity|reflexivity].
  - (* allocation *)
    destruct (p_node c) as [h|]; [|reflexivity].
    pose proof (SS_node_none s t h H) as Nn.
    destruct (alookup h (s_nodes s)) as [n|] eqn:Ens, (alookup h (s_nodes t)) as [n'|] eqn:Ent; try reflexivity;
      try (destruct Nn as [J1 J2]; (specialize (J1 eq_refl) || specialize (J2 eq_refl)); discriminate).
    set (s0 := if is_shared (p_task c) then put_node s h (ensure_groups n (p_groups c)) else s).
    set (t0 := if is_shared (p_task c) then put_node t h (ensure_groups n' (p_groups c)) else t).
    assert (N0 : s_ncalls s0 = s_ncalls t0) by (unfold s0, t0; destruct (is_shared _); exact Nc).
    assert (P0 : s_pods s0 = s_pods s) by (unfold s0; destruct (is_shared _); reflexivity).
    assert (P0' : s_pods t0 = s_pods t) by (unfold t0; destruct (is_shared _); reflexivity).
    assert (H0 : SS s0 t0).
    { unfold s0, t0. destruct (is_shared _); [|exact H].
      eapply SS_trans; [apply ss_put_node|]. eapply SS_trans; [exact H|apply SS_sym; apply ss_put_node]. }
    unfold next_call. rewrite <- N0. destruct (fails (s_ncalls s0)); [reflexivity|].
    set (s1 := set_ncalls s0 (S (s_ncalls s0))). set (t1 := set_ncalls t0 (S (s_ncalls s0))).
    assert (H1 : SS s1 t1).
    { eapply SS_trans; [apply ss_set_ncalls|]. eapply SS_trans; [exact H0|apply SS_sym; apply ss_set_ncalls]. }
    pose proof (update_status_ok_SS s1 t1 c Binding H1) as Ok.
    pose proof (SS_update_status_cong s1 t1 c Binding H1) as H2.
    pose proof (update_status_ncalls s1 c Binding) as N2. pose proof (update_status_ncalls t1 c Binding) as N2'.
    assert (K1 : keyed s1) by (eapply keyed_pods; [|exact Ks]; exact P0).
    assert (K1' : keyed t1) by (eapply keyed_pods; [|exact Kt]; exact P0').
    pose proof (keyed_update_status s1 c Binding K1) as K2. pose proof (keyed_update_status t1 c Binding K1') as K2'.
    assert (G1 : GP all s1 t1) by (eapply GP_pods; [exact Gp|exact P0|exact P0']).
    pose proof (GP_update_status all s1 t1 c Binding H1 G1) as G2.
    destruct (update_status s1 c Binding) as [s2 ok], (update_status t1 c Binding) as [t2 ok']. cbn [fst snd] in *. subst ok'.
    destruct ok; [|reflexivity].
    rewrite !snd_fst_cons. f_equal. apply IH; [exact Incr|rewrite N2, N2'; reflexivity|exact H2|exact K2|exact K2'|exact G2].
  - apply IH; assumption.
Qed.

(** the erased program consists of commands of the program *)
Lemma erase_go_Forall (P : cmd -> Prop) fails : forall prog s stk base kept,
  Forall P prog -> Forall P kept -> Forall P base -> Forall (fun x => Forall P (snd x)) stk ->
  Forall P (erase_go fails s stk base kept prog).
Proof.
  induction prog as [|c r IH]; intros s stk base kept Hp Hk Hb Hs; cbn [erase_go]; [exact Hk|].
  inversion Hp as [|? ? Pc Pr]; subst.
  assert (Hkc : Forall P (kept ++ [c])) by (apply Forall_app; split; [exact Hk|constructor; [exact Pc|constructor]]).
  destruct c; try (apply IH; assumption).
  - apply IH; try assumption. constructor; [exact Hk|exact Hs].
  - destruct (find (fun x => Nat.eqb (fst x) cp) stk) as [x|] eqn:Ef.
    + apply IH; try assumption.
      * apply find_some in Ef. destruct Ef as [Hin _]. rewrite Forall_forall in Hs. exact (Hs x Hin).
      * rewrite Forall_forall in *. intros z Hz. apply filter_In in Hz. apply Hs. apply Hz.
    + apply IH; assumption.
  - apply IH; try assumption. constructor.
  - apply IH; try assumption. constructor.
Qed.
Lemma erase_open_cmds fails S prog : forallb open_cmd prog = true -> forallb open_cmd (erase fails S prog) = true.
Proof.
  intros H. apply forallb_forall. apply Forall_forall. unfold erase.
  apply erase_go_Forall; try constructor. apply Forall_forall. apply forallb_forall. exact H.
Qed.

(** Commit after the program and after the erased program: the same calls, for every failure oracle *)
Theorem erase_commit_calls fails S prog :
  keyed_b S = true -> s_log S = [] -> s_stuck S = false -> forallb open_cmd prog = true ->
  wf_from any_task fails [] false S (prog ++ [Commit]) = true ->
  snd (step fails (Session.run fails S prog) Commit) = snd (step fails (Session.run fails S (erase fails S prog)) Commit).
Proof.
  intros Kb L K Op W. apply keyed_b_keyed in Kb.
  destruct (erase_open fails S prog Commit L K Op W) as (Sr & El & En).
  pose proof (run_pm_init fails S prog Commit L K Op W) as Pm.
  pose proof (erase_open_cmds fails S prog Op) as Op'.
  set (x := Session.run fails S prog) in *. set (y := Session.run fails S (erase fails S prog)) in *.
  pose proof (ss_run fails prog S Kb Op) as Sx. pose proof (ss_run fails (erase fails S prog) S Kb Op') as Sy. fold x in Sx. fold y in Sy.
  assert (Kx : keyed x) by (eapply keyed_SS; eassumption).
  assert (Ky : keyed y) by (eapply keyed_SS; eassumption).
  assert (Hxy : SS x y) by (eapply SS_trans; [exact Sx|apply SS_sym; exact Sy]).
  assert (Gp : GP (s_log x) x y).
  { intros pid a b Hp Ga Gb. destruct (Pm pid Hp) as (a' & Ga' & Pa). rewrite Ga in Ga'. injection Ga' as <-.
    destruct (tr_pod _ _ _ _ Sr Ga) as (b' & Gb' & Pr). rewrite Gb in Gb'. injection Gb' as <-.
    assert (M : pmasked a = false).
    { unfold pmasked, placed in *. destruct (p_status a); try discriminate; cbn; apply andb_false_r. }
    rewrite (prel_unmasked _ _ Pr M). split; reflexivity. }
  assert (Kk : s_stuck y = s_stuck x) by (destruct Sr as (_ & _ & _ & _ & E); symmetry; exact E).
  unfold step, step_full. rewrite Kk. destruct (s_stuck x); [reflexivity|].
  unfold commit. rewrite <- El.
  pose proof (commit_loop_calls fails (s_log x) (s_log x) x y 0%nat (incl_refl _) En Hxy Kx Ky Gp) as E.
  destruct (commit_loop fails x (s_log x) (s_log x) 0) as [[s1 cs] ok], (commit_loop fails y (s_log x) (s_log x) 0) as [[s1' cs'] ok'].
  cbn [fst snd] in *. exact E.
Qed.


(* ------------------------------------------------------------------ witnesses *)
(** * Witnesses.  The sessions are the ones the harness builds with the real constructors for its corpus
    (harness/internal/c13/corpus.go: E1-readme-allocate-8g-rollback-allocate-16g-commit - the scenario of
    seeded/C13-2/README.md: nodes with one GPU of 8000 / 16000 MiB, a Pending pod asking for 4000 MiB of GPU
    memory - and W8-stale-groups-then-evict-failure / E10); the same programs run on the real Statement on
    every check. *)
Definition w12_init : sess :=
  (mkSess [(1%positive, (mkNode (mkRes 16000%Z 68719476736%Z 1%Z 110%Z 0%Z 0%Z) (mkRes 16000%Z 68719476736%Z 1%Z 110%Z 0%Z 0%Z) (mkRes 0%Z 0%Z 0%Z 0%Z 0%Z 0%Z) (mkRes 0%Z 0%Z 0%Z 0%Z 0%Z 0%Z) 1%Z 8000%Z [] [] [] [] [])); (2%positive, (mkNode (mkRes 16000%Z 68719476736%Z 1%Z 110%Z 0%Z 0%Z) (mkRes 16000%Z 68719476736%Z 1%Z 110%Z 0%Z 0%Z) (mkRes 0%Z 0%Z 0%Z 0%Z 0%Z 0%Z) (mkRes 0%Z 0%Z 0%Z 0%Z 0%Z 0%Z) 1%Z 16000%Z [] [] [] [] []))] [(4%positive, (mkPod (mkTask 4%positive 3%positive Pending KMemory (mkRes 100%Z 1048576%Z 0%Z 1%Z 0%Z 0%Z) 1%Z 4000%Z [] false false) None false 5%positive (mkRes 100%Z 1048576%Z 0%Z 0%Z 0%Z 0%Z) (mkRes 100%Z 1048576%Z 500%Z 0%Z 0%Z 0%Z) [(1%positive, 4000%Z); (2%positive, 4000%Z)] [(1%positive, (mkRes 100%Z 1048576%Z 500%Z 0%Z 0%Z 0%Z)); (2%positive, (mkRes 100%Z 1048576%Z 250%Z 0%Z 0%Z 0%Z))]))] [(3%positive, (mkJob 7%positive false (mkRes 0%Z 0%Z 0%Z 0%Z 0%Z 0%Z) 0%Z [(1%positive, 1%Z)] [(5%positive, (mkPsc 0%Z 0%Z 1%Z [(1%positive, 1%Z); (2%positive, 0%Z)]))]))] [(6%positive, (mkQ None (mkRes 0%Z 0%Z 0%Z 0%Z 0%Z 0%Z) (mkRes 0%Z 0%Z 0%Z 0%Z 0%Z 0%Z))); (7%positive, (mkQ (Some 6%positive) (mkRes 0%Z 0%Z 0%Z 0%Z 0%Z 0%Z) (mkRes 0%Z 0%Z 0%Z 0%Z 0%Z 0%Z)))] [] 0%nat false).
Definition w12_open : list cmd :=
  [Checkpoint; Allocate 4 1 (Some [8%positive]); Rollback 0; Allocate 4 2 (Some [9%positive])].
Definition w12_prog : list cmd := w12_open ++ [Commit].
Definition w8_init : sess :=
  (mkSess [(1%positive, (mkNode (mkRes 16000%Z 68719476736%Z 4%Z 110%Z 0%Z 0%Z) (mkRes 15900%Z 68718428160%Z 3%Z 109%Z 0%Z 0%Z) (mkRes 100%Z 1048576%Z 0%Z 1%Z 0%Z 0%Z) (mkRes 0%Z 0%Z 0%Z 0%Z 0%Z 0%Z) 4%Z 100%Z [(4%positive, (mkTask 4%positive 3%positive Running KFraction (mkRes 100%Z 1048576%Z 0%Z 1%Z 0%Z 0%Z) 1%Z 50%Z [8%positive] false false))] [(8%positive, 50%Z)] [(8%positive, 50%Z)] [] [])); (2%positive, (mkNode (mkRes 16000%Z 68719476736%Z 4%Z 110%Z 0%Z 0%Z) (mkRes 16000%Z 68719476736%Z 4%Z 110%Z 0%Z 0%Z) (mkRes 0%Z 0%Z 0%Z 0%Z 0%Z 0%Z) (mkRes 0%Z 0%Z 0%Z 0%Z 0%Z 0%Z) 4%Z 100%Z [] [] [] [] []))] [(4%positive, (mkPod (mkTask 4%positive 3%positive Running KFraction (mkRes 100%Z 1048576%Z 0%Z 1%Z 0%Z 0%Z) 1%Z 50%Z [8%positive] false false) (Some 1%positive) false 5%positive (mkRes 100%Z 1048576%Z 500%Z 0%Z 0%Z 0%Z) (mkRes 100%Z 1048576%Z 500%Z 0%Z 0%Z 0%Z) [(1%positive, 50%Z); (2%positive, 50%Z)] [(1%positive, (mkRes 100%Z 1048576%Z 500%Z 0%Z 0%Z 0%Z)); (2%positive, (mkRes 100%Z 1048576%Z 500%Z 0%Z 0%Z 0%Z))]))] [(3%positive, (mkJob 7%positive false (mkRes 100%Z 1048576%Z 500%Z 0%Z 0%Z 0%Z) 1%Z [(7%positive, 1%Z)] [(5%positive, (mkPsc 1%Z 1%Z 1%Z [(1%positive, 0%Z); (2%positive, 0%Z)]))]))] [(6%positive, (mkQ None (mkRes 100%Z 1048576%Z 500%Z 0%Z 0%Z 0%Z) (mkRes 0%Z 0%Z 0%Z 0%Z 0%Z 0%Z))); (7%positive, (mkQ (Some 6%positive) (mkRes 100%Z 1048576%Z 500%Z 0%Z 0%Z 0%Z) (mkRes 0%Z 0%Z 0%Z 0%Z 0%Z 0%Z)))] [] 0%nat false).
Definition w8_open : list cmd := [Evict 4; Checkpoint; Pipeline 4 2 (Some [9%positive]) false; Rollback 1].
Definition w8_prog : list cmd := w8_open ++ [Commit].
Definition fail_first (i : nat) : bool := Nat.eqb i 0.

(** the accepted GPU portion (x 1000) of the clones a Commit would hand to Cache.Bind *)
Definition payload_gpu (s : sess) : list Z := map (fun b => gpu (snd (fst b))) (commit_payload (s_log s)).
Definition queue_gpu (s : sess) (q : positive) : option Z := option_map (fun x => gpu (q_alloc x)) (alookup q (s_queues s)).
(** a Pending pod as the snapshot has it: nothing accepted yet *)
Definition clear_qc (s : sess) (pid : positive) : sess :=
  set_podsm s (aupd pid (fun p => mkPod (p_task p) (p_node p) (p_virt p) (p_pset p) (p_jreq p) rzero (p_gtab p) (p_qtab p)) (s_pods s)).

(** the hypotheses of the erasure theorems on a heterogeneous-memory placement: the pod is tried on the
    8000 MiB node (half a GPU), that step is rolled back, it is allocated on the 16000 MiB node (a quarter) *)
Theorem erasure_hetero_nonvacuous :
  keyed_b w12_init = true /\ s_log w12_init = [] /\ s_stuck w12_init = false /\ forallb open_cmd w12_open = true
  /\ wf_from any_task nofail [] false w12_init (w12_open ++ [Commit]) = true
  /\ erase nofail w12_init w12_open = [Allocate 4 2 (Some [9%positive])]
  /\ erase nofail w12_init w12_prog = [Allocate 4 2 (Some [9%positive]); Commit]
  /\ queue_gpu (Session.run nofail w12_init (firstn 2 w12_open)) 7 = Some 500
  /\ snd (step nofail (Session.run nofail w12_init w12_open) Commit) = [ABind 4 2 [9%positive]]
  /\ payload_gpu (Session.run nofail w12_init w12_open) = [250]
  /\ payload_gpu (Session.run nofail w12_init (erase nofail w12_init w12_open)) = [250]
  /\ queue_gpu (Session.run nofail w12_init w12_prog) 7 = Some 250
  /\ queue_gpu (Session.run nofail w12_init (erase nofail w12_init w12_prog)) 7 = Some 250.
Proof. vm_compute. repeat split; reflexivity. Qed.

(** with NodeInfo.setAcceptedResources memoised (seeded change C13-2; [run_memoised], Model/SessionErase.v)
    the same program hands Cache.Bind the portion of the ABANDONED node and charges the queue with it; the
    erased program does not: erasure is violated.  The model as it is gives 250 on both. *)
Theorem erasure_violated_by_memoised_accepted_resource :
  let S := clear_qc w12_init 4 in
  payload_gpu (run_memoised nofail S w12_open) = [500]
  /\ payload_gpu (run_memoised nofail S (erase nofail S w12_open)) = [250]
  /\ queue_gpu (run_memoised nofail S w12_prog) 7 = Some 500
  /\ queue_gpu (run_memoised nofail S (erase nofail S w12_prog)) 7 = Some 250
  /\ payload_gpu (Session.run nofail S w12_open) = [250]
  /\ queue_gpu (Session.run nofail S w12_prog) 7 = Some 250.
Proof. vm_compute. repeat split; reflexivity. Qed.

(** W8: an evicted fractional pod is nominated on another node with fresh devices, the nomination is rolled
    back, the eviction is committed and Cache.Evict refuses it.  With Commit as it was before 5a5de9a
    ([run_before_5a5de9a]) the pod is put back on node 1 under the GPU group of the abandoned nomination (9) and
    stays Releasing; the erased program [Evict 4; Commit] puts it back under its own group (8): the abandoned
    scenario reached the node's books.  With Commit as it is both runs end with the same node 1, pods, jobs
    and queue usage, the pod Running on group 8 (node 2 keeps a zero entry for group 9 in its maps). *)
Theorem erasure_refused_eviction_before_repair :
  wf_prog fail_first w8_init w8_prog = true
  /\ erase fail_first w8_init w8_prog = [Evict 4; Commit]
  /\ (let s := run_before_5a5de9a fail_first w8_init w8_prog in
      zget 9 (g_used (node1 s)) = 50 /\ zget 8 (g_used (node1 s)) = 0 /\ g_mark (node1 s) = [(9%positive, tt)]
      /\ option_map (fun p => (p_status p, p_groups p)) (get_pod s 4) = Some (Releasing, [9%positive]))
  /\ (let s := run_before_5a5de9a fail_first w8_init (erase fail_first w8_init w8_prog) in
      zget 9 (g_used (node1 s)) = 0 /\ zget 8 (g_used (node1 s)) = 50 /\ g_mark (node1 s) = [(8%positive, tt)]
      /\ option_map (fun p => (p_status p, p_groups p)) (get_pod s 4) = Some (Releasing, [8%positive]))
  /\ (let a := project (Session.run fail_first w8_init w8_prog) in
      let b := project (Session.run fail_first w8_init (erase fail_first w8_init w8_prog)) in
      alookup 1%positive (d_nodes a) = alookup 1%positive (d_nodes b) /\ d_pods a = d_pods b /\ d_jobs a = d_jobs b /\ d_queues a = d_queues b)
  /\ option_map (fun p => (p_status p, p_groups p)) (get_pod (Session.run fail_first w8_init w8_prog) 4) = Some (Running, [8%positive]).
Proof. vm_compute. repeat split; reflexivity. Qed.

(** * The full statement, and why it fails *)
Definition erasure_statement : Prop :=
  forall (fails : nat -> bool) (S : sess) (P : list cmd),
    s_log S = [] -> s_stuck S = false -> wf_prog fails S P = true ->
    commit_calls fails S P = commit_calls fails S (erase fails S P)
    /\ srel neq (Session.run fails S P) (Session.run fails S (erase fails S P)).

(** the same program without a refusal: after Commit the evicted pod is Releasing and no longer virtual, and
    carries the GPU groups the caller assigned for the rolled back nomination (the documented partiality of
    Rollback: unpipeline restores the assigned value); in the erased run it carries its own *)
Theorem erasure_refuted : ~ erasure_statement.
Proof.
  intros H. destruct (H nofail w8_init w8_prog eq_refl eq_refl) as (_ & Sr); [vm_compute; reflexivity|].
  destruct (restored_meaning _ _ Sr) as (_ & _ & Hp & _). specialize (Hp 4%positive).
  assert (E1 : get_pod (Session.run nofail w8_init w8_prog) 4 = Some
      (match get_pod (Session.run nofail w8_init w8_prog) 4 with Some a => a | None => mkPod (mkTask 1 1 Pending KRegular rzero 0 0 [] false false) None false 1 rzero rzero [] [] end)) by (vm_compute; reflexivity).
  assert (E2 : get_pod (Session.run nofail w8_init (erase nofail w8_init w8_prog)) 4 = Some
      (match get_pod (Session.run nofail w8_init (erase nofail w8_init w8_prog)) 4 with Some a => a | None => mkPod (mkTask 1 1 Pending KRegular rzero 0 0 [] false false) None false 1 rzero rzero [] [] end)) by (vm_compute; reflexivity).
  rewrite E1, E2 in Hp. destruct Hp as (_ & _ & _ & Hg).
  assert (M : pmasked (match get_pod (Session.run nofail w8_init w8_prog) 4 with Some a => a | None => mkPod (mkTask 1 1 Pending KRegular rzero 0 0 [] false false) None false 1 rzero rzero [] [] end) = false) by (vm_compute; reflexivity).
  specialize (Hg M). vm_compute in Hg. discriminate Hg.
Qed.

(** * What is proved: one statement *)
Theorem erasure_partial fails S prog :
  keyed_b S = true -> s_log S = [] -> s_stuck S = false -> forallb open_cmd prog = true ->
  wf_from any_task fails [] false S (prog ++ [Commit]) = true ->
  srel neq (Session.run fails S prog) (Session.run fails S (erase fails S prog))
  /\ s_log (Session.run fails S prog) = s_log (Session.run fails S (erase fails S prog))
  /\ commit_payload (s_log (Session.run fails S prog)) = commit_payload (s_log (Session.run fails S (erase fails S prog)))
  /\ snd (step fails (Session.run fails S prog) Commit) = snd (step fails (Session.run fails S (erase fails S prog)) Commit)
  /\ erase fails S (prog ++ [Commit]) = erase fails S prog ++ [Commit].
Proof.
  intros Kb L K Op W.
  destruct (erase_open fails S prog Commit L K Op W) as (Sr & El & _).
  split; [exact Sr|]. split; [exact El|]. split; [rewrite El; reflexivity|].
  split; [apply erase_commit_calls; assumption|].
  assert (Hj : J fails S S [S] [] [] [] []).
  { split; [exact (Hist_init neq neq_refl S L K)|].
    split; [split; [apply srel_refl; exact neq_refl|split; reflexivity]|].
    split; [reflexivity|]. split; [intros cp k []|].
    exists S. split; [reflexivity|]. split; [apply srel_refl; exact neq_refl|]. split; [exact L|reflexivity]. }
  destruct (erase_run fails S prog S [S] [] [] [] [] Commit Op Hj W) as (hist' & stk' & ek' & base' & kept' & Eg & _ & _).
  unfold erase. rewrite (Eg [Commit]). pose proof (Eg []) as E0. rewrite app_nil_r in E0. rewrite E0. reflexivity.
Qed.

Theorem placed_pods_are_placed fails S prog c :
  s_log S = [] -> s_stuck S = false -> forallb open_cmd prog = true ->
  wf_from any_task fails [] false S (prog ++ [c]) = true ->
  forall pid, has_placing (s_log (Session.run fails S prog)) pid = true ->
    exists a, get_pod (Session.run fails S prog) pid = Some a /\ (p_status a = Pipelined \/ p_status a = Allocated).
Proof.
  intros L K Op W pid Hp.
  destruct (run_pm_init fails S prog c L K Op W pid Hp) as (a & G & P).
  exists a. split; [exact G|]. unfold placed in P. destruct (p_status a); try discriminate; [right|left]; reflexivity.
Qed.
