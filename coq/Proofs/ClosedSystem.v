(** Proofs for property C15 (closed-system model, Model/ClosedSystem.v). *)
Set Default Timeout 60.
From Coq Require Import List ZArith Bool Lia Wellfounded.
From KaiV Require Import Model.ClosedSystem.
Import ListNotations.
Open Scope Z_scope.

(** * lexicographic order *)
Lemma lexlt_length : forall l1 l2, lexlt l1 l2 -> length l1 = length l2.
Proof. induction 1; simpl; congruence. Qed.

Lemma lexlt_le_cons : forall a' a l1 l2,
  0 <= a' <= a -> lexlt l1 l2 -> lexlt (a' :: l1) (a :: l2).
Proof.
  intros a' a l1 l2 Hle Hl.
  destruct (Z.eq_dec a' a) as [->|Hne].
  - now apply lex_next.
  - apply lex_here; [lia|now apply lexlt_length].
Qed.

Lemma lexlt_acc_len : forall n l, length l = n -> Acc lexlt l.
Proof.
  induction n as [|n IH]; intros l Hl.
  - destruct l; [|discriminate]. constructor. intros y Hy. inversion Hy.
  - destruct l as [|b l2]; [discriminate|]. simpl in Hl. injection Hl as Hl.
    revert l2 Hl.
    induction (Z.lt_wf 0 b) as [b _ IHb].
    intros l2 Hl.
    assert (Hacc : Acc lexlt l2) by now apply IH.
    revert Hl. induction Hacc as [l2 _ IHl2]. intros Hl.
    constructor. intros y Hy.
    inversion Hy as [a b0 l1 l2' Hab Hlen|a l1 l2' Hlt]; subst.
    + apply IHb; [lia|congruence].
    + apply IHl2; [assumption|now apply lexlt_length].
Qed.

Lemma lexlt_wf : well_founded lexlt.
Proof. intros l. now apply (lexlt_acc_len (length l)). Qed.

Lemma lexlt_irrefl : forall l, ~ lexlt l l.
Proof. intros l H. induction (lexlt_wf l) as [l _ IH]. exact (IH l H H). Qed.

Lemma lexlt_trans : forall l1 l2 l3, lexlt l1 l2 -> lexlt l2 l3 -> lexlt l1 l3.
Proof.
  intros l1 l2 l3 H12. revert l3.
  induction H12 as [a b l1 l2 Hab Hlen|a l1 l2 H12 IH]; intros l3 H23; inversion H23; subst.
  - apply lex_here; [lia|congruence].
  - apply lex_here; [lia|]. rewrite Hlen. now apply lexlt_length.
  - apply lex_here; [lia|]. rewrite (lexlt_length _ _ H12). assumption.
  - apply lex_next. now apply IH.
Qed.

(** * lists and sums *)
Lemma mem_In : forall i s, mem i s = true <-> In i s.
Proof.
  intros i s. unfold mem. rewrite existsb_exists. split.
  - intros [x [Hx He]]. apply Pos.eqb_eq in He. now subst.
  - intros H. exists i. split; [assumption|apply Pos.eqb_refl].
Qed.

Definition b2z (b : bool) : Z := if b then 1 else 0.

Lemma count_remove1 : forall (f : id -> bool) v s, mem v s = true ->
  Z.of_nat (length (filter f (remove1 v s))) = Z.of_nat (length (filter f s)) - b2z (f v).
Proof.
  intros f v s. induction s as [|x r IH]; intros Hm; [discriminate|].
  cbn [mem existsb] in Hm. cbn [remove1].
  destruct (Pos.eqb v x) eqn:E.
  - apply Pos.eqb_eq in E. subst x. cbn [filter]. destruct (f v); cbn [length b2z]; lia.
  - cbn [orb] in Hm. specialize (IH Hm). cbn [filter]. destruct (f x); cbn [length]; lia.
Qed.

Lemma length_remove1 : forall v s, mem v s = true ->
  Z.of_nat (length (remove1 v s)) = Z.of_nat (length s) - 1.
Proof.
  intros v s H. pose proof (count_remove1 (fun _ => true) v s H) as C.
  cbn [b2z] in C.
  assert (E : forall l : list id, filter (fun _ => true) l = l).
  { induction l as [|x l IHl]; [reflexivity|]. cbn [filter]. now rewrite IHl. }
  now rewrite !E in C.
Qed.

Lemma count_swap : forall (f : id -> bool) j v s, mem v s = true ->
  Z.of_nat (length (filter f (j :: remove1 v s)))
  = Z.of_nat (length (filter f s)) + b2z (f j) - b2z (f v).
Proof.
  intros f j v s H. pose proof (count_remove1 f v s H) as C.
  cbn [filter]. destruct (f j); cbn [length b2z]; lia.
Qed.

Lemma count_le_length : forall (f : id -> bool) s,
  Z.of_nat (length (filter f s)) <= Z.of_nat (length s).
Proof.
  intros f s. induction s as [|x r IH]; cbn [filter length]; [lia|].
  destruct (f x); cbn [length]; lia.
Qed.

Lemma sumf_ext : forall A (f g : A -> Z) l, (forall x, In x l -> g x = f x) -> sumf g l = sumf f l.
Proof.
  intros A f g l. induction l as [|x r IH]; intros H; [reflexivity|].
  cbn [sumf]. rewrite (H x (or_introl eq_refl)), IH; [reflexivity|].
  intros y Hy. apply H. now right.
Qed.

Lemma sumf_le : forall A (f g : A -> Z) l, (forall x, In x l -> g x <= f x) -> sumf g l <= sumf f l.
Proof.
  intros A f g l. induction l as [|x r IH]; intros H; [cbn; lia|].
  cbn [sumf]. pose proof (H x (or_introl eq_refl)).
  assert (sumf g r <= sumf f r) by (apply IH; intros y Hy; apply H; now right). lia.
Qed.

Lemma sumf_lt : forall A (f g : A -> Z) l a, (forall x, In x l -> g x <= f x) ->
  In a l -> g a < f a -> sumf g l < sumf f l.
Proof.
  intros A f g l a. induction l as [|x r IH]; intros H Hin Hlt; [contradiction|].
  cbn [sumf]. pose proof (H x (or_introl eq_refl)) as Hx.
  assert (Hr : sumf g r <= sumf f r) by (apply sumf_le; intros y Hy; apply H; now right).
  destruct Hin as [->|Hin]; [lia|].
  assert (sumf g r < sumf f r) by (apply IH; [intros y Hy; apply H; now right|assumption|assumption]).
  lia.
Qed.

Lemma sumf_nonneg : forall A (f : A -> Z) l, (forall x, In x l -> 0 <= f x) -> 0 <= sumf f l.
Proof.
  intros A f l H. induction l as [|x r IH]; [cbn; lia|].
  cbn [sumf]. pose proof (H x (or_introl eq_refl)).
  assert (0 <= sumf f r) by (apply IH; intros y Hy; apply H; now right). lia.
Qed.

(** sums over lists whose keys are pairwise distinct *)
Section Keyed.
  Variable A : Type.
  Variable key : A -> id.

  Lemma nodupb_key_unique : forall l a b, nodupb (map key l) = true ->
    In a l -> In b l -> key a = key b -> a = b.
  Proof.
    induction l as [|x r IH]; intros a b Hn Ha Hb Hk; [contradiction|].
    cbn [map nodupb] in Hn. apply andb_prop in Hn as [Hx Hn].
    apply negb_true_iff in Hx.
    assert (Hnot : forall c, In c r -> key c <> key x).
    { intros c Hc E. assert (mem (key x) (map key r) = true) as M.
      { apply mem_In. rewrite <- E. now apply in_map. }
      congruence. }
    destruct Ha as [->|Ha], Hb as [->|Hb].
    - reflexivity.
    - exfalso. apply (Hnot b Hb). now symmetry.
    - exfalso. now apply (Hnot a Ha).
    - now apply IH.
  Qed.

  Lemma sumf_one : forall (f g : A -> Z) l a, nodupb (map key l) = true -> In a l ->
    (forall x, In x l -> key x <> key a -> g x = f x) ->
    sumf g l = sumf f l + (g a - f a).
  Proof.
    intros f g l a. induction l as [|x r IH]; intros Hn Ha H; [contradiction|].
    pose proof Hn as Hn0.
    cbn [map nodupb] in Hn. apply andb_prop in Hn as [Hx Hn].
    apply negb_true_iff in Hx. cbn [sumf].
    destruct Ha as [->|Ha].
    - rewrite (sumf_ext _ f g r); [lia|].
      intros y Hy. apply H; [now right|].
      intros E. assert (mem (key a) (map key r) = true) as M.
      { apply mem_In. rewrite <- E. now apply in_map. }
      congruence.
    - rewrite IH; [|assumption|assumption|intros y Hy; apply H; now right].
      rewrite (H x (or_introl eq_refl)); [lia|].
      intros E. assert (mem (key x) (map key r) = true) as M.
      { apply mem_In. rewrite E. now apply in_map. }
      congruence.
  Qed.

  Lemma sumf_two : forall (f g : A -> Z) l a b, nodupb (map key l) = true -> In a l -> In b l ->
    key a <> key b ->
    (forall x, In x l -> key x <> key a -> key x <> key b -> g x = f x) ->
    sumf g l = sumf f l + (g a - f a) + (g b - f b).
  Proof.
    intros f g l a b Hn Ha Hb Hab H.
    set (h := fun x => if Pos.eqb (key x) (key a) then g x else f x).
    assert (E1 : sumf h l = sumf f l + (h a - f a)).
    { apply sumf_one; [assumption|assumption|].
      intros x Hx Hk. unfold h. apply Pos.eqb_neq in Hk. now rewrite Hk. }
    assert (E2 : sumf g l = sumf h l + (g b - h b)).
    { apply sumf_one; [assumption|assumption|].
      intros x Hx Hk. unfold h. destruct (Pos.eqb (key x) (key a)) eqn:E; [reflexivity|].
      apply Pos.eqb_neq in E. now apply H. }
    unfold h in E1, E2. rewrite Pos.eqb_refl in E1.
    assert (Pos.eqb (key b) (key a) = false) as Eba by (apply Pos.eqb_neq; congruence).
    rewrite Eba in E2. lia.
  Qed.

  Lemma prodf_pos : forall (f : A -> Z) l, (forall x, In x l -> 0 < f x) -> 0 < prodf f l.
  Proof.
    intros f l H. induction l as [|x r IH]; [cbn; lia|].
    cbn [prodf]. pose proof (H x (or_introl eq_refl)).
    assert (0 < prodf f r) by (apply IH; intros y Hy; apply H; now right). nia.
  Qed.

  Lemma prodf_filter_one : forall (f : A -> Z) (pr : A -> bool) l a,
    nodupb (map key l) = true -> In a l -> pr a = true ->
    prodf f (filter pr l)
    = f a * prodf f (filter (fun x => pr x && negb (Pos.eqb (key x) (key a))) l).
  Proof.
    intros f pr l a. induction l as [|x r IH]; intros Hn Ha Hp; [contradiction|].
    cbn [map nodupb] in Hn. apply andb_prop in Hn as [Hx Hn].
    apply negb_true_iff in Hx. cbn [filter].
    destruct Ha as [->|Ha].
    - rewrite Hp, Pos.eqb_refl. cbn [negb andb prodf]. f_equal. f_equal.
      apply filter_ext_in. intros y Hy.
      assert (Pos.eqb (key y) (key a) = false) as E.
      { apply Pos.eqb_neq. intros E. assert (mem (key a) (map key r) = true) as M.
        { apply mem_In. rewrite <- E. now apply in_map. }
        congruence. }
      rewrite E. cbn. now rewrite andb_true_r.
    - assert (Pos.eqb (key x) (key a) = false) as E.
      { apply Pos.eqb_neq. intros E. assert (mem (key x) (map key r) = true) as M.
        { apply mem_In. rewrite E. now apply in_map. }
        congruence. }
      rewrite E. cbn [negb]. rewrite andb_true_r.
      destruct (pr x); cbn [prodf]; rewrite IH by assumption; lia.
  Qed.
End Keyed.

(** * lookups *)
Lemma find_job_some : forall js i J, find_job js i = Some J -> j_id J = i /\ In J js.
Proof.
  induction js as [|x r IH]; intros i J H; [discriminate|]. cbn [find_job] in H.
  destruct (Pos.eqb (j_id x) i) eqn:E.
  - injection H as <-. apply Pos.eqb_eq in E. split; [assumption|now left].
  - destruct (IH _ _ H). split; [assumption|now right].
Qed.
Lemma find_queue_some : forall qs i Q, find_queue qs i = Some Q -> q_id Q = i /\ In Q qs.
Proof.
  induction qs as [|x r IH]; intros i Q H; [discriminate|]. cbn [find_queue] in H.
  destruct (Pos.eqb (q_id x) i) eqn:E.
  - injection H as <-. apply Pos.eqb_eq in E. split; [assumption|now left].
  - destruct (IH _ _ H). split; [assumption|now right].
Qed.
Lemma find_dept_some : forall ds i P, find_dept ds i = Some P -> d_id P = i /\ In P ds.
Proof.
  induction ds as [|x r IH]; intros i P H; [discriminate|]. cbn [find_dept] in H.
  destruct (Pos.eqb (d_id x) i) eqn:E.
  - injection H as <-. apply Pos.eqb_eq in E. split; [assumption|now left].
  - destruct (IH _ _ H). split; [assumption|now right].
Qed.

(** * well-formedness *)
Record wf (p : params) : Prop := {
  wf_sz : 0 < p_sz p;
  wf_slots : 0 <= p_slots p;
  wf_nd : nodupb (map d_id (p_depts p)) = true;
  wf_nq : nodupb (map q_id (p_queues p)) = true;
  wf_dept : forall P, In P (p_depts p) ->
            0 < d_fair P /\ 0 <= d_des P /\ (d_des P <= d_fair P \/ p_sz p * p_slots p <= d_des P);
  wf_queue : forall Q, In Q (p_queues p) -> 0 <= q_fair Q /\ 0 <= q_des Q;
}.

Lemma wf_paramsb_wf : forall p, wf_paramsb p = true -> wf p.
Proof.
  intros p H. unfold wf_paramsb in H.
  apply andb_prop in H as [H Hq]. apply andb_prop in H as [H Hd].
  apply andb_prop in H as [H Hnq]. apply andb_prop in H as [H Hnd].
  apply andb_prop in H as [Hsz Hsl].
  constructor; try lia; try assumption.
  - intros P HP. rewrite forallb_forall in Hd. specialize (Hd P HP). unfold dept_okb in Hd.
    apply andb_prop in Hd as [Hd Hor]. apply andb_prop in Hd as [Hf Hdes].
    apply orb_prop in Hor. lia.
  - intros Q HQ. rewrite forallb_forall in Hq. specialize (Hq Q HQ). unfold queue_okb in Hq.
    apply andb_prop in Hq. lia.
Qed.

Lemma wf_mult_spec : forall m, wf_multb m = true -> 0 < snd m /\ snd m <= fst m.
Proof. intros m H. unfold wf_multb in H. apply andb_prop in H. lia. Qed.

Lemma clamp_wf : forall m, 0 < snd m -> wf_multb (clamp m) = true.
Proof.
  intros [mn md] H. unfold clamp, wf_multb. cbn [fst snd] in *.
  destruct (Z.ltb mn md) eqn:E; cbn [fst snd].
  - reflexivity.
  - apply Z.ltb_ge in E. apply andb_true_intro. split; [now apply Z.ltb_lt|now apply Z.leb_le].
Qed.

(** * counts after a swap *)
Lemma nq_swap : forall p s j v q, mem v s = true ->
  nq p (j :: remove1 v s) q
  = nq p s q + b2z (oeqb (queue_of p j) q) - b2z (oeqb (queue_of p v) q).
Proof. intros. unfold nq. now apply (count_swap (fun i => oeqb (queue_of p i) q)). Qed.
Lemma nd_swap : forall p s j v d, mem v s = true ->
  nd p (j :: remove1 v s) d
  = nd p s d + b2z (oeqb (dept_of p j) d) - b2z (oeqb (dept_of p v) d).
Proof. intros. unfold nd. now apply (count_swap (fun i => oeqb (dept_of p i) d)). Qed.

Lemma nq_nonneg : forall p s q, 0 <= nq p s q.
Proof. intros. unfold nq. lia. Qed.
Lemma nd_nonneg : forall p s d, 0 <= nd p s d.
Proof. intros. unfold nd. lia. Qed.
Lemma nd_le_length : forall p s d, nd p s d <= Z.of_nat (length s).
Proof. intros. unfold nd. apply count_le_length. Qed.

(** * components that only depend on the counts *)
Lemma dept_components_same : forall p s s',
  (forall d, nd p s' d = nd p s d) ->
  over_d p s' = over_d p s /\ defc_d p s' = defc_d p s /\ quad_d p s' = quad_d p s.
Proof.
  intros p s s' H. unfold over_d, defc_d, quad_d, ad.
  repeat split; apply sumf_ext; intros P _; now rewrite H.
Qed.
Lemma queue_components_same : forall p s s',
  (forall q, nq p s' q = nq p s q) ->
  over_q p s' = over_q p s /\ defc_q p s' = defc_q p s.
Proof.
  intros p s s' H. unfold over_q, defc_q, aq.
  repeat split; apply sumf_ext; intros Q _; now rewrite H.
Qed.

(** * non-negativity *)
Lemma pos0_nonneg : forall z, 0 <= pos0 z.
Proof. intros. unfold pos0. lia. Qed.

Lemma weight_pos : forall p P, wf p -> 0 < weight p P.
Proof.
  intros p P W. unfold weight. apply prodf_pos. intros x Hx.
  apply filter_In in Hx as [Hx _]. now apply (wf_dept p W).
Qed.

Lemma pmax_ge : forall js J, In J js -> j_prio J <= fold_right (fun j acc => Z.max (j_prio j) acc) 0 js.
Proof.
  induction js as [|x r IH]; intros J H; [contradiction|]. cbn [fold_right].
  destruct H as [->|H]; [lia|]. specialize (IH J H). lia.
Qed.
Lemma pterm_nonneg : forall p i, 0 <= pterm p i.
Proof.
  intros p i. unfold pterm. destruct (find_job (p_jobs p) i) as [J|] eqn:E; [|lia].
  apply find_job_some in E as [_ HJ]. pose proof (pmax_ge _ _ HJ). unfold pmax. lia.
Qed.

Lemma rank_tail_nonneg : forall p s, wf p ->
  0 <= over_d p s /\ 0 <= defc_d p s /\ 0 <= quad_d p s /\ 0 <= over_q p s /\ 0 <= defc_q p s
  /\ 0 <= negprio p s.
Proof.
  intros p s W. unfold over_d, defc_d, quad_d, over_q, defc_q, negprio.
  repeat split; apply sumf_nonneg; intros x Hx; try apply pos0_nonneg; try apply pterm_nonneg.
  pose proof (weight_pos p x W). nia.
Qed.

(** * the leaf level: a slot moves from queue Q' to queue Q of the same department *)
Lemma fits_strategy_spec : forall sz ar Dr ae Fe De,
  fits_strategy sz ar Dr ae Fe De = true ->
  (De < ae /\ Fe < ae) \/ (ar + sz <= Dr /\ De < ae).
Proof.
  intros sz ar Dr ae Fe De H. unfold fits_strategy in H.
  apply orb_prop in H as [H|H].
  - left. apply Z.ltb_lt in H. lia.
  - right. apply andb_prop in H as [H1 H2]. apply Z.leb_le in H1. apply Z.ltb_lt in H2. lia.
Qed.

Lemma b2z_eqb_refl : forall x, b2z (Pos.eqb x x) = 1.
Proof. intros. now rewrite Pos.eqb_refl. Qed.
Lemma b2z_eqb_neq : forall x y, x <> y -> b2z (Pos.eqb x y) = 0.
Proof. intros x y H. apply Pos.eqb_neq in H. now rewrite H. Qed.

Lemma leaf_level_lex : forall p s s' Q Q' t t',
  wf p -> In Q (p_queues p) -> In Q' (p_queues p) -> q_id Q <> q_id Q' ->
  (forall q, nq p s' q = nq p s q + b2z (Pos.eqb (q_id Q) q) - b2z (Pos.eqb (q_id Q') q)) ->
  aq p s (q_id Q) + p_sz p <= q_fair Q ->
  fits_strategy (p_sz p) (aq p s (q_id Q)) (q_des Q) (aq p s (q_id Q')) (q_fair Q') (q_des Q') = true ->
  lexlt [over_q p s'; defc_q p s'; t'] [over_q p s; defc_q p s; t].
Proof.
  intros p s s' Q Q' t t' W HQ HQ' Hne Hn Hg1 Hfit.
  pose proof (wf_sz p W) as Hsz.
  assert (EQ : aq p s' (q_id Q) = aq p s (q_id Q) + p_sz p).
  { unfold aq. rewrite Hn, b2z_eqb_refl, b2z_eqb_neq by congruence. lia. }
  assert (EQ' : aq p s' (q_id Q') = aq p s (q_id Q') - p_sz p).
  { unfold aq. rewrite Hn, b2z_eqb_refl, b2z_eqb_neq by congruence. lia. }
  assert (EX : forall X, q_id X <> q_id Q -> q_id X <> q_id Q' -> aq p s' (q_id X) = aq p s (q_id X)).
  { intros X H1 H2. unfold aq. rewrite Hn, !b2z_eqb_neq by congruence. lia. }
  assert (Cases : forall X, In X (p_queues p) -> X = Q \/ X = Q' \/ (q_id X <> q_id Q /\ q_id X <> q_id Q')).
  { intros X HX. destruct (Pos.eq_dec (q_id X) (q_id Q)) as [E|E].
    - left. now apply (nodupb_key_unique _ q_id (p_queues p) X Q (wf_nq p W)).
    - destruct (Pos.eq_dec (q_id X) (q_id Q')) as [E'|E'].
      + right. left. now apply (nodupb_key_unique _ q_id (p_queues p) X Q' (wf_nq p W)).
      + right. right. split; assumption. }
  assert (Hover_le : over_q p s' <= over_q p s).
  { unfold over_q. apply sumf_le. intros X HX.
    destruct (Cases X HX) as [->|[->|[H1 H2]]].
    - rewrite EQ. unfold pos0. lia.
    - rewrite EQ'. unfold pos0. lia.
    - rewrite EX by assumption. lia. }
  pose proof (rank_tail_nonneg p s' W) as (_ & _ & _ & Ho' & Hd' & _).
  apply fits_strategy_spec in Hfit as [[HD HF]|[HD1 HD2]].
  - (* MaintainFairShare: the overshoot of Q' shrinks *)
    apply lex_here; [|reflexivity]. split; [assumption|].
    unfold over_q. apply (sumf_lt _ _ _ _ Q'); [|assumption|].
    + intros X HX. destruct (Cases X HX) as [->|[->|[H1 H2]]].
      * rewrite EQ. unfold pos0. lia.
      * rewrite EQ'. unfold pos0. lia.
      * rewrite EX by assumption. lia.
    + rewrite EQ'. unfold pos0. lia.
  - (* GuaranteeDeservedQuota: the deficit of Q shrinks by a whole job, Q' stays without deficit *)
    apply lexlt_le_cons; [lia|].
    apply lex_here; [|reflexivity]. split; [assumption|].
    unfold defc_q.
    rewrite (sumf_two _ q_id (fun X => pos0 (q_des X - aq p s (q_id X)))
                      (fun X => pos0 (q_des X - aq p s' (q_id X))) (p_queues p) Q Q'
                      (wf_nq p W) HQ HQ' Hne).
    + rewrite EQ, EQ'. unfold pos0. lia.
    + intros X HX H1 H2. now rewrite EX.
Qed.

(** * the department level: a slot moves from department P' to department P *)
Lemma saturation_ok_spec : forall mn md sz ar Fr ae Fe,
  0 < Fr -> 0 < Fe ->
  saturation_ok mn md sz ar Fr ae Fe = true ->
  ar + sz <= Fr \/ (ar + sz) * mn * Fe < (ae - sz) * Fr * md.
Proof.
  intros mn md sz ar Fr ae Fe HFr HFe H. unfold saturation_ok in H.
  apply negb_true_iff in H.
  assert (E0 : (Fr =? 0) = false) by (apply Z.eqb_neq; lia). rewrite E0 in H.
  assert (E1 : (0 <? Fe) = true) by (apply Z.ltb_lt; lia). rewrite E1, andb_true_r in H.
  apply andb_false_iff in H as [H|H].
  - left. apply Z.ltb_ge in H. lia.
  - right. apply Z.leb_gt in H. lia.
Qed.

Lemma weight_two : forall p P P', wf p -> In P (p_depts p) -> In P' (p_depts p) ->
  d_id P <> d_id P' ->
  exists C, 0 < C /\ weight p P = d_fair P' * C /\ weight p P' = d_fair P * C.
Proof.
  intros p P P' W HP HP' Hne.
  set (C := prodf d_fair (filter (fun x => negb (Pos.eqb (d_id x) (d_id P)) && negb (Pos.eqb (d_id x) (d_id P'))) (p_depts p))).
  exists C. split; [|split].
  - unfold C. apply prodf_pos. intros x Hx. apply filter_In in Hx as [Hx _]. now apply (wf_dept p W).
  - unfold weight, C.
    apply (prodf_filter_one _ d_id d_fair (fun x => negb (Pos.eqb (d_id x) (d_id P))) (p_depts p) P' (wf_nd p W) HP').
    apply negb_true_iff. apply Pos.eqb_neq. congruence.
  - unfold weight.
    rewrite (prodf_filter_one _ d_id d_fair (fun x => negb (Pos.eqb (d_id x) (d_id P'))) (p_depts p) P (wf_nd p W) HP)
      by (apply negb_true_iff; now apply Pos.eqb_neq).
    unfold C. f_equal. f_equal. apply filter_ext. intros x. apply andb_comm.
Qed.

Lemma dept_level_lex : forall p m s s' P P' rest rest',
  wf p -> wf_multb m = true -> within_cap p s ->
  In P (p_depts p) -> In P' (p_depts p) -> d_id P <> d_id P' ->
  (forall d, nd p s' d = nd p s d + b2z (Pos.eqb (d_id P) d) - b2z (Pos.eqb (d_id P') d)) ->
  fits_strategy (p_sz p) (ad p s (d_id P)) (d_des P) (ad p s (d_id P')) (d_fair P') (d_des P') = true ->
  saturation_ok (fst m) (snd m) (p_sz p) (ad p s (d_id P)) (d_fair P) (ad p s (d_id P')) (d_fair P') = true ->
  length rest' = length rest ->
  lexlt (over_d p s' :: defc_d p s' :: quad_d p s' :: rest')
        (over_d p s :: defc_d p s :: quad_d p s :: rest).
Proof.
  intros p m s s' P P' rest rest' W Hm Hcap HP HP' Hne Hn Hfit Hsat Hlen.
  pose proof (wf_sz p W) as Hsz.
  apply wf_mult_spec in Hm as [Hmd Hmn].
  destruct (wf_dept p W P HP) as (HF & HD & _).
  destruct (wf_dept p W P' HP') as (HF' & HD' & Hor').
  assert (EP : ad p s' (d_id P) = ad p s (d_id P) + p_sz p).
  { unfold ad. rewrite Hn, b2z_eqb_refl, b2z_eqb_neq by congruence. lia. }
  assert (EP' : ad p s' (d_id P') = ad p s (d_id P') - p_sz p).
  { unfold ad. rewrite Hn, b2z_eqb_refl, b2z_eqb_neq by congruence. lia. }
  assert (EX : forall X, d_id X <> d_id P -> d_id X <> d_id P' -> ad p s' (d_id X) = ad p s (d_id X)).
  { intros X H1 H2. unfold ad. rewrite Hn, !b2z_eqb_neq by congruence. lia. }
  assert (Cases : forall X, In X (p_depts p) -> X = P \/ X = P' \/ (d_id X <> d_id P /\ d_id X <> d_id P')).
  { intros X HX. destruct (Pos.eq_dec (d_id X) (d_id P)) as [E|E].
    - left. now apply (nodupb_key_unique _ d_id (p_depts p) X P (wf_nd p W)).
    - destruct (Pos.eq_dec (d_id X) (d_id P')) as [E'|E'].
      + right. left. now apply (nodupb_key_unique _ d_id (p_depts p) X P' (wf_nd p W)).
      + right. right. split; assumption. }
  assert (Ha0 : 0 <= ad p s (d_id P)) by (unfold ad; pose proof (nd_nonneg p s (d_id P)); nia).
  assert (Hacap : ad p s (d_id P') <= p_sz p * p_slots p).
  { unfold ad. pose proof (nd_le_length p s (d_id P')). unfold within_cap in Hcap. nia. }
  pose proof (rank_tail_nonneg p s' W) as (Ho' & Hd' & Hq' & _).
  assert (Hrest : length (quad_d p s' :: rest') = length (quad_d p s :: rest)) by (cbn; congruence).
  assert (Hrest2 : length (defc_d p s' :: quad_d p s' :: rest') = length (defc_d p s :: quad_d p s :: rest))
    by (cbn; congruence).
  apply fits_strategy_spec in Hfit.
  assert (HDa : d_des P' < ad p s (d_id P')) by (destruct Hfit as [[? ?]|[? ?]]; assumption).
  apply saturation_ok_spec in Hsat; [|assumption|assumption].
  remember (ad p s (d_id P)) as a eqn:Ea.
  remember (ad p s (d_id P')) as a' eqn:Ea'.
  destruct Hsat as [Hx|Hx].
  - (* the reclaiming department stays within its fair share *)
    assert (Hover_le : over_d p s' <= over_d p s).
    { unfold over_d. apply sumf_le. intros X HX.
      destruct (Cases X HX) as [->|[->|[H1 H2]]].
      - rewrite EP, <- Ea. unfold pos0. lia.
      - rewrite EP', <- Ea'. unfold pos0. lia.
      - rewrite EX by assumption. lia. }
    destruct Hfit as [[HD1 HF1]|[HD1 HD2]].
    + apply lex_here; [|assumption]. split; [assumption|].
      unfold over_d. apply (sumf_lt _ _ _ _ P'); [|assumption|].
      * intros X HX. destruct (Cases X HX) as [->|[->|[H1 H2]]].
        -- rewrite EP, <- Ea. unfold pos0. lia.
        -- rewrite EP', <- Ea'. unfold pos0. lia.
        -- rewrite EX by assumption. lia.
      * rewrite EP', <- Ea'. unfold pos0. lia.
    + apply lexlt_le_cons; [lia|].
      apply lex_here; [|assumption]. split; [assumption|].
      unfold defc_d.
      rewrite (sumf_two _ d_id (fun X => pos0 (d_des X - ad p s (d_id X)))
                        (fun X => pos0 (d_des X - ad p s' (d_id X))) (p_depts p) P P'
                        (wf_nd p W) HP HP' Hne).
      * rewrite EP, EP', <- Ea, <- Ea'. unfold pos0. lia.
      * intros X HX H1 H2. now rewrite EX.
  - (* the reclaiming department ends above its fair share: the saturation rule with m >= 1 *)
    assert (Hord : (a + p_sz p) * d_fair P' < (a' - p_sz p) * d_fair P) by nia.
    destruct (Z_le_gt_dec (a + p_sz p) (d_fair P)) as [Hle|Hgt].
    + (* (kept for completeness: same as the first case) *)
      assert (Hover_le : over_d p s' <= over_d p s).
      { unfold over_d. apply sumf_le. intros X HX.
        destruct (Cases X HX) as [->|[->|[H1 H2]]].
        - rewrite EP, <- Ea. unfold pos0. lia.
        - rewrite EP', <- Ea'. unfold pos0. lia.
        - rewrite EX by assumption. lia. }
      destruct Hfit as [[HD1 HF1]|[HD1 HD2]].
      * apply lex_here; [|assumption]. split; [assumption|].
        unfold over_d. apply (sumf_lt _ _ _ _ P'); [|assumption|].
        -- intros X HX. destruct (Cases X HX) as [->|[->|[H1 H2]]].
           ++ rewrite EP, <- Ea. unfold pos0. lia.
           ++ rewrite EP', <- Ea'. unfold pos0. lia.
           ++ rewrite EX by assumption. lia.
        -- rewrite EP', <- Ea'. unfold pos0. lia.
      * apply lexlt_le_cons; [lia|].
        apply lex_here; [|assumption]. split; [assumption|].
        unfold defc_d.
        rewrite (sumf_two _ d_id (fun X => pos0 (d_des X - ad p s (d_id X)))
                          (fun X => pos0 (d_des X - ad p s' (d_id X))) (p_depts p) P P'
                          (wf_nd p W) HP HP' Hne).
        -- rewrite EP, EP', <- Ea, <- Ea'. unfold pos0. lia.
        -- intros X HX H1 H2. now rewrite EX.
    + assert (Hy : d_fair P' < a' - p_sz p) by nia.
      assert (Hover_le : over_d p s' <= over_d p s).
      { unfold over_d.
        rewrite (sumf_two _ d_id (fun X => pos0 (ad p s (d_id X) - d_fair X))
                          (fun X => pos0 (ad p s' (d_id X) - d_fair X)) (p_depts p) P P'
                          (wf_nd p W) HP HP' Hne).
        - rewrite EP, EP', <- Ea, <- Ea'. unfold pos0. lia.
        - intros X HX H1 H2. now rewrite EX. }
      assert (Hdefc_le : defc_d p s' <= defc_d p s).
      { unfold defc_d. apply sumf_le. intros X HX.
        destruct (Cases X HX) as [->|[->|[H1 H2]]].
        - rewrite EP, <- Ea. unfold pos0. lia.
        - rewrite EP', <- Ea'. unfold pos0. lia.
        - rewrite EX by assumption. lia. }
      apply lexlt_le_cons; [lia|]. apply lexlt_le_cons; [lia|].
      apply lex_here; [|congruence]. split; [assumption|].
      destruct (weight_two p P P' W HP HP' Hne) as (C & HC & HwP & HwP').
      unfold quad_d.
      rewrite (sumf_two _ d_id (fun X => ad p s (d_id X) * ad p s (d_id X) * weight p X)
                        (fun X => ad p s' (d_id X) * ad p s' (d_id X) * weight p X) (p_depts p) P P'
                        (wf_nd p W) HP HP' Hne).
      * rewrite EP, EP', <- Ea, <- Ea', HwP, HwP'.
        assert (E : (a + p_sz p) * (a + p_sz p) * (d_fair P' * C) - a * a * (d_fair P' * C)
                    + ((a' - p_sz p) * (a' - p_sz p) * (d_fair P * C) - a' * a' * (d_fair P * C))
                    = (C * p_sz p) * (2 * ((a + p_sz p) * d_fair P' - (a' - p_sz p) * d_fair P)
                                      - p_sz p * (d_fair P' + d_fair P))) by ring.
        assert (T : 2 * ((a + p_sz p) * d_fair P' - (a' - p_sz p) * d_fair P)
                    - p_sz p * (d_fair P' + d_fair P) < 0) by nia.
        assert (CS : 0 < C * p_sz p) by nia.
        nia.
      * intros X HX H1 H2. now rewrite EX.
Qed.

(** * every admissible decision strictly decreases the rank *)
Lemma apply_within_cap : forall m p s d s', within_cap p s -> apply m p s d = Some s' -> within_cap p s'.
Proof.
  intros m p s d s' Hc H. unfold within_cap in *. destruct d as [j|j v|j v]; cbn [apply] in H.
  - destruct (bind_ok p s j) eqn:E; [|discriminate]. injection H as <-.
    unfold bind_ok in E. destruct (find_job (p_jobs p) j); [|discriminate].
    apply andb_prop in E as [_ E]. apply Z.ltb_lt in E. cbn [length]. lia.
  - destruct (reclaim_ok m p s j v) eqn:E; [|discriminate]. injection H as <-.
    assert (Hv : mem v s = true).
    { unfold reclaim_ok in E.
      destruct (find_job (p_jobs p) j); [|discriminate]. destruct (find_job (p_jobs p) v); [|discriminate].
      destruct (find_queue (p_queues p) (j_queue j0)); [|discriminate].
      destruct (find_queue (p_queues p) (j_queue j1)); [|discriminate].
      do 3 (apply andb_prop in E as [E _]). apply andb_prop in E as [_ E]. exact E. }
    pose proof (length_remove1 v s Hv). cbn [length]. lia.
  - destruct (preempt_ok p s j v) eqn:E; [|discriminate]. injection H as <-.
    assert (Hv : mem v s = true).
    { unfold preempt_ok in E.
      destruct (find_job (p_jobs p) j); [|discriminate]. destruct (find_job (p_jobs p) v); [|discriminate].
      do 2 (apply andb_prop in E as [E _]). apply andb_prop in E as [_ E]. exact E. }
    pose proof (length_remove1 v s Hv). cbn [length]. lia.
Qed.

Lemma free_swap : forall p s j v, mem v s = true -> free p (j :: remove1 v s) = free p s.
Proof. intros p s j v H. unfold free. pose proof (length_remove1 v s H). cbn [length]. lia. Qed.

Theorem decision_decreases_rank : forall m p s d s',
  wf p -> wf_multb m = true -> within_cap p s ->
  apply m p s d = Some s' -> lexlt (rank p s') (rank p s).
Proof.
  intros m p s d s' W Hm Hcap H.
  pose proof (rank_tail_nonneg p s' W) as (Ho' & Hd' & Hq' & Hoq' & Hdq' & Hn').
  destruct d as [j|j v|j v]; cbn [apply] in H.
  - (* allocate: one free slot less *)
    destruct (bind_ok p s j) eqn:E; [|discriminate]. injection H as <-.
    unfold bind_ok in E. destruct (find_job (p_jobs p) j); [|discriminate].
    apply andb_prop in E as [_ E]. apply Z.ltb_lt in E.
    unfold rank. apply lex_here; [|reflexivity]. unfold free. cbn [length]. lia.
  - (* reclaim *)
    destruct (reclaim_ok m p s j v) eqn:E; [|discriminate]. injection H as <-.
    unfold reclaim_ok in E.
    destruct (find_job (p_jobs p) j) as [J|] eqn:EJ; [|discriminate].
    destruct (find_job (p_jobs p) v) as [V|] eqn:EV; [|discriminate].
    destruct (find_queue (p_queues p) (j_queue J)) as [Q|] eqn:EQ; [|discriminate].
    destruct (find_queue (p_queues p) (j_queue V)) as [Q'|] eqn:EQ'; [|discriminate].
    apply andb_prop in E as [E Hlev]. apply andb_prop in E as [E Hg1].
    apply andb_prop in E as [E Hneq]. apply andb_prop in E as [_ Hv].
    apply Z.leb_le in Hg1. apply negb_true_iff in Hneq. apply Pos.eqb_neq in Hneq.
    apply find_queue_some in EQ as [EQid HQ]. apply find_queue_some in EQ' as [EQ'id HQ'].
    assert (Hqj : queue_of p j = Some (q_id Q)) by (unfold queue_of; rewrite EJ; congruence).
    assert (Hqv : queue_of p v = Some (q_id Q')) by (unfold queue_of; rewrite EV; congruence).
    assert (Hdj : dept_of p j = Some (q_dept Q)).
    { unfold dept_of. rewrite Hqj.
      destruct (find_queue (p_queues p) (q_id Q)) as [Q0|] eqn:E0.
      - apply find_queue_some in E0 as [E0 H0].
        now rewrite (nodupb_key_unique _ q_id (p_queues p) Q0 Q (wf_nq p W) H0 HQ E0).
      - exfalso. rewrite EQid in E0. unfold queue_of in Hqj. rewrite EJ in Hqj.
        clear - E0 HQ EQid. induction (p_queues p) as [|x r IH]; [contradiction|].
        cbn [find_queue] in E0. destruct (Pos.eqb (q_id x) (j_queue J)) eqn:Ex; [discriminate|].
        destruct HQ as [->|HQ]; [apply Pos.eqb_neq in Ex; congruence|now apply IH]. }
    assert (Hdv : dept_of p v = Some (q_dept Q')).
    { unfold dept_of. rewrite Hqv.
      destruct (find_queue (p_queues p) (q_id Q')) as [Q0|] eqn:E0.
      - apply find_queue_some in E0 as [E0 H0].
        now rewrite (nodupb_key_unique _ q_id (p_queues p) Q0 Q' (wf_nq p W) H0 HQ' E0).
      - exfalso. rewrite EQ'id in E0.
        clear - E0 HQ' EQ'id. induction (p_queues p) as [|x r IH]; [contradiction|].
        cbn [find_queue] in E0. destruct (Pos.eqb (q_id x) (j_queue V)) eqn:Ex; [discriminate|].
        destruct HQ' as [->|HQ']; [apply Pos.eqb_neq in Ex; congruence|now apply IH]. }
    assert (Hnq : forall q, nq p (j :: remove1 v s) q
                            = nq p s q + b2z (Pos.eqb (q_id Q) q) - b2z (Pos.eqb (q_id Q') q)).
    { intros q. rewrite (nq_swap p s j v q Hv), Hqj, Hqv. reflexivity. }
    assert (Hnd : forall d, nd p (j :: remove1 v s) d
                            = nd p s d + b2z (Pos.eqb (q_dept Q) d) - b2z (Pos.eqb (q_dept Q') d)).
    { intros d. rewrite (nd_swap p s j v d Hv), Hdj, Hdv. reflexivity. }
    unfold rank. rewrite (free_swap p s j v Hv). apply lex_next.
    destruct (Pos.eqb (q_dept Q) (q_dept Q')) eqn:Ed.
    + (* same department: the department level is untouched *)
      apply Pos.eqb_eq in Ed.
      assert (Hsame : forall d, nd p (j :: remove1 v s) d = nd p s d).
      { intros d. rewrite Hnd, Ed. lia. }
      destruct (dept_components_same p s _ Hsame) as (-> & -> & ->).
      do 3 apply lex_next.
      apply (leaf_level_lex p s (j :: remove1 v s) Q Q'); assumption.
    + apply Pos.eqb_neq in Ed.
      destruct (find_dept (p_depts p) (q_dept Q)) as [P|] eqn:EP; [|discriminate].
      destruct (find_dept (p_depts p) (q_dept Q')) as [P'|] eqn:EP'; [|discriminate].
      apply andb_prop in Hlev as [Hfit Hsat].
      apply find_dept_some in EP as [EPid HP]. apply find_dept_some in EP' as [EP'id HP'].
      apply (dept_level_lex p m s (j :: remove1 v s) P P'); try assumption.
      * congruence.
      * intros d. rewrite Hnd. congruence.
      * reflexivity.
  - (* preempt: same queue, strictly higher priority takes the slot *)
    destruct (preempt_ok p s j v) eqn:E; [|discriminate]. injection H as <-.
    unfold preempt_ok in E.
    destruct (find_job (p_jobs p) j) as [J|] eqn:EJ; [|discriminate].
    destruct (find_job (p_jobs p) v) as [V|] eqn:EV; [|discriminate].
    apply andb_prop in E as [E Hpr]. apply andb_prop in E as [E Hsq]. apply andb_prop in E as [_ Hv].
    apply Pos.eqb_eq in Hsq. apply Z.ltb_lt in Hpr.
    assert (Hqq : queue_of p j = queue_of p v) by (unfold queue_of; rewrite EJ, EV; congruence).
    assert (Hdd : dept_of p j = dept_of p v) by (unfold dept_of; now rewrite Hqq).
    assert (Hsameq : forall q, nq p (j :: remove1 v s) q = nq p s q).
    { intros q. rewrite (nq_swap p s j v q Hv), Hqq. lia. }
    assert (Hsamed : forall d, nd p (j :: remove1 v s) d = nd p s d).
    { intros d. rewrite (nd_swap p s j v d Hv), Hdd. lia. }
    unfold rank. rewrite (free_swap p s j v Hv).
    destruct (dept_components_same p s _ Hsamed) as (-> & -> & ->).
    destruct (queue_components_same p s _ Hsameq) as (-> & ->).
    do 6 apply lex_next. apply lex_here; [|reflexivity]. split; [assumption|].
    unfold negprio. cbn [sumf].
    assert (Hrem : forall s0, mem v s0 = true -> sumf (pterm p) (remove1 v s0) = sumf (pterm p) s0 - pterm p v).
    { induction s0 as [|x r IH]; intros M; [discriminate|]. cbn [mem existsb] in M. cbn [remove1].
      destruct (Pos.eqb v x) eqn:Ex.
      - apply Pos.eqb_eq in Ex. subst x. cbn [sumf]. lia.
      - cbn [orb] in M. cbn [sumf]. rewrite (IH M). lia. }
    rewrite (Hrem s Hv). unfold pterm. rewrite EJ, EV. lia.
Qed.

(** * stretches of decisions *)
Definition lexle (a b : list Z) : Prop := a = b \/ lexlt a b.

Lemma lexle_trans : forall a b c, lexle a b -> lexle b c -> lexle a c.
Proof.
  intros a b c [->|H1] [->|H2]; unfold lexle; auto. right. eapply lexlt_trans; eassumption.
Qed.
Lemma lexlt_le_trans : forall a b c, lexlt a b -> lexle b c -> lexlt a c.
Proof. intros a b c H1 [->|H2]; [assumption|eapply lexlt_trans; eassumption]. Qed.
Lemma lexle_lt_trans : forall a b c, lexle a b -> lexlt b c -> lexlt a c.
Proof. intros a b c [->|H1] H2; [assumption|eapply lexlt_trans; eassumption]. Qed.

Lemma run_within_cap : forall m p ds s s', within_cap p s -> run m p s ds = Some s' -> within_cap p s'.
Proof.
  intros m p ds. induction ds as [|d r IH]; intros s s' Hc H; cbn [run] in H.
  - now injection H as <-.
  - destruct (apply m p s d) as [s1|] eqn:E; [|discriminate].
    eapply IH; [|eassumption]. eapply apply_within_cap; eassumption.
Qed.

Theorem run_decreases_rank : forall m p ds s s',
  wf p -> wf_multb m = true -> within_cap p s ->
  run m p s ds = Some s' ->
  (ds = [] /\ s' = s) \/ (ds <> [] /\ lexlt (rank p s') (rank p s)).
Proof.
  intros m p ds. induction ds as [|d r IH]; intros s s' W Hm Hc H; cbn [run] in H.
  - left. split; [reflexivity|]. now injection H as <-.
  - right. split; [discriminate|].
    destruct (apply m p s d) as [s1|] eqn:E; [|discriminate].
    pose proof (decision_decreases_rank m p s d s1 W Hm Hc E) as H1.
    pose proof (apply_within_cap m p s d s1 Hc E) as Hc1.
    destruct (IH s1 s' W Hm Hc1 H) as [[_ ->]|[_ H2]]; [assumption|].
    eapply lexlt_trans; eassumption.
Qed.

Lemma evicting_cycle_nonempty : forall ds, evicting_cycle ds = true -> ds <> [].
Proof. intros [|d r] H; [discriminate|discriminate]. Qed.

(** no non-empty stretch of decisions (so: no sequence of cycles that contains an eviction, or
    a bind) leads back to the state it started from *)
Theorem no_return : forall m p ds s,
  wf p -> wf_multb m = true -> within_cap p s -> ds <> [] -> run m p s ds <> Some s.
Proof.
  intros m p ds s W Hm Hc Hne H.
  destruct (run_decreases_rank m p ds s s W Hm Hc H) as [[E _]|[_ Hlt]]; [contradiction|].
  exact (lexlt_irrefl _ Hlt).
Qed.

(** * runs of closed systems *)
Section Ranked.
  Variable S : closed_system.
  Variable rk : cs_state S -> list Z.
  Hypothesis rk_cycle : forall s s', cs_cycle S s s' -> lexle (rk s') (rk s).
  Hypothesis rk_evict : forall s s', cs_cycle S s s' -> cs_evicts S s s' -> lexlt (rk s') (rk s).

  Lemma ranked_mono : forall r, is_run S r -> forall i k, (i <= k)%nat -> lexle (rk (r k)) (rk (r i)).
  Proof.
    intros r Hr i k Hik. induction Hik as [|k Hik IH]; [now left|].
    eapply lexle_trans; [apply rk_cycle; apply Hr|exact IH].
  Qed.

  Theorem ranked_no_lasso : no_lasso S.
  Proof.
    intros r Hr i c k Hick Hev E.
    assert (H1 : lexle (rk (r c)) (rk (r i))) by (apply ranked_mono; [assumption|lia]).
    assert (H2 : lexlt (rk (r (Datatypes.S c))) (rk (r c))) by (apply rk_evict; [apply Hr|assumption]).
    assert (H3 : lexle (rk (r k)) (rk (r (Datatypes.S c)))) by (apply ranked_mono; [assumption|lia]).
    assert (H : lexlt (rk (r k)) (rk (r i))).
    { eapply lexle_lt_trans; [exact H3|]. eapply lexlt_le_trans; [exact H2|exact H1]. }
    rewrite E in H. exact (lexlt_irrefl _ H).
  Qed.

  Theorem ranked_finitely_many_evictions : finitely_many_evictions S.
  Proof.
    intros r Hr.
    remember (rk (r O)) as m0 eqn:E0. revert r Hr E0.
    induction (lexlt_wf m0) as [m0 _ IH]. intros r Hr E0 Hinf.
    destruct (Hinf O) as (c & _ & Hev).
    set (r' := fun n => r (Datatypes.S c + n)%nat).
    assert (Hr' : is_run S r').
    { intros n. unfold r'. replace (Datatypes.S c + Datatypes.S n)%nat with (Datatypes.S (Datatypes.S c + n)) by lia. apply Hr. }
    assert (Hlt : lexlt (rk (r' O)) m0).
    { unfold r'. replace (Datatypes.S c + 0)%nat with (Datatypes.S c) by lia. subst m0.
      eapply lexlt_le_trans; [apply rk_evict; [apply Hr|exact Hev]|].
      apply ranked_mono; [assumption|lia]. }
    apply (IH (rk (r' O)) Hlt r' Hr' eq_refl).
    intros n. destruct (Hinf (Datatypes.S c + n)%nat) as (c' & Hc' & Hev').
    exists (c' - Datatypes.S c)%nat. split; [lia|].
    unfold r'. replace (Datatypes.S c + (c' - Datatypes.S c))%nat with c' by lia.
    replace (Datatypes.S c + Datatypes.S (c' - Datatypes.S c))%nat with (Datatypes.S c') by lia.
    exact Hev'.
  Qed.
End Ranked.

Lemma ranked_both : forall (S : closed_system) (rk : cs_state S -> list Z),
  (forall s s', cs_cycle S s s' -> lexle (rk s') (rk s)) ->
  (forall s s', cs_cycle S s s' -> cs_evicts S s s' -> lexlt (rk s') (rk s)) ->
  no_lasso S /\ finitely_many_evictions S.
Proof.
  intros S rk H1 H2. split;
    [exact (ranked_no_lasso S rk H1 H2)|exact (ranked_finitely_many_evictions S rk H1 H2)].
Qed.

(** the closed system of the class: a cycle is any admissible list of decisions from a state
    within capacity (allocate*, then reclaim / preempt decisions - the theorems do not even
    need that shape) *)
Definition class_system (m : Z * Z) (p : params) : closed_system := {|
  cs_state := state;
  cs_cycle := fun s s' => within_cap p s /\ exists ds, run m p s ds = Some s';
  cs_evicts := fun s s' => exists ds, run m p s ds = Some s' /\ evicting_cycle ds = true;
|}.

Lemma class_rk_cycle : forall m p, wf p -> wf_multb m = true ->
  forall s s', cs_cycle (class_system m p) s s' -> lexle (rank p s') (rank p s).
Proof.
  intros m p W Hm s s' [Hc [ds H]].
  destruct (run_decreases_rank m p ds s s' W Hm Hc H) as [[_ ->]|[_ Hlt]]; [now left|now right].
Qed.
Lemma class_rk_evict : forall m p, wf p -> wf_multb m = true ->
  forall s s', cs_cycle (class_system m p) s s' -> cs_evicts (class_system m p) s s' ->
  lexlt (rank p s') (rank p s).
Proof.
  intros m p W Hm s s' [Hc _] [ds [H He]].
  destruct (run_decreases_rank m p ds s s' W Hm Hc H) as [[-> _]|[_ Hlt]]; [discriminate|assumption].
Qed.

Theorem class_no_lasso : forall m p, wf p -> wf_multb m = true -> no_lasso (class_system m p).
Proof.
  intros m p W Hm. apply (ranked_no_lasso (class_system m p) (rank p)).
  - now apply class_rk_cycle.
  - now apply class_rk_evict.
Qed.
Theorem class_finitely_many_evictions : forall m p, wf p -> wf_multb m = true ->
  finitely_many_evictions (class_system m p).
Proof.
  intros m p W Hm. apply (ranked_finitely_many_evictions (class_system m p) (rank p)).
  - now apply class_rk_cycle.
  - now apply class_rk_evict.
Qed.

(** * a multiplier below 1 allows a ping-pong *)
Definition pp_params : params := {|
  p_sz := 2; p_slots := 3;
  p_queues := [mkQueue 1%positive 1%positive 1 0; mkQueue 2%positive 1%positive 2 0;
               mkQueue 3%positive 2%positive 1 0; mkQueue 4%positive 2%positive 2 0];
  p_depts := [mkDept 1%positive 3 0; mkDept 2%positive 3 0];
  p_jobs := [mkJob 1%positive 1%positive 50; mkJob 2%positive 2%positive 50;
             mkJob 3%positive 3%positive 50; mkJob 4%positive 4%positive 50];
|}.
Definition pp_m : Z * Z := (2, 5).
Definition pp_s0 : state := [2; 1; 3]%positive.
Definition pp_s1 : state := [4; 1; 3]%positive.

Lemma pp_facts :
  wf_paramsb pp_params = true /\ 0 < snd pp_m /\ fst pp_m < snd pp_m /\ within_cap pp_params pp_s0
  /\ run pp_m pp_params pp_s0 [DReclaim 4 2]%positive = Some pp_s1
  /\ run pp_m pp_params pp_s1 [DReclaim 2 4]%positive = Some pp_s0
  /\ run (clamp pp_m) pp_params pp_s0 [DReclaim 4 2]%positive = None
  /\ run (clamp pp_m) pp_params pp_s1 [DReclaim 2 4]%positive = None.
Proof. repeat split; try (vm_compute; reflexivity); vm_compute; intros; discriminate. Qed.

Definition pp_run (n : nat) : state := if Nat.even n then pp_s0 else pp_s1.

Lemma pp_is_run : is_run (class_system pp_m pp_params) pp_run.
Proof.
  intros n. unfold pp_run. rewrite Nat.even_succ, <- Nat.negb_even.
  destruct (Nat.even n); cbn [negb]; split.
  - vm_compute. intros; discriminate.
  - exists [DReclaim 4 2]%positive. vm_compute. reflexivity.
  - vm_compute. intros; discriminate.
  - exists [DReclaim 2 4]%positive. vm_compute. reflexivity.
Qed.

Theorem below_one_lasso :
  exists m p, wf_paramsb p = true /\ 0 < snd m /\ fst m < snd m /\ ~ no_lasso (class_system m p).
Proof.
  exists pp_m, pp_params. split; [vm_compute; reflexivity|]. split; [vm_compute; reflexivity|].
  split; [vm_compute; reflexivity|].
  intros H. apply (H pp_run pp_is_run 0%nat 0%nat 2%nat); [lia| |reflexivity].
  exists [DReclaim 4 2]%positive. split; vm_compute; reflexivity.
Qed.

(** * non-vacuity: a cycle that uses every kind of decision, including a cross-department
    reclaim after which the reclaiming department is ABOVE its fair share (the case decided by
    the saturation rule with m >= 1) *)
Definition nv_params : params := {|
  p_sz := 1; p_slots := 7;
  p_queues := [mkQueue 1%positive 1%positive 1 0;   (* dept 1: entitled to one job, runs none *)
               mkQueue 2%positive 1%positive 0 0;   (* dept 1: runs one job above its share *)
               mkQueue 3%positive 2%positive 1 0;   (* dept 2: runs four jobs *)
               mkQueue 4%positive 2%positive 2 2];  (* dept 2: deserved 2, runs one *)
  p_depts := [mkDept 1%positive 1 0; mkDept 2%positive 2 0];
  p_jobs := [mkJob 1%positive 1%positive 50; mkJob 2%positive 2%positive 50;
             mkJob 3%positive 3%positive 50; mkJob 4%positive 3%positive 50;
             mkJob 5%positive 3%positive 50; mkJob 6%positive 3%positive 50;
             mkJob 7%positive 3%positive 75; mkJob 8%positive 4%positive 50;
             mkJob 9%positive 4%positive 50];
|}.
Definition nv_s0 : state := [2; 3; 4; 5; 6; 8]%positive.
Definition nv_cycle : list decision :=
  [DBind 9;          (* allocate: queue 4 takes the free slot *)
   DReclaim 1 3;     (* department 1 (1 of fair 1 -> 2) takes a slot of department 2 (6 of fair 2 -> 5): 2/1 < 5/2 *)
   DPreempt 7 4]%positive.   (* queue 3: priority 75 replaces priority 50 *)
Definition nv_s1 : state := [7; 1; 9; 2; 5; 6; 8]%positive.

Lemma nv_facts :
  wf_paramsb nv_params = true /\ wf_multb (1, 1) = true /\ within_cap nv_params nv_s0
  /\ cycle_shape nv_cycle = true /\ evicting_cycle nv_cycle = true
  /\ run (1, 1) nv_params nv_s0 nv_cycle = Some nv_s1
  /\ rank nv_params nv_s0 = [1; 3; 0; 27; 4; 1; 150]
  /\ rank nv_params nv_s1 = [0; 4; 0; 33; 3; 0; 150].
Proof. repeat split; try (vm_compute; reflexivity); vm_compute; intros; discriminate. Qed.

(** same-department reclaim by the deserved-quota strategy *)
Definition nv2_params : params := {|
  p_sz := 2; p_slots := 2;
  p_queues := [mkQueue 1%positive 1%positive 2 2; mkQueue 2%positive 1%positive 5 1];
  p_depts := [mkDept 1%positive 4 4];
  p_jobs := [mkJob 1%positive 1%positive 50; mkJob 2%positive 2%positive 50; mkJob 3%positive 2%positive 50];
|}.
Lemma nv2_facts :
  wf_paramsb nv2_params = true
  /\ run (3, 2) nv2_params [2; 3]%positive [DReclaim 1 3]%positive = Some [1; 2]%positive
  /\ rank nv2_params [2; 3]%positive = [0; 0; 0; 16; 0; 2; 0]
  /\ rank nv2_params [1; 2]%positive = [0; 0; 0; 16; 0; 0; 0].
Proof. repeat split; vm_compute; reflexivity. Qed.

(** * statements in the form used by Properties/C15.v (boolean hypotheses) *)
Lemma p_rank_decreases : forall m p s d s',
  wf_paramsb p = true -> wf_multb m = true -> within_cap p s ->
  apply m p s d = Some s' -> lexlt (rank p s') (rank p s).
Proof. intros m p s d s' W. apply decision_decreases_rank. now apply wf_paramsb_wf. Qed.

Lemma p_rank_decreases_cycle : forall m p ds s s',
  wf_paramsb p = true -> wf_multb m = true -> within_cap p s ->
  run m p s ds = Some s' ->
  (evicting_cycle ds = true -> lexlt (rank p s') (rank p s))
  /\ (rank p s' = rank p s \/ lexlt (rank p s') (rank p s))
  /\ within_cap p s'.
Proof.
  intros m p ds s s' W Hm Hc H. apply wf_paramsb_wf in W.
  pose proof (run_within_cap m p ds s s' Hc H) as Hc'.
  destruct (run_decreases_rank m p ds s s' W Hm Hc H) as [[-> ->]|[_ Hlt]].
  - split; [discriminate|]. split; [now left|assumption].
  - split; [intros _; assumption|]. split; [now right|assumption].
Qed.

Lemma p_no_lasso : forall m p, wf_paramsb p = true -> wf_multb m = true -> no_lasso (class_system m p).
Proof. intros m p W. apply class_no_lasso. now apply wf_paramsb_wf. Qed.

Lemma p_finitely_many : forall m p, wf_paramsb p = true -> wf_multb m = true ->
  finitely_many_evictions (class_system m p).
Proof. intros m p W. apply class_finitely_many_evictions. now apply wf_paramsb_wf. Qed.

Lemma p_no_return : forall m p ds s,
  wf_paramsb p = true -> wf_multb m = true -> within_cap p s -> ds <> [] -> run m p s ds <> Some s.
Proof. intros m p ds s W. apply no_return. now apply wf_paramsb_wf. Qed.

Definition no_lasso_any_multiplier : Prop :=
  forall m p, wf_paramsb p = true -> 0 < fst m -> 0 < snd m -> no_lasso (class_system m p).

Lemma pp_not_no_lasso : ~ no_lasso (class_system pp_m pp_params).
Proof.
  intros H. apply (H pp_run pp_is_run 0%nat 0%nat 2%nat); [lia| |reflexivity].
  exists [DReclaim 4 2]%positive. split; vm_compute; reflexivity.
Qed.

Lemma p_below_one_refuted :
  exists m p s0 s1 j v,
    wf_paramsb p = true /\ 0 < fst m < snd m /\ within_cap p s0
    /\ run m p s0 [DReclaim j v] = Some s1 /\ run m p s1 [DReclaim v j] = Some s0
    /\ ~ no_lasso (class_system m p)
    /\ run (clamp m) p s0 [DReclaim j v] = None /\ run (clamp m) p s1 [DReclaim v j] = None.
Proof.
  exists pp_m, pp_params, pp_s0, pp_s1, 4%positive, 2%positive.
  destruct pp_facts as (W & Hd & Hlt & Hc & R1 & R2 & C1 & C2).
  split; [assumption|]. split; [vm_compute; split; reflexivity|]. split; [assumption|].
  split; [assumption|]. split; [assumption|]. split; [exact pp_not_no_lasso|]. split; assumption.
Qed.

Lemma p_any_multiplier_refuted : ~ no_lasso_any_multiplier.
Proof.
  intros H. apply pp_not_no_lasso. apply H; vm_compute; reflexivity.
Qed.

Lemma p_nonvacuous :
  (exists p m s ds s',
     wf_paramsb p = true /\ wf_multb m = true /\ within_cap p s /\ cycle_shape ds = true
     /\ evicting_cycle ds = true /\ run m p s ds = Some s'
     /\ existsb (fun d => match d with DBind _ => true | _ => false end) ds = true
     /\ existsb (fun d => match d with DReclaim _ _ => true | _ => false end) ds = true
     /\ existsb (fun d => match d with DPreempt _ _ => true | _ => false end) ds = true)
  /\ (exists p m s j v s', wf_paramsb p = true /\ wf_multb m = true /\ within_cap p s
                           /\ run m p s [DReclaim j v] = Some s').
Proof.
  split.
  - exists nv_params, (1, 1), nv_s0, nv_cycle, nv_s1.
    destruct nv_facts as (W & Hm & Hc & Hs & He & R & _).
    repeat split; try assumption; vm_compute; reflexivity.
  - exists nv2_params, (3, 2), [2; 3]%positive, 1%positive, 3%positive, [1; 2]%positive.
    destruct nv2_facts as (W & R & _).
    repeat split; try assumption; try (vm_compute; reflexivity). vm_compute. intros; discriminate.
Qed.

(** * without the slot-keeping assumption the class has a lasso *)
Definition rd_params : params := {|
  p_sz := 1; p_slots := 2;
  p_queues := [mkQueue 1%positive 1%positive 1 0; mkQueue 2%positive 1%positive 1 0];
  p_depts := [mkDept 1%positive 2 0];
  p_jobs := [mkJob 1%positive 1%positive 50; mkJob 2%positive 1%positive 50; mkJob 3%positive 2%positive 50];
|}.
(** queue 1 (fair share 1) runs job 1; job 2 of queue 1 and job 3 of queue 2 (fair share 1) are
    pending.  Cycle: allocate hands the free slot to job 2 (queue 1 is now above its fair share),
    then job 3 reclaims it - and the state is the one the cycle started from. *)
Definition rd_cycle : list decision := [DBind 2; DReclaim 3 2]%positive.

Lemma redecide_lasso :
  exists p, wf_paramsb p = true /\ ~ no_lasso (redecide_system (1, 1) p).
Proof.
  exists rd_params. split; [vm_compute; reflexivity|].
  intros H.
  assert (Hr : is_run (redecide_system (1, 1) rd_params) (fun _ => [1%positive])).
  { intros n. split; [vm_compute; intros; discriminate|].
    exists rd_cycle. split; vm_compute; reflexivity. }
  apply (H _ Hr 0%nat 0%nat 1%nat); [lia| |reflexivity].
  exists rd_cycle. repeat split; vm_compute; reflexivity.
Qed.

(** * the general model is not vacuous *)
Module GeneralFacts.
  Import QArith Reclaim General.
  Open Scope Q_scope.
  Definition sh (f : Q) : rshare :=
    {| s_deserved := 0; s_fair := f; s_max := -1 # 1; s_alloc := 0; s_allocnp := 0 |}.
  Definition mkq (i : positive) (par : option positive) (fc fg : Q) : Reclaim.queue :=
    {| Reclaim.q_id := i; q_parent := par; q_cpu := sh fc; q_mem := sh 0; q_gpu := sh fg |}.
  Definition rs (c g : Q) : res := {| r_cpu := c; r_mem := 0; r_gpus := g; r_mig := 0 |}.
  (** three levels (root 1; departments 2, 3; leaves 4 under 2 and 5 under 3), cpu and gpu
      contended; job 1 = a gang holding 3 GPUs in leaf 5, job 2 = 1 GPU in leaf 5, job 3 = a
      pending gang of 2 GPUs in leaf 4 *)
  Definition g_ex : gparams :=
    mkGParams (mkvec 8 0 4)
      [mkq 1%positive None 8 4; mkq 2%positive (Some 1%positive) 4 2; mkq 3%positive (Some 1%positive) 4 2;
       mkq 4%positive (Some 2%positive) 4 2; mkq 5%positive (Some 3%positive) 4 2]
      [mkGJob 1%positive 5%positive 50%Z (rs 2 3) true; mkGJob 2%positive 5%positive 50%Z (rs 1 1) true;
       mkGJob 3%positive 4%positive 50%Z (rs 2 2) true].
  Lemma g_ex_facts :
    gwfb g_ex = true
    /\ gapply 1 g_ex [1; 2]%positive (GReclaim 3 [1]%positive) = Some [3; 2]%positive
    /\ gapply 1 g_ex [1; 2]%positive (GReclaim 3 [2]%positive) = None
    /\ gapply 1 g_ex [1; 2]%positive (GBind 3%positive) = None.
  Proof. repeat split; vm_compute; reflexivity. Qed.
End GeneralFacts.
