(** The binder's reading of the number of devices, and the GPU-group labels it leaves (C19). *)
From Coq Require Import List ZArith NArith String Ascii Bool Lia.

From KaiV Require Import Model.Strconv Model.GpuRequest Model.GpuRequestSpec Model.GpuMaterialise
     Proofs.Strconv Proofs.GpuRequest.
Import ListNotations.
Set Default Timeout 60.
Open Scope Z_scope.

(** ** device count *)

Lemma sharing_count en pf p :
  pf_contract pf -> admission_validate en pf p = true -> requests_gpu_fraction p = true ->
  g_count (scheduler_interpret pf p)
  = match a_numdev p with
    | Some s => match parse_int s with Some n => n | None => 1 end
    | None => 1
    end
  /\ match a_numdev p with
     | Some s => exists n, parse_int s = Some n /\ 0 < n
     | None => True
     end.
Proof.
  intros [Ce Cb] H Hs. apply admission_validate_inner in H as [H _].
  apply validate_parts in H as (Hm & Hf & Hd & E1 & E2 & E3).
  unfold scheduler_interpret.
  unfold valid_memory in Hm. unfold valid_fraction in Hf. unfold valid_numdev in Hd.
  unfold requests_gpu_fraction in Hs.
  destruct (a_fraction p) as [fs|] eqn:EF; destruct (a_memory p) as [ms|] eqn:EM;
    cbn [isSome andb orb negb oget] in *.
  - discriminate.
  - (* fraction *)
    rewrite parse_int_empty.
    apply andb_true_iff in Hf as [Hf H1]. apply andb_true_iff in Hf as [He H0].
    apply negb_true_iff in He.
    rewrite (gt0_not_le0 _ H0), (lt1_not_gt1 _ H1 H0), He, (gt0_lt1_not_ge1 _ H1 H0), H0.
    cbn [orb negb g_type].
    destruct (a_numdev p) as [ns|]; [|split; [reflexivity|exact I]].
    destruct (parse_int ns) as [n|] eqn:EN; [|discriminate].
    rewrite (parse_int_nonempty _ _ EN). split; [reflexivity|].
    exists n. split; [reflexivity|]. now apply Z.ltb_lt.
  - (* memory *)
    destruct (parse_int ms) as [m|] eqn:EMs; [|discriminate].
    rewrite Hm, Ce, Cb. rewrite orb_true_r. cbn [negb g_type].
    destruct (a_numdev p) as [ns|]; [|split; [reflexivity|exact I]].
    destruct (parse_int ns) as [n|] eqn:EN; [|discriminate].
    rewrite (parse_int_nonempty _ _ EN). split; [reflexivity|].
    exists n. split; [reflexivity|]. now apply Z.ltb_lt.
  - discriminate.
Qed.

(** the binder's device count is the scheduler's, and it is positive *)
Theorem binder_count_is_scheduler_count en pf p :
  pf_contract pf -> admission_validate en pf p = true -> requests_gpu_fraction p = true ->
  binder_num_devices p = NdOk (g_count (scheduler_interpret pf p))
  /\ 0 < g_count (scheduler_interpret pf p).
Proof.
  intros C H Hs. destruct (sharing_count en pf p C H Hs) as [E W].
  unfold binder_num_devices. rewrite Hs, E.
  destruct (a_numdev p) as [ns|]; [|split; [reflexivity|lia]].
  destruct W as (n & EN & Hn). rewrite EN. split; [reflexivity|exact Hn].
Qed.

(** a pod without sharing annotation that admission accepts has no device-count annotation either *)
Theorem binder_count_not_sharing en pf p :
  admission_validate en pf p = true -> requests_gpu_fraction p = false ->
  binder_num_devices p = NdNotFound /\ is_multi_fraction p = Some false.
Proof.
  intros H Hs. apply admission_validate_inner in H as [H _].
  apply validate_parts in H as (_ & _ & _ & _ & _ & E3).
  unfold is_multi_fraction, binder_num_devices. unfold requests_gpu_fraction in Hs |- *.
  rewrite Hs in *. destruct (a_numdev p); cbn in E3; [discriminate|]. split; reflexivity.
Qed.

Theorem is_multi_iff_several_devices en pf p :
  pf_contract pf -> admission_validate en pf p = true -> requests_gpu_fraction p = true ->
  is_multi_fraction p = Some (1 <? g_count (scheduler_interpret pf p))
  /\ (binder_is_multi p = true <-> 1 < g_count (scheduler_interpret pf p)).
Proof.
  intros C H Hs. destruct (binder_count_is_scheduler_count en pf p C H Hs) as [E _].
  unfold binder_is_multi, is_multi_fraction. rewrite E. split; [reflexivity|apply Z.ltb_lt].
Qed.

(** the same, spelled out for a gpu-memory request (no gpu-fraction annotation) *)
Theorem gpu_memory_is_multi_iff_several_devices en pf p m :
  pf_contract pf -> admission_validate en pf p = true ->
  a_fraction p = None -> a_memory p = Some m ->
  g_type (scheduler_interpret pf p) = GpuMemory
  /\ (binder_is_multi p = true <-> 1 < g_count (scheduler_interpret pf p)).
Proof.
  intros C H EF EM.
  assert (Hs : requests_gpu_fraction p = true) by (unfold requests_gpu_fraction; rewrite EM; apply orb_true_r).
  split; [|exact (proj2 (is_multi_iff_several_devices en pf p C H Hs))].
  destruct C as [Ce Cb]. apply admission_validate_inner in H as [H _].
  apply validate_parts in H as (Hm & _). unfold valid_memory in Hm. rewrite EM in Hm.
  unfold scheduler_interpret. rewrite EF, EM. cbn [oget].
  destruct (parse_int m) as [k|] eqn:EK; [|discriminate]. rewrite Hm, Ce, orb_true_r. cbn [negb g_type].
  destruct (a_numdev p) as [s|]; [|reflexivity].
  destruct (String.eqb s ""); [reflexivity|]. destruct (parse_int s); reflexivity.
Qed.

(** ** labels *)

Lemma lookup_set_key_absent {A} k (v : A) l : lookup k l = None -> set_key k v l = (l ++ [(k, v)])%list.
Proof.
  induction l as [|[k' v'] l IH]; cbn; [reflexivity|].
  destruct (String.eqb k' k); [discriminate|]. intros H. now rewrite IH.
Qed.

Lemma lookup_app_none {A} k (l l' : list (string * A)) :
  lookup k (l ++ l') = match lookup k l with Some v => Some v | None => lookup k l' end.
Proof. induction l as [|[k' v'] l IH]; cbn; [reflexivity|]. destruct (String.eqb k' k); [reflexivity|exact IH]. Qed.

Definition mkey (g : string) : string := (multi_group_prefix ++ g)%string.

Lemma mkey_inj a b : mkey a = mkey b -> a = b.
Proof. unfold mkey, multi_group_prefix. cbn. intros H. now inversion H. Qed.

Lemma mkey_not_plain g : String.eqb (mkey g) gpu_group_label = false.
Proof. reflexivity. Qed.
Lemma plain_not_mkey g : String.eqb gpu_group_label (mkey g) = false.
Proof. reflexivity. Qed.
Lemma mkey_has_prefix g : has_prefix multi_group_prefix (mkey g) = true.
Proof. reflexivity. Qed.

Definition mlabels (groups : list string) : labels := map (fun g => (mkey g, g)) groups.
Lemma mlabels_cons g r : mlabels (g :: r) = (mkey g, g) :: mlabels r.
Proof. reflexivity. Qed.
Global Opaque mkey.

Lemma lookup_mlabels_absent g groups : ~ In g groups -> lookup (mkey g) (mlabels groups) = None.
Proof.
  induction groups as [|h r IH]; [reflexivity|]. rewrite mlabels_cons. cbn [lookup]. intros N.
  destruct (String.eqb (mkey h) (mkey g)) eqn:E.
  - apply String.eqb_eq, mkey_inj in E. subst. exfalso. apply N. now left.
  - apply IH. intros I. apply N. now right.
Qed.

Lemma label_group_multi ls g : label_group (Some true) ls g = Some (set_key (mkey g) g ls).
Proof. reflexivity. Qed.

Lemma label_groups_multi groups : forall done,
  NoDup (done ++ groups) ->
  label_groups (Some true) (mlabels done) groups = Some (mlabels (done ++ groups)).
Proof.
  induction groups as [|g r IH]; intros done ND; cbn [label_groups].
  - now rewrite app_nil_r.
  - rewrite label_group_multi, lookup_set_key_absent.
    + replace (mlabels done ++ [(mkey g, g)])%list with (mlabels (done ++ [g])) by (unfold mlabels; now rewrite map_app).
      rewrite IH; rewrite <- app_assoc; [reflexivity|exact ND].
    + apply lookup_mlabels_absent. apply NoDup_remove_2 in ND. intros I. apply ND, in_or_app. now left.
Qed.

Lemma groups_of_mlabels groups : groups_of_labels (mlabels groups) = groups.
Proof.
  unfold groups_of_labels.
  assert (L : lookup gpu_group_label (mlabels groups) = None).
  { induction groups as [|g r IH]; [reflexivity|]. rewrite mlabels_cons. cbn [lookup]. rewrite mkey_not_plain. exact IH. }
  rewrite L. cbn [app]. clear L.
  induction groups as [|g r IH]; [reflexivity|]. rewrite mlabels_cons. cbn [filter fst]. rewrite mkey_has_prefix.
  cbn [map snd]. f_equal. exact IH.
Qed.

(** what the binder labels, the scheduler reads back: as many labels as selected groups, and
    GetGpuGroups returns exactly the selected groups *)
Theorem groups_read_back en pf p groups :
  pf_contract pf -> admission_validate en pf p = true -> requests_gpu_fraction p = true ->
  NoDup groups -> Z.of_nat (List.length groups) = g_count (scheduler_interpret pf p) ->
  exists ls, labels_after_binding groups p = Some ls
             /\ List.length ls = List.length groups
             /\ groups_of_labels ls = groups.
Proof.
  intros C H Hs ND HL.
  destruct (is_multi_iff_several_devices en pf p C H Hs) as [E _].
  unfold labels_after_binding, labels_after_binding_with. rewrite E.
  destruct (Z.ltb_spec 1 (g_count (scheduler_interpret pf p))) as [Hm|Hm].
  - exists (mlabels groups). split; [exact (label_groups_multi groups [] ND)|].
    split; [apply map_length|apply groups_of_mlabels].
  - pose proof (proj2 (binder_count_is_scheduler_count en pf p C H Hs)) as Hp.
    destruct groups as [|g [|g' r]]; cbn [List.length] in HL; try lia.
    exists [(gpu_group_label, g)]. repeat split.
Qed.

(** ** The clause is needed (seeded/C19-5): the README pod, gpu-memory 2000 on two devices. *)
Definition ex_memory_pod : gpod :=
  {| a_fraction := None; a_memory := Some "2000"%string; a_numdev := Some "2"%string; a_mps := None;
     a_cname := None; a_cm := None; p_name := "trainer"%string;
     containers := [{| c_name := "main"%string; c_gpu_req := None; c_gpu_lim := None; c_env := []; c_envfrom := [] |}];
     inits := []; volumes := [] |}.
Definition ex_groups : list string := ["gpu-group-a"%string; "gpu-group-b"%string].

Example ex_requiring_fraction :
  admission_validate true ex_pf ex_memory_pod = true
  /\ g_type (scheduler_interpret ex_pf ex_memory_pod) = GpuMemory
  /\ g_count (scheduler_interpret ex_pf ex_memory_pod) = 2
  /\ binder_num_devices ex_memory_pod = NdOk 2
  (* the code *)
  /\ is_multi_fraction ex_memory_pod = Some true
  /\ labels_after_binding ex_groups ex_memory_pod
     = Some [("runai-gpu-group/gpu-group-a", "gpu-group-a"); ("runai-gpu-group/gpu-group-b", "gpu-group-b")]%string
  /\ option_map groups_of_labels (labels_after_binding ex_groups ex_memory_pod) = Some ex_groups
  (* the variant *)
  /\ is_multi_requiring_fraction ex_memory_pod = Some false
  /\ labels_after_binding_with is_multi_requiring_fraction ex_groups ex_memory_pod
     = Some [("runai-gpu-group", "gpu-group-b")]%string
  /\ option_map groups_of_labels (labels_after_binding_with is_multi_requiring_fraction ex_groups ex_memory_pod)
     = Some ["gpu-group-b"%string]
  (* ... which is the code on a fraction request *)
  /\ is_multi_requiring_fraction ex_pod = is_multi_fraction ex_pod
  /\ labels_after_binding_with is_multi_requiring_fraction ex_groups ex_pod = labels_after_binding ex_groups ex_pod.
Proof. repeat split; vm_compute; reflexivity. Qed.
