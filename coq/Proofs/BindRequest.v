(** Proofs for C12 (BindRequest hand-off). *)
From Coq Require Import List ZArith Bool PArith Lia.
From KaiV Require Import Model.BindRequest Model.BindRequestSpec.
Import ListNotations.
Open Scope Z_scope.
Set Default Timeout 60.

(** * Basic facts about lookups *)

Lemma memp_In : forall n ns, memp n ns = true <-> In n ns.
Proof.
  intros n ns. unfold memp. rewrite existsb_exists. split.
  - intros [x [Hin Heq]]. apply Pos.eqb_eq in Heq. subst. exact Hin.
  - intros Hin. exists n. split; [exact Hin | apply Pos.eqb_refl].
Qed.

Lemma memp_false : forall n ns, memp n ns = false <-> ~ In n ns.
Proof.
  intros n ns. rewrite <- memp_In. destruct (memp n ns); split; intro H; congruence.
Qed.

Section Keyed.
  Context {A : Type} (key : A -> positive).

  Definition findk (l : list A) (k : positive) : option A :=
    find (fun x => Pos.eqb (key x) k) l.

  Lemma findk_some : forall l k x, findk l k = Some x -> In x l /\ key x = k.
  Proof.
    intros l k x H. unfold findk in H. apply find_some in H. destruct H as [Hin Heq].
    apply Pos.eqb_eq in Heq. auto.
  Qed.

  Lemma findk_none : forall l k, findk l k = None -> ~ In k (map key l).
  Proof.
    intros l k H Hin. apply in_map_iff in Hin. destruct Hin as [x [Hk Hin]].
    unfold findk in H. apply (find_none _ _ H) in Hin. simpl in Hin.
    rewrite Hk, Pos.eqb_refl in Hin. discriminate.
  Qed.

  Lemma findk_none_in : forall l k x, findk l k = None -> In x l -> key x <> k.
  Proof.
    intros l k x H Hin Heq. apply (findk_none _ _ H). subst k. apply in_map. exact Hin.
  Qed.

  Lemma key_inj : forall l a b, NoDup (map key l) -> In a l -> In b l -> key a = key b -> a = b.
  Proof.
    induction l as [|x l IH]; intros a b Hnd Ha Hb Hk; [contradiction|].
    simpl in Hnd. inversion Hnd as [|? ? Hnotin Hnd']; subst.
    destruct Ha as [Ha|Ha], Hb as [Hb|Hb]; subst.
    - reflexivity.
    - exfalso. apply Hnotin. rewrite Hk. apply in_map. exact Hb.
    - exfalso. apply Hnotin. rewrite <- Hk. apply in_map. exact Ha.
    - apply IH; assumption.
  Qed.

  Lemma findk_in : forall l x, NoDup (map key l) -> In x l -> findk l (key x) = Some x.
  Proof.
    intros l x Hnd Hin. destruct (findk l (key x)) as [y|] eqn:E.
    - apply findk_some in E. destruct E as [Hy Hk]. f_equal. apply (key_inj l); auto.
    - exfalso. apply (findk_none _ _ E). apply in_map. exact Hin.
  Qed.

  Lemma NoDup_map_filter : forall (f : A -> bool) l, NoDup (map key l) -> NoDup (map key (filter f l)).
  Proof.
    intros f l. induction l as [|x l IH]; intro Hnd; simpl; [constructor|].
    simpl in Hnd. inversion Hnd as [|? ? Hnotin Hnd']; subst.
    destruct (f x); simpl.
    - constructor; [|apply IH; exact Hnd'].
      intro Hin. apply Hnotin. apply in_map_iff in Hin. destruct Hin as [y [Hk Hy]].
      apply filter_In in Hy. destruct Hy as [Hy _]. rewrite <- Hk. apply in_map. exact Hy.
    - apply IH. exact Hnd'.
  Qed.

  Lemma NoDup_map_app1 : forall l x, NoDup (map key l) -> ~ In (key x) (map key l) ->
    NoDup (map key (l ++ [x])).
  Proof.
    intros l x. induction l as [|y l IH]; simpl; intros Hnd Hnotin.
    - constructor; [intros []|constructor].
    - inversion Hnd as [|? ? Hy Hnd']; subst. constructor.
      + rewrite map_app, in_app_iff. simpl. intros [H|[H|[]]]; [contradiction|].
        apply Hnotin. left. symmetry. exact H.
      + apply IH; [exact Hnd'|]. intro H. apply Hnotin. right. exact H.
  Qed.

  Lemma map_key_replace : forall (f : A -> A) l, (forall x, key (f x) = key x) ->
    map key (map f l) = map key l.
  Proof.
    intros f l H. rewrite map_map. apply map_ext. exact H.
  Qed.

  (** find on a filtered list *)
  Lemma findk_filter_some : forall (f : A -> bool) l k x,
    findk l k = Some x -> f x = true -> findk (filter f l) k = Some x.
  Proof.
    intros f l k x. unfold findk. induction l as [|y l IH]; simpl; intros H Hf; [discriminate|].
    destruct (Pos.eqb (key y) k) eqn:E.
    - inversion H; subst. rewrite Hf. simpl. rewrite E. reflexivity.
    - destruct (f y); simpl; [rewrite E|]; apply IH; assumption.
  Qed.

  Lemma findk_filter_in : forall (f : A -> bool) l k x,
    findk (filter f l) k = Some x -> In x l /\ f x = true /\ key x = k.
  Proof.
    intros f l k x H. apply findk_some in H. destruct H as [Hin Hk].
    apply filter_In in Hin. tauto.
  Qed.
End Keyed.


Lemma find_pod_findk : forall ps p, find_pod ps p = findk p_id ps p.
Proof. reflexivity. Qed.
Lemma find_br_findk : forall bs p, find_br bs p = findk b_pod bs p.
Proof. reflexivity. Qed.

Lemma is_failed_spec : forall b, is_failed b = spec_failed b.
Proof.
  intro b. unfold is_failed, spec_failed. destruct (b_phase b); try reflexivity.
  destruct (b_limit b); [|reflexivity]. apply Z.geb_leb.
Qed.

(** * Well-formedness (unique names) is preserved by every transition *)

Lemma next_status_key : forall b err, b_pod (fst (next_status b err)) = b_pod b.
Proof.
  intros b err. unfold next_status.
  destruct err; [destruct (b_limit b); [destruct (_ >? _)|]|]; reflexivity.
Qed.

Lemma next_status_limit : forall b err, b_limit (fst (next_status b err)) = b_limit b.
Proof.
  intros b err. unfold next_status.
  destruct err; [destruct (b_limit b) eqn:E; [destruct (_ >? _)|]|]; simpl; auto.
Qed.

Lemma update_status_with_key : forall changed b err nb rq e,
  update_status_with changed b err = UDone (Some nb) rq e -> nb = fst (next_status b err).
Proof.
  intros changed b err nb rq e. unfold update_status_with.
  destruct (shift_panics b err); [discriminate|].
  destruct (next_status b err) as [n r]. simpl.
  destruct (changed b n); intro H; inversion H; reflexivity.
Qed.

Lemma attempt_brs : forall s b o, brs (fst (attempt s b o)) = brs s /\ nodes (fst (attempt s b o)) = nodes s.
Proof.
  intros s b o. unfold attempt.
  destruct (find_pod (pods s) (b_pod b)) as [pd|]; [|auto].
  destruct (p_node pd); [auto|].
  destruct (memp (b_node b) (nodes s)); [|auto].
  destruct o; auto.
Qed.

Lemma set_pod_node_ids : forall s p n, map p_id (pods (set_pod_node s p n)) = map p_id (pods s).
Proof.
  intros s p n. unfold set_pod_node. simpl. apply map_key_replace.
  intro x. destruct (Pos.eqb (p_id x) p); reflexivity.
Qed.

Lemma attempt_pod_ids : forall s b o, map p_id (pods (fst (attempt s b o))) = map p_id (pods s).
Proof.
  intros s b o. unfold attempt.
  destruct (find_pod (pods s) (b_pod b)) as [pd|]; [|auto].
  destruct (p_node pd); [auto|].
  destruct (memp (b_node b) (nodes s)); [|auto].
  destruct o; [auto|]. simpl fst. apply set_pod_node_ids.
Qed.

Lemma reconcile_wf : forall changed s p o, wf s -> wf (fst (reconcile (update_status_with changed) s p o)).
Proof.
  intros changed s p o [Hp Hb]. unfold reconcile.
  destruct (find_br (brs s) p) as [b|] eqn:Eb; [|split; assumption].
  assert (Hgoal : forall s1 err, attempt s b o = (s1, err) ->
     wf (fst (match update_status_with changed b err with
              | UPanic => (s1, RPanic)
              | UDone (Some nb) rq e => (set_br s1 nb, RDone rq e)
              | UDone None rq e => (s1, RDone rq e)
              end))).
  { intros s1 err Ha.
    assert (Hs1 : wf s1).
    { pose proof (attempt_brs s b o) as [H1 _]. pose proof (attempt_pod_ids s b o) as H2.
      rewrite Ha in H1, H2. simpl in H1, H2. split; [rewrite H2|rewrite H1]; assumption. }
    destruct (update_status_with changed b err) as [|[nb|] rq e] eqn:Eu; simpl; try exact Hs1.
    apply update_status_with_key in Eu. destruct Hs1 as [Hp1 Hb1]. split; [exact Hp1|].
    unfold set_br. simpl. rewrite map_key_replace; [exact Hb1|].
    intro x. destruct (Pos.eqb (b_pod x) (b_pod nb)) eqn:E; [|reflexivity].
    apply Pos.eqb_eq in E. symmetry. exact E. }
  destruct (b_phase b); try (split; assumption);
    destruct (attempt s b o) as [s1 err] eqn:Ha; apply (Hgoal s1 err eq_refl).
Qed.

Lemma step_wf : forall changed s e, wf s -> wf (step (update_status_with changed) s e).
Proof.
  intros changed s e Hwf. destruct e; simpl.
  - (* Commit *) unfold commit. destruct (find_br (brs s) p) eqn:E; [exact Hwf|].
    destruct Hwf as [Hp Hb]. split; [exact Hp|]. simpl.
    apply NoDup_map_app1; [exact Hb|]. simpl. apply (findk_none b_pod). exact E.
  - (* Snapshot *) destruct Hwf as [Hp Hb]. split; [exact Hp|]. unfold clean_stale. simpl.
    apply NoDup_map_filter. apply NoDup_map_filter. exact Hb.
  - apply reconcile_wf. exact Hwf.
  - (* EnvBindPod *) unfold env_bind_pod. destruct (find_pod (pods s) p) as [pd|]; [|exact Hwf].
    destruct (p_node pd); [exact Hwf|]. destruct Hwf as [Hp Hb]. split; [|exact Hb].
    rewrite set_pod_node_ids. exact Hp.
  - exact Hwf.
  - destruct (memp n (nodes s)); exact Hwf.
  - destruct Hwf as [Hp Hb]. split; [exact Hp|]. simpl. apply NoDup_map_filter. exact Hb.
  - destruct (find_pod (pods s) (p_id pd)) eqn:E; [exact Hwf|].
    destruct Hwf as [Hp Hb]. split; [|exact Hb]. simpl.
    apply NoDup_map_app1; [exact Hp|]. apply (findk_none p_id). exact E.
  - destruct Hwf as [Hp Hb]. split; [|exact Hb]. simpl. apply NoDup_map_filter. exact Hp.
  - destruct Hwf as [Hp Hb]. split; [|exact Hb]. unfold map_pod. simpl.
    rewrite map_key_replace; [exact Hp|]. intro x. destruct (Pos.eqb (p_id x) p); reflexivity.
  - destruct Hwf as [Hp Hb]. split; [|exact Hb]. unfold map_pod. simpl.
    rewrite map_key_replace; [exact Hp|]. intro x. destruct (Pos.eqb (p_id x) p); reflexivity.
Qed.

Lemma run_wf : forall changed tr s, wf s -> wf (run (update_status_with changed) s tr).
Proof.
  intros changed tr. induction tr as [|e tr IH]; intros s Hwf; simpl; [exact Hwf|].
  apply IH. apply step_wf. exact Hwf.
Qed.

(** * Reading the snapshot view *)

Definition live (s : store) : list bindreq := fst (snapshot_bind_requests s).
Definition task_of (s : store) (pd : pod) : task :=
  new_task_info pd (get_bind_request_for_pod (live s) (p_id pd)).

Lemma lookup_map_key : forall {A B} (key : A -> positive) (F : A -> B) l x,
  NoDup (map key l) -> In x l -> lookup (map (fun a => (key a, F a)) l) (key x) = Some (F x).
Proof.
  intros A B key F l x. unfold lookup. induction l as [|y l IH]; intros Hnd Hin; [contradiction|].
  simpl in Hnd. inversion Hnd as [|? ? Hnotin Hnd']; subst. simpl.
  destruct Hin as [Hin|Hin].
  - subst. rewrite Pos.eqb_refl. reflexivity.
  - destruct (Pos.eqb (key y) (key x)) eqn:E.
    + apply Pos.eqb_eq in E. exfalso. apply Hnotin. rewrite E. apply in_map. exact Hin.
    + apply IH; assumption.
Qed.

Lemma lookup_map_id : forall {B} (F : positive -> B) ns n,
  In n ns -> lookup (map (fun m => (m, F m)) ns) n = Some (F n).
Proof.
  intros B F ns n. unfold lookup. induction ns as [|m ns IH]; intro Hin; [contradiction|].
  simpl. destruct (Pos.eqb m n) eqn:E.
  - apply Pos.eqb_eq in E. subst. reflexivity.
  - destruct Hin as [Hin|Hin]; [subst; rewrite Pos.eqb_refl in E; discriminate|]. apply IH. exact Hin.
Qed.

Lemma lookup_map_id_none : forall {B} (F : positive -> B) ns n,
  ~ In n ns -> lookup (map (fun m => (m, F m)) ns) n = None.
Proof.
  intros B F ns n. unfold lookup. induction ns as [|m ns IH]; intro Hnot; [reflexivity|].
  simpl. destruct (Pos.eqb m n) eqn:E.
  - apply Pos.eqb_eq in E. subst. exfalso. apply Hnot. left. reflexivity.
  - apply IH. intro H. apply Hnot. right. exact H.
Qed.

Lemma view_tasks : forall s,
  v_tasks (snapshot_view s) = map (fun p => (p_id p, task_of s p)) (pods s).
Proof.
  intro s. unfold snapshot_view, pod_tasks. simpl. rewrite map_map. reflexivity.
Qed.

Lemma view_task : forall s pd, wf s -> In pd (pods s) ->
  lookup (v_tasks (snapshot_view s)) (p_id pd) = Some (task_of s pd).
Proof.
  intros s pd [Hp _] Hin. rewrite view_tasks. apply (lookup_map_key p_id); assumption.
Qed.

Definition is_charged (s : store) (n : positive) (pd : pod) : bool :=
  on_node n (task_of s pd) && active_used (t_status (task_of s pd)).

Lemma charged_pods_eq : forall s n,
  charged_pods (pod_tasks s) n = filter (is_charged s n) (pods s).
Proof.
  intros s n. unfold charged_pods, pod_tasks.
  fold (live s). induction (pods s) as [|p ps IH]; [reflexivity|].
  simpl. unfold is_charged at 1, task_of at 1 2.
  destruct (on_node n _ && active_used _); simpl; rewrite IH; reflexivity.
Qed.

Lemma charged_on_view : forall s n, In n (nodes s) ->
  charged_on (snapshot_view s) n = map p_id (filter (is_charged s n) (pods s)).
Proof.
  intros s n Hin. unfold charged_on, snapshot_view. simpl.
  rewrite (lookup_map_id (fun n => map p_id (charged_pods (pod_tasks s) n))); [|exact Hin].
  rewrite charged_pods_eq. reflexivity.
Qed.

Lemma charged_on_view_none : forall s n, ~ In n (nodes s) -> charged_on (snapshot_view s) n = [].
Proof.
  intros s n Hnot. unfold charged_on, snapshot_view. simpl.
  rewrite (lookup_map_id_none (fun n => map p_id (charged_pods (pod_tasks s) n))); [reflexivity|exact Hnot].
Qed.

Lemma in_charged_on : forall s n pd, wf s -> In pd (pods s) ->
  (In (p_id pd) (charged_on (snapshot_view s) n) <-> In n (nodes s) /\ is_charged s n pd = true).
Proof.
  intros s n pd Hwf Hin. split.
  - intro H. destruct (in_dec Pos.eq_dec n (nodes s)) as [Hn|Hn].
    + split; [exact Hn|]. rewrite charged_on_view in H by exact Hn.
      apply in_map_iff in H. destruct H as [pd2 [Hid H2]]. apply filter_In in H2.
      destruct H2 as [H2 Hc]. destruct Hwf as [Hp _].
      assert (pd2 = pd) by (apply (key_inj p_id (pods s)); assumption). subst. exact Hc.
    + rewrite charged_on_view_none in H by exact Hn. contradiction.
  - intros [Hn Hc]. rewrite charged_on_view by exact Hn. apply in_map. apply filter_In. auto.
Qed.

Lemma live_find : forall s p b, find_br (brs s) p = Some b -> memp (b_node b) (nodes s) = true ->
  find_br (live s) p = Some b.
Proof.
  intros s p b H Hm. unfold live, snapshot_bind_requests. simpl.
  rewrite find_br_findk in *. apply findk_filter_some; assumption.
Qed.

Lemma stale_false : forall s b, stale s b = false <-> memp (b_node b) (nodes s) = true /\ spec_failed b = false.
Proof.
  intros s b. unfold stale. destruct (memp (b_node b) (nodes s)), (spec_failed b); simpl; split; intro H; try tauto; try discriminate; destruct H; discriminate.
Qed.

(** * Clause 1: in-flight pods are charged to the selected node *)

Lemma task_of_binding : forall s pd b,
  p_phase pd = PPending -> p_node pd = None ->
  find_br (brs s) (p_id pd) = Some b -> stale s b = false ->
  task_of s pd = binding_task b pd.
Proof.
  intros s pd b Hph Hnode Hb Hst. apply stale_false in Hst. destruct Hst as [Hm Hf].
  unfold task_of, get_bind_request_for_pod. rewrite (live_find s _ b Hb Hm).
  rewrite is_failed_spec, Hf. unfold new_task_info, binding_task, task_status_of, expected_groups.
  rewrite Hph, Hnode. destruct (p_deleting pd); reflexivity.
Qed.

Lemma charged_until_terminal : forall s, wf s -> forall pd, In pd (pods s) -> p_phase pd = PPending ->
  (forall b, p_node pd = None -> find_br (brs s) (p_id pd) = Some b -> stale s b = false ->
      lookup (v_tasks (snapshot_view s)) (p_id pd) = Some (binding_task b pd)
      /\ In (p_id pd) (charged_on (snapshot_view s) (b_node b)))
  /\ (forall n, p_node pd = Some n -> In n (nodes s) ->
      In (p_id pd) (charged_on (snapshot_view s) n)).
Proof.
  intros s Hwf pd Hin Hph. split.
  - intros b Hnode Hb Hst. rewrite (view_task s pd Hwf Hin).
    rewrite (task_of_binding s pd b Hph Hnode Hb Hst). split; [reflexivity|].
    apply in_charged_on; [exact Hwf|exact Hin|]. apply stale_false in Hst as Hst'. destruct Hst' as [Hm _].
    split; [apply memp_In; exact Hm|]. unfold is_charged.
    rewrite (task_of_binding s pd b Hph Hnode Hb Hst). unfold binding_task, on_node. simpl.
    rewrite Pos.eqb_refl. destruct (p_deleting pd); reflexivity.
  - intros n Hnode Hn. apply in_charged_on; [exact Hwf|exact Hin|]. split; [exact Hn|].
    unfold is_charged, task_of, new_task_info, task_status_of, on_node. simpl.
    rewrite Hph, Hnode. rewrite Pos.eqb_refl. destruct (p_deleting pd); reflexivity.
Qed.

(** * Clause 2: stale requests are deleted, their pods are pending again *)

Lemma no_live_br_pending : forall s pd, wf s -> In pd (pods s) ->
  p_phase pd = PPending -> p_node pd = None -> p_deleting pd = false ->
  get_bind_request_for_pod (live s) (p_id pd) = None ->
  lookup (v_tasks (snapshot_view s)) (p_id pd) = Some (pending_task pd)
  /\ forall n, ~ In (p_id pd) (charged_on (snapshot_view s) n).
Proof.
  intros s pd Hwf Hin Hph Hnode Hdel Hnone.
  assert (Ht : task_of s pd = pending_task pd).
  { unfold task_of. rewrite Hnone. unfold new_task_info, pending_task, task_status_of.
    rewrite Hph, Hnode, Hdel. reflexivity. }
  split.
  - rewrite (view_task s pd Hwf Hin), Ht. reflexivity.
  - intros n H. apply in_charged_on in H; [|exact Hwf|exact Hin]. destruct H as [_ Hc].
    unfold is_charged in Hc. rewrite Ht in Hc. unfold pending_task, on_node in Hc. simpl in Hc. discriminate.
Qed.

Lemma stale_no_live : forall s b, wf s -> In b (brs s) -> stale s b = true ->
  get_bind_request_for_pod (live s) (b_pod b) = None.
Proof.
  intros s b [_ Hb] Hin Hst. unfold get_bind_request_for_pod.
  destruct (find_br (live s) (b_pod b)) as [b2|] eqn:E; [|reflexivity].
  unfold live, snapshot_bind_requests in E. simpl in E. rewrite find_br_findk in E.
  apply findk_filter_in in E. destruct E as [Hin2 [Hm Hk]].
  assert (b2 = b) by (apply (key_inj b_pod (brs s)); assumption). subst b2.
  unfold stale in Hst. rewrite Hm in Hst. simpl in Hst. rewrite is_failed_spec, Hst. reflexivity.
Qed.

Lemma cleanup_deletes : forall s b, wf s -> In b (brs s) -> stale s b = true ->
  find_br (brs (clean_stale s)) (b_pod b) = None.
Proof.
  intros s b [_ Hb] Hin Hst.
  destruct (find_br (brs (clean_stale s)) (b_pod b)) as [b2|] eqn:E; [|reflexivity]. exfalso.
  unfold clean_stale, snapshot_bind_requests in E. simpl in E. rewrite find_br_findk in E.
  apply findk_filter_in in E. destruct E as [Hin2 [Hnf Hk]].
  apply filter_In in Hin2. destruct Hin2 as [Hin2 Hm].
  assert (b2 = b) by (apply (key_inj b_pod (brs s)); assumption). subst b2.
  unfold stale in Hst. rewrite Hm in Hst. simpl in Hst. rewrite is_failed_spec, Hst in Hnf. discriminate.
Qed.

Lemma cleanup_keeps : forall s b, In b (brs s) -> stale s b = false -> In b (brs (clean_stale s)).
Proof.
  intros s b Hin Hst. apply stale_false in Hst. destruct Hst as [Hm Hf].
  unfold clean_stale, snapshot_bind_requests. simpl. apply filter_In. split.
  - apply filter_In. auto.
  - rewrite is_failed_spec, Hf. reflexivity.
Qed.

Lemma no_br_no_live : forall s p, find_br (brs s) p = None -> get_bind_request_for_pod (live s) p = None.
Proof.
  intros s p H. unfold get_bind_request_for_pod.
  destruct (find_br (live s) p) as [b2|] eqn:E; [|reflexivity]. exfalso.
  unfold live, snapshot_bind_requests in E. simpl in E. rewrite find_br_findk in E.
  apply findk_filter_in in E. destruct E as [Hin2 [_ Hk]].
  rewrite find_br_findk in H. apply (findk_none_in b_pod _ _ _ H Hin2). exact Hk.
Qed.

Lemma clean_stale_wf : forall s, wf s -> wf (clean_stale s).
Proof.
  intros s [Hp Hb]. split; [exact Hp|]. unfold clean_stale. simpl.
  apply NoDup_map_filter. apply NoDup_map_filter. exact Hb.
Qed.

Lemma cleanup : forall s, wf s -> forall b, In b (brs s) ->
  (stale s b = true ->
     find_br (brs (clean_stale s)) (b_pod b) = None
     /\ forall pd, In pd (pods s) -> p_id pd = b_pod b ->
          p_phase pd = PPending -> p_node pd = None -> p_deleting pd = false ->
          (lookup (v_tasks (snapshot_view s)) (p_id pd) = Some (pending_task pd)
           /\ forall n, ~ In (p_id pd) (charged_on (snapshot_view s) n))
          /\ (lookup (v_tasks (snapshot_view (clean_stale s))) (p_id pd) = Some (pending_task pd)
           /\ forall n, ~ In (p_id pd) (charged_on (snapshot_view (clean_stale s)) n)))
  /\ (stale s b = false -> find_br (brs (clean_stale s)) (b_pod b) = Some b).
Proof.
  intros s Hwf b Hin. split.
  - intro Hst. split; [apply cleanup_deletes; assumption|].
    intros pd Hpd Hid Hph Hnode Hdel. split.
    + apply no_live_br_pending; try assumption. rewrite Hid. apply stale_no_live; assumption.
    + apply no_live_br_pending; try assumption.
      * apply clean_stale_wf. exact Hwf.
      * apply no_br_no_live. rewrite Hid. apply cleanup_deletes; assumption.
  - intro Hst. rewrite find_br_findk. apply findk_in.
    + apply clean_stale_wf. exact Hwf.
    + apply cleanup_keeps; assumption.
Qed.

(** * Clause 3: bounded retries *)

(** what the proof needs from the patch decision [changed]; [ok L] selects the
    limits for which the count is claimed *)
Definition changed_ok (ok : Z -> Prop) (changed : bindreq -> bindreq -> bool) : Prop :=
  (forall b, changed b b = false) /\
  (forall b nb, changed b nb = false -> b_phase nb = b_phase b) /\
  (forall b err L, changed b (fst (next_status b err)) = false ->
      b_limit b = Some L -> 0 <= L -> ok L ->
      (b_phase b = BFailed -> Z.min 1 L <= b_attempts b) ->
      b_attempts (fst (next_status b err)) = b_attempts b).

Lemma changed_fixed_ok : changed_ok (fun _ => True) changed_fixed.
Proof.
  unfold changed_ok, changed_fixed. repeat split.
  - intro b. destruct (b_phase b); simpl; rewrite Z.eqb_refl; reflexivity.
  - intros b nb H. apply orb_false_elim in H. destruct H as [H _].
    destruct (b_phase b), (b_phase nb); simpl in H; try discriminate; reflexivity.
  - intros b err L H _ _ _ _. apply orb_false_elim in H. destruct H as [_ H].
    apply negb_false_iff in H. apply Z.eqb_eq in H. symmetry. exact H.
Qed.

Lemma changed_v0_ok : changed_ok (fun L => L <= 1) changed_v0.
Proof.
  unfold changed_ok, changed_v0. repeat split.
  - intro b. destruct (b_phase b); reflexivity.
  - intros b nb H. destruct (b_phase b), (b_phase nb); simpl in H; try discriminate; reflexivity.
  - intros b err L H HL H0 H1 Hf. unfold next_status in *. destruct err; [|reflexivity].
    rewrite HL in *. destruct (Z.gtb_spec L (b_attempts b)) as [Hgt|Hle]; [|reflexivity].
    simpl in H. destruct (b_phase b); simpl in H; try discriminate.
    specialize (Hf eq_refl). exfalso. lia.
Qed.

Definition br_inv (ok : Z -> Prop) (g : ghost) (b : bindreq) : Prop :=
  exists k, g (b_pod b) = Some k /\ 0 <= k /\ 0 <= b_attempts b /\
    (forall L, b_limit b = Some L -> 0 <= L -> ok L -> b_attempts b = Z.min k L) /\
    (b_phase b = BPending -> k = 0) /\ (b_phase b = BFailed -> 1 <= k).

Definition tracked_inv (ok : Z -> Prop) (s : store) (g : ghost) : Prop :=
  NoDup (map b_pod (brs s)) /\ forall b, In b (brs s) -> br_inv ok g b.

Lemma attempt_err : forall s p b o, find_br (brs s) p = Some b -> b_phase b <> BSucceeded ->
  snd (attempt s b o) = attempt_fails s p o.
Proof.
  intros s p b o Hb Hph. unfold attempt_fails, attempt. rewrite Hb.
  destruct (b_phase b) eqn:E; try congruence;
    (destruct (find_pod (pods s) (b_pod b)) as [pd|]; [|reflexivity];
     destruct (p_node pd); [reflexivity|];
     destruct (memp (b_node b) (nodes s)); destruct o; reflexivity).
Qed.

Lemma no_panic : forall b err, 0 <= b_attempts b -> shift_panics b err = false.
Proof.
  intros b err H. unfold shift_panics. destruct err; [|reflexivity]. simpl.
  destruct (b_limit b); [|reflexivity].
  assert (b_attempts b <? 0 = false) as -> by (apply Z.ltb_ge; exact H).
  apply andb_false_r.
Qed.

Definition replace_br (nb : bindreq) (x : bindreq) : bindreq :=
  if Pos.eqb (b_pod x) (b_pod nb) then nb else x.

Lemma reconcile_brs : forall changed s p o b,
  find_br (brs s) p = Some b -> b_phase b <> BSucceeded -> 0 <= b_attempts b ->
  let nb := fst (next_status b (attempt_fails s p o)) in
  brs (fst (reconcile (update_status_with changed) s p o))
  = if changed b nb then map (replace_br nb) (brs s) else brs s.
Proof.
  intros changed s p o b Hb Hph Ha nb. unfold reconcile. rewrite Hb.
  pose proof (attempt_err s p b o Hb Hph) as Herr.
  pose proof (attempt_brs s b o) as [Hbrs _].
  destruct (attempt s b o) as [s1 err]. simpl in Herr, Hbrs. subst err.
  assert (Hgoal :
    brs (fst (match update_status_with changed b (attempt_fails s p o) with
              | UPanic => (s1, RPanic)
              | UDone (Some nb0) rq e => (set_br s1 nb0, RDone rq e)
              | UDone None rq e => (s1, RDone rq e)
              end)) = if changed b nb then map (replace_br nb) (brs s) else brs s).
  { unfold update_status_with. rewrite (no_panic b _ Ha). subst nb.
    destruct (next_status b (attempt_fails s p o)) as [n r]. simpl.
    destruct (changed b n); simpl; [rewrite Hbrs; reflexivity|exact Hbrs]. }
  destruct (b_phase b); try congruence; exact Hgoal.
Qed.

Lemma reconcile_brs_noop : forall upd s p o,
  (find_br (brs s) p = None \/ exists b, find_br (brs s) p = Some b /\ b_phase b = BSucceeded) ->
  fst (reconcile upd s p o) = s /\ attempt_fails s p o = false.
Proof.
  intros upd s p o [H|[b [H Hph]]]; unfold reconcile, attempt_fails; rewrite H; [auto|].
  rewrite Hph. auto.
Qed.

Lemma br_inv_next : forall (ok : Z -> Prop) b k err,
  0 <= k -> 0 <= b_attempts b ->
  (forall L, b_limit b = Some L -> 0 <= L -> ok L -> b_attempts b = Z.min k L) ->
  let nb := fst (next_status b err) in
  let k' := if err then k + 1 else k in
  0 <= b_attempts nb /\
  (forall L, b_limit nb = Some L -> 0 <= L -> ok L -> b_attempts nb = Z.min k' L) /\
  (b_phase nb = BPending -> k' = 0) /\ (b_phase nb = BFailed -> 1 <= k').
Proof.
  intros ok b k err Hk Ha Hmin nb k'. subst nb k'. unfold next_status.
  destruct err.
  - destruct (b_limit b) as [l|] eqn:El.
    + destruct (Z.gtb_spec l (b_attempts b)) as [Hgt|Hle]; simpl; rewrite ?El.
      * repeat split; try lia; try discriminate.
        intros L HL H0 Hok. inversion HL; subst. specialize (Hmin L eq_refl H0 Hok). lia.
      * repeat split; try lia; try discriminate.
        intros L HL H0 Hok. inversion HL; subst. specialize (Hmin L eq_refl H0 Hok). lia.
    + simpl. rewrite El. repeat split; try lia; try discriminate.
  - simpl. repeat split; try lia; try discriminate.
    intros L HL H0 Hok. apply Hmin; assumption.
Qed.

Lemma gset_same : forall g p v, gset g p v p = v.
Proof. intros. unfold gset. rewrite Pos.eqb_refl. reflexivity. Qed.
Lemma gset_other : forall g p v q, q <> p -> gset g p v q = g q.
Proof. intros g p v q H. unfold gset. destruct (Pos.eqb q p) eqn:E; [apply Pos.eqb_eq in E; contradiction|reflexivity]. Qed.

Lemma br_inv_ext : forall ok g g' b, g' (b_pod b) = g (b_pod b) -> br_inv ok g b -> br_inv ok g' b.
Proof.
  intros ok g g' b H [k Hk]. exists k. rewrite H. exact Hk.
Qed.

Lemma inv_reconcile : forall ok changed s g p o, changed_ok ok changed ->
  tracked_inv ok s g ->
  tracked_inv ok (fst (reconcile (update_status_with changed) s p o))
                 (ghost_step s (Reconcile p o) g).
Proof.
  intros ok changed s g p o [Hrefl [Hph Hatt]] [Hnd Hinv]. simpl.
  destruct (find_br (brs s) p) as [b|] eqn:Eb.
  2:{ destruct (reconcile_brs_noop (update_status_with changed) s p o (or_introl Eb)) as [-> ->].
      split; assumption. }
  destruct (br_phase_eqb (b_phase b) BSucceeded) eqn:Ephase.
  { assert (Hs : b_phase b = BSucceeded) by (destruct (b_phase b); simpl in Ephase; congruence).
    destruct (reconcile_brs_noop (update_status_with changed) s p o
                (or_intror (ex_intro _ b (conj Eb Hs)))) as [-> ->].
    split; assumption. }
  assert (Hns : b_phase b <> BSucceeded) by (intro H; rewrite H in Ephase; discriminate).
  pose proof Eb as Eb'. rewrite find_br_findk in Eb'.
  apply (findk_some b_pod) in Eb'. destruct Eb' as [Hinb Hkey].
  destruct (Hinv b Hinb) as [k [Hg [Hk [Ha [Hmin [Hpend Hfail]]]]]].
  unfold tracked_inv. rewrite (reconcile_brs changed s p o b Eb Hns Ha).
  pose proof (br_inv_next ok b k (attempt_fails s p o) Hk Ha Hmin) as [Ha' [Hmin' [Hpend' Hfail']]].
  set (err := attempt_fails s p o) in *.
  set (nb := fst (next_status b err)) in *.
  set (g' := if err then gset g p (match g p with Some k0 => Some (k0 + 1) | None => None end) else g).
  set (k' := if err then k + 1 else k) in *.
  assert (Hg' : g' p = Some k').
  { subst g' k'. destruct err; [rewrite gset_same; rewrite <- Hkey, Hg; reflexivity | rewrite <- Hkey; exact Hg]. }
  assert (Hgo : forall q, q <> p -> g' q = g q).
  { intros q Hq. subst g'. destruct err; [apply gset_other; exact Hq|reflexivity]. }
  assert (Hk' : 0 <= k') by (subst k'; destruct err; lia).
  assert (Hnbkey : b_pod nb = p) by (subst nb; rewrite next_status_key; exact Hkey).
  destruct (changed b nb) eqn:Ech.
  - (* patched *)
    split.
    + rewrite map_key_replace; [exact Hnd|].
      intro x. unfold replace_br. destruct (Pos.eqb (b_pod x) (b_pod nb)) eqn:E;
        [apply Pos.eqb_eq in E; symmetry; exact E|reflexivity].
    + intros x Hx. apply in_map_iff in Hx. destruct Hx as [y [Hy Hiny]]. unfold replace_br in Hy.
      destruct (Pos.eqb (b_pod y) (b_pod nb)) eqn:E.
      * subst x. exists k'. rewrite Hnbkey.
        split; [exact Hg'|]. split; [exact Hk'|]. split; [exact Ha'|]. split; [exact Hmin'|].
        split; [exact Hpend'|exact Hfail'].
      * subst x. apply (br_inv_ext ok g); [|apply Hinv; exact Hiny].
        apply Hgo. apply Pos.eqb_neq in E. rewrite Hnbkey in E. exact E.
  - (* not patched *)
    split; [exact Hnd|]. intros x Hx.
    destruct (Pos.eq_dec (b_pod x) p) as [Hxp|Hxp].
    + assert (x = b) by (apply (key_inj b_pod (brs s)); [exact Hnd|exact Hx|exact Hinb|congruence]).
      subst x. exists k'. rewrite Hkey.
      pose proof (Hph b nb Ech) as Hsame.
      split; [exact Hg'|]. split; [exact Hk'|]. split; [exact Ha|].
      split; [|split].
      * intros L HL H0 Hok.
        assert (Hlow : b_phase b = BFailed -> Z.min 1 L <= b_attempts b).
        { intro Hf. specialize (Hmin L HL H0 Hok). specialize (Hfail Hf). lia. }
        rewrite <- (Hatt b err L Ech HL H0 Hok Hlow).
        apply Hmin'; [subst nb; rewrite next_status_limit; exact HL|exact H0|exact Hok].
      * intro Hp. apply Hpend'. rewrite Hsame. exact Hp.
      * intro Hf. apply Hfail'. rewrite Hsame. exact Hf.
    + apply (br_inv_ext ok g); [apply Hgo; exact Hxp|apply Hinv; exact Hx].
Qed.

Lemma inv_step : forall ok changed s g e, changed_ok ok changed ->
  tracked_inv ok s g ->
  tracked_inv ok (step (update_status_with changed) s e) (ghost_step s e g).
Proof.
  intros ok changed s g e Hok Hinv0. pose proof Hinv0 as [Hnd Hinv].
  destruct e.
  - (* Commit *)
    simpl. unfold commit. destruct (find_br (brs s) p) as [b0|] eqn:E; [exact Hinv0|].
    split.
    + simpl. apply NoDup_map_app1; [exact Hnd|]. apply (findk_none b_pod). exact E.
    + simpl. intros b Hin. apply in_app_iff in Hin. destruct Hin as [Hin|[Hin|[]]].
      * apply (br_inv_ext ok g); [|apply Hinv; exact Hin].
        apply gset_other. apply (findk_none_in b_pod _ _ _ E Hin).
      * subst b. exists 0. simpl. rewrite gset_same.
        split; [reflexivity|]. split; [lia|]. split; [lia|]. split; [|split].
        -- intros L _ H0 _. lia.
        -- reflexivity.
        -- discriminate.
  - (* Snapshot *)
    simpl. split.
    + unfold clean_stale. simpl. apply NoDup_map_filter. apply NoDup_map_filter. exact Hnd.
    + intros b Hin. unfold clean_stale, snapshot_bind_requests in Hin. simpl in Hin.
      apply filter_In in Hin. destruct Hin as [Hin _]. apply filter_In in Hin. destruct Hin as [Hin _].
      apply Hinv. exact Hin.
  - apply inv_reconcile; assumption.
  - (* EnvBindPod *)
    simpl. unfold env_bind_pod. destruct (find_pod (pods s) p) as [pd|]; [|exact Hinv0].
    destruct (p_node pd); exact Hinv0.
  - exact Hinv0.
  - simpl. destruct (memp n (nodes s)); exact Hinv0.
  - (* EnvDeleteBR *)
    simpl. split.
    + apply NoDup_map_filter. exact Hnd.
    + intros b Hin. apply filter_In in Hin. destruct Hin as [Hin _]. apply Hinv. exact Hin.
  - simpl. destruct (find_pod (pods s) (p_id pd)); exact Hinv0.
  - exact Hinv0.
  - exact Hinv0.
  - exact Hinv0.
Qed.

Lemma run_g_inv : forall ok changed tr s g, changed_ok ok changed -> tracked_inv ok s g ->
  forall s' g', run_g (update_status_with changed) s g tr = (s', g') -> tracked_inv ok s' g'.
Proof.
  intros ok changed tr. induction tr as [|e tr IH]; intros s g Hok Hinv s' g' Hrun; simpl in Hrun.
  - inversion Hrun; subst. exact Hinv.
  - eapply IH; [exact Hok| |exact Hrun]. apply inv_step; assumption.
Qed.

Lemma run_g_fst : forall upd tr s g, fst (run_g upd s g tr) = run upd s tr.
Proof.
  intros upd tr. induction tr as [|e tr IH]; intros s g; simpl; [reflexivity|apply IH].
Qed.

Lemma attempt_fail_store : forall s b o, snd (attempt s b o) = true -> fst (attempt s b o) = s.
Proof.
  intros s b o. unfold attempt.
  destruct (find_pod (pods s) (b_pod b)) as [pd|]; [|reflexivity].
  destruct (p_node pd); [reflexivity|].
  destruct (memp (b_node b) (nodes s)); [|reflexivity].
  destruct o; [reflexivity|]. simpl. discriminate.
Qed.

Lemma with_status_same : forall b, with_status b (b_phase b) (b_attempts b) = b.
Proof. intros []. reflexivity. Qed.

Lemma failed_quiet : forall changed s b o, (forall b, changed b b = false) ->
  find_br (brs s) (b_pod b) = Some b -> is_failed b = true ->
  attempt_fails s (b_pod b) o = true ->
  reconcile (update_status_with changed) s (b_pod b) o = (s, RDone 0 false).
Proof.
  intros changed s b o Hrefl Hb Hf Hfail.
  assert (Hph : b_phase b = BFailed).
  { unfold is_failed in Hf. destruct (b_phase b); try discriminate. reflexivity. }
  assert (Hns : b_phase b <> BSucceeded) by congruence.
  pose proof (attempt_err s (b_pod b) b o Hb Hns) as Herr. rewrite Hfail in Herr.
  pose proof (attempt_fail_store s b o Herr) as Hst.
  unfold reconcile. rewrite Hb, Hph.
  destruct (attempt s b o) as [s1 err]. simpl in Herr, Hst. subst s1 err.
  assert (Hu : update_status_with changed b true = UDone None 0 false).
  { unfold update_status_with, shift_panics, next_status. unfold is_failed in Hf. rewrite Hph in Hf.
    destruct (b_limit b) as [l|] eqn:El.
    - assert (l >? b_attempts b = false) as -> by (apply Z.geb_le in Hf; rewrite Z.gtb_ltb; apply Z.ltb_ge; lia).
      simpl. rewrite <- Hph at 1. rewrite with_status_same. rewrite Hrefl. reflexivity.
    - simpl. rewrite <- Hph at 1. rewrite with_status_same. rewrite Hrefl. reflexivity. }
  rewrite Hu. reflexivity.
Qed.

Lemma bounded_retries_generic : forall (ok : Z -> Prop) changed, changed_ok ok changed ->
  bounded_retries_for ok (update_status_with changed).
Proof.
  intros ok changed Hok s0 tr s g Hs0 Hrun b Hin Hlim.
  assert (Hinit : tracked_inv ok s0 g_none).
  { split; rewrite Hs0; [constructor|intros ? []]. }
  pose proof (run_g_inv ok changed tr s0 g_none Hok Hinit s g Hrun) as [Hnd Hinv].
  destruct (Hinv b Hin) as [k [Hg [Hk [Ha [Hmin [Hpend Hfail]]]]]].
  exists k. split; [exact Hg|]. split; [exact Hk|]. split; [|split].
  - intros L HL. destruct (Hlim L HL) as [H0 HokL]. apply Hmin; assumption.
  - intros Hns H1 Hreach. unfold is_failed.
    destruct (b_phase b) eqn:Eph; [specialize (Hpend eq_refl); lia|congruence|].
    unfold limit_reached in Hreach. destruct (b_limit b) as [L|] eqn:EL; [|reflexivity].
    destruct (Hlim L eq_refl) as [H0 HokL]. rewrite (Hmin L eq_refl H0 HokL).
    apply Z.leb_le in Hreach. apply Z.geb_le. lia.
  - intros Hf o Hfails. apply failed_quiet; try assumption.
    + destruct Hok as [Hrefl _]. exact Hrefl.
    + rewrite find_br_findk. apply findk_in; assumption.
Qed.

(** the repaired rule satisfies clause 3 for every limit *)
Lemma bounded_retries_fixed : bounded_retries_statement update_status_fixed.
Proof. apply bounded_retries_generic. exact changed_fixed_ok. Qed.

(** the rule as it is satisfies it for limits 0 and 1 only *)
Lemma bounded_retries_v0_partial : bounded_retries_for (fun L => L <= 1) update_status_v0.
Proof. apply bounded_retries_generic. exact changed_v0_ok. Qed.

(** ** The rule as it is: stuck at one attempt, requeued for ever *)

Lemma v0_first_fail : forall L, 1 <= L ->
  run update_status_v0 ex_s0 [ex_commit L; Reconcile 1 Fail] = stuck_store L.
Proof.
  intros L HL. unfold run, step, ex_commit, commit, ex_s0. simpl find_br. cbv iota.
  unfold reconcile, update_status_v0, update_status_with, shift_panics, next_status, attempt. simpl.
  destruct (Z.gtb_spec L 0) as [_|Hle]; [|lia]. reflexivity.
Qed.

Lemma v0_stuck : forall L, 2 <= L ->
  reconcile update_status_v0 (stuck_store L) 1 Fail = (stuck_store L, RDone 2 false).
Proof.
  intros L HL. unfold reconcile, update_status_v0, update_status_with, shift_panics, next_status, attempt, stuck_store. simpl.
  destruct (Z.gtb_spec L 1) as [_|Hle]; [|lia]. reflexivity.
Qed.

Lemma v0_retries_forever : forall L k, 2 <= L ->
  let s := run update_status_v0 ex_s0 (ex_commit L :: ex_fails (S k)) in
  s = stuck_store L
  /\ (forall b, In b (brs s) -> b_attempts b = 1 /\ is_failed b = false)
  /\ reconcile update_status_v0 s 1 Fail = (s, RDone 2 false).
Proof.
  intros L k HL.
  assert (Hs : run update_status_v0 ex_s0 (ex_commit L :: ex_fails (S k)) = stuck_store L).
  { change (ex_commit L :: ex_fails (S k)) with ([ex_commit L; Reconcile 1 Fail] ++ ex_fails k).
    assert (Happ : forall upd a b s, run upd s (a ++ b) = run upd (run upd s a) b).
    { intros upd a. induction a as [|e a IH]; intros b s; simpl; [reflexivity|apply IH]. }
    rewrite Happ, v0_first_fail by lia.
    induction k as [|k IH]; simpl; [reflexivity|].
    rewrite v0_stuck by exact HL. simpl. exact IH. }
  cbv zeta. rewrite Hs. split; [reflexivity|]. split.
  - intros b [Hb|[]]. subst b. split; [reflexivity|]. unfold is_failed, stuck_br. simpl.
    rewrite Z.geb_leb. apply Z.leb_gt. lia.
  - apply v0_stuck. exact HL.
Qed.

(** ** Refutation witness for the rule as it is: limit 3, three failing reconciles *)
Lemma bounded_retries_v0_witness :
  exists s0 tr s g b L k,
    brs s0 = [] /\ run_g update_status_v0 s0 g_none tr = (s, g) /\
    In b (brs s) /\ b_limit b = Some L /\ 0 <= L /\ g (b_pod b) = Some k /\
    b_attempts b <> Z.min k L /\
    (b_phase b <> BSucceeded /\ 1 <= k /\ limit_reached b k = true /\ is_failed b = false) /\
    reconcile update_status_v0 s (b_pod b) Fail = (s, RDone 2 false).
Proof.
  exists ex_s0, (ex_commit 3 :: ex_fails 3).
  exists (fst (run_g update_status_v0 ex_s0 g_none (ex_commit 3 :: ex_fails 3))).
  exists (snd (run_g update_status_v0 ex_s0 g_none (ex_commit 3 :: ex_fails 3))).
  exists (stuck_br 3), 3, 3.
  split; [reflexivity|]. split; [symmetry; apply surjective_pairing|].
  split; [vm_compute; left; reflexivity|]. split; [reflexivity|]. split; [lia|].
  split; [vm_compute; reflexivity|]. split; [vm_compute; discriminate|].
  split; [split; [discriminate|split; [lia|split; vm_compute; reflexivity]]|].
  vm_compute. reflexivity.
Qed.

Lemma bounded_retries_v0_refuted : ~ bounded_retries_statement update_status_v0.
Proof.
  intro H. destruct bounded_retries_v0_witness as [s0 [tr [s [g [b [L [k Hw]]]]]]].
  destruct Hw as [Hs0 [Hrun [Hin [HL [H0 [Hg [Hne _]]]]]]].
  destruct (H s0 tr s g Hs0 Hrun b Hin) as [k' [Hg' [_ [Hmin _]]]].
  - intros L' HL'. rewrite HL in HL'. inversion HL'; subst. split; [exact H0|exact I].
  - rewrite Hg in Hg'. inversion Hg'; subst k'. apply Hne. apply Hmin. exact HL.
Qed.

(** * Statements over all interleavings *)

Lemma charged_trace : forall changed s0 tr, wf s0 ->
  let s := run (update_status_with changed) s0 tr in
  forall pd, In pd (pods s) -> p_phase pd = PPending ->
  (forall b, p_node pd = None -> find_br (brs s) (p_id pd) = Some b -> stale s b = false ->
      lookup (v_tasks (snapshot_view s)) (p_id pd) = Some (binding_task b pd)
      /\ In (p_id pd) (charged_on (snapshot_view s) (b_node b)))
  /\ (forall n, p_node pd = Some n -> In n (nodes s) ->
      In (p_id pd) (charged_on (snapshot_view s) n)).
Proof.
  intros changed s0 tr Hwf s. apply charged_until_terminal. apply run_wf. exact Hwf.
Qed.

Lemma cleanup_trace : forall changed s0 tr, wf s0 ->
  let upd := update_status_with changed in
  let s := run upd s0 tr in
  let s' := step upd s Snapshot in
  forall b, In b (brs s) ->
  (stale s b = true ->
     find_br (brs s') (b_pod b) = None
     /\ forall pd, In pd (pods s) -> p_id pd = b_pod b ->
          p_phase pd = PPending -> p_node pd = None -> p_deleting pd = false ->
          (lookup (v_tasks (snapshot_view s)) (p_id pd) = Some (pending_task pd)
           /\ forall n, ~ In (p_id pd) (charged_on (snapshot_view s) n))
          /\ (lookup (v_tasks (snapshot_view s')) (p_id pd) = Some (pending_task pd)
           /\ forall n, ~ In (p_id pd) (charged_on (snapshot_view s') n)))
  /\ (stale s b = false -> find_br (brs s') (b_pod b) = Some b).
Proof.
  intros changed s0 tr Hwf upd s s'. apply cleanup. apply run_wf. exact Hwf.
Qed.

(** * Non-vacuity *)
Lemma ex_nonvacuous :
  wf ex_s0
  /\ (let s := run update_status_v0 ex_s0 [ex_commit 3] in
      In ex_pod (pods s) /\ find_br (brs s) 1 = Some (with_status (stuck_br 3) BPending 0)
      /\ stale s (with_status (stuck_br 3) BPending 0) = false
      /\ charged_on (snapshot_view s) 1 = [1%positive]
      /\ lookup (v_used (snapshot_view s)) 1 = Some 100)
  /\ (let s := run update_status_v0 ex_s0 [ex_commit 3; EnvDeleteNode 1] in
      stale s (with_status (stuck_br 3) BPending 0) = true
      /\ brs (step update_status_v0 s Snapshot) = []
      /\ lookup (v_tasks (snapshot_view s)) 1 = Some (pending_task ex_pod))
  /\ (let s := run update_status_fixed ex_s0 (ex_commit 3 :: ex_fails 4) in
      exists b, brs s = [b] /\ b_attempts b = 3 /\ is_failed b = true
        /\ snd (run_g update_status_fixed ex_s0 g_none (ex_commit 3 :: ex_fails 4)) 1%positive = Some 4).
Proof.
  split.
  { split; simpl; repeat constructor; intros []. }
  split; [vm_compute; repeat split; left; reflexivity|].
  split; [vm_compute; repeat split|].
  exists (with_status (stuck_br 3) BFailed 3). vm_compute. repeat split.
Qed.

(** * The model under a sound rule passes the monitor (boolean clauses) *)

Lemma pos_list_eqb_refl : forall l, pos_list_eqb l l = true.
Proof. induction l as [|x l IH]; simpl; [reflexivity|]. rewrite Pos.eqb_refl. exact IH. Qed.
Lemma opt_pos_eqb_refl : forall o, opt_pos_eqb o o = true.
Proof. intros [x|]; simpl; [apply Pos.eqb_refl|reflexivity]. Qed.
Lemma status_eqb_refl : forall st, status_eqb st st = true.
Proof. intros []; reflexivity. Qed.
Lemma task_eqb_refl : forall t, task_eqb t t = true.
Proof.
  intro t. unfold task_eqb. rewrite opt_pos_eqb_refl, status_eqb_refl, pos_list_eqb_refl. reflexivity.
Qed.
Lemma opt_z_eqb_refl : forall o, opt_z_eqb o o = true.
Proof. intros [x|]; simpl; [apply Z.eqb_refl|reflexivity]. Qed.
Lemma br_phase_eqb_refl : forall p, br_phase_eqb p p = true.
Proof. intros []; reflexivity. Qed.
Lemma br_eqb_refl : forall b, br_eqb b b = true.
Proof.
  intro b. unfold br_eqb.
  rewrite !Pos.eqb_refl, pos_list_eqb_refl, opt_z_eqb_refl, br_phase_eqb_refl, Z.eqb_refl. reflexivity.
Qed.

Lemma has_task_intro : forall v p t, lookup (v_tasks v) p = Some t -> has_task v p t = true.
Proof. intros v p t H. unfold has_task. rewrite H. apply task_eqb_refl. Qed.

Lemma clause1_holds : forall s, wf s -> clause1 s (snapshot_view s) = true.
Proof.
  intros s Hwf. unfold clause1. apply andb_true_intro. split.
  - apply forallb_forall. intros pd Hin. unfold clause1_pod.
    destruct (p_phase pd) eqn:Hph; try reflexivity.
    destruct (charged_until_terminal s Hwf pd Hin Hph) as [H1 H2].
    destruct (p_node pd) as [n|] eqn:Hnode.
    + destruct (memp n (nodes s)) eqn:Hm; [|reflexivity].
      apply memp_In. apply H2; [reflexivity|apply memp_In; exact Hm].
    + destruct (find_br (brs s) (p_id pd)) as [b|] eqn:Hb; [|reflexivity].
      destruct (stale s b) eqn:Hst; [reflexivity|].
      destruct (H1 b eq_refl eq_refl Hst) as [Ht Hc].
      rewrite (has_task_intro _ _ _ Ht). simpl. apply memp_In. exact Hc.
  - apply forallb_forall. intros n Hn.
    unfold snapshot_view at 1. simpl v_used.
    rewrite (lookup_map_id (fun n => fold_right Z.add 0 (map p_req (charged_pods (pod_tasks s) n)))) by exact Hn.
    rewrite (charged_on_view s n Hn), charged_pods_eq. unfold sum_req. rewrite map_map.
    assert (Heq : map (fun x => match find_pod (pods s) (p_id x) with Some pd => p_req pd | None => 0 end)
                      (filter (is_charged s n) (pods s))
                  = map p_req (filter (is_charged s n) (pods s))).
    { apply map_ext_in. intros pd Hpd. apply filter_In in Hpd. destruct Hpd as [Hpd _].
      destruct Hwf as [Hp _]. rewrite find_pod_findk, (findk_in p_id _ _ Hp Hpd). reflexivity. }
    rewrite Heq. apply opt_z_eqb_refl.
Qed.

Lemma not_charged_anywhere : forall s p, (forall n, ~ In p (charged_on (snapshot_view s) n)) ->
  charged_anywhere (snapshot_view s) p = false.
Proof.
  intros s p H. unfold charged_anywhere. destruct (existsb _ _) eqn:E; [|reflexivity]. exfalso.
  apply existsb_exists in E. destruct E as [[n l] [Hin Hm]]. simpl in Hm.
  unfold snapshot_view in Hin. simpl in Hin. apply in_map_iff in Hin.
  destruct Hin as [m [Heq Hm']]. inversion Heq; subst.
  apply (H n). unfold charged_on, snapshot_view. simpl.
  rewrite (lookup_map_id (fun n => map p_id (charged_pods (pod_tasks s) n))) by exact Hm'.
  apply memp_In. exact Hm.
Qed.

Lemma view_failed : forall s b, wf s -> In b (brs s) ->
  lookup (v_failed (snapshot_view s)) (b_pod b) = Some (is_failed b).
Proof.
  intros s b [_ Hb] Hin. unfold snapshot_view. simpl.
  apply (lookup_map_key b_pod); assumption.
Qed.

Lemma clause2_holds : forall s, wf s -> clause2 s (snapshot_view s) (clean_stale s) = true.
Proof.
  intros s Hwf. unfold clause2. apply andb_true_intro. split.
  - apply forallb_forall. intros b Hin. unfold clause2_br.
    destruct (cleanup s Hwf b Hin) as [Hstale Hkeep].
    destruct (stale s b) eqn:Hst.
    + destruct (Hstale eq_refl) as [Hdel Hpods]. rewrite Hdel.
      destruct (find_pod (pods s) (b_pod b)) as [pd|] eqn:Hpd; [|reflexivity].
      rewrite find_pod_findk in Hpd. apply (findk_some p_id) in Hpd. destruct Hpd as [Hpin Hid].
      destruct (p_phase pd) eqn:Hph; try reflexivity.
      destruct (p_node pd) eqn:Hnode; try reflexivity.
      destruct (p_deleting pd) eqn:Hdl; try reflexivity.
      destruct (Hpods pd Hpin Hid Hph Hnode Hdl) as [[Ht Hc] _].
      rewrite (has_task_intro _ _ _ Ht), (not_charged_anywhere s _ Hc). reflexivity.
    + rewrite (Hkeep eq_refl). apply br_eqb_refl.
  - apply forallb_forall. intros b Hin. unfold reported_failed.
    rewrite (view_failed s b Hwf Hin), is_failed_spec. apply eqb_reflx.
Qed.

Lemma find_br_replace : forall l p b nb, find_br l p = Some b -> b_pod nb = p ->
  find_br (map (replace_br nb) l) p = Some nb.
Proof.
  intros l p b nb H Hk. unfold find_br in *. induction l as [|x l IH]; simpl in *; [discriminate|].
  assert (Hr : replace_br nb x = if Pos.eqb (b_pod x) p then nb else x)
    by (unfold replace_br; rewrite Hk; reflexivity).
  rewrite Hr. destruct (Pos.eqb (b_pod x) p) eqn:E.
  - rewrite Hk, Pos.eqb_refl. reflexivity.
  - rewrite E. apply IH. exact H.
Qed.

Lemma attempt_fails_br : forall s p o, attempt_fails s p o = true ->
  exists b, find_br (brs s) p = Some b /\ b_phase b <> BSucceeded.
Proof.
  intros s p o H. unfold attempt_fails in H. destruct (find_br (brs s) p) as [b|]; [|discriminate].
  exists b. split; [reflexivity|]. intro Hs. rewrite Hs in H. discriminate.
Qed.

Lemma next_status_fail_phase : forall b, b_phase (fst (next_status b true)) = BFailed.
Proof.
  intro b. unfold next_status. destruct (b_limit b); [destruct (_ >? _)|]; reflexivity.
Qed.

Lemma next_status_ok_phase : forall b, b_phase (fst (next_status b false)) = BSucceeded.
Proof. reflexivity. Qed.

Lemma count_ok_inv : forall (ok : Z -> Prop) g b, (forall L, ok L) -> br_inv ok g b -> count_ok b (g (b_pod b)) = true.
Proof.
  intros ok g b Hall [k [Hg [_ [_ [Hmin _]]]]]. unfold count_ok. rewrite Hg.
  destruct (b_limit b) as [l|] eqn:El; [|reflexivity].
  destruct (0 <=? l) eqn:E0; [|reflexivity]. apply Z.leb_le in E0.
  apply Z.eqb_eq. apply Hmin; [reflexivity|exact E0|apply Hall].
Qed.

Lemma clause3_holds : forall ok changed s g p o, changed_ok ok changed -> (forall L, ok L) ->
  tracked_inv ok s g ->
  clause3 s p o (fst (reconcile (update_status_with changed) s p o))
            (snd (reconcile (update_status_with changed) s p o))
            (ghost_step s (Reconcile p o) g) = true.
Proof.
  intros ok changed s g p o Hok Hall Hinv. unfold clause3.
  destruct (find_br (brs s) p) as [b|] eqn:Hb; [|reflexivity].
  pose proof (inv_reconcile ok changed s g p o Hok Hinv) as [Hnd' Hinv'].
  destruct Hinv as [Hnd Hinv].
  pose proof Hb as Hb2. rewrite find_br_findk in Hb2. apply (findk_some b_pod) in Hb2.
  destruct Hb2 as [Hinb Hkey].
  destruct (br_phase_eqb (b_phase b) BSucceeded) eqn:Ephase.
  { (* already succeeded: nothing happens *)
    assert (Hs : b_phase b = BSucceeded) by (destruct (b_phase b); simpl in Ephase; congruence).
    destruct (reconcile_brs_noop (update_status_with changed) s p o
                (or_intror (ex_intro _ b (conj Hb Hs)))) as [Hst Hf].
    rewrite Hst in *. rewrite Hb, Hf, Hs. rewrite br_eqb_refl, andb_true_r.
    pose proof (count_ok_inv ok _ b Hall (Hinv' b Hinb)) as Hc. rewrite Hkey in Hc. exact Hc. }
  assert (Hns : b_phase b <> BSucceeded) by (intro H; rewrite H in Ephase; discriminate).
  destruct (Hinv b Hinb) as [k [Hg [Hk [Ha _]]]].
  pose proof (reconcile_brs changed s p o b Hb Hns Ha) as Hbrs. cbv zeta in Hbrs.
  set (err := attempt_fails s p o) in *.
  set (nb := fst (next_status b err)) in *.
  assert (Hnbkey : b_pod nb = p) by (subst nb; rewrite next_status_key; exact Hkey).
  destruct Hok as [Hrefl [Hph Hatt]].
  assert (Hpost : exists b', find_br (brs (fst (reconcile (update_status_with changed) s p o))) p = Some b'
                             /\ b_phase b' = b_phase nb).
  { rewrite Hbrs. destruct (changed b nb) eqn:Ech.
    - exists nb. split; [apply (find_br_replace _ _ b); assumption|reflexivity].
    - exists b. split; [exact Hb|]. symmetry. apply (Hph b nb Ech). }
  destruct Hpost as [b' [Hb' Hphase']]. rewrite Hb'.
  pose proof Hb' as Hb3. rewrite find_br_findk in Hb3. apply (findk_some b_pod) in Hb3.
  destruct Hb3 as [Hinb' Hkey'].
  pose proof (Hinv' b' Hinb') as Hbi'.
  apply andb_true_intro. split.
  { pose proof (count_ok_inv ok _ b' Hall Hbi') as Hc. rewrite Hkey' in Hc. exact Hc. }
  destruct Hbi' as [k' [Hg' [Hk' [Ha' [Hmin' [_ Hfail']]]]]].
  rewrite Hkey' in Hg'.
  destruct err eqn:Herr.
  - (* failing attempt *)
    assert (Hf' : b_phase b' = BFailed) by (rewrite Hphase'; subst nb; apply next_status_fail_phase).
    rewrite Hg'. apply andb_true_intro. split.
    + destruct (limit_reached b' k') eqn:Hr; [|reflexivity].
      unfold spec_failed. rewrite Hf'. unfold limit_reached in Hr.
      destruct (b_limit b') as [l|] eqn:El; [|reflexivity].
      apply Z.leb_le in Hr. apply Z.leb_le.
      destruct (Z.le_gt_cases 0 l) as [H0|Hneg]; [|lia].
      rewrite (Hmin' l eq_refl H0 (Hall l)). lia.
    + destruct (spec_failed b) eqn:Hsf; [|reflexivity].
      assert (Hq : reconcile (update_status_with changed) s p o = (s, RDone 0 false)).
      { rewrite <- Hkey. apply failed_quiet; try assumption.
        - rewrite Hkey. exact Hb.
        - rewrite is_failed_spec. exact Hsf.
        - rewrite Hkey. exact Herr. }
      rewrite Hq in *. simpl in *. rewrite Hb in Hb'. inversion Hb'; subst b'. apply br_eqb_refl.
  - (* the attempt did not fail: the request is marked succeeded *)
    assert (Hs' : b_phase b' = BSucceeded) by (rewrite Hphase'; subst nb; apply next_status_ok_phase).
    rewrite Hs'. destruct (b_phase b); try reflexivity. congruence.
Qed.

Lemma monitor_sound_gen : forall ok changed, changed_ok ok changed -> (forall L, ok L) ->
  forall tr s g, wf s -> tracked_inv ok s g ->
  monitor_from s g (trace_of (update_status_with changed) s tr) = true.
Proof.
  intros ok changed Hok Hall tr. induction tr as [|e tr IH]; intros s g Hwf Hinv; [reflexivity|].
  simpl. apply andb_true_intro. split.
  - unfold step_ok. simpl. destruct e; try reflexivity.
    + apply andb_true_intro. split; [apply clause1_holds|apply clause2_holds]; exact Hwf.
    + apply (clause3_holds ok); assumption.
  - apply IH; [apply step_wf; exact Hwf|apply (inv_step ok); assumption].
Qed.

(** every history of the model with the repaired rule is accepted by the monitor
    that Run/C12.v evaluates on the real traces *)
Lemma monitor_sound_fixed : forall s0 tr, wf s0 -> brs s0 = [] ->
  monitor_from s0 g_none (trace_of update_status_fixed s0 tr) = true.
Proof.
  intros s0 tr Hwf Hs0. apply (monitor_sound_gen (fun _ => True) changed_fixed changed_fixed_ok (fun _ => I)).
  - exact Hwf.
  - split; rewrite Hs0; [constructor|intros ? []].
Qed.
