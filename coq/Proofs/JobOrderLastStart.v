(** C16, last-start stamps: the comparator chain ([job_less] = Session.JobOrderFn with
    the priority and elastic plugins, then CreationTimestamp, then UID) does not read
    PodGroupInfo.LastStartTimestamp ([j_last_start]); hence everything that is
    determined by the comparison - what a leaf queue keeps and the order in which it
    hands its jobs out, in the declarative collection and in the modelled
    PriorityQueue - commutes with any re-stamping of the jobs. The variant that
    orders by "in line since" ([job_less_in_line_since], shape of seeded change
    C16-5) is refuted on the README pair. *)
From Coq Require Import List ZArith Bool Lia.
From KaiV Require Import Model.JobOrder Model.JobOrderSpec Proofs.JobOrder Proofs.JobOrderMonitor Run.C16.
Import ListNotations.
Set Default Timeout 60.
Open Scope Z_scope.

(** * the comparison *)
Lemma job_less_ignores_last_start : forall a b x y,
    job_less (set_last_start a x) (set_last_start b y) = job_less a b.
Proof. intros a b x y. reflexivity. Qed.

Lemma set_last_start_only_sets_last_start : forall j x,
    j_uid (set_last_start j x) = j_uid j /\ j_queue (set_last_start j x) = j_queue j
    /\ j_prio (set_last_start j x) = j_prio j /\ j_subgroups (set_last_start j x) = j_subgroups j
    /\ j_ctime (set_last_start j x) = j_ctime j /\ j_shape (set_last_start j x) = j_shape j
    /\ j_pre (set_last_start j x) = j_pre j /\ j_req (set_last_start j x) = j_req j
    /\ j_last_start (set_last_start j x) = x.
Proof. intros j x. repeat split. Qed.

(** any re-stamping: every job gets the stamp [f] chooses for it *)
Definition restamp (f : job -> option Z) (j : job) : job := set_last_start j (f j).

Lemma job_less_restamp : forall f g a b, job_less (restamp f a) (restamp g b) = job_less a b.
Proof. intros. reflexivity. Qed.

(** * extensionality: structures that only compare *)
Definition res_map {A B} (f : A -> B) (r : res A) : res B :=
  match r with Ok a => Ok (f a) | Panic => Panic | OutOfFuel => OutOfFuel end.

Section Relabel.
  Context {A : Type}.
  Variable less : A -> A -> bool.
  Variable g : A -> A.
  Hypothesis less_g : forall a b, less (g a) (g b) = less a b.

  (** the declarative side *)
  Lemma insert_sorted_map : forall x l, insert_sorted less (g x) (map g l) = map g (insert_sorted less x l).
  Proof.
    intros x l. induction l as [|y r IH]; cbn [insert_sorted map]; [reflexivity|].
    rewrite less_g. destruct (less x y); cbn [map]; [reflexivity|]. now rewrite IH.
  Qed.

  Lemma ideal_push_map : forall d l x, ideal_push less d (map g l) (g x) = map g (ideal_push less d l x).
  Proof.
    intros d l x. unfold ideal_push. rewrite insert_sorted_map.
    destruct (d =? -1); [reflexivity|]. now rewrite firstn_map.
  Qed.

  Lemma fold_ideal_push_map : forall d xs l,
      fold_left (ideal_push less d) (map g xs) (map g l) = map g (fold_left (ideal_push less d) xs l).
  Proof.
    intros d xs. induction xs as [|x r IH]; intros l; cbn [fold_left map]; [reflexivity|].
    rewrite ideal_push_map. apply IH.
  Qed.

  Lemma sort_by_map_acc : forall xs acc,
      fold_left (fun acc x => insert_sorted less x acc) (map g xs) (map g acc)
      = map g (fold_left (fun acc x => insert_sorted less x acc) xs acc).
  Proof.
    induction xs as [|x r IH]; intros acc; cbn [fold_left map]; [reflexivity|].
    rewrite insert_sorted_map. apply IH.
  Qed.

  Lemma d_best_map : forall d xs, d_best less d (map g xs) = map g (d_best less d xs).
  Proof.
    intros d xs. unfold d_best, sort_by. pose proof (sort_by_map_acc xs []) as H. cbn [map] in H. rewrite H.
    destruct (d =? -1); [reflexivity|]. now rewrite firstn_map.
  Qed.

  (** the modelled container/heap and PriorityQueue *)
  Lemma upd_map : forall l i x, upd (map g l) i (g x) = map g (upd l i x).
  Proof.
    induction l as [|y r IH]; intros i x; destruct i; cbn [upd map]; try reflexivity. now rewrite IH.
  Qed.

  Lemma swap_map : forall l i j, swap (map g l) i j = map g (swap l i j).
  Proof.
    intros l i j. unfold swap. rewrite !nth_error_map.
    destruct (nth_error l i) as [a|]; cbn [option_map]; [|reflexivity].
    destruct (nth_error l j) as [b|]; cbn [option_map]; [|reflexivity].
    now rewrite !upd_map.
  Qed.

  Lemma lessi_map : forall l i j, lessi less (map g l) i j = lessi less l i j.
  Proof.
    intros l i j. unfold lessi. rewrite !nth_error_map.
    destruct (nth_error l i) as [a|]; cbn [option_map]; [|reflexivity].
    destruct (nth_error l j) as [b|]; cbn [option_map]; [|reflexivity].
    apply less_g.
  Qed.

  Lemma h_up_map : forall fuel l j, h_up less fuel (map g l) j = option_map (map g) (h_up less fuel l j).
  Proof.
    induction fuel as [|f IH]; intros l j; cbn [h_up]; [reflexivity|].
    rewrite lessi_map. destruct ((((j - 1) / 2) =? j)%nat || negb (lessi less l j ((j - 1) / 2))); [reflexivity|].
    rewrite swap_map. apply IH.
  Qed.

  Lemma h_down_map : forall fuel l i n,
      h_down less fuel (map g l) i n = option_map (fun r => (map g (fst r), snd r)) (h_down less fuel l i n).
  Proof.
    induction fuel as [|f IH]; intros l i n; cbn [h_down]; [reflexivity|].
    destruct (n <=? 2 * i + 1)%nat; [reflexivity|].
    rewrite !lessi_map.
    set (j := if ((2 * i + 1 + 1 <? n)%nat && lessi less l (2 * i + 1 + 1) (2 * i + 1)) then (2 * i + 1 + 1)%nat else (2 * i + 1)%nat).
    destruct (negb (lessi less l j i)); [reflexivity|].
    rewrite swap_map. apply IH.
  Qed.

  Lemma of_opt_map : forall {B C} (h : B -> C) (o : option B), of_opt (option_map h o) = res_map h (of_opt o).
  Proof. intros B C h [b|]; reflexivity. Qed.

  Lemma h_push_map : forall l x, h_push less (map g l) (g x) = res_map (map g) (h_push less l x).
  Proof.
    intros l x. unfold h_push. rewrite map_length.
    change (map g l ++ [g x]) with (map g l ++ map g [x]). rewrite <- map_app, h_up_map. apply of_opt_map.
  Qed.

  Lemma h_pop_map : forall l,
      h_pop less (map g l) = res_map (fun r => (g (fst r), map g (snd r))) (h_pop less l).
  Proof.
    intros l. unfold h_pop. rewrite map_length. destruct (List.length l) as [|n] eqn:E; [reflexivity|].
    rewrite swap_map, h_down_map.
    destruct (h_down less (S (S n)) (swap l 0 n) 0 n) as [[l1 k]|]; cbn [option_map of_opt bind fst snd]; [|reflexivity].
    rewrite nth_error_map. destruct (nth_error l1 n) as [x|]; cbn [option_map res_map fst snd]; [|reflexivity].
    now rewrite firstn_map.
  Qed.

  Lemma h_remove_map : forall l i,
      h_remove less (map g l) i = res_map (fun r => (g (fst r), map g (snd r))) (h_remove less l i).
  Proof.
    intros l i. unfold h_remove. rewrite map_length. destruct (List.length l) as [|n] eqn:E; [reflexivity|].
    destruct (n <? i)%nat; [reflexivity|].
    assert (H : (if (n =? i)%nat then Ok (map g l)
                 else r <- of_opt (h_down less (S (S n)) (swap (map g l) i n) i n) ;;
                      if (i <? snd r)%nat then Ok (fst r) else of_opt (h_up less (S i) (fst r) i))
                = res_map (map g)
                    (if (n =? i)%nat then Ok l
                     else r <- of_opt (h_down less (S (S n)) (swap l i n) i n) ;;
                          if (i <? snd r)%nat then Ok (fst r) else of_opt (h_up less (S i) (fst r) i))).
    { destruct (n =? i)%nat; [reflexivity|]. rewrite swap_map, h_down_map.
      destruct (h_down less (S (S n)) (swap l i n) i n) as [[l1 k]|]; cbn [option_map of_opt bind fst snd]; [|reflexivity].
      destruct (i <? k)%nat; [reflexivity|]. rewrite h_up_map. apply of_opt_map. }
    rewrite H. clear H.
    destruct (if (n =? i)%nat then Ok l else _) as [l1| |]; cbn [res_map bind]; try reflexivity.
    rewrite nth_error_map. destruct (nth_error l1 n) as [x|]; cbn [option_map res_map fst snd]; [|reflexivity].
    now rewrite firstn_map.
  Qed.

  Lemma iol_scan_map : forall steps l last i, iol_scan less (map g l) last i steps = iol_scan less l last i steps.
  Proof.
    induction steps as [|s IH]; intros l last i; cbn [iol_scan]; [reflexivity|]. rewrite lessi_map. apply IH.
  Qed.

  Lemma index_of_last_map : forall l, index_of_last less (map g l) = index_of_last less l.
  Proof. intros l. unfold index_of_last. rewrite map_length. apply iol_scan_map. Qed.

  Lemma pq_push_map : forall d l x, pq_push less d (map g l) (g x) = res_map (map g) (pq_push less d l x).
  Proof.
    intros d l x. unfold pq_push. rewrite h_push_map.
    destruct (h_push less l x) as [l1| |]; cbn [res_map bind]; try reflexivity.
    rewrite map_length. destruct (negb (d =? -1) && (d <? Z.of_nat (List.length l1))); [|reflexivity].
    rewrite index_of_last_map, h_remove_map.
    destruct (h_remove less l1 (index_of_last less l1)) as [[y l2]| |]; reflexivity.
  Qed.

  Lemma pq_pop_map : forall l,
      pq_pop less (map g l) = res_map (fun r => (option_map g (fst r), map g (snd r))) (pq_pop less l).
  Proof.
    intros [|x l]; [reflexivity|]. unfold pq_pop. cbn [map].
    change (g x :: map g l) with (map g (x :: l)). rewrite h_pop_map.
    destruct (h_pop less (x :: l)) as [[y l2]| |]; reflexivity.
  Qed.

  Lemma pq_fix_map : forall l i, pq_fix less (map g l) i = res_map (map g) (pq_fix less l i).
  Proof.
    intros l i. unfold pq_fix, h_fix. rewrite map_length, h_down_map.
    destruct (h_down less (S (List.length l)) l i (List.length l)) as [[l1 k]|]; cbn [option_map of_opt bind fst snd]; [|reflexivity].
    destruct (i <? k)%nat; [reflexivity|].
    destruct (i =? 0)%nat; [rewrite h_up_map; apply of_opt_map|].
    destruct (i <? List.length l)%nat; [rewrite h_up_map; apply of_opt_map|reflexivity].
  Qed.

  Lemma pq_push_all_map : forall d xs l,
      pq_push_all less d (map g l) (map g xs) = res_map (map g) (pq_push_all less d l xs).
  Proof.
    intros d xs. induction xs as [|x r IH]; intros l; cbn [pq_push_all map]; [reflexivity|].
    rewrite pq_push_map. destruct (pq_push less d l x) as [l1| |]; cbn [res_map bind]; try reflexivity. apply IH.
  Qed.
End Relabel.

(** * jobs *)
Lemma eligible_of_restamp : forall qs q f jobs,
    eligible_of qs q (map (restamp f) jobs) = map (restamp f) (eligible_of qs q jobs).
Proof.
  intros qs q f jobs. unfold eligible_of. induction jobs as [|j r IH]; cbn [map filter]; [reflexivity|].
  change (eligible qs (restamp f j)) with (eligible qs j). change (j_queue (restamp f j)) with (j_queue j).
  destruct (eligible qs j && (j_queue j =? q)); cbn [map]; now rewrite IH.
Qed.

(** what leaf queue [q] is specified to hold and hand out, in order *)
Theorem collection_ignores_last_start : forall qs depth q f jobs,
    d_best job_less depth (eligible_of qs q (map (restamp f) jobs))
    = map (restamp f) (d_best job_less depth (eligible_of qs q jobs)).
Proof.
  intros. rewrite eligible_of_restamp. apply d_best_map. intros a b. apply job_less_restamp.
Qed.

(** ... so the UIDs handed out per leaf queue, in order, are the same *)
Theorem pop_sequence_ignores_last_start : forall qs depth f jobs,
    (forall q, map j_uid (d_best job_less depth (eligible_of qs q (map (restamp f) jobs)))
               = map j_uid (d_best job_less depth (eligible_of qs q jobs)))
    /\ (forall q, map j_uid (leaf_get (collect_ideal qs depth (map (restamp f) jobs)) q)
                  = map j_uid (leaf_get (collect_ideal qs depth jobs) q)).
Proof.
  intros qs depth f jobs.
  assert (H : forall q, map j_uid (d_best job_less depth (eligible_of qs q (map (restamp f) jobs)))
                        = map j_uid (d_best job_less depth (eligible_of qs q jobs))).
  { intros q. rewrite collection_ignores_last_start, map_map. apply map_ext. reflexivity. }
  split; [exact H|]. intros q. rewrite !collect_ideal_is_d_best. apply H.
Qed.

(** the modelled PriorityQueue of a leaf (heap, bounded Push with indexOfLast, Pop)
    does on re-stamped jobs exactly what it does on the jobs *)
Theorem leaf_heap_ignores_last_start : forall f,
    (forall d l x, pq_push job_less d (map (restamp f) l) (restamp f x) = res_map (map (restamp f)) (pq_push job_less d l x))
    /\ (forall l, pq_pop job_less (map (restamp f) l)
                  = res_map (fun r => (option_map (restamp f) (fst r), map (restamp f) (snd r))) (pq_pop job_less l))
    /\ (forall l i, pq_fix job_less (map (restamp f) l) i = res_map (map (restamp f)) (pq_fix job_less l i))
    /\ (forall d xs, pq_push_all job_less d [] (map (restamp f) xs) = res_map (map (restamp f)) (pq_push_all job_less d [] xs)).
Proof.
  intros f. pose proof (fun a b => job_less_restamp f f a b) as H. repeat split.
  - intros. now apply pq_push_map.
  - intros. now apply pq_pop_map.
  - intros. now apply pq_fix_map.
  - intros d xs. now apply (pq_push_all_map job_less (restamp f) H d xs []).
Qed.

(** * the in-line-since variant (not the code; shape of seeded change C16-5) *)
(** README pair: [r_older] created at 0, started at 1800, no pod left; [r_younger]
    created at 900, never started; identical otherwise, leaf queue 2 of [g_qs];
    one GPU, given to the first job attempted *)
Definition r_older : job :=
  {| j_uid := 1; j_queue := 2; j_prio := 50; j_subgroups := [(0, 1)]; j_ctime := 0; j_shape := 0;
     j_pre := PPreemptible; j_req := [0; 0; 1000]; j_last_start := Some 1800 |}.
Definition r_younger : job :=
  {| j_uid := 2; j_queue := 2; j_prio := 50; j_subgroups := [(0, 1)]; j_ctime := 900; j_shape := 0;
     j_pre := PPreemptible; j_req := [0; 0; 1000]; j_last_start := None |}.

Lemma in_line_since_refuted_proof :
  j_queue r_older = j_queue r_younger /\ j_shape r_older = j_shape r_younger /\ j_prio r_older = j_prio r_younger
  /\ min_available_state r_older = min_available_state r_younger /\ j_ctime r_older < j_ctime r_younger
  (* the code: the older one first, whatever the stamps *)
  /\ job_less r_older r_younger = true /\ job_less r_younger r_older = false
  /\ d_best job_less (-1) [r_younger; r_older] = [r_older; r_younger]
  /\ pq_push_all job_less (-1) [] [r_younger; r_older] = Ok [r_older; r_younger]
  (* in line since: the younger one first *)
  /\ job_less_in_line_since r_older r_younger = false /\ job_less_in_line_since r_younger r_older = true
  /\ d_best job_less_in_line_since (-1) [r_younger; r_older] = [r_younger; r_older]
  /\ pq_push_all job_less_in_line_since 1 [] [r_younger; r_older] = Ok [r_younger]
  (* and it is not invariant under re-stamping, which the code is *)
  /\ job_less_in_line_since (set_last_start r_older None) (set_last_start r_younger None) = true
  /\ (exists a b x y, job_less_in_line_since (set_last_start a x) (set_last_start b y) <> job_less_in_line_since a b)
  (* both orders agree on jobs that never started and on jobs that hold a pod *)
  /\ (forall a b, j_last_start a = None -> j_last_start b = None -> job_less_in_line_since a b = job_less a b).
Proof.
  repeat match goal with |- _ /\ _ => split end; try (vm_compute; reflexivity).
  - exists r_older, r_younger, None, None. vm_compute. discriminate.
  - intros a b Ha Hb. unfold job_less_in_line_since, job_less, default_job_order_fns.
    cbn [job_order_fn_in_line_since job_order_fn]. unfold in_line_since. rewrite Ha, Hb. reflexivity.
Qed.
