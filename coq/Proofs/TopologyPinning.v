(** Which pods of a workload pin its required topology domain (property C04).

    The nested allocation of Model/Topology.v takes the pods that pin the
    domain as a list [act]; the session hands the plugin EVERY pod of the job
    with its status ([spods]) and the plugin's status test selects the pinning
    ones ([pinning pins]).  Here:
    - [pinning_sound pins]: a decision taken through the rule [pins] leaves the
      newly placed pods of every constrained (sub-)group in one required-level
      domain together with an ACTIVE pod of the group ([active_pods]: Allocated,
      Pipelined, Binding, Bound, Running), wherever the other pods of the
      workload - terminating, finished - sit;
    - it holds for the code's rule [pin_rule] (IsActiveAllocatedStatus), for
      all topology trees, sub-group trees, pod tables and oracles;
    - it fails for [pin_rule_used] (IsActiveUsedStatus, which also holds
      Releasing): on the world of seeded/C04-4 the pending pod is placed in the
      rack of the terminating pod while the running pod sits in another rack;
    - terminating / finished pods are irrelevant for the decision: erasing them
      from the table does not change the result. *)
From Coq Require Import List String ZArith Bool Lia.
From KaiV Require Import Model.Status Model.Placement Model.Topology Proofs.Topology.
Import ListNotations.
Open Scope string_scope.
Open Scope list_scope.

(** the required level of a constraint, when it has one that the topology knows *)
Definition required_level (topos : list topo) (tc : option tcons) : option (topo * nat) :=
  match tc with
  | None => None
  | Some c =>
      if String.eqb (tc_topo c) "" then None
      else match find_topo topos (tc_topo c) with
           | None => None
           | Some T =>
               if String.eqb (tc_req c) "" then None
               else match idx_of (tc_req c) (tp_levels T) with
                    | Some l => Some (T, l)
                    | None => None
                    end
           end
  end.

(** what a decision must guarantee, stated against the ACTIVE pods of the
    workload - not against whatever the rule [pins] selected *)
Definition pinned_conclusion (pins : status -> bool) (topos : list topo) (nodes : list pnode) (tasks : list positive)
           (g : sgt) (allowed : list string) (ps : spods) (act' : active_t) : Prop :=
  exists new, act' = new ++ pinning pins ps
    /\ Forall (fun e => In (snd e) allowed /\ In (fst e) (members g) /\ In (fst e) tasks) new
    /\ (forall g', In g' (subgroups g) ->
          GroupOK topos nodes (tc_of g') (map snd (entries (members g') (active_pods ps))) (map snd (entries (members g') new)))
    /\ (forall g' T l, In g' (subgroups g) -> required_level topos (tc_of g') = Some (T, l) ->
          InOneDomain T nodes l (map snd (entries (members g') (active_pods ps))) ->
          InOneDomain T nodes l (map snd (entries (members g') (active_pods ps)) ++ map snd (entries (members g') new))).

Definition pinning_sound (pins : status -> bool) : Prop :=
  forall topos nodes sel place tasks g allowed (ps : spods) act',
    (forall T, In T topos -> topo_wf T) -> NoDup (map nd_name nodes) -> NoDup (members g) ->
    IdsInjective topos nodes ->
    alloc_sg topos nodes sel place tasks g allowed (pinning pins ps) = Some act' ->
    pinned_conclusion pins topos nodes tasks g allowed ps act'.

(** * One domain for active ++ new *)

Lemma group_ok_one_domain : forall topos nodes tc T l active new,
  required_level topos tc = Some (T, l) ->
  GroupOK topos nodes tc active new ->
  InOneDomain T nodes l active ->
  InOneDomain T nodes l (active ++ new).
Proof.
  intros topos nodes tc T l active new Hreq Hok Hact.
  unfold required_level in Hreq. unfold GroupOK in Hok.
  destruct tc as [c|]; [| discriminate].
  destruct (String.eqb (tc_topo c) ""); [discriminate |].
  destruct (find_topo topos (tc_topo c)) as [T'|]; [| discriminate].
  destruct (String.eqb (tc_req c) ""); [discriminate |].
  destruct (idx_of (tc_req c) (tp_levels T')) as [l'|]; [| discriminate].
  inversion Hreq; subst T' l'. clear Hreq.
  destruct Hok as [Hnew Hboth].
  destruct new as [|n0 nr].
  - rewrite app_nil_r. exact Hact.
  - destruct active as [|a0 ar].
    + cbn. exact Hnew.
    + destruct Hboth as [a [Ha [pre Hpre]]]; [discriminate | discriminate |].
      destruct Hact as [pre0 Hpre0].
      exists pre0. intros nm Hnm. apply in_app_or in Hnm. destruct Hnm as [Hnm | Hnm].
      * apply Hpre0. exact Hnm.
      * destruct (Hpre0 a Ha) as [va [Hva Hpa]].
        destruct (Hpre a (or_introl eq_refl)) as [va' [Hva' Hpa']].
        rewrite Hva in Hva'. inversion Hva'; subst va'.
        destruct (Hpre nm (or_intror Hnm)) as [v [Hv Hp]].
        exists v. split; [exact Hv |]. rewrite Hp, <- Hpa', Hpa. reflexivity.
Qed.

(** * The code's rule *)

Theorem pin_rule_sound : pinning_sound pin_rule.
Proof.
  intros topos nodes sel place tasks g allowed ps act' Hwf Hnames Hnd Hinj H.
  destruct (topology_required_partial topos nodes sel place tasks g allowed _ act' Hwf Hnames Hnd Hinj H)
    as [new [Hact [Hnew Hg]]].
  exists new. split; [exact Hact | split; [exact Hnew | split]].
  - exact Hg.
  - intros g' T l Hg' Hreq Hone. eapply group_ok_one_domain; [exact Hreq | apply Hg; exact Hg' | exact Hone].
Qed.

(** * Pods that are not active do not take part in the decision *)

Definition only_active (ps : spods) : spods :=
  filter (fun e : positive * string * status => active_allocated (snd e)) ps.

Lemma pinning_only_active : forall ps, pinning pin_rule (only_active ps) = pinning pin_rule ps.
Proof.
  induction ps as [|[[p n] s] r IH]; [reflexivity |].
  cbn [only_active filter snd]. destruct (active_allocated s) eqn:Hs.
  - cbn [pinning flat_map snd fst]. unfold pin_rule at 1 3. rewrite Hs. cbn [app]. f_equal. exact IH.
  - cbn [pinning flat_map snd fst]. unfold pin_rule at 2. rewrite Hs. cbn [app]. exact IH.
Qed.

Theorem inactive_pods_ignored : forall topos nodes sel place tasks g allowed ps,
  alloc_sg topos nodes sel place tasks g allowed (pinning pin_rule ps)
  = alloc_sg topos nodes sel place tasks g allowed (pinning pin_rule (only_active ps)).
Proof. intros. rewrite pinning_only_active. reflexivity. Qed.

(** * The world of seeded/C04-4 *)

Definition rd_T := mkTopo "cluster-topology" ["k8s.io/rack"].
Definition rd_node (name rack : string) : pnode := mkPNode name [("k8s.io/rack", rack)] [] false [].
(** rack1 {node-a}; rack2 {node-b, node-c} *)
Definition rd_nodes : list pnode := [rd_node "node-a" "rack1"; rd_node "node-b" "rack2"; rd_node "node-c" "rack2"].
Definition rd_names := map nd_name rd_nodes.
(** elastic-job: pod 1 Running on node-a, pod 2 Releasing on node-b, pod 3 Pending; required level rack *)
Definition rd_ps : spods := [(1%positive, "node-a", Running); (2%positive, "node-b", Releasing)].
Definition rd_tree : sgt := PSet (Some (mkTC "cluster-topology" "k8s.io/rack" "")) [1; 2; 3]%positive.
(** one GPU per node: only node-c is free *)
Definition rd_place (allowed : list string) (_ : positive) (_ : active_t) : option string :=
  find (String.eqb "node-c") allowed.
(** the same world with a second free node in rack1 *)
Definition rd_nodes' : list pnode := rd_nodes ++ [rd_node "node-d" "rack1"].
Definition rd_place' (allowed : list string) (_ : positive) (_ : active_t) : option string :=
  find (fun n => String.eqb "node-c" n || String.eqb "node-d" n) allowed.

Lemma rd_wf : forall T, In T [rd_T] -> topo_wf T.
Proof.
  intros T [Heq | []]. subst T. split; [repeat constructor; cbn; intuition discriminate | cbn; intuition discriminate].
Qed.

Lemma rd_runs :
  (* the code's rule: rack1 is pinned and full - the pod stays pending *)
  alloc_sg [rd_T] rd_nodes ex_sel_all rd_place [3%positive] rd_tree rd_names (pinning pin_rule rd_ps) = None
  (* with room in rack1 the pod goes there, although rack2 has room too and comes first in the node list *)
  /\ alloc_sg [rd_T] rd_nodes' ex_sel_all rd_place' [3%positive] rd_tree (map nd_name rd_nodes') (pinning pin_rule rd_ps)
     = Some [(3%positive, "node-d"); (1%positive, "node-a")]
  (* pinning on the active-USED statuses: rack2 counts as held, the pod is placed next to the terminating one *)
  /\ alloc_sg [rd_T] rd_nodes ex_sel_all rd_place [3%positive] rd_tree rd_names (pinning pin_rule_used rd_ps)
     = Some [(3%positive, "node-c"); (1%positive, "node-a"); (2%positive, "node-b")].
Proof. repeat split; vm_compute; reflexivity. Qed.

Theorem pin_rule_used_refuted : ~ pinning_sound pin_rule_used.
Proof.
  intro H.
  assert (Hn : NoDup (map nd_name rd_nodes)) by (cbn; repeat constructor; cbn; intuition discriminate).
  assert (Hm : NoDup (members rd_tree)) by (cbn; repeat constructor; cbn; intuition discriminate).
  assert (Hinj : IdsInjective [rd_T] rd_nodes) by (apply ids_injective_b_sound; vm_compute; reflexivity).
  destruct (H [rd_T] rd_nodes ex_sel_all rd_place [3%positive] rd_tree rd_names rd_ps _ rd_wf Hn Hm Hinj
              (proj2 (proj2 rd_runs))) as [new [Heq [_ [Hg _]]]].
  change (pinning pin_rule_used rd_ps) with [(1%positive, "node-a"); (2%positive, "node-b")] in Heq.
  change [(3%positive, "node-c"); (1%positive, "node-a"); (2%positive, "node-b")]
    with ([(3%positive, "node-c")] ++ [(1%positive, "node-a"); (2%positive, "node-b")]) in Heq.
  apply app_inv_tail in Heq. subst new.
  specialize (Hg rd_tree (or_introl eq_refl)).
  unfold GroupOK, tc_of, rd_tree in Hg. cbn in Hg. destruct Hg as [_ Hg].
  destruct Hg as [a [Ha [pre Hpre]]]; [discriminate | discriminate |].
  destruct Ha as [Ha | []]. subst a.
  destruct (Hpre "node-a" (or_introl eq_refl)) as [v1 [Hv1 Hp1]].
  destruct (Hpre "node-c" (or_intror (or_introl eq_refl))) as [v2 [Hv2 Hp2]].
  vm_compute in Hv1. vm_compute in Hv2. inversion Hv1. inversion Hv2. subst v1 v2.
  rewrite <- Hp1 in Hp2. vm_compute in Hp2. discriminate.
Qed.
